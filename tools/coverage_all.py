#!/venv/bin/python
"""Measurement, not a check: runs every property's quick tier with VERIF_COVERAGE=1 (harness/cov.py) and writes
coverage/ALL.txt — the lines of /repo/tupimage that NO check executed (intersection of the per-check misses),
function by function.   usage: tools/coverage_all.py [--jobs N] [--merge-only] [C01 C02 ...]"""
import json, os, subprocess, sys
from concurrent.futures import ThreadPoolExecutor
V = "/verif"
args = sys.argv[1:]
jobs = int(args[args.index("--jobs") + 1]) if "--jobs" in args else 3
props = [a for a in args if a.startswith("C")] or [json.loads(l)["id"] for l in open(f"{V}/properties.jsonl")]
if "--merge-only" not in args:
    def one(p):
        r = subprocess.run([f"{V}/check", p, "--tier", "quick", "--no-build"], env=dict(os.environ, VERIF_COVERAGE="1"),
                           stdout=subprocess.PIPE, stderr=subprocess.STDOUT, text=True)
        return p, r.returncode, r.stdout.strip().splitlines()[-1:] 
    with ThreadPoolExecutor(jobs) as ex:
        for p, rc, last in ex.map(one, props):
            print(p, rc, *last)
miss = None   # file -> fn -> set(lines)
totals = {}
for p in props:
    f = f"{V}/coverage/{p}.json"
    if not os.path.exists(f):
        continue
    d = json.load(open(f))
    cur = {fn: {q: set(ls) for q, ls in v["missed_by_function"].items()} for fn, v in d.items()}
    for fn, v in d.items():
        totals[fn] = v["code_lines"]
    if miss is None:
        miss = cur
    else:
        for fn in list(miss):
            for q in list(miss[fn]):
                miss[fn][q] &= cur.get(fn, {}).get(q, set())
                if not miss[fn][q]:
                    del miss[fn][q]
def ranges(ls):
    out, a, b = [], None, None
    for x in sorted(ls):
        if a is None: a = b = x
        elif x == b + 1: b = x
        else: out.append(f"{a}" if a == b else f"{a}-{b}"); a = b = x
    if a is not None: out.append(f"{a}" if a == b else f"{a}-{b}")
    return ",".join(out)
lines = []
for fn in sorted(miss or {}):
    n = sum(len(s) for s in miss[fn].values())
    lines.append(f"{fn}: {totals[fn] - n}/{totals[fn]} code lines executed by at least one check")
    for q, s in sorted(miss[fn].items(), key=lambda kv: min(kv[1])):
        lines.append(f"    {q}: never executed: {ranges(s)}")
open(f"{V}/coverage/ALL.txt", "w").write("\n".join(lines) + "\n")
print("\n".join(l for l in lines if not l.startswith("    ")))
