#!/venv/bin/python
"""usage: tools/import_seeds.py ROUND SRC_ROOT   — copies SRC_ROOT/C*/out/*/ into /verif/seeded/, tagging meta.json with
"round": ROUND; a name that already exists in seeded/ (with different patch) gets the suffix -r<ROUND>. Prints the new dirs."""
import json, os, shutil, sys, glob
rnd = int(sys.argv[1]); root = sys.argv[2]
V = "/verif/seeded"
for sd in sorted(glob.glob(os.path.join(root, "C*", "out", "*"))):
    if not all(os.path.exists(os.path.join(sd, f)) for f in ("patch.diff", "demo.py", "meta.json")):
        print("INCOMPLETE", sd, file=sys.stderr); continue
    name = os.path.basename(sd)
    dst = os.path.join(V, name)
    if os.path.exists(dst):
        if open(os.path.join(dst, "patch.diff")).read() == open(os.path.join(sd, "patch.diff")).read():
            print(dst); continue
        dst = os.path.join(V, f"{name}-r{rnd}")
        if os.path.exists(dst):
            print(dst); continue
    shutil.copytree(sd, dst)
    mp = os.path.join(dst, "meta.json")
    m = json.load(open(mp)); m["round"] = rnd
    json.dump(m, open(mp, "w"), indent=1)
    print(dst)
