#!/venv/bin/python
"""Run tools/try_seed.py over seed directories in parallel and summarise.
usage: tools/run_seeds.py [--tests] [--tier quick] [--jobs N] [--import SRC_DIR ...] [seed dirs ... | (default) seeded/*]
--import copies each SRC_DIR/* seed directory into /verif/seeded/ first (if it has patch.diff, demo.py, meta.json)."""
import json, os, shutil, subprocess, sys
from concurrent.futures import ThreadPoolExecutor
V = "/verif"
args = sys.argv[1:]
tests = "--tests" in args
tier = args[args.index("--tier") + 1] if "--tier" in args else "quick"
jobs = int(args[args.index("--jobs") + 1]) if "--jobs" in args else 4
dirs = []
i = 0
skip = set()
while i < len(args):
    a = args[i]
    if a in ("--tier", "--jobs"):
        i += 2; continue
    if a == "--import":
        src = args[i + 1]
        for d in sorted(os.listdir(src)):
            sd = os.path.join(src, d)
            if all(os.path.exists(os.path.join(sd, f)) for f in ("patch.diff", "demo.py", "meta.json")):
                dst = os.path.join(V, "seeded", d)
                if not os.path.exists(dst):
                    shutil.copytree(sd, dst)
                dirs.append(dst)
        i += 2; continue
    if a.startswith("--"):
        i += 1; continue
    dirs.append(os.path.abspath(a)); i += 1
if not dirs:
    dirs = [os.path.join(V, "seeded", d) for d in sorted(os.listdir(os.path.join(V, "seeded")))]
def one(d):
    cmd = [os.path.join(V, "tools/try_seed.py"), d, "--tier", tier] + (["--tests"] if tests else [])
    r = subprocess.run(cmd, stdout=subprocess.PIPE, stderr=subprocess.STDOUT, text=True)
    try:
        res = json.loads(r.stdout.strip().splitlines()[-1])
    except Exception:
        res = {"seed": os.path.basename(d), "error": r.stdout[-300:]}
    return d, res
with ThreadPoolExecutor(jobs) as ex:
    for d, res in ex.map(one, dirs):
        caught = res.get("check_rc") == 1
        ok = res.get("applies") and res.get("demo_changed_rc") == 1 and res.get("demo_original_rc") == 0 and (not tests or res.get("tests_rc") == 0)
        print(f"{res.get('seed'):55s} confirmed={bool(ok)!s:5} tests={res.get('tests_rc','-')} caught={caught!s:5} check_rc={res.get('check_rc')} wall={res.get('check_wall')} {res.get('error','')[:100]}")
        mp = os.path.join(d, "meta.json")
        try:
            m = json.load(open(mp))
            m["verif_run"] = {k: res.get(k) for k in ("applies", "demo_changed_rc", "demo_original_rc", "tests_rc", "tests_failed_first_run", "tests_still_failing", "check_rc", "check_wall", "check_lines")}
            m["verif_run"]["tier"] = tier
            m["verif_run"]["commands"] = ["git worktree add <wt> HEAD; git apply patch.diff", "/venv/bin/python demo.py (in <wt>)",
                                          "/venv/bin/python -m pytest -q -p no:cacheprovider (in <wt>)" if tests else "(tests not re-run in this pass)",
                                          f"VERIF_REPO=<wt> ./check {m.get('property')} --tier {tier}", "git checkout -- . ; demo.py again"]
            json.dump(m, open(mp, "w"), indent=1)
        except Exception as e:
            print("  meta update failed", e)
