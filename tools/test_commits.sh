#!/bin/sh
# run the repo's test suite at each given commit of /repo in a scratch worktree (sequential per invocation)
for c in "$@"; do
  wt=$(mktemp -d /tmp/tcwt_XXXX); rmdir $wt
  git -C /repo worktree add -q $wt $c
  (cd $wt && /venv/bin/python -m pytest -q -p no:cacheprovider --timeout=900 2>&1 | tail -1 | sed "s/^/$c: /")
  git -C /repo worktree remove --force $wt
done
