#!/venv/bin/python
"""Confirm a seeded change and run our check against it.
usage: tools/try_seed.py <seed-dir> [--tests] [--tier quick]
Creates a private scratch worktree of /repo (HEAD), applies patch.diff, runs demo.py (must FAIL),
optionally the repo test suite (must pass), our check with VERIF_REPO=<worktree> (want exit 1),
then reverts and runs demo.py again (must PASS). Prints one JSON line; removes the worktree."""
import json, os, subprocess, sys, tempfile, shutil, time
seed = os.path.abspath(sys.argv[1])
tests = "--tests" in sys.argv
tier = sys.argv[sys.argv.index("--tier") + 1] if "--tier" in sys.argv else "quick"
meta = json.load(open(os.path.join(seed, "meta.json")))
prop = meta["property"]
wt = tempfile.mkdtemp(prefix="seedwt_")
os.rmdir(wt)
def sh(cmd, cwd=None, env=None, timeout=3000):
    r = subprocess.run(cmd, shell=True, cwd=cwd, env=env, stdout=subprocess.PIPE, stderr=subprocess.STDOUT, text=True, timeout=timeout)
    return r.returncode, r.stdout
res = {"seed": os.path.basename(seed), "property": prop}
try:
    rc, out = sh(f"git -C /repo worktree add -q {wt} HEAD")
    assert rc == 0, out
    rc, out = sh(f"git apply {seed}/patch.diff", cwd=wt)
    if rc != 0:
        # the patch was written against an earlier HEAD of /repo (before a later `fix:` commit touched the same lines)
        rc, out = sh(f"git apply --3way {seed}/patch.diff", cwd=wt)
        res["applied_3way"] = rc == 0
    res["applies"] = rc == 0
    if rc != 0:
        res["apply_error"] = out[-300:]
    else:
        demo_tmp = tempfile.mkdtemp(prefix="seed-demo-")      # demos (and the library they drive) leave files in the temp directory
        demo_env = dict(os.environ, TMPDIR=demo_tmp)
        rc, out = sh(f"/venv/bin/python {seed}/demo.py", cwd=wt, env=demo_env, timeout=1800)
        res["demo_changed_rc"] = rc
        res["demo_changed_tail"] = out.strip().splitlines()[-1][:200] if out.strip() else ""
        if tests:
            rc, out = sh("/venv/bin/python -m pytest -q -rf -p no:cacheprovider --timeout=900", cwd=wt)
            res["tests_tail"] = out.strip().splitlines()[-1][:120] if out.strip() else ""
            failed = [l.split()[1] for l in out.splitlines() if l.startswith("FAILED ")]
            res["tests_failed_first_run"] = failed
            # the suite has a load-sensitive 20 ms timing assertion; re-run failures in isolation
            still = []
            for t in failed:
                ok = False
                for _ in range(2):
                    rc2, out2 = sh(f"/venv/bin/python -m pytest -q -p no:cacheprovider --timeout=900 '{t}'", cwd=wt)
                    if rc2 == 0:
                        ok = True
                        break
                if not ok:
                    still.append(t)
            res["tests_rc"] = 0 if (rc == 0 or (failed and not still)) else 1
            res["tests_still_failing"] = still
        env = dict(os.environ, VERIF_REPO=wt)
        t0 = time.time()
        rc, out = sh(f"./check {prop} --tier {tier}", cwd="/verif", env=env)
        res["check_rc"] = rc
        res["check_wall"] = round(time.time() - t0, 1)
        res["check_lines"] = [l for l in out.splitlines() if l.startswith("VIOLATION") or l.startswith("[") or "FAILURE" in l or "ERROR" in l][-4:]
        sh("git reset -q --hard HEAD", cwd=wt)     # (a 3-way apply stages the patch: restore index and tree)
        rc, out = sh(f"/venv/bin/python {seed}/demo.py", cwd=wt, env=demo_env, timeout=1800)
        res["demo_original_rc"] = rc
        shutil.rmtree(demo_tmp, ignore_errors=True)
finally:
    sh(f"git -C /repo worktree remove --force {wt}")
    shutil.rmtree(wt, ignore_errors=True)
print(json.dumps(res))
