/-
  Tup.Basic — byte strings, hex transport, decimal rendering.
  No Mathlib. Everything here is executable (used by the compiled drivers) and small
  enough to be reasoned about with core lemmas.
-/
namespace Tup

abbrev Bytes := List UInt8

/-- ASCII bytes of a string literal (only used on ASCII literals). -/
def asc (s : String) : Bytes := s.toUTF8.data.toList

def hexDigit (n : Nat) : Char :=
  if n < 10 then Char.ofNat (48 + n) else Char.ofNat (87 + n)

def toHex (bs : Bytes) : String :=
  String.ofList (bs.flatMap fun b => [hexDigit (b.toNat / 16), hexDigit (b.toNat % 16)])

def hexVal (c : Char) : Option Nat :=
  if '0' ≤ c ∧ c ≤ '9' then some (c.toNat - 48)
  else if 'a' ≤ c ∧ c ≤ 'f' then some (c.toNat - 87)
  else if 'A' ≤ c ∧ c ≤ 'F' then some (c.toNat - 55)
  else none

def ofHexAux : List Char → Option Bytes
  | [] => some []
  | [_] => none
  | a :: b :: rest => do
      let x ← hexVal a
      let y ← hexVal b
      let r ← ofHexAux rest
      pure (UInt8.ofNat (x * 16 + y) :: r)

/-- `-` denotes the empty byte string on the wire (a line protocol cannot carry an empty token). -/
def ofHex (s : String) : Option Bytes :=
  if s = "-" then some [] else ofHexAux s.toList

def hexOut (bs : Bytes) : String := if bs.isEmpty then "-" else toHex bs

/-- Decimal rendering of a natural number as ASCII bytes: Python's `str(n).encode()` / `b"%d" % n`. -/
def natToDec (n : Nat) : Bytes := (Nat.toDigits 10 n).map fun c => UInt8.ofNat c.toNat

/-- Parse a non-empty run of ASCII digits. -/
def decToNat? (bs : Bytes) : Option Nat :=
  if bs.isEmpty then none
  else bs.foldlM (fun acc b => if 48 ≤ b.toNat ∧ b.toNat ≤ 57 then some (acc * 10 + (b.toNat - 48)) else none) 0

def ESC : UInt8 := 27

/-- split a byte string on a separator byte (like Python's `bytes.split(sep)`): always ≥ 1 piece. -/
def splitOn (sep : UInt8) : Bytes → List Bytes
  | [] => [[]]
  | b :: rest =>
    if b = sep then [] :: splitOn sep rest
    else match splitOn sep rest with
      | [] => [[b]]
      | p :: ps => (b :: p) :: ps

def boolStr (b : Bool) : String := if b then "1" else "0"

end Tup
