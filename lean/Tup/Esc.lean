import Tup.Basic
/-!
  Escape-sequence tokens: what the library emits on the display stream and what a terminal
  parses.  `serialize` is the byte form, `parse` the terminal-side tokenizer (ECMA-48 framing:
  CSI parameter bytes 0x30-0x3F, final byte 0x40-0x7E; APC/DCS strings terminated by ESC \;
  two-byte ESC sequences; C0 controls; UTF-8 text).  No Mathlib.
-/
namespace Tup

inductive Tok where
  | char (cp : Nat)                          -- one decoded UTF-8 code point ≥ 0x20 (printable or combining)
  | c0 (b : Nat)                             -- C0 control other than ESC (LF = 10, CR = 13, …)
  | csi (params : List Nat) (final : Nat)    -- ESC [ p1 ; p2 … final      (missing parameter = 0)
  | esc (final : Nat)                        -- ESC final   (ESC D, ESC E, ESC c, …)
  | apc (body : Bytes)                       -- ESC _ body ESC \
  | dcs (body : Bytes)                       -- ESC P body ESC \
  | bad (b : Nat)                            -- byte that fits nowhere (ill-formed UTF-8, truncated sequence)
deriving DecidableEq, Repr, Inhabited

/-- UTF-8 encoding of a code point (< 0x110000). -/
def utf8Enc (cp : Nat) : Bytes :=
  if cp < 0x80 then [UInt8.ofNat cp]
  else if cp < 0x800 then [UInt8.ofNat (0xC0 + cp / 64), UInt8.ofNat (0x80 + cp % 64)]
  else if cp < 0x10000 then
    [UInt8.ofNat (0xE0 + cp / 4096), UInt8.ofNat (0x80 + cp / 64 % 64), UInt8.ofNat (0x80 + cp % 64)]
  else
    [UInt8.ofNat (0xF0 + cp / 262144), UInt8.ofNat (0x80 + cp / 4096 % 64), UInt8.ofNat (0x80 + cp / 64 % 64),
     UInt8.ofNat (0x80 + cp % 64)]

def joinParams : List Nat → Bytes
  | [] => []
  | [p] => natToDec p
  | p :: ps => natToDec p ++ [59] ++ joinParams ps

def Tok.serialize : Tok → Bytes
  | .char cp => utf8Enc cp
  | .c0 b => [UInt8.ofNat b]
  | .csi ps f => [ESC, 91] ++ joinParams ps ++ [UInt8.ofNat f]
  | .esc f => [ESC, UInt8.ofNat f]
  | .apc body => [ESC, 95] ++ body ++ [ESC, 92]
  | .dcs body => [ESC, 80] ++ body ++ [ESC, 92]
  | .bad b => [UInt8.ofNat b]

def serialize (ts : List Tok) : Bytes := ts.flatMap Tok.serialize

/-- continuation byte payload -/
def contBits (b : UInt8) : Option Nat := if 0x80 ≤ b.toNat ∧ b.toNat < 0xC0 then some (b.toNat - 0x80) else none

/-- CSI parameter parsing: digits and ';' only (what the library emits); other parameter bytes
    (e.g. ':' or '?') make the whole parameter list `none`. -/
def parseParams (bs : Bytes) : Option (List Nat) :=
  if bs.isEmpty then some []
  else (splitOn 59 bs).mapM fun p => if p.isEmpty then some 0 else decToNat? p

/-- read a string body up to ESC \ ; returns (body, rest-after-terminator) -/
def takeString : Bytes → Bytes → Option (Bytes × Bytes)
  | _, [] => none
  | acc, 27 :: 92 :: rest => some (acc.reverse, rest)
  | acc, b :: rest => takeString (b :: acc) rest

def takeWhileB (p : UInt8 → Bool) : Bytes → Bytes × Bytes
  | [] => ([], [])
  | b :: rest => if p b then let (a, r) := takeWhileB p rest; (b :: a, r) else ([], b :: rest)

/-- The tokenizer. Fuel = input length suffices (every step consumes ≥ 1 byte). -/
def parseAux : Nat → Bytes → List Tok
  | 0, _ => []
  | _, [] => []
  | fuel + 1, b :: rest =>
    if b = ESC then
      match rest with
      | [] => [.bad 27]
      | 91 :: r =>   -- CSI
        let (ps, r1) := takeWhileB (fun x => 0x30 ≤ x.toNat && x.toNat ≤ 0x3F) r
        let (_, r2) := takeWhileB (fun x => 0x20 ≤ x.toNat && x.toNat ≤ 0x2F) r1
        match r2 with
        | [] => [.bad 27]
        | f :: r3 =>
          if 0x40 ≤ f.toNat ∧ f.toNat ≤ 0x7E then
            match parseParams ps with
            | some l => .csi l f.toNat :: parseAux fuel r3
            | none => .bad 27 :: parseAux fuel r3
          else .bad 27 :: parseAux fuel r3
      | 95 :: r => match takeString [] r with
        | some (body, r') => .apc body :: parseAux fuel r'
        | none => [.bad 27]
      | 80 :: r => match takeString [] r with
        | some (body, r') => .dcs body :: parseAux fuel r'
        | none => [.bad 27]
      | f :: r => .esc f.toNat :: parseAux fuel r
    else if b.toNat < 0x20 then .c0 b.toNat :: parseAux fuel rest
    else if b.toNat < 0x80 then .char b.toNat :: parseAux fuel rest
    else if 0xC0 ≤ b.toNat ∧ b.toNat < 0xE0 then
      match rest with
      | b1 :: r => match contBits b1 with
        | some x => .char ((b.toNat - 0xC0) * 64 + x) :: parseAux fuel r
        | none => .bad b.toNat :: parseAux fuel rest
      | _ => [.bad b.toNat]
    else if 0xE0 ≤ b.toNat ∧ b.toNat < 0xF0 then
      match rest with
      | b1 :: b2 :: r => match contBits b1, contBits b2 with
        | some x, some y => .char ((b.toNat - 0xE0) * 4096 + x * 64 + y) :: parseAux fuel r
        | _, _ => .bad b.toNat :: parseAux fuel rest
      | _ => .bad b.toNat :: parseAux fuel rest
    else if 0xF0 ≤ b.toNat ∧ b.toNat < 0xF8 then
      match rest with
      | b1 :: b2 :: b3 :: r => match contBits b1, contBits b2, contBits b3 with
        | some x, some y, some z => .char ((b.toNat - 0xF0) * 262144 + x * 4096 + y * 64 + z) :: parseAux fuel r
        | _, _, _ => .bad b.toNat :: parseAux fuel rest
      | _ => .bad b.toNat :: parseAux fuel rest
    else .bad b.toNat :: parseAux fuel rest

def parse (bs : Bytes) : List Tok := parseAux bs.length bs

end Tup
