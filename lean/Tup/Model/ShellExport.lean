import Tup.Basic
import Tup.Base64
/-!
  Model of `ShellScriptBinaryIOHelper` (`tupimage/graphics_terminal.py`), function by function.
  The script is modelled as the UTF-8 bytes of the text written to `shellscript_out`; a comment is
  given as its UTF-8 bytes (Python's `len(comment)` counts code points = non-continuation bytes).

  The model follows the REPAIRED code (fixes/D6-leading-dash.diff, fixes/D7-noncanonical-base64.diff):
  * D6: a format string that begins with `-` is emitted with its first byte written `\055`
        (`_quote_format`), for the outer `printf` and for the inner `printf … | base64 -w0`;
  * D7: `_try_base64` accepts a run only if `base64.b64encode(decoded) == data`.
-/
namespace Tup.ShellExport
open Tup

/-- `"\\{:03o}".format(byte)` -/
def octal3 (b : UInt8) : Bytes :=
  let n := b.toNat
  [92, UInt8.ofNat (48 + n / 64), UInt8.ofNat (48 + n / 8 % 8), UInt8.ofNat (48 + n % 8)]

/-- one iteration of the loop in `_escape_bytes` -/
def escapeByte (b : UInt8) : Bytes :=
  let n := b.toNat
  if 32 ≤ n ∧ n ≤ 126 ∧ n ≠ 92 ∧ n ≠ 37 ∧ n ≠ 39 then [b]
  else if n = 10 then [92, 110]        -- \n
  else if n = 92 then [92, 92]         -- \\
  else if n = 37 then [37, 37]         -- %%
  else octal3 b

/-- `_escape_bytes` (the result is ASCII, so `len(str)` = number of bytes). -/
def escapeBytes (data : Bytes) : Bytes := data.flatMap escapeByte

/-- the `is_base64` test of `_split_data_into_chunks` -/
def isB64Byte (b : UInt8) : Bool :=
  let n := b.toNat
  (48 ≤ n && n ≤ 57) || (65 ≤ n && n ≤ 90) || (97 ≤ n && n ≤ 122) || n == 43 || n == 47 || n == 61

/-- the loop of `_split_data_into_chunks`: remaining input, `current_chunk`, `is_base64_chunk`. -/
def splitChunksAux : Bytes → Bytes → Option Bool → List Bytes
  | [], cur, _ => if cur.isEmpty then [] else [cur]
  | b :: rest, cur, flag =>
    let is := isB64Byte b
    let flag' := flag.getD is
    if is != flag' then
      if cur.isEmpty then splitChunksAux rest [b] (some is)
      else cur :: splitChunksAux rest [b] (some is)
    else splitChunksAux rest (cur ++ [b]) (some flag')

/-- `_split_data_into_chunks` -/
def splitChunks (data : Bytes) : List Bytes := splitChunksAux data [] none

/-! ### `base64.b64decode(data, validate=True)` = `binascii.a2b_base64(data, strict_mode=True)`
    (CPython 3.12 `Modules/binascii.c`), as the state machine it is. Notable acceptances:
    non-canonical trailing bits (`QR==` → `A`), and any number of `=` after a complete quad
    (`AAAA=`, `AAAA====` → three zero bytes). -/

structure B64St where
  quad : Nat := 0          -- quad_pos
  left : Nat := 0          -- leftchar
  pads : Nat := 0
  started : Bool := false  -- padding_started
  out : Bytes := []        -- reversed output

def pyB64Loop : Bytes → B64St → Option Bytes
  | [], st => if st.quad ≠ 0 then none else some st.out.reverse
  | ch :: rest, st =>
    if ch = b64pad then
      if st.quad ≥ 2 ∧ st.quad + (st.pads + 1) ≥ 4 then
        -- "Excess data after padding" / done
        if rest.isEmpty then some st.out.reverse else none
      else
        pyB64Loop rest { st with started := true, pads := if st.quad ≥ 2 then st.pads + 1 else st.pads }
    else match b64val ch with
      | none => none                        -- "Only base64 data is allowed"
      | some v =>
        if st.started then none             -- "Discontinuous padding not allowed"
        else match st.quad with
          | 0 => pyB64Loop rest { st with pads := 0, quad := 1, left := v }
          | 1 => pyB64Loop rest { st with pads := 0, quad := 2, left := v % 16,
                                          out := UInt8.ofNat ((st.left * 4 + v / 16) % 256) :: st.out }
          | 2 => pyB64Loop rest { st with pads := 0, quad := 3, left := v % 4,
                                          out := UInt8.ofNat ((st.left * 16 + v / 4) % 256) :: st.out }
          | _ => pyB64Loop rest { st with pads := 0, quad := 0, left := 0,
                                          out := UInt8.ofNat ((st.left * 64 + v) % 256) :: st.out }

def pyB64decStrict (s : Bytes) : Option Bytes :=
  match s with
  | c :: _ => if c = b64pad then none else pyB64Loop s {}   -- "Leading padding not allowed"
  | [] => pyB64Loop s {}

/-- `_try_base64` (repaired, D7). The float test `len(escaped) > len(decoded) * 1.05` is modelled
    in ℕ as `20·len(escaped) > 21·len(decoded)`; the harness checks the two agree for every pair of
    lengths that can occur (`len(decoded) ≤ 129`, `len(escaped) ≤ 516`). -/
def tryBase64 (data : Bytes) : Option Bytes :=
  if data.length > 172 ∨ data.length < 2 then none
  else match pyB64decStrict data with
    | none => none
    | some decoded =>
      if b64enc decoded ≠ data then none
      else
        let escaped := escapeBytes decoded
        if 20 * escaped.length > 21 * decoded.length then none else some escaped

/-- the escaping step of `_quote_format` (repaired, D6): a leading `-` would be taken by `printf`
    as an option, so it is written `\055`. -/
def dashFix (escaped : Bytes) : Bytes :=
  match escaped with
  | c :: rest => if c = 45 then asc "\\055" ++ rest else escaped
  | [] => escaped

/-- `_quote_format` -/
def quoteFormat (escaped : Bytes) : Bytes := 39 :: (dashFix escaped ++ [39])

/-- the parameter text for one maybe-base64 run -/
def param (escaped : Bytes) : Bytes :=
  asc "\"$(printf " ++ quoteFormat escaped ++ asc " | base64 -w0)\""

/-- the loop over chunks in `write_to_shellscript`: (formatstring, params) -/
def build : List Bytes → Bytes × List Bytes
  | [] => ([], [])
  | chunk :: rest =>
    let (f, ps) := build rest
    match tryBase64 chunk with
    | some e => (asc "%s" ++ f, param e :: ps)
    | none => (escapeBytes chunk ++ f, ps)

/-- `command` -/
def command (data : Bytes) : Bytes :=
  let (f, ps) := build (splitChunks data)
  asc "printf " ++ quoteFormat f ++ ps.flatMap (fun p => 32 :: p)

/-- `len(comment)` for a UTF-8 encoded comment: code points = bytes that are not continuation bytes. -/
def cpLen (c : Bytes) : Nat := (c.filter fun b => b.toNat / 64 != 2).length

/-- `write_to_shellscript`: the text written to `shellscript_out`. -/
def writeToShellscript (data comment : Bytes) : Bytes :=
  let cmd := command data
  if comment.isEmpty then cmd ++ [10]
  else if cpLen comment + cmd.length + 3 ≤ 80 then cmd ++ asc " # " ++ comment ++ [10]
  else asc "# " ++ comment ++ [10] ++ cmd ++ [10]

end Tup.ShellExport
