import Tup.Model.IdSpace
/-!
  The schema set-up of `IDManager.__init__` (`tupimage/id_manager.py`): after the two PRAGMAs, one
  `CREATE TABLE IF NOT EXISTS` and two `CREATE INDEX IF NOT EXISTS` per ID space (in `IDSpace.all_values()`
  order), then the upload table and its index, each statement in autocommit mode.  The database is seen as
  the list of schema objects it holds; `IF NOT EXISTS` makes every statement a no-op on an object that is there.
  Mathlib-free, executable (served by `drv_e2e` as `schema stmts`).
-/
namespace Tup.Schema
open Tup

inductive Obj where
  | table (name : String)
  | index (name : String)
deriving DecidableEq, Repr, Inhabited

def Obj.render : Obj → String
  | .table n => "TABLE " ++ n
  | .index n => "INDEX " ++ n

/-- `IDSpace.namespace_name()` -/
def namespaceName (s : Space) : String := "ids_" ++ s.name

/-- the DDL statements of `IDManager.__init__`, in program order -/
def stmts : List Obj :=
  (Space.all.flatMap fun s =>
    [.table (namespaceName s), .index ("idx_" ++ namespaceName s ++ "_path_parameters"), .index ("idx_" ++ namespaceName s ++ "_atime")])
  ++ [.table "upload", .index "idx_upload_upload_time"]

/-- `CREATE … IF NOT EXISTS obj` -/
def exec (db : List Obj) (o : Obj) : List Obj := if o ∈ db then db else db ++ [o]

/-- the schema part of opening a database that holds the objects `db` -/
def openDb (db : List Obj) : List Obj := stmts.foldl exec db

/-- the creator of the file was killed before its DDL statement number `k` -/
def crashedAt (k : Nat) : List Obj := (stmts.take k).foldl exec []

/-- every object the library's statements refer to exists -/
def Complete (db : List Obj) : Prop := ∀ o ∈ stmts, o ∈ db

end Tup.Schema
