import Tup.Basic
/-!
  Model of `GraphicsTerminal.receive_response`, `receive_multiple_responses`, `get_cursor_position`
  (`tupimage/graphics_terminal.py`) and of the value object `GraphicsResponse`.

  The terminal's input is a finite byte string; the deadline is modelled as the end of that input
  (`select` timing out ⇔ no byte left).  What `select`/`time` do when a byte arrives at the deadline
  is not modelled.

  Follows the REPAIRED code (fixes/D17-empty-response-key.diff): an empty key part (empty key list,
  doubled or trailing comma) is skipped instead of being recorded as the extra key `""`.
-/
namespace Tup.Response
open Tup

structure Resp where
  imageId : Option Int := none
  imageNumber : Option Int := none
  placementId : Option Int := none
  /-- `additional_data`, in insertion order (Python dict) -/
  additional : List (Bytes × Option Bytes) := []
  /-- UTF-8 bytes of `message` -/
  message : Bytes := []
  isOk : Bool := false
  isValid : Bool := false
  nonResponse : Bytes := []
deriving Repr, DecidableEq

/-! ### Python's `int(bytes)` (base 10): optional surrounding ASCII whitespace, optional sign,
    digits with single underscores between digits, at most 4300 digits. -/

def isPySpace (b : UInt8) : Bool := b == 32 || (9 ≤ b.toNat && b.toNat ≤ 13)
def isDigit (b : UInt8) : Bool := 48 ≤ b.toNat && b.toNat ≤ 57

/-- digits (most significant first); `prev` = the previous byte was a digit -/
def pyDigits : Bytes → Bool → Option (List Nat)
  | [], prev => if prev then some [] else none
  | b :: r, prev =>
    if isDigit b then (pyDigits r true).map ((b.toNat - 48) :: ·)
    else if b = 95 ∧ prev then pyDigits r false
    else none

def digitsVal (ds : List Nat) : Nat := ds.foldl (fun acc d => acc * 10 + d) 0

def rstrip (p : UInt8 → Bool) (s : Bytes) : Bytes := (s.reverse.dropWhile p).reverse

def pyInt (s : Bytes) : Option Int :=
  let t := rstrip isPySpace (s.dropWhile isPySpace)
  let (neg, body) : Bool × Bytes := match t with
    | c :: r => if c = 45 then (true, r) else if c = 43 then (false, r) else (false, t)
    | [] => (false, t)
  match pyDigits body false with
  | none => none
  | some ds =>
    if ds.length > 4300 then none      -- sys.int_info.default_max_str_digits
    else some (if neg then - (Int.ofNat (digitsVal ds)) else Int.ofNat (digitsVal ds))

/-! ### `bytes.decode("utf-8")` succeeds (strict: no overlong forms, no surrogates, ≤ U+10FFFF) -/

def isCont (b : UInt8) : Bool := 0x80 ≤ b.toNat && b.toNat ≤ 0xBF
def inR (lo hi : Nat) (b : UInt8) : Bool := lo ≤ b.toNat && b.toNat ≤ hi

def utf8ValidAux : Nat → Bytes → Bool
  | 0, _ => false
  | _, [] => true
  | fuel + 1, b0 :: r =>
    let n := b0.toNat
    if n < 0x80 then utf8ValidAux fuel r
    else if 0xC2 ≤ n ∧ n ≤ 0xDF then
      match r with
      | b1 :: r' => isCont b1 && utf8ValidAux fuel r'
      | _ => false
    else if 0xE0 ≤ n ∧ n ≤ 0xEF then
      match r with
      | b1 :: b2 :: r' =>
        (if n = 0xE0 then inR 0xA0 0xBF b1 else if n = 0xED then inR 0x80 0x9F b1 else isCont b1)
          && isCont b2 && utf8ValidAux fuel r'
      | _ => false
    else if 0xF0 ≤ n ∧ n ≤ 0xF4 then
      match r with
      | b1 :: b2 :: b3 :: r' =>
        (if n = 0xF0 then inR 0x90 0xBF b1 else if n = 0xF4 then inR 0x80 0x8F b1 else isCont b1)
          && isCont b2 && isCont b3 && utf8ValidAux fuel r'
      | _ => false
    else false

def utf8Valid (s : Bytes) : Bool := utf8ValidAux (s.length + 1) s

/-! ### the read loop -/

inductive Scan where
  /-- the loop left through `break`: everything read so far, and the unread input -/
  | complete (buffer rest : Bytes)
  /-- the deadline passed: everything read so far -/
  | deadline (buffer : Bytes)
deriving Repr, DecidableEq

def intro : Bytes := [27, 95, 71]     -- ESC _ G
def term : Bytes := [27, 92]          -- ESC \

/-- The `while True` loop of `receive_response`: input, reversed `buffer`, `is_graphics_response`. -/
def scanLoop : Bytes → Bytes → Bool → Scan
  | [], rb, _ => .deadline rb.reverse
  | b :: rest, rb, isG =>
    if isG then
      if term.reverse.isPrefixOf (b :: rb) then .complete (b :: rb).reverse rest
      else scanLoop rest (b :: rb) true
    else scanLoop rest (b :: rb) (intro.reverse.isPrefixOf (b :: rb))

def scanResponse (input : Bytes) : Scan := scanLoop input [] false

/-- `buffer.split(b"\033_G", 1)` for a buffer that contains the introducer -/
def splitIntro : Bytes → Bytes × Bytes
  | [] => ([], [])
  | b :: r =>
    if intro.isPrefixOf (b :: r) then ([], r.drop 2)
    else let (x, y) := splitIntro r; (b :: x, y)

/-- `s.split(sep, 1)` -/
def splitOnce (sep : UInt8) : Bytes → Bytes × Option Bytes
  | [] => ([], none)
  | b :: r =>
    if b = sep then ([], some r)
    else let (x, y) := splitOnce sep r; (b :: x, y)

/-- `d[k] = v` on an insertion-ordered dict -/
def dictSet (d : List (Bytes × Option Bytes)) (k : Bytes) (v : Option Bytes) : List (Bytes × Option Bytes) :=
  match d with
  | [] => [(k, v)]
  | (k', v') :: rest => if k' = k then (k, v) :: rest else (k', v') :: dictSet rest k v

/-- one iteration of `for part in resp_and_message[0].split(b",")`, including the `except ValueError: pass` -/
def applyPart (r : Resp) (part : Bytes) : Resp :=
  if part.isEmpty then r                                   -- D17 repair
  else if part.take 2 = [105, 61] then                     -- i=
    match pyInt (part.drop 2) with
    | some v => { r with imageId := some v }
    | none => r
  else if part.take 2 = [73, 61] then                      -- I=
    match pyInt (part.drop 2) with
    | some v => { r with imageNumber := some v }
    | none => r
  else if part.take 2 = [112, 61] then                     -- p=
    match pyInt (part.drop 2) with
    | some v => { r with placementId := some v }
    | none => r
  else
    let (k, v) := splitOnce 61 part
    if !utf8Valid k then r                                 -- UnicodeDecodeError is a ValueError
    else match v with
      | none => { r with additional := dictSet r.additional k none }
      | some v => if utf8Valid v then { r with additional := dictSet r.additional k (some v) } else r

/-- The outcome of one `receive_response` call. -/
inductive Recv where
  | resp (r : Resp)
  /-- `UnicodeDecodeError` from `resp_and_message[1].decode("utf-8")` (outside the `try`) -/
  | decodeError
deriving Repr, DecidableEq

/-- the code after the loop -/
def parseResponse (buffer : Bytes) : Recv :=
  let (non, response) := splitIntro buffer
  let body := response.take (response.length - 2)
  let (keys, msg) := splitOnce 59 body
  match msg with
  | some m =>
    if !utf8Valid m then .decodeError
    else
      let r0 : Resp := { isValid := true, nonResponse := non, message := m, isOk := m == [79, 75] }
      .resp ((splitOn 44 keys).foldl applyPart r0)
  | none =>
    let r0 : Resp := { isValid := true, nonResponse := non }
    .resp ((splitOn 44 keys).foldl applyPart r0)

/-- `receive_response`: the result and the input left unread. -/
def receive (input : Bytes) : Recv × Bytes :=
  match scanResponse input with
  | .deadline buf => (.resp { isValid := false, nonResponse := buf }, [])
  | .complete buf rest => (parseResponse buf, rest)

/-- `receive_multiple_responses`: `none` = the exception escaped. (fuel: every valid response consumes input) -/
def receiveMultipleAux : Nat → Bytes → Option (List Resp)
  | 0, _ => some []
  | fuel + 1, input =>
    match receive input with
    | (.decodeError, _) => none
    | (.resp r, rest) =>
      if !r.isValid then some []
      else (receiveMultipleAux fuel rest).map (r :: ·)

def receiveMultiple (input : Bytes) : Option (List Resp) := receiveMultipleAux (input.length + 1) input

/-! ### `get_cursor_position` -/

/-- loop of `get_cursor_position`: input, reversed `buffer`, `is_response`; `none` = TimeoutError -/
def cprLoop : Bytes → Bytes → Bool → Option (Bytes × Bytes)
  | [], _, _ => none
  | b :: rest, rb, isR =>
    if isR then
      if b = 82 then some ((b :: rb).reverse, rest) else cprLoop rest (b :: rb) true
    else if ([91, 27] : Bytes).isPrefixOf (b :: rb) then cprLoop rest [] true
    else cprLoop rest (b :: rb) false

inductive Cpr where
  | pos (x y : Int) (rest : Bytes)
  | timeout
  | valueError (rest : Bytes)
deriving Repr, DecidableEq

def parseCpr (buffer : Bytes) : Option (Int × Int) :=
  match splitOn 59 (buffer.take (buffer.length - 1)) with
  | [y, x] =>
    match pyInt x, pyInt y with
    | some x, some y => some (x - 1, y - 1)
    | _, _ => none
  | _ => none

def getCursorPosition (input : Bytes) : Cpr :=
  match cprLoop input [] false with
  | none => .timeout
  | some (buf, rest) =>
    match parseCpr buf with
    | some (x, y) => .pos x y rest
    | none => .valueError rest

end Tup.Response
