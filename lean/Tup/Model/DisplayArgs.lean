import Tup.Model.Placeholder
/-!
  Model of the ARGUMENT handling of `TupimageTerminal.display_only` (`tupimage/tupimage_terminal.py`): what the
  caller may pass as `id` (an integer, an `ImagePlaceholder`, an `ImageInstance`), the four optional rectangle
  overrides, `allow_expansion`, `abs_pos` (any integers), `final_cursor_pos` (one of the four names, `None` = the
  terminal object's own default, or any other string).  Written after the Python, statement by statement:
  `x or y` on an optional integer is `pyOr` (so an override of 0 counts as "not given", as in the code); the
  clipping of `allow_expansion=False` touches only the END column/row, as in the code.

  `Tup.Model.Placeholder.displayOnly` is the model of the rest of the call (the placeholder stream and the final
  cursor move) for an already resolved rectangle, a non-negative position and a valid name;
  `displayCall_eq_displayOnly` (Props/C14) says that this model reduces to it on those arguments.
-/
namespace Tup

/-- what `display_only` is given as `id` -/
inductive DispObj where
  | int (id : Int)
  | ph (r : RawPlaceholder)
  | inst (id cols rows : Int)
deriving DecidableEq, Repr

/-- Python `x or y` for `x : Optional[int]` -/
def pyOr (x : Option Int) (y : Int) : Int :=
  match x with
  | some v => if v = 0 then y else v
  | none => y

/-- the first part of `display_only`: the rectangle that will be printed; `none` is the `ValueError` raised before
    anything is written (integer id without both ends, or with `allow_expansion=False`) -/
def resolveArgs (o : DispObj) (sc sr ec er : Option Int) (allowExpansion : Bool) : Option RawPlaceholder :=
  match o with
  | .ph r =>
    let ec' := pyOr ec r.endCol
    let er' := pyOr er r.endRow
    some ⟨r.imageId, r.placementId, pyOr sc r.startCol, pyOr sr r.startRow,
          if allowExpansion then ec' else min ec' r.endCol, if allowExpansion then er' else min er' r.endRow⟩
  | .inst id cols rows =>
    let ec' := pyOr ec cols
    let er' := pyOr er rows
    some ⟨id, 0, pyOr sc 0, pyOr sr 0,
          if allowExpansion then ec' else min ec' cols, if allowExpansion then er' else min er' rows⟩
  | .int id =>
    match ec, er with
    | some ec', some er' => if allowExpansion then some ⟨id, 0, pyOr sc 0, pyOr sr 0, ec', er'⟩ else none
    | _, _ => none

/-- the object's own rectangle end (what `allow_expansion=False` clips to) -/
def DispObj.ownEnd : DispObj → Option (Int × Int)
  | .ph r => some (r.endCol, r.endRow)
  | .inst _ cols rows => some (cols, rows)
  | .int _ => none

/-- `final_cursor_pos` as the caller gives it -/
inductive FinalPosArg where
  | dflt                    -- `None`: the terminal object's `final_cursor_pos`
  | named (fp : FinalPos)
  | invalid                 -- any other string
deriving DecidableEq, Repr

/-- outcome of one `display_only` call: the status, the bytes that reached the display stream (also when the call
    raised: the final cursor move is decided after the placeholder was written) and the returned placeholder -/
structure DisplayOutcome where
  status : Except PhErr Unit
  written : Bytes
  returned : Option RawPlaceholder
deriving Repr

def DisplayOutcome.refused (e : PhErr) : DisplayOutcome := ⟨.error e, [], none⟩

/-- `display_only` with the D9-unrepaired or repaired stream (`nine`), for a terminal whose own default final
    position is `cfgFp` -/
def displayCall (nine : Bool) (cfgFp : FinalPos) (o : DispObj) (sc sr ec er : Option Int) (allowExpansion fewer : Bool)
    (bg : Background) (pos : Option (Int × Int)) (lf : Bool) (fp : FinalPosArg) : DisplayOutcome :=
  match resolveArgs o sc sr ec er allowExpansion with
  | none => .refused .value
  | some r =>
    let stream : Except PhErr Bytes :=
      match pos with
      | none =>
        if nine then toStreamUnrepaired r none (displayMode fewer) (getFormatting bg) true lf
        else toStream r none (displayMode fewer) (getFormatting bg) true lf
      | some (px, py) =>
        if lf then .error .value
        else if px < 0 ∨ py < 0 then .error .value
        else if nine then toStreamUnrepaired r (some (px.toNat, py.toNat)) (displayMode fewer) (getFormatting bg) true false
        else toStream r (some (px.toNat, py.toNat)) (displayMode fewer) (getFormatting bg) true false
    match stream with
    | .error e => .refused e
    | .ok b =>
      let fin : Option (List Tok) :=
        match fp with
        | .dflt => finalCursorToks (r.endCol - r.startCol).toNat (r.endRow - r.startRow).toNat cfgFp lf
        | .named f => finalCursorToks (r.endCol - r.startCol).toNat (r.endRow - r.startRow).toNat f lf
        | .invalid => none
      match fin with
      | none => ⟨.error .value, b, none⟩
      | some t => ⟨.ok (), b ++ serialize t, some r⟩

end Tup
