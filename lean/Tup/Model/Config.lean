import Tup.Model.ConfigVal
import Tup.Gen.Options
/-!
  Model of `TupimageConfig` (tupimage/tupimage_terminal.py) and of the configuration part of
  `TupimageTerminal.__init__`: string normalisation + type verification per option
  (`validate_and_normalize`, `_convert_scalar`, `_verify_type`), the layers folded in the
  constructor's order (config file → `TUPIMAGE_*` environment → `**kwargs` → `config_overrides`),
  provenance strings, the textual forms of the structured options and the TOML dump on the
  typed-value channel.

  The model follows the code *with fixes D11–D13 applied* (type-driven conversion of string forms,
  `int` promoted for `float` options, `bool` rejected for `int`, conversion errors re-raised as a
  `ValueError` naming the option, size tuples must be positive).

  Python quirks kept on purpose: `bool` is an `int` for `isinstance` (hence the explicit rejection
  in `_verify_type` and `type(value) is int` in the float promotion); `isinstance(2, float)` is
  false; `Literal['auto']` is checked with `in`; the string `'auto'` skips every conversion;
  `typing.get_args(Tuple[int, int])` is `(int, int)`; `None` in a dict layer sets nothing.
-/
namespace Tup.Config
open Tup

/-! ### Python string → number conversions -/

def isWs (c : Char) : Bool := c = ' ' || c = '\t' || c = '\n' || c = '\r' || c = '\x0b' || c = '\x0c'

def trimWs (l : List Char) : List Char :=
  ((l.dropWhile isWs).reverse.dropWhile isWs).reverse

def digitVal (c : Char) : Option Nat := if '0' ≤ c ∧ c ≤ '9' then some (c.toNat - 48) else none

/-- Digits with single underscores between them (Python numeric literal grouping): value and count of digits. -/
def digitsAux : List Char → (acc : Nat) → (n : Nat) → (prevDigit : Bool) → Option (Nat × Nat)
  | [], acc, n, prev => if prev then some (acc, n) else none
  | c :: cs, acc, n, prev =>
    if c = '_' then (if prev && !cs.isEmpty then digitsAux cs acc n false else none)
    else match digitVal c with
      | some d => digitsAux cs (acc * 10 + d) (n + 1) true
      | none => none

/-- A non-empty digit string (underscore grouping allowed) → value and number of digits. -/
def parseDigits (l : List Char) : Option (Nat × Nat) :=
  match l with
  | [] => none
  | c :: _ => if c = '_' then none else digitsAux l 0 0 false

def splitSign : List Char → Bool × List Char
  | '-' :: cs => (true, cs)
  | '+' :: cs => (false, cs)
  | cs => (false, cs)

/-- Python `int(s)` for a `str` (base 10): surrounding whitespace, a sign, digits. -/
def pyInt (s : String) : Option Int :=
  let (neg, body) := splitSign (trimWs s.toList)
  (parseDigits body).map fun (v, _) => if neg then -(v : Int) else (v : Int)

/-- `str.isdecimal()` restricted to ASCII. -/
def isDecimal (s : String) : Bool := !s.isEmpty && s.toList.all fun c => (digitVal c).isSome

def splitAtChar (p : Char → Bool) : List Char → List Char × Option (List Char)
  | [] => ([], none)
  | c :: cs => if p c then ([], some cs) else let (a, b) := splitAtChar p cs; (c :: a, b)

/-- Python `float(s)` for decimal literals `[ws][sign](digits[.digits]|.digits)[e[sign]digits][ws]`,
    as an exact rational.  `inf`/`nan` are not modelled (→ `none`, the harness never sends them). -/
def pyFloat (s : String) : Option Flt :=
  let (neg, body) := splitSign (trimWs s.toList)
  let (mant, exp?) := splitAtChar (fun c => c = 'e' || c = 'E') body
  let (ip, fp?) := splitAtChar (· = '.') mant
  let ipv : Option (Nat × Nat) := if ip.isEmpty then some (0, 0) else parseDigits ip
  let fpv : Option (Nat × Nat) := match fp? with
    | none => some (0, 0)
    | some f => if f.isEmpty then some (0, 0) else parseDigits f
  let nonEmpty := !ip.isEmpty || (match fp? with | some f => !f.isEmpty | none => false)
  let expv : Option Int := match exp? with
    | none => some 0
    | some e => let (en, eb) := splitSign e; (parseDigits eb).map fun (v, _) => if en then -(v : Int) else (v : Int)
  match ipv, fpv, expv with
  | some (iv, _), some (fv, fn), some e =>
      if !nonEmpty then none
      else
        let m : Nat := iv * 10 ^ fn + fv        -- mantissa · 10^-fn
        let e10 : Int := e - fn
        let sgn : Int := if neg then -1 else 1
        if e10 ≥ 0 then some ⟨sgn * (m * 10 ^ e10.toNat : Nat), 1⟩ else some ⟨sgn * m, 10 ^ (-e10).toNat⟩
  | _, _, _ => none

def lowerAscii (s : String) : String := String.ofList (s.toList.map fun c => if 'A' ≤ c ∧ c ≤ 'Z' then Char.ofNat (c.toNat + 32) else c)

/-- `_convert_scalar` for a bool option. -/
def pyBool (s : String) : Option Bool :=
  let l := lowerAscii s
  if l = "true" ∨ l = "yes" ∨ l = "on" then some true
  else if l = "false" ∨ l = "no" ∨ l = "off" then some false
  else none

/-! ### Printers and parsers of the structured options -/

def splitOnChar (sep : Char) : List Char → List (List Char)
  | [] => [[]]
  | c :: cs =>
    if c = sep then [] :: splitOnChar sep cs
    else match splitOnChar sep cs with
      | [] => [[c]]
      | p :: ps => (c :: p) :: ps

/-- `IDSubspace.__str__` -/
def subStr (u : Sub) : String := s!"{u.b}:{u.e}"

/-- `IDSubspace.from_string` (`none` = `ValueError`). -/
def subOfString (s : String) : Option Sub :=
  if s = "" then some Sub.full
  else match splitOnChar ':' s.toList with
    | [a, b] =>
      match pyInt (String.ofList a), pyInt (String.ofList b) with
      | some x, some y => if 0 ≤ x ∧ 0 ≤ y then mkSub x.toNat y.toNat else none
      | _, _ => none
    | _ => none

/-- `f"{w}x{h}"` as `to_toml_string` prints a size. -/
def sizeStr (w h : Int) : String := s!"{w}x{h}"

/-- `tupimage.utils.validate_size` (`none` = `ArgumentTypeError`). -/
def validateSize (s : String) : Option (Int × Int) :=
  match splitOnChar 'x' s.toList with
  | [a, b] =>
    match pyInt (String.ofList a), pyInt (String.ofList b) with
    | some w, some h => if w < 1 ∨ h < 1 then none else some (w, h)
    | _, _ => none
  | _ => none

/-- `TransmissionMedium.value` -/
def Medium.letter : Medium → String
  | .direct => "d" | .file => "f" | .tempFile => "t" | .sharedMemory => "s"

/-- `TransmissionMedium.from_string` -/
def Medium.ofString (s : String) : Option Medium :=
  if s = "d" ∨ s = "direct" ∨ s = "stream" then some .direct
  else if s = "f" ∨ s = "file" then some .file
  else if s = "t" ∨ s = "temp" ∨ s = "tempfile" then some .tempFile
  else if s = "s" ∨ s = "shm" then some .sharedMemory
  else none

def isSep (c : Char) : Bool := c = ',' || c = ' '

/-- `re.split(r"[, ]+", s)`: pieces between maximal runs of commas/spaces (empty pieces at the ends
    when the string starts or ends with a separator). -/
def splitFormatsAux : List Char → List Char → Bool → List String
  | [], cur, _ => [String.ofList cur.reverse]
  | c :: cs, cur, inSep =>
    if isSep c then
      (if inSep then splitFormatsAux cs [] true else String.ofList cur.reverse :: splitFormatsAux cs [] true)
    else splitFormatsAux cs (c :: cur) false

def splitFormats (s : String) : List String := splitFormatsAux s.toList [] false

/-! ### `_verify_type` -/

/-- `isinstance(value, cls)` / `value in Literal args` for a leaf of the annotation (repaired:
    a `bool` is not accepted as an `int`). -/
def scalarIs (x : Scalar) : Base → Bool
  | .int => match x with | .int _ => true | _ => false
  | .float => match x with | .float _ => true | _ => false
  | .bool => match x with | .bool _ => true | _ => false
  | .str => match x with | .str _ => true | _ => false
  | .noneT => match x with | .none => true | _ => false
  | .lit s => match x with | .str t => s == t | _ => false
  | .other cls => match x with | .other c => c == cls | _ => false
  | .idSpace => false
  | .idSubspace => false
  | .medium => false

def valIsBase (v : Val) (b : Base) : Bool :=
  match v with
  | .sc x => scalarIs x b
  | .space _ => b == .idSpace
  | .sub _ => b == .idSubspace
  | .medium _ => b == .medium
  | .list _ => b == .other "list"
  | .tuple _ => b == .other "tuple"

def allZip (xs : List Scalar) (bs : List Base) : Bool :=
  match xs, bs with
  | [], [] => true
  | x :: xs, b :: bs => scalarIs x b && allZip xs bs
  | _, _ => false

def valIsAlt (v : Val) : Alt → Bool
  | .base b => valIsBase v b
  | .tuple args => match v with | .tuple xs => allZip xs args | _ => false
  | .list arg => match v with | .list xs => xs.all (scalarIs · arg) | _ => false

/-- `_verify_type(value, field_type)` -/
def verifyType (v : Val) (ty : Ty) : Bool := ty.any (valIsAlt v)

/-! ### `validate_and_normalize` -/

inductive CErr where
  /-- `KeyError("Unknown config key: …")` from a dict layer -/
  | unknownKey (k : String)
  /-- `KeyError("Unknown config keys: …")` after loading a file -/
  | unknownKeys
  /-- `ValueError` whose message names the option -/
  | invalid (opt : String)
deriving DecidableEq, Repr, Inhabited

def lookupOpt (name : String) : Option Opt := Tup.Gen.options.find? (·.name == name)

/-- `typing.get_args(field_type) or (field_type,)` as far as `_convert_scalar` looks at it: the classes. -/
def scalarTypes (ty : Ty) : List Base :=
  match ty with
  | [.base b] => [b]
  | [.tuple args] => args
  | [.list arg] => [arg]
  | alts => alts.filterMap fun a => match a with | .base b => some b | _ => none

/-- `_convert_scalar(field_type, value)`; `none` = `ValueError`. -/
def convertScalar (ty : Ty) (s : String) : Option Val :=
  let types := scalarTypes ty
  if types.contains .str then
    if types.contains .int && isDecimal s then (pyInt s).map Val.int else some (.str s)
  else if types.contains .bool then (pyBool s).map Val.bool
  else if types.contains .int then (pyInt s).map Val.int
  else if types.contains .float then (pyFloat s).map Val.float
  else some (.str s)

/-- The string branch of `validate_and_normalize` (`s ≠ "auto"`); `none` = a conversion raised. -/
def normalizeString (stateDir : String) (o : Opt) (s : String) : Option Val :=
  if o.ty = [.base .idSubspace] then (subOfString s).map Val.sub
  else if o.ty = [.base .idSpace] then (Space.ofString s).map Val.space
  else if o.name = "cell_size" ∨ o.name = "default_cell_size" then
    (validateSize s).map fun (w, h) => Val.tuple [.int w, .int h]
  else if o.name = "id_database_dir" ∧ s = "" then some (.str stateDir)
  else if o.name = "upload_method" then (Medium.ofString s).map Val.medium
  else if o.name = "supported_formats" then some (.list ((splitFormats s).map Scalar.str))
  else convertScalar o.ty s

/-- the extra constraints at the end of `validate_and_normalize` -/
def constraintsOk (o : Opt) (v : Val) : Bool :=
  (match v with
   | .tuple [.int w, .int h] =>
       !(o.name = "cell_size" ∨ o.name = "default_cell_size") || (decide (1 ≤ w) && decide (1 ≤ h))
   | _ => true) &&
  (match v with
   | .sc (.int i) =>
       (!(o.name = "max_cols") || decide (0 < i)) && (!(o.name = "max_rows") || (decide (0 < i) && decide (i ≤ 256)))
   | _ => true)

/-- the "normalize values specified as strings" step: `'auto'` and non-strings pass unchanged;
    `none` = a conversion raised (re-raised as a `ValueError` naming the option) -/
def preString (stateDir : String) (o : Opt) (v : Val) : Option Val :=
  match v with
  | .sc (.str s) => if s ≠ "auto" then normalizeString stateDir o s else some v
  | _ => some v

/-- `if field_type is float and type(value) is int: value = float(value)` -/
def promote (o : Opt) (v : Val) : Val :=
  match v with
  | .sc (.int i) => if o.ty = [.base .float] then Val.float ⟨i, 1⟩ else v
  | _ => v

/-- type verification and the additional constraints -/
def checkOpt (o : Opt) (v : Val) : Except CErr Val :=
  if !verifyType v o.ty then .error (.invalid o.name)
  else if !constraintsOk o v then .error (.invalid o.name)
  else .ok v

/-- `validate_and_normalize(name, value)` for a known option. -/
def normalizeOpt (stateDir : String) (o : Opt) (v : Val) : Except CErr Val :=
  match preString stateDir o v with
  | none => .error (.invalid o.name)
  | some v => checkOpt o (promote o v)

def normalize (stateDir : String) (name : String) (v : Val) : Except CErr Val :=
  match lookupOpt name with
  | none => .error (.unknownKey name)
  | some o => normalizeOpt stateDir o v

/-! ### The configuration object, provenance, layers -/

structure Entry where
  name : String
  val : Val
  /-- `_provenance.get(name)`: `none` = never assigned, `some none` = assigned with provenance `None` -/
  prov : Option (Option String)
deriving DecidableEq, Repr, Inhabited

abbrev Cfg := List Entry

def defaultOf (stateDir : String) (o : Opt) : Val :=
  if o.default = Val.str "$STATE_DIR" then .str stateDir else o.default

/-- `TupimageConfig()` -/
def Cfg.init (stateDir : String) : Cfg := Tup.Gen.options.map fun o => ⟨o.name, defaultOf stateDir o, none⟩

def Cfg.get? (c : Cfg) (name : String) : Option Entry := c.find? (·.name == name)

/-- `setattr(config, name, value)` while `_current_provenance = p` -/
def Cfg.set (c : Cfg) (name : String) (v : Val) (p : Option String) : Cfg :=
  c.map fun e => if e.name == name then ⟨name, v, some p⟩ else e

/-- `get_provenance(name)` -/
def Cfg.provenance (stateDir : String) (c : Cfg) (name : String) : String :=
  match c.get? name with
  | none => "?"
  | some e => match e.prov with
    | some (some p) => p
    | _ => match lookupOpt name with
      | some o => if e.val = defaultOf stateDir o then "default" else "set in code"
      | none => "?"

/-- the provenance label of a dictionary layer: `config.get("provenance", "set from dict")` -/
def dictLabel (d : List (String × Val)) : Option String :=
  match d.find? (·.1 == "provenance") with
  | some (_, .sc (.str s)) => some s
  | some (_, .sc .none) => none
  | some (_, _) => some "?"
  | none => some "set from dict"

/-- one iteration of the loop of `override_from_dict` -/
def dictStep (stateDir : String) (p : Option String) (c : Cfg) (kv : String × Val) : Except CErr Cfg :=
  if kv.1 == "provenance" then pure c
  else if kv.2 = Val.none then pure c
  else match normalize stateDir kv.1 kv.2 with
    | .ok nv => pure (c.set kv.1 nv p)
    | .error e => throw e

/-- `override_from_dict(config)`: the `provenance` key labels the layer, `None` sets nothing. -/
def applyDict (stateDir : String) (c : Cfg) (d : List (String × Val)) : Except CErr Cfg :=
  d.foldlM (dictStep stateDir (dictLabel d)) c

/-- `"TUPIMAGE_" + name.upper()` -/
def envVarName (name : String) : String :=
  "TUPIMAGE_" ++ String.ofList (name.toList.map fun c => if 'a' ≤ c ∧ c ≤ 'z' then Char.ofNat (c.toNat - 32) else c)

/-- one iteration of the loop of `override_from_env` -/
def envStep (stateDir : String) (env : List (String × String)) (c : Cfg) (o : Opt) : Except CErr Cfg :=
  match env.find? (·.1 == o.name) with
  | none => pure c
  | some kv =>
    match normalizeOpt stateDir o (.str kv.2) with
    | .ok nv => pure (c.set o.name nv (some s!"set via {envVarName o.name}"))
    | .error e => throw e

/-- `override_from_env()`: options are scanned in declaration order; `env` maps option names to the
    value of their `TUPIMAGE_<NAME>` variable. -/
def applyEnv (stateDir : String) (c : Cfg) (env : List (String × String)) : Except CErr Cfg :=
  Tup.Gen.options.foldlM (envStep stateDir env) c

def truthyBool (v : Val) : Bool := match v with | .sc (.bool b) => b | _ => false

/-- one iteration of the loop of `override_from_toml_string`; the flag records an unknown key -/
def fileStep (stateDir : String) (p : String) (st : Cfg × Bool) (kv : String × Val) : Except CErr (Cfg × Bool) :=
  match lookupOpt kv.1 with
  | none => pure (st.1, true)
  | some o =>
    match normalizeOpt stateDir o kv.2 with
    | .ok nv => pure (st.1.set kv.1 nv (some p), st.2)
    | .error e => throw e

/-- `override_from_toml_file(path)` on the parsed key/value pairs (file order). -/
def applyFile (stateDir : String) (c : Cfg) (absPath : String) (kvs : List (String × Val)) : Except CErr Cfg :=
  match kvs.foldlM (fileStep stateDir s!"set from file {absPath}") (c, false) with
  | .error e => .error e
  | .ok (c, unknown) =>
    let ignore := match c.get? "ignore_unknown_attributes" with | some e => truthyBool e.val | none => false
    if unknown && !ignore then .error .unknownKeys else .ok c

structure Layers where
  /-- config file (`TUPIMAGE_CONFIG` or `config=path`): absolute path and parsed pairs -/
  file : Option (String × List (String × Val))
  /-- `TUPIMAGE_<OPTION>` variables, by option name -/
  env : List (String × String)
  /-- `**kwargs` of the constructor that are not its own parameters -/
  kwargs : List (String × Val)
  /-- `config_overrides=` -/
  overrides : List (String × Val)
deriving Repr, Inhabited

/-- `config.override_from_dict(kwargs); config.override_from_dict(config_overrides)` -/
def applyCallTime (stateDir : String) (l : Layers) (c : Cfg) : Except CErr Cfg :=
  (applyDict stateDir c l.kwargs).bind fun c => applyDict stateDir c l.overrides

/-- `config.override_from_env()` and then the call-time layers -/
def applyAfterFile (stateDir : String) (l : Layers) (c : Cfg) : Except CErr Cfg :=
  (applyEnv stateDir c l.env).bind (applyCallTime stateDir l)

/-- a fresh `TupimageConfig()`, the config file if there is one, then the other layers -/
def applyLayers (stateDir : String) (l : Layers) : Except CErr Cfg :=
  let afterFile : Except CErr Cfg :=
    match l.file with
    | none => Except.ok (Cfg.init stateDir)
    | some (path, kvs) => applyFile stateDir (Cfg.init stateDir) path kvs
  afterFile.bind (applyAfterFile stateDir l)

/-- `num_tmux_layers == "auto"` is expanded from the environment (`TMUX`, `TERM`) -/
def expandTmux (stateDir : String) (insideTmux : Bool) (c : Cfg) : Cfg :=
  match c.get? "num_tmux_layers" with
  | some e =>
      if e.val = Val.str "auto" then
        c.set "num_tmux_layers" (.int (if insideTmux then 1 else 0))
          (some s!"expanded from 'auto' ({c.provenance stateDir "num_tmux_layers"})")
      else c
  | none => c

/-- The configuration part of `TupimageTerminal.__init__`. -/
def construct (stateDir : String) (insideTmux : Bool) (l : Layers) : Except CErr Cfg :=
  (applyLayers stateDir l).map (expandTmux stateDir insideTmux)

/-! ### TOML dump on the typed-value channel -/

/-- What `to_toml_string` hands to `toml.dumps` for one option. -/
def dumpVal (v : Val) : Val :=
  match v with
  | .sub u => .str (subStr u)
  | .space s => .str s.name
  | .tuple [.int w, .int h] => .str (sizeStr w h)
  | .medium m => .str m.letter
  | v => v

def dump (c : Cfg) : List (String × Val) := c.map fun e => (e.name, dumpVal e.val)

end Tup.Config
