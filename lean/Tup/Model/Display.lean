import Tup.Model.UploadInfo
import Tup.Spec.Store
/-!
  Model of the display path of `TupimageTerminal` (`assign_id`, `upload`, `_upload`, `_transmit_file`,
  `upload_and_display`, `display_only`, `needs_uploading`, `get_upload_method`) as a state machine over the
  session database `Model.Db`, a clock, and — per terminal — the *ghost* arrival log of `Spec.Store`
  (what that terminal really received, newest first).

  * A **description** `Desc` stands for what `ImageInstance.get_description()` is computed from: it
    determines the content that is transmitted (`token`: hash of the decoded pixels, already
    down-scaled if the image exceeds the upload size limit) and the placement geometry. The database
    stores its rendering `Desc.str`, which is injective (`Lemmas/DisplayList.lean`). Correspondence
    assumption (DESIGN §5 C08): `json.dumps` is injective on `(path, mtime, cols, rows)`, a file's mtime
    changes when its content does, MD5 separates in-memory images.
  * **Requests** are executed one at a time (processes do not interleave inside a request); between
    requests the clock may advance and any user of the database may call any allocator / clean-up
    operation (`Env`). The only operation that is *not* an environment step is a bare `mark_uploaded`:
    the library calls it only from `upload`, after the transmission.
  * A request is atomic in time: the clock value `now` is used for the id's recency, for the
    `needs_uploading` decision, as `upload_time`, as the arrival time, and as the moment of the print.
  * Everything the implementation or sqlite chooses (`GetChoice`, `removed`, `kept`) is an input, as in
    `Model.Alloc`; an inadmissible choice makes the step a no-op.
  * `rebind := false` gives the code before the repair of D14 (`upload()` trusted the id of a stale
    `ImageInstance`); the library is `rebind := true`.
-/
namespace Tup.Display
open Tup

/-! ### descriptions -/

structure Desc where
  token : String      -- content token of the image that is transmitted for this description
  rows : Nat
  cols : Nat
deriving DecidableEq, Repr, Inhabited

/-- the string stored in the database (stands for `ImageInstance.build_descr_string`) -/
def Desc.str (d : Desc) : String := d.rows.repr ++ " " ++ d.cols.repr ++ " " ++ d.token

/-! ### upload method and medium (`get_upload_method`, `_upload`, `_transmit_file`) -/

/-- `config.upload_method` / the `upload_method=` argument after `TransmissionMedium.from_string` -/
inductive MethodCfg
  | auto | file | direct
  | unsupported            -- any other medium (`t`, `s`): `_upload` raises `ValueError`
deriving DecidableEq, Repr, Inhabited

inductive Method | file | direct
deriving DecidableEq, Repr, Inhabited

inductive Medium | f | t | d
deriving DecidableEq, Repr, Inhabited

/-- `"auto"` → direct iff an SSH variable is set (`inside_ssh`), file otherwise -/
def resolveMethod : MethodCfg → (insideSsh : Bool) → Option Method
  | .auto, ssh => some (if ssh then .direct else .file)
  | .file, _ => some .file
  | .direct, _ => some .direct
  | .unsupported, _ => none

/-- The medium announced for a transmission: a file the user gave is named as-is (`t=f`), a file the
    library wrote itself (`tempfile.NamedTemporaryFile(prefix="tty-graphics-protocol-")`) is named with
    the delete-after-reading medium (`t=t`), the direct method sends the bytes inline (`t=d`). -/
def mediumFor : Method → (libraryMadeFile : Bool) → Medium
  | .direct, _ => .d
  | .file, true => .t
  | .file, false => .f

/-- what `_upload` finds when it looks at the instance -/
structure Source where
  isFile : Bool := true        -- `inst.image is None`
  available : Bool := true     -- `inst.is_file_available()` (exists, mtime unchanged)
  supported : Bool := true     -- `_is_format_supported(Image.open(path).format)`
  fits : Bool := true          -- `os.path.getsize(path) <= get_max_upload_size(method)`
deriving DecidableEq, Repr, Inhabited

/-- the user's file is sent unchanged (first `return size` of `_upload`) -/
def Source.asIs (s : Source) : Bool := s.isFile && s.supported && s.fits

structure Via where
  method : MethodCfg := .auto
  insideSsh : Bool := false
  src : Source := {}
deriving DecidableEq, Repr, Inhabited

structure Sent where
  medium : Medium
  libraryMade : Bool       -- the transmitted bytes/file were produced by the library (re-encoded image)
  method : Method
deriving DecidableEq, Repr, Inhabited

/-- `_upload` up to the point where the command is sent: `none` = it raised (`ValueError` for an
    unsupported method, `FileNotFoundError` for a file that is gone or was overwritten). -/
def uploadVia (v : Via) : Option Sent :=
  match resolveMethod v.method v.insideSsh with
  | none => none
  | some m =>
    if v.src.isFile && !v.src.available then none
    else
      let lib := !v.src.asIs
      some ⟨mediumFor m lib, lib, m⟩

/-! ### state -/

structure State where
  db : Db := {}
  logs : String → List Spec.Arrival := fun _ => []      -- ghost: arrivals per terminal, newest first
  now : Nat := 0

def State.init : State := {}

/-- a complete transmission reaches terminal `T` -/
def State.arrive (s : State) (T : String) (a : Spec.Arrival) : State :=
  { s with logs := fun t => if t = T then a :: s.logs t else s.logs t }

/-! ### requests -/

/-- how the request names the image id -/
inductive Target
  | alloc (space : Space) (sub : Sub) (ch : GetChoice)   -- a file / in-memory image: `assign_id` → `get_id`
  | forced (id : Nat)                                     -- `force_id=`: `assign_id` → `set_id`
  | inst (id : Nat)                                       -- an `ImageInstance` carrying this id
deriving Repr, Inhabited

structure Request where
  term : String
  target : Target
  desc : Desc
  size : Nat                 -- bytes `_upload` will report (and transmit) if it runs
  force : Bool := false      -- `force_upload`
  via : Via := {}
  display : Bool := true     -- `upload_and_display` (true) or `upload` alone (false)
deriving Repr, Inhabited

inductive Event
  | transmit (term : String) (id : Nat) (via : Via) (sent : Sent)
  | print (term : String) (id : Nat) (d : Desc)
deriving DecidableEq, Repr, Inhabited

/-- `set_id(id, description)` as used by the binding phase; `none`: it raised -/
def setBound (db : Db) (id : Nat) (d : Desc) (now : Nat) : Db × Option Nat :=
  match setId db id d.str now with
  | .ok db' => (db', some id)
  | .error _ => (db, none)

/-- Binding phase of `upload`: `assign_id` for an image, or the re-bind of an `ImageInstance`
    (`get_info`; `set_id` when the id is unassigned or bound to another description).
    Returns the database and the id the instance carries (`none`: an exception left `upload`). -/
def bind (cfg : Cfg) (rebind : Bool) (db : Db) (now : Nat) (tg : Target) (d : Desc) : Db × Option Nat :=
  match tg with
  | .alloc space sub ch =>
    if space.valid && sub.valid then
      match getId cfg db ⟨space, sub, d.str⟩ now ch with
      | .ok (db', .id x, _) => (db', some x)
      | .ok (db', .noUnusedId, _) => (db', none)          -- `RuntimeError`, its clean-ups persist
      | .error _ => (db, none)
    else (db, none)
  | .forced id => setBound db id d now
  | .inst id =>
    if rebind then
      match getInfo db id with
      | .error _ => (db, none)
      | .ok info =>
        if (match info with | some r => r.desc == d.str | none => false) then (db, some id)
        else setBound db id d now
    else (db, some id)

/-- `upload`: bind, decide, transmit, mark. Returns the id of the returned instance (`none`: raised). -/
def upload (cfg : Cfg) (thr : String → Thresholds) (rebind : Bool) (s : State) (r : Request) :
    State × List Event × Option Nat :=
  match bind cfg rebind s.db s.now r.target r.desc with
  | (db1, none) => ({ s with db := db1 }, [], none)
  | (db1, some x) =>
    let s1 : State := { s with db := db1 }
    match (if r.force then .ok true else needsUploading db1 x r.term (thr r.term) s.now) with
    | .error _ => (s1, [], none)
    | .ok false => (s1, [], some x)
    | .ok true =>
      match uploadVia r.via with
      | none => (s1, [], none)
      | some sent =>
        -- `send_command(TransmitCommand(image_id=inst.id, …).set_placement(virtual, rows, cols)…)`
        let s2 := s1.arrive r.term ⟨x, r.desc.token, r.desc.rows, r.desc.cols, r.size, s.now⟩
        match markUploaded db1 x r.term r.size s.now with
        | .error _ => (s2, [.transmit r.term x r.via sent], none)
        | .ok db2 => ({ s2 with db := db2 }, [.transmit r.term x r.via sent], some x)

/-- `upload_and_display` = `upload` then `display_only` of the returned instance (which reads and
    writes nothing in the database); `upload` alone when `r.display = false`. -/
def request (cfg : Cfg) (thr : String → Thresholds) (rebind : Bool) (s : State) (r : Request) :
    State × List Event :=
  match upload cfg thr rebind s r with
  | (s', evs, some x) => (s', if r.display then evs ++ [.print r.term x r.desc] else evs)
  | (s', evs, none) => (s', evs)

/-! ### the task's request vocabulary -/

/-- `upload_and_display(file | in-memory image)` -/
def display (T : String) (d : Desc) (space : Space) (sub : Sub) (ch : GetChoice) (size : Nat) : Request :=
  { term := T, target := .alloc space sub ch, desc := d, size := size }

/-- `upload_and_display(ImageInstance)` (also the CLI's `display <id>`) -/
def displayInstance (T : String) (id : Nat) (d : Desc) (size : Nat) : Request :=
  { term := T, target := .inst id, desc := d, size := size }

/-- `upload(file | in-memory image)` without display -/
def uploadOnly (T : String) (d : Desc) (space : Space) (sub : Sub) (ch : GetChoice) (size : Nat) : Request :=
  { term := T, target := .alloc space sub ch, desc := d, size := size, display := false }

/-! ### environment: what may happen between requests -/

inductive Env
  | tick (dt : Nat)
  | get (req : Req) (ch : GetChoice)                                   -- `get_id` by any user
  | set (id : Nat) (desc : String)                                     -- another image force-bound
  | del (id : Nat)
  | cleanup (s : Space) (u : Sub) (maxIds : Nat) (removed : List Nat)
  | cleanupUploads (n : Nat) (kept : List (Nat × String))
deriving Repr, Inhabited

/-- the database operation of an environment step at clock value `now` -/
def Env.toOp (now : Nat) : Env → Option Op
  | .tick _ => none
  | .get req ch => some (.get req now ch)
  | .set id d => some (.set id d now)
  | .del id => some (.del id)
  | .cleanup s u m removed => some (.cleanup s u m removed)
  | .cleanupUploads n kept => some (.cleanupUploads n kept)

def envStep (cfg : Cfg) (s : State) (e : Env) : State :=
  match e with
  | .tick dt => { s with now := s.now + dt }
  | e => match e.toOp s.now with
    | some op => { s with db := applyOp cfg s.db op }
    | none => s

inductive Step
  | req (r : Request)
  | env (e : Env)
deriving Repr, Inhabited

def step (cfg : Cfg) (thr : String → Thresholds) (rebind : Bool) (s : State) : Step → State × List Event
  | .req r => request cfg thr rebind s r
  | .env e => (envStep cfg s e, [])

def run (cfg : Cfg) (thr : String → Thresholds) (rebind : Bool) (s : State) : List Step → State
  | [] => s
  | st :: rest => run cfg thr rebind (step cfg thr rebind s st).1 rest

/-- every event of the history, paired with the state at the moment it happened (for a print: after
    the transmission of the same request, if there was one) -/
def trace (cfg : Cfg) (thr : String → Thresholds) (rebind : Bool) (s : State) : List Step → List (State × Event)
  | [] => []
  | st :: rest =>
    let (s', evs) := step cfg thr rebind s st
    evs.map (fun e => (s', e)) ++ trace cfg thr rebind s' rest

/-- The D16 hypothesis, on the ghost logs: the clock value strictly increases between any two
    registered uploads to one terminal (logs are newest first). -/
def StrictTimes (s : State) : Prop := ∀ T, (s.logs T).Pairwise (fun a b => a.time > b.time)

/-- the thresholds the terminal is assumed to honour are the ones the library is configured with -/
def specThr (t : Thresholds) : Spec.Thresholds := ⟨t.maxUploads, t.maxBytes, t.maxTime⟩

end Tup.Display
