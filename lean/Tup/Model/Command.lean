import Tup.Basic
import Tup.Base64
/-!
  Model of `tupimage/graphics_command.py` (commands, header tuples, serialisation, splitting,
  sending) and of the two pieces of `graphics_terminal.py` / `tupimage_terminal.py` that the
  command stream depends on: `get_graphics_command_template` and the tmux auto-detection.

  Written function by function after the Python.  `None` fields are `Option.none`; integers are
  natural numbers (the library only ever puts ids, sizes, offsets, counts there); `ValueError`
  of `send` is `Except.error`.  No Mathlib.

  One deviation from the tree as it stands, on purpose (defect D1, see fixes/D1-*.diff): `split`
  treats `medium = None` like `DIRECT` (the protocol default), i.e. it models the *repaired* line
  `if self.medium is not None and self.medium != TransmissionMedium.DIRECT:`.
-/
namespace Tup.Command
open Tup

/-! ### enums (`.value` of each member) -/

inductive Quietness | verbose | quietUnlessError | quietAlways
deriving DecidableEq, Repr, Inhabited
inductive Format | rgb | rgba | png
deriving DecidableEq, Repr, Inhabited
inductive Medium | direct | file | tempFile | sharedMemory
deriving DecidableEq, Repr, Inhabited
inductive Compression | zlib
deriving DecidableEq, Repr, Inhabited
inductive WhatToDelete
  | visiblePlacements | imageOrPlacementById | imageOrPlacementByNumber | placementsUnderCursor
  | animationFrames | placementsAtPosition | placementsAtPositionAndZindex | placementsAtColumn
  | placementsAtRow | placementsAtZindex
deriving DecidableEq, Repr, Inhabited

/-- A normalised header value: `bytes | int` (`normalize_header_value`). -/
inductive HVal
  | int (n : Nat)
  | raw (bs : Bytes)
deriving DecidableEq, Repr, Inhabited

def Quietness.value : Quietness → Nat
  | .verbose => 0 | .quietUnlessError => 1 | .quietAlways => 2
def Format.value : Format → Nat
  | .rgb => 24 | .rgba => 32 | .png => 100
/-- `'d' 'f' 't' 's'` -/
def Medium.value : Medium → UInt8
  | .direct => 100 | .file => 102 | .tempFile => 116 | .sharedMemory => 115
/-- `'z'` -/
def Compression.value : Compression → UInt8
  | .zlib => 122
/-- `'a' 'i' 'n' 'c' 'f' 'p' 'q' 'x' 'y' 'z'` -/
def WhatToDelete.value : WhatToDelete → UInt8
  | .visiblePlacements => 97 | .imageOrPlacementById => 105 | .imageOrPlacementByNumber => 110
  | .placementsUnderCursor => 99 | .animationFrames => 102 | .placementsAtPosition => 112
  | .placementsAtPositionAndZindex => 113 | .placementsAtColumn => 120 | .placementsAtRow => 121
  | .placementsAtZindex => 122

def Quietness.all : List Quietness := [.verbose, .quietUnlessError, .quietAlways]
def Format.all : List Format := [.rgb, .rgba, .png]
def Medium.all : List Medium := [.direct, .file, .tempFile, .sharedMemory]
def Compression.all : List Compression := [.zlib]
def WhatToDelete.all : List WhatToDelete :=
  [.visiblePlacements, .imageOrPlacementById, .imageOrPlacementByNumber, .placementsUnderCursor,
   .animationFrames, .placementsAtPosition, .placementsAtPositionAndZindex, .placementsAtColumn,
   .placementsAtRow, .placementsAtZindex]

/-! ### `normalize_header_value` per Python type -/

def nInt (n : Nat) : HVal := .int n
/-- `bool` → `1`/`0` -/
def nBool (b : Bool) : HVal := .int (if b then 1 else 0)
/-- str-valued enum → `value.encode("ascii")` (one letter) -/
def nChar (c : UInt8) : HVal := .raw [c]

/-- One entry of the tuple handed to `normalize_header_tuple`: dropped when the value is `None`. -/
def hp (k : UInt8) (v : Option HVal) : List (UInt8 × HVal) :=
  match v with
  | none => []
  | some x => [(k, x)]

/-- `str.upper()` on one ASCII letter. -/
def upper (c : UInt8) : UInt8 := if 97 ≤ c.toNat ∧ c.toNat ≤ 122 then c - 32 else c

/-! ### command values -/

/-- `PlacementData` -/
structure Placement where
  placementId : Option Nat := none
  virtual : Option Bool := none
  rows : Option Nat := none
  cols : Option Nat := none
  doNotMoveCursor : Option Bool := none
  srcX : Option Nat := none
  srcY : Option Nat := none
  srcW : Option Nat := none
  srcH : Option Nat := none
deriving DecidableEq, Repr, Inhabited

/-- `TransmitCommand` (`data` is the content of the bytes object / seekable stream). -/
structure Transmit where
  imageId : Option Nat := none
  imageNumber : Option Nat := none
  medium : Option Medium := none
  data : Bytes := []
  size : Option Nat := none
  offset : Option Nat := none
  quiet : Option Quietness := none
  more : Option Bool := none
  format : Option Format := none
  compression : Option Compression := none
  pixWidth : Option Nat := none
  pixHeight : Option Nat := none
  query : Option Bool := none
  placement : Option Placement := none
  omitAction : Bool := false
deriving DecidableEq, Repr, Inhabited

/-- `MoreDataCommand` -/
structure MoreData where
  imageId : Option Nat := none
  imageNumber : Option Nat := none
  data : Bytes := []
  more : Option Bool := none
deriving DecidableEq, Repr, Inhabited

/-- `PutCommand(GraphicsCommand, PlacementData)` -/
structure Put where
  placement : Placement := {}
  imageId : Option Nat := none
  imageNumber : Option Nat := none
  quiet : Option Quietness := none
deriving DecidableEq, Repr, Inhabited

/-- `DeleteCommand` -/
structure Delete where
  imageId : Option Nat := none
  imageNumber : Option Nat := none
  placementId : Option Nat := none
  quiet : Option Quietness := none
  what : Option WhatToDelete := none
  deleteData : Option Bool := none
deriving DecidableEq, Repr, Inhabited

inductive GCmd
  | transmit (t : Transmit)
  | moreData (m : MoreData)
  | put (p : Put)
  | delete (d : Delete)
deriving DecidableEq, Repr, Inhabited

/-! ### `header_to_tuple` -/

/-- `PlacementData.to_tuple` : p U r c x y w h C -/
def Placement.pairs (p : Placement) : List (UInt8 × HVal) :=
  hp 112 (p.placementId.map nInt) ++
  hp 85 (p.virtual.map nBool) ++
  hp 114 (p.rows.map nInt) ++
  hp 99 (p.cols.map nInt) ++
  hp 120 (p.srcX.map nInt) ++
  hp 121 (p.srcY.map nInt) ++
  hp 119 (p.srcW.map nInt) ++
  hp 104 (p.srcH.map nInt) ++
  hp 67 (p.doNotMoveCursor.map nBool)

/-- `action` of `TransmitCommand.header_to_tuple`: `None` when `omit_action`, else
    `"q" if self.query else "t" if self.placement is None else "T"`. -/
def Transmit.action (t : Transmit) : Option HVal :=
  if t.omitAction then none
  else some (nChar (if t.query = some true then 113 else if t.placement.isNone then 116 else 84))

/-- `TransmitCommand.header_to_tuple` : i I t S O q m f o s v a (+ placement tuple) -/
def Transmit.pairs (t : Transmit) : List (UInt8 × HVal) :=
  hp 105 (t.imageId.map nInt) ++
  hp 73 (t.imageNumber.map nInt) ++
  hp 116 (t.medium.map fun m => nChar m.value) ++
  hp 83 (t.size.map nInt) ++
  hp 79 (t.offset.map nInt) ++
  hp 113 (t.quiet.map fun q => nInt q.value) ++
  hp 109 (t.more.map nBool) ++
  hp 102 (t.format.map fun f => nInt f.value) ++
  hp 111 (t.compression.map fun c => nChar c.value) ++
  hp 115 (t.pixWidth.map nInt) ++
  hp 118 (t.pixHeight.map nInt) ++
  hp 97 t.action ++
  (match t.placement with
   | none => []
   | some p => p.pairs)

/-- `MoreDataCommand.header_to_tuple` : i I m -/
def MoreData.pairs (m : MoreData) : List (UInt8 × HVal) :=
  hp 105 (m.imageId.map nInt) ++
  hp 73 (m.imageNumber.map nInt) ++
  hp 109 (m.more.map nBool)

/-- `PutCommand.header_to_tuple` : a=p i I q (+ placement tuple) -/
def Put.pairs (p : Put) : List (UInt8 × HVal) :=
  hp 97 (some (.raw [112])) ++
  hp 105 (p.imageId.map nInt) ++
  hp 73 (p.imageNumber.map nInt) ++
  hp 113 (p.quiet.map fun q => nInt q.value) ++
  p.placement.pairs

/-- `what_str` of `DeleteCommand.header_to_tuple` -/
def Delete.whatStr (d : Delete) : Option HVal :=
  d.what.map fun w => nChar (if d.deleteData = some true then upper w.value else w.value)

/-- `DeleteCommand.header_to_tuple` : a=d i I p q d -/
def Delete.pairs (d : Delete) : List (UInt8 × HVal) :=
  hp 97 (some (.raw [100])) ++
  hp 105 (d.imageId.map nInt) ++
  hp 73 (d.imageNumber.map nInt) ++
  hp 112 (d.placementId.map nInt) ++
  hp 113 (d.quiet.map fun q => nInt q.value) ++
  hp 100 d.whatStr

def headerPairs : GCmd → List (UInt8 × HVal)
  | .transmit t => t.pairs
  | .moreData m => m.pairs
  | .put p => p.pairs
  | .delete d => d.pairs

/-! ### `header_to_bytes`, `content_to_bytes`, `to_bytes` -/

/-- `v if isinstance(v, bytes) else str(v).encode("ascii")` -/
def HVal.render : HVal → Bytes
  | .int n => natToDec n
  | .raw b => b

/-- `k + b"=" + value` -/
def kvBytes (p : UInt8 × HVal) : Bytes := p.1 :: 61 :: p.2.render

/-- `b",".join(parts)` -/
def joinComma : List Bytes → Bytes
  | [] => []
  | [x] => x
  | x :: y :: rest => x ++ 44 :: joinComma (y :: rest)

def headerBytes (c : GCmd) : Bytes := joinComma ((headerPairs c).map kvBytes)

/-- `get_raw_payload`: `None` for put / delete. -/
def rawPayload : GCmd → Option Bytes
  | .transmit t => some t.data
  | .moreData m => some m.data
  | .put _ => none
  | .delete _ => none

/-- `get_encoded_payload` -/
def encodedPayload (c : GCmd) : Option Bytes := (rawPayload c).map b64enc

/-- `content_to_bytes` -/
def contentBytes (c : GCmd) : Bytes :=
  match encodedPayload c with
  | none => headerBytes c
  | some p => headerBytes c ++ 59 :: p

/-- A command template: the byte string `pre ++ b"%b" ++ suf` (exactly one `%b`, no other `%`). -/
structure Template where
  pre : Bytes
  suf : Bytes
deriving DecidableEq, Repr, Inhabited

/-- `len(template)` of the Python byte string. -/
def Template.length (t : Template) : Nat := t.pre.length + 2 + t.suf.length
/-- the Python byte string itself -/
def Template.bytes (t : Template) : Bytes := t.pre ++ [37, 98] ++ t.suf

/-- `bytes.replace(b"\033", b"\033\033")` -/
def escDouble : Bytes → Bytes
  | [] => []
  | b :: rest => if b = ESC then ESC :: ESC :: escDouble rest else b :: escDouble rest

/-- `b"\033Ptmux;"` -/
def tmuxPre : Bytes := [27, 80, 116, 109, 117, 120, 59]
/-- `b"\033\\"` -/
def stTerm : Bytes := [27, 92]

/-- `GraphicsCommand.DEFAULT_TEMPLATE` = `b"\033_G%b\033\\"` -/
def defaultTemplate : Template := ⟨[27, 95, 71], stTerm⟩

/-- `get_graphics_command_template` with `num_tmux_layers = n`:
    `template = b"\033Ptmux;%b\033\\" % template.replace(b"\033", b"\033\033")`, n times. -/
def template : Nat → Template
  | 0 => defaultTemplate
  | n + 1 => ⟨tmuxPre ++ escDouble (template n).pre, escDouble (template n).suf ++ stTerm⟩

/-- `to_bytes(template)` = `template % content_to_bytes()` -/
def toBytes (tm : Template) (c : GCmd) : Bytes := tm.pre ++ contentBytes c ++ tm.suf

/-! ### `TransmitCommand.split` -/

/-- `original_more or bool(next_chunk)` -/
def orMore (original : Option Bool) (next : Bytes) : Bool := original == some true || !next.isEmpty

/-- The `while next_chunk:` loop.  `rest` is what the stream still holds when the loop is entered
    *including* the already read look-ahead chunk (`next_chunk = rest.take n`); `read(n)` returns
    `min n remaining` bytes.  Fuel: `rest.length` iterations suffice when `n ≥ 1`. -/
def moreChunks (id num : Option Nat) (orig : Option Bool) (n : Nat) : Nat → Bytes → List GCmd
  | 0, _ => []
  | fuel + 1, rest =>
    if (rest.take n).isEmpty then []
    else
      let cur := rest.take n
      let rest' := rest.drop n
      .moreData { imageId := id, imageNumber := num, data := cur, more := some (orMore orig (rest'.take n)) }
        :: moreChunks id num orig n fuel rest'

/-- `TransmitCommand.split(max_payload_size=n)` (repaired: `medium is not None and medium != DIRECT`). -/
def Transmit.split (t : Transmit) (n : Nat) : List GCmd :=
  if t.medium ≠ none ∧ t.medium ≠ some .direct then [.transmit t]
  else
    let cur := t.data.take n
    let rest := t.data.drop n
    .transmit { t with data := cur, more := some (orMore t.more (rest.take n)) }
      :: moreChunks t.imageId t.imageNumber t.more n rest.length rest

/-! ### `GraphicsCommand.send` -/

inductive SendErr | tooSmall
deriving DecidableEq, Repr, Inhabited

/-- `max_size - len(template) - len(self.header_to_bytes()) - 4` (truncated at 0: a negative
    budget and a zero budget both give `max_payload_size < 1`). -/
def budget (tm : Template) (maxSize : Nat) (t : Transmit) : Nat :=
  maxSize - tm.length - (headerBytes (.transmit t)).length - 4

/-- `(max_base64_payload_size // 4) * 3` -/
def maxPayload (tm : Template) (maxSize : Nat) (t : Transmit) : Nat := budget tm maxSize t / 4 * 3

/-- The escape codes written to `out`, in order (one `out.write` each); `error` = `ValueError`
    raised before anything is written. -/
def send (tm : Template) (maxSize : Nat) : GCmd → Except SendErr (List Bytes)
  | .transmit t =>
    if maxPayload tm maxSize t < 1 then .error .tooSmall
    else .ok ((t.split (maxPayload tm maxSize t)).map (toBytes tm))
  | c => .ok [toBytes tm c]

/-! ### tmux auto-detection -/

/-- Python `needle in hay` on strings -/
def hasSub (needle : Bytes) : Bytes → Bool
  | [] => needle.isEmpty
  | b :: rest => needle.isPrefixOf (b :: rest) || hasSub needle rest

def sScreen : Bytes := [115, 99, 114, 101, 101, 110]
def sTmux : Bytes := [116, 109, 117, 120]

/-- The environment as the two code sites read it: `os.environ.get("TMUX")`, `os.environ.get("TERM")`. -/
structure Env where
  tmux : Option Bytes
  term : Option Bytes
deriving DecidableEq, Repr, Inhabited

/-- `os.environ.get("TMUX") and ("screen" in term or "tmux" in term)` with
    `term = os.environ.get("TERM", "")` -/
def detectTmux (e : Env) : Bool :=
  let term := e.term.getD []
  (match e.tmux with
   | none => false
   | some v => !v.isEmpty) && (hasSub sScreen term || hasSub sTmux term)

/-- `GraphicsTerminal.detect_tmux`: new `num_tmux_layers`. -/
def detectSiteTerminal (cur : Nat) (e : Env) : Nat := if detectTmux e then max 1 cur else 0

/-- `TupimageTerminal.__init__`: `config.num_tmux_layers` (`none` = `"auto"`). -/
def detectSiteConfig (cfg : Option Nat) (e : Env) : Nat :=
  match cfg with
  | none => if detectTmux e then 1 else 0
  | some k => k

/-! ### derivation entry points (`clone_with`, `get_pure_transmit_command`, `get_put_command`)

  `GraphicsCommand.clone_with(**kwargs)` is `dataclasses.replace(self, **kwargs)`: a record update in
  which every named field takes the given value, **`None` included** (the field becomes unset).  The
  record update itself is Lean's `{ c with … }`; the driver applies it field by field. -/

/-- `get_pure_transmit_command` = `clone_with(placement=None)` -/
def Transmit.pureTransmit (t : Transmit) : Transmit := { t with placement := none }

/-- `get_put_command`: `None` without placement, else
    `PutCommand(image_id, image_number, quiet, **asdict(placement))` -/
def Transmit.putCommand (t : Transmit) : Option Put :=
  t.placement.map fun p => { placement := p, imageId := t.imageId, imageNumber := t.imageNumber, quiet := t.quiet }

/-! ### the part of a `GraphicsTerminal`'s configuration the command stream depends on -/

/-- `max_command_size` (`None` = `select.PIPE_BUF` at send time) and `num_tmux_layers` -/
structure TermCfg where
  maxSize : Option Nat := none
  layers : Nat := 0
deriving DecidableEq, Repr, Inhabited

/-- `GraphicsTerminal.clone_with(num_tmux_layers=arg)`: `copy.copy(self)`, then the layer count is
    assigned when the argument `is not None` (0 included); `max_command_size` is copied. -/
def TermCfg.cloneWith (c : TermCfg) (layers : Option Nat) : TermCfg :=
  match layers with
  | none => c
  | some k => { c with layers := k }

/-- `GraphicsTerminal.detect_tmux()` on this object -/
def TermCfg.detect (c : TermCfg) (e : Env) : TermCfg := { c with layers := detectSiteTerminal c.layers e }

/-- `send_command`: `command.send(out, template(num_tmux_layers), max_size=max_command_size)` -/
def TermCfg.sendCommand (c : TermCfg) (pipeBuf : Nat) (cmd : GCmd) : Except SendErr (List Bytes) :=
  send (template c.layers) (c.maxSize.getD pipeBuf) cmd

end Tup.Command
