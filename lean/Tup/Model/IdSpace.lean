import Tup.Basic
/-!
  Model of `tupimage/id_manager.py`: `IDSubspace` and `IDSpace`.
  Written function by function after the Python, with `&&&`, `<<<`, `>>>` where the code uses them.
  Errors (`ValueError`) are `none`.
-/
namespace Tup

structure Space where
  colorBits : Nat
  use3rd : Bool
deriving DecidableEq, Repr, Inhabited

/-- `IDSpace.__post_init__` accepts exactly these. -/
def Space.valid (s : Space) : Bool :=
  (s.colorBits == 0 || s.colorBits == 8 || s.colorBits == 24) && !(s.colorBits == 0 && !s.use3rd)

/-- `IDSpace.all_values()` in its iteration order. -/
def Space.all : List Space := [⟨0, true⟩, ⟨8, true⟩, ⟨24, true⟩, ⟨8, false⟩, ⟨24, false⟩]

structure Sub where
  b : Nat
  e : Nat
deriving DecidableEq, Repr, Inhabited

/-- `IDSubspace.__post_init__` accepts exactly these (`0 ≤ begin` is automatic in ℕ). -/
def Sub.valid (u : Sub) : Bool := decide (u.b < u.e) && decide (u.e ≤ 256) && !(u.e == 1)

def Sub.full : Sub := ⟨0, 256⟩

/-- `IDSubspace(begin, end)` constructor: `none` is the `ValueError`. -/
def mkSub (b e : Nat) : Option Sub := if (Sub.mk b e).valid then some ⟨b, e⟩ else none

def Sub.numByteValues (u : Sub) : Nat := u.e - u.b
def Sub.numNonzeroByteValues (u : Sub) : Nat := if u.b ≤ 0 then u.e - 1 else u.e - u.b
/-- `all_byte_values` -/
def Sub.allBytes (u : Sub) : List Nat := List.range' u.b (u.e - u.b)
/-- `all_nonzero_byte_values` -/
def Sub.allNonzeroBytes (u : Sub) : List Nat :=
  if u.b ≤ 0 then List.range' 1 (u.e - 1) else List.range' u.b (u.e - u.b)
def Sub.containsByte (u : Sub) (x : Nat) : Bool := decide (u.b ≤ x) && decide (x < u.e)

/-- Python's `range(start, stop, step)` for positive step, as a list. -/
def pyRange (start stop step : Nat) : List Nat :=
  if step = 0 then [] else List.range' start ((stop - start + step - 1) / step) step

/-- `IDSubspace.split(count)`; `none` is the `ValueError`. -/
def Sub.split (u : Sub) (count : Nat) : Option (List Sub) :=
  if count = 0 then none
  else if count = 1 then some [u]
  else if u.numNonzeroByteValues < count then none
  else
    let size := u.numNonzeroByteValues / count
    let remainder := u.numByteValues - size * count
    let subs := (pyRange (u.b + remainder) u.e size).map fun bg => Sub.mk bg (bg + size)
    match subs with
    | [] => none   -- `subspaces[0]` would raise IndexError; unreachable (see `split_spec`)
    | s0 :: rest => some (⟨u.b, s0.e⟩ :: rest)

/-- `IDSpace.from_id`; `none` is the `ValueError` for ids outside `1 .. 2^32-1`. -/
def fromId (id : Nat) : Option Space :=
  if id = 0 ∨ id > 0xFFFFFFFF then none
  else
    let use3 := (id &&& 0xFF000000) != 0
    let cb := if (id &&& 0x00FFFFFF) != 0 then (if (id &&& 0x00FFFF00) != 0 then 24 else 8) else 0
    some ⟨cb, use3⟩

def Space.numNonzeroBits (s : Space) : Nat := (if s.use3rd then 8 else 0) + s.colorBits

def Space.byteOffset (s : Space) : Nat :=
  if s.use3rd then 24 else if s.colorBits = 24 then 16 else 0
def Space.byteMask (s : Space) : Nat := 0xFF <<< s.byteOffset
def Space.maskedRange (s : Space) (u : Sub) : Nat × Nat := (u.b <<< s.byteOffset, u.e <<< s.byteOffset)

/-- `IDSpace.contains`; `none` when `from_id` raises. -/
def Space.contains (s : Space) (id : Nat) : Option Bool := (fromId id).map (· == s)

/-- `contains_and_in_subspace` -/
def Space.containsInSub (s : Space) (id : Nat) (u : Sub) : Option Bool :=
  let (lo, hi) := s.maskedRange u
  (s.contains id).map fun c => c && decide (lo ≤ id &&& s.byteMask) && decide (id &&& s.byteMask < hi)

/-- `get_subspace_byte` -/
def subspaceByte (id : Nat) : Option Nat :=
  (fromId id).map fun s => (id >>> s.byteOffset) &&& 0xFF

/-- The database range filter `(id & mask) BETWEEN begin AND end-1` used by every query. -/
def Space.sqlFilter (s : Space) (u : Sub) (id : Nat) : Bool :=
  let (lo, hi) := s.maskedRange u
  decide (lo ≤ id &&& s.byteMask) && decide (id &&& s.byteMask ≤ hi - 1)

/-- `subspace_size` -/
def Space.subspaceSize (s : Space) (u : Sub) : Nat :=
  if s.use3rd then
    let b3 := u.numNonzeroByteValues
    if s.colorBits = 8 then b3 * 1 * 255
    else if s.colorBits = 24 then b3 * (256 * 256 - 1) * 256
    else b3 * 1 * 1
  else
    if s.colorBits = 8 then 1 * 1 * u.numNonzeroByteValues
    else if s.colorBits = 24 then
      let c12 := u.numByteValues * 256
      1 * (if u.b ≤ 0 then c12 - 1 else c12) * 256
    else 1

/-- `all_ids`, same nesting and iteration order as the generator. -/
def Space.allIds (s : Space) (u : Sub) : List Nat :=
  let byte3 : List Nat := if s.use3rd then u.allNonzeroBytes else [0]
  let byte0 : List Nat :=
    if s.use3rd then (if s.colorBits = 8 then List.range' 1 255 else if s.colorBits = 24 then List.range' 0 256 else [0])
    else (if s.colorBits = 8 then u.allNonzeroBytes else if s.colorBits = 24 then List.range' 0 256 else [0])
  let byte12 : List Nat :=
    if s.use3rd then (if s.colorBits = 24 then List.range' 1 (256 * 256 - 1) else [0])
    else (if s.colorBits = 24 then
            u.allBytes.flatMap fun b2 =>
              (List.range' (if b2 = 0 then 1 else 0) (if b2 = 0 then 255 else 256)).map fun b1 => (b2 <<< 8) ||| b1
          else [0])
  byte3.flatMap fun b3 => byte12.flatMap fun b12 => byte0.map fun b0 => (b3 <<< 24) ||| (b12 <<< 8) ||| b0

/-- The successive `secrets.randbelow(n)` results consumed by `gen_random_id`, in call order.
    `gen_random_id` consumes between 1 and 4 of them; the model takes them as a list and
    returns `none` if a draw is missing or out of the range the code asked for. -/
structure DrawSt where
  rest : List Nat
  ok : Bool := true

def draw (n : Nat) (st : DrawSt) : Nat × DrawSt :=
  match st.rest with
  | [] => (0, { st with ok := false })
  | d :: ds => (d, { rest := ds, ok := st.ok && decide (d < n) })

def Sub.randByte (u : Sub) (st : DrawSt) : Nat × DrawSt :=
  let (d, st) := draw (u.e - u.b) st; (d + u.b, st)
def Sub.randNonzeroByte (u : Sub) (st : DrawSt) : Nat × DrawSt :=
  if u.b ≤ 0 then let (d, st) := draw (u.e - 1) st; (d + 1, st) else u.randByte st

/-- `gen_random_id` as a function of the draws. Also returns the bounds requested, in order. -/
def Space.genRandomId (s : Space) (u : Sub) (draws : List Nat) : Option Nat :=
  let st : DrawSt := { rest := draws }
  let (b0, b1, b2, b3, st) : Nat × Nat × Nat × Nat × DrawSt :=
    if s.use3rd then
      let (b3, st) := u.randNonzeroByte st
      if s.colorBits = 8 then
        let (d, st) := draw 255 st
        (d + 1, 0, 0, b3, st)
      else if s.colorBits = 24 then
        let (b0, st) := draw 256 st
        let (b2, st) := draw 256 st
        if b2 = 0 then let (d, st) := draw 255 st; (b0, d + 1, b2, b3, st)
        else let (d, st) := draw 256 st; (b0, d, b2, b3, st)
      else (0, 0, 0, b3, st)
    else
      if s.colorBits = 8 then
        let (b0, st) := u.randNonzeroByte st
        (b0, 0, 0, 0, st)
      else if s.colorBits = 24 then
        let (b0, st) := draw 256 st
        let (b2, st) := u.randByte st
        if b2 = 0 then let (d, st) := draw 255 st; (b0, d + 1, b2, 0, st)
        else let (d, st) := draw 256 st; (b0, d, b2, 0, st)
      else (0, 0, 0, 0, st)
  if st.ok && st.rest.isEmpty then some ((b3 <<< 24) ||| (b2 <<< 16) ||| (b1 <<< 8) ||| b0) else none

/-! ### bounds requested by `gen_random_id` (addition; nothing above depends on it)

`genRandomId` only checks each draw `d` against the bound `n` the code passes to `secrets.randbelow(n)`.
`genBounds` returns those `n` themselves, in call order, for the same traversal (a later bound may depend on
an earlier draw: `byte_2 == 0`); a missing draw is read as 0. The harness compares them with the bounds the
real code requests, so a bound that is too small (a member that can never be generated) is a K mismatch even
when the scripted draw happens to be legal for both. -/

structure DrawLog where
  rest : List Nat
  asked : List Nat := []

def drawL (n : Nat) (st : DrawLog) : Nat × DrawLog :=
  match st.rest with
  | [] => (0, { st with asked := st.asked ++ [n] })
  | d :: ds => (d, { rest := ds, asked := st.asked ++ [n] })

def Sub.randByteL (u : Sub) (st : DrawLog) : Nat × DrawLog :=
  let (d, st) := drawL (u.e - u.b) st; (d + u.b, st)
def Sub.randNonzeroByteL (u : Sub) (st : DrawLog) : Nat × DrawLog :=
  if u.b ≤ 0 then let (d, st) := drawL (u.e - 1) st; (d + 1, st) else u.randByteL st

/-- `gen_random_id` once more, logging the bound of every `randbelow` call: (id, bounds in call order). -/
def Space.genRandomIdLog (s : Space) (u : Sub) (draws : List Nat) : Nat × List Nat :=
  let st : DrawLog := { rest := draws }
  let (b0, b1, b2, b3, st) : Nat × Nat × Nat × Nat × DrawLog :=
    if s.use3rd then
      let (b3, st) := u.randNonzeroByteL st
      if s.colorBits = 8 then
        let (d, st) := drawL 255 st
        (d + 1, 0, 0, b3, st)
      else if s.colorBits = 24 then
        let (b0, st) := drawL 256 st
        let (b2, st) := drawL 256 st
        if b2 = 0 then let (d, st) := drawL 255 st; (b0, d + 1, b2, b3, st)
        else let (d, st) := drawL 256 st; (b0, d, b2, b3, st)
      else (0, 0, 0, b3, st)
    else
      if s.colorBits = 8 then
        let (b0, st) := u.randNonzeroByteL st
        (b0, 0, 0, 0, st)
      else if s.colorBits = 24 then
        let (b0, st) := drawL 256 st
        let (b2, st) := u.randByteL st
        if b2 = 0 then let (d, st) := drawL 255 st; (b0, d + 1, b2, 0, st)
        else let (d, st) := drawL 256 st; (b0, d, b2, 0, st)
      else (0, 0, 0, 0, st)
  ((b3 <<< 24) ||| (b2 <<< 16) ||| (b1 <<< 8) ||| b0, st.asked)

def Space.genBounds (s : Space) (u : Sub) (draws : List Nat) : List Nat := (s.genRandomIdLog u draws).2

/-- Number of distinct draw sequences `gen_random_id` can consume for `(s, u)` (leaves of its draw tree),
    in closed form from the bounds above: the product along a path, summed over the `byte_2 == 0` fork. -/
def Space.genLeaves (s : Space) (u : Sub) : Nat :=
  if s.use3rd then
    let n3 := if u.b ≤ 0 then u.e - 1 else u.e - u.b
    if s.colorBits = 8 then n3 * 255
    else if s.colorBits = 24 then n3 * 256 * (1 * 255 + 255 * 256)
    else n3
  else
    if s.colorBits = 8 then (if u.b ≤ 0 then u.e - 1 else u.e - u.b)
    else if s.colorBits = 24 then
      256 * ((if u.b ≤ 0 then 255 else 0) + (if u.b ≤ 0 then u.e - u.b - 1 else u.e - u.b) * 256)
    else 1

/-- `IDSpace.__str__` -/
def Space.name (s : Space) : String :=
  if s.numNonzeroBits = 8 ∧ s.use3rd then "8bit_diacritic" else s!"{s.numNonzeroBits}bit"

/-- `IDSpace.from_string` -/
def Space.ofString (t : String) : Option Space :=
  if t = "32" ∨ t = "32bit" then some ⟨24, true⟩
  else if t = "24" ∨ t = "24bit" then some ⟨24, false⟩
  else if t = "8d" ∨ t = "8bit_diacritic" then some ⟨0, true⟩
  else if t = "8" ∨ t = "8bit" ∨ t = "256" then some ⟨8, false⟩
  else if t = "16" ∨ t = "16d" ∨ t = "16bit" ∨ t = "16bit_diacritic" then some ⟨8, true⟩
  else none

end Tup
