import Tup.Model.Db
/-!
  Model of the allocator part of `IDManager` (`get_info`, `get_all`, `count`, `set_id`, `del_id`,
  `get_id`, `cleanup`), function by function, over `Model.Db`.

  **Choices.** Everything the implementation decides by `secrets` or that sqlite decides on a tie is
  an *input* (`GetChoice`, `removed`); the model checks it is admissible and answers
  `Err.badChoice` otherwise. "For every admissible choice" in the theorems = "whenever the result is
  `.ok`".

  **Atomic blocks** (for the transaction / crash models of C03 / C12). Every public operation is a
  sequence of blocks; a block is one `BEGIN IMMEDIATE … COMMIT` or one autocommit statement and is a
  function `Db → Except Err (Db × result)`:

  * `getInfo`            1 read statement
  * `getAllSpace`        1 read statement;  `getAll none` = 5 of them, merged in Python
  * `countSpace`         1 read statement;  `count none`  = 5 of them, summed in Python
  * `setId`              1 autocommit upsert
  * `delId`              1 block `BEGIN IMMEDIATE; DELETE; COMMIT`
  * `cleanup`            1 autocommit `DELETE … WHERE id IN (SELECT … ORDER BY atime ASC LIMIT …)`
  * `getId`              `lookupBlock` (1 block: lookup, and for enumerable subspaces the whole
                          allocation) then, only for large subspaces on a miss,
                          `sampleBlock₁, cleanup₁, sampleBlock₂, cleanup₂, sampleBlock₃, cleanup₃,
                          sampleBlock₄` (each its own block / statement), then the error.
                          Every `sampleBlock` first *repeats the lookup* inside its transaction (fix of
                          D8): run alone it always misses (`sampleRounds_spec`), interleaved with other
                          processes it is what makes "one description, one id" hold (C03).
-/
namespace Tup

structure Cfg where
  maxIds : Nat := 1024
deriving Repr, Inhabited

structure Req where
  space : Space
  sub : Sub
  desc : String
deriving Repr, Inhabited

inductive Err
  | valueError              -- `IDSpace.from_id` on an id outside 1 .. 2^32-1
  | keyError                -- `available_ids.remove(row_id)` on a row that `all_ids` does not enumerate
  | badChoice (why : String) -- the supplied choice is not one the code/sqlite could have made
deriving DecidableEq, Repr, Inhabited

/-! ### reads -/

/-- `get_info` -/
def getInfo (db : Db) (id : Nat) : Except Err (Option Row) :=
  match fromId id with
  | none => .error .valueError
  | some s => .ok ((db.ids s).lookup id)

/-- `get_all(id_space, subspace)`: canonical representative of `ORDER BY atime DESC`. -/
def getAllSpace (db : Db) (s : Space) (u : Sub) : List Row := sortDesc ((db.ids s).inSub s u)

/-- `get_all(None, subspace)` -/
def getAllMerged (db : Db) (u : Sub) : List Row := mergeDesc (Space.all.map fun s => getAllSpace db s u)

def getAll (db : Db) (s : Option Space) (u : Sub) : List Row :=
  match s with
  | some s => getAllSpace db s u
  | none => getAllMerged db u

/-- `count(id_space, subspace)` -/
def countSpace (db : Db) (s : Space) (u : Sub) : Nat := ((db.ids s).inSub s u).length

def count (db : Db) (s : Option Space) (u : Sub) : Nat :=
  match s with
  | some s => countSpace db s u
  | none => (Space.all.map fun s => countSpace db s u).sum

/-! ### single-statement writes -/

/-- `set_id(id, description, atime=now)` — one autocommit upsert into the table of `from_id(id)`. -/
def setId (db : Db) (id : Nat) (desc : String) (now : Nat) : Except Err Db :=
  match fromId id with
  | none => .error .valueError
  | some s => .ok (db.setIds s ((db.ids s).upsert ⟨id, desc, now⟩))

/-- `del_id(id)` — one `BEGIN IMMEDIATE … COMMIT` block. -/
def delId (db : Db) (id : Nat) : Except Err Db :=
  match fromId id with
  | none => .error .valueError
  | some s => .ok (db.setIds s ((db.ids s).erase id))

/-- `cleanup(id_space, subspace, max_ids)` — one autocommit `DELETE`. `removed` = the ids sqlite
    deleted (read off the tables by the harness); must be an admissible oldest-first prefix of
    length `max (count - max_ids) 0`. -/
def cleanup (db : Db) (s : Space) (u : Sub) (maxIds : Nat) (removed : List Nat) : Except Err Db :=
  let t := db.ids s
  let live := t.inSub s u
  if admissibleRemoved live (live.length - maxIds) removed then
    .ok (db.setIds s (t.eraseAll removed))
  else .error (.badChoice "cleanup: removed set is not an oldest-first prefix of the right length")

/-! ### get_id -/

/-- What `get_id` did. -/
inductive Outcome
  | hit                           -- description already had an id in the subspace
  | fresh                         -- enumerable subspace, a free id was inserted
  | recycled (victim : Row)       -- enumerable subspace, full: the victim row was overwritten
  | sampled (removed : List Nat)  -- large subspace: rejection sample succeeded (after these clean-up removals)
  | foundLate (removed : List Nat) -- large subspace: the repeated lookup of a sampling block found the
                                   -- description (bound by another process meanwhile; never when run alone)
  | exhausted (removed : List Nat) -- large subspace: `RuntimeError("Failed to find an unused id…")`
deriving DecidableEq, Repr, Inhabited

/-- The choices of one `get_id` call. `pick` is the id the implementation returned (used on the hit
    and enumerable paths); `samples` are the candidate ids of each sampling round (≤ 8 each, read
    from the SQL trace); `removed` the ids each internal clean-up deleted. -/
structure GetChoice where
  pick : Nat := 0
  samples : List (List Nat) := []
  removed : List (List Nat) := []
deriving Repr, Inhabited

inductive BlockA
  | done (id : Nat) (out : Outcome)
  | miss                           -- large subspace, nothing written; continue with sampling
deriving DecidableEq, Repr, Inhabited

def isEnumerable (cfg : Cfg) (s : Space) (u : Sub) : Bool := decide (s.subspaceSize u ≤ min 1024 cfg.maxIds)

/-- First block of `get_id` (`with self.conn: BEGIN IMMEDIATE …`, lines 540–617). -/
def lookupBlock (cfg : Cfg) (req : Req) (now pick : Nat) (db : Db) : Except Err (Db × BlockA) :=
  let s := req.space
  let u := req.sub
  let t := db.ids s
  let hits := t.byDesc s u req.desc
  if !hits.isEmpty then
    -- `row = cursor.fetchone()`: any matching row; then UPDATE atime
    if hits.any (fun r => r.id == pick) then
      .ok (db.setIds s (t.setAtime pick now), .done pick .hit)
    else .error (.badChoice "hit: returned id is not a row with this description in the subspace")
  else if isEnumerable cfg s u then
    let live := t.inSub s u
    if live.length ≥ s.subspaceSize u then
      -- full: `ORDER BY atime ASC LIMIT 1`, then `set_id(id, …)`
      match live.find? (fun r => r.id == pick) with
      | some v =>
        if (oldestIds live).contains pick then
          match setId db pick req.desc now with
          | .ok db' => .ok (db', .done pick (.recycled v))
          | .error e => .error e
        else .error (.badChoice "full: returned id is not an oldest row of the subspace")
      | none => .error (.badChoice "full: returned id is not a row of the subspace")
    else
      let all := s.allIds u
      if live.any (fun r => !all.contains r.id) then .error .keyError
      else
        let free := all.filter (fun i => !live.any (fun r => r.id == i))
        if !free.isEmpty then
          -- `secrets.choice(list(available_ids))`
          if free.contains pick then
            match setId db pick req.desc now with
            | .ok db' => .ok (db', .done pick .fresh)
            | .error e => .error e
          else .error (.badChoice "free: returned id is not a free id of the subspace")
        else
          -- `oldest_atime_id` of the Python loop (unreachable when count < size, kept for fidelity)
          match live.find? (fun r => r.id == pick) with
          | some v =>
            if (oldestIds live).contains pick then
              match setId db pick req.desc now with
              | .ok db' => .ok (db', .done pick (.recycled v))
              | .error e => .error e
            else .error (.badChoice "loop-oldest: returned id is not an oldest row")
          | none => .error (.badChoice "loop-oldest: returned id is not a row of the subspace")
  else .ok (db, .miss)

/-- The candidates of one sampling round: every candidate must be an id `gen_random_id` can
    produce (a member of space and subspace); taken ones are skipped; the first free one ends the
    round (so it must be the last of the list); a round without a free one has exactly 8. -/
def sampleScan (s : Space) (u : Sub) (t : Table) : Nat → List Nat → Except Err (Option Nat)
  | 0, [] => .ok none
  | 0, _ :: _ => .error (.badChoice "sample: more than 8 candidates")
  | _ + 1, [] => .error (.badChoice "sample: round ended early without a free candidate")
  | k + 1, c :: cs =>
    if s.containsInSub c u != some true then .error (.badChoice "sample: candidate not in space/subspace")
    else if t.hasId c then sampleScan s u t k cs
    else if cs.isEmpty then .ok (some c)
    else .error (.badChoice "sample: candidates after the free one")

/-- Result of one sampling block. -/
inductive SampleRes
  | none                 -- 8 candidates, all taken
  | inserted (id : Nat)  -- a free candidate was bound
  | found (id : Nat)     -- the repeated lookup found the description: recency refreshed, id returned
deriving DecidableEq, Repr, Inhabited

/-- One `with self.conn: BEGIN IMMEDIATE …` block of the sampling loop: the lookup is repeated inside
    the transaction (on a hit: `UPDATE atime`, return — `pick` is the row `fetchone()` answered with),
    then rejection sampling. -/
def sampleBlock (req : Req) (now pick : Nat) (samples : List Nat) (db : Db) : Except Err (Db × SampleRes) :=
  let s := req.space
  let t := db.ids s
  let hits := t.byDesc s req.sub req.desc
  if !hits.isEmpty then
    if hits.any (fun r => r.id == pick) then
      .ok (db.setIds s (t.setAtime pick now), .found pick)
    else .error (.badChoice "late hit: returned id is not a row with this description in the subspace")
  else
    match sampleScan s req.sub t 8 samples with
    | .error e => .error e
    | .ok none => .ok (db, .none)
    | .ok (some id) =>
      match setId db id req.desc now with
      | .ok db' => .ok (db', .inserted id)
      | .error e => .error e

/-- `[0.75, 0.6, 0.5, 0]`; `int(subspace_size * frac)` is `size * p / q` (exact below 2^53, K checks). -/
def fracs : List (Option (Nat × Nat)) := [some (3, 4), some (3, 5), some (1, 2), none]

def fracLimit (cfg : Cfg) (size : Nat) (pq : Nat × Nat) : Nat := min (size * pq.1 / pq.2) cfg.maxIds

/-- The `for frac in [...]` loop: sampling block, then (unless `frac == 0`) a clean-up statement.
    Returns the final database, the result of the last sampling block, and the ids removed by the
    clean-ups. -/
def sampleRounds (cfg : Cfg) (req : Req) (now pick : Nat) :
    List (Option (Nat × Nat)) → List (List Nat) → List (List Nat) → Db → List Nat →
    Except Err (Db × SampleRes × List Nat)
  | [], _, _, db, acc => .ok (db, .none, acc)
  | f :: fs, ss, rs, db, acc =>
    match sampleBlock req now pick (ss.headD []) db with
    | .error e => .error e
    | .ok (db', .inserted id) =>
      if ss.tail.isEmpty && rs.isEmpty then .ok (db', .inserted id, acc)
      else .error (.badChoice "rounds: choices left over after success")
    | .ok (db', .found id) => .ok (db', .found id, acc)
    | .ok (db', .none) =>
      match f with
      | none => .ok (db', .none, acc)
      | some pq =>
        match cleanup db' req.space req.sub (fracLimit cfg (req.space.subspaceSize req.sub) pq) (rs.headD []) with
        | .error e => .error e
        | .ok db'' => sampleRounds cfg req now pick fs ss.tail rs.tail db'' (acc ++ rs.headD [])

/-- Result of `get_id`: an id, or the `RuntimeError` (whose clean-ups have happened). -/
inductive GetRes
  | id (n : Nat)
  | noUnusedId
deriving DecidableEq, Repr, Inhabited

/-- `get_id(description, id_space, subspace=…)` at clock value `now`. -/
def getId (cfg : Cfg) (db : Db) (req : Req) (now : Nat) (ch : GetChoice) : Except Err (Db × GetRes × Outcome) :=
  match lookupBlock cfg req now ch.pick db with
  | .error e => .error e
  | .ok (db', .done id out) => .ok (db', .id id, out)
  | .ok (db', .miss) =>
    match sampleRounds cfg req now ch.pick fracs ch.samples ch.removed db' [] with
    | .error e => .error e
    | .ok (db'', .inserted id, removed) => .ok (db'', .id id, .sampled removed)
    | .ok (db'', .found id, removed) => .ok (db'', .id id, .foundLate removed)
    | .ok (db'', .none, removed) => .ok (db'', .noUnusedId, .exhausted removed)

end Tup
