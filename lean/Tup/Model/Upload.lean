import Tup.Basic
/-!
  Model of the I/O discipline of an upload (`TupimageTerminal.upload` → `_upload` →
  `GraphicsTerminal.send_command` → `GraphicsCommand.send` → `IDManager.mark_uploaded`):
  a straight-line program of I/O calls on the command stream followed by the bookkeeping step.
  A fault (exception or death of the process) can strike at any I/O call.
-/
namespace Tup

inductive IOCall where
  | flush
  | write (n : Nat)        -- number of bytes of one escape code
deriving DecidableEq, Repr

inductive Stmt where
  | io (c : IOCall)
  | mark                   -- `id_manager.mark_uploaded(inst.id, terminal, size=…)`
deriving DecidableEq, Repr

/-- `GraphicsCommand.send`: `out.flush()`, then `out.write(chunk); out.flush()` per emitted escape code. -/
def sendCalls (chunks : List Nat) : List IOCall :=
  .flush :: chunks.flatMap fun c => [.write c, .flush]

/-- the upload program for the escape codes `chunks` (their byte lengths) -/
def uploadProgram (chunks : List Nat) : List Stmt := (sendCalls chunks).map .io ++ [.mark]

structure UpSt where
  ioDone : Nat := 0        -- I/O calls completed
  bytes : Nat := 0         -- bytes accepted by the stream
  flushedBytes : Nat := 0  -- bytes accepted and followed by a completed flush
  marked : Bool := false
deriving DecidableEq, Repr

inductive UpErr where
  | ioError   -- OSError raised by the stream: propagates to the caller
  | died      -- the process died at that call
deriving DecidableEq, Repr

/-- where and how a fault strikes: at I/O call number `at` (0-based); `after = true` means the
    call took effect before the error surfaced (e.g. data accepted, then EIO reported). -/
structure Fault where
  at_ : Nat
  kind : UpErr
  after : Bool := false
deriving DecidableEq, Repr

def applyIO (st : UpSt) : IOCall → UpSt
  | .flush => { st with ioDone := st.ioDone + 1, flushedBytes := st.bytes }
  | .write n => { st with ioDone := st.ioDone + 1, bytes := st.bytes + n }

def exec (fault : Option Fault) : List Stmt → UpSt → Except (UpErr × UpSt) UpSt
  | [], st => .ok st
  | .mark :: rest, st => exec fault rest { st with marked := true }
  | .io c :: rest, st =>
    match fault with
    | some f =>
      if f.at_ = st.ioDone then
        .error (f.kind, if f.after then applyIO st c else st)
      else exec fault rest (applyIO st c)
    | none => exec fault rest (applyIO st c)

def runUpload (chunks : List Nat) (fault : Option Fault) : Except (UpErr × UpSt) UpSt :=
  exec fault (uploadProgram chunks) {}

def totalBytes (chunks : List Nat) : Nat := chunks.sum

end Tup
