import Tup.Model.UploadInfo
/-!
  Transaction model of `IDManager` (C03 / C12): several processes share one database; each process
  executes one public request as a small state machine over the **atomic blocks** of
  `Model/Alloc.lean` and `Model/UploadInfo.lean` (one `BEGIN IMMEDIATE … COMMIT` block or one
  autocommit statement per step). Interleaving happens only *between* blocks; that a block is atomic
  and isolated is sqlite's (trusted — it is the statement groups that the correspondence check
  observes on the real code).

  * `Request`  – a public call with its clock values and the choices the implementation / sqlite made;
  * `PState`   – "which block comes next" + the request's constants and choices. For `get_id` **no
                 data read from the database is carried from one block to the next** (in the Python
                 `atime`, `namespace`, `begin/end`, `subspace_size` are functions of the arguments and
                 the clock value taken before the first block); the read-only calls are one block each
                 (`needs_uploading` / `get_upload_info` read inside one `BEGIN … COMMIT` read transaction);
  * `pstep`    – runs exactly one block: `PState → Db → Except Err (PState × Db)`;
  * `Sys`      – `procs : List PState` + the shared `db`; `sysStep st i` lets process `i` run one
                 block; a block that raises is rolled back (database unchanged) and its process ends
                 with `.raised e`; `runSched` folds a schedule `List Nat`.
  * A **crash** of process `i` is simply "`i` does not occur in the rest of the schedule": an open
    block is rolled back by sqlite (trusted), committed blocks stay. "Crash after `k` blocks" is a
    schedule prefix; no separate crash transition is needed.

  `cfg` (`max_ids_per_subspace`) is one system-wide parameter, as in `run cfg` / `Reachable cfg`.
-/
namespace Tup.Txn
open Tup

/-- A public call. (`Tup.Req` is the `(space, subspace, description)` triple of `get_id`.) -/
inductive Request
  | get (req : Req) (now : Nat) (ch : GetChoice)
  | set (id : Nat) (desc : String) (now : Nat)
  | del (id : Nat)
  | cleanup (s : Space) (u : Sub) (maxIds : Nat) (removed : List Nat)
  | mark (id : Nat) (term : String) (size time : Nat)
  | cleanupUploads (n : Nat) (kept : List (Nat × String))
  | needs (id : Nat) (term : String) (thr : Thresholds) (now : Nat)   -- `needs_uploading`: 1 read transaction
  | uploadInfo (id : Nat) (term : String)                             -- `get_upload_info`: 1 read transaction
  | info (id : Nat)                                                   -- `get_info`: 1 read
  | count (s : Option Space) (u : Sub)                                -- `count`: 1 read, or 5 summed
deriving Repr, Inhabited

/-- What a call returned. -/
inductive Result
  | got (res : GetRes) (out : Outcome)   -- `get_id`: the id (or the "no unused id" error) and how
  | unit                                 -- `set_id`, `del_id`, `cleanup`, `mark_uploaded`, `cleanup_uploads`
  | bool (b : Bool)
  | row (r : Option Row)
  | uinfo (i : Option UploadInfo)
  | nat (n : Nat)
  | raised (e : Err)                     -- the block raised; it was rolled back
  | invalidArgs                          -- `IDSpace(...)` / `IDSubspace(...)` raised: the database was never reached
deriving DecidableEq, Repr, Inhabited

/-- Continuation of a process: the next block and everything it needs. -/
inductive PState
  /-- `get_id`, first block (lookup; for enumerable subspaces the whole allocation) -/
  | getLookup (req : Req) (now : Nat) (ch : GetChoice)
  /-- `get_id`, large subspace: next is a sampling block; `fs` the remaining `frac`s, `ss`/`rs` the
      remaining per-round candidate lists / per-clean-up removed sets, `acc` the removals so far
      (only reported in the outcome) -/
  | getSample (req : Req) (now pick : Nat) (fs : List (Option (Nat × Nat))) (ss rs : List (List Nat))
      (acc : List Nat)
  /-- `get_id`, large subspace: next is the clean-up statement for `frac = p/q` -/
  | getCleanup (req : Req) (now pick : Nat) (pq : Nat × Nat) (fs : List (Option (Nat × Nat)))
      (ss rs : List (List Nat)) (acc : List Nat)
  | set (id : Nat) (desc : String) (now : Nat)
  | del (id : Nat)
  | cleanup (s : Space) (u : Sub) (maxIds : Nat) (removed : List Nat)
  | mark (id : Nat) (term : String) (size time : Nat)
  | cleanupUploads (n : Nat) (kept : List (Nat × String))
  /-- `needs_uploading`: ONE read transaction `BEGIN; get_info; get_upload_info; COMMIT` (a WAL read
      transaction sees one snapshot — trusted like the other blocks) -/
  | needs (id : Nat) (term : String) (thr : Thresholds) (now : Nat)
  /-- stand-alone `get_upload_info`: ONE read transaction around its two `SELECT`s -/
  | uinfo (id : Nat) (term : String)
  /-- PRE-FIX decomposition of `needs_uploading` (three separate autocommit reads). Not reachable from
      `Request.start`; kept only so that the counter-example `C03.prefix_needs_uploading_not_atomic` can be
      run. These are read-only states, so every theorem about arbitrary `procs` covers them too. -/
  | needsInfo (id : Nat) (term : String) (thr : Thresholds) (now : Nat)
  | needsRow (id : Nat) (term : String) (thr : Thresholds) (now : Nat) (desc : String)
  | needsAgo (id : Nat) (term : String) (thr : Thresholds) (now : Nat) (desc : String) (r : URow)
  | info (id : Nat)
  | count (todo : List Space) (u : Sub) (acc : Nat)
  | finished (r : Result)
deriving Repr, Inhabited

def Request.start : Request → PState
  | .get req now ch => .getLookup req now ch
  | .set id d now => .set id d now
  | .del id => .del id
  | .cleanup s u m removed => .cleanup s u m removed
  | .mark id term size time => .mark id term size time
  | .cleanupUploads n kept => .cleanupUploads n kept
  | .needs id term thr now => .needs id term thr now
  | .uploadInfo id term => .uinfo id term
  | .info id => .info id
  | .count (some s) u => .count [s] u 0
  | .count none u => .count Space.all u 0

def PState.isFinished : PState → Bool
  | .finished _ => true
  | _ => false

/-- Static well-formedness of the arguments: `IDSpace(...)` / `IDSubspace(...)` raise on anything
    else, so such a call never reaches the database; the sampling states exist only for
    non-enumerable subspaces. Depends on the request's constants only. -/
def PState.wf (cfg : Cfg) : PState → Bool
  | .getLookup req _ _ => req.space.valid && req.sub.valid
  | .getSample req _ _ _ _ _ _ => req.space.valid && req.sub.valid && !isEnumerable cfg req.space req.sub
  | .getCleanup req _ _ _ _ _ _ _ => req.space.valid && req.sub.valid && !isEnumerable cfg req.space req.sub
  | .cleanup s u _ _ => s.valid && u.valid
  | _ => true

/-- `get_upload_info`'s result from its two reads -/
def mkUploadInfo (id : Nat) (term : String) (r : URow) (ago : Nat × Nat) : UploadInfo :=
  { id := id, desc := r.desc, time := r.time, term := term, size := r.size,
    bytesAgo := r.size + ago.2, uploadsAgo := 1 + ago.1 }

/-- One atomic block of process state `p` on database `db`. `sb` is the sampling block (the code's
    is `sampleBlock`; the parameter exists only so that the pre-fix variant can be run, see C03). -/
def pstepG (sb : Req → Nat → Nat → List Nat → Db → Except Err (Db × SampleRes)) (cfg : Cfg)
    (p : PState) (db : Db) : Except Err (PState × Db) :=
  if !p.wf cfg then .ok (.finished .invalidArgs, db) else
  match p with
  | .getLookup req now ch =>
    match lookupBlock cfg req now ch.pick db with
    | .error e => .error e
    | .ok (db', .done id out) => .ok (.finished (.got (.id id) out), db')
    | .ok (db', .miss) => .ok (.getSample req now ch.pick fracs ch.samples ch.removed [], db')
  | .getSample _ _ _ [] _ _ acc => .ok (.finished (.got .noUnusedId (.exhausted acc)), db)
  | .getSample req now pick (f :: fs) ss rs acc =>
    match sb req now pick (ss.headD []) db with
    | .error e => .error e
    | .ok (db', .inserted id) =>
      if ss.tail.isEmpty && rs.isEmpty then .ok (.finished (.got (.id id) (.sampled acc)), db')
      else .error (.badChoice "rounds: choices left over after success")
    | .ok (db', .found id) => .ok (.finished (.got (.id id) (.foundLate acc)), db')
    | .ok (db', .none) =>
      match f with
      | none => .ok (.finished (.got .noUnusedId (.exhausted acc)), db')
      | some pq => .ok (.getCleanup req now pick pq fs ss rs acc, db')
  | .getCleanup req now pick pq fs ss rs acc =>
    match cleanup db req.space req.sub (fracLimit cfg (req.space.subspaceSize req.sub) pq) (rs.headD []) with
    | .error e => .error e
    | .ok db' => .ok (.getSample req now pick fs ss.tail rs.tail (acc ++ rs.headD []), db')
  | .set id d now =>
    match setId db id d now with
    | .error e => .error e
    | .ok db' => .ok (.finished .unit, db')
  | .del id =>
    match delId db id with
    | .error e => .error e
    | .ok db' => .ok (.finished .unit, db')
  | .cleanup s u m removed =>
    match Tup.cleanup db s u m removed with
    | .error e => .error e
    | .ok db' => .ok (.finished .unit, db')
  | .mark id term size time =>
    match markUploaded db id term size time with
    | .error e => .error e
    | .ok db' => .ok (.finished .unit, db')
  | .cleanupUploads n kept =>
    match Tup.cleanupUploads db n kept with
    | .error e => .error e
    | .ok db' => .ok (.finished .unit, db')
  | .needs id term thr now =>
    match needsUploading db id term thr now with
    | .error e => .error e
    | .ok b => .ok (.finished (.bool b), db)
  | .uinfo id term => .ok (.finished (.uinfo (getUploadInfo db id term)), db)
  | .needsInfo id term thr now =>
    match getInfo db id with
    | .error e => .error e
    | .ok none => .ok (.finished (.bool false), db)
    | .ok (some info) => .ok (.needsRow id term thr now info.desc, db)
  | .needsRow id term thr now desc =>
    match uploadRow db id term with
    | none => .ok (.finished (.bool true), db)
    | some r => .ok (.needsAgo id term thr now desc r, db)
  | .needsAgo id term thr now desc r =>
    let ui := mkUploadInfo id term r (uploadAgo db term r.time)
    .ok (.finished (.bool (ui.desc != desc || ui.needsUploading thr now)), db)
  | .info id =>
    match getInfo db id with
    | .error e => .error e
    | .ok r => .ok (.finished (.row r), db)
  | .count [] _ acc => .ok (.finished (.nat acc), db)
  | .count [s] u acc => .ok (.finished (.nat (acc + countSpace db s u)), db)
  | .count (s :: s' :: todo) u acc => .ok (.count (s' :: todo) u (acc + countSpace db s u), db)
  | .finished r => .ok (.finished r, db)

/-- One atomic block of the code as it is. -/
def pstep (cfg : Cfg) (p : PState) (db : Db) : Except Err (PState × Db) := pstepG sampleBlock cfg p db

/-- A block with rollback: if it raises, nothing is committed and the call ends with the exception. -/
def totalOf (db : Db) : Except Err (PState × Db) → PState × Db
  | .ok x => x
  | .error e => (.finished (.raised e), db)

def pstepT (cfg : Cfg) (p : PState) (db : Db) : PState × Db := totalOf db (pstep cfg p db)

/-- process `p` alone: `k` blocks in a row -/
def lone (cfg : Cfg) : Nat → PState → Db → PState × Db
  | 0, p, db => (p, db)
  | k + 1, p, db => lone cfg k (pstepT cfg p db).1 (pstepT cfg p db).2

/-! ### the global system -/

structure Sys where
  procs : List PState
  db : Db
deriving Repr, Inhabited

def sysStepG (step : PState → Db → Except Err (PState × Db)) (st : Sys) (i : Nat) : Sys :=
  match st.procs[i]? with
  | none => st
  | some p => let x := totalOf st.db (step p st.db); ⟨st.procs.set i x.1, x.2⟩

/-- process `i` runs its next block -/
def sysStep (cfg : Cfg) (st : Sys) (i : Nat) : Sys := sysStepG (pstep cfg) st i

def runSched (cfg : Cfg) (st : Sys) (sched : List Nat) : Sys := sched.foldl (sysStep cfg) st

/-! ### the complete public operation a block amounts to -/

/-- The complete public operation that the next block of `p` amounts to on `db`
    (`none`: the block only reads); `effOp` below adds the well-formedness guard of `pstep`.
    See `C03.step_is_public_op`. -/
def effOpCore (cfg : Cfg) (p : PState) (db : Db) : Option Op :=
  match p with
  | .getLookup req now ch =>
    match lookupBlock cfg req now ch.pick db with
    | .ok (_, .done _ _) => some (.get req now { pick := ch.pick })
    | _ => none
  | .getSample req now pick (_ :: _) ss _ _ =>
    match sampleBlock req now pick (ss.headD []) db with
    | .ok (_, .inserted _) => some (.get req now { pick := pick, samples := [ss.headD []] })
    | .ok (_, .found _) => some (.get req now { pick := pick })
    | _ => none
  | .getCleanup req _ _ pq _ _ rs _ =>
    some (.cleanup req.space req.sub (fracLimit cfg (req.space.subspaceSize req.sub) pq) (rs.headD []))
  | .set id d now => some (.set id d now)
  | .del id => some (.del id)
  | .cleanup s u m removed => some (.cleanup s u m removed)
  | .mark id term size time => some (.mark id term size time)
  | .cleanupUploads n kept => some (.cleanupUploads n kept)
  | _ => none

def effOp (cfg : Cfg) (p : PState) (db : Db) : Option Op :=
  if !p.wf cfg then none else effOpCore cfg p db

/-- is the operation of this block the request's own (its result is the request's result), as
    opposed to an internal clean-up of a large-subspace `get_id`? -/
def PState.ownStep : PState → Bool
  | .getCleanup _ _ _ _ _ _ _ _ => false
  | _ => true

/-- One entry of a linearisation: process `pid` performed the complete public operation `op`;
    `own = false` marks an internal clean-up of a large-subspace `get_id`. -/
structure LinOp where
  pid : Nat
  op : Op
  own : Bool
deriving Repr, Inhabited

/-- what the step of process `i` contributes to the linearisation (nothing if it only reads, or
    raises and is rolled back) -/
def stepLin (cfg : Cfg) (st : Sys) (i : Nat) : List LinOp :=
  match st.procs[i]? with
  | none => []
  | some p =>
    match pstep cfg p st.db with
    | .error _ => []
    | .ok _ => match effOp cfg p st.db with
      | none => []
      | some op => [⟨i, op, p.ownStep⟩]

/-- the effective operations of a schedule, in schedule order -/
def linOf (cfg : Cfg) : Sys → List Nat → List LinOp
  | _, [] => []
  | st, i :: sched => stepLin cfg st i ++ linOf cfg (sysStep cfg st i) sched

/-- the internal clean-ups a large-subspace `get_id` may still perform, as public operations -/
def cleanupsFrom (cfg : Cfg) (req : Req) : List (Option (Nat × Nat)) → List (List Nat) → List Op
  | [], _ => []
  | none :: _, _ => []
  | some pq :: fs, rs =>
    .cleanup req.space req.sub (fracLimit cfg (req.space.subspaceSize req.sub) pq) (rs.headD []) ::
      cleanupsFrom cfg req fs rs.tail

def PState.plannedCleanups (cfg : Cfg) : PState → List Op
  | .getLookup req _ ch => cleanupsFrom cfg req fracs ch.removed
  | .getSample req _ _ fs _ rs _ => cleanupsFrom cfg req fs rs
  | .getCleanup req _ _ pq fs _ rs _ => cleanupsFrom cfg req (some pq :: fs) rs
  | _ => []

/-- the operations that can be the request's own effective operation -/
def PState.OwnOp : PState → Op → Prop
  | .getLookup req now _, op => ∃ ch', op = .get req now ch'
  | .getSample req now _ _ _ _ _, op => ∃ ch', op = .get req now ch'
  | .getCleanup req now _ _ _ _ _ _, op => ∃ ch', op = .get req now ch'
  | .set id d now, op => op = .set id d now
  | .del id, op => op = .del id
  | .cleanup s u m removed, op => op = .cleanup s u m removed
  | .mark id term size time, op => op = .mark id term size time
  | .cleanupUploads n kept, op => op = .cleanupUploads n kept
  | _, _ => False

/-- The shape of one request's contribution to a linearisation: a prefix of its internal clean-ups,
    in order, then at most one own operation. -/
def Contributes (cfg : Cfg) (p : PState) (l : List (Op × Bool)) : Prop :=
  ∃ (n : Nat) (own : Option Op),
    l = ((p.plannedCleanups cfg).take n).map (fun c => (c, false)) ++ own.toList.map (fun o => (o, true)) ∧
    ∀ o ∈ own, p.OwnOp o

/-- "the sequential operation `op`, executed on `db`, returns what the request returned" -/
def Returns (cfg : Cfg) (db : Db) : Op → Result → Prop
  | .get req now ch, r =>
    req.space.valid = true ∧ req.sub.valid = true ∧
    ∃ db' n out, getId cfg db req now ch = .ok (db', .id n, out) ∧ ∃ out', r = .got (.id n) out'
  | .set id d now, r => (∃ db', setId db id d now = .ok db') ∧ r = .unit
  | .del id, r => (∃ db', delId db id = .ok db') ∧ r = .unit
  | .cleanup s u m removed, r => (∃ db', Tup.cleanup db s u m removed = .ok db') ∧ r = .unit
  | .mark id term size time, r => (∃ db', markUploaded db id term size time = .ok db') ∧ r = .unit
  | .cleanupUploads n kept, r => (∃ db', Tup.cleanupUploads db n kept = .ok db') ∧ r = .unit

/-- own steps still needed at most (termination measure of a process) -/
def PState.remaining : PState → Nat
  | .getLookup _ _ _ => 2 * fracs.length + 2
  | .getSample _ _ _ fs _ _ _ => 2 * fs.length + 1
  | .getCleanup _ _ _ _ fs _ _ _ => 2 * fs.length + 2
  | .needsInfo _ _ _ _ => 3
  | .needsRow _ _ _ _ _ => 2
  | .count todo _ _ => todo.length + 1
  | .finished _ => 0
  | _ => 1

/-! ### vocabulary of the theorems (C03 / C12) -/

/-- read-only continuations (and `finished`) -/
def isRead : PState → Bool
  | .needs _ _ _ _ | .uinfo _ _ | .needsInfo _ _ _ _ | .needsRow _ _ _ _ _ | .needsAgo _ _ _ _ _ _
  | .info _ | .count _ _ _ | .finished _ => true
  | _ => false

/-- the entries of process `j` in a linearisation, as `(operation, own?)` pairs -/
def entriesOf (j : Nat) (l : List LinOp) : List (Op × Bool) :=
  (l.filter (fun e => e.pid == j)).map (fun e => (e.op, e.own))

/-- `p` is a continuation of `get_id(req)` at clock value `now` -/
def IsGet (req : Req) (now : Nat) : PState → Prop
  | .getLookup req' now' _ => req' = req ∧ now' = now
  | .getSample req' now' _ _ _ _ _ => req' = req ∧ now' = now
  | .getCleanup req' now' _ _ _ _ _ _ => req' = req ∧ now' = now
  | _ => False

/-- the internal clean-ups of `get_id(req)` with choices `ch`, as public operations -/
def ownCleanups (cfg : Cfg) (req : Req) (ch : GetChoice) : List Op := cleanupsFrom cfg req fracs ch.removed

/-- a write request's successful results (an id, or nothing) -/
def Result.proper : Result → Bool
  | .got (.id _) _ => true
  | .unit => true
  | _ => false

/-- the id argument of the calls that start with `IDSpace.from_id(id)` -/
def PState.idArg : PState → Option Nat
  | .set id _ _ | .del id | .mark id _ _ _ | .needs id _ _ _ | .needsInfo id _ _ _ | .info id => some id
  | _ => none

/-- the ids bound to `req.desc` in `(req.space, req.sub)` -/
def dIds (req : Req) (db : Db) : List Nat := ((db.ids req.space).byDesc req.space req.sub req.desc).map (·.id)

/-- the database before entry `k` of the sequential run of `lin` -/
def dbAt (cfg : Cfg) (db0 : Db) (lin : List LinOp) (k : Nat) : Db := run cfg ((lin.take k).map (·.op)) db0

/-- Side condition of `same_description_single_id`: no operation of the linearisation other than a
    `get_id` for this very `(description, space, subspace)` removes, adds or rebinds a row of the subspace
    carrying the description (no `del_id` / `set_id` of such a row, no clean-up or LRU recycling that hits it). -/
def Undisturbed (cfg : Cfg) (req : Req) (db0 : Db) (lin : List LinOp) : Prop :=
  ∀ k e, lin[k]? = some e → (∀ now ch, e.op ≠ .get req now ch) →
    dIds req (dbAt cfg db0 lin (k + 1)) = dIds req (dbAt cfg db0 lin k)

/-- the database left behind when process `i` dies after completing `k` of its blocks while nobody else
    moves (a block that was open at the moment of death is rolled back by sqlite) -/
def crashDb (cfg : Cfg) (procs : List PState) (db : Db) (i k : Nat) : Db :=
  (runSched cfg ⟨procs, db⟩ (List.replicate k i)).db

/-! ### the pre-fix sampling block (D8), kept only for the counter-example in `Props/C03.lean` -/

/-- the sampling block as it was before the fix: no repeated lookup inside the transaction -/
def sampleBlockNoRecheck (req : Req) (now _pick : Nat) (samples : List Nat) (db : Db) : Except Err (Db × SampleRes) :=
  match sampleScan req.space req.sub (db.ids req.space) 8 samples with
  | .error e => .error e
  | .ok none => .ok (db, .none)
  | .ok (some id) =>
    match setId db id req.desc now with
    | .ok db' => .ok (db', .inserted id)
    | .error e => .error e

def runSchedG (step : PState → Db → Except Err (PState × Db)) (st : Sys) (sched : List Nat) : Sys :=
  sched.foldl (sysStepG step) st

end Tup.Txn
