import Tup.Model.IdSpace
/-!
  Vocabulary shared by the configuration model, its specification and the regenerated option
  table (`Tup/Gen/Options.lean`): Python values as far as `TupimageConfig` can tell them apart, and
  the type annotations of its fields.
-/
namespace Tup.Config

/-- A float as an exact rational `num/den` (`den > 0`); the model never rounds, the harness
    compares with the nearest double. -/
structure Flt where
  num : Int
  den : Nat
deriving DecidableEq, Repr, Inhabited

/-- `TransmissionMedium` by its protocol letter. -/
inductive Medium where
  | direct | file | tempFile | sharedMemory
deriving DecidableEq, Repr, Inhabited

/-- Elements of lists and tuples. -/
inductive Scalar where
  | str (s : String)
  | int (i : Int)
  | float (f : Flt)
  | bool (b : Bool)
  | none
  | other (cls : String)
deriving DecidableEq, Repr, Inhabited

/-- A Python value: `str | int | float | bool | None | list | tuple`, the three classes of the
    repo that options hold, or an object of some other class. -/
inductive Val where
  | sc (x : Scalar)
  | list (l : List Scalar)
  | tuple (l : List Scalar)
  | space (s : Tup.Space)
  | sub (u : Tup.Sub)
  | medium (m : Medium)
deriving DecidableEq, Repr, Inhabited

abbrev Val.str (s : String) : Val := .sc (.str s)
abbrev Val.int (i : Int) : Val := .sc (.int i)
abbrev Val.float (f : Flt) : Val := .sc (.float f)
abbrev Val.bool (b : Bool) : Val := .sc (.bool b)
abbrev Val.none : Val := .sc .none

/-- Classes and literals an annotation can mention at the leaves. -/
inductive Base where
  | int | float | bool | str | idSpace | idSubspace | medium | noneT
  | lit (s : String)          -- `Literal['auto']`
  | other (cls : String)      -- any other class (`bytes`, `CellFormatting`, …)
deriving DecidableEq, Repr, Inhabited

/-- One alternative of an annotation. -/
inductive Alt where
  | base (b : Base)
  | tuple (args : List Base)    -- `Tuple[int, int]`
  | list (arg : Base)           -- `List[str]`
deriving DecidableEq, Repr, Inhabited

/-- An annotation: the union of its alternatives (a plain type is a singleton). -/
abbrev Ty := List Alt

structure Opt where
  name : String
  ty : Ty
  /-- the dataclass default; `id_database_dir`'s default is computed by `platformdirs` at import
      time and appears as the sentinel `"$STATE_DIR"` -/
  default : Val
deriving DecidableEq, Repr, Inhabited

end Tup.Config
