import Tup.Esc
import Tup.Gen.Diacritics
/-!
  Model of `tupimage/placeholder.py` (`ImagePlaceholderMode`, `ImagePlaceholder.validate`,
  `to_lines`, `to_stream_with_linefeeds`, `to_stream_abs_position`, `to_stream_at_cursor`,
  `to_stream`) and of the display path's `get_image_placeholder_mode` / `get_formatting`
  (`tupimage/tupimage_terminal.py`).  Written function by function after the Python, with
  `&&&`, `>>>` where the code uses them.  The diacritic table and the placeholder character
  are the *generated* ones (`Tup.Gen`, regenerated from /repo on every run).

  Two presentations of every output:
  * bytes (`lineBytes`, `toLines`, `toStream…`) — what the correspondence check compares with the
    real code, byte for byte; caller formatting is arbitrary bytes;
  * tokens (`lineToks`, `streamToks…`) — what the theorems talk about; caller formatting is a
    token list.  `Tup/Lemmas/PhModel.lean` proves `bytes = serialize tokens` when the formatting
    bytes are the serialisation of the formatting tokens.

  The model follows the code *with the D9 repair* (fixes/D9-blank-line-reset.diff): the
  blank-line branch (rows ≥ 297) ends with the reset like every other line.
-/
namespace Tup

/-- `ImagePlaceholderMode` (levels are `DiacriticLevel.value`: 0 NONE, 1 ROW, 2 ROW_COLUMN,
    3 ROW_COLUMN_ID4THBYTE, 4 ROW_COLUMN_ID4THBYTE_IF_NONZERO). `placeholder_char` is fixed to
    the generated `PLACEHOLDER_CHAR`. -/
structure Mode where
  allow256Image : Bool := true
  allow256Placement : Bool := false
  skipPlacementIfZero : Bool := true
  firstLevel : Nat := 4
  otherLevel : Nat := 4
deriving DecidableEq, Repr, Inhabited

/-- `__post_init__` (first level NONE is a `ValueError`) + the enum's range. -/
def Mode.valid (m : Mode) : Bool :=
  decide (1 ≤ m.firstLevel) && decide (m.firstLevel ≤ 4) && decide (m.otherLevel ≤ 4)

/-- all 160 modes -/
def Mode.all : List Mode :=
  [true, false].flatMap fun a => [true, false].flatMap fun b => [true, false].flatMap fun c =>
    [1, 2, 3, 4].flatMap fun f => [0, 1, 2, 3, 4].map fun o => ⟨a, b, c, f, o⟩

/-- `TupimageTerminal.get_image_placeholder_mode` -/
def displayMode (fewerDiacritics : Bool) : Mode :=
  { allow256Image := true, allow256Placement := false, skipPlacementIfZero := true,
    firstLevel := 4, otherLevel := if fewerDiacritics then 0 else 4 }

inductive PhErr where
  | value   -- ValueError
  | index   -- IndexError (start_col ≥ 297 with a printable row)
deriving DecidableEq, Repr, Inhabited

/-- the dataclass as the caller may fill it (any integers) -/
structure RawPlaceholder where
  imageId : Int
  placementId : Int
  startCol : Int
  startRow : Int
  endCol : Int
  endRow : Int
deriving DecidableEq, Repr, Inhabited

structure Placeholder where
  imageId : Nat
  placementId : Nat
  startCol : Nat
  startRow : Nat
  endCol : Nat
  endRow : Nat
deriving DecidableEq, Repr, Inhabited

/-- `ImagePlaceholder.validate`: `none` is the `ValueError`. -/
def RawPlaceholder.validate (r : RawPlaceholder) : Option Placeholder :=
  if r.imageId = 0 then none
  else if r.imageId < 0 ∨ r.imageId > 0xFFFFFFFF then none
  else if r.placementId < 0 ∨ r.placementId > 0xFFFFFF then none
  else if r.startCol < 0 then none
  else if r.startRow < 0 then none
  else if r.startCol ≥ r.endCol then none
  else if r.startRow ≥ r.endRow then none
  else some ⟨r.imageId.toNat, r.placementId.toNat, r.startCol.toNat, r.startRow.toNat, r.endCol.toNat, r.endRow.toNat⟩

/-- what `validate` guarantees, on the validated record -/
def Placeholder.valid (p : Placeholder) : Bool :=
  decide (0 < p.imageId) && decide (p.imageId ≤ 0xFFFFFFFF) && decide (p.placementId ≤ 0xFFFFFF) &&
  decide (p.startCol < p.endCol) && decide (p.startRow < p.endRow)

def Placeholder.raw (p : Placeholder) : RawPlaceholder :=
  ⟨p.imageId, p.placementId, p.startCol, p.startRow, p.endCol, p.endRow⟩

/-! ### pieces of a line -/

/-- `len(ROWCOLUMN_DIACRITICS_UTF8)` -/
def tableLen : Nat := Gen.diacritics.length

/-- code point of `ROWCOLUMN_DIACRITICS[i]` -/
def diacCp (i : Nat) : Nat := Gen.diacritics.getD i 0

def sgrReset : Tok := .csi [0] 109

/-- `b"\033[38;5;%dm"` / `b"\033[38;2;%d;%d;%dm"` (lead = 38) and the 58 forms -/
def colorTok (lead : Nat) (allow256 : Bool) (v : Nat) : Tok :=
  if allow256 && (v &&& 0xFFFF00 == 0) then .csi [lead, 5, v &&& 0xFF] 109
  else .csi [lead, 2, (v >>> 16) &&& 0xFF, (v >>> 8) &&& 0xFF, v &&& 0xFF] 109

def fgTok (m : Mode) (imageId : Nat) : Tok := colorTok 38 m.allow256Image imageId

def ulToks (m : Mode) (placementId : Nat) : List Tok :=
  if m.skipPlacementIfZero && placementId == 0 then []
  else [colorTok 58 m.allow256Placement placementId]

/-- `line_id_colors` -/
def idColorToks (m : Mode) (p : Placeholder) : List Tok := fgTok m p.imageId :: ulToks m p.placementId

/-- `image_id_4thbyte` -/
def id4thByte (imageId : Nat) : Nat := (imageId &&& 0xFF000000) >>> 24

/-- (firstcol_diacritic_count, othercol_diacritic_count) exactly as computed in `to_lines`. -/
def counts (m : Mode) (startCol b4 : Nat) : Nat × Nat :=
  let f1 := if startCol ≠ 0 then max m.firstLevel 2 else m.firstLevel
  if b4 ≠ 0 then
    (3, if m.otherLevel = 4 then 3 else m.otherLevel)
  else
    (if m.firstLevel = 4 then 2 else f1, if m.otherLevel = 4 then 2 else m.otherLevel)

/-- diacritics of the first cell, as table indices -/
def firstCell (cnt row startCol b4 : Nat) : List Nat :=
  if cnt ≥ 1 then
    if cnt ≥ 2 then
      if cnt ≥ 3 then [row, startCol, b4] else [row, startCol]
    else [row]
  else []

/-- diacritics of a cell of another column, as table indices (`col ≥ 297` falls back to the row only) -/
def otherCell (cnt row col b4 : Nat) : List Nat :=
  if cnt ≥ 1 then
    if cnt ≥ 2 ∧ col < tableLen then
      if cnt ≥ 3 then [row, col, b4] else [row, col]
    else [row]
  else []

/-- diacritic indices of every cell of a printable row (`row < 297`), left to right -/
def lineCells (m : Mode) (row startCol endCol b4 : Nat) : List (List Nat) :=
  let c := counts m startCol b4
  firstCell c.1 row startCol b4 ::
    (List.range' (startCol + 1) (endCol - (startCol + 1))).map fun col => otherCell c.2 row col b4

/-! ### formatting -/

/-- `AdditionalFormatting` as bytes -/
inductive Fmt where
  | none
  | bytes (b : Bytes)
  | row (f : Nat → Bytes)            -- RowFormatting(func(row))
  | cell (f : Nat → Nat → Bytes)     -- CellFormatting(func(col, row))

def Fmt.rowB : Fmt → Nat → Bytes
  | .bytes b, _ => b
  | .row f, r => f r
  | _, _ => []

def Fmt.cellB : Fmt → Nat → Nat → Bytes
  | .cell f, c, r => f c r
  | _, _, _ => []

/-- formatting as tokens (for the theorems) -/
inductive FmtT where
  | none
  | toks (b : List Tok)
  | row (f : Nat → List Tok)
  | cell (f : Nat → Nat → List Tok)

def FmtT.rowT : FmtT → Nat → List Tok
  | .toks b, _ => b
  | .row f, r => f r
  | _, _ => []

def FmtT.cellT : FmtT → Nat → Nat → List Tok
  | .cell f, c, r => f c r
  | _, _, _ => []

def FmtT.toFmt : FmtT → Fmt
  | .none => .none
  | .toks b => .bytes (serialize b)
  | .row f => .row fun r => serialize (f r)
  | .cell f => .cell fun c r => serialize (f c r)

/-- `TupimageTerminal.get_formatting` for the three resolved shapes of `background`:
    "none", an int (256-colour index), a colour string resolved by PIL to (r, g, b). -/
inductive Background where
  | none
  | idx (n : Nat)
  | rgb (r g b : Nat)
deriving DecidableEq, Repr

def getFormattingT : Background → FmtT
  | .none => .none
  | .idx n => .toks [.csi [48, 5, n] 109]
  | .rgb r g b => .toks [.csi [48, 2, r, g, b] 109]

def getFormatting (b : Background) : Fmt := (getFormattingT b).toFmt

/-! ### `to_lines` -/

def phBytes : Bytes := utf8Enc Gen.placeholderChar

def diacBytes (is : List Nat) : Bytes := is.flatMap fun i => utf8Enc (diacCp i)

/-- one element of the result of `to_lines` (bytes) -/
def lineBytes (p : Placeholder) (m : Mode) (fmt : Fmt) (noEscape : Bool) (row : Nat) : Bytes :=
  let reset : Bytes := if noEscape then [] else serialize [sgrReset]
  if row ≥ tableLen then
    reset ++ fmt.rowB row ++
      ((List.range' p.startCol (p.endCol - p.startCol)).flatMap fun col => fmt.cellB col row ++ [32]) ++
      reset    -- D9 repair: the unrepaired code has no reset here
  else
    let b4 := id4thByte p.imageId
    let c := counts m p.startCol b4
    reset ++ fmt.rowB row ++ (if noEscape then [] else serialize (idColorToks m p)) ++
      fmt.cellB p.startCol row ++ phBytes ++ diacBytes (firstCell c.1 row p.startCol b4) ++
      ((List.range' (p.startCol + 1) (p.endCol - (p.startCol + 1))).flatMap fun col =>
        fmt.cellB col row ++ phBytes ++ diacBytes (otherCell c.2 row col b4)) ++
      reset

/-- `to_lines` after a successful `validate`: the `IndexError` is `ROWCOLUMN_DIACRITICS_UTF8[start_col]`
    (reached on the first printable row, because `start_col ≠ 0` forces ≥ 2 diacritics). -/
def Placeholder.toLines (p : Placeholder) (m : Mode) (fmt : Fmt) (noEscape : Bool) : Except PhErr (List Bytes) :=
  if p.startRow < tableLen ∧ p.startCol ≥ tableLen then .error .index
  else .ok ((List.range' p.startRow (p.endRow - p.startRow)).map (lineBytes p m fmt noEscape))

def toLines (r : RawPlaceholder) (m : Mode) (fmt : Fmt) (noEscape : Bool) : Except PhErr (List Bytes) :=
  match r.validate with
  | none => .error .value
  | some p => p.toLines m fmt noEscape

/-- one line as tokens (always with escapes) -/
def lineToks (p : Placeholder) (m : Mode) (fmt : FmtT) (row : Nat) : List Tok :=
  if row ≥ tableLen then
    [sgrReset] ++ fmt.rowT row ++
      ((List.range' p.startCol (p.endCol - p.startCol)).flatMap fun col => fmt.cellT col row ++ [Tok.char 32]) ++
      [sgrReset]
  else
    let b4 := id4thByte p.imageId
    let c := counts m p.startCol b4
    [sgrReset] ++ fmt.rowT row ++ idColorToks m p ++
      fmt.cellT p.startCol row ++ [Tok.char Gen.placeholderChar] ++
        (firstCell c.1 row p.startCol b4).map (fun i => Tok.char (diacCp i)) ++
      ((List.range' (p.startCol + 1) (p.endCol - (p.startCol + 1))).flatMap fun col =>
        fmt.cellT col row ++ [Tok.char Gen.placeholderChar] ++
          (otherCell c.2 row col b4).map (fun i => Tok.char (diacCp i))) ++
      [sgrReset]

def Placeholder.lineToksAll (p : Placeholder) (m : Mode) (fmt : FmtT) : List (List Tok) :=
  (List.range' p.startRow (p.endRow - p.startRow)).map (lineToks p m fmt)

/-! ### output styles -/

def enumFrom {α} : Nat → List α → List (Nat × α)
  | _, [] => []
  | n, a :: as => (n, a) :: enumFrom (n + 1) as

/-- `to_stream_with_linefeeds` on the lines -/
def streamLinefeeds (lines : List Bytes) : Bytes := lines.flatMap fun l => l ++ [10]

/-- `to_stream_abs_position` on the lines -/
def streamAbs (px py : Nat) (lines : List Bytes) : Bytes :=
  (enumFrom 0 lines).flatMap fun (idx, l) => serialize [.csi [py + idx + 1, px + 1] 72] ++ l

/-- what `to_stream_at_cursor` writes around line `idx` of `n`, as tokens before / after the line -/
def curBefore (save lf : Bool) (idx n : Nat) : List Tok :=
  if !lf && save && idx + 1 != n then [.csi [] 115] else []

def curAfter (save lf : Bool) (width idx n : Nat) : List Tok :=
  if idx + 1 != n then
    if lf then [.c0 10]
    else (if save then [.csi [] 117] else [.csi [width] 68]) ++ [.esc 68]
  else []

/-- `to_stream_at_cursor` on the lines -/
def streamAtCursor (save lf : Bool) (width : Nat) (lines : List Bytes) : Bytes :=
  (enumFrom 0 lines).flatMap fun (idx, l) =>
    serialize (curBefore save lf idx lines.length) ++ l ++ serialize (curAfter save lf width idx lines.length)

def toStreamLinefeeds (r : RawPlaceholder) (m : Mode) (fmt : Fmt) (noEscape : Bool) : Except PhErr Bytes :=
  (toLines r m fmt noEscape).map streamLinefeeds

def toStreamAbs (r : RawPlaceholder) (px py : Nat) (m : Mode) (fmt : Fmt) : Except PhErr Bytes :=
  (toLines r m fmt false).map (streamAbs px py)

def toStreamAtCursor (r : RawPlaceholder) (m : Mode) (fmt : Fmt) (save lf : Bool) : Except PhErr Bytes :=
  (toLines r m fmt false).map (streamAtCursor save lf (r.endCol - r.startCol).toNat)

/-- `to_stream` -/
def toStream (r : RawPlaceholder) (pos : Option (Nat × Nat)) (m : Mode) (fmt : Fmt) (save lf : Bool) : Except PhErr Bytes :=
  match pos with
  | some (px, py) => if lf then .error .value else toStreamAbs r px py m fmt
  | none => toStreamAtCursor r m fmt save lf

/-! token forms of the streams (theorems) -/

inductive Style where
  | atCursor (save lf : Bool)
  | abs (px py : Nat)
deriving DecidableEq, Repr

def streamToks (st : Style) (width : Nat) (lines : List (List Tok)) : List Tok :=
  match st with
  | .atCursor save lf =>
    (enumFrom 0 lines).flatMap fun (idx, l) =>
      curBefore save lf idx lines.length ++ l ++ curAfter save lf width idx lines.length
  | .abs px py =>
    (enumFrom 0 lines).flatMap fun (idx, l) => [Tok.csi [py + idx + 1, px + 1] 72] ++ l

def linefeedToks (lines : List (List Tok)) : List Tok := lines.flatMap fun l => l ++ [Tok.c0 10]

/-! ### the code as it is before the D9 repair (correspondence only; no theorem is about these)

  C07 and C14 do not depend on the trailing reset of blank lines, so their correspondence checks accept the code
  either with or without the repair; C13 (whose property D9 breaks) compares with the repaired model only. -/

def lineBytesUnrepaired (p : Placeholder) (m : Mode) (fmt : Fmt) (noEscape : Bool) (row : Nat) : Bytes :=
  if row ≥ tableLen then
    (if noEscape then [] else serialize [sgrReset]) ++ fmt.rowB row ++
      ((List.range' p.startCol (p.endCol - p.startCol)).flatMap fun col => fmt.cellB col row ++ [32])
  else lineBytes p m fmt noEscape row

def toLinesUnrepaired (r : RawPlaceholder) (m : Mode) (fmt : Fmt) (noEscape : Bool) : Except PhErr (List Bytes) :=
  match r.validate with
  | none => .error .value
  | some p =>
    if p.startRow < tableLen ∧ p.startCol ≥ tableLen then .error .index
    else .ok ((List.range' p.startRow (p.endRow - p.startRow)).map (lineBytesUnrepaired p m fmt noEscape))

def toStreamUnrepaired (r : RawPlaceholder) (pos : Option (Nat × Nat)) (m : Mode) (fmt : Fmt) (save lf : Bool) : Except PhErr Bytes :=
  match pos with
  | some (px, py) => if lf then .error .value else (toLinesUnrepaired r m fmt false).map (streamAbs px py)
  | none => (toLinesUnrepaired r m fmt false).map (streamAtCursor save lf (r.endCol - r.startCol).toNat)

/-! ### the display path: `TupimageTerminal.display_only` for an integer id / a placeholder -/

inductive FinalPos where
  | bottomRight | topRight | topLeft | bottomLeft
deriving DecidableEq, Repr

/-- `GraphicsTerminal.move_cursor(up=…, left=…)`: vertical move first, nothing for 0. -/
def moveCursorToks (up left : Nat) : List Tok :=
  (if up = 0 then [] else [Tok.csi [up] 65]) ++ (if left = 0 then [] else [Tok.csi [left] 68])

/-- `_move_cursor_to_final_position`; `none` is the `ValueError` -/
def finalCursorToks (cols rows : Nat) (fp : FinalPos) (lf : Bool) : Option (List Tok) :=
  match fp with
  | .bottomRight => some []
  | .topRight => if lf then none else some (moveCursorToks (rows - 1) 0)
  | .topLeft => if lf then none else some (moveCursorToks (rows - 1) cols)
  | .bottomLeft => if lf then some [.c0 10] else some (moveCursorToks 0 cols ++ [.esc 68])

/-- bytes on the display stream of `display_only(id, start_col=…, …, fewer_diacritics, background, abs_pos,
    final_cursor_pos, use_line_feeds)`; an error is reported whatever was written before it. -/
def displayOnlyWith (stream : Except PhErr Bytes) (r : RawPlaceholder) (lf : Bool) (fp : FinalPos) : Except PhErr Bytes :=
  match stream with
  | .error e => .error e
  | .ok b =>
    match finalCursorToks (r.endCol - r.startCol).toNat (r.endRow - r.startRow).toNat fp lf with
    | none => .error .value
    | some t => .ok (b ++ serialize t)

def displayOnlyUnrepaired (r : RawPlaceholder) (fewer : Bool) (bg : Background) (pos : Option (Nat × Nat)) (lf : Bool)
    (fp : FinalPos) : Except PhErr Bytes :=
  displayOnlyWith (toStreamUnrepaired r pos (displayMode fewer) (getFormatting bg) true lf) r lf fp

def displayOnly (r : RawPlaceholder) (fewer : Bool) (bg : Background) (pos : Option (Nat × Nat)) (lf : Bool)
    (fp : FinalPos) : Except PhErr Bytes :=
  match toStream r pos (displayMode fewer) (getFormatting bg) true lf with
  | .error e => .error e
  | .ok b =>
    match finalCursorToks (r.endCol - r.startCol).toNat (r.endRow - r.startRow).toNat fp lf with
    | none => .error .value
    | some t => .ok (b ++ serialize t)

end Tup
