import Tup.Model.Alloc
/-!
  Model of the upload bookkeeping of `IDManager`: `get_upload_info`, `UploadInfo.needs_uploading`,
  `IDManager.needs_uploading`, `mark_uploaded`, `cleanup_uploads`.

  Atomic blocks (all autocommit statements, no explicit transaction anywhere in this part):
  * `getUploadInfo`   2 read statements: `uploadRow` (the row) then `uploadAgo` (COUNT/SUM of later rows)
  * `needsUploading`  `getInfo` (1 read) ; `uploadRow` ; `uploadAgo`   — 3 reads, decision in Python
  * `markUploaded`    ONE block `BEGIN IMMEDIATE; get_info; upsert; COMMIT` (fix of D18: the description
                       is read and recorded atomically; an unassigned id returns inside the block,
                       committing nothing). `markWrite` is the upsert inside it.
  * `cleanupUploads`  1 `DELETE … NOT IN (SELECT … ORDER BY upload_time DESC LIMIT n)`
-/
namespace Tup

structure UploadInfo where
  id : Nat
  desc : String
  time : Nat
  term : String
  size : Nat
  bytesAgo : Nat
  uploadsAgo : Nat
deriving DecidableEq, Repr, Inhabited

/-- first statement of `get_upload_info` -/
def uploadRow (db : Db) (id : Nat) (term : String) : Option URow := ulookup db.uploads id term

/-- second statement: `SELECT COUNT(*), SUM(size) … WHERE terminal = ? AND upload_time > ?` -/
def uploadAgo (db : Db) (term : String) (t : Nat) : Nat × Nat :=
  let later := ulater db.uploads term t
  (later.length, (later.map (·.size)).sum)

/-- `get_upload_info` -/
def getUploadInfo (db : Db) (id : Nat) (term : String) : Option UploadInfo :=
  match uploadRow db id term with
  | none => none
  | some r =>
    let (n, b) := uploadAgo db term r.time
    some { id := id, desc := r.desc, time := r.time, term := term, size := r.size,
           bytesAgo := r.size + b, uploadsAgo := 1 + n }

/-- `UploadInfo.needs_uploading` at clock value `now` (`now - upload_time > max_time_ago` on
    integers: negative differences are not greater than a non-negative bound). -/
def UploadInfo.needsUploading (i : UploadInfo) (thr : Thresholds) (now : Nat) : Bool :=
  decide (i.bytesAgo > thr.maxBytes) || decide (i.uploadsAgo > thr.maxUploads) ||
  decide (now > i.time + thr.maxTime)

/-- `IDManager.needs_uploading` -/
def needsUploading (db : Db) (id : Nat) (term : String) (thr : Thresholds) (now : Nat) : Except Err Bool :=
  match getInfo db id with
  | .error e => .error e
  | .ok none => .ok false
  | .ok (some info) =>
    match getUploadInfo db id term with
    | none => .ok true
    | some ui => .ok (ui.desc != info.desc || ui.needsUploading thr now)

/-- the write statement of `mark_uploaded`, with the description read by `get_info` in the same block -/
def markWrite (db : Db) (id : Nat) (term desc : String) (size time : Nat) : Db :=
  { db with uploads := uupsert db.uploads ⟨id, term, desc, size, time⟩ }

/-- `mark_uploaded(id, terminal, size=…, upload_time=time)` — one `BEGIN IMMEDIATE … COMMIT` block -/
def markUploaded (db : Db) (id : Nat) (term : String) (size time : Nat) : Except Err Db :=
  match getInfo db id with
  | .error e => .error e
  | .ok none => .ok db
  | .ok (some info) => .ok (markWrite db id term info.desc size time)

/-- `cleanup_uploads(max_uploads)`; `kept` = the keys that survived (read off the table). -/
def cleanupUploads (db : Db) (n : Nat) (kept : List (Nat × String)) : Except Err Db :=
  if admissibleKept db.uploads n kept then
    .ok { db with uploads := db.uploads.filter (ukeyIn kept) }
  else .error (.badChoice "cleanup_uploads: kept set is not a newest-first prefix of the right length")

/-! ### histories: every database the library can produce -/

/-- The state-changing public operations with their clock values and choices. -/
inductive Op
  | get (req : Req) (now : Nat) (ch : GetChoice)
  | set (id : Nat) (desc : String) (now : Nat)
  | del (id : Nat)
  | cleanup (s : Space) (u : Sub) (maxIds : Nat) (removed : List Nat)
  | mark (id : Nat) (term : String) (size time : Nat)
  | cleanupUploads (n : Nat) (kept : List (Nat × String))
deriving Repr, Inhabited

def dbOf (db : Db) : Except Err Db → Db
  | .ok db' => db'
  | .error _ => db

/-- One operation; an operation that raises (or whose choice is inadmissible) leaves the database
    as it was — except `get_id`'s "no unused id" error, whose clean-ups persist (`getId` returns them).
    `IDSpace(...)` / `IDSubspace(...)` raise on invalid arguments, so such a call never reaches the
    database. -/
def applyOp (cfg : Cfg) (db : Db) : Op → Db
  | .get req now ch =>
    if req.space.valid && req.sub.valid then
      match getId cfg db req now ch with
      | .ok (db', _, _) => db'
      | .error _ => db
    else db
  | .set id d now => dbOf db (setId db id d now)
  | .del id => dbOf db (delId db id)
  | .cleanup s u m removed => if s.valid && u.valid then dbOf db (cleanup db s u m removed) else db
  | .mark id term size time => dbOf db (markUploaded db id term size time)
  | .cleanupUploads n kept => dbOf db (cleanupUploads db n kept)

def run (cfg : Cfg) (ops : List Op) (db : Db) : Db := ops.foldl (applyOp cfg) db

/-- `db` is reachable: some history of library operations from the empty database produced it. -/
def Reachable (cfg : Cfg) (db : Db) : Prop := ∃ ops, run cfg ops Db.empty = db

end Tup
