import Tup.Esc
import Tup.Spec.Term
/-!
  Model of the cursor-tracking part of `tupimage/graphics_terminal.py` (class `GraphicsTerminal`),
  function by function: every public call that writes to the display/command stream or touches
  `tracked_cursor_position`.  The model follows the *repaired* code (fixes/D2 … D5, D20):

  * D2  `move_cursor_abs(col=0)` / `(row=0)` use the given coordinate (`is not None`, not `or`);
  * D3  `set_tracked_cursor_position` clamps at 0 as well as at the last column/row;
  * D4  `print_placeholder` forgets the position (it moves the cursor);
  * D5  a flag `scroll_margins_may_be_set` (set by `set_margins`, `write`, `writecmd`, custom
        placeholder formatting; cleared by `reset`) makes relative vertical moves and the
        computed position after a forced-placeholder put forget the position;
  * D20 `get_cursor_position` does not remember a column beyond the last one (the terminal is
        in the pending-wrap state, which the tracker has no notion of).

  What is *input* from the implementation / the environment:
  * the bytes of `write`/`writecmd`, of graphics commands (APC, owned by the command model),
  * the placeholder lines (`ImagePlaceholder.to_lines`, owned by `Tup.Model.Placeholder`); the
    choreography around them (`to_stream*`: save/restore, IND, CUB, LF, CUP) is modelled here,
  * the terminal's replies to `CSI 6 n` (oracle `ask`).
  No Mathlib.
-/
namespace Tup.Spec
open Tup

/-- `Spec.Term.feed` with the two corrections measured against tmux 3.3a that the shared file does
    not have yet (see the C16 report): VPA keeps the pending-wrap column; restoring a saved cursor
    (`CSI u`, `ESC 8`) clamps the column to the last one; BS from the pending-wrap position counts
    like CUB 1 (from column `w` when `cubFromW`). -/
def Term.feedP (t : Term) : Tok → Term
  | .csi ps 100 => { t with cy := min (p1 ps - 1) (t.h - 1) }
  | .csi _ 117 =>
    match t.saved with
    | some (x, y, s) => { t with cx := min x (t.w - 1), cy := y, sgr := if t.cfg.restoreSgr then s else t.sgr }
    | none => { t with cx := 0, cy := 0 }
  | .esc 56 => match t.saved with
    | some (x, y, s) => { t with cx := min x (t.w - 1), cy := y, sgr := s }
    | none => { t with cx := 0, cy := 0 }
  | .c0 8 => { t with cx := (if t.cfg.cubFromW then t.cx else min t.cx (t.w - 1)) - 1 }
  | tok => t.feed tok

end Tup.Spec

namespace Tup.Trk
open Tup Tup.Spec

/-- What the library writes: a control function / character as a token, or bytes taken as they
    are (user text, graphics commands, placeholder lines). -/
inductive Chunk where
  | tok (t : Tok)
  | raw (bs : Bytes)
deriving Repr, Inhabited

def Chunk.bytes : Chunk → Bytes
  | .tok t => t.serialize
  | .raw bs => bs

def bytesOf (cs : List Chunk) : Bytes := cs.flatMap Chunk.bytes

/-- The terminal reads a chunk: tokens directly, raw bytes through the tokenizer.  (Equal to
    parsing the concatenated byte stream whenever every raw chunk is a sequence of complete
    control functions / characters — the library never splits one over two writes.) -/
def feedChunk (t : Term) : Chunk → Term
  | .tok k => t.feedP k
  | .raw bs => (parse bs).foldl Term.feedP t

def feedChunks (t : Term) (cs : List Chunk) : Term := cs.foldl feedChunk t

inductive Err where
  | value      -- ValueError (conflicting / missing arguments, invalid placeholder)
  | cpr        -- no or malformed cursor-position report (TimeoutError / ValueError)
deriving DecidableEq, Repr, Inhabited

/-- the object's state -/
structure Trk where
  tracked : Option (Int × Int) := none     -- `tracked_cursor_position` (col, row)
  margins : Bool := false                  -- `scroll_margins_may_be_set`   (D5)
deriving DecidableEq, Repr, Inhabited

/-- environment of one call -/
structure Env where
  w : Nat                                   -- get_size() = (w, h)
  h : Nat
  /-- reply to the `i`-th `CSI 6 n` of this call, given everything the call wrote so far
      (query included): 1-based (column, row) as in `ESC [ row ; column R`; `none` = no reply. -/
  ask : Nat → List Chunk → Option (Nat × Nat)

/-- running state of one call -/
structure Acc where
  s : Trk
  out : List Chunk := []
  nq : Nat := 0
  err : Option Err := none
deriving Inhabited

def Acc.emit (a : Acc) (cs : List Chunk) : Acc := { a with out := a.out ++ cs }
def Acc.setTracked (a : Acc) (p : Option (Int × Int)) : Acc := { a with s := { a.s with tracked := p } }
def Acc.setMargins (a : Acc) (b : Bool) : Acc := { a with s := { a.s with margins := b } }
def Acc.fail (a : Acc) (e : Err) : Acc := { a with err := some e }

def csi (ps : List Nat) (f : Char) : Chunk := .tok (.csi ps f.toNat)
def escF (f : Char) : Chunk := .tok (.esc f.toNat)

/-- Python truthiness of an `Optional[int]` -/
def truthy : Option Int → Bool
  | some v => v != 0
  | none => false

/-- `set_tracked_cursor_position(x, y)` (columns/lines from `get_size()`), with D3. -/
def setTrackedPos (e : Env) (a : Acc) (x y : Int) : Acc :=
  a.setTracked (some (max 0 (min x ((e.w : Int) - 1)), max 0 (min y ((e.h : Int) - 1))))

/-- the two `if down:` / `if right:` blocks of `move_cursor` -/
def vtoks : Option Int → List Chunk
  | some d => if d > 0 then [csi [d.toNat] 'B'] else if d < 0 then [csi [(-d).toNat] 'A'] else []
  | none => []
def htoks : Option Int → List Chunk
  | some r => if r > 0 then [csi [r.toNat] 'C'] else if r < 0 then [csi [(-r).toNat] 'D'] else []
  | none => []

/-- `move_cursor(right=, down=, left=, up=)` -/
def moveCursor (e : Env) (a : Acc) (right down left up : Option Int) : Acc :=
  if up.isSome && down.isSome then a.fail .value else
  let down := match up with | some u => some (-u) | none => down
  if left.isSome && right.isSome then a.fail .value else
  let right := match left with | some l => some (-l) | none => right
  let a := a.emit (vtoks down)
  let a := a.emit (htoks right)
  match a.s.tracked with
  | some (x, y) =>
    if truthy down && a.s.margins then a.setTracked none           -- D5
    else setTrackedPos e a (x + right.getD 0) (y + down.getD 0)
  | none => a

/-- the `if row is not None:` / `if col is not None:` blocks of `move_cursor_abs` -/
def rowToks : Option Nat → List Chunk
  | some r => [csi [r + 1] 'd']
  | none => []
def colToks : Option Nat → List Chunk
  | some c => [csi [c + 1] 'G']
  | none => []

/-- `move_cursor_abs(col=, row=, pos=)`; coordinates are non-negative. -/
def moveCursorAbs (e : Env) (a : Acc) (col row : Option Nat) (pos : Option (Nat × Nat)) : Acc :=
  if pos.isSome && (row.isSome || col.isSome) then a.fail .value else
  let col := match pos with | some (c, _) => some c | none => col
  let row := match pos with | some (_, r) => some r | none => row
  let a := a.emit (rowToks row)
  let a := a.emit (colToks col)
  match a.s.tracked with
  | some (x, y) =>
    setTrackedPos e a (match col with | some c => (c : Int) | none => x) (match row with | some r => (r : Int) | none => y)   -- D2
  | none =>
    match col, row with
    | some c, some r => setTrackedPos e a c r
    | _, _ => a

def queryTok : Chunk := csi [6] 'n'

/-- `get_cursor_position()`: writes `CSI 6 n`, parses the report; returns the position. -/
def getCursorPosition (e : Env) (a : Acc) : Acc × (Int × Int) :=
  let a := a.emit [queryTok]
  let r := e.ask a.nq a.out
  let a := { a with nq := a.nq + 1 }
  match r with
  | none => (a.fail .cpr, (0, 0))
  | some (c, r) =>
    let p : Int × Int := ((c : Int) - 1, (r : Int) - 1)
    (a.setTracked (if p.1 < (e.w : Int) then some p else none), p)      -- D20

/-- `get_cursor_position_tracked()` -/
def getCursorPositionTracked (e : Env) (a : Acc) : Acc × (Int × Int) :=
  match a.s.tracked with
  | some p => (a, p)
  | none => getCursorPosition e a

def scrollUp (a : Acc) (n : Nat) : Acc := (a.emit [csi [n] 'S']).setTracked none
def scrollDown (a : Acc) (n : Nat) : Acc := (a.emit [csi [n] 'T']).setTracked none

def setMarginsCall (a : Acc) (top bottom : Nat) : Acc :=
  ((a.emit [csi [top + 1, bottom + 1] 'r']).setTracked none).setMargins true

/-- `reset()`, both variants (`reset_by_scrolling` is an attribute of the object). -/
def reset (e : Env) (a : Acc) (byScrolling : Bool) : Acc :=
  if byScrolling then
    let a := a.emit [csi [0] 'm', csi [] 'r']
    let a := a.setMargins false
    let a := scrollUp a e.h
    moveCursorAbs e a (some 0) (some 0) none
  else
    ((a.emit [escF 'c']).setTracked (some (0, 0))).setMargins false

def clearLine (a : Acc) : Acc := a.emit [csi [2] 'K']
def clearScreen (a : Acc) : Acc := a.emit [csi [1] 'J', csi [0] 'J']

/-- `write(bytes)` and `writecmd(bytes)`: the same effect on the (single) terminal. -/
def write (a : Acc) (bs : Bytes) : Acc := ((a.emit [.raw bs]).setTracked none).setMargins true

/-- `ImagePlaceholder.to_stream_at_cursor` around the given lines (`width = end_col - start_col`):
    every line but the last is followed by the move to the start of the next row. -/
def toStreamAtCursor (width : Nat) (useSave useLF : Bool) : List Bytes → List Chunk
  | [] => []
  | [line] => [.raw line]
  | line :: rest =>
    (if !useLF && useSave then [csi [] 's'] else []) ++ [Chunk.raw line] ++
    (if useLF then [.tok (.c0 10)]
     else (if useSave then [csi [] 'u'] else [csi [width] 'D']) ++ [escF 'D']) ++
    toStreamAtCursor width useSave useLF rest

/-- `to_stream_abs_position`: every line is preceded by a CUP to its row. -/
def toStreamAbs (pos : Nat × Nat) : Nat → List Bytes → List Chunk
  | _, [] => []
  | idx, line :: rest => [csi [pos.2 + idx + 1, pos.1 + 1] 'H', Chunk.raw line] ++ toStreamAbs pos (idx + 1) rest

/-- arguments of `print_placeholder` as far as the tracker is concerned; `lines` is the result of
    `to_lines` on the resulting placeholder (`none`: it raised) -/
structure PhArgs where
  lines : Option (List Bytes)
  width : Nat
  pos : Option (Nat × Nat) := none
  useSave : Bool := true
  useLF : Bool := false
  formatting : Bool := false       -- a custom `formatting` was given

/-- `print_placeholder(...)` -/
def printPlaceholder (a : Acc) (p : PhArgs) : Acc :=
  let a := if p.formatting then a.setMargins true else a                -- D5 (custom formatting is arbitrary output)
  if p.pos.isSome && p.useLF then a.fail .value else
  match p.lines with
  | none => a.fail .value
  | some ls =>
    let a := a.emit (match p.pos with
      | some pos => toStreamAbs pos 0 ls
      | none => toStreamAtCursor p.width p.useSave p.useLF ls)
    a.setTracked none                                                   -- D4

/-- arguments of `print_placeholder_for_put`; `lines c r` = `to_lines` of the `c`×`r` placeholder
    of the put's image in the default mode. -/
structure PutArgs where
  rows : Option Int
  cols : Option Int
  hasImageId : Bool := true
  noMove : Bool := false                      -- `do_not_move_cursor` truthy  (C=1)
  lines : Nat → Nat → List Bytes

/-- last part of `print_placeholder_for_put`: where the cursor is left after the placeholder was
    printed from the queried position `(curX, curY)`. -/
def putFinish (e : Env) (a : Acc) (noMove : Bool) (curX curY cols rows : Int) : Acc :=
  let a :=
    if noMove then
      moveCursorAbs e a (some curX.toNat) (some curY.toNat) none
    else if curX + cols ≥ (e.w : Int) then
      setTrackedPos e (a.emit [escF 'E']) 0 (curY + rows)
    else
      setTrackedPos e a (curX + cols) (curY + rows - 1)
  if a.s.margins && !noMove then a.setTracked none else a            -- D5

/-- middle part: query the position again, print the `cols`×`rows` placeholder. -/
def putPrint (e : Env) (a : Acc) (p : PutArgs) (cols rows : Int) : Acc :=
  let (a, (curX, curY)) := getCursorPosition e a
  if a.err.isSome then a else
  let a := a.setTracked none
  let a := printPlaceholder a { lines := some (p.lines cols.toNat rows.toNat), width := cols.toNat }
  putFinish e a p.noMove curX curY cols rows

/-- first part: the scrolling that makes room when the rows do not fit (`C=0`). -/
def putScroll (e : Env) (a : Acc) (noMove : Bool) (rows curY : Int) : Acc :=
  if decide ((e.h : Int) - curY < rows) && !noMove then
    let nl := rows - ((e.h : Int) - curY)
    moveCursor e (a.emit [csi [nl.toNat] 'S']) none none none (some nl)
  else a

/-- `print_placeholder_for_put(put_command)` -/
def printPlaceholderForPut (e : Env) (a : Acc) (p : PutArgs) : Acc :=
  match p.rows, p.cols with
  | some prow, some pcol =>
    if !p.hasImageId then a.fail .value else
    let (a, (curX, curY)) := getCursorPositionTracked e a
    if a.err.isSome then a else
    let cols := min pcol ((e.w : Int) - curX)
    let rows := if decide ((e.h : Int) - curY < prow) && p.noMove then (e.h : Int) - curY else prow
    let a := putScroll e a p.noMove prow curY
    if cols ≤ 0 || rows ≤ 0 then a else
    putPrint e a p cols rows
  | _, _ => a.fail .value

/-- what `send_command` looks at -/
inductive CmdKind where
  | put (virtual : Bool)
  | transmit (placement : Option Bool)      -- `some virtual` when placement data is attached
  | other
deriving DecidableEq, Repr, Inhabited

/-- `send_command(command, force_placeholders=)`: the command's escape(s) `apc` are written, then
    a placeholder is printed when a classic placement was converted to a virtual one. -/
def sendCommand (e : Env) (a : Acc) (force : Bool) (kind : CmdKind) (apc : Bytes) (p : PutArgs) : Acc :=
  let need := force && (match kind with
    | .put v => !v
    | .transmit (some v) => !v
    | _ => false)
  let a := a.emit [.raw apc]
  if need then printPlaceholderForPut e a p else a

/-- The calls. -/
inductive Op where
  | reset (byScrolling : Bool)
  | moveCursor (right down left up : Option Int)
  | moveCursorAbs (col row : Option Nat) (pos : Option (Nat × Nat))
  | setMargins (top bottom : Nat)
  | scrollUp (n : Nat)
  | scrollDown (n : Nat)
  | write (bs : Bytes)
  | writecmd (bs : Bytes)
  | clearLine
  | clearScreen
  | printPlaceholder (p : PhArgs)
  | printPlaceholderForPut (p : PutArgs)
  | sendCommand (force : Bool) (kind : CmdKind) (apc : Bytes) (p : PutArgs)
  | getCursorPosition
  | getCursorPositionTracked

def step (e : Env) (s : Trk) (op : Op) : Acc :=
  let a : Acc := { s := s }
  match op with
  | .reset b => reset e a b
  | .moveCursor r d l u => moveCursor e a r d l u
  | .moveCursorAbs c r p => moveCursorAbs e a c r p
  | .setMargins t b => setMarginsCall a t b
  | .scrollUp n => scrollUp a n
  | .scrollDown n => scrollDown a n
  | .write bs => write a bs
  | .writecmd bs => write a bs
  | .clearLine => clearLine a
  | .clearScreen => clearScreen a
  | .printPlaceholder p => printPlaceholder a p
  | .printPlaceholderForPut p => printPlaceholderForPut e a p
  | .sendCommand f k apc p => sendCommand e a f k apc p
  | .getCursorPosition => (getCursorPosition e a).1
  | .getCursorPositionTracked => (getCursorPositionTracked e a).1

/-- Parsing of the report as `get_cursor_position` does it: skip to the first `ESC [`, read up to
    the first `R`, split on `;`, two decimal numbers `row;col`.  Result: 1-based (col, row). -/
def dropToCsi : Bytes → Option Bytes
  | [] => none
  | [_] => none
  | a :: b :: r => if a = ESC ∧ b = 91 then some r else dropToCsi (b :: r)

def takeToR : Bytes → Option Bytes
  | [] => none
  | b :: r => if b = 82 then some [] else (takeToR r).map (b :: ·)

def parseCpr (reply : Bytes) : Option (Nat × Nat) := do
  let body ← dropToCsi reply
  let body ← takeToR body
  match splitOn 59 body with
  | [y, x] => do
    let yy ← decToNat? y
    let xx ← decToNat? x
    pure (xx, yy)
  | _ => none

/-- The terminal's cursor-position report as numbers (1-based column, row). -/
def cprOf (t : Term) : Nat × Nat :=
  ((if t.cfg.cprClamps then min t.cx (t.w - 1) else t.cx) + 1, t.cy + 1)

/-! ### histories: the tracker next to the specification terminal -/

/-- The terminal answers `CSI 6 n` with its cursor-position report (`t` = the terminal when the
    call started, `cs` = what the call has written since). -/
def askOf (t : Term) : Nat → List Chunk → Option (Nat × Nat) := fun _ cs => some (cprOf (feedChunks t cs))

/-- the terminal after everything written so far -/
def termAfter (w h : Nat) (cfg : TermCfg) (written : List Chunk) : Term := feedChunks (Term.init w h cfg) written

/-- one call of a history: state of the object and everything written so far -/
def runStep (w h : Nat) (cfg : TermCfg) (st : Trk × List Chunk) (op : Op) : Trk × List Chunk :=
  let a := step { w := w, h := h, ask := askOf (termAfter w h cfg st.2) } st.1 op
  (a.s, st.2 ++ a.out)

/-- a history of calls on a fresh object attached to a terminal in its initial state -/
def run (w h : Nat) (cfg : TermCfg) (ops : List Op) : Trk × List Chunk := ops.foldl (runStep w h cfg) ({}, [])

end Tup.Trk
