import Tup.Model.IdSpace
import Std.Data.HashSet
/-!
  Model of the session database of `tupimage/id_manager.py` (`IDManager`): five `ids_<space>`
  tables `id ↦ (description, atime)` and the `upload` table `(id, terminal) ↦ (description, size,
  upload_time)`, with the SQL fragments the code uses written as list functions.

  * Tables are lists of rows; *key uniqueness is not built in* — it is the invariant
    `Table.KeysNodup` proved separately (`Tup/Lemmas/Db.lean`). All equalities that matter are
    extensional (`Table.lookup`), never on list order; `canon*` sorts for the wire.
  * Time is `Nat` microseconds since `datetime.min` (the harness converts; ISO-8601 strings of naive
    datetimes order like the instants they denote — observed by K on whole-second/µs mixes).
  * Where sqlite is free to answer with any of several rows (ties on `atime`, `fetchone()` on
    several matches, `LIMIT n` over equal keys) the model exposes the *set of admissible answers*
    (`oldestIds`, `admissibleRemoved`, `admissibleKept`) and the operations in `Model/Alloc.lean`
    take the implementation's actual answer as a choice argument that must lie in that set.
-/
namespace Tup

structure Row where
  id : Nat
  desc : String
  atime : Nat
deriving DecidableEq, Repr, Inhabited

abbrev Table := List Row

structure URow where
  id : Nat
  term : String
  desc : String
  size : Nat
  time : Nat
deriving DecidableEq, Repr, Inhabited

/-- The whole database file. Field order = `IDSpace.all_values()` order = `Space.all`. -/
structure Db where
  t0 : Table := []      -- ids_8bit_diacritic  ⟨0, true⟩
  t1 : Table := []      -- ids_16bit           ⟨8, true⟩
  t2 : Table := []      -- ids_32bit           ⟨24, true⟩
  t3 : Table := []      -- ids_8bit            ⟨8, false⟩
  t4 : Table := []      -- ids_24bit           ⟨24, false⟩
  uploads : List URow := []
deriving DecidableEq, Repr, Inhabited

def Db.empty : Db := {}

/-- the three re-upload thresholds (`max_uploads_ago`, `max_bytes_ago`, `max_time_ago` in µs) -/
structure Thresholds where
  maxUploads : Nat := 1024
  maxBytes : Nat := 20 * 2 ^ 20
  maxTime : Nat := 3600 * 1000000      -- microseconds
deriving DecidableEq, Repr, Inhabited


/-- Table index of a space (`namespace_name`). Total: the invalid combinations collapse onto a
    valid index so that `ids`/`setIds` satisfy their update laws unconditionally. -/
def Space.idx (s : Space) : Nat :=
  if s.use3rd then (if s.colorBits = 0 then 0 else if s.colorBits = 8 then 1 else 2)
  else (if s.colorBits = 8 then 3 else 4)

def Db.ids (db : Db) (s : Space) : Table :=
  match s.idx with
  | 0 => db.t0 | 1 => db.t1 | 2 => db.t2 | 3 => db.t3 | _ => db.t4

def Db.setIds (db : Db) (s : Space) (t : Table) : Db :=
  match s.idx with
  | 0 => { db with t0 := t } | 1 => { db with t1 := t } | 2 => { db with t2 := t }
  | 3 => { db with t3 := t } | _ => { db with t4 := t }

/-! ### single-table fragments -/

/-- `SELECT … WHERE id=?` -/
def Table.lookup (t : Table) (id : Nat) : Option Row := t.find? (fun r => r.id == id)

def Table.hasId (t : Table) (id : Nat) : Bool := t.any (fun r => r.id == id)

/-- `DELETE FROM … WHERE id=?` -/
def Table.erase (t : Table) (id : Nat) : Table := t.filter (fun r => r.id != id)

/-- `INSERT … ON CONFLICT(id) DO UPDATE SET description=…, atime=…` -/
def Table.upsert (t : Table) (r : Row) : Table := r :: t.erase r.id

/-- `UPDATE … SET atime=? WHERE id=?` -/
def Table.setAtime (t : Table) (id now : Nat) : Table :=
  t.map (fun r => if r.id == id then { r with atime := now } else r)

/-- `DELETE FROM … WHERE id IN (…)` -/
def Table.eraseAll (t : Table) (ids : List Nat) : Table :=
  let set := Std.HashSet.ofList ids      -- `ids.contains`, built once (60 000-row tables)
  t.filter (fun r => !set.contains r.id)

/-- `WHERE (id & mask) BETWEEN begin AND end-1` -/
def Table.inSub (t : Table) (s : Space) (u : Sub) : Table := t.filter (fun r => s.sqlFilter u r.id)

/-- `WHERE description=? AND (id & mask) BETWEEN …` -/
def Table.byDesc (t : Table) (s : Space) (u : Sub) (d : String) : Table :=
  t.filter (fun r => r.desc == d && s.sqlFilter u r.id)

def Table.KeysNodup (t : Table) : Prop := (t.map (·.id)).Nodup

/-- smallest `atime` of a list of rows -/
def minAtime : List Row → Option Nat
  | [] => none
  | r :: rs => match minAtime rs with
    | none => some r.atime
    | some m => some (min r.atime m)

def maxAtime : List Row → Option Nat
  | [] => none
  | r :: rs => match maxAtime rs with
    | none => some r.atime
    | some m => some (max r.atime m)

/-- `SELECT id … ORDER BY atime ASC LIMIT 1`: the ids sqlite may answer with (all rows of minimal
    `atime`; which one it picks on a tie is not specified). -/
def oldestIds (rows : List Row) : List Nat :=
  match minAtime rows with
  | none => []
  | some m => (rows.filter (fun r => r.atime == m)).map (·.id)

def nodupB : List Nat → Bool
  | [] => true
  | x :: xs => !xs.contains x && nodupB xs

/-- `… ORDER BY atime ASC LIMIT n` as a *set* of rows: `removed` is an admissible answer iff it has
    `min n |rows|` distinct ids of `rows` and no removed row is newer than a kept one. -/
def admissibleRemoved (rows : List Row) (n : Nat) (removed : List Nat) : Bool :=
  let set := Std.HashSet.ofList removed
  let ids := Std.HashSet.ofList (rows.map (·.id))
  let rem := rows.filter (fun r => set.contains r.id)
  let kept := rows.filter (fun r => !set.contains r.id)
  nodupB removed && removed.all (fun i => ids.contains i) &&
  removed.length == min n rows.length &&
  (match maxAtime rem, minAtime kept with
   | some a, some b => decide (a ≤ b)
   | _, _ => true)

/-- order of `ORDER BY atime DESC`, ties by ascending id (sqlite's own tie order is unspecified; K
    canonicalises the implementation's answer the same way) -/
def newerFirst (a b : Row) : Bool := decide (a.atime > b.atime) || (a.atime == b.atime && decide (a.id ≤ b.id))

def sortDesc (rows : List Row) : List Row := rows.mergeSort newerFirst

/-- `heapq.merge(*lists, key=atime, reverse=True)`: repeatedly emit the head with the largest key,
    the earliest list winning ties. `fuel` = total number of rows. -/
def pickMax : List (List Row) → Option (Nat × Row)
  | [] => none
  | [] :: ls => (pickMax ls).map fun (i, r) => (i + 1, r)
  | (r :: _) :: ls => match pickMax ls with
    | none => some (0, r)
    | some (i, r') => if r'.atime > r.atime then some (i + 1, r') else some (0, r)

def dropHeadAt : List (List Row) → Nat → List (List Row)
  | [], _ => []
  | l :: ls, 0 => l.tail :: ls
  | l :: ls, i + 1 => l :: dropHeadAt ls i

def mergeDescFuel : Nat → List (List Row) → List Row
  | 0, _ => []
  | fuel + 1, ls => match pickMax ls with
    | none => []
    | some (i, r) => r :: mergeDescFuel fuel (dropHeadAt ls i)

def mergeDesc (ls : List (List Row)) : List Row := mergeDescFuel (ls.map List.length).sum ls

/-! ### upload table fragments -/

def ulookup (us : List URow) (id : Nat) (term : String) : Option URow :=
  us.find? (fun r => r.id == id && r.term == term)

def uerase (us : List URow) (id : Nat) (term : String) : List URow :=
  us.filter (fun r => !(r.id == id && r.term == term))

/-- `INSERT INTO upload … ON CONFLICT(id, terminal) DO UPDATE SET …` -/
def uupsert (us : List URow) (r : URow) : List URow := r :: uerase us r.id r.term

/-- rows of `WHERE terminal = ? AND upload_time > ?` -/
def ulater (us : List URow) (term : String) (t : Nat) : List URow :=
  us.filter (fun r => r.term == term && decide (r.time > t))

def UKeysNodup (us : List URow) : Prop := (us.map (fun r => (r.id, r.term))).Nodup

def minTime : List URow → Option Nat
  | [] => none
  | r :: rs => match minTime rs with
    | none => some r.time
    | some m => some (min r.time m)

def maxTime : List URow → Option Nat
  | [] => none
  | r :: rs => match maxTime rs with
    | none => some r.time
    | some m => some (max r.time m)

def ukeyIn (keys : List (Nat × String)) (r : URow) : Bool := keys.any (fun k => k.1 == r.id && k.2 == r.term)

def nodupKeysB : List (Nat × String) → Bool
  | [] => true
  | x :: xs => !xs.any (fun y => y.1 == x.1 && y.2 == x.2) && nodupKeysB xs

/-- `SELECT id, terminal FROM upload ORDER BY upload_time DESC LIMIT n` as a set: `kept` is
    admissible iff it names `min n |us|` distinct rows and no kept row is older than a dropped one. -/
def admissibleKept (us : List URow) (n : Nat) (kept : List (Nat × String)) : Bool :=
  let k := us.filter (ukeyIn kept)
  let d := us.filter (fun r => !ukeyIn kept r)
  nodupKeysB kept && kept.all (fun key => us.any (fun r => r.id == key.1 && r.term == key.2)) &&
  kept.length == min n us.length &&
  (match minTime k, maxTime d with
   | some a, some b => decide (b ≤ a)
   | _, _ => true)

/-! ### canonical forms for the wire (sorted by key) -/

def canonTable (t : Table) : Table := t.mergeSort (fun a b => decide (a.id ≤ b.id))

def ulex (a b : URow) : Bool := decide (a.id < b.id) || (a.id == b.id && decide (a.term ≤ b.term))

def canonUploads (us : List URow) : List URow := us.mergeSort ulex

end Tup
