import Tup.Basic
/-!
  Model of the sizing code of `tupimage/tupimage_terminal.py`
  (`get_cell_size`, `get_max_cols_and_rows`, `get_optimal_cols_and_rows`) and of
  `GraphicsTerminal.get_size` / `get_cell_size`, in **exact arithmetic**:
  image and cell sizes are naturals, scale factors are fractions `num/den`, `math.ceil(a / b)`
  is ceiling division.  Control flow mirrors the Python statement by statement; Python
  exceptions are `Except.error`.

  The model follows the code *with fix D10 applied* (explicit columns/rows are clamped to the
  limits before the other dimension is derived from them); `getOptimalUnfixed` is the code as
  it was, kept for the failing-input search and the D10 counterexample.
-/
namespace Tup.CellSize

/-- A non-negative fraction `num/den` (`den > 0` in every use). -/
structure Frac where
  num : Nat
  den : Nat
deriving DecidableEq, Repr, Inhabited

def Frac.one : Frac := ⟨1, 1⟩
def Frac.mul (a b : Frac) : Frac := ⟨a.num * b.num, a.den * b.den⟩

inductive Err where
  | colsNotPositive   -- ValueError("cols must be positive")
  | rowsNotPositive   -- ValueError("rows must be positive")
  | noTermSize        -- ValueError("Could not determine terminal size")
  | zeroDiv           -- ZeroDivisionError (cell size 0, or a zero scale/size with one explicit dimension)
deriving DecidableEq, Repr, Inhabited

def Err.str : Err → String
  | .colsNotPositive => "cols" | .rowsNotPositive => "rows" | .noTermSize => "nosize" | .zeroDiv => "zerodiv"

/-- What the sizing code reads from its surroundings. -/
structure Env where
  /-- `TIOCGWINSZ` of the tty: `ws_row, ws_col, ws_xpixel, ws_ypixel` (all 0 if the ioctl fails). -/
  tRows : Nat
  tCols : Nat
  tXpix : Nat
  tYpix : Nat
  /-- `config.cell_size`; `none` = `'auto'`. -/
  cfgCell : Option (Nat × Nat)
  cfgDefaultCell : Nat × Nat
  /-- `config.max_cols` / `config.max_rows`; `none` = `'auto'`. -/
  cfgMaxCols : Option Int
  cfgMaxRows : Option Int
  cfgScale : Frac
  cfgGlobalScale : Frac
deriving Repr, Inhabited

/-- `GraphicsTerminal.get_size`: `(cols, lines)`, or the `ValueError`. -/
def termSize (e : Env) : Except Err (Nat × Nat) :=
  if e.tRows ≠ 0 ∧ e.tCols ≠ 0 then .ok (e.tCols, e.tRows) else .error .noTermSize

/-- `GraphicsTerminal.get_cell_size`: `(width // cols, height // lines)` or `None`. -/
def termCellSize (e : Env) : Option (Nat × Nat) :=
  if e.tRows ≠ 0 ∧ e.tCols ≠ 0 ∧ e.tXpix ≠ 0 ∧ e.tYpix ≠ 0 then some (e.tXpix / e.tCols, e.tYpix / e.tRows) else none

/-- `TupimageTerminal.get_cell_size`. -/
def getCellSize (e : Env) : Nat × Nat :=
  match e.cfgCell with
  | some cs => cs
  | none => match termCellSize e with
    | none => e.cfgDefaultCell
    | some cs => cs

/-- Python's `x or d` for `x : Optional[int]`: `None` and `0` are falsy. -/
def pyOr (x : Option Int) (d : Int) : Int :=
  match x with
  | some v => if v ≠ 0 then v else d
  | none => d

/-- `get_max_cols_and_rows(max_cols=…, max_rows=…)`. -/
def getMaxColsAndRows (e : Env) (maxCols? maxRows? : Option Int) : Except Err (Int × Int) := do
  let maxRows? := if maxRows?.isNone then e.cfgMaxRows else maxRows?
  let maxCols? := if maxCols?.isNone then e.cfgMaxCols else maxCols?
  let (maxCols, maxRows) ←
    match maxCols?, maxRows? with
    | some c, some r => pure (c, r)
    | _, _ => do
        let (tc, tr) ← termSize e
        pure (pyOr maxCols? tc, pyOr maxRows? (min tr 256 : Nat))
  let maxRows := max 1 maxRows
  let maxCols := max 1 maxCols
  let maxRows := min 256 maxRows
  pure (maxCols, maxRows)

/-- `math.ceil(a / b)` for naturals, `b = 0` being the `ZeroDivisionError`. -/
def ceilDiv (a b : Nat) : Except Err Nat :=
  if b = 0 then .error .zeroDiv else .ok ((a + b - 1) / b)

/-- The scaled image and the cell, as the arithmetic sees them:
    `width = wn/sd`, `height = hn/sd` (same denominator, it cancels in the ratio formulas). -/
structure Geo where
  wn : Nat
  hn : Nat
  sd : Nat
  cw : Nat
  ch : Nat
deriving Repr

/-- `math.ceil(width / cell_width)` -/
def Geo.colsOfWidth (g : Geo) : Except Err Nat := ceilDiv g.wn (g.sd * g.cw)
/-- `math.ceil(height / cell_height)` -/
def Geo.rowsOfHeight (g : Geo) : Except Err Nat := ceilDiv g.hn (g.sd * g.ch)
/-- `math.ceil(rows * cell_height * width / (height * cell_width))` -/
def Geo.colsFromRows (g : Geo) (rows : Nat) : Except Err Nat := ceilDiv (rows * g.ch * g.wn) (g.hn * g.cw)
/-- `math.ceil(cols * cell_width * height / (width * cell_height))` -/
def Geo.rowsFromCols (g : Geo) (cols : Nat) : Except Err Nat := ceilDiv (cols * g.cw * g.hn) (g.wn * g.ch)

/-- `local_scale = scale or self._config.scale` (a zero scale is falsy), times the global scale. -/
def effectiveScale (e : Env) (scale? : Option Frac) : Frac :=
  let loc := match scale? with
    | some s => if s.num ≠ 0 then s else e.cfgScale
    | none => e.cfgScale
  e.cfgGlobalScale.mul loc

/-- The part of `get_optimal_cols_and_rows` after limits, cell size and scale are known and the
    positivity checks have passed.  `fixed = true` is the repaired code (D10). -/
def sizeCore (fixed : Bool) (g : Geo) (cols? rows? : Option Nat) (maxC maxR : Nat) : Except Err (Nat × Nat) := do
  -- fix D10: an explicit dimension cannot exceed its limit; clamp it before deriving the other one
  let cols? := if fixed then cols?.map (min · maxC) else cols?
  let rows? := if fixed then rows?.map (min · maxR) else rows?
  let colsAuto := cols?.isNone
  let rowsAuto := rows?.isNone
  let (cols, rows) ←
    match cols?, rows? with
    | none, none => do
        let c ← g.colsOfWidth
        let r ← g.rowsOfHeight
        pure (c, r)
    | none, some r => do
        let c ← g.colsFromRows r
        pure (c, r)
    | some c, none => do
        let r ← g.rowsFromCols c
        pure (c, r)
    | some c, some r => pure (c, r)
  let (cols, rows) ←
    if colsAuto && decide (cols > maxC) then do
      let r ← g.rowsFromCols maxC
      pure (maxC, r)
    else pure (cols, rows)
  let (cols, rows) ←
    if rowsAuto && decide (rows > maxR) then do
      let c ← g.colsFromRows maxR
      pure (c, maxR)
    else pure (cols, rows)
  pure (max 1 (min cols maxC), max 1 (min rows maxR))

def getOptimalGen (fixed : Bool) (e : Env) (w h : Nat) (cols? rows? maxCols? maxRows? : Option Int)
    (scale? : Option Frac) : Except Err (Int × Int) :=
  match cols?, rows? with
  | some c, some r => .ok (c, r)
  | _, _ => do
    if let some c := cols? then
      if c ≤ 0 then throw .colsNotPositive
    if let some r := rows? then
      if r ≤ 0 then throw .rowsNotPositive
    let (maxC, maxR) ← getMaxColsAndRows e maxCols? maxRows?
    let (cw, ch) := getCellSize e
    let s := effectiveScale e scale?
    let g : Geo := { wn := w * s.num, hn := h * s.num, sd := s.den, cw := cw, ch := ch }
    let (c, r) ← sizeCore fixed g (cols?.map Int.toNat) (rows?.map Int.toNat) maxC.toNat maxR.toNat
    pure ((c : Int), (r : Int))

/-- `get_optimal_cols_and_rows(width, height, cols=…, rows=…, max_cols=…, max_rows=…, scale=…)`
    (repaired code). -/
def getOptimalColsAndRows := getOptimalGen true
/-- The same before fix D10. -/
def getOptimalUnfixed := getOptimalGen false

end Tup.CellSize
