import Tup.Basic
/-!
  RFC 4648 base64: encoder mirroring Python's `base64.b64encode`, and an independent decoder
  (sextet lookup, '=' padding only at the end of the final quantum).  The decoder ignores the
  unused low bits of a padded final quantum, as real decoders do.
-/
namespace Tup

def b64tab : Array UInt8 := "ABCDEFGHIJKLMNOPQRSTUVWXYZabcdefghijklmnopqrstuvwxyz0123456789+/".toUTF8.data
def b64c (n : Nat) : UInt8 := b64tab[n % 64]!
def b64pad : UInt8 := 61

def b64enc : Bytes → Bytes
  | a :: b :: c :: rest =>
      let (a, b, c) := (a.toNat, b.toNat, c.toNat)
      b64c (a / 4) :: b64c ((a % 4) * 16 + b / 16) :: b64c ((b % 16) * 4 + c / 64) :: b64c (c % 64) :: b64enc rest
  | [a, b] =>
      let (a, b) := (a.toNat, b.toNat)
      [b64c (a / 4), b64c ((a % 4) * 16 + b / 16), b64c ((b % 16) * 4), b64pad]
  | [a] => let a := a.toNat; [b64c (a / 4), b64c ((a % 4) * 16), b64pad, b64pad]
  | [] => []

/-- value of a base64 alphabet character -/
def b64val (c : UInt8) : Option Nat :=
  let n := c.toNat
  if 65 ≤ n ∧ n ≤ 90 then some (n - 65)
  else if 97 ≤ n ∧ n ≤ 122 then some (n - 71)
  else if 48 ≤ n ∧ n ≤ 57 then some (n + 4)
  else if n = 43 then some 62
  else if n = 47 then some 63
  else none

def isB64Char (c : UInt8) : Bool := (b64val c).isSome || c == b64pad

/-- strict decoder: length multiple of 4, alphabet only, padding only as `xx==` / `xxx=` in the last quantum. -/
def b64dec : Bytes → Option Bytes
  | [] => some []
  | [a, b, c, d] =>
      if c = b64pad ∧ d = b64pad then do
        let x ← b64val a; let y ← b64val b
        pure [UInt8.ofNat (x * 4 + y / 16)]
      else if d = b64pad then do
        let x ← b64val a; let y ← b64val b; let z ← b64val c
        pure [UInt8.ofNat (x * 4 + y / 16), UInt8.ofNat (y % 16 * 16 + z / 4)]
      else do
        let x ← b64val a; let y ← b64val b; let z ← b64val c; let w ← b64val d
        pure [UInt8.ofNat (x * 4 + y / 16), UInt8.ofNat (y % 16 * 16 + z / 4), UInt8.ofNat (z % 4 * 64 + w)]
  | a :: b :: c :: d :: rest => do
      let x ← b64val a; let y ← b64val b; let z ← b64val c; let w ← b64val d
      let r ← b64dec rest
      pure (UInt8.ofNat (x * 4 + y / 16) :: UInt8.ofNat (y % 16 * 16 + z / 4) :: UInt8.ofNat (z % 4 * 64 + w) :: r)
  | _ => none

end Tup
