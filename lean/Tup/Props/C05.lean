import Tup.Lemmas.CmdSend
import Tup.Lemmas.CmdFlags
/-!
  C05 — inline transmissions are chunked losslessly within the command size limit.

  Model: `Tup.Command.send` (mirrors `GraphicsCommand.send` + `TransmitCommand.split` with the D1
  repair: `medium = None` is inline like `DIRECT`), templates of `n` tmux layers
  (`Tup.Command.template`).  Specification: what a terminal behind `n` tmux layers decodes —
  `Spec.TmuxUnwrap.unwrapN n`, then `Spec.GfxParse.parse` (independent command parser + strict
  base64 decoder).  Quantified over every payload, every header field combination, every limit,
  every `n`, `more ∈ {none, false, true}`, medium ∈ {direct, none}.
-/
namespace Tup.C05
open Tup Tup.Command Tup.Spec.GfxParse Tup.Spec.TmuxUnwrap

/-- what the terminal decodes from one emitted escape code: (items, payload bytes) -/
def decode (n : Nat) (e : Bytes) : Option (List (UInt8 × Bytes) × Bytes) := (unwrapN n e).bind parse

/-- the same before base64 decoding: (items, payload text) -/
def decodeRaw (n : Nat) (e : Bytes) : Option (List (UInt8 × Bytes) × Bytes) := (unwrapN n e).bind parseRaw

/-- **Too small a limit is rejected before anything is written** (the result carries no output). -/
theorem send_too_small (tm : Template) (maxSize : Nat) (t : Transmit) (h : maxPayload tm maxSize t < 1) :
    send tm maxSize (.transmit t) = .error .tooSmall := by
  simp [send, h]

/-- … and that is the only way `send` fails: otherwise the chunks of `split` are written. -/
theorem send_ok (tm : Template) (maxSize : Nat) (t : Transmit) (h : 1 ≤ maxPayload tm maxSize t) :
    send tm maxSize (.transmit t) = .ok ((t.split (maxPayload tm maxSize t)).map (toBytes tm)) := by
  have : ¬ maxPayload tm maxSize t < 1 := by omega
  simp [send, this]

/-- A limit is rejected exactly when fewer than 8 bytes remain beside template and header. -/
theorem too_small_iff (tm : Template) (maxSize : Nat) (t : Transmit) :
    maxPayload tm maxSize t < 1 ↔ maxSize < tm.length + (headerBytes (.transmit t)).length + 8 := by
  unfold maxPayload budget; omega

/-- **Sizes.**  Every escape code written for an inline transmission is at most `maxSize` bytes long,
    tmux wrappers included — for every template (in particular `template n` for every `n`). -/
theorem send_sizes (tm : Template) (maxSize : Nat) (t : Transmit) (out : List Bytes) (hin : t.inline)
    (h : send tm maxSize (.transmit t) = .ok out) : ∀ e ∈ out, e.length ≤ maxSize := by
  obtain ⟨hm, rfl⟩ := send_inv h
  intro e he
  simp only [List.mem_map] at he
  obtain ⟨c, hc, rfl⟩ := he
  exact chunk_size_le tm maxSize t c hm (split_isChunk t _ hin c hc)

theorem decode_toBytes (n : Nat) (c : GCmd) : decode n (toBytes (template n) c) = some ((headerPairs c).map rp, payload c) := by
  simp [decode, unwrapN_toBytes, parse_toBytes_items]

theorem decodeRaw_toBytes (n : Nat) (c : GCmd) :
    decodeRaw n (toBytes (template n) c) = some ((headerPairs c).map rp, (encodedPayload c).getD []) := by
  simp [decodeRaw, unwrapN_toBytes, Command.parseRaw_toBytes, payloadText]

/-- **Lossless.**  Through `n` tmux layers, every emitted escape code unwraps and parses, and the
    base64-decoded payloads concatenated in order are exactly the data. -/
theorem send_lossless (n maxSize : Nat) (t : Transmit) (out : List Bytes) (hin : t.inline)
    (h : send (template n) maxSize (.transmit t) = .ok out) :
    ∃ ds : List Bytes, out.mapM (fun e => (decode n e).map (·.2)) = some ds ∧ ds.flatten = t.data := by
  obtain ⟨hm, rfl⟩ := send_inv h
  refine ⟨(t.split (maxPayload (template n) maxSize t)).map payload, ?_, split_flatten t _ (by omega) hin⟩
  apply mapM_map_some
  intro c _
  simp [decode_toBytes]

/-- what the parser sees of a chunk before base64 decoding -/
private def rawView (c : GCmd) : List (UInt8 × Bytes) × Bytes := ((headerPairs c).map rp, (encodedPayload c).getD [])

/-- **Flags.**  Every chunk but the last carries `m=1` and an unpadded payload text whose length is a
    positive multiple of 4; the last carries `m=0` unless the caller asked to keep the transfer open
    (`more = True`), then `m=1`. -/
theorem send_flags (n maxSize : Nat) (t : Transmit) (out : List Bytes) (hin : t.inline)
    (h : send (template n) maxSize (.transmit t) = .ok out) :
    ∃ parsed : List (List (UInt8 × Bytes) × Bytes), out.mapM (decodeRaw n) = some parsed ∧
      (∀ p ∈ allButLast parsed, mFlag p.1 = some 1 ∧ p.2.length % 4 = 0 ∧ 0 < p.2.length ∧ b64pad ∉ p.2) ∧
      (parsed.getLast?.map fun p => mFlag p.1) = some (some (if t.more = some true then 1 else 0)) := by
  obtain ⟨hm, rfl⟩ := send_inv h
  have hgood := split_good t (maxPayload (template n) maxSize t) (by omega) hin
  have hchunk := split_isChunk t (maxPayload (template n) maxSize t) hin
  refine ⟨(t.split (maxPayload (template n) maxSize t)).map rawView, ?_, ?_, ?_⟩
  · apply mapM_map_some
    intro c _
    exact decodeRaw_toBytes n c
  · intro p hp
    rw [allButLast_map] at hp
    simp only [List.mem_map] at hp
    obtain ⟨c, hc, rfl⟩ := hp
    obtain ⟨hflag, hlen⟩ := good_allButLast hgood c hc
    obtain ⟨b, hb, hmf, htxt⟩ := chunk_decoded t _ c (hchunk c (mem_of_mem_allButLast hc))
    have hbt : b = true := by rw [hflag] at hb; exact (Option.some.inj hb).symm
    subst hbt
    have hq : 1 ≤ budget (template n) maxSize t / 4 := by unfold maxPayload at hm; omega
    have := full_chunk_text (chunkInfo c).1 (budget (template n) maxSize t / 4) hq (by rw [hlen]; rfl)
    simp only [rawView, htxt]
    exact ⟨by simpa using hmf, this⟩
  · obtain ⟨c, hlast, hflag⟩ := good_last hgood
    obtain ⟨b, hb, hmf, _⟩ := chunk_decoded t _ c (hchunk c (List.mem_of_getLast? hlast))
    have hbt : b = (t.more == some true) := by rw [hflag] at hb; exact (Option.some.inj hb).symm
    subst hbt
    simp only [List.getLast?_map, hlast, Option.map_some, rawView, hmf]
    by_cases hmore : t.more = some true <;> simp [hmore]

/-- **Keys.**  The first chunk carries the command's own items (those of the protocol key table, with `m`
    set as `send_flags` says), with pairwise distinct keys; every continuation chunk carries at most
    `i`, `I` and `m`, pairwise distinct. -/
theorem send_keys (n maxSize : Nat) (t : Transmit) (out : List Bytes) (hin : t.inline)
    (h : send (template n) maxSize (.transmit t) = .ok out) :
    ∃ (first : List (UInt8 × Bytes) × Bytes) (conts : List (List (UInt8 × Bytes) × Bytes)),
      out.mapM (decode n) = some (first :: conts) ∧
      (dropKey 109 first.1).Perm (dropKey 109 (fields (.transmit t))) ∧ (keys first.1).Nodup ∧
      ∀ p ∈ conts, (keys p.1).Nodup ∧ ∀ k ∈ keys p.1, k = 105 ∨ k = 73 ∨ k = 109 := by
  obtain ⟨hm, rfl⟩ := send_inv h
  obtain ⟨d, b, rest, hs, hrest⟩ := split_first t (maxPayload (template n) maxSize t) hin
  rw [hs]
  refine ⟨((headerPairs (.transmit { t with data := d, more := some b })).map rp, d),
    rest.map (fun c => ((headerPairs c).map rp, payload c)), ?_, ?_, wire_keys_nodup _, ?_⟩
  · simp only [List.map_cons, List.mapM_cons, decode_toBytes]
    rw [mapM_map_some _ _ _ (fun c => ((headerPairs c).map rp, payload c)) (fun c _ => decode_toBytes n c)]
    rfl
  · have hp := (fields_perm (.transmit { t with data := d, more := some b })).filter (fun kv => kv.1 != 109)
    rw [← fields_first_dropM t d (some b)]
    exact hp
  · intro p hp
    simp only [List.mem_map] at hp
    obtain ⟨c, hc, rfl⟩ := hp
    obtain ⟨d', b', rfl⟩ := hrest c hc
    refine ⟨wire_keys_nodup _, ?_⟩
    intro k hk
    have hsub := (keys_map_rp_sublist_cont t.imageId t.imageNumber d' b').subset hk
    simpa using hsub

/-- Non-vacuity: the DESIGN probe (`i=5,t=d,a=t`, limit 26 = 7 + 11 + 4 + 4) is accepted, 25 is not;
    10 bytes travel in four chunks of at most 26 bytes (3 payload bytes each). -/
example : (match send (template 0) 25 (.transmit { imageId := some 5, medium := some .direct, data := [1, 2, 3] }) with
    | .ok _ => false | .error _ => true) = true := by
  decide +kernel
example : (match send (template 0) 26 (.transmit { imageId := some 5, medium := some .direct, data := [0, 1, 2, 3, 4, 5, 6, 7, 8, 9] }) with
    | .ok out => out.map (·.length) | .error _ => []) = [25, 17, 17, 17] := by
  decide +kernel
/-- the default medium is inline: D1's input is chunked by the (repaired) model -/
example : (match send (template 0) 18 (.transmit { data := [0, 1, 2, 3, 4, 5, 6] }) with
    | .ok out => out.map (·.length) | .error _ => []) = [17, 13, 13] := by
  decide +kernel

end Tup.C05
