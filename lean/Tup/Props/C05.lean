import Tup.Lemmas.CmdSend
/-!
  C05 — inline transmissions are chunked losslessly within the command size limit.

  Model: `Tup.Command.send` (mirrors `GraphicsCommand.send` + `TransmitCommand.split` with the D1
  repair: `medium = None` is inline like `DIRECT`), templates of `n` tmux layers
  (`Tup.Command.template`).  Specification: what a terminal behind `n` tmux layers decodes —
  `Spec.TmuxUnwrap.unwrapN n`, then `Spec.GfxParse.parse` (independent command parser + strict
  base64 decoder).  Quantified over every payload, every header field combination, every limit,
  every `n`, `more ∈ {none, false, true}`, medium ∈ {direct, none}.
-/
namespace Tup.C05
open Tup Tup.Command Tup.Spec.GfxParse Tup.Spec.TmuxUnwrap

/-- what the terminal decodes from one emitted escape code: (items, payload bytes) -/
def decode (n : Nat) (e : Bytes) : Option (List (UInt8 × Bytes) × Bytes) := (unwrapN n e).bind parse

/-- the same before base64 decoding: (items, payload text) -/
def decodeRaw (n : Nat) (e : Bytes) : Option (List (UInt8 × Bytes) × Bytes) := (unwrapN n e).bind parseRaw

/-- **Too small a limit is rejected before anything is written** (the result carries no output). -/
theorem send_too_small (tm : Template) (maxSize : Nat) (t : Transmit) (h : maxPayload tm maxSize t < 1) :
    send tm maxSize (.transmit t) = .error .tooSmall := by
  simp [send, h]

/-- … and that is the only way `send` fails: otherwise the chunks of `split` are written. -/
theorem send_ok (tm : Template) (maxSize : Nat) (t : Transmit) (h : 1 ≤ maxPayload tm maxSize t) :
    send tm maxSize (.transmit t) = .ok ((t.split (maxPayload tm maxSize t)).map (toBytes tm)) := by
  have : ¬ maxPayload tm maxSize t < 1 := by omega
  simp [send, this]

/-- A limit is rejected exactly when fewer than 8 bytes remain beside template and header. -/
theorem too_small_iff (tm : Template) (maxSize : Nat) (t : Transmit) :
    maxPayload tm maxSize t < 1 ↔ maxSize < tm.length + (headerBytes (.transmit t)).length + 8 := by
  unfold maxPayload budget; omega

private theorem send_inv {tm : Template} {maxSize : Nat} {t : Transmit} {out : List Bytes}
    (h : send tm maxSize (.transmit t) = .ok out) :
    1 ≤ maxPayload tm maxSize t ∧ out = (t.split (maxPayload tm maxSize t)).map (toBytes tm) := by
  by_cases hm : maxPayload tm maxSize t < 1
  · rw [send_too_small tm maxSize t hm] at h; cases h
  · have hm' : 1 ≤ maxPayload tm maxSize t := by omega
    rw [send_ok tm maxSize t hm'] at h
    cases h
    exact ⟨hm', rfl⟩

/-- **Sizes.**  Every escape code written for an inline transmission is at most `maxSize` bytes long,
    tmux wrappers included — for every template (in particular `template n` for every `n`). -/
theorem send_sizes (tm : Template) (maxSize : Nat) (t : Transmit) (out : List Bytes) (hin : t.inline)
    (h : send tm maxSize (.transmit t) = .ok out) : ∀ e ∈ out, e.length ≤ maxSize := by
  obtain ⟨hm, rfl⟩ := send_inv h
  intro e he
  simp only [List.mem_map] at he
  obtain ⟨c, hc, rfl⟩ := he
  exact chunk_size_le tm maxSize t c hm (split_isChunk t _ hin c hc)

private theorem mapM_map_some {α β γ} (l : List α) (f : α → β) (g : β → Option γ) (k : α → γ)
    (H : ∀ a ∈ l, g (f a) = some (k a)) : (l.map f).mapM g = some (l.map k) := by
  induction l with
  | nil => rfl
  | cons a rest ih =>
    simp only [List.map_cons, List.mapM_cons, H a (by simp), ih (fun x hx => H x (by simp [hx]))]
    rfl

theorem decode_toBytes (n : Nat) (c : GCmd) : decode n (toBytes (template n) c) = some ((headerPairs c).map rp, payload c) := by
  simp [decode, unwrapN_toBytes, parse_toBytes_items]

theorem decodeRaw_toBytes (n : Nat) (c : GCmd) :
    decodeRaw n (toBytes (template n) c) = some ((headerPairs c).map rp, (encodedPayload c).getD []) := by
  simp [decodeRaw, unwrapN_toBytes, Command.parseRaw_toBytes, payloadText]

/-- **Lossless.**  Through `n` tmux layers, every emitted escape code unwraps and parses, and the
    base64-decoded payloads concatenated in order are exactly the data. -/
theorem send_lossless (n maxSize : Nat) (t : Transmit) (out : List Bytes) (hin : t.inline)
    (h : send (template n) maxSize (.transmit t) = .ok out) :
    ∃ ds : List Bytes, out.mapM (fun e => (decode n e).map (·.2)) = some ds ∧ ds.flatten = t.data := by
  obtain ⟨hm, rfl⟩ := send_inv h
  refine ⟨(t.split (maxPayload (template n) maxSize t)).map payload, ?_, split_flatten t _ (by omega) hin⟩
  apply mapM_map_some
  intro c _
  simp [decode_toBytes]

/-- Non-vacuity: the DESIGN probe (`i=5,t=d,a=t`, limit 26 = 7 + 11 + 4 + 4) is accepted, 25 is not;
    10 bytes travel in four chunks of at most 26 bytes. -/
example : send (template 0) 25 (.transmit { imageId := some 5, medium := some .direct, data := [1, 2, 3] }) = .error .tooSmall := by
  decide +kernel
example : (match send (template 0) 26 (.transmit { imageId := some 5, medium := some .direct, data := [0, 1, 2, 3, 4, 5, 6, 7, 8, 9] }) with
    | .ok out => out.map (·.length) | .error _ => []) = [26, 19, 19, 19] := by
  decide +kernel
/-- the default medium is inline: D1's input is chunked by the (repaired) model -/
example : (match send (template 0) 18 (.transmit { data := [0, 1, 2, 3, 4, 5, 6] }) with
    | .ok out => out.map (·.length) | .error _ => []) = [18, 14, 14] := by
  decide +kernel

end Tup.C05
