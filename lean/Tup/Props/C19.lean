import Tup.Lemmas.RespDec
/-!
  C19 — terminal responses are parsed completely, in order, and never invented.

  `Response.receive` / `receiveMultiple` / `getCursorPosition` are the models of
  `GraphicsTerminal.receive_response` / `receive_multiple_responses` / `get_cursor_position`
  (after the D17 repair), applied to the finite byte string the terminal sends; the deadline is the
  end of that string (PARTIAL: `select`/`time` are not modelled).  `Spec.Response` is the independent
  side: an encoder of well-formed responses (`wf`: 32-bit `i`/`I`/`p`, other keys with or without
  value, any UTF-8 message not containing `ESC \`), the record a correct reader must return
  (`expected`), and the ECMA-48 cursor position report.

  UTF-8: `wf` demands it in the specification's own formulation (`isUtf8`, code point arithmetic);
  `Lemmas/RespUtf8` proves that this implies the model's decoder (`utf8Valid`, byte-range table)
  accepts, so no decoding hypothesis is left in the statements.
-/
namespace Tup.C19
open Tup Tup.Response Tup.RespLemmas
open Tup.Spec.Response (Wf Key encode expected wf noiseOk encodeCpr cprNoiseOk)

/-- One call: for every well-formed response, any noise without the introducer before it and ANY
    bytes after it, the call returns exactly the fields sent (`i`, `I`, `p`, the other keys in order,
    the message), `is_ok` iff the message is `OK`, `non_response` = the noise, `is_valid`, and leaves
    exactly the bytes after the response unread. -/
theorem response_roundtrip (noise rest : Bytes) (w : Wf) (hw : wf w = true) (hn : noiseOk noise = true) :
    receive (noise ++ encode w ++ rest) = (.resp (toResp (expected noise w)), rest) :=
  receive_encoded noise rest w hw hn (decodable_of_wf w hw)

/-- `is_ok` is set exactly for the message `OK`. -/
theorem is_ok_iff (noise : Bytes) (w : Wf) :
    (toResp (expected noise w)).isOk = true ↔ w.message = some (asc "OK") := by
  simp [toResp, expected]

/-- Consecutive responses are returned one per call, in arrival order, each with the noise that
    preceded it, nothing lost in between; the list ends when what remains holds no complete response. -/
theorem multiple_in_order (items : List (Bytes × Wf)) (tail : Bytes)
    (hall : ∀ it ∈ items, wf it.2 = true ∧ noiseOk it.1 = true) (ht : ¬ HasComplete tail) :
    receiveMultiple (stream items tail) = some (items.map fun it => toResp (expected it.1 it.2)) := by
  unfold receiveMultiple
  exact receiveMultipleAux_stream items tail _ (by have := length_le_stream items tail; omega)
    (fun it hit => ⟨(hall it hit).1, (hall it hit).2, decodable_of_wf it.2 (hall it hit).1⟩) ht

/-- No complete response (`ESC _ G … ESC \`) in what arrived before the deadline — in particular any
    truncated response — gives an invalid result that hands back every byte as `non_response`;
    no id, key, message or OK flag is invented, and nothing is left unread. -/
theorem truncated_invalid (s : Bytes) (h : ¬ HasComplete s) :
    receive s = (.resp { isValid := false, nonResponse := s }, []) :=
  receive_incomplete s h

/-- The cursor position query returns exactly the reported position (0-based), for any noise
    without `ESC [` before the report, and leaves what follows unread. -/
theorem cpr_roundtrip (noise rest : Bytes) (x y : Nat) (hn : cprNoiseOk noise = true)
    (hx : x + 1 < 10 ^ 4300) (hy : y + 1 < 10 ^ 4300) :
    getCursorPosition (noise ++ encodeCpr x y ++ rest) = .pos x y rest :=
  getCursorPosition_encoded noise rest x y hn hx hy

/-- … or fails with a timeout: without `ESC [` nothing is ever reported. -/
theorem cpr_timeout (s : Bytes) (h : cprNoiseOk s = true) : getCursorPosition s = .timeout := by
  have hn : ¬ ([27, 91] : Bytes) <:+: s := by
    intro hi
    have := (isInfix_iff [27, 91] s).mpr hi
    simp [cprNoiseOk] at h
    simp [h] at this
  have : ∀ (t pre : Bytes), ¬ ([27, 91] : Bytes) <:+: pre ++ t → cprLoop t pre.reverse false = none := by
    intro t
    induction t with
    | nil => intro pre _; simp [cprLoop]
    | cons b u ih =>
      intro pre hp
      have hf := isPrefixOf_rev_false (pat := [27, 91]) (pre := pre) (b := b) (t := u) hp
      have hf' : ([91, 27] : Bytes).isPrefixOf (b :: pre.reverse) = false := by simpa using hf
      have := ih (pre ++ [b]) (by simpa using hp)
      simp only [cprLoop, Bool.false_eq_true, ↓reduceIte, hf']
      simpa using this
  have h0 := this s [] (by simpa using hn)
  simp only [List.reverse_nil] at h0
  simp [getCursorPosition, h0]

-- The hypotheses are satisfiable (a response with all three ids, two other keys, a UTF-8 message):
example : let w : Wf := ⟨[.imageId 4294967295, .extra (asc "k") (some (asc "v")), .placementId 7, .extra (asc "i") none],
                         some (asc "ENOENT:é;=,")⟩
    wf w = true ∧ noiseOk (asc "ab\x1b_") = true := by decide
example : ¬ HasComplete (asc "\x1b_Gi=1;O") := by
  intro ⟨a, b, c, h⟩
  have : (92 : UInt8) ∈ asc "\x1b_Gi=1;O" := by rw [h]; simp [term]
  revert this; decide
example : encodeCpr 79 23 = asc "\x1b[24;80R" := by decide

end Tup.C19
