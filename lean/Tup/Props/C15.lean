import Tup.Lemmas.CellSizeRun
/-!
  C15 — computed cell size stays within limits and keeps the aspect ratio within one cell.

  Model: `Tup.CellSize` (`get_cell_size`, `get_max_cols_and_rows`, `get_optimal_cols_and_rows` of
  tupimage/tupimage_terminal.py in exact arithmetic, with fix D10 applied).
  Specification: `Tup.Spec.CellSize` (`bounds`, `minimalBox`, `noUnused`, `explicitKept`, `verbatim`,
  `colLimit`, `rowLimit`), evaluated with the exact tolerance `{}`.
  Quantifier (`Tup.CellSize.Dom`): every image size ≥ 1, every cell size ≥ 1 (configured, derived from
  the window's pixel size, or the default), every positive scale (per call, configured, global),
  every limit ≥ 1 given per call or configured, or taken from a terminal of any non-zero size,
  explicit/auto columns and rows.  No numeric bounds.

  IDEAL ARITHMETIC: the theorems are about exact rationals.  The Python code computes in IEEE-754
  doubles; it is tied to this model exactly only on the float-exact domain, elsewhere by the
  tolerance oracle (harness/c15.py) — the property is claimed PARTIAL for rounding.
-/
namespace Tup.C15
open Tup.CellSize Tup.Spec.CellSize

variable {e : Env} {w h : Nat} {cols? rows? maxCols? maxRows? : Option Int} {scale? : Option Frac} {c r : Int}

/-- The limits in force are the per-call argument, else the configured value, else the terminal
    size, and never more than 256 rows. -/
theorem limits_spec (D : Dom e w h cols? rows? maxCols? maxRows? scale?) :
    getMaxColsAndRows e maxCols? maxRows? = .ok ((limCOf e maxCols? : Nat), (limROf e maxRows? : Nat)) :=
  limits D.termRows D.termCols D.argC D.argR D.cfgC D.cfgR

/-- Within the quantifier the library does not raise: it always chooses a box. -/
theorem chooses (D : Dom e w h cols? rows? maxCols? maxRows? scale?) :
    ∃ c r, getOptimalColsAndRows e w h cols? rows? maxCols? maxRows? scale? = .ok (c, r) := by
  by_cases hb : cols?.isSome ∧ rows?.isSome
  · rcases cols? with _ | c <;> rcases rows? with _ | r <;> simp at hb
    exact ⟨c, r, rfl⟩
  · exact ⟨_, _, run D hb⟩

/-- Both dimensions are at least 1, columns within the column limit, rows within the row limit,
    which is never more than 256. -/
theorem bounds (D : Dom e w h cols? rows? maxCols? maxRows? scale?) (hnot : ¬ (cols?.isSome ∧ rows?.isSome))
    (hres : getOptimalColsAndRows e w h cols? rows? maxCols? maxRows? scale? = .ok (c, r)) :
    Spec.CellSize.bounds (reqFor e w h cols? rows? maxCols? maxRows? scale?) c r = true := by
  obtain ⟨cN, rN, rfl, rfl, h1, h2, h3, h4, _⟩ := shape_of D hnot hres
  have := (limR_pos D).2
  unfold Spec.CellSize.bounds reqFor reqOf
  simp only [Bool.or_eq_true, Bool.and_eq_true, decide_eq_true_eq]
  right
  omega

/-- No entirely unused row or column when the scaled image is fitted into the box preserving its
    aspect ratio — in every case in which the library chooses a dimension. -/
theorem no_unused (D : Dom e w h cols? rows? maxCols? maxRows? scale?) (hnot : ¬ (cols?.isSome ∧ rows?.isSome))
    (hres : getOptimalColsAndRows e w h cols? rows? maxCols? maxRows? scale? = .ok (c, r)) :
    noUnused {} (reqFor e w h cols? rows? maxCols? maxRows? scale?) c r = true := by
  obtain ⟨cN, rN, rfl, rfl, h1, _, h3, _, sh⟩ := shape_of D hnot hres
  exact noUnused_of_shape (geoOf_pos D) h1 h3 sh _ _ _ _

/-- Both automatic and no limit in the way: the smallest box of whole cells containing the scaled image. -/
theorem minimal_box (D : Dom e w h none none maxCols? maxRows? scale?)
    (hres : getOptimalColsAndRows e w h none none maxCols? maxRows? scale? = .ok (c, r)) :
    minimalBox {} (reqFor e w h none none maxCols? maxRows? scale?) c r = true := by
  obtain ⟨cN, rN, rfl, rfl, _, _, _, _, sh⟩ := shape_of D (by simp) hres
  exact minimalBox_of_shape (geoOf_pos D) sh

/-- A dimension given explicitly within its limit is kept unless the other one had to be capped. -/
theorem explicit_kept (D : Dom e w h cols? rows? maxCols? maxRows? scale?) (hnot : ¬ (cols?.isSome ∧ rows?.isSome))
    (hres : getOptimalColsAndRows e w h cols? rows? maxCols? maxRows? scale? = .ok (c, r)) :
    explicitKept {} (reqFor e w h cols? rows? maxCols? maxRows? scale?) c r = true := by
  obtain ⟨cN, rN, rfl, rfl, _, _, _, _, sh⟩ := shape_of D hnot hres
  rcases cols? with _ | c0 <;> rcases rows? with _ | r0
  · rfl
  · have hr := D.rows r0 rfl
    have : (r0 : Int) = ((r0.toNat : Nat) : Int) := by omega
    have key := explicitKept_rows_of_shape (geoOf_pos D) (r0 := r0.toNat) (by simpa using sh)
    unfold reqFor; rw [this]; exact key
  · have hc := D.cols c0 rfl
    have : (c0 : Int) = ((c0.toNat : Nat) : Int) := by omega
    have key := explicitKept_cols_of_shape (geoOf_pos D) (c0 := c0.toNat) (by simpa using sh)
    unfold reqFor; rw [this]; exact key
  · simp at hnot

/-- Two explicit dimensions are used verbatim (for any values whatsoever, no hypotheses). -/
theorem verbatim (c0 r0 : Int) :
    getOptimalColsAndRows e w h (some c0) (some r0) maxCols? maxRows? scale? = .ok (c0, r0) ∧
    Spec.CellSize.verbatim (reqFor e w h (some c0) (some r0) maxCols? maxRows? scale?) c0 r0 = true := by
  constructor
  · rfl
  · simp [Spec.CellSize.verbatim, reqFor, reqOf]

/-- D10: before the fix the clause `no_unused` fails — 100×100 px, cells 8×16, 200 explicit columns
    under a limit of 80 in a 300×256 terminal give `(80, 100)`, leaving 60 rows unused. -/
def d10Env : Env := { tRows := 256, tCols := 300, tXpix := 0, tYpix := 0, cfgCell := none, cfgDefaultCell := (8, 16),
                      cfgMaxCols := none, cfgMaxRows := none, cfgScale := ⟨1, 1⟩, cfgGlobalScale := ⟨1, 1⟩ }

theorem d10_unfixed_violates :
    getOptimalUnfixed d10Env 100 100 (some 200) none (some 80) none none = .ok (80, 100) ∧
    noUnused {} (reqFor d10Env 100 100 (some 200) none (some 80) none none) 80 100 = false ∧
    getOptimalColsAndRows d10Env 100 100 (some 200) none (some 80) none none = .ok (80, 40) := by
  decide

/-- The hypotheses are satisfiable (and the D10 input is inside the quantifier). -/
example : Dom d10Env 100 100 (some 200) none (some 80) none none := by
  constructor <;> simp [d10Env, getCellSize, termCellSize]

end Tup.C15
