import Tup.Props.C07
import Tup.Lemmas.PhSpace
import Tup.Model.DisplayArgs
/-!
  C14 — IDs are displayed using only the terminal features their ID space allows.

  `Spec.inSpace s id` is the independent layout specification of the ID spaces (C10 proves the code's spaces are exactly
  these).  `displayMode fewer` models `TupimageTerminal.get_image_placeholder_mode`, `getFormattingT` models
  `get_formatting`; the correspondence check (harness/c14.py) ties them to `display_only` on a pty-hosted terminal.
-/
namespace Tup.C14
open Tup Tup.Spec Tup.Ph

/-- **Colour feature**: on the display path the foreground escape is the 24-bit form iff the ID's space has 24 colour bits;
    otherwise it is the 256-colour form. -/
theorem fg_truecolor_iff (s : Space) (id : Nat) (hs : inSpace s id = true) (fewer : Bool) :
    ((∃ r g b, fgTok (displayMode fewer) id = .csi [38, 2, r, g, b] 109) ↔ s.colorBits = 24) ∧
    ((∃ n, fgTok (displayMode fewer) id = .csi [38, 5, n] 109) ↔ s.colorBits ≠ 24) := by
  obtain ⟨_, _, _, hc⟩ := inSpace_facts s id hs
  have hrgb := colorOf_isRgb true id
  simp only [Bool.true_eq_false, false_or] at hrgb
  unfold fgTok displayMode
  simp only
  rw [colorTok_eq]
  cases hco : colorOf true id with
  | idx n =>
    have : ¬ ∃ r g b, colorOf true id = .rgb r g b := by rw [hco]; simp
    have h24 : ¬ s.colorBits = 24 := fun h => this (hrgb.mpr (hc.mpr h))
    simp [h24]
  | rgb r g b =>
    have : ∃ r g b, colorOf true id = .rgb r g b := ⟨r, g, b, hco⟩
    have h24 : s.colorBits = 24 := hc.mp (hrgb.mp this)
    simp [h24]

/-- **Diacritic feature**: a cell carries a third diacritic only if the space uses the third diacritic; it is then present
    on the first cell of every line (so the full ID is recoverable), and with `fewer_diacritics` the other columns carry
    no diacritic at all. -/
theorem third_diacritic_iff (s : Space) (id : Nat) (hs : inSpace s id = true) (fewer : Bool) (row sc ec : Nat) :
    (∀ cell ∈ lineCells (displayMode fewer) row sc ec (id4thByte id), cell.length ≤ 3 ∧ (cell.length = 3 → s.use3rd = true)) ∧
    (s.use3rd = true → (firstCell (counts (displayMode fewer) sc (id4thByte id)).1 row sc (id4thByte id)).length = 3) ∧
    (fewer = true → ∀ col, otherCell (counts (displayMode fewer) sc (id4thByte id)).2 row col (id4thByte id) = []) := by
  obtain ⟨_, _, h3, _⟩ := inSpace_facts s id hs
  rw [← id4thByte_eq] at h3
  simp only [lineCells, counts_display]
  by_cases hb : id4thByte id = 0
  · have hu : ¬ s.use3rd = true := fun h => (h3.mpr h) hb
    simp only [hb, if_true]
    refine ⟨?_, fun h => absurd h hu, ?_⟩
    · intro cell hc
      simp only [List.mem_cons, List.mem_map] at hc
      rcases hc with rfl | ⟨col, _, rfl⟩
      · simp [firstCell]
      · cases fewer <;> simp [otherCell] <;> split <;> simp
    · intro hf col; subst hf; simp [otherCell]
  · have hu : s.use3rd = true := h3.mp hb
    simp only [hb, if_false]
    refine ⟨?_, fun _ => ?_, ?_⟩
    · intro cell hc
      simp only [List.mem_cons, List.mem_map] at hc
      rcases hc with rfl | ⟨col, _, rfl⟩
      · simp [firstCell, hu]
      · cases fewer <;> simp [otherCell, hu] <;> split <;> simp
    · simp [firstCell]
    · intro hf col; subst hf; simp [otherCell]

/-- **Still decodes to the full ID**: C07(A) instantiated with the display path's mode and formatting. -/
theorem display_decodes (t : Term) (s : Space) (p : Placeholder) (_hs : inSpace s p.imageId = true) (fewer : Bool)
    (bg : Background) (row : Nat) (hp : p.valid = true) (hrow : row < 297) (hsc : p.startCol < 297)
    (hfit : t.cx + (p.endCol - p.startCol) ≤ t.w) :
    decodeRow none ((List.range (p.endCol - p.startCol)).map fun j =>
        (t.feedAll (lineToks p (displayMode fewer) (getFormattingT bg) row)).cells t.cy (t.cx + j)) =
      (List.range (p.endCol - p.startCol)).map fun j => some ⟨p.imageId, p.placementId, row, p.startCol + j⟩ :=
  C07.line_decodes t p (displayMode fewer) (getFormattingT bg) row hp (by cases fewer <;> decide) hrow hsc
    (getFormattingT_bgOnly bg) hfit

/-- **Argument handling reduces to the display model**: when `display_only` is given an integer, an `ImagePlaceholder` or an
    `ImageInstance` with any overrides, and its argument handling resolves to the rectangle `r`, then with a non-negative
    position and one of the four final-position names the call writes exactly the bytes of `displayOnly r` (to which
    `display_decodes` and the feature theorems apply) and returns `r`; if `displayOnly r` refuses, so does the call. -/
theorem displayCall_eq_displayOnly (cfg : FinalPos) (o : DispObj) (sc sr ec er : Option Int) (ae fewer : Bool) (bg : Background)
    (pos : Option (Nat × Nat)) (lf : Bool) (fp : FinalPos) (r : RawPlaceholder) (h : resolveArgs o sc sr ec er ae = some r) :
    (∀ b, displayOnly r fewer bg pos lf fp = .ok b →
      displayCall false cfg o sc sr ec er ae fewer bg (pos.map fun q => ((q.1 : Int), (q.2 : Int))) lf (.named fp) = ⟨.ok (), b, some r⟩) ∧
    (∀ e, displayOnly r fewer bg pos lf fp = .error e →
      (displayCall false cfg o sc sr ec er ae fewer bg (pos.map fun q => ((q.1 : Int), (q.2 : Int))) lf (.named fp)).status = .error e) := by
  cases pos with
  | none =>
    simp only [displayCall, h, displayOnly, Option.map_none]
    cases toStream r none (displayMode fewer) (getFormatting bg) true lf with
    | error e => simp [DisplayOutcome.refused]
    | ok b =>
      cases finalCursorToks (r.endCol - r.startCol).toNat (r.endRow - r.startRow).toNat fp lf with
      | none => simp
      | some t => simp
  | some q =>
    obtain ⟨px, py⟩ := q
    have hx : ¬ ((px : Int) < 0 ∨ (py : Int) < 0) := by omega
    simp only [displayCall, h, displayOnly, Option.map_some, toStream]
    cases lf with
    | true => simp [DisplayOutcome.refused]
    | false =>
      simp only [Bool.false_eq_true, if_false, hx, Int.toNat_natCast]
      cases toStreamAbs r px py (displayMode fewer) (getFormatting bg) with
      | error e => simp [DisplayOutcome.refused]
      | ok b =>
        cases finalCursorToks (r.endCol - r.startCol).toNat (r.endRow - r.startRow).toNat fp false with
        | none => simp
        | some t => simp

/-- **`allow_expansion=False` never prints past the object's own rectangle end**: the call is refused for an integer id;
    for an `ImagePlaceholder` / `ImageInstance` the printed end column (row) is the requested one when that lies inside the
    object's own end, and the object's own end otherwise. -/
theorem no_expansion_clips (o : DispObj) (sc sr ec er : Option Int) (r : RawPlaceholder)
    (h : resolveArgs o sc sr ec er false = some r) :
    ∃ oc orow, o.ownEnd = some (oc, orow) ∧ r.endCol ≤ oc ∧ r.endRow ≤ orow ∧
      (r.endCol = oc ∨ r.endCol = pyOr ec oc) ∧ (r.endRow = orow ∨ r.endRow = pyOr er orow) := by
  cases o with
  | int id =>
    simp only [resolveArgs] at h
    split at h <;> simp at h
  | ph p =>
    simp only [resolveArgs, Bool.false_eq_true, if_false, Option.some.injEq] at h
    subst h
    refine ⟨p.endCol, p.endRow, rfl, ?_⟩
    simp only [Int.min_def]
    refine ⟨?_, ?_, ?_, ?_⟩ <;> split <;> omega
  | inst id cols rows =>
    simp only [resolveArgs, Bool.false_eq_true, if_false, Option.some.injEq] at h
    subst h
    refine ⟨cols, rows, rfl, ?_⟩
    simp only [Int.min_def]
    refine ⟨?_, ?_, ?_, ?_⟩ <;> split <;> omega

/-- non-vacuity of the two statements above: a 5x3 instance cropped to 3 columns (the CLI's `list` does this), and an
    integer id with `allow_expansion=False` refused -/
example : resolveArgs (.inst 7 5 3) none none (some 3) (some 9) false = some ⟨7, 0, 0, 0, 3, 3⟩ ∧
    resolveArgs (.int 7) none none (some 3) (some 9) false = none ∧
    resolveArgs (.ph ⟨7, 1, 2, 1, 6, 4⟩) (some 0) none (some 9) none true = some ⟨7, 1, 2, 1, 9, 4⟩ := by decide

/-- non-vacuity: an ID of each of the five spaces -/
example : inSpace ⟨0, true⟩ 0x05000000 = true ∧ inSpace ⟨8, true⟩ 0x05000007 = true ∧ inSpace ⟨24, true⟩ 0x05010007 = true ∧
    inSpace ⟨8, false⟩ 0x07 = true ∧ inSpace ⟨24, false⟩ 0x010000 = true := by decide

end Tup.C14
