import Tup.Lemmas.TxnAlone
import Tup.Lemmas.TxnSame
import Tup.Lemmas.TxnTotal
/-!
  C03 — concurrent processes sharing a session database allocate IDs atomically.

  Model: `Model/Txn.lean`. Every public call is a small state machine (`PState`) over the atomic blocks
  of `Model/Alloc.lean` / `Model/UploadInfo.lean` (one `BEGIN IMMEDIATE … COMMIT` block or one
  autocommit statement per `pstep`); a system is a list of such processes and one shared `Db`;
  `runSched cfg ⟨procs, db0⟩ sched` lets the processes named by `sched : List Nat` run one block each.
  All theorems are for **any number of processes, any requests (any choices), any schedule**.
  Trusted (not modelled): that sqlite makes a block atomic and isolated, lock contention / busy
  time-outs / the first-open `PRAGMA` race (observed by the stress part of the check only).

  * `alone_refines_*`   run alone, the blocks of a call compose to the sequential operation of
                        `Model/Alloc.lean` (the one C02's correspondence check ties to the code);
  * `step_is_public_op` every block is read-only or equals ONE complete public operation applied to the
                        database of that moment (`effOp`), and returns what that operation returns;
  * `linearizable`      the interleaved run = the sequential run of the effective operations in
                        schedule order;
  * corollaries         `same_description_single_id`, `no_shared_id_while_free`, `steps_total_on_inv`,
                        `inv_preserved`;
  * `read_results`      every finished single-block read (`get_info`, `count(space, sub)`, `needs_uploading`,
                        `get_upload_info`) returned the sequential answer on a database of the sequential run;
  * `prefix_*`          kernel-checked: the pre-fix decompositions were NOT linearizable — D8 (sampling block
                        without the repeated lookup: two ids for one description) and the three-read
                        `needs_uploading` (an answer no sequential order gives).
-/
namespace Tup.C03
open Tup Tup.Txn Tup.TxnLemmas Tup.DbLemmas Tup.IdLemmas Tup.AllocLemmas Tup.Spec.AllocStep

/-! ## run alone, a process performs exactly the sequential operation -/

/-- `lone cfg k p db` (process `p` running `k` blocks in a row) is the system run under the schedule
    that names only that process; the other processes are untouched. -/
theorem lone_is_schedule {cfg : Cfg} {st : Sys} {i : Nat} {p : PState} (h : st.procs[i]? = some p) (k : Nat) :
    (runSched cfg st (List.replicate k i)).db = (lone cfg k p st.db).2 ∧
    (runSched cfg st (List.replicate k i)).procs[i]? = some (lone cfg k p st.db).1 ∧
    ∀ j, j ≠ i → (runSched cfg st (List.replicate k i)).procs[j]? = st.procs[j]? :=
  runSched_replicate h k

/-- once a process has finished, further steps of it change nothing: `lone` with more fuel agrees -/
theorem lone_stable {cfg : Cfg} {n : Nat} {p : PState} {db db' : Db} {r : Result}
    (h : lone cfg n p db = (.finished r, db')) {k : Nat} (hk : n ≤ k) : lone cfg k p db = (.finished r, db') :=
  lone_mono h hk

/-- **`get_id` alone = `getId`.** Running a single `get_id` process to completion (at most 8 blocks: the
    lookup block, 4 sampling blocks, 3 clean-up statements; 10 is a safe bound) from `db` ends in exactly the
    database, result and outcome of the sequential `getId cfg db req now ch`; if `getId` rejects the choices
    (or raises), so does the process. -/
theorem alone_refines_getId {cfg : Cfg} {req : Req} (hs : req.space.valid = true) (hu : req.sub.valid = true)
    (now : Nat) (ch : GetChoice) (db : Db) :
    (∀ db' res out, getId cfg db req now ch = .ok (db', res, out) →
      lone cfg 10 (Request.start (.get req now ch)) db = (.finished (.got res out), db')) ∧
    (∀ e, getId cfg db req now ch = .error e →
      (lone cfg 10 (Request.start (.get req now ch)) db).1 = .finished (.raised e)) := by
  have := lone_getLookup (cfg := cfg) hs hu now ch db
  constructor
  · intro db' res out h; rw [h] at this; exact this
  · intro e h; rw [h] at this; exact this

theorem alone_refines_setId (cfg : Cfg) (id : Nat) (d : String) (now : Nat) (db : Db) :
    lone cfg 1 (Request.start (.set id d now)) db =
      match setId db id d now with
      | .ok db' => (.finished .unit, db')
      | .error e => (.finished (.raised e), db) := by
  simp only [lone, pstepT, pstep, pstepG, Request.start, PState.wf, Bool.not_true, Bool.false_eq_true, ↓reduceIte]
  cases setId db id d now <;> rfl

theorem alone_refines_delId (cfg : Cfg) (id : Nat) (db : Db) :
    lone cfg 1 (Request.start (.del id)) db =
      match delId db id with
      | .ok db' => (.finished .unit, db')
      | .error e => (.finished (.raised e), db) := by
  simp only [lone, pstepT, pstep, pstepG, Request.start, PState.wf, Bool.not_true, Bool.false_eq_true, ↓reduceIte]
  cases delId db id <;> rfl

theorem alone_refines_cleanup (cfg : Cfg) {s : Space} {u : Sub} (hs : s.valid = true) (hu : u.valid = true)
    (m : Nat) (removed : List Nat) (db : Db) :
    lone cfg 1 (Request.start (.cleanup s u m removed)) db =
      match cleanup db s u m removed with
      | .ok db' => (.finished .unit, db')
      | .error e => (.finished (.raised e), db) := by
  simp only [lone, pstepT, pstep, pstepG, Request.start, PState.wf, hs, hu, Bool.and_self, Bool.not_true,
    Bool.false_eq_true, ↓reduceIte]
  cases cleanup db s u m removed <;> rfl

theorem alone_refines_markUploaded (cfg : Cfg) (id : Nat) (term : String) (size time : Nat) (db : Db) :
    lone cfg 1 (Request.start (.mark id term size time)) db =
      match markUploaded db id term size time with
      | .ok db' => (.finished .unit, db')
      | .error e => (.finished (.raised e), db) := by
  simp only [lone, pstepT, pstep, pstepG, Request.start, PState.wf, Bool.not_true, Bool.false_eq_true, ↓reduceIte]
  cases markUploaded db id term size time <;> rfl

theorem alone_refines_cleanupUploads (cfg : Cfg) (n : Nat) (kept : List (Nat × String)) (db : Db) :
    lone cfg 1 (Request.start (.cleanupUploads n kept)) db =
      match cleanupUploads db n kept with
      | .ok db' => (.finished .unit, db')
      | .error e => (.finished (.raised e), db) := by
  simp only [lone, pstepT, pstep, pstepG, Request.start, PState.wf, Bool.not_true, Bool.false_eq_true, ↓reduceIte]
  cases cleanupUploads db n kept <;> rfl

/-- `needs_uploading` is one read transaction (`BEGIN; get_info; get_upload_info; COMMIT`) -/
theorem alone_refines_needsUploading (cfg : Cfg) (id : Nat) (term : String) (thr : Thresholds) (now : Nat) (db : Db) :
    lone cfg 1 (Request.start (.needs id term thr now)) db =
      (.finished (match needsUploading db id term thr now with
        | .ok b => .bool b
        | .error e => .raised e), db) := by
  simp only [lone, pstepT, pstep, pstepG, Request.start, PState.wf, Bool.not_true, Bool.false_eq_true, ↓reduceIte]
  cases needsUploading db id term thr now <;> rfl

/-- a stand-alone `get_upload_info` is one read transaction around its two `SELECT`s -/
theorem alone_refines_getUploadInfo (cfg : Cfg) (id : Nat) (term : String) (db : Db) :
    lone cfg 1 (Request.start (.uploadInfo id term)) db = (.finished (.uinfo (getUploadInfo db id term)), db) := by
  simp [lone, pstepT, pstep, pstepG, Request.start, PState.wf, totalOf]

theorem alone_refines_getInfo (cfg : Cfg) (id : Nat) (db : Db) :
    lone cfg 1 (Request.start (.info id)) db =
      (.finished (match getInfo db id with
        | .ok r => .row r
        | .error e => .raised e), db) := by
  simp only [lone, pstepT, pstep, pstepG, Request.start, PState.wf, Bool.not_true, Bool.false_eq_true, ↓reduceIte]
  cases getInfo db id <;> rfl

theorem alone_refines_count (cfg : Cfg) (s : Option Space) (u : Sub) (db : Db) :
    lone cfg 6 (Request.start (.count s u)) db = (.finished (.nat (count db s u)), db) := by
  cases s with
  | some s =>
    simp [lone, pstepT, pstep, pstepG, Request.start, PState.wf, totalOf, count]
  | none =>
    simp [lone, pstepT, pstep, pstepG, Request.start, PState.wf, totalOf, count, Space.all]
    omega

/-! ## every atomic step is one complete public operation -/

/-- **Every successful block of every process** either only reads (`effOp = none`: lookup miss, failed
    sampling round, the reads of `needs_uploading` / `get_upload_info` / `get_info` / `count`) and leaves the
    database unchanged, or changes it exactly as ONE complete public operation `op = effOp cfg p db` applied
    to the database of that moment would (`db' = applyOp cfg db op`); and if that operation is the request's
    own (not an internal clean-up), the request finishes with the result the sequential operation returns
    (`Returns`: for `get`, the complete sequential `getId` from that database — with the choices recorded in
    `op` — succeeds with the same id). A block that raises is rolled back (`sysStep`: database unchanged). -/
theorem step_is_public_op {cfg : Cfg} {p p' : PState} {db db' : Db} (h : pstep cfg p db = .ok (p', db')) :
    (effOp cfg p db = none ∧ db' = db) ∨
    (∃ op, effOp cfg p db = some op ∧ db' = applyOp cfg db op ∧
      (p.ownStep = true → ∃ r, p' = .finished r ∧ Returns cfg db op r)) :=
  step_full h

/-- … and that operation is of the kind the request prescribes: a `get` of the same request and clock
    value (for a lookup block that answered, a sampling block that inserted or found), the request's own
    `set` / `del` / `cleanup` / `mark` / `cleanupUploads`, or — for the clean-up statement inside a
    large-subspace `get_id` — the next planned clean-up with the prescribed limit
    `min (int(size·frac)) max_ids`. -/
theorem step_op_kind {cfg : Cfg} {p : PState} {db : Db} {op : Op} (h : effOp cfg p db = some op) :
    (p.ownStep = true ∧ p.OwnOp op) ∨ (p.ownStep = false ∧ (p.plannedCleanups cfg).head? = some op) :=
  effOp_kind h

/-! ## linearizability -/

/-- **Linearizability.** For every schedule there is a list `lin` of complete public operations, tagged
    with the process that performed them (`linOf`: the effective operations in schedule order), such that
    1. the final database is the sequential run `run cfg` of these operations from `db0`;
    2. each request contributes (`Contributes`): a prefix of its own internal clean-ups, in order, as
       separate `cleanup` operations (only a large-subspace `get_id` has any), then at most one operation
       of its own kind (`OwnOp`); reads and requests that raise contribute nothing; a `get_id` that ends
       in "no unused id" contributes only its clean-ups;
    3. every finished request whose own operation is in `lin` returned what that operation returns when
       executed at that point of the sequential run (`Returns`; for `get_id`: the same id);
    4. conversely, every write request that returned properly (an id / `None`) has its own operation in `lin`. -/
theorem linearizable (cfg : Cfg) (procs : List PState) (db0 : Db) (sched : List Nat) :
    ∃ lin : List LinOp,
      (runSched cfg ⟨procs, db0⟩ sched).db = run cfg (lin.map (·.op)) db0 ∧
      (∀ (i : Nat) (p : PState), procs[i]? = some p → Contributes cfg p (entriesOf i lin)) ∧
      (∀ (k : Nat) (e : LinOp), lin[k]? = some e → e.own = true →
        ∀ r : Result, (runSched cfg ⟨procs, db0⟩ sched).procs[e.pid]? = some (.finished r) →
          Returns cfg (dbAt cfg db0 lin k) e.op r) ∧
      (∀ (i : Nat) (p : PState) (r : Result), procs[i]? = some p → isRead p = false → r.proper = true →
        (runSched cfg ⟨procs, db0⟩ sched).procs[i]? = some (.finished r) →
          ∃ (k : Nat) (e : LinOp), lin[k]? = some e ∧ e.pid = i ∧ e.own = true) :=
  ⟨linOf cfg ⟨procs, db0⟩ sched,
   runSched_db_eq_run cfg ⟨procs, db0⟩ sched,
   fun i p h => lin_contributes cfg sched ⟨procs, db0⟩ i p h,
   fun k e hk hown r hfin => lin_returns cfg sched ⟨procs, db0⟩ k e hk hown r hfin,
   fun i p r hp hw hr hfin => finished_entry cfg sched ⟨procs, db0⟩ i p hp hw r hr hfin⟩

/-- every intermediate database of the interleaved run is an intermediate database of the sequential run
    (so every read block reads a state of the sequential run) -/
theorem prefix_databases (cfg : Cfg) (st : Sys) (a b : List Nat) :
    (runSched cfg st a).db = dbAt cfg st.db (linOf cfg st (a ++ b)) (linOf cfg st a).length :=
  runSched_prefix_dbAt cfg st a b

/-! ## results of the read-only calls -/

/-- **Every finished read request returned the sequential answer on a database of the sequential run.**
    `get_info`, `count(space, subspace)` (one `SELECT` each), `needs_uploading` and `get_upload_info` (one read
    transaction each since the fix of `prefix_needs_uploading_not_atomic`) are single blocks: the request
    answers with `getInfo` / `count` / `needsUploading` / `getUploadInfo` evaluated on the database
    `dbAt cfg db0 lin k` of the sequential run of the linearisation `lin = linOf … sched`, where `k` is the
    number of effective operations before the request's block (`a` = the schedule up to that block).
    NOT covered: `count(None, …)` and `get_all(None, …)` — five statements, one per table, merged in Python —
    which may combine answers from up to five positions of the sequential run (each statement still reads a
    database of the sequential run: `prefix_databases`). -/
theorem read_results (cfg : Cfg) (procs : List PState) (db0 : Db) (sched : List Nat) (i : Nat) (r : Result)
    (hfin : (runSched cfg ⟨procs, db0⟩ sched).procs[i]? = some (.finished r)) :
    (∀ id, procs[i]? = some (Request.start (.info id)) →
      ∃ a b, sched = a ++ i :: b ∧
        r = match getInfo (dbAt cfg db0 (linOf cfg ⟨procs, db0⟩ sched) (linOf cfg ⟨procs, db0⟩ a).length) id with
            | .ok x => .row x
            | .error e => .raised e) ∧
    (∀ s u, procs[i]? = some (Request.start (.count (some s) u)) →
      ∃ a b, sched = a ++ i :: b ∧
        r = .nat (count (dbAt cfg db0 (linOf cfg ⟨procs, db0⟩ sched) (linOf cfg ⟨procs, db0⟩ a).length) (some s) u)) ∧
    (∀ id term thr now, procs[i]? = some (Request.start (.needs id term thr now)) →
      ∃ a b, sched = a ++ i :: b ∧
        r = match needsUploading (dbAt cfg db0 (linOf cfg ⟨procs, db0⟩ sched) (linOf cfg ⟨procs, db0⟩ a).length)
                  id term thr now with
            | .ok x => .bool x
            | .error e => .raised e) ∧
    (∀ id term, procs[i]? = some (Request.start (.uploadInfo id term)) →
      ∃ a b, sched = a ++ i :: b ∧
        r = .uinfo (getUploadInfo (dbAt cfg db0 (linOf cfg ⟨procs, db0⟩ sched) (linOf cfg ⟨procs, db0⟩ a).length)
              id term)) := by
  refine ⟨fun id hp => ?_, fun s u hp => ?_, fun id term thr now hp => ?_, fun id term hp => ?_⟩
  · refine single_read_at (cfg := cfg)
      (fun db => match getInfo db id with | .ok x => .row x | .error e => .raised e) ?_ rfl sched ⟨procs, db0⟩ i hp r hfin
    intro db
    simp only [Request.start, pstepT, pstep, pstepG, PState.wf, Bool.not_true, Bool.false_eq_true, ↓reduceIte]
    cases getInfo db id <;> rfl
  · refine single_read_at (cfg := cfg) (fun db => .nat (count db (some s) u)) ?_ rfl sched ⟨procs, db0⟩ i hp r hfin
    intro db
    simp [Request.start, pstepT, pstep, pstepG, PState.wf, totalOf, count]
  · refine single_read_at (cfg := cfg)
      (fun db => match needsUploading db id term thr now with | .ok x => .bool x | .error e => .raised e) ?_ rfl
      sched ⟨procs, db0⟩ i hp r hfin
    intro db
    simp only [Request.start, pstepT, pstep, pstepG, PState.wf, Bool.not_true, Bool.false_eq_true, ↓reduceIte]
    cases needsUploading db id term thr now <;> rfl
  · refine single_read_at (cfg := cfg) (fun db => .uinfo (getUploadInfo db id term)) ?_ rfl sched ⟨procs, db0⟩ i hp r hfin
    intro db
    simp [Request.start, pstepT, pstep, pstepG, PState.wf, totalOf]

/-- the repaired `needs_uploading` on the schedule of `prefix_needs_uploading_not_atomic` below: P0's one read
    block runs before P1's `mark_uploaded` and answers `False`, the sequential answer -/
example :
    let thr : Thresholds := { maxUploads := 1, maxBytes := 1000, maxTime := 1000 }
    let db0 : Db := { t3 := [⟨1, "a", 1⟩], uploads := [⟨1, "t", "a", 0, 10⟩] }
    ((runSched {} ⟨[Request.start (.needs 1 "t" thr 20), Request.start (.mark 1 "t" 0 30)], db0⟩ [0, 0, 1, 0]).procs.map
      fun p => match p with | .finished (.bool b) => some b | _ => none) = [some false, none] := by
  decide

/-! ## corollaries -/

/-- **`DbInv` holds after every step of every schedule** (per table unique keys — sqlite's PRIMARY KEY —,
    every row in its own space's table, unique `(id, terminal)` upload keys). -/
theorem inv_preserved {cfg : Cfg} {st : Sys} (hinv : DbInv st.db) (sched : List Nat) :
    DbInv (runSched cfg st sched).db :=
  runSched_inv hinv sched

/-- **Concurrent requests for one description end with ONE id.** Two `get_id` processes for the same
    `(description, space, subspace)` that both return ids return the same id, and afterwards exactly one row
    of the subspace carries the description (the list of such rows' ids is `[n₁]`) — provided the database
    satisfies `DbInv`, at most one id carried the description initially, and the run is `Undisturbed`: no
    operation *other than `get_id`s for this very key* changes the set of ids bound to the description in the
    subspace (no `del_id` / `set_id` of such a row, no clean-up or LRU recycling hitting it — e.g. the
    subspace is large enough that nothing is recycled). Other requests, for other descriptions, may
    interleave freely. -/
theorem same_description_single_id (cfg : Cfg) (procs : List PState) (db0 : Db) (sched : List Nat)
    (req : Req) {i j : Nat} (hij : i ≠ j) {nowi nowj : Nat} {chi chj : GetChoice}
    (hi : procs[i]? = some (Request.start (.get req nowi chi)))
    (hj : procs[j]? = some (Request.start (.get req nowj chj)))
    (hinv : DbInv db0) (hfresh : (dIds req db0).length ≤ 1)
    (hund : Undisturbed cfg req db0 (linOf cfg ⟨procs, db0⟩ sched))
    {ni nj : Nat} {oi oj : Outcome}
    (hfi : (runSched cfg ⟨procs, db0⟩ sched).procs[i]? = some (.finished (.got (.id ni) oi)))
    (hfj : (runSched cfg ⟨procs, db0⟩ sched).procs[j]? = some (.finished (.got (.id nj) oj))) :
    ni = nj ∧ dIds req (runSched cfg ⟨procs, db0⟩ sched).db = [ni] := by
  obtain ⟨ki, chi', hki, hs, hu, oi', hgi⟩ :=
    get_finished_entry cfg sched ⟨procs, db0⟩ i _ req nowi hi ⟨rfl, rfl⟩ ni oi hfi
  obtain ⟨kj, chj', hkj, _, _, oj', hgj⟩ :=
    get_finished_entry cfg sched ⟨procs, db0⟩ j _ req nowj hj ⟨rfl, rfl⟩ nj oj hfj
  rw [runSched_db_eq_run]
  have hne : ki ≠ kj := by
    intro h; subst h; rw [hki] at hkj; injection hkj with hkj; injection hkj with hp; exact hij hp
  rcases Nat.lt_or_gt_of_ne hne with hlt | hgt
  · exact two_gets_same hinv hund hfresh hlt hs hu hgi hgj
  · obtain ⟨h1, h2⟩ := two_gets_same hinv hund hfresh hgt hs hu hgj hgi
    exact ⟨h1.symm, h1 ▸ h2⟩

/-- **A fresh binding never overwrites an existing row.** Whenever a block of a `get_id(req)` process returns
    id `n` (at any moment of any schedule: `db` is the database of that moment):
    * on the `fresh` (enumerated free id) and `sampled` (rejection sampling) paths, `n` is bound to nothing in
      the space's table at that moment — so two descriptions never share an id while a free id is taken;
    * on the `hit` / `foundLate` paths `n` already carried the requested description;
    * the only path that rebinds an id bound to another description is `recycled v`, taken only when the
      enumerable subspace is full (row count ≥ size, or no enumerated id free), and then `v` is a least
      recently used row of the subspace. -/
theorem no_shared_id_while_free {cfg : Cfg} {req : Req} {now : Nat} {p : PState} {db db' : Db} {n : Nat} {out : Outcome}
    (hg : IsGet req now p) (hp : pstep cfg p db = .ok (.finished (.got (.id n) out), db')) :
    match out with
    | .fresh => (db.ids req.space).lookup n = none
    | .sampled _ => (db.ids req.space).lookup n = none
    | .hit => ∃ r ∈ db.ids req.space, r.id = n ∧ r.desc = req.desc ∧ req.space.sqlFilter req.sub n = true
    | .foundLate _ => ∃ r ∈ db.ids req.space, r.id = n ∧ r.desc = req.desc ∧ req.space.sqlFilter req.sub n = true
    | .recycled v =>
      v ∈ (db.ids req.space).inSub req.space req.sub ∧ v.id = n ∧
      (oldestIds ((db.ids req.space).inSub req.space req.sub)).contains n = true ∧
      (req.space.subspaceSize req.sub ≤ ((db.ids req.space).inSub req.space req.sub).length ∨
        ∀ i ∈ req.space.allIds req.sub, ∃ r ∈ (db.ids req.space).inSub req.space req.sub, r.id = i)
    | .exhausted _ => False :=
  get_step_binding hg hp

/-- **No constraint error, no `KeyError`.** The model has no constraint-violation error at all: sqlite's
    PRIMARY KEY corresponds to `DbInv.keys` / `DbInv.ukeys` (key uniqueness), which every write preserves by
    construction (`Table.upsert` = `INSERT … ON CONFLICT DO UPDATE` replaces the row of that key; the
    fresh/sampled paths insert unbound ids, `no_shared_id_while_free`). What remains: on a `DbInv` database
    a block can raise only because the supplied choice is not one the code/sqlite could have made
    (`badChoice` — not a behaviour of the code), or `ValueError` from `IDSpace.from_id` on an id argument
    outside `1 … 2^32-1` (`set_id` / `del_id` / `mark_uploaded` / `needs_uploading` / `get_info`). In particular
    `available_ids.remove` never raises `KeyError` and the internal `set_id` of `get_id` never raises. -/
theorem steps_total_on_inv {cfg : Cfg} {p : PState} {db : Db} {e : Err} (hinv : DbInv db)
    (h : pstep cfg p db = .error e) :
    (∃ why, e = .badChoice why) ∨ (e = .valueError ∧ ∃ id, p.idArg = some id ∧ fromId id = none) :=
  pstep_error hinv h

/-- progress: a process finishes within `remaining` (≤ 10) of its own blocks in any schedule -/
theorem finishes_in_own_steps (cfg : Cfg) (sched : List Nat) (st : Sys) (j : Nat) (p : PState)
    (hpj : st.procs[j]? = some p) (hcount : p.remaining ≤ sched.count j) :
    ∃ r, (runSched cfg st sched).procs[j]? = some (.finished r) :=
  finishes_within cfg sched st j p hpj hcount

/-! ## non-vacuity: two processes, one description, a large subspace, schedule `[0, 1, 0, 1]` -/

/-- `get_id("a", 32bit)` with one sampling candidate -/
def reqA : Req := ⟨⟨24, true⟩, Sub.full, "a"⟩
def procA (now cand : Nat) : PState := Request.start (.get reqA now { pick := 0x01000100, samples := [[cand]] })

/-- P0 looks up (miss), P1 looks up (miss), P0 samples `0x01000100` and inserts, P1's sampling block
    repeats the lookup, finds P0's row and returns the same id -/
example : (runSched {} ⟨[procA 5 0x01000100, procA 6 0x02000200], {}⟩ [0, 1, 0, 1]).db
    = { t2 := [⟨0x01000100, "a", 6⟩] } := by decide

example : ((runSched {} ⟨[procA 5 0x01000100, procA 6 0x02000200], {}⟩ [0, 1, 0, 1]).procs.map
      fun p => match p with | .finished (.got (.id n) _) => n | _ => 0)
    = [0x01000100, 0x01000100] := by decide

/-- its linearisation: two complete `get`s (P0's insert, then P1's — a hit in the sequential order) -/
example : ((linOf {} ⟨[procA 5 0x01000100, procA 6 0x02000200], {}⟩ [0, 1, 0, 1]).map fun e => (e.pid, e.own))
    = [(0, true), (1, true)] := by decide

/-- the hypotheses of `same_description_single_id` are satisfiable: this run is `Undisturbed` (its
    linearisation consists of `get_id`s for the one key), and the theorem yields the single bound id -/
example : dIds reqA (runSched {} ⟨[procA 5 0x01000100, procA 6 0x02000200], {}⟩ [0, 1, 0, 1]).db = [0x01000100] := by
  have hlin : linOf {} ⟨[procA 5 0x01000100, procA 6 0x02000200], {}⟩ [0, 1, 0, 1] =
      [⟨0, .get reqA 5 { pick := 0x01000100, samples := [[0x01000100]] }, true⟩,
       ⟨1, .get reqA 6 { pick := 0x01000100 }, true⟩] := by rfl
  have hund : Undisturbed {} reqA {} (linOf {} ⟨[procA 5 0x01000100, procA 6 0x02000200], {}⟩ [0, 1, 0, 1]) := by
    apply undisturbed_of_all_gets
    rw [hlin]
    intro e he
    simp only [List.mem_cons, List.not_mem_nil, or_false] at he
    rcases he with rfl | rfl <;> exact ⟨_, _, rfl⟩
  exact (same_description_single_id {} [procA 5 0x01000100, procA 6 0x02000200] {} [0, 1, 0, 1] reqA
    (i := 0) (j := 1) (by decide) rfl rfl inv_empty (by decide) hund
    (ni := 0x01000100) (nj := 0x01000100) (oi := .sampled []) (oj := .foundLate []) rfl rfl).2

/-! ## the pre-fix decompositions were not linearizable -/

/-- With the sampling block as it was before the fix (no repeated lookup inside the transaction), the same
    schedule `[0, 1, 0, 1]` gives the two requests for ONE description TWO different ids, and two rows carry
    the description — a result no one-at-a-time order of the two requests produces. -/
theorem prefix_two_ids_for_one_description :
    let fin := runSchedG (pstepG sampleBlockNoRecheck {}) ⟨[procA 5 0x01000100, procA 6 0x02000200], {}⟩ [0, 1, 0, 1]
    fin.db = { t2 := [⟨0x02000200, "a", 6⟩, ⟨0x01000100, "a", 5⟩] } ∧
    (fin.procs.map fun p => match p with | .finished (.got (.id n) _) => n | _ => 0) = [0x01000100, 0x02000200] := by
  decide

/-- **Pre-fix `needs_uploading` was not atomic** (three separate autocommit reads: `get_info`, the upload row,
    the count of newer uploads — the states `needsInfo / needsRow / needsAgo`). Id 1 is bound to "a" and was
    uploaded to terminal "t" at time 10. P0 asks `needs_uploading(1, "t")` (more than 1 upload ago ⇒ re-upload);
    P1 re-records the upload (`mark_uploaded(1, "t", time 30)`). Under the schedule `[0, 0, 1, 0]` P0 reads
    the assignment and the old upload row, P1 commits, and P0's third read (`COUNT … WHERE upload_time > 10`)
    counts the row P1 has just rewritten: P0 answers `True`. In both one-at-a-time orders the answer is
    `False`. Repaired in the code by reading everything in one transaction (`read_results`). -/
theorem prefix_needs_uploading_not_atomic :
    let thr : Thresholds := { maxUploads := 1, maxBytes := 1000, maxTime := 1000 }
    let db0 : Db := { t3 := [⟨1, "a", 1⟩], uploads := [⟨1, "t", "a", 0, 10⟩] }
    let p0 := PState.needsInfo 1 "t" thr 20
    let p1 := Request.start (.mark 1 "t" 0 30)
    ((runSched {} ⟨[p0, p1], db0⟩ [0, 0, 1, 0]).procs.map
      fun p => match p with | .finished (.bool b) => some b | _ => none) = [some true, none] ∧
    needsUploading db0 1 "t" thr 20 = .ok false ∧
    needsUploading (applyOp {} db0 (.mark 1 "t" 0 30)) 1 "t" thr 20 = .ok false := by
  refine ⟨by decide, by rfl, by rfl⟩

end Tup.C03
