import Tup.Lemmas.CmdFields
import Tup.Gen.Keys
/-!
  C06 — graphics commands serialise to well-formed escapes that decode to the same fields.

  Model: `Tup.Command` (`headerPairs`, `contentBytes`, `toBytes`); specification:
  `Tup.Spec.GfxParse` (`parse` — an independent parser of `ESC _ G k=v(,k=v)* [; base64] ESC \`,
  `fields` — the protocol's key table applied to a command value).  Quantified over every command
  of the four types: every subset of optional fields, every natural-number value, every enum
  member, every payload.
-/
namespace Tup.C06
open Tup Tup.Command Tup.Spec.GfxParse

/-- Tie of the model's tables to the repository (regenerated `Tup.Gen.Keys`): for every probe command
    (all fields set to distinct sentinels; every enum member) the model's header tuple — key letters,
    order, field→key assignment, value rendering — equals what the real classes returned. -/
theorem probes_match_repo :
    ∀ p ∈ Gen.Keys.probes, ((headerPairs p.1).map fun q => (q.1.toNat, q.2.render.map (·.toNat))) = p.2 := by
  decide +kernel

/-- Enum members (definition order) and their wire values agree with the repository. -/
theorem enums_match_repo :
    (Quietness.all.map fun m => (m, (natToDec m.value).map (·.toNat))) = Gen.Keys.enumQuietness ∧
    (Format.all.map fun m => (m, (natToDec m.value).map (·.toNat))) = Gen.Keys.enumFormat ∧
    (Medium.all.map fun m => (m, [m.value.toNat])) = Gen.Keys.enumMedium ∧
    (Compression.all.map fun m => (m, [m.value.toNat])) = Gen.Keys.enumCompression ∧
    (WhatToDelete.all.map fun m => (m, [m.value.toNat])) = Gen.Keys.enumWhatToDelete := by
  decide +kernel

/-- The default template of the model is `GraphicsCommand.DEFAULT_TEMPLATE`. -/
theorem default_template_matches_repo : (template 0).bytes.map (·.toNat) = Gen.Keys.defaultTemplate := by
  decide +kernel

/-- **parse ∘ toBytes.**  The independent parser accepts the emitted bytes and returns items that are
    a permutation of the protocol key table applied to the command (so every set field is present
    with its letter and value encoding and every unset field is absent), with pairwise distinct
    keys, and exactly the payload. -/
theorem parse_toBytes (c : GCmd) :
    ∃ items, parse (toBytes (template 0) c) = some (items, payload c) ∧
      items.Perm (fields c) ∧ (keys items).Nodup :=
  ⟨(headerPairs c).map rp, parse_toBytes_items c, fields_perm c, wire_keys_nodup c⟩

/-- The same before base64 decoding: the payload text is the encoder's output (absent for put/delete). -/
theorem parseRaw_toBytes (c : GCmd) :
    ∃ items, parseRaw (toBytes (template 0) c) = some (items, (encodedPayload c).getD []) ∧ items.Perm (fields c) :=
  ⟨(headerPairs c).map rp, Command.parseRaw_toBytes c, fields_perm c⟩

/-- A key is on the wire iff the key table puts it there (unset fields are absent, set fields present). -/
theorem key_on_wire_iff (c : GCmd) (items : List (UInt8 × Bytes)) (pl : Bytes)
    (h : parse (toBytes (template 0) c) = some (items, pl)) (k : UInt8) :
    k ∈ keys items ↔ k ∈ keys (fields c) := by
  rw [parse_toBytes_items] at h
  simp only [Option.some.injEq, Prod.mk.injEq] at h
  rw [← h.1]
  exact ((fields_perm c).map _).mem_iff

/-- The key table never repeats a key. -/
theorem spec_keys_nodup (c : GCmd) : (keys (fields c)).Nodup := fields_keys_nodup c

/-- Emitted bytes never contain ESC between the introducer and the terminator. -/
theorem content_no_esc (c : GCmd) : ESC ∉ contentBytes c := contentBytes_no_esc c

/-- Non-vacuity: a transmit-and-display command with a payload and its parse, computed. -/
example : parse (toBytes (template 0)
      (.transmit { imageId := some 5, medium := some .direct, data := [104, 105], placement := some { rows := some 2 } }))
    = some ([(105, [53]), (116, [100]), (97, [84]), (114, [50])], [104, 105]) := by decide +kernel

example : fields (.delete { what := some .imageOrPlacementById, deleteData := some true, imageId := some 7 })
    = [(97, [100]), (105, [55]), (100, [73])] := by decide +kernel

end Tup.C06
