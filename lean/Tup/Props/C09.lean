import Tup.Lemmas.Upload
/-!
  C09 — a failed or interrupted transmission is never recorded as uploaded.
  Model: `Tup.Model.Upload` (the upload is the straight-line program `sendCalls chunks` then `mark`).
  The correspondence check (harness/c09.py) ties the program shape — which calls are made, in which
  order, and where the bookkeeping step sits — to the real code by fault enumeration.
-/
namespace Tup.C09
open Tup

/-- Whatever escape codes are sent and wherever the fault strikes among the I/O calls of the
    transmission (exception or death, before or after the call took effect): the error reaches the
    caller with that kind and the upload is not marked. -/
theorem fault_no_mark (chunks : List Nat) (f : Fault) (h : f.at_ < (sendCalls chunks).length) :
    ∃ st, runUpload chunks (some f) = .error (f.kind, st) ∧ st.marked = false := by
  unfold runUpload uploadProgram
  obtain ⟨st', h1, h2, _, _⟩ := exec_fault_inside f (sendCalls chunks) [.mark] {} rfl (by simp) (by simpa using h)
  exact ⟨st', h1, h2⟩

/-- The number of completed I/O calls at the fault is the fault position (or one more when the
    faulting call took effect), so no later chunk was sent. -/
theorem fault_stops_there (chunks : List Nat) (f : Fault) (h : f.at_ < (sendCalls chunks).length) :
    ∃ st, runUpload chunks (some f) = .error (f.kind, st) ∧ f.at_ ≤ st.ioDone ∧ st.ioDone ≤ f.at_ + 1 := by
  unfold runUpload uploadProgram
  obtain ⟨st', h1, _, h3, h4⟩ := exec_fault_inside f (sendCalls chunks) [.mark] {} rfl (by simp) (by simpa using h)
  exact ⟨st', h1, h3, h4⟩

/-- Without a fault (or with one that would strike beyond the last call) the upload completes, is
    marked, and at that point every byte of every chunk has been written *and flushed*, the final
    flush included. -/
theorem no_fault_marks (chunks : List Nat) (fault : Option Fault)
    (h : ∀ f, fault = some f → (sendCalls chunks).length ≤ f.at_) :
    ∃ st, runUpload chunks fault = .ok st ∧ st.marked = true ∧
      st.ioDone = (sendCalls chunks).length ∧ st.bytes = totalBytes chunks ∧ st.flushedBytes = totalBytes chunks := by
  unfold runUpload uploadProgram
  rw [exec_no_fault fault (sendCalls chunks) [.mark] {} (by intro f hf; right; simpa using h f hf)]
  refine ⟨_, rfl, rfl, ?_, ?_, ?_⟩
  · simp [foldl_applyIO_ioDone]
  · have := (foldl_chunks_flushed chunks (applyIO {} .flush) rfl).2
    simpa [sendCalls, totalBytes, applyIO] using this
  · have := (foldl_chunks_flushed chunks (applyIO {} .flush) rfl).1
    simpa [sendCalls, totalBytes, applyIO] using this

/-- An upload is recorded only after the last byte of its last chunk has been written and flushed:
    in every outcome, marked implies all I/O calls completed and all bytes flushed. -/
theorem marked_only_after_last_flush (chunks : List Nat) (fault : Option Fault) :
    (∀ st, runUpload chunks fault = .ok st → st.marked = true →
        st.ioDone = (sendCalls chunks).length ∧ st.flushedBytes = totalBytes chunks) ∧
    (∀ e st, runUpload chunks fault = .error (e, st) → st.marked = false) := by
  by_cases hin : ∃ f, fault = some f ∧ f.at_ < (sendCalls chunks).length
  · obtain ⟨f, rfl, hlt⟩ := hin
    obtain ⟨st', h1, h2⟩ := fault_no_mark chunks f hlt
    constructor
    · intro st hst; rw [h1] at hst; cases hst
    · intro e st hst; rw [h1] at hst; cases hst; exact h2
  · have h : ∀ f, fault = some f → (sendCalls chunks).length ≤ f.at_ := by
      intro f hf
      exact Nat.le_of_not_lt (fun hc => hin ⟨f, hf, hc⟩)
    obtain ⟨st', h1, _, h3, _, h5⟩ := no_fault_marks chunks fault h
    constructor
    · intro st hst _; rw [h1] at hst; cases hst; exact ⟨h3, h5⟩
    · intro e st hst; rw [h1] at hst; cases hst

/-- In every outcome — completed, exception, or death at any call, before or after that call took
    effect — the stream never counts as flushed what it has not accepted: flushed bytes ≤ accepted
    bytes.  (Together with `marked_only_after_last_flush`: a recorded upload has *all* bytes flushed,
    an unrecorded one has at most the accepted prefix.) -/
theorem flushed_le_accepted (chunks : List Nat) (fault : Option Fault) :
    (outcomeState (runUpload chunks fault)).flushedBytes ≤ (outcomeState (runUpload chunks fault)).bytes := by
  unfold runUpload
  refine exec_preserves (fun st => st.flushedBytes ≤ st.bytes) ?_ ?_ fault _ {} (by simp)
  · intro st c h; cases c <;> simp [applyIO] <;> omega
  · intro st h; exact h

/-- The bookkeeping step is the only statement that sets the flag and it is last: in every outcome
    the number of completed I/O calls never exceeds the calls of the transmission. -/
theorem ioDone_le_calls (chunks : List Nat) (fault : Option Fault) :
    (outcomeState (runUpload chunks fault)).ioDone ≤ (sendCalls chunks).length := by
  by_cases hin : ∃ f, fault = some f ∧ f.at_ < (sendCalls chunks).length
  · obtain ⟨f, rfl, hlt⟩ := hin
    obtain ⟨st', h1, _, h3⟩ := fault_stops_there chunks f hlt
    rw [h1]; simp only [outcomeState]; omega
  · have h : ∀ f, fault = some f → (sendCalls chunks).length ≤ f.at_ := by
      intro f hf
      exact Nat.le_of_not_lt (fun hc => hin ⟨f, hf, hc⟩)
    obtain ⟨st', h1, _, h3, _⟩ := no_fault_marks chunks fault h
    rw [h1]; simp only [outcomeState]; omega

/-- `send` makes exactly one leading flush and a write+flush per escape code. -/
theorem io_call_count (chunks : List Nat) : (sendCalls chunks).length = 1 + 2 * chunks.length :=
  sendCalls_length chunks

-- non-vacuity: a 3-chunk inline upload has 7 I/O calls; a fault at each of them is covered
example : (sendCalls [100, 100, 50]).length = 7 := by decide
example : ∃ st, runUpload [100, 100, 50] (some ⟨6, .ioError, false⟩) = .error (.ioError, st) ∧ st.marked = false ∧ st.bytes = 250 :=
  ⟨_, rfl, rfl, rfl⟩

-- non-vacuity of the outcome invariants: a fault after a write took effect leaves 200 accepted, 100 flushed bytes
example : (outcomeState (runUpload [100, 100, 50] (some ⟨3, .died, true⟩))).bytes = 200 ∧
    (outcomeState (runUpload [100, 100, 50] (some ⟨3, .died, true⟩))).flushedBytes = 100 ∧
    (outcomeState (runUpload [100, 100, 50] (some ⟨3, .died, true⟩))).ioDone = 4 := by decide

end Tup.C09
