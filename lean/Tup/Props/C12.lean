import Tup.Lemmas.TxnCrash
import Tup.Lemmas.TxnCrashEx
import Tup.Lemmas.Schema
/-!
  C12 — a process killed mid-operation leaves the session database consistent and usable.

  Model: `Model/Txn.lean` (the one of C03). A process that dies simply never moves again; sqlite rolls back
  a block that was open (trusted: atomic commit / WAL recovery), the blocks it had committed stay. So
  "killed after `k` blocks, nobody else moving" is the schedule `replicate k i`
  (`crashDb cfg procs db i k`), and "killed at arbitrary points while others run" is just a schedule in
  which the dead process stops occurring.

  * `crash_atomic_<op>`    every operation except the large-subspace `get_id` is all-or-nothing at every
                           crash point (they are single blocks; reads change nothing);
  * `crash_atomic_partial` `get_id`: pre-state, or post-state, or — only in a non-enumerable subspace — the
                           pre-state after the first `n` of the request's own clean-up statements, each a
                           complete public `cleanup` (the all-or-nothing statement is FALSE there:
                           `crash_atomic_get_counterexample`; this is D15, a documented weakening);
  * `crash_inv`            `DbInv` in every crashed state: every stored id sits in its own space's table
                           (rows carry a description and a timestamp by construction of `Row`);
  * `others_proceed`       nobody waits for the dead: the state it was left in is irrelevant to everybody
                           else, and every other process finishes within its own ≤ 10 blocks.
  * `reopen_completes_schema`, `open_adds_only_schema`, `open_idempotent`, `open_after_creators_killed`
                           the DDL of `__init__` (`Model/Schema.lean`: 17 `CREATE … IF NOT EXISTS` statements in
                           autocommit mode; the statement list is K-compared with the traced first open of the real
                           code): whatever part of the schema a killed creator left, the next open completes it,
                           drops nothing, and ends with exactly the schema of an undisturbed first open.  The
                           two `PRAGMA`s (busy timeout, WAL) are sqlite's and not modelled.
-/
namespace Tup.C12
open Tup Tup.Txn Tup.TxnLemmas Tup.DbLemmas Tup.IdLemmas Tup.AllocLemmas Tup.Spec.AllocStep Tup.Schema

/-! ## all or nothing: the single-block operations -/

theorem crash_atomic_set (cfg : Cfg) {procs : List PState} (db : Db) {i : Nat} {id now : Nat} {d : String}
    (h : procs[i]? = some (Request.start (.set id d now))) (k : Nat) :
    crashDb cfg procs db i k = db ∨ crashDb cfg procs db i k = applyOp cfg db (.set id d now) := by
  rw [crashDb_eq_lone h]
  obtain ⟨r, hr⟩ := pstepT_set cfg id d now db
  exact lone_single hr k

theorem crash_atomic_del (cfg : Cfg) {procs : List PState} (db : Db) {i : Nat} {id : Nat}
    (h : procs[i]? = some (Request.start (.del id))) (k : Nat) :
    crashDb cfg procs db i k = db ∨ crashDb cfg procs db i k = applyOp cfg db (.del id) := by
  rw [crashDb_eq_lone h]
  obtain ⟨r, hr⟩ := pstepT_del cfg id db
  exact lone_single hr k

theorem crash_atomic_cleanup (cfg : Cfg) {procs : List PState} (db : Db) {i : Nat} {s : Space} {u : Sub} {m : Nat}
    {removed : List Nat} (h : procs[i]? = some (Request.start (.cleanup s u m removed))) (k : Nat) :
    crashDb cfg procs db i k = db ∨ crashDb cfg procs db i k = applyOp cfg db (.cleanup s u m removed) := by
  rw [crashDb_eq_lone h]
  obtain ⟨r, hr⟩ := pstepT_cleanup cfg s u m removed db
  exact lone_single hr k

/-- `mark_uploaded` (one `BEGIN IMMEDIATE` block since the D18 fix: description read and upload row written
    together) -/
theorem crash_atomic_mark (cfg : Cfg) {procs : List PState} (db : Db) {i : Nat} {id size time : Nat} {term : String}
    (h : procs[i]? = some (Request.start (.mark id term size time))) (k : Nat) :
    crashDb cfg procs db i k = db ∨ crashDb cfg procs db i k = applyOp cfg db (.mark id term size time) := by
  rw [crashDb_eq_lone h]
  obtain ⟨r, hr⟩ := pstepT_mark cfg id term size time db
  exact lone_single hr k

theorem crash_atomic_cleanupUploads (cfg : Cfg) {procs : List PState} (db : Db) {i : Nat} {n : Nat}
    {kept : List (Nat × String)} (h : procs[i]? = some (Request.start (.cleanupUploads n kept))) (k : Nat) :
    crashDb cfg procs db i k = db ∨ crashDb cfg procs db i k = applyOp cfg db (.cleanupUploads n kept) := by
  rw [crashDb_eq_lone h]
  obtain ⟨r, hr⟩ := pstepT_cleanupUploads cfg n kept db
  exact lone_single hr k

/-- the read-only calls (`needs_uploading`, `get_upload_info`, `get_info`, `count`) leave the database as it
    was wherever they are interrupted -/
theorem crash_atomic_reads (cfg : Cfg) {procs : List PState} (db : Db) {i : Nat} {p : PState}
    (h : procs[i]? = some p) (hr : isRead p = true) (k : Nat) : crashDb cfg procs db i k = db := by
  rw [crashDb_eq_lone h]
  exact lone_read hr db k

/-- `get_id` in an enumerable subspace is ONE block (lookup + allocation): all or nothing -/
theorem crash_atomic_get_enumerable (cfg : Cfg) {procs : List PState} (db : Db) {i : Nat} {req : Req} {now : Nat}
    {ch : GetChoice} (hs : req.space.valid = true) (hu : req.sub.valid = true)
    (henum : isEnumerable cfg req.space req.sub = true)
    (h : procs[i]? = some (Request.start (.get req now ch))) (k : Nat) :
    crashDb cfg procs db i k = db ∨ crashDb cfg procs db i k = applyOp cfg db (.get req now ch) := by
  rw [crashDb_eq_lone h]
  exact (crash_getLookup_enum hs hu henum now ch db k).symm

/-! ## `get_id` in a large subspace: all, nothing, or a prefix of its own clean-ups -/

/- The full statement
     `crashDb cfg procs db i k = db ∨ crashDb cfg procs db i k = applyOp cfg db (.get req now ch)`
   is FALSE for non-enumerable subspaces (`crash_atomic_get_counterexample` below): the internal clean-up
   statements of the sampling loop are autocommitted one by one. What holds: -/

/-- **Crash atomicity of `get_id`.** At every crash point the database is the pre-state, or the post-state
    of the complete operation, or — only for a non-enumerable subspace — the pre-state after the first `n`
    of the request's own clean-up statements (`ownCleanups`: complete public `cleanup` operations of
    `(space, subspace)` with the limits `min (int(size·frac)) max_ids` for `frac = 0.75, 0.6, 0.5`, applied
    by `run`), in particular `Cleanups space sub db ·`: nothing outside that subspace is touched and the
    description is still unbound. -/
theorem crash_atomic_partial (cfg : Cfg) {procs : List PState} (db : Db) {i : Nat} {req : Req} {now : Nat}
    {ch : GetChoice} (hs : req.space.valid = true) (hu : req.sub.valid = true)
    (h : procs[i]? = some (Request.start (.get req now ch))) (k : Nat) :
    crashDb cfg procs db i k = db ∨
    crashDb cfg procs db i k = applyOp cfg db (.get req now ch) ∨
    (isEnumerable cfg req.space req.sub = false ∧
      ∃ n, crashDb cfg procs db i k = run cfg ((ownCleanups cfg req ch).take n) db ∧
        Cleanups req.space req.sub db (crashDb cfg procs db i k)) := by
  rw [crashDb_eq_lone h]
  rcases crash_getLookup hs hu now ch db k with h1 | h2 | h3
  · exact Or.inr (Or.inl h1)
  · exact Or.inr (Or.inr h2)
  · exact Or.inl h3

/-- a request whose arguments `IDSpace(...)` / `IDSubspace(...)` reject never reaches the database -/
theorem crash_atomic_invalid (cfg : Cfg) {procs : List PState} (db : Db) {i : Nat} {p : PState}
    (h : procs[i]? = some p) (hwf : p.wf cfg = false) (k : Nat) : crashDb cfg procs db i k = db := by
  rw [crashDb_eq_lone h]
  have : pstepT cfg p db = (.finished .invalidArgs, db) := pstepT_ok (pstep_not_wf db hwf)
  rcases lone_single this k with h | h <;> exact h

/-- the partial effect is real: one row `X = 0x01000100` (description "x") in the 32-bit subspace `1:2`, all
    8 candidates of the first sampling round hit `X`, the first clean-up (`max_ids = 0`) removes it, the
    second round binds `Y = 0x01000200`. Killed after 3 blocks (lookup, sampling, clean-up) the database is
    EMPTY — neither the pre-state nor the post-state (`Y ↦ "a"`), but the pre-state after the first own
    clean-up; run to completion (5 blocks) it is the post-state. -/
theorem crash_atomic_get_counterexample :
    let procs := [Request.start (.get CrashEx.req1 9 CrashEx.ch1)]
    CrashEx.db1 = { t2 := [⟨0x01000100, "x", 1⟩] } ∧
    crashDb CrashEx.cfg0 procs CrashEx.db1 0 3 = {} ∧
    applyOp CrashEx.cfg0 CrashEx.db1 (.get CrashEx.req1 9 CrashEx.ch1) = { t2 := [⟨0x01000200, "a", 9⟩] } ∧
    crashDb CrashEx.cfg0 procs CrashEx.db1 0 5 = { t2 := [⟨0x01000200, "a", 9⟩] } ∧
    crashDb CrashEx.cfg0 procs CrashEx.db1 0 3 =
      run CrashEx.cfg0 ((ownCleanups CrashEx.cfg0 CrashEx.req1 CrashEx.ch1).take 1) CrashEx.db1 := by
  intro procs
  have h : procs[0]? = some (Request.start (.get CrashEx.req1 9 CrashEx.ch1)) := rfl
  refine ⟨rfl, ?_, CrashEx.post, ?_, ?_⟩
  · rw [crashDb_eq_lone h, CrashEx.l3]
  · rw [crashDb_eq_lone h, CrashEx.l5]; rfl
  · rw [crashDb_eq_lone h, CrashEx.l3, CrashEx.cleanups1]

/-! ## consistency of every crashed state -/

/-- **Every crashed state satisfies `DbInv`.** Any schedule — i.e. any set of processes dying at any block
    boundaries (or mid-block: rolled back) while the others go on — leaves a database with unique keys per
    table (PRIMARY KEY), unique `(id, terminal)` upload keys, and every stored id in its own space's table
    (each row carrying its description and timestamp: `Row` has no optional field). -/
theorem crash_inv {cfg : Cfg} {st : Sys} (hinv : DbInv st.db) (sched : List Nat) :
    DbInv (runSched cfg st sched).db ∧
    ∀ s ∈ Space.all, ∀ r ∈ (runSched cfg st sched).db.ids s, Spec.inSpace s r.id = true :=
  ⟨runSched_inv hinv sched, (runSched_inv hinv sched).space⟩

theorem crash_inv_point {cfg : Cfg} {procs : List PState} {db : Db} (hinv : DbInv db) (i k : Nat) :
    DbInv (crashDb cfg procs db i k) :=
  runSched_inv (st := ⟨procs, db⟩) hinv _

/-! ## nobody waits for the dead -/

/-- **The others proceed.** Process `i` is dead: it does not occur in `sched`. Then (1) the state `q` it was
    left in — whatever block it was about to run, whatever it had read — is irrelevant to the rest of the
    system: databases and all other processes' states are the same as if it were in any other state; and
    (2) every other process `j` finishes after at most `remaining` (≤ 10) of its own blocks, with a result
    that does not depend on `q`. In the model this is immediate from the shape of the system state — `Sys` is
    the process list plus the database, there is no lock component, `pstep` looks at the moving process and
    the database only, so no lock outlives a block. In the real system the write lock of a dying process is
    released by the operating system when its file descriptors close, and sqlite discards the uncommitted
    WAL frames; that is trusted, and observed by the crash enumeration of the check. -/
theorem others_proceed (cfg : Cfg) (procs : List PState) (db : Db) (sched : List Nat) (i : Nat) (hdead : i ∉ sched) :
    (∀ q, (runSched cfg ⟨procs.set i q, db⟩ sched).db = (runSched cfg ⟨procs, db⟩ sched).db ∧
          ∀ j, j ≠ i → (runSched cfg ⟨procs.set i q, db⟩ sched).procs[j]? = (runSched cfg ⟨procs, db⟩ sched).procs[j]?) ∧
    (∀ j p, j ≠ i → procs[j]? = some p → p.remaining ≤ sched.count j →
      ∃ r, ∀ q, (runSched cfg ⟨procs.set i q, db⟩ sched).procs[j]? = some (.finished r)) := by
  have h1 : ∀ q, (runSched cfg ⟨procs.set i q, db⟩ sched).db = (runSched cfg ⟨procs, db⟩ sched).db ∧
      ∀ j, j ≠ i → (runSched cfg ⟨procs.set i q, db⟩ sched).procs[j]? = (runSched cfg ⟨procs, db⟩ sched).procs[j]? := by
    intro q
    obtain ⟨a, b⟩ := dead_state_irrelevant cfg sched procs db i q hdead
    exact ⟨a, fun j hj => by rw [b, List.getElem?_set_ne (Ne.symm hj)]⟩
  refine ⟨h1, fun j p hj hp hc => ?_⟩
  obtain ⟨r, hr⟩ := finishes_within cfg sched ⟨procs, db⟩ j p hp hc
  exact ⟨r, fun q => by rw [(h1 q).2 j hj]; exact hr⟩

/-- non-vacuity: P0 dies after its lookup block (a miss in a large subspace); P1, asking for the same
    description, allocates without waiting and finishes with its id -/
example :
    let req : Req := ⟨⟨24, true⟩, Sub.full, "a"⟩
    let p0 := Request.start (.get req 5 { samples := [[0x01000100]] })
    let p1 := Request.start (.get req 6 { samples := [[0x02000200]] })
    (runSched {} ⟨[p0, p1], {}⟩ [0, 1, 1]).db = { t2 := [⟨0x02000200, "a", 6⟩] } ∧
    ((runSched {} ⟨[p0, p1], {}⟩ [0, 1, 1]).procs.map
      fun p => match p with | .finished (.got (.id n) _) => n | _ => 0) = [0, 0x02000200] := by
  decide

/-! ## the schema is completed by whoever opens the file next -/

/-- **reopen_completes_schema.**  Whatever schema objects a database holds — none, all, or the part its creator
    had created when it was killed —, after the DDL of `IDManager.__init__` every table and index the library's
    statements refer to exists. -/
theorem reopen_completes_schema (db : List Obj) : Complete (openDb db) :=
  fun _ ho => mem_foldl_of_mem_list stmts db ho

/-- … and opening adds nothing else and drops nothing (`CREATE … IF NOT EXISTS` only) -/
theorem open_adds_only_schema (db : List Obj) (p : Obj) : p ∈ openDb db ↔ p ∈ db ∨ p ∈ stmts :=
  mem_foldl_iff stmts db p

/-- opening a complete database changes nothing: every later open is a no-op on the schema -/
theorem open_idempotent (db : List Obj) : openDb (openDb db) = openDb db :=
  foldl_exec_of_all_mem stmts (openDb db) (reopen_completes_schema db)

/-- the creator killed before its DDL statement `k` (any `k`), then the next process killed before its statement
    `j` (any `j`), and so on for any number of victims: the first process that gets through leaves exactly the
    schema an undisturbed first open creates, in the same order. -/
theorem open_after_creators_killed (ks : List Nat) :
    openDb (ks.foldl (fun db k => (stmts.take k).foldl exec db) []) = openDb [] := by
  -- every intermediate state is a prefix of `stmts`
  have key : ∀ (n : Nat) (k : Nat), (stmts.take k).foldl exec (stmts.take n) = stmts.take (max n k) := by
    intro n k
    have : ∀ n ≤ 17, ∀ k ≤ 17, (stmts.take k).foldl exec (stmts.take n) = stmts.take (max n k) := by decide +kernel
    have hl : stmts.length = 17 := by decide +kernel
    have e1 : stmts.take n = stmts.take (min n 17) := by
      rcases Nat.le_total n 17 with h | h
      · rw [Nat.min_eq_left h]
      · rw [Nat.min_eq_right h, List.take_of_length_le (by omega), List.take_of_length_le (by omega)]
    have e2 : stmts.take k = stmts.take (min k 17) := by
      rcases Nat.le_total k 17 with h | h
      · rw [Nat.min_eq_left h]
      · rw [Nat.min_eq_right h, List.take_of_length_le (by omega), List.take_of_length_le (by omega)]
    have e3 : stmts.take (max n k) = stmts.take (max (min n 17) (min k 17)) := by
      rcases Nat.le_total (max n k) 17 with h | h
      · congr 1; omega
      · rw [List.take_of_length_le (by omega)]
        by_cases h2 : max (min n 17) (min k 17) = 17
        · rw [h2, List.take_of_length_le (by omega)]
        · omega
    rw [e1, e2, e3]
    exact this _ (Nat.min_le_right _ _) _ (Nat.min_le_right _ _)
  have pre : ∀ ks : List Nat, ∀ n, ∃ m, ks.foldl (fun db k => (stmts.take k).foldl exec db) (stmts.take n) = stmts.take m := by
    intro ks
    induction ks with
    | nil => intro n; exact ⟨n, rfl⟩
    | cons k ks ih => intro n; rw [List.foldl_cons, key]; exact ih _
  obtain ⟨m, hm⟩ := pre ks 0
  have h0 : (stmts.take 0) = [] := rfl
  rw [h0] at hm
  rw [hm]
  show stmts.foldl exec (stmts.take m) = stmts.foldl exec []
  have hl : stmts.length = 17 := by decide +kernel
  have h17 : stmts.take 17 = stmts := List.take_of_length_le (by omega)
  have a : stmts.foldl exec (stmts.take m) = stmts.take (max m 17) := by
    have := key m 17; rw [h17] at this; exact this
  have b : stmts.foldl exec [] = stmts.take (max 0 17) := by
    have := key 0 17; rw [h17] at this; exact this
  rw [a, b, List.take_of_length_le (by omega), List.take_of_length_le (by omega)]

/-- non-vacuity: the seventeen DDL statements, and a creator killed after the first table and its first index -/
example : stmts.length = 17 ∧ crashedAt 2 = [.table "ids_8bit_diacritic", .index "idx_ids_8bit_diacritic_path_parameters"] ∧
    ¬ Complete (crashedAt 2) := by
  refine ⟨by decide +kernel, by decide +kernel, ?_⟩
  intro h
  have := h (.table "upload") (by decide +kernel)
  revert this
  decide +kernel

end Tup.C12
