import Tup.Lemmas.CmdUnwrap
import Tup.Lemmas.CmdDetect
/-!
  C11 — tmux pass-through wrapping is exactly invertible; auto-detection rule.

  Model: `Tup.Command.template n` (mirrors `get_graphics_command_template`), `toBytes`,
  `detectTmux` and the two code sites; specification: `Tup.Spec.TmuxUnwrap` (`unwrap1`: strip
  `ESC P tmux;`, undouble `ESC ESC`, stop at the first single `ESC \`, reject a lone ESC).
  Quantified over every command value of the four types (hence every chunk of a split
  transmission), every number of layers and every environment.
-/
namespace Tup.C11
open Tup Tup.Command Tup.Spec.TmuxUnwrap

/-- Header and base64 bytes never contain ESC (so wrapping only ever doubles the framing ESCs). -/
theorem content_no_esc (c : GCmd) : ESC ∉ contentBytes c := contentBytes_no_esc c

/-- **unwrap ∘ wrap.**  Removing the `n` layers the way tmux does yields byte for byte the command
    emitted when no tmux is configured — for every command and every `n`. -/
theorem unwrap_wrap (n : Nat) (c : GCmd) : unwrapN n (toBytes (template n) c) = some (toBytes (template 0) c) :=
  unwrapN_toBytes n c

/-- Partial unwrapping: removing `k` of `m + k` layers gives the `m`-layer emission. -/
theorem unwrap_some_layers (m k : Nat) (c : GCmd) :
    unwrapN k (toBytes (template (m + k)) c) = some (toBytes (template m) c) := by
  induction k with
  | zero => rfl
  | succ j ih =>
    rw [show m + (j + 1) = (m + j) + 1 by omega, toBytes_template_succ, unwrapN_succ_wrapLayer, ih]

/-- **No lone ESC.**  With at least one layer the emission is `ESC P tmux; body ESC \` where every ESC of
    `body` is half of an `ESC ESC` pair — and so is every intermediate layer reached by unwrapping. -/
theorem no_lone_esc (m k : Nat) (c : GCmd) :
    ∃ inner, unwrapN k (toBytes (template (m + 1 + k)) c) = some inner ∧ wellWrapped inner = true := by
  refine ⟨toBytes (template (m + 1)) c, unwrap_some_layers (m + 1) k c, ?_⟩
  rw [toBytes_template_succ]
  exact wellWrapped_wrapLayer _

/-- One wrapper of the shape the library builds, around *any* bytes, is removed exactly by `unwrap1`. -/
theorem unwrap1_wrap (xs : Bytes) : unwrap1 (tmuxPre ++ escDouble xs ++ stTerm) = some xs := unwrap1_wrapLayer xs

/-- The template of `n` layers as a byte string nests as the code builds it:
    `b"\033Ptmux;%b\033\\" % template.replace(b"\033", b"\033\033")`. -/
theorem template_succ_bytes (n : Nat) :
    (template (n + 1)).bytes = tmuxPre ++ escDouble (template n).bytes ++ stTerm := by
  simp [template, Template.bytes, escDouble_append, escDouble, ESC]

/-- **Detection rule** (both code sites share the predicate): tmux is assumed iff `TMUX` is set and
    non-empty and `TERM` contains "screen" or "tmux" (`TERM` unset counts as empty). -/
theorem detect_iff (e : Env) :
    detectTmux e = true ↔
      (∃ v, e.tmux = some v ∧ v ≠ []) ∧ (sScreen <:+: e.term.getD [] ∨ sTmux <:+: e.term.getD []) :=
  detectTmux_iff e

/-- `GraphicsTerminal.detect_tmux`: layers end up positive exactly under the rule, keeping a larger
    configured count; otherwise 0. -/
theorem detect_site_terminal (cur : Nat) (e : Env) :
    (0 < detectSiteTerminal cur e ↔ detectTmux e = true) ∧
    (detectTmux e = true → detectSiteTerminal cur e = max 1 cur) ∧
    (detectTmux e = false → detectSiteTerminal cur e = 0) := by
  unfold detectSiteTerminal
  cases detectTmux e <;> simp <;> omega

/-- `TupimageTerminal.__init__`: `"auto"` becomes 1 exactly under the rule and 0 otherwise; an explicit
    number is kept. -/
theorem detect_site_config (cfg : Option Nat) (e : Env) :
    (cfg = none → detectSiteConfig cfg e = if detectTmux e then 1 else 0) ∧
    (∀ k, cfg = some k → detectSiteConfig cfg e = k) := by
  constructor
  · rintro rfl; rfl
  · rintro k rfl; rfl

/-- The executable rule used by the failing-input search is the same predicate. -/
theorem detectSpec_agrees (e : Env) : detectSpec e.tmux e.term = detectTmux e := by
  have h : detectSpec e.tmux e.term = true ↔ detectTmux e = true := (detectSpec_iff e.tmux e.term).trans (detectTmux_iff e).symm
  cases hs : detectSpec e.tmux e.term <;> cases hd : detectTmux e <;> simp [hs, hd] at h ⊢

/-- Non-vacuity: two layers around a small command, and their removal, computed. -/
example : unwrapN 2 (toBytes (template 2) (.put { imageId := some 1 })) = some [27, 95, 71, 97, 61, 112, 44, 105, 61, 49, 27, 92] := by
  decide +kernel

example : detectTmux ⟨some [120], some [120, 116, 109, 117, 120]⟩ = true ∧ detectTmux ⟨some [], some sTmux⟩ = false ∧
    detectTmux ⟨none, some sScreen⟩ = false ∧ detectTmux ⟨some [120], none⟩ = false := by decide

end Tup.C11
