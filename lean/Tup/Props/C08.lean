import Tup.Lemmas.DisplayCheck
import Tup.Lemmas.RetentionSound
/-!
  C08 — after upload-and-display the terminal shows the requested image.

  Model: `Model.Display` — the display path of `TupimageTerminal` (`assign_id`/`get_id`, the re-bind of an
  `ImageInstance`, `needs_uploading`, `_upload` with method and medium resolution, `mark_uploaded`, print) as
  a state machine over `Model.Db`, a clock, and per terminal the ghost arrival log of what that terminal
  really received. Requests run one at a time; between them the clock may advance and any user of the
  database may allocate, force-bind, delete, clean up ids and clean up the upload table.
  Specification: `Spec.Store` — the *adversarial conforming terminal*, which forgets an image the moment the
  retention assumption (thresholds) no longer obliges it to keep it; `Spec.printOk` judges a print.

  Proof shape (`Lemmas/DisplayInv.lean`): the invariant `Rel` between upload table and logs — every record is
  the latest arrival of its id at its terminal, and every image that arrived later still has its record
  (an upload-table clean-up drops oldest first, so the table never under-counts what came after a surviving
  record). Hence `needs_uploading = False` ⇒ the terminal still holds the bound description
  (`not_needed_means_held`: the simulation half of C04 that `Props/C04.lean` left open), and after
  transmit + mark the newest arrival is trivially held.

  Hypotheses kept visible:
  * `StrictTimes` — the clock strictly increases between two registered uploads to one terminal (D16;
    `strict_times_needed` is the tie witness at this level);
  * `0 < maxUploads` — a terminal assumed to retain *no* upload can show nothing (`positive_quota_needed`).
  The re-bind of a stale `ImageInstance` (repair of D14) is necessary: `stale_instance_needs_rebind`.
-/
namespace Tup.C08
open Tup Tup.Display

/-- **C08.** For every history of requests (`upload_and_display` of a file / in-memory image / forced id /
    `ImageInstance`, `upload` alone, any upload method, forced or not) and environment steps (clock ticks,
    `get_id`, `set_id`, `del_id`, `cleanup`, `cleanup_uploads` by anybody) from the empty database and empty
    logs, on any number of terminals, for every `max_ids` configuration, every threshold triple per terminal
    (with a positive upload count), every admissible choice of the allocator and of sqlite, under
    `StrictTimes`: at every placeholder print `(T, x, d)` the adversarial conforming terminal `T` holds,
    under the printed id `x`, a complete transmission of the requested content `d.token` whose virtual
    placement has the printed `d.rows × d.cols`. -/
theorem display_shows_requested (cfg : Cfg) (thr : String → Thresholds) (hpos : ∀ T, 0 < (thr T).maxUploads)
    (steps : List Step) (hstrict : StrictTimes (Display.run cfg thr true State.init steps)) :
    ∀ s T x d, (s, Event.print T x d) ∈ trace cfg thr true State.init steps →
      Spec.printOk (specThr (thr T)) (s.logs T) x d.token d.rows d.cols s.now = true :=
  trace_ok hpos steps State.init (good_init cfg) hstrict

/-- the same in executable form: every verdict of the specification along the history is `true` -/
theorem all_verdicts_true (cfg : Cfg) (thr : String → Thresholds) (hpos : ∀ T, 0 < (thr T).maxUploads)
    (steps : List Step) (hstrict : StrictTimes (Display.run cfg thr true State.init steps)) :
    ∀ b ∈ verdicts thr (trace cfg thr true State.init steps), b = true :=
  verdicts_true (display_shows_requested cfg thr hpos steps hstrict)

/-- **Soundness of `needs_uploading` over histories** (C04's `needsUploading_sound`, here against the
    `Spec.Store` terminal): in the state after any history, for any terminal, thresholds, id `x` bound to
    a description `d`: if `needs_uploading` says no, the terminal still holds `d` under `x`. -/
theorem not_needed_means_held (cfg : Cfg) (thr : String → Thresholds)
    (steps : List Step) (hstrict : StrictTimes (Display.run cfg thr true State.init steps))
    (T : String) (t : Thresholds) (x : Nat) (info : Row) (d : Desc) :
    let s := Display.run cfg thr true State.init steps
    getInfo s.db x = .ok (some info) → info.desc = d.str →
    needsUploading s.db x T t s.now = .ok false →
    Spec.printOk (specThr t) (s.logs T) x d.token d.rows d.cols s.now = true := by
  intro s hinfo hdesc hneeds
  exact held_of_not_needs (run_good steps State.init (good_init cfg) hstrict).rel (hstrict T) hinfo hdesc hneeds

/-! ### the two retention specifications (`Spec.Retention` of C04, `Spec.Store` of C08)

  `retLog` forgets an arrival at the `Spec.Store` terminal `(id, token, rows, cols, size, time)` into the
  arrival C04's ghost log records, `(id, description string, size, time)`. -/

/-- **The two retention specifications agree** wherever `Spec.Retention` says "still there": on the same
    history of arrivals, an image that C04's specification guarantees to be retained is retained by the
    adversarial terminal of C08 (same count of later images — one per id, its latest copy —, same byte sum,
    same age bound). -/
theorem retention_specs_agree (t : Thresholds) (L : List Spec.Arrival) (x now : Nat)
    (h : Spec.Retention.stillThere t (retLog L) x now = true) : Spec.retained (specThr t) L x now = true := by
  obtain ⟨a, hl, hn, hb, ht⟩ := (stillThere_iff t L x now).1 h
  exact (retained_iff t L x now).2 ⟨a, hl, hn, Or.inr hb, ht⟩

/-- … and they differ in exactly one clause, which `Spec.Store` adds on purpose: the byte quota never evicts
    the image that arrived last. `retained` holds iff `stillThere` holds, or nothing has arrived since `x`
    did (and the count and age bounds hold) — i.e. the only disagreement is a newest image that alone
    exceeds `maxBytes`. -/
theorem retention_specs_differ_only_on_oversized_newest (t : Thresholds) (L : List Spec.Arrival) (x now : Nat) :
    Spec.retained (specThr t) L x now = true ↔
      Spec.Retention.stillThere t (retLog L) x now = true ∨
      ∃ a, Spec.latestFor L x = some a ∧ Spec.laterLatest L x = [] ∧ 0 < t.maxUploads ∧
        now ≤ a.time + t.maxTime := by
  rw [retained_iff, stillThere_iff]
  constructor
  · rintro ⟨a, hl, hn, hb | hb, ht⟩
    · exact Or.inr ⟨a, hl, hb, by rw [hb] at hn; exact hn, ht⟩
    · exact Or.inl ⟨a, hl, hn, hb, ht⟩
  · rintro (⟨a, hl, hn, hb, ht⟩ | ⟨a, hl, he, hn, ht⟩)
    · exact ⟨a, hl, hn, Or.inr hb, ht⟩
    · exact ⟨a, hl, by rw [he]; exact hn, Or.inl he, ht⟩

/-- the D16 hypothesis of C08 (`StrictTimes`) is the D16 hypothesis of C04 (`strictlyIncreasing` of every
    terminal's ghost log) -/
theorem strictTimes_iff_strictlyIncreasing (s : State) :
    StrictTimes s ↔ ∀ T, Spec.Retention.strictlyIncreasing (retLog (s.logs T)) = true :=
  forall_congr' fun T => (strictlyIncreasing_retLog (s.logs T)).symm

/-- **C04's `needsUploading_sound` at full strength**, against C04's own specification `Spec.Retention`:
    in the state after any history (requests on any number of terminals, allocations, forced bindings,
    deletions, id and upload-table clean-ups, clock ticks), for any terminal `T`, threshold triple `t` and
    id `x` that is bound: if `needs_uploading(x, T)` says no, then the latest arrival of `x` in `T`'s ghost
    log carries the description now bound to `x` and is `stillThere` (`holdsCurrent`). Hypothesis: upload
    times strictly increase per terminal (D16; `C04.tie_witness`, `strict_times_needed`). -/
theorem needsUploading_sound (cfg : Cfg) (thr : String → Thresholds)
    (steps : List Step) (hstrict : StrictTimes (Display.run cfg thr true State.init steps))
    (T : String) (t : Thresholds) (x : Nat) (info : Row) :
    let s := Display.run cfg thr true State.init steps
    getInfo s.db x = .ok (some info) →
    needsUploading s.db x T t s.now = .ok false →
    Spec.Retention.holdsCurrent t (retLog (s.logs T)) x info.desc s.now = true := by
  intro s hinfo hneeds
  exact holdsCurrent_of_not_needs (run_good steps State.init (good_init cfg) hstrict).rel (hstrict T) hinfo hneeds

/-- **C04's `needsUploading_complete`**, against `Spec.Retention`: in the state after any history, if the
    record of `(x, T)` is present (it survived every upload-table clean-up), `x` is bound, and C04's
    specification says `T` holds the bound description (`holdsCurrent`), then `needs_uploading(x, T)` says
    no — no superfluous re-upload. (The invariant is established under `StrictTimes`; the comparison itself
    only uses that times do not decrease.) -/
theorem needsUploading_complete (cfg : Cfg) (thr : String → Thresholds)
    (steps : List Step) (hstrict : StrictTimes (Display.run cfg thr true State.init steps))
    (T : String) (t : Thresholds) (x : Nat) (info : Row) (row : URow) :
    let s := Display.run cfg thr true State.init steps
    getInfo s.db x = .ok (some info) → uploadRow s.db x T = some row →
    Spec.Retention.holdsCurrent t (retLog (s.logs T)) x info.desc s.now = true →
    needsUploading s.db x T t s.now = .ok false := by
  intro s hinfo hrow hold
  have hg := run_good steps State.init (good_init cfg) hstrict
  exact not_needs_of_holdsCurrent hg.rel (C01.reachable_inv hg.reach).ukeys (nonDecreasing_of_strict (hstrict T))
    hinfo hrow hold

/-- the single disagreement of the two specifications is real: one image larger than the byte quota, nothing
    after it — `Spec.Store` keeps it (a terminal holds what it has just received), `Spec.Retention` does not
    (and `needs_uploading` then asks for the re-upload, which C04 judges correct) -/
example :
    Spec.retained (specThr { maxBytes := 50 }) [⟨1, "a", 1, 1, 100, 10⟩] 1 10 = true ∧
    Spec.Retention.stillThere { maxBytes := 50 } (retLog [⟨1, "a", 1, 1, 100, 10⟩]) 1 10 = false := by
  refine ⟨by decide, by decide⟩

/-- the database of the display machine is always one the library can produce, so every theorem of
    C01/C02 about reachable databases (ids in the requested subspace, stable, LRU recycling) applies to
    the ids printed here -/
theorem history_reachable (cfg : Cfg) (thr : String → Thresholds) (steps : List Step) :
    Reachable cfg (Display.run cfg thr true State.init steps).db :=
  run_reach steps State.init ⟨[], rfl⟩

/-- the description stored in the database determines content token and geometry (the model's rendering
    is injective; for the real `json.dumps` rendering this is the recorded assumption) -/
theorem description_injective (d e : Desc) (h : d.str = e.str) : d = e := Desc.str_injective h

/-- **Medium policy** of one `_upload`: a file is announced by name (`f`, `t`) only if the resolved method
    is `file`; the delete-after-reading medium `t` only for a file the library made itself — never for the
    user's own file; and the automatic method sends inline whenever an SSH session is detected. -/
theorem medium_policy (v : Via) (sent : Sent) (h : uploadVia v = some sent) :
    ((sent.medium = .f ∨ sent.medium = .t) → resolveMethod v.method v.insideSsh = some .file) ∧
    (sent.medium = .t → sent.libraryMade = true) ∧
    (v.src.asIs = true → sent.medium ≠ .t) ∧
    (v.method = .auto → v.insideSsh = true → sent.medium = .d) := by
  obtain ⟨m, ssh, src⟩ := v
  unfold uploadVia at h
  simp only [] at h
  cases hm : resolveMethod m ssh with
  | none => rw [hm] at h; cases h
  | some meth =>
    rw [hm] at h
    simp only [] at h
    split at h
    · cases h
    · injection h with h; subst h
      cases meth <;> cases ha : src.asIs <;> cases m <;> cases ssh <;>
        simp_all [mediumFor, resolveMethod]

/-- … and every transmission of every history (whatever the requests) obeys it -/
theorem medium_policy_history (cfg : Cfg) (thr : String → Thresholds) (rebind : Bool) (steps : List Step)
    (s : State) (T : String) (x : Nat) (v : Via) (sent : Sent)
    (h : (s, Event.transmit T x v sent) ∈ trace cfg thr rebind State.init steps) :
    ((sent.medium = .f ∨ sent.medium = .t) → resolveMethod v.method v.insideSsh = some .file) ∧
    (sent.medium = .t → sent.libraryMade = true) ∧
    (v.src.asIs = true → sent.medium ≠ .t) ∧
    (v.method = .auto → v.insideSsh = true → sent.medium = .d) :=
  medium_policy v sent (trace_transmit steps _ s T x v sent h)

/-! ### witnesses: none of the hypotheses / repairs can be dropped -/

def cat : Desc := ⟨"cat", 2, 3⟩
def dog : Desc := ⟨"dog", 1, 4⟩
def owl : Desc := ⟨"owl", 5, 5⟩
def thrDefault : String → Thresholds := fun _ => {}
def sp8 : Space := ⟨8, false⟩        -- ids_8bit
def two : Sub := ⟨5, 7⟩              -- ids 5 and 6 only: forces recycling

/-- image `cat` is displayed under the only id of a one-id subspace, the id is recycled for `dog`, then
    the *stale* instance of `cat` (id 5) is displayed again -/
def staleHistory : List Step := [
  .req (display "T" cat sp8 ⟨5, 6⟩ { pick := 5 } 100),
  .env (.tick 1),
  .req (display "T" dog sp8 ⟨5, 6⟩ { pick := 5 } 70),
  .env (.tick 1),
  .req (displayInstance "T" 5 cat 100)]

/-- **D14 (repaired in /repo).** Without the re-bind step of `upload(ImageInstance)` the property is
    false: on a history that satisfies every hypothesis, the last print shows `dog` where `cat` was
    requested (`needs_uploading` compares the record with the database's binding, both say `dog`).
    With the re-bind the same history is judged correct. -/
theorem stale_instance_needs_rebind :
    StrictTimes (Display.run {} thrDefault false State.init staleHistory) ∧
    verdicts thrDefault (trace {} thrDefault false State.init staleHistory) = [true, true, false] ∧
    transmitted (trace {} thrDefault false State.init staleHistory) = [("T", 5, .f), ("T", 5, .f)] ∧
    verdicts thrDefault (trace {} thrDefault true State.init staleHistory) = [true, true, true] ∧
    transmitted (trace {} thrDefault true State.init staleHistory) = [("T", 5, .f), ("T", 5, .f), ("T", 5, .f)] := by
  refine ⟨strictTimes_of_check (by decide), by decide, by decide, by decide, by decide⟩

def thrOne : String → Thresholds := fun _ => { maxUploads := 1 }

/-- two images go to one terminal at the *same* clock value, then the first is displayed again -/
def tieHistory : List Step := [
  .req { term := "T", target := .forced 1, desc := cat, size := 10 },
  .req { term := "T", target := .forced 2, desc := dog, size := 10 },
  .req (displayInstance "T" 1 cat 10)]

/-- **D16 at the display level.** `StrictTimes` cannot be dropped: with `max_uploads_ago = 1` and two
    uploads registered with the same timestamp, the table does not count the second one, the library
    prints the first image without re-uploading it, and the adversarial terminal has dropped it. -/
theorem strict_times_needed :
    (termsOf tieHistory).all (fun T => strictB ((Display.run {} thrOne true State.init tieHistory).logs T)) = false ∧
    verdicts thrOne (trace {} thrOne true State.init tieHistory) = [true, true, false] ∧
    (transmitted (trace {} thrOne true State.init tieHistory)).length = 2 := by
  refine ⟨by decide, by decide, by decide⟩

/-- with a tick between the two uploads the library re-uploads and all three prints are judged correct -/
theorem strict_times_suffices_there :
    let h : List Step := [tieHistory[0], .env (.tick 1), tieHistory[1], .env (.tick 1), tieHistory[2]]
    StrictTimes (Display.run {} thrOne true State.init h) ∧
    verdicts thrOne (trace {} thrOne true State.init h) = [true, true, true] ∧
    (transmitted (trace {} thrOne true State.init h)).length = 3 := by
  refine ⟨strictTimes_of_check (by decide), by decide, by decide⟩

/-- `0 < maxUploads` cannot be dropped: a terminal that is assumed to retain no upload at all does not
    even hold the image it has just received -/
theorem positive_quota_needed :
    let thr : String → Thresholds := fun _ => { maxUploads := 0 }
    let h : List Step := [.req { term := "T", target := .forced 1, desc := cat, size := 10 }]
    StrictTimes (Display.run {} thr true State.init h) ∧
    transmitted (trace {} thr true State.init h) = [("T", 1, .f)] ∧
    verdicts thr (trace {} thr true State.init h) = [false] := by
  refine ⟨strictTimes_of_check (by decide), by decide, by decide⟩

/-! ### non-vacuity -/

/-- two terminals, a two-id subspace, three images: fresh ids, a hit on the other terminal, a print from
    retention (no re-upload, one other image in between), LRU recycling, a stale instance re-bound, an
    upload-table clean-up that drops the oldest record, and the re-upload it causes -/
def demoHistory : List Step := [
  .req (display "A" cat sp8 two { pick := 5 } 100),
  .env (.tick 1),
  .req (display "A" dog sp8 two { pick := 6 } 70),
  .env (.tick 1),
  .req (display "B" cat sp8 two { pick := 5 } 100),
  .env (.tick 1),
  .req (display "A" cat sp8 two { pick := 5 } 100),
  .env (.tick 1),
  .req (display "A" owl sp8 two { pick := 6 } 55),
  .env (.tick 1),
  .req (displayInstance "A" 6 dog 70),
  .env (.cleanupUploads 2 [(6, "A"), (5, "B")]),
  .env (.tick 1),
  .req { display "A" cat sp8 two { pick := 5 } 100 with via := { method := .direct } }]

/-- The hypotheses of `display_shows_requested` are satisfiable by a history in which every request
    prints (all choices admissible), ids are recycled, two terminals share the database, one print is
    served from retention and the upload table is cleaned up; the theorem's conclusion is observed. -/
example :
    (∀ T, 0 < (thrDefault T).maxUploads) ∧
    StrictTimes (Display.run {} thrDefault true State.init demoHistory) ∧
    printed (trace {} thrDefault true State.init demoHistory) =
      [("A", 5), ("A", 6), ("B", 5), ("A", 5), ("A", 6), ("A", 6), ("A", 5)] ∧
    transmitted (trace {} thrDefault true State.init demoHistory) =
      [("A", 5, .f), ("A", 6, .f), ("B", 5, .f), ("A", 6, .f), ("A", 6, .f), ("A", 5, .d)] ∧
    verdicts thrDefault (trace {} thrDefault true State.init demoHistory) =
      [true, true, true, true, true, true, true] := by
  refine ⟨fun _ => by simp [thrDefault], strictTimes_of_check (by decide), by decide, by decide, by decide⟩

end Tup.C08
