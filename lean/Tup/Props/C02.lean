import Tup.Lemmas.AllocFrame
import Tup.Lemmas.DbMerge
import Tup.Props.C01
/-!
  C02 — ID assignments are stable and recycled only least-recently-used first.

  Model: `Model.Alloc` over `Model.Db`; specification: the step predicates of `Spec/AllocStep.lean`
  (`HitStep`, `Binds`, `FreshStep`, `LruStep`, `Frame`, … — written from the property text, membership by
  `Spec.Layout.member`, databases compared extensionally through `lookup`). Every theorem is about an
  arbitrary *reachable* database (`Reachable`: any history of public operations from the empty database,
  any clock values, any admissible choices) and an arbitrary admissible choice of the step itself (ties on
  `atime`, which matching row sqlite returns first, which free id `secrets.choice` picked, which candidates
  were sampled, which rows a clean-up deleted).
-/
namespace Tup.C02
open Tup Tup.DbLemmas Tup.IdLemmas Tup.AllocLemmas Tup.Spec.AllocStep

/-- **Stable.** A request for a description that already holds an id in the subspace returns such an
    id, sets that row's recency to `now`, and changes no other row of the table. -/
theorem getId_hit {cfg : Cfg} {db db' : Db} {req : Req} {now id : Nat} {ch : GetChoice}
    (hr : Reachable cfg db) (hs : req.space ∈ Space.all) (hu : req.sub.valid = true)
    (h : getId cfg db req now ch = .ok (db', .id id, .hit)) :
    HitStep db db' req.space req.sub req.desc now id := by
  have hinv := C01.reachable_inv hr
  cases getId_spec h with
  | block hb =>
    cases hb with
    | hit r hrt hd hf hid hdb =>
      subst hdb
      have hl : (db.ids req.space).lookup ch.pick = some r := by
        rw [← hid]; exact lookup_of_mem (hinv.keys _ hs) hrt
      refine ⟨⟨r, ⟨hrt, member_of_row hinv hs hu hrt hf⟩, hd, hid⟩, ?_, ?_⟩
      · intro id' hne
        rw [ids_setIds_same, lookup_setAtime]
        cases hl' : (db.ids req.space).lookup id' with
        | none => rfl
        | some r' =>
          have : r'.id ≠ ch.pick := by rw [(lookup_eq_some hl').2]; exact hne
          simp [this]
      · rw [ids_setIds_same, lookup_setAtime, hl]
        simp only [Option.map_some, hid, ↓reduceIte]
        rw [← hd, ← hid]

/-- a request whose description has an id in the subspace is always answered from that assignment:
    the outcome is `hit` (never a fresh id, a recycle or a clean-up) -/
theorem getId_hit_of_present {cfg : Cfg} {db db' : Db} {req : Req} {now : Nat} {ch : GetChoice} {res : GetRes}
    {out : Outcome} {r : Row} (hr : r ∈ db.ids req.space) (hd : r.desc = req.desc)
    (hf : req.space.sqlFilter req.sub r.id = true)
    (h : getId cfg db req now ch = .ok (db', res, out)) : out = .hit := by
  have hne : (db.ids req.space).byDesc req.space req.sub req.desc ≠ [] := by
    intro e
    have : r ∈ (db.ids req.space).byDesc req.space req.sub req.desc := by
      unfold Table.byDesc; exact List.mem_filter.2 ⟨hr, by simp [hd, hf]⟩
    rw [e] at this; cases this
  cases getId_spec h with
  | block hb =>
    cases hb with
    | hit => rfl
    | recycled v hmiss => exact absurd hmiss hne
    | fresh hmiss => exact absurd hmiss hne
  | sampled hmiss => exact absurd hmiss hne
  | exhausted hmiss => exact absurd hmiss hne

/-- **Binds.** The id returned for any request maps back to exactly the requested description
    (with recency `now`). -/
theorem getId_binds {cfg : Cfg} {db db' : Db} {req : Req} {now id : Nat} {ch : GetChoice} {out : Outcome}
    (hr : Reachable cfg db) (hs : req.space ∈ Space.all) (hu : req.sub.valid = true)
    (h : getId cfg db req now ch = .ok (db', .id id, out)) :
    Binds db' req.space id req.desc now := by
  have hinv := C01.reachable_inv hr
  have hm := C01.getId_member_of_inv hinv hs hu h
  unfold Binds
  cases getId_spec h with
  | block hb =>
    cases hb with
    | hit => exact (getId_hit hr hs hu h).2.2
    | recycled v hmiss henum hv hid hold hwhy hset =>
      rw [setId_of_inSpace hs (inSpace_of_member hm) hset, ids_setIds_same, lookup_upsert]; simp
    | fresh hmiss henum hcount hall hfree hset =>
      rw [setId_of_inSpace hs (inSpace_of_member hm) hset, ids_setIds_same, lookup_upsert]; simp
  | sampled hmiss henum hcl hmem hfree hset =>
    rw [setId_of_inSpace hs (inSpace_of_member hm) hset, ids_setIds_same, lookup_upsert]; simp

/-- **Frame.** Whatever `get_id` does (including its internal clean-ups and the "no unused id" error),
    nothing outside the requested space and subspace changes: the other four tables, the rows of the
    space's table that are not members of the subspace, and the upload table are as before. -/
theorem nothing_outside_subspace_changes {cfg : Cfg} {db db' : Db} {req : Req} {now : Nat} {ch : GetChoice}
    {res : GetRes} {out : Outcome}
    (hr : Reachable cfg db) (hs : req.space ∈ Space.all) (hu : req.sub.valid = true)
    (h : getId cfg db req now ch = .ok (db', res, out)) : Frame db db' req.space req.sub := by
  have hinv := C01.reachable_inv hr
  cases getId_spec h with
  | block hb =>
    have hm := C01.getId_member_of_inv hinv hs hu h
    cases hb with
    | hit r hrt hd hf hid hdb => subst hdb; exact frame_setAtime db hs hm
    | recycled v hmiss henum hv hid hold hwhy hset =>
      rw [setId_of_inSpace hs (inSpace_of_member hm) hset]; exact frame_upsert db hs hm
    | fresh hmiss henum hcount hall hfree hset =>
      rw [setId_of_inSpace hs (inSpace_of_member hm) hset]; exact frame_upsert db hs hm
  | sampled hmiss henum hcl hmem hfree hset =>
    have hm := C01.getId_member_of_inv hinv hs hu h
    obtain ⟨hf, _⟩ := cleanups_frame hs hu hcl hinv
    rw [setId_of_inSpace hs (inSpace_of_member hm) hset]
    exact frame_trans hf (frame_upsert _ hs hm)
  | exhausted hmiss henum hcl => exact (cleanups_frame hs hu hcl hinv).1

/-- the same for the explicit operations: `cleanup` stays inside its subspace … -/
theorem cleanup_frame {cfg : Cfg} {db db' : Db} {s : Space} {u : Sub} {m : Nat} {removed : List Nat}
    (hr : Reachable cfg db) (hs : s ∈ Space.all) (hu : u.valid = true)
    (h : cleanup db s u m removed = .ok db') : Frame db db' s u :=
  (AllocLemmas.cleanup_frame (C01.reachable_inv hr) hs hu h).1

/-- **No displacement.** If the allocator bound a fresh id of an enumerable subspace, the id was
    unassigned before and every old assignment is unchanged. -/
theorem getId_free_no_displacement {cfg : Cfg} {db db' : Db} {req : Req} {now id : Nat} {ch : GetChoice}
    (hr : Reachable cfg db) (hs : req.space ∈ Space.all) (hu : req.sub.valid = true)
    (h : getId cfg db req now ch = .ok (db', .id id, .fresh)) :
    FreshStep db db' req.space req.desc now id := by
  have hinv := C01.reachable_inv hr
  have hm := C01.getId_member_of_inv hinv hs hu h
  cases getId_spec h with
  | block hb =>
    cases hb with
    | fresh hmiss henum hcount hall hfree hset =>
      refine ⟨?_, ?_, ?_⟩
      · rw [lookup_eq_none]
        intro r hrt hid
        have hf : req.space.sqlFilter req.sub r.id = true := by
          rw [hid]; exact (sqlFilter_iff_member hu (inSpace_of_member hm)).2 hm
        exact hfree r (mem_inSub.2 ⟨hrt, hf⟩) hid
      · intro id' hne
        rw [setId_of_inSpace hs (inSpace_of_member hm) hset, ids_setIds_same, lookup_upsert]
        simp [Ne.symm hne]
      · rw [setId_of_inSpace hs (inSpace_of_member hm) hset, ids_setIds_same, lookup_upsert]; simp

/-- while an enumerable subspace has a free id, a new description displaces nothing: the outcome of a
    miss is `fresh` -/
theorem getId_enumerable_not_full {cfg : Cfg} {db db' : Db} {req : Req} {now : Nat} {ch : GetChoice}
    {res : GetRes} {out : Outcome}
    (henum : isEnumerable cfg req.space req.sub = true)
    (hmiss : (db.ids req.space).byDesc req.space req.sub req.desc = [])
    (hfree : ∃ i ∈ req.space.allIds req.sub, ∀ r ∈ (db.ids req.space).inSub req.space req.sub, r.id ≠ i)
    (hcount : ((db.ids req.space).inSub req.space req.sub).length < req.space.subspaceSize req.sub)
    (h : getId cfg db req now ch = .ok (db', res, out)) : out = .fresh := by
  cases getId_spec h with
  | block hb =>
    cases hb with
    | hit r hrt hd hf hid hdb =>
      have : r ∈ (db.ids req.space).byDesc req.space req.sub req.desc := by
        unfold Table.byDesc; exact List.mem_filter.2 ⟨hrt, by simp [hd, hf]⟩
      rw [hmiss] at this; cases this
    | recycled v hmiss' henum' hv hid hold hwhy hset =>
      rcases hwhy with hge | hnone
      · omega
      · obtain ⟨i, hi, hfi⟩ := hfree
        have : i ∈ (req.space.allIds req.sub).filter
            (fun i => !((db.ids req.space).inSub req.space req.sub).any (fun r => r.id == i)) := by
          refine List.mem_filter.2 ⟨hi, ?_⟩
          simp only [Bool.not_eq_true', List.any_eq_false, beq_iff_eq]
          exact hfi
        rw [hnone] at this; cases this
    | fresh => rfl
  | sampled _ henum' => rw [henum] at henum'; cases henum'
  | exhausted _ henum' => rw [henum] at henum'; cases henum'

/-- **LRU.** If the allocator recycled an id (only possible in an enumerable subspace, i.e. at most
    1024 ids and at most the configured maximum), exactly one old assignment was dropped, it was least
    recently used among the live assignments of the subspace, and its id is the one re-bound. -/
theorem getId_full_enumerable_drops_exactly_lru {cfg : Cfg} {db db' : Db} {req : Req} {now id : Nat}
    {ch : GetChoice} {victim : Row}
    (hr : Reachable cfg db) (hs : req.space ∈ Space.all) (hu : req.sub.valid = true)
    (h : getId cfg db req now ch = .ok (db', .id id, .recycled victim)) :
    req.space.subspaceSize req.sub ≤ min 1024 cfg.maxIds ∧
    LruStep db db' req.space req.sub req.desc now id victim := by
  have hinv := C01.reachable_inv hr
  have hm := C01.getId_member_of_inv hinv hs hu h
  cases getId_spec h with
  | block hb =>
    cases hb with
    | recycled v hmiss henum hv hid hold hwhy hset =>
      obtain ⟨hvt, hvf⟩ := mem_inSub.1 hv
      refine ⟨by simpa [isEnumerable] using henum, ⟨⟨hvt, member_of_row hinv hs hu hvt hvf⟩, ?_⟩, hid, ?_, ?_⟩
      · intro r' hr'
        obtain ⟨v', hv', hid', hmin⟩ := oldestIds_spec hold
        have hv'' := (mem_inSub.1 hv').1
        have e1 := lookup_of_mem (hinv.keys _ hs) hvt
        have e2 := lookup_of_mem (hinv.keys _ hs) hv''
        rw [hid] at e1; rw [hid'] at e2
        have : victim = v' := by rw [e1] at e2; injection e2
        subst this
        exact hmin r' ((live_iff_inSub hinv hs hu r').1 hr')
      · intro id' hne
        rw [setId_of_inSpace hs (inSpace_of_member hm) hset, ids_setIds_same, lookup_upsert]
        simp [Ne.symm hne]
      · rw [setId_of_inSpace hs (inSpace_of_member hm) hset, ids_setIds_same, lookup_upsert]; simp

/-- a completely full enumerable subspace and a new description: the allocator recycles (it neither
    fails nor touches more than the one LRU row, by the theorem above) -/
theorem getId_full_enumerable_recycles {cfg : Cfg} {db db' : Db} {req : Req} {now : Nat} {ch : GetChoice}
    {res : GetRes} {out : Outcome}
    (henum : isEnumerable cfg req.space req.sub = true)
    (hmiss : (db.ids req.space).byDesc req.space req.sub req.desc = [])
    (hfull : req.space.subspaceSize req.sub ≤ ((db.ids req.space).inSub req.space req.sub).length)
    (h : getId cfg db req now ch = .ok (db', res, out)) : ∃ v id, out = .recycled v ∧ res = .id id := by
  cases getId_spec h with
  | block hb =>
    cases hb with
    | hit r hrt hd hf hid hdb =>
      have : r ∈ (db.ids req.space).byDesc req.space req.sub req.desc := by
        unfold Table.byDesc; exact List.mem_filter.2 ⟨hrt, by simp [hd, hf]⟩
      rw [hmiss] at this; cases this
    | recycled v => exact ⟨v, _, rfl, rfl⟩
    | fresh hmiss' henum' hcount => omega
  | sampled _ henum' => rw [henum] at henum'; cases henum'
  | exhausted _ henum' => rw [henum] at henum'; cases henum'

/-- **Large subspaces drop only by clean-up.** A sampled id was free at the moment it was bound; the
    only rows that disappeared were removed by the preceding clean-ups of this very subspace. -/
theorem getId_large_drops_only_by_cleanup {cfg : Cfg} {db db' : Db} {req : Req} {now id : Nat} {ch : GetChoice}
    {removed : List Nat}
    (hr : Reachable cfg db) (hs : req.space ∈ Space.all) (hu : req.sub.valid = true)
    (h : getId cfg db req now ch = .ok (db', .id id, .sampled removed)) :
    ∃ db1, Cleanups req.space req.sub db db1 ∧ FreshStep db1 db' req.space req.desc now id := by
  have hinv := C01.reachable_inv hr
  have hm := C01.getId_member_of_inv hinv hs hu h
  cases getId_spec h with
  | block hb => cases hb
  | sampled hmiss henum hcl hmem hfree hset =>
    rename_i db1
    refine ⟨db1, hcl, ?_, ?_, ?_⟩
    · rw [lookup_eq_none]
      intro r hrt hid
      have : (db1.ids req.space).hasId id = true := by
        unfold Table.hasId; exact List.any_eq_true.2 ⟨r, hrt, by simpa using hid⟩
      rw [hfree] at this; cases this
    · intro id' hne
      rw [setId_of_inSpace hs (inSpace_of_member hm) hset, ids_setIds_same, lookup_upsert]
      simp [Ne.symm hne]
    · rw [setId_of_inSpace hs (inSpace_of_member hm) hset, ids_setIds_same, lookup_upsert]; simp

/-- non-vacuity: a full 3-id subspace with a tie on `atime` — both tied rows are admissible victims,
    the strictly newer one is not -/
example : (oldestIds [⟨1, "a", 5⟩, ⟨2, "b", 5⟩, ⟨3, "c", 6⟩]) = [1, 2] := by decide

example : getId {} { t3 := [⟨1, "a", 5⟩, ⟨2, "b", 5⟩, ⟨3, "c", 6⟩] } ⟨⟨8, false⟩, ⟨1, 4⟩, "d"⟩ 7 { pick := 2 }
    = .ok ({ t3 := [⟨2, "d", 7⟩, ⟨1, "a", 5⟩, ⟨3, "c", 6⟩] }, .id 2, .recycled ⟨2, "b", 5⟩) := by rfl

example : getId {} { t3 := [⟨1, "a", 5⟩, ⟨2, "b", 5⟩, ⟨3, "c", 6⟩] } ⟨⟨8, false⟩, ⟨1, 4⟩, "d"⟩ 7 { pick := 3 }
    = .error (.badChoice "full: returned id is not an oldest row of the subspace") := by rfl

theorem newerFirst_trans (a b c : Row) (h1 : newerFirst a b = true) (h2 : newerFirst b c = true) :
    newerFirst a c = true := by
  simp only [newerFirst, Bool.or_eq_true, Bool.and_eq_true, decide_eq_true_eq, beq_iff_eq] at *
  omega

theorem newerFirst_total (a b : Row) : (newerFirst a b || newerFirst b a) = true := by
  simp only [newerFirst, Bool.or_eq_true, Bool.and_eq_true, decide_eq_true_eq, beq_iff_eq]
  omega

/-- **Listing.** `get_all(space, subspace)` reports exactly the live assignments of the subspace, most
    recent first. -/
theorem getAll_sorted_desc_perm_live {cfg : Cfg} {db : Db} (hr : Reachable cfg db) {s : Space}
    (hs : s ∈ Space.all) {u : Sub} (hu : u.valid = true) : Listing db s u (getAllSpace db s u) := by
  have hinv := C01.reachable_inv hr
  unfold getAllSpace sortDesc
  refine ⟨fun r => ?_, ?_⟩
  · rw [List.mem_mergeSort]; exact (live_iff_inSub hinv hs hu r).symm
  · refine (List.pairwise_mergeSort newerFirst_trans newerFirst_total _).imp ?_
    intro a b hab
    simp only [newerFirst, Bool.or_eq_true, Bool.and_eq_true, decide_eq_true_eq, beq_iff_eq] at hab
    omega

/-- the listing is a permutation of the live rows (nothing duplicated, nothing lost) -/
theorem getAll_perm {db : Db} (s : Space) (u : Sub) : (getAllSpace db s u).Perm ((db.ids s).inSub s u) :=
  List.mergeSort_perm _ _

/-- **Counting.** `count(space, subspace)` is the number of live assignments. -/
theorem count_eq_length_live {cfg : Cfg} {db : Db} (hr : Reachable cfg db) {s : Space}
    (hs : s ∈ Space.all) {u : Sub} (hu : u.valid = true) :
    countSpace db s u = ((db.ids s).filter (fun r => Spec.member s u r.id)).length := by
  have hinv := C01.reachable_inv hr
  unfold countSpace Table.inSub
  congr 1
  apply List.filter_congr
  intro r hrt
  have := sqlFilter_iff_member hu (hinv.space s hs r hrt)
  cases h1 : s.sqlFilter u r.id <;> cases h2 : Spec.member s u r.id <;> simp_all

/-- **Clean-ups drop oldest-first.** An explicit `cleanup(space, subspace, max_ids)` (and each internal
    clean-up of a large-subspace `get_id`, which is this very operation) removes exactly
    `max (count - max_ids) 0` live assignments of the subspace, none of them newer than a surviving live
    one, and touches nothing else in the table. -/
theorem cleanup_drops_oldest_prefix {cfg : Cfg} {db db' : Db} {s : Space} {u : Sub} {m : Nat} {removed : List Nat}
    (hr : Reachable cfg db) (hs : s ∈ Space.all) (hu : u.valid = true)
    (h : cleanup db s u m removed = .ok db') : CleanupStep db db' s u m removed := by
  have hinv := C01.reachable_inv hr
  obtain ⟨hadm, rfl⟩ := cleanup_ok h
  obtain ⟨hnd, hlen, hord⟩ := admissible_spec hadm
  refine ⟨hnd, ?_, ?_, ?_, ?_, ?_⟩
  · rw [hlen, ← count_eq_length_live hr hs hu]; unfold countSpace; omega
  · intro id hid
    obtain ⟨r, hrl, hrid⟩ := admissible_subset hadm id hid
    exact ⟨r, (live_iff_inSub hinv hs hu r).2 hrl, hrid⟩
  · intro r k hrl hrin hkl hkout
    exact hord r ((live_iff_inSub hinv hs hu r).1 hrl) hrin k ((live_iff_inSub hinv hs hu k).1 hkl) hkout
  · intro id hid; rw [ids_setIds_same, lookup_eraseAll]; simp [hid]
  · intro id hid; rw [ids_setIds_same, lookup_eraseAll]; simp [hid]

/-! ### `get_all(None, …)` / `count(None, …)`: all five spaces at once

  `get_all(None, subspace)` runs the per-space statement five times and merges the answers with
  `heapq.merge(*lists, key=atime, reverse=True)` (`mergeDesc`: repeatedly the head with the largest key,
  the earliest list winning ties — `Lemmas/DbMerge.lean`). -/

/-- **Merged listing, nothing lost or duplicated.** `get_all(None, subspace)` is a permutation of the
    concatenation of the five per-space listings … -/
theorem getAll_merged_perm (db : Db) (u : Sub) :
    (getAllMerged db u).Perm (Space.all.map fun s => getAllSpace db s u).flatten :=
  DbMerge.mergeDesc_perm _

/-- … hence a permutation of the rows the five `SELECT … WHERE (id & mask) BETWEEN …` statements match: every
    such row is reported exactly as often as it is in the tables (once, keys being unique). -/
theorem getAll_merged_perm_rows (db : Db) (u : Sub) :
    (getAllMerged db u).Perm (Space.all.map fun s => (db.ids s).inSub s u).flatten := by
  refine (getAll_merged_perm db u).trans ?_
  simp only [Space.all, List.map_cons, List.map_nil, List.flatten_cons, List.flatten_nil, List.append_nil]
  exact (getAll_perm _ u).append ((getAll_perm _ u).append ((getAll_perm _ u).append
    ((getAll_perm _ u).append (getAll_perm _ u))))

/-- On a reachable database the merged listing reports exactly the live assignments of the subspace over
    the five spaces. -/
theorem getAll_merged_mem_live {cfg : Cfg} {db : Db} (hr : Reachable cfg db) {u : Sub} (hu : u.valid = true)
    (r : Row) : r ∈ getAllMerged db u ↔ ∃ s ∈ Space.all, Live db s u r := by
  have hinv := C01.reachable_inv hr
  rw [(getAll_merged_perm_rows db u).mem_iff, List.mem_flatten]
  constructor
  · rintro ⟨l, hl, hrl⟩
    obtain ⟨s, hs, rfl⟩ := List.mem_map.1 hl
    exact ⟨s, hs, (live_iff_inSub hinv hs hu r).2 hrl⟩
  · rintro ⟨s, hs, hl⟩
    exact ⟨_, List.mem_map.2 ⟨s, hs, rfl⟩, (live_iff_inSub hinv hs hu r).1 hl⟩

/-- **Merged listing, most recent first.** The heap merge of lists that are each sorted by `atime`
    descending is sorted by `atime` descending … -/
theorem getAll_merged_sorted_of_sorted (db : Db) (u : Sub)
    (hsorted : ∀ s ∈ Space.all, (getAllSpace db s u).Pairwise (fun a b => a.atime ≥ b.atime)) :
    (getAllMerged db u).Pairwise (fun a b => a.atime ≥ b.atime) := by
  unfold getAllMerged
  apply DbMerge.mergeDesc_sorted
  intro l hl
  obtain ⟨s, hs, rfl⟩ := List.mem_map.1 hl
  exact hsorted s hs

/-- … and the five per-space listings are (`getAll_sorted_desc_perm_live`), so `get_all(None, subspace)` is
    sorted most recent first. -/
theorem getAll_merged_sorted {cfg : Cfg} {db : Db} (hr : Reachable cfg db) {u : Sub} (hu : u.valid = true) :
    (getAllMerged db u).Pairwise (fun a b => a.atime ≥ b.atime) :=
  getAll_merged_sorted_of_sorted db u fun _ hs => (getAll_sorted_desc_perm_live hr hs hu).2

/-- **Counting over all spaces.** `count(None, subspace)` (the sum of the five per-space `COUNT(*)`) is the
    length of `get_all(None, subspace)`. -/
theorem count_none_eq_length (db : Db) (u : Sub) : count db none u = (getAll db none u).length := by
  simp only [count, getAll]
  rw [(getAll_merged_perm_rows db u).length_eq, List.length_flatten, List.map_map]
  rfl

/-- the same for one space: `count(space, subspace)` is the length of `get_all(space, subspace)` -/
theorem count_some_eq_length (db : Db) (s : Space) (u : Sub) :
    count db (some s) u = (getAll db (some s) u).length := by
  simp only [count, getAll, countSpace]
  exact (getAll_perm s u).length_eq.symm

/-- non-vacuity of the merge: five sorted listings with ties on `atime` across lists — the earlier list
    (`all_values()` order) wins a tie, as `heapq.merge` does; an unsorted input is *not* repaired -/
example :
    mergeDesc [[⟨1, "a", 5⟩], [⟨2, "b", 7⟩, ⟨3, "c", 5⟩], [], [⟨4, "d", 6⟩, ⟨5, "e", 5⟩], [⟨6, "f", 9⟩]]
      = [⟨6, "f", 9⟩, ⟨2, "b", 7⟩, ⟨4, "d", 6⟩, ⟨1, "a", 5⟩, ⟨3, "c", 5⟩, ⟨5, "e", 5⟩] ∧
    mergeDesc [[⟨1, "a", 5⟩, ⟨2, "b", 7⟩], [⟨3, "c", 6⟩]] = [⟨3, "c", 6⟩, ⟨1, "a", 5⟩, ⟨2, "b", 7⟩] := by
  decide

end Tup.C02
