import Tup.Lemmas.PhChoreo
import Tup.Lemmas.PhCursor
import Tup.Lemmas.PhModel
import Tup.Lemmas.PhEmitted
import Tup.Lemmas.PhScrollChoreo
/-!
  C07 — printed Unicode placeholders decode to exactly the requested image cells.

  Model: `Tup.Model.Placeholder` (`lineToks` = one element of `to_lines` as tokens; the byte form
  `lineBytes` is what the correspondence check compares with /repo).  Specification: `Spec.Term`
  (terminal) + `Spec.Decode` (protocol decoding rules) + the pinned table `Spec.diacritics`.

  Layer (A) — per line, on the real terminal cells — is proved here for every ID, placement ID,
  mode (all 160), start column < 297, any width, row < 297, any caller background formatting,
  any terminal state with room for the line.  Layer (B) `parse (serialize ts) = ts` is proved for
  the emitted token class.  Layer (C), the multi-line choreography, is proved for every style: the
  absolute-position style (`choreography_abs`), the cursor-relative styles with save/restore or relative
  movement including scrolling (`choreography_at_cursor`; `choreography_at_cursor_noscroll` is the earlier
  special case that also covers non-default scroll margins), and the two line-feed styles through the
  tty's ONLCR (`choreography_linefeeds_at_cursor`, `choreography_linefeeds`) (note at the end).
-/
namespace Tup.C07
open Tup Tup.Spec Tup.Ph

/-- The table in /repo (regenerated into `Tup.Gen` on every run) is the protocol's table. -/
theorem gen_table_eq_spec : Tup.Gen.diacritics = Tup.Spec.diacritics := Ph.gen_table_eq_spec

/-- `PLACEHOLDER_CHAR` in /repo is U+10EEEE. -/
theorem gen_placeholder_eq_spec : Tup.Gen.placeholderChar = Tup.Spec.placeholderChar := Ph.gen_placeholderChar_eq_spec

/-- Table inverse: the protocol decodes the i-th emitted diacritic to i (297 entries, no duplicates). -/
theorem table_inverse (i : Nat) (h : i < 297) : Spec.diacIndex (diacCp i) = some i := diacIndex_diacCp i h

/-- Colour ↔ ID bits: whichever escape form `to_lines` chooses (256-colour or 24-bit), the foreground colour the terminal
    ends up with carries exactly the low 24 bits of the image ID. -/
theorem fg_color_id_bits (t : Term) (m : Mode) (id : Nat) :
    colorVal (t.feed (fgTok m id)).sgr.fg = id % 16777216 := by
  unfold fgTok
  rw [feed_sgr t _ (colorTok_isSgr _ _ _)]
  simp only [sgrStep_fg]
  exact colorVal_colorOf _ _

/-- … and the underline colour carries the placement ID (omitted, i.e. default = 0, only for placement ID 0). -/
theorem ul_color_placement_bits (t : Term) (m : Mode) (pid : Nat) (h : pid ≤ 0xFFFFFF) (hul : t.sgr.ul = none) :
    colorVal (t.feedAll (ulToks m pid)).sgr.ul = pid := by
  unfold ulToks
  split
  · rename_i h1
    simp only [Bool.and_eq_true, beq_iff_eq] at h1
    simp [Term.feedAll, hul, colorVal, h1.2]
  · simp only [feedAll_singleton]
    rw [feed_sgr t _ (colorTok_isSgr _ _ _)]
    simp only [sgrStep_ul]
    exact colorVal_colorOf_pid _ _ h

/-- **(A) `line_decodes`.**  Feed one emitted line (row < 297) to a terminal in ANY state (screen content, SGR state)
    whose cursor has room for the line's width.  Decoding the written cells left to right by the protocol rules, starting
    from a non-placeholder left neighbour, gives exactly `(image id, placement id, row, start_col + j)` for every `j` —
    for every 32-bit ID, 24-bit placement ID, each of the 160 modes, any background-only caller formatting, any width
    (columns ≥ 297 included: they are recovered by inheritance). -/
theorem line_decodes (t : Term) (p : Placeholder) (m : Mode) (fmt : FmtT) (row : Nat)
    (hp : p.valid = true) (hm : m.valid = true) (hrow : row < 297) (hsc : p.startCol < 297)
    (hfmt : BgOnly fmt) (hfit : t.cx + (p.endCol - p.startCol) ≤ t.w) :
    decodeRow none ((List.range (p.endCol - p.startCol)).map fun j => (t.feedAll (lineToks p m fmt row)).cells t.cy (t.cx + j)) =
      (List.range (p.endCol - p.startCol)).map fun j => some ⟨p.imageId, p.placementId, row, p.startCol + j⟩ := by
  simp only [Placeholder.valid, Bool.and_eq_true, decide_eq_true_eq] at hp
  simp only [Mode.valid, Bool.and_eq_true, decide_eq_true_eq] at hm
  obtain ⟨⟨⟨⟨hid0, hid⟩, hpid⟩, hlt⟩, _⟩ := hp
  rw [feed_line t p m fmt row hrow hsc hlt hfmt hfit]
  have hlen := lineScreenCells_length p m fmt row hlt
  have := writeRow_read (lineScreenCells p m fmt row) t t.cy t.cx
  rw [hlen] at this
  simp only [this]
  rw [decodeRow_lineScreenCells p m fmt row (by omega) hpid ⟨hm.1.1, hm.1.2⟩ hrow hsc hlt hfmt]
  rw [List.range'_eq_map_range]
  simp [List.map_map, Function.comp_def]

/-- **Frame and cursor of a line**: nothing outside the line's cells changes, the cursor ends right behind the line on the same
    row (possibly in the pending-wrap column), and the SGR state is default. Holds for blank rows (≥ 297) as well. -/
theorem line_frame (t : Term) (p : Placeholder) (m : Mode) (fmt : FmtT) (row : Nat)
    (hp : p.valid = true) (hsc : p.startCol < 297) (hfmt : BgOnly fmt) (hfit : t.cx + (p.endCol - p.startCol) ≤ t.w) :
    let t' := t.feedAll (lineToks p m fmt row)
    t'.cx = t.cx + (p.endCol - p.startCol) ∧ t'.cy = t.cy ∧ t'.sgr = {} ∧
    ∀ y x, ¬ (y = t.cy ∧ t.cx ≤ x ∧ x < t.cx + (p.endCol - p.startCol)) → t'.cells y x = t.cells y x := by
  simp only [Placeholder.valid, Bool.and_eq_true, decide_eq_true_eq] at hp
  obtain ⟨⟨_, hlt⟩, _⟩ := hp
  intro t'
  by_cases hrow : row < 297
  · have h := feed_line t p m fmt row hrow hsc hlt hfmt hfit
    simp only [t', h]
    refine ⟨trivial, by simp, trivial, ?_⟩
    intro y x hn
    exact writeRow_frame _ t _ _ _ _ (by rw [lineScreenCells_length p m fmt row hlt]; exact hn)
  · have h := feed_blank_line t p m fmt row (by omega) hfmt hfit
    simp only [t', h]
    refine ⟨trivial, by simp, trivial, ?_⟩
    intro y x hn
    exact writeRow_frame _ t _ _ _ _ (by rw [blankScreenCells_length]; exact hn)

/-- **Rows ≥ 297 give blanks only**: every cell such a line writes is a space, never a placeholder cell. -/
theorem blank_rows (t : Term) (p : Placeholder) (m : Mode) (fmt : FmtT) (row : Nat)
    (hrow : 297 ≤ row) (hfmt : BgOnly fmt) (hfit : t.cx + (p.endCol - p.startCol) ≤ t.w) :
    ∀ j < p.endCol - p.startCol, ((t.feedAll (lineToks p m fmt row)).cells t.cy (t.cx + j)).ch = 32 := by
  intro j hj
  rw [feed_blank_line t p m fmt row hrow hfmt hfit]
  have hlen := blankScreenCells_length p fmt row
  have h := writeRow_read (blankScreenCells p fmt row) t t.cy t.cx
  rw [hlen] at h
  have hj' : j < ((List.range (p.endCol - p.startCol)).map fun j => (writeRow t t.cy t.cx (blankScreenCells p fmt row)).cells t.cy (t.cx + j)).length := by
    simp [hj]
  have := List.getElem_of_eq h hj'
  simp only [List.getElem_map, List.getElem_range] at this
  show ((writeRow t t.cy t.cx (blankScreenCells p fmt row)).cells t.cy (t.cx + j)).ch = 32
  rw [this]
  exact blankScreenCells_ch p fmt row _ (List.getElem_mem _)

/-- **(A) on a whole screen row**: if the rest of the row holds no placeholder cell (e.g. a blank row), the protocol
    decoding of the complete row after the line shows the requested cells at columns `cx … cx + C - 1` and nothing else. -/
theorem line_decodes_row (t : Term) (p : Placeholder) (m : Mode) (fmt : FmtT) (row : Nat)
    (hp : p.valid = true) (hm : m.valid = true) (hrow : row < 297) (hsc : p.startCol < 297)
    (hfmt : BgOnly fmt) (hfit : t.cx + (p.endCol - p.startCol) ≤ t.w)
    (hclean : ∀ x, (t.cells t.cy x).ch ≠ placeholderChar) :
    decodeRow none ((t.feedAll (lineToks p m fmt row)).row t.cy) =
      List.replicate t.cx none ++
      ((List.range (p.endCol - p.startCol)).map fun j => some ⟨p.imageId, p.placementId, row, p.startCol + j⟩) ++
      List.replicate (t.w - (t.cx + (p.endCol - p.startCol))) none := by
  have hdec := line_decodes t p m fmt row hp hm hrow hsc hfmt hfit
  have hfr := line_frame t p m fmt row hp hsc hfmt hfit
  simp only at hfr
  obtain ⟨_, _, _, hframe⟩ := hfr
  have hw : (t.feedAll (lineToks p m fmt row)).w = t.w := by
    simp only [Placeholder.valid, Bool.and_eq_true, decide_eq_true_eq] at hp
    rw [feed_line t p m fmt row hrow hsc hp.1.2 hfmt hfit]; simp
  rw [row_split _ t.cy t.cx (p.endCol - p.startCol) (by rw [hw]; exact hfit), hw]
  have hleft : ∀ c ∈ (List.range t.cx).map (fun j => (t.feedAll (lineToks p m fmt row)).cells t.cy j), c.ch ≠ placeholderChar := by
    intro c hc
    obtain ⟨j, hj, rfl⟩ := List.mem_map.mp hc
    rw [hframe t.cy j (by simp at hj; omega)]
    exact hclean j
  have hright : ∀ c ∈ (List.range (t.w - (t.cx + (p.endCol - p.startCol)))).map
      (fun j => (t.feedAll (lineToks p m fmt row)).cells t.cy (t.cx + (p.endCol - p.startCol) + j)), c.ch ≠ placeholderChar := by
    intro c hc
    obtain ⟨j, hj, rfl⟩ := List.mem_map.mp hc
    rw [hframe t.cy _ (by omega)]
    exact hclean _
  rw [List.append_assoc, decodeRow_nonph_append _ _ hleft, decodeRow_append_nonph _ _ hright, hdec]
  simp [List.append_assoc]

/-- **Model bytes are the tokens**: the byte-level model that the correspondence check compares with /repo's `to_lines`
    is the serialisation of the token lines the theorems talk about (formatting bytes = serialised formatting tokens). -/
theorem model_bytes_are_tokens (p : Placeholder) (m : Mode) (fmt : FmtT) (h : p.startCol < tableLen) :
    p.toLines m fmt.toFmt false = .ok ((p.lineToksAll m fmt).map serialize) := toLines_eq_serialize p m fmt h

/-- **(C) `choreography`, absolute-position style** (`to_stream_abs_position`, `to_stream(pos=…)`).  From ANY terminal state,
    if the rectangle fits the screen at `(px, py)` (`px + C ≤ W`, `py + R ≤ H`), then after the complete output
    * row `py + i` columns `px … px + C - 1` decode to `(id, pid, start_row + i, start_col + j)` for every image row < 297
      (the positions of DESIGN.md A.5), and are spaces for image rows ≥ 297;
    * every cell outside the rectangle is unchanged (so: no placeholder cell anywhere else on a screen that had none);
    * the cursor is at `(px + C, py + R - 1)` and the colours are default.
    Holds for both values of every `TermCfg` parameter. -/
theorem choreography_abs (t : Term) (p : Placeholder) (m : Mode) (fmt : FmtT) (px py : Nat)
    (hp : p.valid = true) (hm : m.valid = true) (hsc : p.startCol < 297) (hfmt : BgOnly fmt)
    (hw : px + (p.endCol - p.startCol) ≤ t.w) (hh : py + (p.endRow - p.startRow) ≤ t.h) :
    let t' := t.feedAll (streamToks (.abs px py) (p.endCol - p.startCol) (p.lineToksAll m fmt))
    (∀ i < p.endRow - p.startRow, p.startRow + i < 297 →
      decodeRow none ((List.range (p.endCol - p.startCol)).map fun j => t'.cells (py + i) (px + j)) =
        (List.range (p.endCol - p.startCol)).map fun j => some ⟨p.imageId, p.placementId, p.startRow + i, p.startCol + j⟩) ∧
    (∀ i < p.endRow - p.startRow, 297 ≤ p.startRow + i → ∀ j < p.endCol - p.startCol, (t'.cells (py + i) (px + j)).ch = 32) ∧
    (∀ y x, ¬ (py ≤ y ∧ y < py + (p.endRow - p.startRow) ∧ px ≤ x ∧ x < px + (p.endCol - p.startCol)) →
      t'.cells y x = t.cells y x) ∧
    t'.cx = px + (p.endCol - p.startCol) ∧ t'.cy = py + (p.endRow - p.startRow) - 1 ∧ t'.sgr = {} := by
  have hp' := hp
  simp only [Placeholder.valid, Bool.and_eq_true, decide_eq_true_eq] at hp'
  simp only [Mode.valid, Bool.and_eq_true, decide_eq_true_eq] at hm
  obtain ⟨⟨⟨⟨hid0, hid⟩, hpid⟩, hlt⟩, hrows⟩ := hp'
  intro t'
  have ht' : t' = absResult p m fmt px (p.endRow - p.startRow) p.startRow py t := by
    have := feed_abs p m fmt px py hsc hlt hfmt (p.endRow - p.startRow) 0 p.startRow t hw (by simpa using hh)
    simpa [t', streamToks, Placeholder.lineToksAll] using this
  have hread : ∀ i < p.endRow - p.startRow,
      ((List.range (p.endCol - p.startCol)).map fun j => t'.cells (py + i) (px + j)) = rowCells p m fmt (p.startRow + i) := by
    intro i hi
    apply List.ext_getElem
    · simp [rowCells_length p m fmt _ hlt]
    · intro j h1 h2
      simp only [List.getElem_map, List.getElem_range, ht', absResult_cells p m fmt px hlt]
      have hj : j < p.endCol - p.startCol := by simpa using h1
      have hc : py ≤ py + i ∧ py + i < py + (p.endRow - p.startRow) ∧ px ≤ px + j ∧ px + j < px + (p.endCol - p.startCol) := by omega
      have e1 : py + i - py = i := by omega
      have e2 : px + j - px = j := by omega
      simp [hc, e1, e2, h2]
  refine ⟨?_, ?_, ?_, ?_⟩
  · intro i hi hrow
    rw [hread i hi]
    simp only [rowCells, hrow, if_true]
    rw [decodeRow_lineScreenCells p m fmt _ (by omega) hpid ⟨hm.1.1, hm.1.2⟩ hrow hsc hlt hfmt, List.range'_eq_map_range]
    simp [List.map_map, Function.comp_def]
  · intro i hi hrow j hj
    have h := hread i hi
    have hj' : j < ((List.range (p.endCol - p.startCol)).map fun j => t'.cells (py + i) (px + j)).length := by simp [hj]
    have := List.getElem_of_eq h hj'
    simp only [List.getElem_map, List.getElem_range] at this
    rw [this]
    have hnot : ¬ p.startRow + i < 297 := by omega
    simp only [rowCells, hnot, if_false]
    exact blankScreenCells_ch p fmt _ _ (List.getElem_mem _)
  · intro y x hn
    rw [ht', absResult_cells p m fmt px hlt]
    simp [hn]
  · obtain ⟨n, hn⟩ : ∃ n, p.endRow - p.startRow = n + 1 := ⟨p.endRow - p.startRow - 1, by omega⟩
    rw [ht', hn]
    have := absResult_cursor p m fmt px n p.startRow py t
    exact ⟨this.1, by rw [this.2.1]; omega, this.2.2⟩

/-- **(B) `parse_serialize`**: on the class of tokens the library emits on the display stream (printable/combining
    characters ≥ U+0020, LF, CR, `ESC D`, CSI sequences with decimal parameters and a final byte `@…~`), the terminal-side
    tokenizer reads back exactly what was serialised (decimal round trip `decToNat? (natToDec n) = some n`, UTF-8 round
    trip for 1–4 byte forms). -/
theorem parse_serialize (ts : List Tok) (h : ∀ t ∈ ts, EscL.Emitted t) : parse (serialize ts) = ts :=
  EscL.parse_serialize ts h

/-- (B) applied: the bytes of a complete output in ANY style parse back to the model's tokens … -/
theorem stream_bytes_parse (st : Style) (p : Placeholder) (m : Mode) (fmt : FmtT) (hsc : p.startCol < 297) (hfmt : BgOnly fmt) :
    parse (serialize (streamToks st (p.endCol - p.startCol) (p.lineToksAll m fmt))) =
      streamToks st (p.endCol - p.startCol) (p.lineToksAll m fmt) :=
  EscL.parse_serialize _ (streamToks_emitted st p m fmt hsc hfmt)

/-- … and feeding the BYTES of a model line (`lineBytes`, what K compares with `to_lines`) to the terminal is feeding its
    tokens, so `line_decodes`, `line_frame`, `blank_rows`, `line_decodes_row` hold for the bytes. -/
theorem line_bytes_feed (t : Term) (p : Placeholder) (m : Mode) (fmt : FmtT) (row : Nat) (hsc : p.startCol < 297) (hfmt : BgOnly fmt) :
    t.feedBytes (lineBytes p m fmt.toFmt false row) = t.feedAll (lineToks p m fmt row) := by
  unfold Term.feedBytes
  rw [lineBytes_eq_serialize, EscL.parse_serialize _ (lineToks_emitted p m fmt row hsc hfmt)]

/-- **(C) `choreography`, cursor-relative styles without scrolling** (`to_stream_at_cursor` with save/restore — the default of
    `to_stream`/`display_only` — or with the relative `CSI n D`, no line feeds).  From ANY terminal state with the cursor at
    `(x0, y0)`, if the rectangle fits to the right and below the cursor (`x0 + C ≤ W`, rows `y0 … y0 + R - 1` above the bottom
    margin) then after the complete output
    * row `y0 + i`, columns `x0 … x0 + C - 1` decode to `(id, pid, start_row + i, start_col + j)` for image rows < 297
      (positions of DESIGN.md A.5 with `s = 0`) and are spaces for image rows ≥ 297;
    * every cell outside the rectangle is unchanged;
    * the cursor is at `(x0 + C, y0 + R - 1)` and the colours are default.
    Save/restore: for both values of every terminal parameter.  Relative style: when the line touches the right margin
    (`x0 + C = W`) the hypothesis `cfg.cubFromW` (tmux/kitty `CUB` semantics) is needed — the case the code's own comment
    calls unreliable. -/
theorem choreography_at_cursor_noscroll (save : Bool) (t : Term) (p : Placeholder) (m : Mode) (fmt : FmtT)
    (hp : p.valid = true) (hm : m.valid = true) (hsc : p.startCol < 297) (hfmt : BgOnly fmt)
    (hw : t.cx + (p.endCol - p.startCol) ≤ t.w) (hrows : t.cy + (p.endRow - p.startRow) ≤ t.bot + 1) (hbot : t.bot < t.h)
    (hcub : save = false → (t.cfg.cubFromW = true ∨ t.cx + (p.endCol - p.startCol) < t.w)) :
    let t' := t.feedAll (streamToks (.atCursor save false) (p.endCol - p.startCol) (p.lineToksAll m fmt))
    (∀ i < p.endRow - p.startRow, p.startRow + i < 297 →
      decodeRow none ((List.range (p.endCol - p.startCol)).map fun j => t'.cells (t.cy + i) (t.cx + j)) =
        (List.range (p.endCol - p.startCol)).map fun j => some ⟨p.imageId, p.placementId, p.startRow + i, p.startCol + j⟩) ∧
    (∀ i < p.endRow - p.startRow, 297 ≤ p.startRow + i → ∀ j < p.endCol - p.startCol, (t'.cells (t.cy + i) (t.cx + j)).ch = 32) ∧
    (∀ y x, ¬ (t.cy ≤ y ∧ y < t.cy + (p.endRow - p.startRow) ∧ t.cx ≤ x ∧ x < t.cx + (p.endCol - p.startCol)) →
      t'.cells y x = t.cells y x) ∧
    t'.cx = t.cx + (p.endCol - p.startCol) ∧ t'.cy = t.cy + (p.endRow - p.startRow) - 1 ∧ t'.sgr = {} := by
  have hp' := hp
  simp only [Placeholder.valid, Bool.and_eq_true, decide_eq_true_eq] at hp'
  simp only [Mode.valid, Bool.and_eq_true, decide_eq_true_eq] at hm
  obtain ⟨⟨⟨⟨hid0, hid⟩, hpid⟩, hlt⟩, hrw⟩ := hp'
  obtain ⟨n, hn⟩ : ∃ n, p.endRow - p.startRow = n + 1 := ⟨p.endRow - p.startRow - 1, by omega⟩
  intro t'
  have ht' : t' = curRes save p m fmt n p.startRow t := by
    have := feed_cur save p m fmt hsc hlt hfmt n 0 p.startRow t hw (by omega) hbot hcub
    simp only [Nat.zero_add] at this
    simp only [t', streamToks, Placeholder.lineToksAll, hn, List.length_map, List.length_range']
    exact this
  have hread : ∀ i < n + 1,
      ((List.range (p.endCol - p.startCol)).map fun j => t'.cells (t.cy + i) (t.cx + j)) = rowCells p m fmt (p.startRow + i) := by
    intro i hi
    apply List.ext_getElem
    · simp [rowCells_length p m fmt _ hlt]
    · intro j h1 h2
      simp only [List.getElem_map, List.getElem_range, ht', curRes_cells save p m fmt hlt]
      have hj : j < p.endCol - p.startCol := by simpa using h1
      have hc : t.cy ≤ t.cy + i ∧ t.cy + i < t.cy + (n + 1) ∧ t.cx ≤ t.cx + j ∧ t.cx + j < t.cx + (p.endCol - p.startCol) := by omega
      have e1 : t.cy + i - t.cy = i := by omega
      have e2 : t.cx + j - t.cx = j := by omega
      simp [hc, e1, e2, h2]
  rw [hn]
  refine ⟨?_, ?_, ?_, ?_⟩
  · intro i hi hrow
    rw [hread i hi]
    simp only [rowCells, hrow, if_true]
    rw [decodeRow_lineScreenCells p m fmt _ (by omega) hpid ⟨hm.1.1, hm.1.2⟩ hrow hsc hlt hfmt, List.range'_eq_map_range]
    simp [List.map_map, Function.comp_def]
  · intro i hi hrow j hj
    have h := hread i hi
    have hj' : j < ((List.range (p.endCol - p.startCol)).map fun j => t'.cells (t.cy + i) (t.cx + j)).length := by simp [hj]
    have := List.getElem_of_eq h hj'
    simp only [List.getElem_map, List.getElem_range] at this
    rw [this]
    have hnot : ¬ p.startRow + i < 297 := by omega
    simp only [rowCells, hnot, if_false]
    exact blankScreenCells_ch p fmt _ _ (List.getElem_mem _)
  · intro y x hne
    rw [ht', curRes_cells save p m fmt hlt]
    simp [hne]
  · rw [ht']
    have := curRes_cursor save p m fmt n p.startRow t
    exact ⟨this.1, by rw [this.2.1]; omega, this.2.2⟩

/-- **(C) single-row case, every cursor-relative style**: for a one-row placeholder `to_stream_at_cursor` (with or without
    save/restore, with or without line feeds) writes exactly the line — no cursor movement at all — so `line_decodes`,
    `line_frame` and `line_decodes_row` are the complete choreography: cells at `(y0, x0 + j)`, cursor at `(x0 + C, y0)`,
    nothing else touched, for both values of every terminal parameter. -/
theorem choreography_single_row (save lf : Bool) (p : Placeholder) (m : Mode) (fmt : FmtT) (h : p.endRow = p.startRow + 1) :
    streamToks (.atCursor save lf) (p.endCol - p.startCol) (p.lineToksAll m fmt) = lineToks p m fmt p.startRow := by
  have : p.endRow - p.startRow = 1 := by omega
  simp [Placeholder.lineToksAll, this, streamToks, enumFrom, curBefore, curAfter]

/-- **(C) `choreography_at_cursor`, cursor-relative styles, scrolling included** (`to_stream_at_cursor` with save/restore — the
    default of `to_stream`/`display_only` — or with the relative `CSI n D`; no line feeds).  Terminal of ANY size `H × W`
    with the default scroll margins (`top = 0`, `bot = H - 1`), ANY prior screen content and SGR state, cursor at
    `(x0, y0)` on the screen with `x0 + C ≤ W`; ANY number of rows `R` (also `R > H`).  With
    `s = max 0 (y0 + R - H)` (natural-number subtraction below) lines scrolled, after the complete output
    * image row `i` sits on screen row `y0 + i - s`, columns `x0 … x0 + C - 1`, and decodes to
      `(id, pid, start_row + i, start_col + j)` for image rows < 297 (spaces for image rows ≥ 297) — the positions of
      DESIGN.md A.5; the side condition `s ≤ y0 + i` holds for every `i` when `R ≤ H` and otherwise excludes exactly the
      rows that have scrolled off the top;
    * every other cell of the screen holds the OLD content moved up by `s` lines (`t.cells (y + s) x`), and is a default
      blank where a line scrolled in (`y + s ≥ H`);
    * the cursor is at `(x0 + C, min (y0 + R - 1) (H - 1))` (`x = W`: pending wrap), the colours are default, and the
      specification's scroll counter `scrolled` advanced by exactly `s`.
    Save/restore: for both values of every terminal parameter.  Relative style: `cfg.cubFromW` (tmux/kitty `CUB`
    semantics) is needed only when the lines touch the right margin (`x0 + C = W`), as in the no-scroll theorem. -/
theorem choreography_at_cursor (save : Bool) (t : Term) (p : Placeholder) (m : Mode) (fmt : FmtT)
    (hp : p.valid = true) (hm : m.valid = true) (hsc : p.startCol < 297) (hfmt : BgOnly fmt)
    (hw : t.cx + (p.endCol - p.startCol) ≤ t.w)
    (htop : t.top = 0) (hbot : t.bot = t.h - 1) (hcy : t.cy < t.h)
    (hcub : save = false → (t.cfg.cubFromW = true ∨ t.cx + (p.endCol - p.startCol) < t.w)) :
    let t' := t.feedAll (streamToks (.atCursor save false) (p.endCol - p.startCol) (p.lineToksAll m fmt))
    let s := t.cy + (p.endRow - p.startRow) - t.h
    (∀ i < p.endRow - p.startRow, s ≤ t.cy + i → p.startRow + i < 297 →
      decodeRow none ((List.range (p.endCol - p.startCol)).map fun j => t'.cells (t.cy + i - s) (t.cx + j)) =
        (List.range (p.endCol - p.startCol)).map fun j => some ⟨p.imageId, p.placementId, p.startRow + i, p.startCol + j⟩) ∧
    (∀ i < p.endRow - p.startRow, s ≤ t.cy + i → 297 ≤ p.startRow + i → ∀ j < p.endCol - p.startCol,
      (t'.cells (t.cy + i - s) (t.cx + j)).ch = 32) ∧
    (∀ y x, y < t.h →
      ¬ (t.cy ≤ y + s ∧ y + s < t.cy + (p.endRow - p.startRow) ∧ t.cx ≤ x ∧ x < t.cx + (p.endCol - p.startCol)) →
      t'.cells y x = if y + s < t.h then t.cells (y + s) x else Cell.blank) ∧
    t'.cx = t.cx + (p.endCol - p.startCol) ∧ t'.cy = min (t.cy + (p.endRow - p.startRow) - 1) (t.h - 1) ∧ t'.sgr = {} ∧
    t'.scrolled = t.scrolled + (s : Int) := by
  intro t' s
  have h := Ph.choreo_atCursor_gen save false t p m fmt hp hm hsc hfmt ⟨htop, hbot, hcy⟩ hw (fun _ => hcub)
  simp only [Bool.false_eq_true, if_false, id_eq, lcol_false] at h
  exact h

/-- **(C) `choreography_linefeeds_at_cursor`**: `to_stream_at_cursor(use_line_feeds=True)` (with or without save/restore —
    neither is emitted) written to a tty, whose ONLCR turns every LF into CR LF (`Spec.onlcr`).  Same terminal hypotheses
    as `choreography_at_cursor` and the same `s = max 0 (y0 + R - H)` (the last line is NOT followed by a line feed).
    Image row `i` sits on screen row `y0 + i - s` at columns `c i … c i + C - 1` with `c 0 = x0` and `c i = 0` for `i > 0`
    (`x0 + C ≤ W` makes every line fit); every cell that is not a cell of some line holds the old content moved up by
    `s` (blank where a line scrolled in); final cursor `(c (R - 1) + C, min (y0 + R - 1) (H - 1))`, colours default.
    No terminal parameter is involved. -/
theorem choreography_linefeeds_at_cursor (save : Bool) (t : Term) (p : Placeholder) (m : Mode) (fmt : FmtT)
    (hp : p.valid = true) (hm : m.valid = true) (hsc : p.startCol < 297) (hfmt : BgOnly fmt)
    (hw : t.cx + (p.endCol - p.startCol) ≤ t.w)
    (htop : t.top = 0) (hbot : t.bot = t.h - 1) (hcy : t.cy < t.h) :
    let t' := t.feedAll (onlcr (streamToks (.atCursor save true) (p.endCol - p.startCol) (p.lineToksAll m fmt)))
    let s := t.cy + (p.endRow - p.startRow) - t.h
    let c := fun i => if i = 0 then t.cx else 0
    (∀ i < p.endRow - p.startRow, s ≤ t.cy + i → p.startRow + i < 297 →
      decodeRow none ((List.range (p.endCol - p.startCol)).map fun j => t'.cells (t.cy + i - s) (c i + j)) =
        (List.range (p.endCol - p.startCol)).map fun j => some ⟨p.imageId, p.placementId, p.startRow + i, p.startCol + j⟩) ∧
    (∀ i < p.endRow - p.startRow, s ≤ t.cy + i → 297 ≤ p.startRow + i → ∀ j < p.endCol - p.startCol,
      (t'.cells (t.cy + i - s) (c i + j)).ch = 32) ∧
    (∀ y x, y < t.h →
      (¬ ∃ i < p.endRow - p.startRow, y + s = t.cy + i ∧ c i ≤ x ∧ x < c i + (p.endCol - p.startCol)) →
      t'.cells y x = if y + s < t.h then t.cells (y + s) x else Cell.blank) ∧
    t'.cx = c (p.endRow - p.startRow - 1) + (p.endCol - p.startCol) ∧
    t'.cy = min (t.cy + (p.endRow - p.startRow) - 1) (t.h - 1) ∧ t'.sgr = {} ∧
    t'.scrolled = t.scrolled + (s : Int) := by
  intro t' s c
  have h := Ph.choreo_atCursor_gen save true t p m fmt hp hm hsc hfmt ⟨htop, hbot, hcy⟩ hw (fun h => by cases h)
  simp only [if_true, lcol_true] at h
  refine ⟨h.1, h.2.1, ?_, h.2.2.2⟩
  intro y x hy hn
  apply h.2.2.1 y x hy
  rintro ⟨a1, a2, a3, a4⟩
  apply hn
  refine ⟨y + s - t.cy, by omega, by omega, a3, a4⟩

/-- **(C) `choreography_linefeeds`**: `to_stream_with_linefeeds` written to a tty (ONLCR: LF → CR LF).  EVERY line, the last
    one included, is followed by a line feed, so `s = max 0 (y0 + R + 1 - H)` lines scroll — one more than in the
    at-cursor styles once the bottom line is reached.  Image row `i` sits on screen row `y0 + i - s` at columns
    `c i … c i + C - 1` (`c 0 = x0`, `c i = 0` for `i > 0`); every cell that is not a cell of some line holds the old
    content moved up by `s` (blank where a line scrolled in — in particular the whole last line once anything scrolled);
    the cursor ends at column 0 of row `min (y0 + R) (H - 1)`, colours default. -/
theorem choreography_linefeeds (t : Term) (p : Placeholder) (m : Mode) (fmt : FmtT)
    (hp : p.valid = true) (hm : m.valid = true) (hsc : p.startCol < 297) (hfmt : BgOnly fmt)
    (hw : t.cx + (p.endCol - p.startCol) ≤ t.w)
    (htop : t.top = 0) (hbot : t.bot = t.h - 1) (hcy : t.cy < t.h) :
    let t' := t.feedAll (onlcr (linefeedToks (p.lineToksAll m fmt)))
    let s := t.cy + (p.endRow - p.startRow) + 1 - t.h
    let c := fun i => if i = 0 then t.cx else 0
    (∀ i < p.endRow - p.startRow, s ≤ t.cy + i → p.startRow + i < 297 →
      decodeRow none ((List.range (p.endCol - p.startCol)).map fun j => t'.cells (t.cy + i - s) (c i + j)) =
        (List.range (p.endCol - p.startCol)).map fun j => some ⟨p.imageId, p.placementId, p.startRow + i, p.startCol + j⟩) ∧
    (∀ i < p.endRow - p.startRow, s ≤ t.cy + i → 297 ≤ p.startRow + i → ∀ j < p.endCol - p.startCol,
      (t'.cells (t.cy + i - s) (c i + j)).ch = 32) ∧
    (∀ y x, y < t.h →
      (¬ ∃ i < p.endRow - p.startRow, y + s = t.cy + i ∧ c i ≤ x ∧ x < c i + (p.endCol - p.startCol)) →
      t'.cells y x = if y + s < t.h then t.cells (y + s) x else Cell.blank) ∧
    t'.cx = 0 ∧ t'.cy = min (t.cy + (p.endRow - p.startRow)) (t.h - 1) ∧ t'.sgr = {} ∧
    t'.scrolled = t.scrolled + (s : Int) := by
  intro t' s c
  have h := Ph.choreo_linefeeds_gen t p m fmt hp hm hsc hfmt ⟨htop, hbot, hcy⟩ hw
  simp only [lcol_true] at h
  refine ⟨h.1, h.2.1, ?_, h.2.2.2⟩
  intro y x hy hn
  apply h.2.2.1 y x hy
  rintro ⟨a1, a2, a3, a4⟩
  apply hn
  refine ⟨y + s - t.cy, by omega, by omega, a3, a4⟩

/-- the hypotheses of `line_decodes` are satisfiable: ID 0x01020304 (needs the 3rd diacritic and 24-bit colour),
    placement 5, columns 1..3 of row 0, default mode, on a 10-column terminal -/
example : (⟨0x01020304, 5, 1, 0, 4, 2⟩ : Placeholder).valid = true ∧ (displayMode false).valid = true ∧
    BgOnly (getFormattingT (.idx 3)) ∧ (Term.init 10 4).cx + (4 - 1) ≤ (Term.init 10 4).w :=
  ⟨by decide, by decide, getFormattingT_bgOnly _, by decide⟩

/-- the hypotheses of `choreography_at_cursor` / `choreography_linefeeds*` are satisfiable — the hand-checked case of DESIGN.md §5
    C07: a placeholder of 4 rows × 3 columns started at column 17, row 3 of a 20 × 6 screen (touching the right margin, one
    line scrolls) -/
example :
    let t : Term := { Term.init 20 6 with cx := 17, cy := 3 }
    let p : Placeholder := ⟨0x01020304, 5, 0, 0, 3, 4⟩
    p.valid = true ∧ (displayMode false).valid = true ∧ p.startCol < 297 ∧ BgOnly (getFormattingT .none) ∧
    t.cx + (p.endCol - p.startCol) ≤ t.w ∧ t.top = 0 ∧ t.bot = t.h - 1 ∧ t.cy < t.h ∧ t.cfg.cubFromW = true ∧
    t.cy + (p.endRow - p.startRow) - t.h = 1 :=
  ⟨by decide, by decide, by decide, getFormattingT_bgOnly _, by decide, rfl, rfl, by decide, rfl, by decide⟩

/-- … and on that case the specification terminal, evaluated directly (kernel computation, independent of the theorems), shows
    what `choreography_at_cursor` says, in the save/restore and in the relative style: rows 2–5, columns 17–19 decode to the
    image cells, one line scrolled (the `A` of old row 1 is now on row 0, nothing else appears), final cursor `(20, 5)`. -/
example :
    let t : Term := { Term.init 20 6 with cx := 17, cy := 3, cells := fun y x => if y = 1 ∧ x = 0 then { ch := 65 } else Cell.blank }
    let p : Placeholder := ⟨0x01020304, 5, 0, 0, 3, 4⟩
    ∀ save : Bool,
    let t' := t.feedAll (streamToks (.atCursor save false) 3 (p.lineToksAll (displayMode false) .none))
    t'.cx = 20 ∧ t'.cy = 5 ∧ t'.scrolled = 1 ∧ (t'.cells 0 0).ch = 65 ∧
    (∀ i < 4, decodeRow none ((List.range 3).map fun j => t'.cells (2 + i) (17 + j)) =
      (List.range 3).map fun j => some ⟨0x01020304, 5, i, j⟩) ∧
    (∀ y < 6, ∀ x < 17, y ≠ 0 ∨ x ≠ 0 → t'.cells y x = Cell.blank) := by
  decide +kernel

/-- `to_stream_at_cursor(use_line_feeds=True)` through ONLCR on the same case: row 0 at column 17, rows 1–3 at column 0, screen
    rows 2–5, one line scrolled, final cursor `(3, 5)` -/
example :
    let t : Term := { Term.init 20 6 with cx := 17, cy := 3, cells := fun y x => if y = 1 ∧ x = 0 then { ch := 65 } else Cell.blank }
    let p : Placeholder := ⟨0x01020304, 5, 0, 0, 3, 4⟩
    let t' := t.feedAll (onlcr (streamToks (.atCursor true true) 3 (p.lineToksAll (displayMode false) .none)))
    t'.cx = 3 ∧ t'.cy = 5 ∧ t'.scrolled = 1 ∧ (t'.cells 0 0).ch = 65 ∧
    (∀ i < 4, decodeRow none ((List.range 3).map fun j => t'.cells (2 + i) ((if i = 0 then 17 else 0) + j)) =
      (List.range 3).map fun j => some ⟨0x01020304, 5, i, j⟩) := by
  decide +kernel

/-- `to_stream_with_linefeeds` through ONLCR on the same case: the trailing line feed scrolls a second line — screen rows 1–4,
    bottom row blank, final cursor `(0, 5)` -/
example :
    let t : Term := { Term.init 20 6 with cx := 17, cy := 3, cells := fun y x => if y = 2 ∧ x = 0 then { ch := 65 } else Cell.blank }
    let p : Placeholder := ⟨0x01020304, 5, 0, 0, 3, 4⟩
    let t' := t.feedAll (onlcr (linefeedToks (p.lineToksAll (displayMode false) .none)))
    t'.cx = 0 ∧ t'.cy = 5 ∧ t'.scrolled = 2 ∧ (t'.cells 0 0).ch = 65 ∧
    (∀ i < 4, decodeRow none ((List.range 3).map fun j => t'.cells (1 + i) ((if i = 0 then 17 else 0) + j)) =
      (List.range 3).map fun j => some ⟨0x01020304, 5, i, j⟩) ∧
    (∀ x < 20, t'.cells 5 x = Cell.blank) := by
  decide +kernel

/-
  Status of the full statement of DESIGN.md C07 / Appendix A.5:

  (C) choreography : for every style, W, H, (x0, y0), rectangle fitting the width (abs: also the height):
        let t' := feedAll (blank W H at (x0,y0)) (streamToks style …);
        ∀ i < R, ∀ j < C, decode t' (expectedPos style i j) = some ⟨id, pid, startRow+i, startCol+j⟩ ∧ every other cell is blank
      with the hypothesis `cfg.cubFromW` for the relative style touching the right margin.
      Proved above, each from ANY prior screen content and SGR state (so "every other cell is blank" is the special case
      of a blank start screen of the frame conditions):
      * absolute-position style: `choreography_abs` (both values of every terminal parameter);
      * cursor-relative styles with save/restore or relative movement: `choreography_at_cursor` — scrolling included
        (`s = max 0 (y0 + R - H)`), default scroll margins; `choreography_at_cursor_noscroll` additionally covers
        non-default margins when nothing scrolls; `cubFromW` only where the relative style touches the right margin;
      * line-feed styles through the tty's ONLCR (`Spec.onlcr`): `choreography_linefeeds_at_cursor`
        (`to_stream_at_cursor(use_line_feeds=True)`, `s = max 0 (y0 + R - H)`) and `choreography_linefeeds`
        (`to_stream_with_linefeeds`, `s = max 0 (y0 + R + 1 - H)` because of the trailing line feed);
      * single-row case of every cursor-relative style: `choreography_single_row`.
      Nothing of (C) is left as TODO.  Outside the statement (not claimed): scrolling with NON-default scroll margins
      (DECSTBM active while the placeholder is printed), and the line-feed styles on a stream without ONLCR (in `Spec.Term` a
      raw LF keeps the column, so the lines would form a staircase).
-/

end Tup.C07
