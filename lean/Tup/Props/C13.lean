import Tup.Props.C07
import Tup.Lemmas.PhStream
import Tup.Lemmas.PhScrollChoreo
/-!
  C13 — each placeholder line is self-contained and leaves text attributes reset.

  The model follows the code WITH the D9 repair (fixes/D9-blank-line-reset.diff): on the unrepaired tree the blank-line
  branch of `to_lines` (rows ≥ 297) has no trailing reset, `line_resets` is false there, and the check reports the
  failing input (corpus/C13/d9-*.json).
-/
namespace Tup.C13
open Tup Tup.Spec Tup.Ph

/-- **`line_resets`** (`ends_default` for one line): after ANY emitted line — printable or blank row, any caller formatting
    whatsoever, any terminal state, any width — foreground, underline and background colours are default. -/
theorem line_resets (t : Term) (p : Placeholder) (m : Mode) (fmt : FmtT) (row : Nat) :
    (t.feedAll (lineToks p m fmt row)).sgr = {} := by
  obtain ⟨pre, h⟩ := lineToks_ends_reset p m fmt row
  rw [h]
  exact feedAll_ends_reset t pre

/-- **`ends_default`** for complete outputs: after the whole output in any at-cursor style (save/restore, relative, line
    feeds) or the absolute style, from any terminal state, the colours are default. -/
theorem ends_default (t : Term) (p : Placeholder) (m : Mode) (fmt : FmtT) (st : Style) (hrows : p.startRow < p.endRow) :
    (t.feedAll (streamToks st (p.endCol - p.startCol) (p.lineToksAll m fmt))).sgr = {} := by
  rw [lineToksAll_ne_nil p m fmt hrows]
  obtain ⟨pre, h⟩ := streamToks_snoc st (p.endCol - p.startCol)
    ((List.range' p.startRow (p.endRow - p.startRow - 1)).map (lineToks p m fmt)) (lineToks p m fmt (p.endRow - 1))
  rw [h, feedAll_append]
  exact line_resets _ p m fmt _

/-- … and after `to_stream_with_linefeeds` (every line followed by LF). -/
theorem ends_default_linefeeds (t : Term) (p : Placeholder) (m : Mode) (fmt : FmtT) (hrows : p.startRow < p.endRow) :
    (t.feedAll (linefeedToks (p.lineToksAll m fmt))).sgr = {} := by
  rw [lineToksAll_ne_nil p m fmt hrows]
  simp only [linefeedToks, List.flatMap_append, List.flatMap_cons, List.flatMap_nil, List.append_nil]
  rw [feedAll_append, feedAll_append, feedAll_singleton]
  show (Term.index _).sgr = {}
  rw [index_sgr]
  exact line_resets _ p m fmt _

/-- **`line_alone`**: take any single emitted line (row < 297) and show it alone at the start of a row that holds no
    placeholder cell (e.g. a blank row), on a terminal in an ARBITRARY SGR state `s0` with arbitrary other content.
    The complete row then decodes to exactly that line's image cells followed by non-placeholder cells: the line carries
    its own reset, colours and row/column information, so every subset and every order of the lines shows the right
    cells (apply this to each shown line; `line_confined` says no other row is touched). -/
theorem line_alone (t : Term) (s0 : Sgr) (p : Placeholder) (m : Mode) (fmt : FmtT) (row : Nat)
    (hp : p.valid = true) (hm : m.valid = true) (hrow : row < 297) (hsc : p.startCol < 297)
    (hfmt : BgOnly fmt) (hfit : p.endCol - p.startCol ≤ t.w)
    (hclean : ∀ x, (t.cells t.cy x).ch ≠ placeholderChar) :
    decodeRow none (({ t with cx := 0, sgr := s0 } : Term).feedAll (lineToks p m fmt row) |>.row t.cy) =
      ((List.range (p.endCol - p.startCol)).map fun j => some ⟨p.imageId, p.placementId, row, p.startCol + j⟩) ++
      List.replicate (t.w - (p.endCol - p.startCol)) none := by
  have := C07.line_decodes_row { t with cx := 0, sgr := s0 } p m fmt row hp hm hrow hsc hfmt (by simpa using hfit) hclean
  simpa using this

/-- **`formatting_confined`** (per line): with background-only caller formatting (constant bytes, per-row or per-cell
    functions returning the forms `get_formatting` produces), a line changes no cell outside its own `C` cells — in
    particular no cell outside the placeholder's rectangle receives the caller's background — and the background does not
    outlive the line (`line_resets`). -/
theorem line_confined (t : Term) (p : Placeholder) (m : Mode) (fmt : FmtT) (row : Nat)
    (hp : p.valid = true) (hsc : p.startCol < 297) (hfmt : BgOnly fmt) (hfit : t.cx + (p.endCol - p.startCol) ≤ t.w) :
    ∀ y x, ¬ (y = t.cy ∧ t.cx ≤ x ∧ x < t.cx + (p.endCol - p.startCol)) →
      (t.feedAll (lineToks p m fmt row)).cells y x = t.cells y x :=
  (C07.line_frame t p m fmt row hp hsc hfmt hfit).2.2.2

/-- **`formatting_confined`** for a complete output in the absolute-position style: from any terminal state, with the rectangle
    fitting the screen at `(px, py)`, every cell outside the rectangle is exactly what it was — no background, no
    character, no colour leaks — and the colours end default (`ends_default`). -/
theorem formatting_confined_abs (t : Term) (p : Placeholder) (m : Mode) (fmt : FmtT) (px py : Nat)
    (hp : p.valid = true) (hm : m.valid = true) (hsc : p.startCol < 297) (hfmt : BgOnly fmt)
    (hw : px + (p.endCol - p.startCol) ≤ t.w) (hh : py + (p.endRow - p.startRow) ≤ t.h) :
    ∀ y x, ¬ (py ≤ y ∧ y < py + (p.endRow - p.startRow) ∧ px ≤ x ∧ x < px + (p.endCol - p.startCol)) →
      (t.feedAll (streamToks (.abs px py) (p.endCol - p.startCol) (p.lineToksAll m fmt))).cells y x = t.cells y x :=
  (C07.choreography_abs t p m fmt px py hp hm hsc hfmt hw hh).2.2.1

/-- **`formatting_confined`** for a complete output in the cursor-relative styles (save/restore or relative movement) when
    nothing scrolls: every cell outside the rectangle at the cursor is exactly what it was. -/
theorem formatting_confined_at_cursor (save : Bool) (t : Term) (p : Placeholder) (m : Mode) (fmt : FmtT)
    (hp : p.valid = true) (hm : m.valid = true) (hsc : p.startCol < 297) (hfmt : BgOnly fmt)
    (hw : t.cx + (p.endCol - p.startCol) ≤ t.w) (hrows : t.cy + (p.endRow - p.startRow) ≤ t.bot + 1) (hbot : t.bot < t.h)
    (hcub : save = false → (t.cfg.cubFromW = true ∨ t.cx + (p.endCol - p.startCol) < t.w)) :
    ∀ y x, ¬ (t.cy ≤ y ∧ y < t.cy + (p.endRow - p.startRow) ∧ t.cx ≤ x ∧ x < t.cx + (p.endCol - p.startCol)) →
      (t.feedAll (streamToks (.atCursor save false) (p.endCol - p.startCol) (p.lineToksAll m fmt))).cells y x = t.cells y x :=
  (C07.choreography_at_cursor_noscroll save t p m fmt hp hm hsc hfmt hw hrows hbot hcub).2.2.1

/-- **`formatting_confined`** for a complete output in the cursor-relative styles (save/restore or relative movement) WITH
    scrolling: default scroll margins, any screen size, any prior content, any start row, any number of rows.  With
    `s = max 0 (y0 + R - H)` lines scrolled, every cell outside the (moved-up) rectangle is exactly the OLD cell `s` rows
    further down — character, colours and background unchanged, merely shifted — or a default blank (no background)
    where a line scrolled in: the caller's background is carried by cells of the rectangle only. -/
theorem formatting_confined_at_cursor_scroll (save : Bool) (t : Term) (p : Placeholder) (m : Mode) (fmt : FmtT)
    (hp : p.valid = true) (hm : m.valid = true) (hsc : p.startCol < 297) (hfmt : BgOnly fmt)
    (hw : t.cx + (p.endCol - p.startCol) ≤ t.w)
    (htop : t.top = 0) (hbot : t.bot = t.h - 1) (hcy : t.cy < t.h)
    (hcub : save = false → (t.cfg.cubFromW = true ∨ t.cx + (p.endCol - p.startCol) < t.w)) :
    let t' := t.feedAll (streamToks (.atCursor save false) (p.endCol - p.startCol) (p.lineToksAll m fmt))
    let s := t.cy + (p.endRow - p.startRow) - t.h
    ∀ y x, y < t.h →
      ¬ (t.cy ≤ y + s ∧ y + s < t.cy + (p.endRow - p.startRow) ∧ t.cx ≤ x ∧ x < t.cx + (p.endCol - p.startCol)) →
      t'.cells y x = if y + s < t.h then t.cells (y + s) x else Cell.blank :=
  (C07.choreography_at_cursor save t p m fmt hp hm hsc hfmt hw htop hbot hcy hcub).2.2.1

/-- **`formatting_confined`** for `to_stream_at_cursor(use_line_feeds=True)` through the tty's ONLCR (scrolling included): every
    cell that is not a cell of one of the lines (line 0 from the cursor column, the others from column 0) is the old cell
    `s = max 0 (y0 + R - H)` rows further down, or a default blank where a line scrolled in. -/
theorem formatting_confined_at_cursor_linefeeds (save : Bool) (t : Term) (p : Placeholder) (m : Mode) (fmt : FmtT)
    (hp : p.valid = true) (hm : m.valid = true) (hsc : p.startCol < 297) (hfmt : BgOnly fmt)
    (hw : t.cx + (p.endCol - p.startCol) ≤ t.w)
    (htop : t.top = 0) (hbot : t.bot = t.h - 1) (hcy : t.cy < t.h) :
    let t' := t.feedAll (onlcr (streamToks (.atCursor save true) (p.endCol - p.startCol) (p.lineToksAll m fmt)))
    let s := t.cy + (p.endRow - p.startRow) - t.h
    let c := fun i => if i = 0 then t.cx else 0
    ∀ y x, y < t.h →
      (¬ ∃ i < p.endRow - p.startRow, y + s = t.cy + i ∧ c i ≤ x ∧ x < c i + (p.endCol - p.startCol)) →
      t'.cells y x = if y + s < t.h then t.cells (y + s) x else Cell.blank :=
  (C07.choreography_linefeeds_at_cursor save t p m fmt hp hm hsc hfmt hw htop hbot hcy).2.2.1

/-- **`formatting_confined`** for `to_stream_with_linefeeds` through the tty's ONLCR (scrolling included; `s = max 0 (y0 + R + 1 - H)`
    because the last line is followed by a line feed too). -/
theorem formatting_confined_linefeeds (t : Term) (p : Placeholder) (m : Mode) (fmt : FmtT)
    (hp : p.valid = true) (hm : m.valid = true) (hsc : p.startCol < 297) (hfmt : BgOnly fmt)
    (hw : t.cx + (p.endCol - p.startCol) ≤ t.w)
    (htop : t.top = 0) (hbot : t.bot = t.h - 1) (hcy : t.cy < t.h) :
    let t' := t.feedAll (onlcr (linefeedToks (p.lineToksAll m fmt)))
    let s := t.cy + (p.endRow - p.startRow) + 1 - t.h
    let c := fun i => if i = 0 then t.cx else 0
    ∀ y x, y < t.h →
      (¬ ∃ i < p.endRow - p.startRow, y + s = t.cy + i ∧ c i ≤ x ∧ x < c i + (p.endCol - p.startCol)) →
      t'.cells y x = if y + s < t.h then t.cells (y + s) x else Cell.blank :=
  (C07.choreography_linefeeds t p m fmt hp hm hsc hfmt hw htop hbot hcy).2.2.1

/-- **`ends_default`** for what the terminal really receives from a tty (ONLCR applied), any style, any formatting, any
    terminal state: the colours are default after the complete output … -/
theorem ends_default_onlcr (t : Term) (p : Placeholder) (m : Mode) (fmt : FmtT) (st : Style) (hrows : p.startRow < p.endRow) :
    (t.feedAll (onlcr (streamToks st (p.endCol - p.startCol) (p.lineToksAll m fmt)))).sgr = {} := by
  rw [lineToksAll_ne_nil p m fmt hrows]
  obtain ⟨pre, h⟩ := streamToks_snoc st (p.endCol - p.startCol)
    ((List.range' p.startRow (p.endRow - p.startRow - 1)).map (lineToks p m fmt)) (lineToks p m fmt (p.endRow - 1))
  obtain ⟨pre', h'⟩ := lineToks_ends_reset p m fmt (p.endRow - 1)
  have hr : onlcr [sgrReset] = [sgrReset] := rfl
  rw [h, h', onlcr_append, onlcr_append, hr, ← List.append_assoc]
  exact feedAll_ends_reset t _

/-- … and after `to_stream_with_linefeeds` through ONLCR. -/
theorem ends_default_linefeeds_onlcr (t : Term) (p : Placeholder) (m : Mode) (fmt : FmtT) (hrows : p.startRow < p.endRow) :
    (t.feedAll (onlcr (linefeedToks (p.lineToksAll m fmt)))).sgr = {} := by
  rw [lineToksAll_ne_nil p m fmt hrows]
  obtain ⟨pre', h'⟩ := lineToks_ends_reset p m fmt (p.endRow - 1)
  have hr : onlcr ([sgrReset] ++ [Tok.c0 10]) = [sgrReset] ++ [Tok.c0 13, Tok.c0 10] := rfl
  simp only [linefeedToks, List.flatMap_append, List.flatMap_cons, List.flatMap_nil, List.append_nil]
  rw [h', List.append_assoc pre', onlcr_append, onlcr_append, hr, feedAll_append, feedAll_append, feedAll_append]
  show (Term.index _).sgr = {}
  rw [index_sgr]
  have key : ∀ u : Term, ((u.feedAll [sgrReset]).feed (Tok.c0 13)).sgr = {} := fun u => feed_reset_sgr u
  exact key _

/-- the formatting the display path produces is background-only, so the theorems above apply to it -/
theorem display_formatting_bgOnly (b : Background) : BgOnly (getFormattingT b) := getFormattingT_bgOnly b

/-- hypotheses satisfiable: a 3-cell line with a per-row background on a blank 10×4 terminal in a coloured SGR state -/
example : (⟨255, 0, 0, 296, 3, 298⟩ : Placeholder).valid = true ∧ BgOnly (.row fun _ => [.csi [48, 5, 3] 109]) ∧
    (∀ x, ((Term.init 10 4).cells (Term.init 10 4).cy x).ch ≠ placeholderChar) :=
  ⟨by decide, ⟨fun _ t ht => by simp [FmtT.rowT] at ht; exact Or.inl ⟨3, ht⟩, fun _ _ t ht => by simp [FmtT.cellT] at ht⟩,
   fun _ => by simp [Term.init, Cell.blank, placeholderChar]⟩

/-- hypotheses of the scrolling / line-feed confinement theorems satisfiable, with a background: the hand-checked case of
    DESIGN.md §5 C07 (4 rows × 3 columns from column 17, row 3 of a 20 × 6 screen) with the display path's background 3 … -/
example :
    let t : Term := { Term.init 20 6 with cx := 17, cy := 3 }
    let p : Placeholder := ⟨255, 0, 0, 0, 3, 4⟩
    p.valid = true ∧ (displayMode false).valid = true ∧ p.startCol < 297 ∧ BgOnly (getFormattingT (.idx 3)) ∧
    t.cx + (p.endCol - p.startCol) ≤ t.w ∧ t.top = 0 ∧ t.bot = t.h - 1 ∧ t.cy < t.h :=
  ⟨by decide, by decide, by decide, getFormattingT_bgOnly _, by decide, rfl, rfl, by decide⟩

/-- … on which the specification terminal, evaluated directly, shows the background 3 on exactly the 12 cells of the moved-up
    rectangle (rows 2–5, columns 17–19) in the save/restore and relative styles, and on exactly the cells of the four lines
    in both line-feed styles. -/
example :
    let t : Term := { Term.init 20 6 with cx := 17, cy := 3 }
    let p : Placeholder := ⟨255, 0, 0, 0, 3, 4⟩
    let lines := p.lineToksAll (displayMode false) (getFormattingT (.idx 3))
    (∀ save : Bool, ∀ y < 6, ∀ x < 20,
      ((t.feedAll (streamToks (.atCursor save false) 3 lines)).cells y x).bg =
        if 2 ≤ y ∧ 17 ≤ x then some (.idx 3) else none) ∧
    (∀ y < 6, ∀ x < 20,
      ((t.feedAll (onlcr (streamToks (.atCursor true true) 3 lines))).cells y x).bg =
        if (y = 2 ∧ 17 ≤ x) ∨ (3 ≤ y ∧ x < 3) then some (.idx 3) else none) ∧
    (∀ y < 6, ∀ x < 20,
      ((t.feedAll (onlcr (linefeedToks lines))).cells y x).bg =
        if (y = 1 ∧ 17 ≤ x) ∨ (2 ≤ y ∧ y ≤ 4 ∧ x < 3) then some (.idx 3) else none) := by
  decide +kernel

/-
  Stream-level confinement is now proved for every style: `formatting_confined_abs`, `formatting_confined_at_cursor` (no
  scrolling, any scroll margins), `formatting_confined_at_cursor_scroll` (scrolling, default margins) and the two line-feed
  styles through ONLCR (`formatting_confined_at_cursor_linefeeds`, `formatting_confined_linefeeds`); they are the frame
  conditions of the C07(C) choreography theorems.  Cells created by `ESC D` / LF scrolling are default blanks in
  `Spec.Term` whatever the SGR state (and the state between two lines is default anyway, `line_resets`).
  Not claimed: non-default scroll margins while scrolling, line feeds without ONLCR.
-/

end Tup.C13
