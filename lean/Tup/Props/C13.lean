import Tup.Props.C07
import Tup.Lemmas.PhStream
/-!
  C13 — each placeholder line is self-contained and leaves text attributes reset.

  The model follows the code WITH the D9 repair (fixes/D9-blank-line-reset.diff): on the unrepaired tree the blank-line
  branch of `to_lines` (rows ≥ 297) has no trailing reset, `line_resets` is false there, and the check reports the
  failing input (corpus/C13/d9-*.json).
-/
namespace Tup.C13
open Tup Tup.Spec Tup.Ph

/-- **`line_resets`** (`ends_default` for one line): after ANY emitted line — printable or blank row, any caller formatting
    whatsoever, any terminal state, any width — foreground, underline and background colours are default. -/
theorem line_resets (t : Term) (p : Placeholder) (m : Mode) (fmt : FmtT) (row : Nat) :
    (t.feedAll (lineToks p m fmt row)).sgr = {} := by
  obtain ⟨pre, h⟩ := lineToks_ends_reset p m fmt row
  rw [h]
  exact feedAll_ends_reset t pre

/-- **`ends_default`** for complete outputs: after the whole output in any at-cursor style (save/restore, relative, line
    feeds) or the absolute style, from any terminal state, the colours are default. -/
theorem ends_default (t : Term) (p : Placeholder) (m : Mode) (fmt : FmtT) (st : Style) (hrows : p.startRow < p.endRow) :
    (t.feedAll (streamToks st (p.endCol - p.startCol) (p.lineToksAll m fmt))).sgr = {} := by
  rw [lineToksAll_ne_nil p m fmt hrows]
  obtain ⟨pre, h⟩ := streamToks_snoc st (p.endCol - p.startCol)
    ((List.range' p.startRow (p.endRow - p.startRow - 1)).map (lineToks p m fmt)) (lineToks p m fmt (p.endRow - 1))
  rw [h, feedAll_append]
  exact line_resets _ p m fmt _

/-- … and after `to_stream_with_linefeeds` (every line followed by LF). -/
theorem ends_default_linefeeds (t : Term) (p : Placeholder) (m : Mode) (fmt : FmtT) (hrows : p.startRow < p.endRow) :
    (t.feedAll (linefeedToks (p.lineToksAll m fmt))).sgr = {} := by
  rw [lineToksAll_ne_nil p m fmt hrows]
  simp only [linefeedToks, List.flatMap_append, List.flatMap_cons, List.flatMap_nil, List.append_nil]
  rw [feedAll_append, feedAll_append, feedAll_singleton]
  show (Term.index _).sgr = {}
  rw [index_sgr]
  exact line_resets _ p m fmt _

/-- **`line_alone`**: take any single emitted line (row < 297) and show it alone at the start of a row that holds no
    placeholder cell (e.g. a blank row), on a terminal in an ARBITRARY SGR state `s0` with arbitrary other content.
    The complete row then decodes to exactly that line's image cells followed by non-placeholder cells: the line carries
    its own reset, colours and row/column information, so every subset and every order of the lines shows the right
    cells (apply this to each shown line; `line_confined` says no other row is touched). -/
theorem line_alone (t : Term) (s0 : Sgr) (p : Placeholder) (m : Mode) (fmt : FmtT) (row : Nat)
    (hp : p.valid = true) (hm : m.valid = true) (hrow : row < 297) (hsc : p.startCol < 297)
    (hfmt : BgOnly fmt) (hfit : p.endCol - p.startCol ≤ t.w)
    (hclean : ∀ x, (t.cells t.cy x).ch ≠ placeholderChar) :
    decodeRow none (({ t with cx := 0, sgr := s0 } : Term).feedAll (lineToks p m fmt row) |>.row t.cy) =
      ((List.range (p.endCol - p.startCol)).map fun j => some ⟨p.imageId, p.placementId, row, p.startCol + j⟩) ++
      List.replicate (t.w - (p.endCol - p.startCol)) none := by
  have := C07.line_decodes_row { t with cx := 0, sgr := s0 } p m fmt row hp hm hrow hsc hfmt (by simpa using hfit) hclean
  simpa using this

/-- **`formatting_confined`** (per line): with background-only caller formatting (constant bytes, per-row or per-cell
    functions returning the forms `get_formatting` produces), a line changes no cell outside its own `C` cells — in
    particular no cell outside the placeholder's rectangle receives the caller's background — and the background does not
    outlive the line (`line_resets`). -/
theorem line_confined (t : Term) (p : Placeholder) (m : Mode) (fmt : FmtT) (row : Nat)
    (hp : p.valid = true) (hsc : p.startCol < 297) (hfmt : BgOnly fmt) (hfit : t.cx + (p.endCol - p.startCol) ≤ t.w) :
    ∀ y x, ¬ (y = t.cy ∧ t.cx ≤ x ∧ x < t.cx + (p.endCol - p.startCol)) →
      (t.feedAll (lineToks p m fmt row)).cells y x = t.cells y x :=
  (C07.line_frame t p m fmt row hp hsc hfmt hfit).2.2.2

/-- **`formatting_confined`** for a complete output in the absolute-position style: from any terminal state, with the rectangle
    fitting the screen at `(px, py)`, every cell outside the rectangle is exactly what it was — no background, no
    character, no colour leaks — and the colours end default (`ends_default`). -/
theorem formatting_confined_abs (t : Term) (p : Placeholder) (m : Mode) (fmt : FmtT) (px py : Nat)
    (hp : p.valid = true) (hm : m.valid = true) (hsc : p.startCol < 297) (hfmt : BgOnly fmt)
    (hw : px + (p.endCol - p.startCol) ≤ t.w) (hh : py + (p.endRow - p.startRow) ≤ t.h) :
    ∀ y x, ¬ (py ≤ y ∧ y < py + (p.endRow - p.startRow) ∧ px ≤ x ∧ x < px + (p.endCol - p.startCol)) →
      (t.feedAll (streamToks (.abs px py) (p.endCol - p.startCol) (p.lineToksAll m fmt))).cells y x = t.cells y x :=
  (C07.choreography_abs t p m fmt px py hp hm hsc hfmt hw hh).2.2.1

/-- **`formatting_confined`** for a complete output in the cursor-relative styles (save/restore or relative movement) when
    nothing scrolls: every cell outside the rectangle at the cursor is exactly what it was. -/
theorem formatting_confined_at_cursor (save : Bool) (t : Term) (p : Placeholder) (m : Mode) (fmt : FmtT)
    (hp : p.valid = true) (hm : m.valid = true) (hsc : p.startCol < 297) (hfmt : BgOnly fmt)
    (hw : t.cx + (p.endCol - p.startCol) ≤ t.w) (hrows : t.cy + (p.endRow - p.startRow) ≤ t.bot + 1) (hbot : t.bot < t.h)
    (hcub : save = false → (t.cfg.cubFromW = true ∨ t.cx + (p.endCol - p.startCol) < t.w)) :
    ∀ y x, ¬ (t.cy ≤ y ∧ y < t.cy + (p.endRow - p.startRow) ∧ t.cx ≤ x ∧ x < t.cx + (p.endCol - p.startCol)) →
      (t.feedAll (streamToks (.atCursor save false) (p.endCol - p.startCol) (p.lineToksAll m fmt))).cells y x = t.cells y x :=
  (C07.choreography_at_cursor_noscroll save t p m fmt hp hm hsc hfmt hw hrows hbot hcub).2.2.1

/-- the formatting the display path produces is background-only, so the theorems above apply to it -/
theorem display_formatting_bgOnly (b : Background) : BgOnly (getFormattingT b) := getFormattingT_bgOnly b

/-- hypotheses satisfiable: a 3-cell line with a per-row background on a blank 10×4 terminal in a coloured SGR state -/
example : (⟨255, 0, 0, 296, 3, 298⟩ : Placeholder).valid = true ∧ BgOnly (.row fun _ => [.csi [48, 5, 3] 109]) ∧
    (∀ x, ((Term.init 10 4).cells (Term.init 10 4).cy x).ch ≠ placeholderChar) :=
  ⟨by decide, ⟨fun _ t ht => by simp [FmtT.rowT] at ht; exact Or.inl ⟨3, ht⟩, fun _ _ t ht => by simp [FmtT.cellT] at ht⟩,
   fun _ => by simp [Term.init, Cell.blank, placeholderChar]⟩

/-
  Stream-level confinement when the output scrolls the screen, and for the line-feed styles, needs the remaining part of
  the choreography of C07(C); TODO (`formatting_confined_abs` and `formatting_confined_at_cursor` cover the absolute style
  and the non-scrolling cursor-relative styles).  The per-line statement above is its induction step:
  between two lines the SGR state is default (`line_resets`), so cells created by `ESC D` / LF scrolling are default blanks.
-/

end Tup.C13
