import Mathlib.Logic.ExistsUnique
import Tup.Model.IdSpace
import Tup.Gen.Spaces
import Tup.Spec.Layout
import Tup.Lemmas.IdSpace
import Tup.Lemmas.IdSpaceSplit
import Tup.Lemmas.IdSpaceEnum
import Tup.Lemmas.IdSpaceRand
/-!
  C10 — ID spaces partition the 32-bit IDs; enumeration, size, membership, filters agree.

  Model: `Tup.Model.IdSpace` (`tupimage/id_manager.py`, classes `IDSubspace`, `IDSpace`).
  Specification: `Tup.Spec.Layout` (`inSpace`, `subByte`, `member`: byte projections + feature table).
  Every theorem holds for every natural number `id`, every one of the five spaces
  (`s ∈ Space.all`, equivalently `s.valid`), every valid subspace (`u.valid`): no bounds.
  The proofs are in `Tup/Lemmas/IdSpace*.lean` (namespace `Tup.IdLemmas`, core Lean only).
-/
namespace Tup.C10
open Tup Tup.IdLemmas

/-! ### the spaces -/

theorem all_spaces_valid : ∀ s ∈ Space.all, s.valid = true := by decide

/-- Tie of the model to the repository (regenerated `Tup.Gen.Spaces`): `IDSpace.all_values()` yields the model's
    five spaces in the model's order, and for each of them `str`, `num_nonzero_bits`, `subspace_byte_offset`,
    `subspace_byte_mask`, and `subspace_size` / `subspace_masked_range` at the probe subspaces return what the
    model computes; `IDSubspace()` is the full subspace; `from_string` reads every printed name back. -/
theorem spaces_match_repo :
    Space.all.map (fun s => (⟨s.colorBits, s.use3rd, s.name, s.numNonzeroBits, s.byteOffset, s.byteMask,
        Gen.spaceProbes.map (fun p => s.subspaceSize ⟨p.1, p.2⟩),
        Gen.spaceProbes.map (fun p => s.maskedRange ⟨p.1, p.2⟩)⟩ : Gen.SpaceRow)) = Gen.spaces ∧
    (Sub.full.b, Sub.full.e) = Gen.defaultSubspace ∧
    (∀ r ∈ Gen.spaces, Space.ofString r.name = some ⟨r.colorBits, r.use3rd⟩) ∧
    (∀ p ∈ Gen.spaceProbes, (Sub.mk p.1 p.2).valid = true) := by
  refine ⟨by decide +kernel, by decide, by decide +kernel, by decide⟩

/-- `IDSpace.all_values()` lists exactly the spaces the constructor accepts. -/
theorem valid_iff_mem_all (s : Space) : s.valid = true ↔ s ∈ Space.all :=
  IdLemmas.valid_iff_mem_all s

/-- 1. Partition: every non-zero 32-bit id lies in exactly one of the five spaces. -/
theorem exists_unique_space (id : Nat) (h0 : 0 < id) (h1 : id < 2 ^ 32) :
    ∃! s, s ∈ Space.all ∧ Spec.inSpace s id = true :=
  IdLemmas.exists_unique_space id h0 h1

/-- no id outside `1 .. 2^32-1` is in any space -/
theorem inSpace_range (s : Space) (id : Nat) (h : Spec.inSpace s id = true) :
    0 < id ∧ id < 2 ^ 32 ∧ s ∈ Space.all := by
  refine ⟨?_, ?_, inSpace_valid h⟩ <;> (simp [Spec.inSpace] at h; omega)

/-- 2. `from_id` returns `s` exactly when `s` is a valid space whose features `id` uses. -/
theorem fromId_spec (id : Nat) (s : Space) :
    fromId id = some s ↔ (s.valid = true ∧ Spec.inSpace s id = true) :=
  IdLemmas.fromId_spec id s

/-- 2'. `from_id` raises exactly on `0` and on ids of more than 32 bits. -/
theorem fromId_none_iff (id : Nat) : fromId id = none ↔ (id = 0 ∨ id ≥ 2 ^ 32) :=
  IdLemmas.fromId_none_iff id

/-- `contains` is the specification's `inSpace`. -/
theorem contains_iff_inSpace (s : Space) (hs : s ∈ Space.all) (id : Nat) (h0 : 0 < id)
    (h1 : id < 2 ^ 32) : s.contains id = some (Spec.inSpace s id) := by
  obtain ⟨t, ht⟩ := fromId_isSome h0 (by simpa using h1)
  simp only [Space.contains, ht, Option.map_some, Option.some.injEq]
  rw [Bool.eq_iff_iff, ← fromId_iff_inSpace hs id, ht]; simp

/-- 3. `contains_and_in_subspace` decides membership as specified. -/
theorem containsInSub_iff_member (s : Space) (hs : s ∈ Space.all) (u : Sub) (id : Nat)
    (h0 : 0 < id) (h1 : id < 2 ^ 32) : s.containsInSub id u = some (Spec.member s u id) :=
  IdLemmas.containsInSub_iff_member hs u id h0 h1

/-- 4. `get_subspace_byte` is the specification's subspace byte of the id's own space
    (and raises exactly when `from_id` does). -/
theorem subspaceByte_spec (id : Nat) :
    subspaceByte id = (fromId id).map (fun s => Spec.subByte s id) :=
  IdLemmas.subspaceByte_spec id

/-- 10. On rows of the space's own table the SQL range filter selects exactly the subspace. -/
theorem sqlFilter_iff_member (s : Space) (u : Sub) (hu : u.valid = true) (id : Nat)
    (hi : Spec.inSpace s id = true) : s.sqlFilter u id = true ↔ Spec.member s u id = true :=
  IdLemmas.sqlFilter_iff_member hu hi

/-- 11. Subspaces with disjoint byte ranges are disjoint (in any space). -/
theorem disjoint_of_disjoint_ranges (s : Space) (u1 u2 : Sub) (id : Nat)
    (h : u1.e ≤ u2.b ∨ u2.e ≤ u1.b) :
    ¬ (Spec.member s u1 id = true ∧ Spec.member s u2 id = true) :=
  IdLemmas.disjoint_of_disjoint_ranges s u1 u2 id h

/-- 11'. Different spaces are disjoint, whatever the subspaces. -/
theorem disjoint_spaces (s t : Space) (hs : s ∈ Space.all) (ht : t ∈ Space.all) (hne : s ≠ t)
    (u1 u2 : Sub) (id : Nat) : ¬ (Spec.member s u1 id = true ∧ Spec.member t u2 id = true) := by
  rw [member_iff, member_iff]
  rintro ⟨⟨h1, _⟩, ⟨h2, _⟩⟩
  exact IdLemmas.disjoint_spaces hs ht hne id ⟨h1, h2⟩

/-- 13. The `IDSubspace` constructor raises exactly outside `begin < end ≤ 256`, `end ≠ 1`. -/
theorem mkSub_spec (b e : Nat) : mkSub b e = none ↔ ¬ (b < e ∧ e ≤ 256 ∧ e ≠ 1) :=
  IdLemmas.mkSub_spec b e

/-- 12. `split(k)` for `1 ≤ k ≤ #non-zero byte values` (and for `k = 1` always): `k` parts, the
    first begins at `begin`, the last ends at `end`, consecutive parts abut, every part is a valid
    subspace with at least one non-zero byte value. -/
theorem split_spec (u : Sub) (hu : u.valid = true) (k : Nat)
    (hk : k = 1 ∨ (1 ≤ k ∧ k ≤ u.numNonzeroByteValues)) :
    ∃ parts, u.split k = some parts ∧ parts.length = k ∧
      parts.head?.map (·.b) = some u.b ∧
      parts.getLast?.map (·.e) = some u.e ∧
      (∀ i (h : i + 1 < parts.length), parts[i].e = parts[i + 1].b) ∧
      (∀ p ∈ parts, p.valid = true ∧ 1 ≤ p.numNonzeroByteValues) := by
  obtain ⟨parts, hp, ok⟩ := IdLemmas.split_spec u hu k hk
  exact ⟨parts, hp, ok.length, ok.first, ok.last, ok.abut, ok.parts_ok⟩

/-- 12'. The parts are ordered and pairwise non-overlapping as byte ranges. -/
theorem split_pairwise (u : Sub) (hu : u.valid = true) (k : Nat) (parts : List Sub)
    (h : u.split k = some parts) : parts.Pairwise (fun p q => p.e ≤ q.b) := by
  have hk : k = 1 ∨ (1 ≤ k ∧ k ≤ u.numNonzeroByteValues) := by
    have hne : u.split k ≠ none := by simp [h]
    rw [Ne, split_none_iff u hu] at hne; omega
  obtain ⟨parts', hp, ok⟩ := IdLemmas.split_spec u hu k hk
  rw [h] at hp; cases hp
  exact splitOk_pairwise ok

/-- 12''. `split` raises exactly when `k = 0`, or `k ≥ 2` exceeds the number of non-zero byte
    values (the `←` direction needs no validity: see `split_rejects`). -/
theorem split_none_iff (u : Sub) (hu : u.valid = true) (k : Nat) :
    u.split k = none ↔ (k = 0 ∨ (2 ≤ k ∧ u.numNonzeroByteValues < k)) :=
  IdLemmas.split_none_iff u hu k

theorem split_rejects (u : Sub) (k : Nat) (h : k = 0 ∨ (2 ≤ k ∧ u.numNonzeroByteValues < k)) :
    u.split k = none :=
  IdLemmas.split_rejects u k h

/-- 12'''. Every valid subspace (in particular every part of a split) is non-empty in every space. -/
theorem subspaceSize_pos (s : Space) (hs : s ∈ Space.all) (u : Sub) (hu : u.valid = true) :
    1 ≤ s.subspaceSize u :=
  IdLemmas.subspaceSize_pos hs hu

/-- 5. `all_ids` enumerates exactly the members. -/
theorem mem_allIds_iff_member (s : Space) (hs : s ∈ Space.all) (u : Sub) (hu : u.valid = true)
    (id : Nat) : id ∈ s.allIds u ↔ Spec.member s u id = true :=
  IdLemmas.mem_allIds_iff_member hs hu id

/-- 6. `all_ids` yields no id twice. -/
theorem allIds_nodup (s : Space) (u : Sub) (hu : u.valid = true) : (s.allIds u).Nodup :=
  IdLemmas.allIds_nodup s ((Sub.valid_iff u).1 hu).2.1

/-- 7. `subspace_size` is the number of ids `all_ids` yields (hence, with 5 and 6, the number of
    members). -/
theorem allIds_length (s : Space) (hs : s ∈ Space.all) (u : Sub) (hu : u.valid = true) :
    (s.allIds u).length = s.subspaceSize u :=
  IdLemmas.allIds_length hs hu

/-- 8. Whatever `secrets.randbelow` returns within the requested bounds (the bounds check is inside
    `genRandomId`, which is `none` otherwise), `gen_random_id` returns a member. -/
theorem genRandomId_member (s : Space) (hs : s ∈ Space.all) (u : Sub) (hu : u.valid = true)
    (draws : List Nat) (id : Nat) (h : s.genRandomId u draws = some id) :
    Spec.member s u id = true :=
  IdLemmas.genRandomId_member hs hu h

/-- 9. Every member can be returned by `gen_random_id`. -/
theorem genRandomId_surj (s : Space) (hs : s ∈ Space.all) (u : Sub) (hu : u.valid = true)
    (id : Nat) (h : Spec.member s u id = true) : ∃ draws, s.genRandomId u draws = some id :=
  IdLemmas.genRandomId_surj hs hu h

/-! ### non-vacuity: the hypotheses above are satisfiable (and the functions compute) -/

example : (⟨24, true⟩ : Space) ∈ Space.all ∧ (Sub.mk 0 256).valid = true ∧
    (0 : Nat) < 0x12345678 ∧ 0x12345678 < 2 ^ 32 ∧
    Spec.inSpace ⟨24, true⟩ 0x12345678 = true ∧ Spec.member ⟨24, true⟩ ⟨0, 256⟩ 0x12345678 = true ∧
    fromId 0x12345678 = some ⟨24, true⟩ := by decide
example : Spec.member ⟨8, false⟩ ⟨5, 7⟩ 6 = true ∧ Spec.member ⟨24, false⟩ ⟨0, 2⟩ 0x100 = true ∧
    Spec.member ⟨0, true⟩ ⟨0, 2⟩ 0x1000000 = true ∧ Spec.member ⟨8, true⟩ ⟨255, 256⟩ 0xFF000001 = true := by
  decide
example : (Space.mk 8 false).allIds ⟨5, 7⟩ = [5, 6] ∧ (Space.mk 8 false).subspaceSize ⟨5, 7⟩ = 2 := by
  decide
example : (Space.mk 24 true).genRandomId ⟨0, 256⟩ [0x11, 0x78, 0x34, 0x56] = some 0x12345678 := by
  decide
example : (Sub.mk 0 256).split 3 = some [⟨0, 86⟩, ⟨86, 171⟩, ⟨171, 256⟩] ∧
    (Sub.mk 0 256).numNonzeroByteValues = 255 ∧ (Sub.mk 5 7).split 3 = none := by decide
example : (Space.mk 24 false).sqlFilter ⟨1, 3⟩ 0x020000 = true ∧
    Spec.inSpace ⟨24, false⟩ 0x020000 = true := by decide
example : mkSub 0 1 = none ∧ mkSub 0 2 = some ⟨0, 2⟩ ∧ mkSub 3 3 = none ∧ mkSub 0 257 = none := by
  decide

end Tup.C10
