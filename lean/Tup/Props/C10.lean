import Tup.Model.IdSpace
import Tup.Spec.Layout
/-! C10 — property theorems (placeholder while the proofs are being written). -/
namespace Tup.C10
open Tup

theorem all_spaces_valid : ∀ s ∈ Space.all, s.valid = true := by decide

end Tup.C10
