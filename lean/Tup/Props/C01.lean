import Tup.Lemmas.AllocFrame
/-!
  C01 — allocated image IDs always lie in the requested ID space and subspace.

  Model: `Model.Alloc.getId` over `Model.Db`; specification: `Spec.Layout.member` (byte layout, written
  from the property text). `DbInv` (`Spec/AllocStep.lean`): per table unique keys, every row of table `s`
  is an id of space `s` (hence non-zero and < 2^32), unique upload keys.

  "Whatever the database already contains" is read as "whatever history of library operations produced
  it" (`Reachable`): `DbInv` holds of every reachable database (induction over histories), and for every
  such database, every request, clock value and every admissible choice of the implementation / sqlite,
  the id handed out is a member of the requested space and subspace — on the paths hit / free enumerated
  id / LRU recycle / rejection sample / sample after clean-ups.
-/
namespace Tup.C01
open Tup Tup.DbLemmas Tup.IdLemmas Tup.AllocLemmas Tup.Spec.AllocStep

/-- `get_id` preserves the invariant (whatever it returns, including the "no unused id" error). -/
theorem getId_inv {cfg : Cfg} {db db' : Db} {req : Req} {now : Nat} {ch : GetChoice} {res : GetRes} {out : Outcome}
    (hinv : DbInv db) (hs : req.space ∈ Space.all)
    (h : getId cfg db req now ch = .ok (db', res, out)) : DbInv db' := by
  cases getId_spec h with
  | block hb =>
    cases hb with
    | hit r hr hd hf hid hdb => subst hdb; exact inv_setAtime hinv hs _ _
    | recycled v hmiss henum hv hid hold hwhy hset => exact inv_setId hinv hset
    | fresh hmiss henum hcount hall hfree hset => exact inv_setId hinv hset
  | sampled hmiss henum hcl hmem hfree hset => exact inv_setId (cleanups_inv hcl hs hinv) hset
  | exhausted hmiss henum hcl => exact cleanups_inv hcl hs hinv

theorem setId_inv {db db' : Db} {id now : Nat} {d : String} (hinv : DbInv db)
    (h : setId db id d now = .ok db') : DbInv db' := inv_setId hinv h

theorem delId_inv {db db' : Db} {id : Nat} (hinv : DbInv db) (h : delId db id = .ok db') : DbInv db' := by
  unfold delId at h
  split at h
  · cases h
  · next s hs => injection h with h; subst h; unfold Table.erase; exact inv_filter hinv (fromId_mem_all hs) _

theorem cleanup_inv {db db' : Db} {s : Space} {u : Sub} {m : Nat} {removed : List Nat} (hinv : DbInv db)
    (hs : s ∈ Space.all) (h : cleanup db s u m removed = .ok db') : DbInv db' := by
  obtain ⟨_, rfl⟩ := cleanup_ok h
  unfold Table.eraseAll; exact inv_filter hinv hs _

theorem markUploaded_inv {db db' : Db} {id size time : Nat} {term : String} (hinv : DbInv db)
    (h : markUploaded db id term size time = .ok db') : DbInv db' := by
  unfold markUploaded at h
  split at h
  · cases h
  · injection h with h; subst h; exact hinv
  · injection h with h; subst h; unfold markWrite; exact inv_with_uploads hinv (ukeys_uupsert _ hinv.ukeys)

theorem cleanupUploads_inv {db db' : Db} {n : Nat} {kept : List (Nat × String)} (hinv : DbInv db)
    (h : cleanupUploads db n kept = .ok db') : DbInv db' := by
  unfold cleanupUploads at h
  split at h
  · injection h with h; subst h; exact inv_with_uploads hinv (ukeys_filter _ hinv.ukeys)
  · cases h

/-- every public operation preserves `DbInv` -/
theorem applyOp_inv (cfg : Cfg) {db : Db} (hinv : DbInv db) (op : Op) : DbInv (applyOp cfg db op) := by
  cases op with
  | get req now ch =>
    simp only [applyOp]
    split
    · next hv =>
      simp only [Bool.and_eq_true] at hv
      split
      · next db' r o hg => exact getId_inv hinv ((valid_iff_mem_all _).1 hv.1) hg
      · exact hinv
    · exact hinv
  | set id d now =>
    simp only [applyOp]
    cases h : setId db id d now with
    | error e => exact hinv
    | ok db' => exact setId_inv hinv h
  | del id =>
    simp only [applyOp]
    cases h : delId db id with
    | error e => exact hinv
    | ok db' => exact delId_inv hinv h
  | cleanup s u m removed =>
    simp only [applyOp]
    split
    · next hv =>
      simp only [Bool.and_eq_true] at hv
      cases h : cleanup db s u m removed with
      | error e => exact hinv
      | ok db' => exact cleanup_inv hinv ((valid_iff_mem_all _).1 hv.1) h
    · exact hinv
  | mark id term size time =>
    simp only [applyOp]
    cases h : markUploaded db id term size time with
    | error e => exact hinv
    | ok db' => exact markUploaded_inv hinv h
  | cleanupUploads n kept =>
    simp only [applyOp]
    cases h : cleanupUploads db n kept with
    | error e => exact hinv
    | ok db' => exact cleanupUploads_inv hinv h

theorem run_inv (cfg : Cfg) (ops : List Op) {db : Db} (hinv : DbInv db) : DbInv (run cfg ops db) := by
  induction ops generalizing db with
  | nil => exact hinv
  | cons op ops ih => exact ih (applyOp_inv cfg hinv op)

/-- the invariant holds of every database the library can produce -/
theorem reachable_inv {cfg : Cfg} {db : Db} (h : Reachable cfg db) : DbInv db := by
  obtain ⟨ops, rfl⟩ := h
  exact run_inv cfg ops inv_empty

/-- **C01, one step.** On an invariant-satisfying database, whatever `get_id` returns for a valid
    request — on any path, for any admissible choice — is a member of the requested space/subspace. -/
theorem getId_member_of_inv {cfg : Cfg} {db db' : Db} {req : Req} {now id : Nat} {ch : GetChoice} {out : Outcome}
    (hinv : DbInv db) (hs : req.space ∈ Space.all) (hu : req.sub.valid = true)
    (h : getId cfg db req now ch = .ok (db', .id id, out)) : Spec.member req.space req.sub id = true := by
  cases getId_spec h with
  | block hb =>
    cases hb with
    | hit r hr hd hf hid hdb => rw [← hid]; exact member_of_row hinv hs hu hr hf
    | recycled v hmiss henum hv hid hold hwhy hset =>
      obtain ⟨hvt, hf⟩ := mem_inSub.1 hv
      rw [← hid]; exact member_of_row hinv hs hu hvt hf
    | fresh hmiss henum hcount hall hfree hset => exact (mem_allIds_iff_member hs hu _).1 hall
  | sampled hmiss henum hcl hmem hfree hset => exact member_of_containsInSub hs hmem

/-- **C01.** For every reachable database, every valid request, every clock value and every admissible
    choice, the id handed out lies in the requested space and subspace (fresh, found again, recycled,
    sampled, sampled after clean-ups alike). -/
theorem getId_member {cfg : Cfg} {db db' : Db} {req : Req} {now id : Nat} {ch : GetChoice} {out : Outcome}
    (hr : Reachable cfg db) (hs : req.space ∈ Space.all) (hu : req.sub.valid = true)
    (h : getId cfg db req now ch = .ok (db', .id id, out)) : Spec.member req.space req.sub id = true :=
  getId_member_of_inv (reachable_inv hr) hs hu h

/-- corollary in the words of the statement: the id is non-zero, 32-bit, uses exactly the features of
    the space, and its subspace byte lies in `[begin, end)` -/
theorem getId_layout {cfg : Cfg} {db db' : Db} {req : Req} {now id : Nat} {ch : GetChoice} {out : Outcome}
    (hr : Reachable cfg db) (hs : req.space ∈ Space.all) (hu : req.sub.valid = true)
    (h : getId cfg db req now ch = .ok (db', .id id, out)) :
    Spec.inSpace req.space id = true ∧ req.sub.b ≤ Spec.subByte req.space id ∧ Spec.subByte req.space id < req.sub.e :=
  (member_iff _ _ _).1 (getId_member hr hs hu h)

/-- the hypotheses are satisfiable and every path is inhabited: a full one-id subspace of the 8-bit
    space is recycled and the recycled id is the member `1` -/
example : getId {} (dbOf Db.empty (setId Db.empty 1 "a" 5)) ⟨⟨8, false⟩, ⟨1, 2⟩, "b"⟩ 7 { pick := 1 }
    = .ok ({ t3 := [⟨1, "b", 7⟩] }, .id 1, .recycled ⟨1, "a", 5⟩) := by rfl

example : Reachable {} (run {} [.set 1 "a" 5] Db.empty) := ⟨_, rfl⟩

end Tup.C01
