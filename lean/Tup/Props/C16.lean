import Tup.Lemmas.TrkStep
import Tup.Lemmas.TrkExample
/-!
  C16 — the tracked cursor position always matches the terminal's cursor.

  `Tup.Trk.run w h cfg ops` runs a history of calls of the tracker model
  (`Tup/Model/Tracker.lean`, the repaired `GraphicsTerminal`) on a fresh object attached to a
  specification terminal (`Tup.Spec.Term`, `w × h`, parameters `cfg`) in its initial state; the
  terminal itself answers the cursor-position queries.  It returns the object's state and
  everything written so far (`List Chunk`: control functions as tokens, user text / graphics
  commands / placeholder lines as raw bytes); `termAfter` is the terminal after reading that.

  Terminal side of the statements: the terminal reads the written chunks one after the other,
  raw chunks through the tokenizer `Tup.parse`.  This equals tokenizing the concatenated byte
  stream `bytesOf written` whenever no `write()` argument / placeholder line ends inside a control
  function — which the property needs anyway: after `write(b"\x1b[")` no library could know how the
  terminal reads the next bytes.  `tracked_sound_bytes` is the whole-stream form under exactly that
  hypothesis.

  Hypotheses, all about inputs and the terminal, none about the history:
  * `1 ≤ w`, `1 ≤ h`;
  * `cfg.cprClamps = false`: the terminal reports the pending-wrap state (column `w + 1`), as tmux
    and kitty do.  A terminal that hides it (xterm reports column `w`) gives the library no way to
    know where the next character goes; for those the statement is false right after a query in
    that state (documented limitation; the other two parameters are arbitrary);
  * `Op.WF`: placeholder lines without custom formatting consist of SGR and characters, `r` lines
    of `c` cells each for a `c × r` placeholder (what `to_lines` produces — C07/C13), and a
    graphics command is a sequence of APC strings.  `write`/`writecmd` arguments are arbitrary.
-/
namespace Tup.C16
open Tup Tup.Spec Tup.Trk

/-- the invariant holds initially -/
theorem inv_init (w h : Nat) (hw : 1 ≤ w) (hh : 1 ≤ h) (cfg : TermCfg) (hcfg : cfg.cprClamps = false) :
    Inv w h (termAfter w h cfg []) {} :=
  ⟨rfl, rfl, hw, init_WF w h cfg hh, hcfg, (by intro x y hxy; cases hxy), fun _ => ⟨rfl, rfl⟩⟩

/-- … and every call preserves it -/
theorem inv_runStep (w h : Nat) (cfg : TermCfg) (st : Trk × List Chunk) (op : Op) (hop : op.WF)
    (hI : Inv w h (termAfter w h cfg st.2) st.1) :
    Inv w h (termAfter w h cfg (runStep w h cfg st op).2) (runStep w h cfg st op).1 := by
  have he : EnvOk { w := w, h := h, ask := askOf (termAfter w h cfg st.2) } w h (termAfter w h cfg st.2) := ⟨rfl, rfl, rfl⟩
  have := step_inv he hI op hop
  show Inv w h (feedChunks (Term.init w h cfg) (st.2 ++ _)) _
  rw [feedChunks_append]
  exact this

theorem inv_run (w h : Nat) (hw : 1 ≤ w) (hh : 1 ≤ h) (cfg : TermCfg) (hcfg : cfg.cprClamps = false)
    (ops : List Op) (hops : ∀ op ∈ ops, op.WF) :
    Inv w h (termAfter w h cfg (run w h cfg ops).2) (run w h cfg ops).1 := by
  unfold run
  have gen : ∀ (ops : List Op) (st : Trk × List Chunk), (∀ op ∈ ops, op.WF) → Inv w h (termAfter w h cfg st.2) st.1 →
      Inv w h (termAfter w h cfg (ops.foldl (runStep w h cfg) st).2) (ops.foldl (runStep w h cfg) st).1 := by
    intro ops
    induction ops with
    | nil => intro st _ hst; exact hst
    | cons op ops ih =>
      intro st hw' hst
      exact ih _ (fun o ho => hw' o (by simp [ho])) (inv_runStep w h cfg st op (hw' op (by simp)) hst)
  exact gen ops _ hops (inv_init w h hw hh cfg hcfg)

/-- **tracked_sound.**  For every terminal size ≥ 1×1 and every history of the modelled calls with
    arbitrary arguments: whenever the object claims to know the cursor position, that position is
    where the specification terminal's cursor is after everything written so far. -/
theorem tracked_sound (w h : Nat) (hw : 1 ≤ w) (hh : 1 ≤ h) (cfg : TermCfg) (hcfg : cfg.cprClamps = false)
    (ops : List Op) (hops : ∀ op ∈ ops, op.WF) (p : Int × Int)
    (hp : (run w h cfg ops).1.tracked = some p) :
    p = (((termAfter w h cfg (run w h cfg ops).2).cx : Int), ((termAfter w h cfg (run w h cfg ops).2).cy : Int)) := by
  have hI := inv_run w h hw hh cfg hcfg ops hops
  obtain ⟨x, y⟩ := p
  have := hI.trk x y hp
  rw [this.1, this.2.1]

/-- A known position is a cell of the screen: never negative, never the pending-wrap column. -/
theorem tracked_on_screen (w h : Nat) (hw : 1 ≤ w) (hh : 1 ≤ h) (cfg : TermCfg) (hcfg : cfg.cprClamps = false)
    (ops : List Op) (hops : ∀ op ∈ ops, op.WF) (p : Int × Int)
    (hp : (run w h cfg ops).1.tracked = some p) :
    0 ≤ p.1 ∧ p.1 < w ∧ 0 ≤ p.2 ∧ p.2 < h := by
  have hI := inv_run w h hw hh cfg hcfg ops hops
  obtain ⟨x, y⟩ := p
  have := hI.trk x y hp
  have hcy := hI.wf.cy_lt
  have htw := hI.tw
  have hth := hI.th
  simp only
  omega

/-- While the object believes that no scroll margins are set, none are. -/
theorem margins_flag_sound (w h : Nat) (hw : 1 ≤ w) (hh : 1 ≤ h) (cfg : TermCfg) (hcfg : cfg.cprClamps = false)
    (ops : List Op) (hops : ∀ op ∈ ops, op.WF) (hm : (run w h cfg ops).1.margins = false) :
    (termAfter w h cfg (run w h cfg ops).2).top = 0 ∧ (termAfter w h cfg (run w h cfg ops).2).bot = h - 1 := by
  have hI := inv_run w h hw hh cfg hcfg ops hops
  have := hI.mar hm
  rw [hI.th] at this
  exact this

/-- **tracked_sound, on the byte stream.**  The same about the bytes written so far, read by the
    terminal as one stream: it needs in addition that no raw input (a `write`/`writecmd` argument, a
    placeholder line, a graphics command) ends inside a control function (`Closed`: the tokenizer is
    back in its ground state, so what follows is read independently).  The control functions the
    tracker itself writes are shown to be read back as themselves (`Tup.trkTok_parse`). -/
theorem tracked_sound_bytes (w h : Nat) (hw : 1 ≤ w) (hh : 1 ≤ h) (cfg : TermCfg) (hcfg : cfg.cprClamps = false)
    (ops : List Op) (hops : ∀ op ∈ ops, op.WF) (hraw : ∀ op ∈ ops, op.RawClosed) (p : Int × Int)
    (hp : (run w h cfg ops).1.tracked = some p) :
    p = ((((parse (bytesOf (run w h cfg ops).2)).foldl Term.feedP (Term.init w h cfg)).cx : Int),
         (((parse (bytesOf (run w h cfg ops).2)).foldl Term.feedP (Term.init w h cfg)).cy : Int)) := by
  rw [feedBytes_eq _ (run_ok w h cfg ops hraw)]
  exact tracked_sound w h hw hh cfg hcfg ops hops p hp

/-! ### non-vacuity: a history that satisfies the hypotheses, leaves the position known, and
    exercises the scroll + right-edge branch of the forced-placeholder put -/

def demo : List Op := [.reset false, .moveCursorAbs (some 6) (some 3) none, .printPlaceholderForPut (xPut 3 9 false),
  .moveCursor none none (some 100) (some 1)]

example : ∀ op ∈ demo, op.WF := by
  intro op h
  simp only [demo, List.mem_cons, List.mem_nil_iff, or_false] at h
  rcases h with h | h | h | h <;> subst h
  · trivial
  · trivial
  · exact xPut_WF 3 9 false
  · trivial

example : ∀ op ∈ demo, op.RawClosed := by
  intro op h
  simp only [demo, List.mem_cons, List.mem_nil_iff, or_false] at h
  rcases h with h | h | h | h <;> subst h
  · trivial
  · trivial
  · exact xPut_closed 3 9 false
  · trivial

example : (run 10 5 {} demo).1.tracked = some (0, 3) := by decide +kernel
example : (termAfter 10 5 {} (run 10 5 {} demo).2).cx = 0 ∧ (termAfter 10 5 {} (run 10 5 {} demo).2).cy = 3 := by decide +kernel

/-! ### the terminal hypothesis cannot be dropped -/

/-- a full line of text, a cursor-position query, a move by nothing -/
def clampHistory : List Op :=
  [.reset false, .write (List.replicate 5 120), .getCursorPosition, .moveCursor none none none none]

/-- **`cfg.cprClamps = false` is needed.**  On a 5 × 3 terminal that hides the pending-wrap state in its
    report (xterm style, `cprClamps := true`), after a full line of text and a query the object claims column 4
    while the terminal's cursor is in the pending-wrap state (`cx = 5`: the next character goes to the next
    line); a terminal that reports the state (`cprClamps := false`) makes the object forget the position
    instead.  All other hypotheses of `tracked_sound` hold for this history. -/
theorem cpr_report_of_pending_wrap_needed :
    (∀ op ∈ clampHistory, op.WF) ∧
    (run 5 3 { cprClamps := true } clampHistory).1.tracked = some (4, 0) ∧
    (termAfter 5 3 { cprClamps := true } (run 5 3 { cprClamps := true } clampHistory).2).cx = 5 ∧
    (run 5 3 { cprClamps := false } clampHistory).1.tracked = none := by
  refine ⟨?_, by decide +kernel, by decide +kernel, by decide +kernel⟩
  intro op h
  simp only [clampHistory, List.mem_cons, List.mem_nil_iff, or_false] at h
  rcases h with h | h | h | h <;> subst h <;> trivial

end Tup.C16
