import Tup.Model.UploadInfo
import Tup.Spec.Retention
import Tup.Lemmas.AllocFrame
/-!
  C04 — images are re-uploaded exactly when the terminal may have lost the current one.

  Model: `Model.UploadInfo` (`getUploadInfo`, `needsUploading`, `markUploaded`, `cleanupUploads`) over
  `Model.Db`; specification: `Spec.Retention` (ghost log of arrivals per terminal, `stillThere`,
  `holdsCurrent`), independent of the upload table.

  Full statements (DESIGN.md Appendix A.3), over every history of assign / recycle / force-set / delete /
  mark / upload-table clean-up on several terminals, with `log T` the ghost log of terminal `T`:

    needsUploading_sound (hmono : strictlyIncreasing (log T)) :
      needsUploading db x T thr now = .ok false → ∀ d, bound db x = some d → holdsCurrent thr (log T) x d now
    needsUploading_complete (hmono' : nonDecreasing (log T)) (hrow : uploadRow db x T ≠ none) :
      bound db x = some d → holdsCurrent thr (log T) x d now → needsUploading db x T thr now = .ok false

  What is proved here (`…_partial`): the *table-level* halves — `needs_uploading` answers "no" exactly
  when the recorded upload carries the description now bound to the id and the three quantities the table
  yields (rows of the terminal with a strictly later `upload_time`, their sizes plus the image's own, the
  age) are within the thresholds — and the step facts from which the ghost-log simulation follows
  (`markUploaded_records`: a registered upload stores exactly the arrival; nothing else in the upload table
  moves). Missing: the simulation invariant tying `ulater` to `Spec.Retention.laterImages` through
  histories (a permutation argument between the table rows of a terminal and `latestPerId` of the log,
  which is where `hmono` is consumed). It is exercised by F on every generated history instead.
  The hypothesis `hmono` cannot be dropped: `tie_witness` below (D16).

  **Where the full statements are proved.** The simulation invariant (`Display.Rel`,
  `Lemmas/DisplayInv.lean`) is proved *using* the table-level theorems of this file, so it cannot be imported
  here (import cycle); the history-level theorems therefore live in `Props/C08.lean`, stated against this
  property's own specification `Spec.Retention` (the ghost log of the display machine forgotten to
  `(id, description, size, time)` by `Display.retLog`, `Lemmas/RetentionSound.lean`):

    C08.needsUploading_sound     StrictTimes → bound x = info → needs_uploading = false →
                                   holdsCurrent t (retLog (logs T)) x info.desc now      (= the first statement above)
    C08.needsUploading_complete  StrictTimes → bound x = info → uploadRow ≠ none → holdsCurrent … →
                                   needs_uploading = false                               (= the second, with hmono)
    C08.strictTimes_iff_strictlyIncreasing   `StrictTimes` there is `strictlyIncreasing (log T)` for every T here
    C08.retention_specs_agree / retention_specs_differ_only_on_oversized_newest
                                 `Spec.Retention.stillThere` ⇒ `Spec.Store.retained`, and the only difference
                                 is Store's "the byte quota never evicts the newest image" clause.
  Both are instances of `needsUploading_sound_partial` / `needsUploading_complete_partial` below, composed with
  `later_le_table` / `table_le_later` (table rows of a terminal with a later time ↔ `laterImages` of the log).
-/
namespace Tup.C04
open Tup Tup.Spec.Retention Tup.DbLemmas Tup.AllocLemmas

/-- `needs_uploading = False` for an assigned id only if the record of `(id, terminal)` exists, carries
    the description now bound to the id, and the table-derived counts are within the thresholds. -/
theorem needsUploading_sound_partial {db : Db} {x : Nat} {term : String} {thr : Thresholds} {now : Nat} {info : Row}
    (hinfo : getInfo db x = .ok (some info))
    (h : needsUploading db x term thr now = .ok false) :
    ∃ row, uploadRow db x term = some row ∧ row.desc = info.desc ∧
      (ulater db.uploads term row.time).length < thr.maxUploads ∧
      row.size + ((ulater db.uploads term row.time).map (·.size)).sum ≤ thr.maxBytes ∧
      now ≤ row.time + thr.maxTime := by
  unfold needsUploading at h
  rw [hinfo] at h
  simp only [getUploadInfo] at h
  cases hrow : uploadRow db x term with
  | none => rw [hrow] at h; simp at h
  | some row =>
    rw [hrow] at h
    simp only [uploadAgo, UploadInfo.needsUploading, Except.ok.injEq, Bool.or_eq_false_iff, bne_eq_false_iff_eq,
      decide_eq_false_iff_not, Nat.not_lt] at h
    obtain ⟨hd, ⟨hb, hu⟩, ht⟩ := h
    simp only [gt_iff_lt, decide_eq_false_iff_not, Nat.not_lt] at hb hu
    exact ⟨row, rfl, hd, by omega, by omega, by omega⟩

/-- … and whenever all of that holds it does not ask for a re-upload. -/
theorem needsUploading_complete_partial {db : Db} {x : Nat} {term : String} {thr : Thresholds} {now : Nat}
    {info : Row} {row : URow}
    (hinfo : getInfo db x = .ok (some info)) (hrow : uploadRow db x term = some row)
    (hdesc : row.desc = info.desc)
    (hcount : (ulater db.uploads term row.time).length < thr.maxUploads)
    (hbytes : row.size + ((ulater db.uploads term row.time).map (·.size)).sum ≤ thr.maxBytes)
    (htime : now ≤ row.time + thr.maxTime) :
    needsUploading db x term thr now = .ok false := by
  unfold needsUploading
  rw [hinfo]
  simp only [getUploadInfo, hrow, uploadAgo, UploadInfo.needsUploading, Except.ok.injEq, Bool.or_eq_false_iff,
    bne_eq_false_iff_eq, decide_eq_false_iff_not, Nat.not_lt]
  exact ⟨hdesc, ⟨by omega, by omega⟩, by omega⟩

/-- never uploaded to this terminal (or the record was cleaned up): a re-upload is requested -/
theorem needsUploading_of_no_record {db : Db} {x : Nat} {term : String} {thr : Thresholds} {now : Nat} {info : Row}
    (hinfo : getInfo db x = .ok (some info)) (hrow : uploadRow db x term = none) :
    needsUploading db x term thr now = .ok true := by
  unfold needsUploading; rw [hinfo]; simp [getUploadInfo, hrow]

/-- A registered upload stores exactly the arrival the ghost log records — the description bound to
    the id at that moment, the size and the time — under the key `(id, terminal)`, and leaves every
    other record and all five id tables as they were. -/
theorem markUploaded_records {db db' : Db} {x size time : Nat} {term : String} {info : Row}
    (hinfo : getInfo db x = .ok (some info))
    (h : markUploaded db x term size time = .ok db') :
    ulookup db'.uploads x term = some ⟨x, term, info.desc, size, time⟩ ∧
    (∀ y t, ¬ (y = x ∧ t = term) → ulookup db'.uploads y t = ulookup db.uploads y t) ∧
    (∀ s, db'.ids s = db.ids s) := by
  unfold markUploaded at h
  rw [hinfo] at h
  injection h with h; subst h
  refine ⟨?_, ?_, fun s => ids_with_uploads _ _ s⟩
  · simp [markWrite, uupsert, ulookup]
  · intro y t hne
    simp only [markWrite, uupsert, ulookup, uerase]
    have hne' : ¬ (x = y ∧ term = t) := fun e => hne ⟨e.1.symm, e.2.symm⟩
    rw [List.find?_cons_of_neg (by simpa using hne'), List.find?_filter]
    congr 1; funext r
    by_cases hr : r.id = y ∧ r.term = t
    · obtain ⟨rfl, rfl⟩ := hr
      have : ¬ (r.id = x ∧ r.term = term) := hne
      have : (r.id == x && r.term == term) = false := by simpa using this
      simp [this]
    · have : (r.id == y && r.term == t) = false := by simpa using hr
      simp [this]

/-- an upload registered for an unassigned id records nothing -/
theorem markUploaded_unassigned {db db' : Db} {x size time : Nat} {term : String}
    (hinfo : getInfo db x = .ok none) (h : markUploaded db x term size time = .ok db') : db' = db := by
  unfold markUploaded at h; rw [hinfo] at h; injection h with h; exact h.symm

/-- **Tie witness (D16).** Two images registered to one terminal with the *same* timestamp: the table
    does not count the later arrival, so with `max_uploads_ago = 1` the library answers "no upload needed"
    for the first image although one other image has gone to the terminal since — `stillThere` is false.
    Hence soundness needs the strictly-increasing-times hypothesis. -/
def tieDb : Db :=
  dbOf {} (markUploaded (dbOf {} (markUploaded { t3 := [⟨1, "a", 1⟩, ⟨2, "b", 2⟩] } 1 "T" 1 10)) 2 "T" 1 10)
def tieLog : Log := arrive (arrive [] ⟨1, "a", 1, 10⟩) ⟨2, "b", 1, 10⟩
def tieThr : Thresholds := { maxUploads := 1 }

theorem tie_witness :
    needsUploading tieDb 1 "T" tieThr 10 = .ok false ∧
    holdsCurrent tieThr tieLog 1 "a" 10 = false ∧
    strictlyIncreasing tieLog = false ∧ nonDecreasing tieLog = true := by
  refine ⟨by rfl, by decide, by decide, by decide⟩

/-- non-vacuity of the positive direction: with strictly increasing times the same history is judged
    alike by table and specification (one later image, threshold 1 → re-upload; threshold 2 → keep) -/
example :
    let db := dbOf {} (markUploaded (dbOf {} (markUploaded { t3 := [⟨1, "a", 1⟩, ⟨2, "b", 2⟩] } 1 "T" 1 10)) 2 "T" 1 11)
    let log : Log := arrive (arrive [] ⟨1, "a", 1, 10⟩) ⟨2, "b", 1, 11⟩
    needsUploading db 1 "T" { maxUploads := 1 } 11 = .ok true ∧ holdsCurrent { maxUploads := 1 } log 1 "a" 11 = false ∧
    needsUploading db 1 "T" { maxUploads := 2 } 11 = .ok false ∧ holdsCurrent { maxUploads := 2 } log 1 "a" 11 = true ∧
    strictlyIncreasing log = true := by
  refine ⟨by rfl, by decide, by rfl, by decide, by decide⟩

end Tup.C04
