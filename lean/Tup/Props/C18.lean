import Tup.Lemmas.Sh3
/-!
  C18 — the exported shell script reproduces exactly the bytes that were sent.

  `ShellExport.writeToShellscript` is the model of `ShellScriptBinaryIOHelper.write_to_shellscript`
  (after the D6 and D7 repairs); `Spec.Sh.eval` is the independent specification of what a POSIX
  `sh` prints for the script grammar in use.  Comments are UTF-8 byte strings without a newline
  (a newline would end the comment and start a new script line; the library never passes one).
-/
namespace Tup.C18
open Tup Tup.ShellExport Tup.Spec.Sh Tup.ShLemmas

/-- Running the exported script prints exactly the data: for EVERY byte string (binary, quotes,
    backslashes, percent signs, leading dashes, anything that looks like base64, canonical or not)
    and every newline-free comment, whichever of the three layouts (no comment / inline / own line)
    the 80-column rule picks. -/
theorem sh_roundtrip (data comment : Bytes) (hc : (10 : UInt8) ∉ comment) :
    Spec.Sh.eval (writeToShellscript data comment) = some data := by
  have hnl := command_no_nl data
  unfold writeToShellscript Spec.Sh.eval
  simp only []
  split
  · -- no comment
    rw [splitOn_append 10 _ [] hnl, splitOn_nil]
    have := evalLine_command data [] operands_nil
    simp only [List.append_nil] at this
    simp [evalLines, this, evalLine_nil]
  · split
    · -- inline comment
      have h3 : (10 : UInt8) ∉ command data ++ asc " # " ++ comment := by
        have : (10 : UInt8) ∉ asc " # " := by decide
        simp only [List.mem_append, not_or]
        exact ⟨⟨hnl, this⟩, hc⟩
      rw [splitOn_append 10 _ [] h3, splitOn_nil]
      have := evalLine_command data (asc " # " ++ comment) (operands_comment comment)
      simp [evalLines, this, evalLine_nil]
    · -- comment on its own line
      have h3 : (10 : UInt8) ∉ asc "# " ++ comment := by
        have : (10 : UInt8) ∉ asc "# " := by decide
        simp only [List.mem_append, not_or]
        exact ⟨this, hc⟩
      have hs : asc "# " ++ comment ++ [10] ++ command data ++ [10]
          = (asc "# " ++ comment) ++ 10 :: (command data ++ 10 :: []) := by simp
      rw [hs, splitOn_append 10 _ _ h3, splitOn_append 10 _ [] hnl, splitOn_nil]
      have := evalLine_command data [] operands_nil
      simp only [List.append_nil] at this
      simp [evalLines, this, evalLine_nil, evalLine_comment]

/-- Comments never change the output. -/
theorem comment_irrelevant (data c₁ c₂ : Bytes) (h₁ : (10 : UInt8) ∉ c₁) (h₂ : (10 : UInt8) ∉ c₂) :
    Spec.Sh.eval (writeToShellscript data c₁) = Spec.Sh.eval (writeToShellscript data c₂) := by
  rw [sh_roundtrip data c₁ h₁, sh_roundtrip data c₂ h₂]

/-- The exporter never places a `'` between the quotes of a format: neither in the outer format
    nor in the inner format of a `"$(printf '…' | base64 -w0)"` parameter. -/
theorem no_quote_in_format (data : Bytes) :
    (39 : UInt8) ∉ dashFix (build (splitChunks data)).1 ∧
    ∀ c e, tryBase64 c = some e → (39 : UInt8) ∉ dashFix e := by
  refine ⟨dashFix_avoids 39 (by decide) _ (build_no_quote _), ?_⟩
  intro c e h
  obtain ⟨d, he, _⟩ := tryBase64_some h
  exact dashFix_avoids 39 (by decide) e (he ▸ escapeBytes_no_quote d)

/-- A format never reaches `printf` as an option: the quoted word does not start with `-`
    (the D6 repair), so dash/bash cannot answer "Illegal option". -/
theorem format_is_not_an_option (f : Bytes) : isOption (dashFix f) = false ∧ dashFix f ≠ [45, 45] :=
  dashFix_not_option f

/-- A maybe-base64 run is replaced by `"$(printf … | base64 -w0)"` only when re-encoding the decoded
    bytes reproduces the run exactly (the D7 repair). -/
theorem base64_run_is_canonical (c e : Bytes) (h : tryBase64 c = some e) :
    ∃ d, e = escapeBytes d ∧ b64enc d = c := tryBase64_some h

/-- The chunks are a partition of the data (nothing dropped or reordered by the splitter). -/
theorem chunks_partition (data : Bytes) : (splitChunks data).flatten = data := splitChunks_flatten data

-- The hypotheses are satisfiable and the three layouts are all reached:
example : Spec.Sh.eval (writeToShellscript (asc "-a'%\\\n") []) = some (asc "-a'%\\\n") :=
  sh_roundtrip _ _ (by decide)
example : writeToShellscript (asc "-a") (asc "c") = asc "printf '\\055a' # c\n" := by decide
example : writeToShellscript (asc "QUJD") [] = asc "printf '%s' \"$(printf 'ABC' | base64 -w0)\"\n" := by decide
example : writeToShellscript (asc "QR==") [] = asc "printf 'QR=='\n" := by decide

end Tup.C18
