import Tup.Lemmas.Config
import Tup.Lemmas.ConfigLayers
import Tup.Lemmas.ConfigToml
import Tup.Lemmas.ConfigText
/-!
  C17 — configuration layers resolve by fixed precedence and round-trip through TOML.

  Model: `Tup.Config` (`TupimageConfig.validate_and_normalize`, `_convert_scalar`, `_verify_type`,
  the `override_from_*` layers and the layer order of `TupimageTerminal.__init__`, provenance, the
  textual forms and the TOML dump on the typed channel), with fixes D11–D13 applied.  The option
  table `Tup.Gen.options` is regenerated from `TupimageConfig.__annotations__` on every run.
  Specification: `Tup.Spec.Config` (`winner`, `provenanceNames`, `textOf`, `spaceName`, `mediumLetter`).
-/
namespace Tup.C17
open Tup Tup.Config

/-! ### printers and parsers -/

/-- `IDSubspace.from_string(str(s)) == s` for every valid subspace. -/
theorem printer_parser_subspace (u : Sub) (hu : u.valid = true) : subOfString (subStr u) = some u := by
  have hb := sep_not_in_digits u.b ':' (by decide)
  have he := sep_not_in_digits u.e ':' (by decide)
  have hl : (subStr u).toList = (toString u.b).toList ++ ':' :: (toString u.e).toList := by
    have c1 : (toString ":").toList = [':'] := rfl
    simp [subStr, String.toList_append, c1]
  have hne : subStr u ≠ "" := by
    intro h; have := congrArg String.toList h; simp [hl] at this
  unfold subOfString
  simp only [hne, ↓reduceIte, hl, splitOnChar_two ':' _ _ hb he, String.ofList_toList, pyInt_repr]
  have : (0 : Int) ≤ (u.b : Int) ∧ (0 : Int) ≤ (u.e : Int) := ⟨by omega, by omega⟩
  simp only [this, and_self, ↓reduceIte, Int.toNat_natCast, mkSub]
  cases u
  simp_all

/-- `validate_size(f"{w}x{h}") == (w, h)` for every positive size. -/
theorem printer_parser_size (w h : Nat) (hw : 1 ≤ w) (hh : 1 ≤ h) :
    validateSize (sizeStr (w : Int) (h : Int)) = some ((w : Int), (h : Int)) := by
  have e1 : toString ((w : Nat) : Int) = toString w := rfl
  have e2 : toString ((h : Nat) : Int) = toString h := rfl
  have hb := sep_not_in_digits w 'x' (by decide)
  have he := sep_not_in_digits h 'x' (by decide)
  have hl : (sizeStr (w : Int) (h : Int)).toList = (toString w).toList ++ 'x' :: (toString h).toList := by
    have c1 : (toString "x").toList = ['x'] := rfl
    simp [sizeStr, String.toList_append, e1, e2, c1]
  unfold validateSize
  simp only [hl, splitOnChar_two 'x' _ _ hb he, String.ofList_toList, pyInt_repr]
  have : ¬ (((w : Nat) : Int) < 1 ∨ ((h : Nat) : Int) < 1) := by omega
  simp [this]

/-- `IDSpace.from_string(str(s)) == s` for the five spaces, and `str` gives the documented names. -/
theorem printer_parser_space : ∀ s ∈ Space.all, Space.ofString s.name = some s ∧ Spec.Config.spaceName s.colorBits s.use3rd = some s.name := by
  decide

/-- `TransmissionMedium.from_string(m.value) == m`, and the letters are the protocol's. -/
theorem printer_parser_medium : ∀ m : Medium, Medium.ofString m.letter = some m ∧ Spec.Config.mediumLetter m = m.letter := by
  intro m; cases m <;> decide

/-! ### precedence -/

open Tup.Spec.Config in
/-- The effective value and the provenance of every option come from the highest-priority layer
    that sets it — `config_overrides`, then keyword arguments, then `TUPIMAGE_<OPTION>`, then the
    config file — and from the defaults when no layer does.  "Sets" = the layer has an assignment
    for the option (`asgsOf`: a dictionary entry that is not `None`, a set variable, a key of the
    file); the value is that assignment's raw value through `validate_and_normalize`, the
    provenance the layer's label.  (`num_tmux_layers` is excepted: its `auto` is expanded afterwards,
    see `expandTmux`.) -/
theorem precedence {sd : String} {tmux : Bool} {L : Layers} {cfg : Cfg}
    (h : construct sd tmux L = .ok cfg) (n : String) (hn : n ≠ "num_tmux_layers") :
    match winner (setsOf L n) with
    | some layer => ∃ a nv, lastAsg (asgsOf L layer) n = some a ∧ normalize sd n a.raw = .ok nv ∧
        cfg.get? n = some ⟨n, nv, some a.prov⟩
    | none => cfg.get? n = (Cfg.init sd).get? n := by
  obtain ⟨c4, hall, hget⟩ := construct_assigns h
  have key := (assignAll_get (init_names sd) hall n).2
  rw [hget n hn]
  simp only [lastAsg_append] at key
  unfold setsOf winner priority
  simp only [asgsOf] at *
  cases ho : lastAsg (dictAsgs L.overrides) n with
  | some a =>
      simp only [ho, Option.or_some] at key
      simp only [List.find?_cons, Sets.has, Option.isSome_some, ho]
      obtain ⟨nv, h1, h2⟩ := key
      exact ⟨a, nv, rfl, h1, h2⟩
  | none =>
    cases hk : lastAsg (dictAsgs L.kwargs) n with
    | some a =>
        simp only [ho, hk, Option.none_or, Option.or_some] at key
        simp only [List.find?_cons, Sets.has, Option.isSome_some, Option.isSome_none, ho, hk, Bool.false_eq_true]
        obtain ⟨nv, h1, h2⟩ := key
        exact ⟨a, nv, rfl, h1, h2⟩
    | none =>
      cases he : lastAsg (envAsgs L.env) n with
      | some a =>
          simp only [ho, hk, he, Option.none_or, Option.or_some] at key
          simp only [List.find?_cons, Sets.has, Option.isSome_some, Option.isSome_none, ho, hk, he, Bool.false_eq_true]
          obtain ⟨nv, h1, h2⟩ := key
          exact ⟨a, nv, rfl, h1, h2⟩
      | none =>
        cases hf : lastAsg (fileAsgs L.file) n with
        | some a =>
            simp only [ho, hk, he, hf, Option.none_or] at key
            simp only [List.find?_cons, Sets.has, Option.isSome_some, Option.isSome_none, ho, hk, he, hf, Bool.false_eq_true]
            obtain ⟨nv, h1, h2⟩ := key
            exact ⟨a, nv, rfl, h1, h2⟩
        | none =>
            simp only [ho, hk, he, hf, Option.none_or] at key
            simp only [List.find?_cons, List.find?_nil, Sets.has, Option.isSome_none, ho, hk, he, hf, Bool.false_eq_true]
            exact key

/-- The labels: the environment layer is named by its variable, the file by its path, a dictionary
    by its `provenance` entry (default `set from dict`); `None` entries set nothing. -/
theorem layer_labels (L : Layers) (n : String) (a : Asg) :
    (a ∈ envAsgs L.env → a.prov = some s!"set via {envVarName a.name}") ∧
    (a ∈ dictAsgs L.kwargs → a.prov = dictLabel L.kwargs ∧ a.raw ≠ Val.none ∧ (a.name, a.raw) ∈ L.kwargs) ∧
    (a ∈ dictAsgs L.overrides → a.prov = dictLabel L.overrides ∧ a.raw ≠ Val.none ∧ (a.name, a.raw) ∈ L.overrides) ∧
    (∀ path kvs, L.file = some (path, kvs) → a ∈ fileAsgs L.file → a.prov = some s!"set from file {path}" ∧ (a.name, a.raw) ∈ kvs) := by
  have dict : ∀ d : List (String × Val), a ∈ dictAsgs d → a.prov = dictLabel d ∧ a.raw ≠ Val.none ∧ (a.name, a.raw) ∈ d := by
    intro d ha
    simp only [dictAsgs, dictAsgsWith, List.mem_filterMap] at ha
    obtain ⟨kv, hkv, hs⟩ := ha
    split at hs
    · cases hs
    · split at hs
      · cases hs
      · rename_i h2
        cases hs
        exact ⟨rfl, h2, hkv⟩
  refine ⟨?_, dict _, dict _, ?_⟩
  · intro ha
    simp only [envAsgs, envAsgsOf, List.mem_filterMap] at ha
    obtain ⟨o, _, hs⟩ := ha
    cases hf : L.env.find? (·.1 == o.name) with
    | none => simp [hf] at hs
    | some kv => simp only [hf, Option.map_some, Option.some.injEq] at hs; cases hs; rfl
  · intro path kvs hfile ha
    simp only [hfile, fileAsgs, fileAsgsOf, List.mem_filterMap] at ha
    obtain ⟨kv, hkv, hs⟩ := ha
    cases hl : lookupOpt kv.1 with
    | none => simp [hl] at hs
    | some o => simp only [hl, Option.map_some, Option.some.injEq] at hs; cases hs; exact ⟨rfl, hkv⟩

/-! ### same text from every layer, wrong types -/

/-- Every layer hands its raw value to the same `validate_and_normalize`: a textual form means the
    same (or is rejected alike) whichever layer carries it — a consequence of `precedence`: the value
    in force is `normalize sd n raw` for the winning layer's `raw`, with no dependence on the layer. -/
theorem same_text_every_layer {sd : String} {tmux : Bool} (n text : String) (hn : n ≠ "num_tmux_layers")
    (L : Layers) (cfg : Cfg) (layer : Spec.Config.Layer) (a : Asg)
    (h : construct sd tmux L = .ok cfg)
    (hw : Spec.Config.winner (setsOf L n) = some layer) (ha : lastAsg (asgsOf L layer) n = some a)
    (htext : a.raw = .str text) :
    ∃ nv, normalize sd n (.str text) = .ok nv ∧ (cfg.get? n).map (·.val) = some nv := by
  have := precedence h n hn
  rw [hw] at this
  obtain ⟨a', nv, h1, h2, h3⟩ := this
  rw [ha] at h1; cases h1
  exact ⟨nv, htext ▸ h2, by rw [h3]; rfl⟩

/-- A native value whose type the option does not admit is rejected, and every rejection by
    `validate_and_normalize` is a `ValueError` naming the option. -/
theorem wrong_type_rejected (sd : String) (o : Opt) (v : Val) :
    ((∀ s, v ≠ .str s) → Spec.Config.admits o.ty v = false → normalizeOpt sd o v = .error (.invalid o.name)) ∧
    (∀ e, normalizeOpt sd o v = .error e → e = .invalid o.name) ∧
    (∀ nv, normalizeOpt sd o v = .ok nv → Spec.Config.hasType nv o.ty = true) := by
  refine ⟨?_, ?_, ?_⟩
  · intro hstr hadm
    unfold Spec.Config.admits at hadm
    simp only [Bool.or_eq_false_iff] at hadm
    have hv : preString sd o v = some v := by
      unfold preString
      cases v with
      | sc x => cases x <;> simp_all
      | _ => rfl
    have hp : promote o v = v := by
      unfold promote
      cases v with
      | sc x =>
          cases x with
          | int i =>
              by_cases hfl : o.ty = [.base .float]
              · simp [hfl] at hadm
              · simp [hfl]
          | _ => rfl
      | _ => rfl
    simp only [normalizeOpt, hv, hp, checkOpt, verifyType_eq, hadm.1, Bool.not_false, ↓reduceIte]
  · intro e he
    unfold normalizeOpt at he
    split at he
    · cases he; rfl
    · unfold checkOpt at he
      split at he
      · cases he; rfl
      · split at he
        · cases he; rfl
        · cases he
  · intro nv hnv
    unfold normalizeOpt at hnv
    split at hnv
    · cases hnv
    · unfold checkOpt at hnv
      split at hnv
      · cases hnv
      · rename_i hty
        split at hnv
        · cases hnv
        · cases hnv
          rw [← verifyType_eq]
          simpa using hty

/-- FULL STATEMENT (not proved in this generality): for every option `o` of the table and every value
    `nv` that `validate_and_normalize` can return for it, there is a string `s` with
    `normalizeOpt sd o (.str s) = .ok nv` — hence every layer, the environment included, can express
    every accepted value.  Missing in THIS theorem: floats, negative integers, free-form
    strings, lists — see `same_text_every_layer_partial_int` and `same_text_every_layer_partial_more` below.
    PROVED: the textual forms of subspaces, spaces, media and sizes are accepted for their options,
    `true`/`false` for every `bool` option and every decimal natural number for every option whose
    type is `int`, `int | 'auto'` — the classes the environment layer could not set before D11. -/
theorem same_text_every_layer_partial (sd : String) :
    (∀ o ∈ Tup.Gen.options, o.ty = [.base .idSubspace] → ∀ u : Sub, u.valid = true →
        normalizeString sd o (subStr u) = some (.sub u)) ∧
    (∀ o ∈ Tup.Gen.options, o.ty = [.base .idSpace] → ∀ s ∈ Space.all,
        normalizeString sd o s.name = some (.space s)) ∧
    (∀ o ∈ Tup.Gen.options, o.name = "upload_method" → ∀ m : Medium,
        normalizeString sd o m.letter = some (.medium m)) ∧
    (∀ o ∈ Tup.Gen.options, (o.name = "cell_size" ∨ o.name = "default_cell_size") → ∀ w h : Nat, 1 ≤ w → 1 ≤ h →
        normalizeString sd o (sizeStr w h) = some (.tuple [.int w, .int h])) ∧
    (∀ o ∈ Tup.Gen.options, o.ty = [.base .bool] → ∀ b : Bool,
        normalizeOpt sd o (.str (if b then "true" else "false")) = .ok (.bool b)) ∧
    (∀ o ∈ Tup.Gen.options, (o.ty = [.base .int] ∨ o.ty = [.base .int, .base (.lit "auto")]) → ∀ n : Nat,
        normalizeString sd o (toString n) = some (.int n)) := by
  refine ⟨?_, ?_, ?_, ?_, ?_, ?_⟩
  · intro o _ hty u hu
    simp [normalizeString, hty, printer_parser_subspace u hu]
  · intro o _ hty s hs
    have := (printer_parser_space s hs).1
    simp [normalizeString, hty, this]
  · intro o ho hn m
    have hty : o.ty = [.base .medium, .base (.lit "auto")] := by
      simp only [Tup.Gen.options, List.mem_cons, List.not_mem_nil, or_false] at ho
      rcases ho with rfl | rfl | rfl | rfl | rfl | rfl | rfl | rfl | rfl | rfl | rfl | rfl | rfl | rfl | rfl | rfl | rfl | rfl | rfl | rfl | rfl | rfl | rfl | rfl | rfl | rfl | rfl <;> simp at hn ⊢
    have := (printer_parser_medium m).1
    simp [normalizeString, hty, hn, this]
  · intro o ho hn w h hw hh
    have hty : o.ty ≠ [.base .idSubspace] ∧ o.ty ≠ [.base .idSpace] := by
      simp only [Tup.Gen.options, List.mem_cons, List.not_mem_nil, or_false] at ho
      rcases ho with rfl | rfl | rfl | rfl | rfl | rfl | rfl | rfl | rfl | rfl | rfl | rfl | rfl | rfl | rfl | rfl | rfl | rfl | rfl | rfl | rfl | rfl | rfl | rfl | rfl | rfl | rfl <;> simp at hn ⊢
    have := printer_parser_size w h hw hh
    simp [normalizeString, hty.1, hty.2, hn, this]
  · intro o ho hty b
    have hn : o.name ≠ "cell_size" ∧ o.name ≠ "default_cell_size" ∧ o.name ≠ "id_database_dir" ∧ o.name ≠ "upload_method" ∧
        o.name ≠ "supported_formats" ∧ o.name ≠ "max_cols" ∧ o.name ≠ "max_rows" := by
      simp only [Tup.Gen.options, List.mem_cons, List.not_mem_nil, or_false] at ho
      rcases ho with rfl | rfl | rfl | rfl | rfl | rfl | rfl | rfl | rfl | rfl | rfl | rfl | rfl | rfl | rfl | rfl | rfl | rfl | rfl | rfl | rfl | rfl | rfl | rfl | rfl | rfl | rfl <;> simp at hty ⊢
    obtain ⟨h1, h2, h3, h4, h5, h6, h7⟩ := hn
    cases b <;>
      simp [normalizeOpt, preString, normalizeString, convertScalar, scalarTypes, hty, h1, h2, h3, h4, h5, pyBool, lowerAscii,
        promote, checkOpt, verifyType, valIsAlt, valIsBase, scalarIs, constraintsOk] <;> decide
  · intro o ho hty n
    have hn : o.name ≠ "cell_size" ∧ o.name ≠ "default_cell_size" ∧ o.name ≠ "id_database_dir" ∧ o.name ≠ "upload_method" ∧
        o.name ≠ "supported_formats" := by
      simp only [Tup.Gen.options, List.mem_cons, List.not_mem_nil, or_false] at ho
      rcases ho with rfl | rfl | rfl | rfl | rfl | rfl | rfl | rfl | rfl | rfl | rfl | rfl | rfl | rfl | rfl | rfl | rfl | rfl | rfl | rfl | rfl | rfl | rfl | rfl | rfl | rfl | rfl <;> simp at hty ⊢
    obtain ⟨h1, h2, h3, h4, h5⟩ := hn
    have hp : pyInt n.repr = some (n : Int) := pyInt_repr n
    rcases hty with hty | hty <;>
      simp [normalizeString, convertScalar, scalarTypes, hty, h1, h2, h3, h4, h5, hp]

/-- `same_text_every_layer_partial`, last clause, extended to **negative integers**: for every option of type
    `int` or `int | 'auto'` and every integer `i` (sign included), the decimal text of `i` is converted to `i`,
    and text and native value are the same to `validate_and_normalize` — accepted to the same value or rejected
    alike by the range constraints (`max_cols`, `max_rows`).  (Not so for `background`, whose type also admits
    `str`: `_convert_scalar` converts only `isdecimal()` texts there, so `-5` stays the string `"-5"`.) -/
theorem same_text_every_layer_partial_int (sd : String) :
    ∀ o ∈ Tup.Gen.options, (o.ty = [.base .int] ∨ o.ty = [.base .int, .base (.lit "auto")]) → ∀ i : Int,
      normalizeString sd o (toString i) = some (.int i) ∧
      normalizeOpt sd o (.str (toString i)) = normalizeOpt sd o (.int i) := by
  intro o ho hty i
  have hn : ∀ o ∈ Tup.Gen.options, (o.ty = [.base .int] ∨ o.ty = [.base .int, .base (.lit "auto")]) →
      o.name ≠ "cell_size" ∧ o.name ≠ "default_cell_size" ∧ o.name ≠ "id_database_dir" ∧
      o.name ≠ "upload_method" ∧ o.name ≠ "supported_formats" := by decide
  exact normalizeOpt_int_text sd hty (hn o ho hty) i

/-- `same_text_every_layer_partial` for the remaining value classes.  **Floats**: for every `float` option the
    decimal text of every integer and the integer itself are accepted as the same float, and every finite decimal
    `a.f` (`f` a non-empty digit string) is accepted as the rational `(a·10^|f| + f)/10^|f|` (the harness compares
    with the nearest double).  **Strings**: for every `str` option every text stands for itself (only the empty
    text of `id_database_dir` means the default state directory).  **Lists**: for `supported_formats` the
    comma-joined text of any non-empty list of words (non-empty, no comma, no space) is accepted as that list,
    like the native list.  Still missing from the FULL STATEMENT: exponent/sign/whitespace forms of floats beyond
    these, and `background` (whose `str` alternative keeps non-decimal texts as strings). -/
theorem same_text_every_layer_partial_more (sd : String) :
    (∀ o ∈ Tup.Gen.options, o.ty = [.base .float] → ∀ i : Int,
        normalizeOpt sd o (.str (toString i)) = .ok (.float ⟨i, 1⟩) ∧
        normalizeOpt sd o (.int i) = .ok (.float ⟨i, 1⟩)) ∧
    (∀ o ∈ Tup.Gen.options, o.ty = [.base .float] → ∀ (a : Nat) (f : List Char), (∀ c ∈ f, c.isDigit = true) → f ≠ [] →
        normalizeOpt sd o (.str (String.ofList (Nat.toDigits 10 a ++ '.' :: f))) =
          .ok (.float ⟨((a * 10 ^ f.length + Nat.ofDigitChars 10 f 0 : Nat) : Int), 10 ^ f.length⟩)) ∧
    (∀ o ∈ Tup.Gen.options, o.ty = [.base .str] → ∀ s : String, ¬ (o.name = "id_database_dir" ∧ s = "") →
        normalizeOpt sd o (.str s) = .ok (.str s)) ∧
    (∀ o ∈ Tup.Gen.options, o.name = "supported_formats" → ∀ (w : String) (ws : List String),
        isWord w = true → (∀ v ∈ ws, isWord v = true) → String.intercalate "," (w :: ws) ≠ "auto" →
        normalizeOpt sd o (.str (String.intercalate "," (w :: ws))) = .ok (.list ((w :: ws).map Scalar.str)) ∧
        normalizeOpt sd o (.list ((w :: ws).map Scalar.str)) = .ok (.list ((w :: ws).map Scalar.str))) := by
  have hfl : ∀ o ∈ Tup.Gen.options, o.ty = [.base .float] →
      o.name ≠ "cell_size" ∧ o.name ≠ "default_cell_size" ∧ o.name ≠ "id_database_dir" ∧
      o.name ≠ "upload_method" ∧ o.name ≠ "supported_formats" ∧ o.name ≠ "max_cols" ∧ o.name ≠ "max_rows" := by decide
  have hst : ∀ o ∈ Tup.Gen.options, o.ty = [.base .str] →
      o.name ≠ "cell_size" ∧ o.name ≠ "default_cell_size" ∧
      o.name ≠ "upload_method" ∧ o.name ≠ "supported_formats" ∧ o.name ≠ "max_cols" ∧ o.name ≠ "max_rows" := by decide
  have hsf : ∀ o ∈ Tup.Gen.options, o.name = "supported_formats" → o.ty = [.list .str, .base (.lit "auto")] := by decide
  refine ⟨?_, ?_, ?_, ?_⟩
  · intro o ho hty i
    obtain ⟨h1, h2, h3, h4, h5, h6, h7⟩ := hfl o ho hty
    have hp := pyFloat_toString_int i
    have hne : toString i ≠ "auto" := by
      intro e; rw [e] at hp
      have hnone : pyFloat "auto" = none := by decide
      rw [hnone] at hp; cases hp
    have hp' : pyFloat i.repr = some ⟨i, 1⟩ := hp
    have hns : normalizeString sd o (toString i) = some (.float ⟨i, 1⟩) := by
      simp [normalizeString, convertScalar, scalarTypes, hty, h1, h2, h3, h4, h5, hp']
    constructor
    · simp only [normalizeOpt, preString, ne_eq, hne, not_false_eq_true, ↓reduceIte, hns]
      simp [promote, checkOpt, verifyType, valIsAlt, valIsBase, scalarIs, constraintsOk, hty]
    · simp [normalizeOpt, preString, promote, hty, checkOpt, verifyType, valIsAlt, valIsBase, scalarIs, constraintsOk]
  · intro o ho hty a f hf hne
    obtain ⟨h1, h2, h3, h4, h5, h6, h7⟩ := hfl o ho hty
    have hp := pyFloat_decimal a f hf hne
    have hna : String.ofList (Nat.toDigits 10 a ++ '.' :: f) ≠ "auto" := by
      intro e; rw [e] at hp
      have hnone : pyFloat "auto" = none := by decide
      rw [hnone] at hp; cases hp
    have hns : normalizeString sd o (String.ofList (Nat.toDigits 10 a ++ '.' :: f)) = some (.float ⟨((a * 10 ^ f.length + Nat.ofDigitChars 10 f 0 : Nat) : Int), 10 ^ f.length⟩) := by
      simp only [normalizeString, hty, h1, h2, h3, h4, h5, convertScalar, scalarTypes, hp]
      simp
    simp only [normalizeOpt, preString, ne_eq, hna, not_false_eq_true, ↓reduceIte, hns]
    simp [promote, checkOpt, verifyType, valIsAlt, valIsBase, scalarIs, constraintsOk, hty]
  · intro o ho hty s hs
    obtain ⟨h1, h2, h4, h5, h6, h7⟩ := hst o ho hty
    by_cases ha : s = "auto"
    · subst ha
      simp [normalizeOpt, preString, promote, hty, checkOpt, verifyType, valIsAlt, valIsBase, scalarIs, constraintsOk]
    · have hns : normalizeString sd o s = some (.str s) := by
        simp [normalizeString, convertScalar, scalarTypes, hty, h1, h2, h4, h5, hs]
      simp only [normalizeOpt, preString, ne_eq, ha, not_false_eq_true, ↓reduceIte, hns]
      simp [promote, checkOpt, verifyType, valIsAlt, valIsBase, scalarIs, constraintsOk, hty]
  · intro o ho hn w ws hw hws hne
    have hty := hsf o ho hn
    have hsp := splitFormats_join w ws hw hws
    constructor
    · have hns : normalizeString sd o (String.intercalate "," (w :: ws)) = some (.list ((w :: ws).map Scalar.str)) := by
        simp [normalizeString, hty, hn, hsp]
      simp only [normalizeOpt, preString, ne_eq, hne, not_false_eq_true, ↓reduceIte, hns]
      simp [promote, checkOpt, verifyType, valIsAlt, valIsBase, scalarIs, constraintsOk, hty]
    · simp [normalizeOpt, preString, promote, hty, checkOpt, verifyType, valIsAlt, valIsBase, scalarIs, constraintsOk]

example : normalize "/s" "scale" (.str "-3") = .ok (.float ⟨-3, 1⟩) ∧
    normalize "/s" "global_scale" (.str "12.50") = .ok (.float ⟨1250, 100⟩) ∧
    normalize "/s" "placeholder_char" (.str "auto") = .ok (.str "auto") ∧
    normalize "/s" "supported_formats" (.str "png,jpeg") = .ok (.list [.str "png", .str "jpeg"]) ∧
    isWord "png" = true := by
  refine ⟨by rfl, by rfl, by rfl, by rfl, by rfl⟩

/-! ### TOML round trip on the typed-value channel -/

/-- the four printer/parser theorems above, bundled -/
theorem printer_parser : PrinterParser where
  sub := printer_parser_subspace
  size := printer_parser_size
  space := fun s hs => (printer_parser_space s hs).1
  medium := fun m => (printer_parser_medium m).1

/-- **`load ∘ dump = id`, option by option.** For every option `o` of the (regenerated) table and every
    value `v` the configuration can hold for it — a result of `validate_and_normalize` on any raw value from
    any layer —: what `to_toml_string` hands to `toml.dumps` (`dumpValue`: the string forms of `id_subspace`,
    `id_space`, the cell sizes and the `upload_method` letter, native values otherwise), handed back by
    `toml.loads` to `override_from_toml_string`, normalises to `v` again.
    Hypotheses: the dumped value is one TOML has (`tomlNative`: string, integer, float, boolean, array — the
    domain on which the `toml` package is trusted as the identity; this excludes `None` and the `bytes` /
    formatting objects `background` may hold) and objects are constructible (`objOk`: one of the five
    `IDSpace` members, a range the `IDSubspace` constructor accepts). -/
theorem toml_roundtrip (sd : String) :
    ∀ o ∈ Tup.Gen.options, ∀ raw v : Val, normalizeOpt sd o raw = .ok v →
      tomlNative (dumpValue o.name v) = true → objOk v = true →
      normalize sd o.name (dumpValue o.name v) = .ok v := by
  intro o ho raw v h hnat hobj
  unfold normalize
  rw [lookupOpt_self o ho]
  exact normalizeOpt_dumpValue printer_parser table_facts sd ho h hnat hobj

/-- the per-option dump of `to_toml_string` is the shape-directed `dumpVal` of the model (the function the
    dynamic check compares with the real `to_toml_string`) on every value the configuration can hold -/
theorem toml_dump_is_model_dump (sd : String) :
    ∀ o ∈ Tup.Gen.options, ∀ raw v : Val, normalizeOpt sd o raw = .ok v → dumpValue o.name v = dumpVal v := by
  intro o ho raw v h
  exact dumpValue_eq_dumpVal object_facts ho (effective_spec table_facts ho h).1

/-- **`load ∘ dump = id`, the whole configuration.** Let `c` be a configuration object whose every entry
    holds a value `validate_and_normalize` can return for that option and that TOML can carry. Loading
    `c`'s dump into any configuration object `c0` (`override_from_toml_string`, checked for unknown keys as
    `override_from_toml_file` does) succeeds, and afterwards every option has the value it has in `c`. -/
theorem toml_roundtrip_config (sd path : String) (c c0 : Cfg)
    (hc : c.names = Tup.Gen.options.map (·.name)) (hc0 : c0.names = Tup.Gen.options.map (·.name))
    (heff : ∀ e ∈ c, ∃ o ∈ Tup.Gen.options, o.name = e.name ∧ (∃ raw, normalizeOpt sd o raw = .ok e.val) ∧
      tomlNative (dumpValue e.name e.val) = true ∧ objOk e.val = true) :
    dump c = dumpCfg c ∧
    ∃ c', applyFile sd c0 path (dump c) = .ok c' ∧ ∀ n, (c'.get? n).map (·.val) = (c.get? n).map (·.val) := by
  have hd : dump c = dumpCfg c := by
    unfold dump dumpCfg
    apply List.map_congr_left
    intro e he
    obtain ⟨o, ho, hname, ⟨raw, hraw⟩, _, _⟩ := heff e he
    rw [← hname, toml_dump_is_model_dump sd o ho raw e.val hraw]
  refine ⟨hd, ?_⟩
  rw [hd]
  obtain ⟨c', h1, _, h3⟩ := applyFile_dumpCfg sd c c0 path hc hc0 (by
    intro e he
    obtain ⟨o, ho, hname, ⟨raw, hraw⟩, hnat, hobj⟩ := heff e he
    rw [← hname] at hnat ⊢
    exact toml_roundtrip sd o ho raw e.val hraw hnat hobj)
  exact ⟨c', h1, h3⟩

/-- non-vacuity of `toml_roundtrip`: structured options, a negative integer, a promoted float, a list; and
    the two things TOML cannot carry (`None`, which `toml.dumps` drops, and objects without a string form) -/
example :
    normalize "/s" "cell_size" (dumpValue "cell_size" (.tuple [.int 9, .int 18])) = .ok (.tuple [.int 9, .int 18]) ∧
    normalize "/s" "id_space" (dumpValue "id_space" (.space ⟨8, true⟩)) = .ok (.space ⟨8, true⟩) ∧
    normalize "/s" "id_subspace" (dumpValue "id_subspace" (.sub ⟨3, 200⟩)) = .ok (.sub ⟨3, 200⟩) ∧
    normalize "/s" "upload_method" (dumpValue "upload_method" (.medium .tempFile)) = .ok (.medium .tempFile) ∧
    normalize "/s" "max_command_size" (dumpValue "max_command_size" (.int (-7))) = .ok (.int (-7)) ∧
    normalize "/s" "scale" (.int 2) = .ok (.float ⟨2, 1⟩) ∧
    normalize "/s" "scale" (dumpValue "scale" (.float ⟨2, 1⟩)) = .ok (.float ⟨2, 1⟩) ∧
    normalize "/s" "supported_formats" (dumpValue "supported_formats" (.list [.str "png", .str "jpeg"]))
      = .ok (.list [.str "png", .str "jpeg"]) ∧
    tomlNative (dumpValue "background" .none) = false ∧
    tomlNative (dumpValue "background" (.sc (.other "bytes"))) = false := by
  refine ⟨by rfl, by rfl, by rfl, by rfl, by rfl, by rfl, by rfl, by rfl, by decide, by decide⟩

/-- The hypotheses of `precedence` are satisfiable: a four-layer configuration of `max_cols`. -/
example : ∃ cfg, construct "/s" false
    { file := some ("/c.toml", [("max_cols", .int 10)]), env := [("max_cols", "20")],
      kwargs := [("max_cols", .int 30)], overrides := [("max_cols", .int 40), ("provenance", .str "set via command line")] } = .ok cfg ∧
    (cfg.get? "max_cols") = some ⟨"max_cols", .int 40, some (some "set via command line")⟩ := by
  refine ⟨_, rfl, ?_⟩
  decide

end Tup.C17
