import Tup.DrvUtil
import Tup.Model.IdSpace
import Tup.Spec.Layout
/-! Driver for the ID-space group (C10, C01, C14 oracle). -/
namespace Tup.Drv.Ids
open Tup

def spaceOf (cb u3 : String) : Option Space := do
  let c ← cb.toNat?
  pure ⟨c, u3 = "1"⟩

def optB : Option Bool → String
  | none => "err" | some b => boolStr b
def optN : Option Nat → String
  | none => "err" | some n => toString n
def natsStr (l : List Nat) : String := if l.isEmpty then "-" else ",".intercalate (l.map toString)
def parseNats (s : String) : List Nat := if s = "-" then [] else (s.splitOn ",").filterMap String.toNat?

def fnv (l : List Nat) : Nat := l.foldl (fun h x => ((h ^^^ x) * 1099511628211) % 18446744073709551616) 14695981039346656037

def handle : List String → String
  | ["fromid", id] => match id.toNat? with
      | some n => (match fromId n with | none => "err" | some s => s!"{s.colorBits} {boolStr s.use3rd}")
      | none => "bad"
  | ["contains", cb, u3, id] => match spaceOf cb u3, id.toNat? with
      | some s, some n => optB (s.contains n)
      | _, _ => "bad"
  | ["cis", cb, u3, b, e, id] => match spaceOf cb u3, b.toNat?, e.toNat?, id.toNat? with
      | some s, some b, some e, some n => optB (s.containsInSub n ⟨b, e⟩)
      | _, _, _, _ => "bad"
  | ["subbyte", id] => match id.toNat? with
      | some n => optN (subspaceByte n) | none => "bad"
  | ["mksub", b, e] => match b.toNat?, e.toNat? with
      | some b, some e => (match mkSub b e with | some _ => "ok" | none => "err")
      | _, _ => "bad"
  | ["size", cb, u3, b, e] => match spaceOf cb u3, b.toNat?, e.toNat? with
      | some s, some b, some e =>
          let u : Sub := ⟨b, e⟩
          let (lo, hi) := s.maskedRange u
          s!"{s.subspaceSize u} {s.byteOffset} {s.byteMask} {lo} {hi} {u.numByteValues} {u.numNonzeroByteValues}"
      | _, _, _ => "bad"
  | ["split", b, e, k] => match b.toNat?, e.toNat?, k.toNat? with
      | some b, some e, some k => (match (Sub.mk b e).split k with
          | none => "err"
          | some ps => " ".intercalate (ps.map fun p => s!"{p.b}:{p.e}"))
      | _, _, _ => "bad"
  | ["allids", cb, u3, b, e, mode] => match spaceOf cb u3, b.toNat?, e.toNat? with
      | some s, some b, some e =>
          let l := s.allIds ⟨b, e⟩
          if mode = "full" then natsStr l
          else s!"{l.length} {fnv l} {natsStr (l.take 5)} {natsStr (l.drop (l.length - 5))}"
      | _, _, _ => "bad"
  | ["gen", cb, u3, b, e, draws] => match spaceOf cb u3, b.toNat?, e.toNat? with
      | some s, some b, some e => optN (s.genRandomId ⟨b, e⟩ (parseNats draws))
      | _, _, _ => "bad"
  -- bounds of the successive randbelow calls (model), and the id computed by the same logged traversal
  | ["genbounds", cb, u3, b, e, draws] => match spaceOf cb u3, b.toNat?, e.toNat? with
      | some s, some b, some e =>
          let (id, ns) := s.genRandomIdLog ⟨b, e⟩ (parseNats draws)
          s!"{id} {natsStr ns}"
      | _, _, _ => "bad"
  | ["genleaves", cb, u3, b, e] => match spaceOf cb u3, b.toNat?, e.toNat? with
      | some s, some b, some e => s!"{s.genLeaves ⟨b, e⟩} {s.subspaceSize ⟨b, e⟩}"
      | _, _, _ => "bad"
  | ["sqlfilter", cb, u3, b, e, id] => match spaceOf cb u3, b.toNat?, e.toNat?, id.toNat? with
      | some s, some b, some e, some n => boolStr (s.sqlFilter ⟨b, e⟩ n)
      | _, _, _, _ => "bad"
  | ["name", cb, u3] => match spaceOf cb u3 with
      | some s => s.name | none => "bad"
  | ["ofstring", t] => match Space.ofString t with
      | some s => s!"{s.colorBits} {boolStr s.use3rd}" | none => "err"
  -- independent specification
  | ["spec_member", cb, u3, b, e, id] => match spaceOf cb u3, b.toNat?, e.toNat?, id.toNat? with
      | some s, some b, some e, some n => boolStr (Spec.member s ⟨b, e⟩ n)
      | _, _, _, _ => "bad"
  | ["spec_inspace", cb, u3, id] => match spaceOf cb u3, id.toNat? with
      | some s, some n => boolStr (Spec.inSpace s n)
      | _, _ => "bad"
  | ["spec_subbyte", cb, u3, id] => match spaceOf cb u3, id.toNat? with
      | some s, some n => toString (Spec.subByte s n)
      | _, _ => "bad"
  | _ => "bad"

end Tup.Drv.Ids
