import Tup.DrvUtil
import Tup.Model.Upload
/-! Driver for the end-to-end group (C09, C08). -/
namespace Tup.Drv.E2e
open Tup

def parseNats (s : String) : List Nat := if s = "-" then [] else (s.splitOn ",").filterMap String.toNat?

def showSt (st : UpSt) : String := s!"{st.ioDone} {st.bytes} {st.flushedBytes} {boolStr st.marked}"

def handle : List String → String
  -- upload <chunk lengths> <fault: - | at:kind:after>   kind ∈ io|died
  | ["upload", chunks, fault] =>
      let cs := parseNats chunks
      let f : Option Fault :=
        if fault = "-" then none
        else match fault.splitOn ":" with
          | [a, k, af] => match a.toNat? with
              | some n => some { at_ := n, kind := if k = "died" then .died else .ioError, after := af = "1" }
              | none => none
          | _ => none
      match runUpload cs f with
      | .ok st => s!"ok {showSt st} {(sendCalls cs).length}"
      | .error (.ioError, st) => s!"ioerror {showSt st} {(sendCalls cs).length}"
      | .error (.died, st) => s!"died {showSt st} {(sendCalls cs).length}"
  | _ => "bad"

end Tup.Drv.E2e
