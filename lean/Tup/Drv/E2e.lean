import Tup.DrvUtil
import Tup.Model.Upload
import Tup.Spec.Store
/-! Driver for the end-to-end group (C09, C08). -/
namespace Tup.Drv.E2e
open Tup

def parseNats (s : String) : List Nat := if s = "-" then [] else (s.splitOn ",").filterMap String.toNat?

def showSt (st : UpSt) : String := s!"{st.ioDone} {st.bytes} {st.flushedBytes} {boolStr st.marked}"

/-- arrival log on the wire, newest first: `id:token:rows:cols:size:time,…` or `-` -/
def parseLog (t : String) : Option (List Spec.Arrival) :=
  if t = "-" then some []
  else (t.splitOn ",").mapM fun e => match e.splitOn ":" with
    | [i, tok, r, c, sz, tm] => do
        pure { id := ← i.toNat?, token := tok, rows := ← r.toNat?, cols := ← c.toNat?, size := ← sz.toNat?, time := ← tm.toNat? }
    | _ => none

def handle : List String → String
  -- upload <chunk lengths> <fault: - | at:kind:after>   kind ∈ io|died
  | ["upload", chunks, fault] =>
      let cs := parseNats chunks
      let f : Option Fault :=
        if fault = "-" then none
        else match fault.splitOn ":" with
          | [a, k, af] => match a.toNat? with
              | some n => some { at_ := n, kind := if k = "died" then .died else .ioError, after := af = "1" }
              | none => none
          | _ => none
      match runUpload cs f with
      | .ok st => s!"ok {showSt st} {(sendCalls cs).length}"
      | .error (.ioError, st) => s!"ioerror {showSt st} {(sendCalls cs).length}"
      | .error (.died, st) => s!"died {showSt st} {(sendCalls cs).length}"
  -- printok <maxUploads> <maxBytes> <maxAge> <id> <token> <rows> <cols> <now> <log>
  | ["printok", mu, mb, ma, x, tok, r, c, now, log] =>
      match mu.toNat?, mb.toNat?, ma.toNat?, x.toNat?, r.toNat?, c.toNat?, now.toNat?, parseLog log with
      | some mu, some mb, some ma, some x, some r, some c, some now, some l =>
          let thr : Spec.Thresholds := ⟨mu, mb, ma⟩
          let sh := match Spec.shows thr l x now with
            | some a => s!"{a.token}:{a.rows}:{a.cols}"
            | none => "none"
          s!"{boolStr (Spec.printOk thr l x tok r c now)} {sh}"
      | _, _, _, _, _, _, _, _ => "bad"
  | _ => "bad"

end Tup.Drv.E2e
