import Tup.DrvUtil
import Tup.Model.Upload
import Tup.Model.Display
import Tup.Spec.Store
import Tup.Drv.Txn
/-! Driver for the end-to-end group (C09, C08).

  Besides the C09 upload machine and the C08 judgement `printok`, two correspondence requests:
  * `display …` replays a scenario's abstract request list through `Model.Display` (`Display.step`,
    cross-checked against `Display.trace` on the whole list) with the implementation's choices as inputs
    and answers, per request, whether the MODEL transmits, what it prints and which id `upload` returns;
  * everything starting with `txn` goes to `Drv/Txn.lean` (block structure of the transaction model,
    used by C12 / C03). -/
namespace Tup.Drv.E2e
open Tup

def parseNats (s : String) : List Nat := if s = "-" then [] else (s.splitOn ",").filterMap String.toNat?

def showSt (st : UpSt) : String := s!"{st.ioDone} {st.bytes} {st.flushedBytes} {boolStr st.marked}"

/-- arrival log on the wire, newest first: `id:token:rows:cols:size:time,…` or `-` -/
def parseLog (t : String) : Option (List Spec.Arrival) :=
  if t = "-" then some []
  else (t.splitOn ",").mapM fun e => match e.splitOn ":" with
    | [i, tok, r, c, sz, tm] => do
        pure { id := ← i.toNat?, token := tok, rows := ← r.toNat?, cols := ← c.toNat?, size := ← sz.toNat?, time := ← tm.toNat? }
    | _ => none

/-! ### replay of a C08 scenario through `Model.Display` (K "display model")

  `display <maxIds> <rebind 0|1> <maxUploads> <maxBytes> <maxTimeµs> <step>…`, one token per step, fields
  separated by `;`, sub-fields by `@`; `at` is the absolute clock value (µs) of the step:
    `R;at;term;target;token;rows;cols;size;force;display;method;ssh;isFile;available`   a request (`upload` /
        `upload_and_display`); target = `a@cb@u3@b@e@pick@samples@removed` (file / image: `assign_id` → `get_id`
        with the implementation's choices) | `f@id` (`force_id=`) | `i@id` (an `ImageInstance`);
        method = auto | file | direct | anything else (unsupported)
    `G;at;a@…;token;rows;cols`   `assign_id` alone (environment step `get_id`)
    `S;at;id;token;rows;cols`    `assign_id(force_id=)` alone (environment step `set_id`)
    `D;at;id`                    `del_id`
  Reply: `ok <tx>;<print>;<ret>;<margin>…`, one token per `R` step: tx = `-` | `t@term@id`, print = `-` |
  `p@term@id@rows@cols`, ret = id of the instance `upload` returns | `none` (it raised), margin = distance (µs)
  of this request's age test `now > upload_time + maxTime` from its boundary (`-`: no upload row consulted). -/

structure WStep where
  at_ : Nat
  step : Display.Step
  isReq : Bool

def parseTarget (t : String) : Option Display.Target :=
  match t.splitOn "@" with
  | ["a", cb, u3, b, e, pick, ss, rs] => do
      pure (.alloc (← Tup.Drv.Db.spaceOf cb u3) ⟨← b.toNat?, ← e.toNat?⟩
        { pick := ← pick.toNat?, samples := ← Tup.Drv.Db.parseRounds ss, removed := ← Tup.Drv.Db.parseRounds rs })
  | ["f", id] => do pure (.forced (← id.toNat?))
  | ["i", id] => do pure (.inst (← id.toNat?))
  | _ => none

def parseMethod : String → Display.MethodCfg
  | "auto" => .auto
  | "file" => .file
  | "direct" => .direct
  | _ => .unsupported

def parseWStep (t : String) : Option WStep :=
  match t.splitOn ";" with
  | ["R", at_, term, tg, tok, r, c, size, force, disp, method, ssh, isFile, avail] => do
      let rq : Display.Request :=
        { term := term, target := ← parseTarget tg, desc := ⟨tok, ← r.toNat?, ← c.toNat?⟩, size := ← size.toNat?,
          force := force = "1", display := disp = "1",
          via := { method := parseMethod method, insideSsh := ssh = "1",
                   src := { isFile := isFile = "1", available := avail = "1" } } }
      pure ⟨← at_.toNat?, .req rq, true⟩
  | ["G", at_, tg, tok, r, c] => do
      match ← parseTarget tg with
      | .alloc s u ch =>
          let d : Display.Desc := ⟨tok, ← r.toNat?, ← c.toNat?⟩
          pure ⟨← at_.toNat?, .env (.get ⟨s, u, d.str⟩ ch), false⟩
      | _ => none
  | ["S", at_, id, tok, r, c] => do
      let d : Display.Desc := ⟨tok, ← r.toNat?, ← c.toNat?⟩
      pure ⟨← at_.toNat?, .env (.set (← id.toNat?) d.str), false⟩
  | ["D", at_, id] => do pure ⟨← at_.toNat?, .env (.del (← id.toNat?)), false⟩
  | _ => none

def evStr : Display.Event → String
  | .transmit T x _ _ => s!"t@{T}@{x}"
  | .print T x d => s!"p@{T}@{x}@{d.rows}@{d.cols}"

/-- distance of the age test of `needs_uploading` from its boundary in the request `r` issued in state `s` -/
def ageMargin (cfg : Cfg) (thr : Thresholds) (rebind : Bool) (s : Display.State) (r : Display.Request) : String :=
  match Display.bind cfg rebind s.db s.now r.target r.desc with
  | (db1, some x) =>
    match getUploadInfo db1 x r.term with
    | some ui =>
      let lim := ui.time + thr.maxTime
      toString (if s.now ≥ lim then s.now - lim else lim - s.now)
    | none => "-"
  | _ => "-"

def reqOut (evs : List Display.Event) (ret : Option Nat) (margin : String) : String :=
  let tx := match evs.find? (fun e => match e with | .transmit .. => true | _ => false) with
    | some e => evStr e
    | none => "-"
  let pr := match evs.find? (fun e => match e with | .print .. => true | _ => false) with
    | some e => evStr e
    | none => "-"
  let rt := match ret with
    | some x => toString x
    | none => "none"
  s!"{tx};{pr};{rt};{margin}"

/-- fold of `Display.step` over the wire steps, a clock tick to `at` before each; `none`: the clock went back -/
def replayLoop (cfg : Cfg) (thr : Thresholds) (rebind : Bool) :
    List WStep → Display.State → List String → List Display.Step → List Display.Event →
    Option (List String × List Display.Step × List Display.Event)
  | [], _, outs, steps, evs => some (outs.reverse, steps.reverse, evs.reverse)
  | w :: rest, s, outs, steps, evs =>
    if w.at_ < s.now then none
    else
      let tick : Display.Step := .env (.tick (w.at_ - s.now))
      let s1 := (Display.step cfg (fun _ => thr) rebind s tick).1
      let (s2, ev) := Display.step cfg (fun _ => thr) rebind s1 w.step
      let outs' := match w.step with
        | .req r =>
          reqOut ev (Display.upload cfg (fun _ => thr) rebind s1 r).2.2 (ageMargin cfg thr rebind s1 r) :: outs
        | .env _ => outs
      replayLoop cfg thr rebind rest s2 outs' (w.step :: tick :: steps) (ev.reverse ++ evs)

def displayReplay : List String → String
  | m :: rb :: mu :: mb :: mt :: steps =>
    match m.toNat?, Tup.Drv.Db.thrOf mu mb mt, steps.mapM parseWStep with
    | some m, some thr, some ws =>
      let cfg : Cfg := { maxIds := m }
      let rebind := rb = "1"
      match replayLoop cfg thr rebind ws Display.State.init [] [] [] with
      | none => "bad clock"
      | some (outs, allSteps, allEvs) =>
        -- the per-request events are exactly the events of `Display.trace` on the whole history
        if (Display.trace cfg (fun _ => thr) rebind Display.State.init allSteps).map (·.2) == allEvs then
          " ".intercalate ("ok" :: outs)
        else "bad trace"
    | _, _, _ => "bad"
  | _ => "bad"

def handle : List String → String
  -- upload <chunk lengths> <fault: - | at:kind:after>   kind ∈ io|died
  | ["upload", chunks, fault] =>
      let cs := parseNats chunks
      let f : Option Fault :=
        if fault = "-" then none
        else match fault.splitOn ":" with
          | [a, k, af] => match a.toNat? with
              | some n => some { at_ := n, kind := if k = "died" then .died else .ioError, after := af = "1" }
              | none => none
          | _ => none
      match runUpload cs f with
      | .ok st => s!"ok {showSt st} {(sendCalls cs).length}"
      | .error (.ioError, st) => s!"ioerror {showSt st} {(sendCalls cs).length}"
      | .error (.died, st) => s!"died {showSt st} {(sendCalls cs).length}"
  -- printok <maxUploads> <maxBytes> <maxAge> <id> <token> <rows> <cols> <now> <log>
  | ["printok", mu, mb, ma, x, tok, r, c, now, log] =>
      match mu.toNat?, mb.toNat?, ma.toNat?, x.toNat?, r.toNat?, c.toNat?, now.toNat?, parseLog log with
      | some mu, some mb, some ma, some x, some r, some c, some now, some l =>
          let thr : Spec.Thresholds := ⟨mu, mb, ma⟩
          let sh := match Spec.shows thr l x now with
            | some a => s!"{a.token}:{a.rows}:{a.cols}"
            | none => "none"
          s!"{boolStr (Spec.printOk thr l x tok r c now)} {sh}"
      | _, _, _, _, _, _, _, _ => "bad"
  | "display" :: args => displayReplay args
  | args => (Tup.Drv.Txn.handle args).getD "bad"

end Tup.Drv.E2e
