import Tup.DrvUtil
/-! Driver for group E2e (stub; the group's owner fills it in). -/
namespace Tup.Drv.E2e
open Tup

def handle : List String → String
  | _ => "bad"

end Tup.Drv.E2e
