import Tup.DrvUtil
/-! Driver for group Sh (stub; the group's owner fills it in). -/
namespace Tup.Drv.Sh
open Tup

def handle : List String → String
  | _ => "bad"

end Tup.Drv.Sh
