import Tup.DrvUtil
import Tup.Model.ShellExport
import Tup.Spec.Sh
/-! Driver for group Sh: shell exporter (C18) and terminal responses (C19). -/
namespace Tup.Drv.Sh
open Tup

def optHex : Option Bytes → String
  | none => "none"
  | some b => "some " ++ hexOut b

def hexList (l : List Bytes) : String :=
  if l.isEmpty then "." else ",".intercalate (l.map hexOut)

def handleSh : List String → Option String
  -- model of the exporter
  | ["export", d, c] => do
      let d ← ofHex d; let c ← ofHex c
      pure (hexOut (ShellExport.writeToShellscript d c))
  | ["command", d] => do
      let d ← ofHex d
      pure (hexOut (ShellExport.command d))
  | ["escape", d] => do
      let d ← ofHex d
      pure (hexOut (ShellExport.escapeBytes d))
  | ["chunks", d] => do
      let d ← ofHex d
      pure (hexList (ShellExport.splitChunks d))
  | ["trybase64", d] => do
      let d ← ofHex d
      pure (optHex (ShellExport.tryBase64 d))
  | ["pyb64", d] => do
      let d ← ofHex d
      pure (optHex (ShellExport.pyB64decStrict d))
  | ["b64enc", d] => do
      let d ← ofHex d
      pure (hexOut (b64enc d))
  -- specification: what sh prints
  | ["eval", s] => do
      let s ← ofHex s
      pure (optHex (Spec.Sh.eval s))
  | _ => none

def handle (args : List String) : String :=
  match handleSh args with
  | some r => r
  | none => "bad"

end Tup.Drv.Sh
