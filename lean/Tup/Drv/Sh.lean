import Tup.DrvUtil
import Tup.Model.ShellExport
import Tup.Spec.Sh
import Tup.Model.Response
import Tup.Spec.Response
/-! Driver for group Sh: shell exporter (C18) and terminal responses (C19). -/
namespace Tup.Drv.Sh
open Tup

def optHex : Option Bytes → String
  | none => "none"
  | some b => "some " ++ hexOut b

def hexList (l : List Bytes) : String :=
  if l.isEmpty then "." else ",".intercalate (l.map hexOut)

def handleSh : List String → Option String
  -- model of the exporter
  | ["export", d, c] => do
      let d ← ofHex d; let c ← ofHex c
      pure (hexOut (ShellExport.writeToShellscript d c))
  | ["command", d] => do
      let d ← ofHex d
      pure (hexOut (ShellExport.command d))
  | ["escape", d] => do
      let d ← ofHex d
      pure (hexOut (ShellExport.escapeBytes d))
  | ["chunks", d] => do
      let d ← ofHex d
      pure (hexList (ShellExport.splitChunks d))
  | ["trybase64", d] => do
      let d ← ofHex d
      pure (optHex (ShellExport.tryBase64 d))
  | ["pyb64", d] => do
      let d ← ofHex d
      pure (optHex (ShellExport.pyB64decStrict d))
  | ["b64enc", d] => do
      let d ← ofHex d
      pure (hexOut (b64enc d))
  -- specification: what sh prints
  | ["eval", s] => do
      let s ← ofHex s
      pure (optHex (Spec.Sh.eval s))
  | _ => none

/-! ### responses (C19) -/
def optInt : Option Int → String
  | none => "-"
  | some v => toString v

def extrasStr (l : List (Bytes × Option Bytes)) : String :=
  if l.isEmpty then "." else
  ",".intercalate (l.map fun (k, v) => hexOut k ++ ":" ++ (match v with | none => "~" | some v => hexOut v))

/-- canonical line of a response: `resp valid ok i I p msg non extras` -/
def respStr (r : Tup.Response.Resp) : String :=
  s!"resp {boolStr r.isValid} {boolStr r.isOk} {optInt r.imageId} {optInt r.imageNumber} {optInt r.placementId} " ++
  s!"{hexOut r.message} {hexOut r.nonResponse} {extrasStr r.additional}"

def recvStr : Tup.Response.Recv → String
  | .resp r => respStr r
  | .decodeError => "decodeError"

def expectedStr (e : Spec.Response.Expected) : String :=
  let oi (o : Option Nat) : String := match o with | none => "-" | some n => toString n
  s!"resp 1 {boolStr e.isOk} {oi e.imageId} {oi e.imageNumber} {oi e.placementId} " ++
  s!"{hexOut e.message} {hexOut e.nonResponse} {extrasStr e.extras}"

/-- keys token: `.` or comma separated `i:5`, `I:7`, `p:3`, `x:<khex>:<vhex|~>` -/
def parseKey (s : String) : Option Spec.Response.Key :=
  match s.splitOn ":" with
  | ["i", n] => n.toNat?.map .imageId
  | ["I", n] => n.toNat?.map .imageNumber
  | ["p", n] => n.toNat?.map .placementId
  | ["x", k, v] => do
      let k ← ofHex k
      if v = "~" then pure (.extra k none) else do
        let v ← ofHex v
        pure (.extra k (some v))
  | _ => none

def parseWf (keys msg : String) : Option Spec.Response.Wf := do
  let ks ← if keys = "." then pure [] else (keys.splitOn ",").mapM parseKey
  let m ← if msg = "~" then pure none else (ofHex msg).map some
  pure ⟨ks, m⟩

def handleResp : List String → Option String
  | ["recv", i] => do
      let i ← ofHex i
      let (r, rest) := Tup.Response.receive i
      pure (recvStr r ++ " " ++ hexOut rest)
  | ["recvmulti", i] => do
      let i ← ofHex i
      match Tup.Response.receiveMultiple i with
      | none => pure "decodeError"
      | some l => pure (s!"multi {l.length}" ++ String.join (l.map fun r => " | " ++ respStr r))
  | ["cpr", i] => do
      let i ← ofHex i
      match Tup.Response.getCursorPosition i with
      | .pos x y rest => pure s!"pos {x} {y} {hexOut rest}"
      | .timeout => pure "timeout"
      | .valueError rest => pure s!"valueError {hexOut rest}"
  | ["pyint", i] => do
      let i ← ofHex i
      pure (optInt (Tup.Response.pyInt i))
  | ["utf8", i] => do
      let i ← ofHex i
      pure (boolStr (Tup.Response.utf8Valid i) ++ " " ++ boolStr (Spec.Response.isUtf8 i))
  | ["spec_encode", keys, msg] => do
      let w ← parseWf keys msg
      pure (hexOut (Spec.Response.encode w))
  | ["spec_expect", noise, keys, msg] => do
      let n ← ofHex noise
      let w ← parseWf keys msg
      pure (expectedStr (Spec.Response.expected n w))
  | ["spec_wf", keys, msg] => do
      let w ← parseWf keys msg
      pure (boolStr (Spec.Response.wf w))
  | ["spec_noise", n] => do
      let n ← ofHex n
      pure (boolStr (Spec.Response.noiseOk n) ++ " " ++ boolStr (Spec.Response.cprNoiseOk n))
  | ["spec_cpr", x, y] => do
      let x ← x.toNat?; let y ← y.toNat?
      pure (hexOut (Spec.Response.encodeCpr x y))
  | _ => none

def handle (args : List String) : String :=
  match handleSh args with
  | some r => r
  | none =>
    match handleResp args with
    | some r => r
    | none => "bad"

end Tup.Drv.Sh
