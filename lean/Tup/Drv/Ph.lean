import Tup.DrvUtil
/-! Driver for group Ph (stub; the group's owner fills it in). -/
namespace Tup.Drv.Ph
open Tup

def handle : List String → String
  | _ => "bad"

end Tup.Drv.Ph
