import Tup.DrvUtil
import Tup.Model.Placeholder
import Tup.Model.DisplayArgs
import Tup.Spec.Term
import Tup.Spec.Decode
/-!
  Driver for the placeholder group (C07, C13, C14).

  Model requests (reply `ok …` / `err value|index`):
    lines  <ph> <mode> <fmt> <noesc>                      -> ok hex,hex,…   (to_lines)
    stream cur:<save>:<lf>  <ph> <mode> <fmt>             -> ok hex         (to_stream_at_cursor)
    stream lf:<noesc>       <ph> <mode> <fmt>             -> ok hex         (to_stream_with_linefeeds)
    stream abs:<x>:<y>      <ph> <mode> <fmt>             -> ok hex         (to_stream_abs_position)
    stream disp:<x>:<y>|-:<save>:<lf> <ph> <mode> <fmt>   -> ok hex         (to_stream dispatch)
    dispmode <fewer>                                      -> a256i a256p skip first other
    getfmt none | idx <n> | rgb <r> <g> <b>               -> none | hex
    display <ph> <fewer> none|idx:<n>|rgb:<r>:<g>:<b> <x>:<y>|- <lf> br|tr|tl|bl  -> ok hex   (display_only)
    dcall <nine> br|tr|tl|bl <obj> <sc> <sr> <ec> <er> <allowExpansion> <fewer> <bg> <x>:<y>|- <lf> br|tr|tl|bl|def|bad
        -> ok|err_value|err_index <hex written to the display stream> <id>,<pid>,<sc>,<sr>,<ec>,<er>|-
      (display_only with its argument handling, Model.DisplayArgs.displayCall): <obj> = int:<id> | ph:<id>:<pid>:<sc>:<sr>:<ec>:<er> |
      inst:<id>:<cols>:<rows>; the overrides <sc>… are integers or `-` (not given); <x>, <y> may be negative; the second
      token is the terminal object's own default final position, `def` = final_cursor_pos not given, `bad` = an unknown name.
    lines9 / stream9 / display9: the same, answered by the model of the code WITHOUT the D9 repair (blank lines have
      no trailing reset); used by C07/C14, whose properties do not depend on that reset.
  where <ph> = id pid startCol startRow endCol endRow (integers, may be negative),
        <mode> = a256i a256p skip first other,
        <fmt> = n | b=<hex> | r=<defaulthex>[/<row>:<hex>…] | c=<defaulthex>[/<col>.<row>:<hex>…].

  Specification request (the independent terminal + decoding rules on given BYTES):
    spec <W> <H> <cx> <cy> <cubFromW> <restoreSgr> <onlcr> <fg> <ul> <bg> <hex>
      -> cur=<cx>,<cy> sgr=<fg>/<ul>/<bg> scrolled=<n> ph=<y>,<x>,<id>,<pid>,<row>,<col>;…  cells=<y>,<x>,<ch>,<m.m.m>,<fg>,<ul>,<bg>;…
    colours: `-` default, `i<n>`, `r<r>.<g>.<b>`; `cells` lists every cell that is not blank.
-/
namespace Tup.Drv.Ph
open Tup Tup.Spec

def b? (s : String) : Option Bool := if s = "1" then some true else if s = "0" then some false else none

def parseMode : List String → Option Mode
  | [a, b, c, f, o] => do
      let a ← b? a; let b ← b? b; let c ← b? c
      let f ← f.toNat?; let o ← o.toNat?
      pure ⟨a, b, c, f, o⟩
  | _ => none

def parsePh : List String → Option RawPlaceholder
  | [a, b, c, d, e, f] => do
      pure ⟨← a.toInt?, ← b.toInt?, ← c.toInt?, ← d.toInt?, ← e.toInt?, ← f.toInt?⟩
  | _ => none

def lookupD {κ} [BEq κ] (tab : List (κ × Bytes)) (dflt : Bytes) (k : κ) : Bytes :=
  match tab.lookup k with
  | some b => b
  | none => dflt

def parseEntries {κ} (key : String → Option κ) (es : List String) : Option (List (κ × Bytes)) :=
  es.mapM fun e => match e.splitOn ":" with
    | [k, h] => do pure (← key k, ← ofHex h)
    | _ => none

def parseFmt (s : String) : Option Fmt :=
  if s = "n" then some .none
  else if s.startsWith "b=" then (ofHex (s.drop 2).toString).map .bytes
  else if s.startsWith "r=" then
    match (s.drop 2).toString.splitOn "/" with
    | d :: es => do
        let d ← ofHex d
        let tab ← parseEntries String.toNat? es
        pure (.row (lookupD tab d))
    | [] => none
  else if s.startsWith "c=" then
    match (s.drop 2).toString.splitOn "/" with
    | d :: es => do
        let d ← ofHex d
        let tab ← parseEntries (fun k => match k.splitOn "." with
          | [c, r] => do pure (← c.toNat?, ← r.toNat?)
          | _ => none) es
        pure (.cell fun c r => lookupD tab d (c, r))
    | [] => none
  else none

def errStr : PhErr → String
  | .value => "err value"
  | .index => "err index"

def outLines : Except PhErr (List Bytes) → String
  | .error e => errStr e
  | .ok ls => "ok " ++ (if ls.isEmpty then "" else ",".intercalate (ls.map hexOut))

def outBytes : Except PhErr Bytes → String
  | .error e => errStr e
  | .ok b => "ok " ++ hexOut b

def parseColor (s : String) : Option (Option Color) :=
  if s = "-" then some none
  else if s.startsWith "i" then (s.drop 1).toString.toNat?.map fun n => some (.idx n)
  else if s.startsWith "r" then
    match (s.drop 1).toString.splitOn "." with
    | [r, g, b] => do pure (some (.rgb (← r.toNat?) (← g.toNat?) (← b.toNat?)))
    | _ => none
  else none

def colorStr : Option Color → String
  | none => "-"
  | some (.idx n) => s!"i{n}"
  | some (.rgb r g b) => s!"r{r}.{g}.{b}"

def specReply (t : Term) : String :=
  let ph := (t.decodeScreen.zipIdx.flatMap fun (row, y) =>
    row.zipIdx.filterMap fun (d, x) => d.map fun d =>
      s!"{y},{x},{d.imageId},{d.placementId},{d.row},{d.col}")
  let cells := (List.range t.h).flatMap fun y => (List.range t.w).filterMap fun x =>
    let c := t.cells y x
    if c = Cell.blank then none
    else some s!"{y},{x},{c.ch},{".".intercalate (c.marks.map toString)},{colorStr c.fg},{colorStr c.ul},{colorStr c.bg}"
  s!"cur={t.cx},{t.cy} sgr={colorStr t.sgr.fg}/{colorStr t.sgr.ul}/{colorStr t.sgr.bg} scrolled={t.scrolled} ph={";".intercalate ph} cells={";".intercalate cells}"

/-- the same requests answered by the model of the code WITHOUT the D9 repair (`lines9`, `stream9`, `display9`) -/
def styleStream9 (style : String) (r : RawPlaceholder) (m : Mode) (fmt : Fmt) : Option (Except PhErr Bytes) :=
  match style.splitOn ":" with
  | ["cur", s, l] => do pure (toStreamUnrepaired r none m fmt (← b? s) (← b? l))
  | ["lf", n] => do pure ((toLinesUnrepaired r m fmt (← b? n)).map streamLinefeeds)
  | ["abs", x, y] => do pure (toStreamUnrepaired r (some (← x.toNat?, ← y.toNat?)) m fmt true false)
  | ["disp", "-", s, l] => do pure (toStreamUnrepaired r none m fmt (← b? s) (← b? l))
  | ["disp", x, y, s, l] => do pure (toStreamUnrepaired r (some (← x.toNat?, ← y.toNat?)) m fmt (← b? s) (← b? l))
  | _ => none

def styleStream (style : String) (r : RawPlaceholder) (m : Mode) (fmt : Fmt) : Option (Except PhErr Bytes) :=
  match style.splitOn ":" with
  | ["cur", s, l] => do pure (toStreamAtCursor r m fmt (← b? s) (← b? l))
  | ["lf", n] => do pure (toStreamLinefeeds r m fmt (← b? n))
  | ["abs", x, y] => do pure (toStreamAbs r (← x.toNat?) (← y.toNat?) m fmt)
  | ["disp", "-", s, l] => do pure (toStream r none m fmt (← b? s) (← b? l))
  | ["disp", x, y, s, l] => do pure (toStream r (some (← x.toNat?, ← y.toNat?)) m fmt (← b? s) (← b? l))
  | _ => none

def display (nine : Bool) (ph : List String) (fewer bg pos lf fp : String) : String :=
  let bg? : Option Background := match bg.splitOn ":" with
    | ["none"] => some .none
    | ["idx", n] => n.toNat?.map .idx
    | ["rgb", r, g, bl] => do pure (.rgb (← r.toNat?) (← g.toNat?) (← bl.toNat?))
    | _ => none
  let pos? : Option (Option (Nat × Nat)) := match pos.splitOn ":" with
    | ["-"] => some none
    | [x, y] => do pure (some (← x.toNat?, ← y.toNat?))
    | _ => none
  let fp? : Option FinalPos := match fp with
    | "br" => some .bottomRight | "tr" => some .topRight | "tl" => some .topLeft | "bl" => some .bottomLeft | _ => none
  match parsePh ph, b? fewer, bg?, pos?, b? lf, fp? with
  | some r, some fewer, some bg, some pos, some lf, some fp =>
      outBytes (if nine then displayOnlyUnrepaired r fewer bg pos lf fp else displayOnly r fewer bg pos lf fp)
  | _, _, _, _, _, _ => "bad"

def fp4? : String → Option FinalPos
  | "br" => some .bottomRight | "tr" => some .topRight | "tl" => some .topLeft | "bl" => some .bottomLeft | _ => none

def optInt? (s : String) : Option (Option Int) := if s = "-" then some none else s.toInt?.map some

def dispObj? (s : String) : Option DispObj :=
  match s.splitOn ":" with
  | ["int", a] => do pure (.int (← a.toInt?))
  | ["ph", a, b, c, d, e, f] => (parsePh [a, b, c, d, e, f]).map .ph
  | ["inst", a, c, r] => do pure (.inst (← a.toInt?) (← c.toInt?) (← r.toInt?))
  | _ => none

def dcall (nine cfg obj sc sr ec er ae fewer bg pos lf fp : String) : String :=
  let bg? : Option Background := match bg.splitOn ":" with
    | ["none"] => some .none
    | ["idx", n] => n.toNat?.map .idx
    | ["rgb", r, g, bl] => do pure (.rgb (← r.toNat?) (← g.toNat?) (← bl.toNat?))
    | _ => none
  let pos? : Option (Option (Int × Int)) := match pos.splitOn ":" with
    | ["-"] => some none
    | [x, y] => do pure (some (← x.toInt?, ← y.toInt?))
    | _ => none
  let fp? : Option FinalPosArg := if fp = "def" then some .dflt else if fp = "bad" then some .invalid else (fp4? fp).map .named
  let r? : Option String := do
    let o := displayCall (← b? nine) (← fp4? cfg) (← dispObj? obj) (← optInt? sc) (← optInt? sr) (← optInt? ec) (← optInt? er)
      (← b? ae) (← b? fewer) (← bg?) (← pos?) (← b? lf) (← fp?)
    let st := match o.status with
      | .ok _ => "ok" | .error .value => "err_value" | .error .index => "err_index"
    let ret := match o.returned with
      | some r => s!"{r.imageId},{r.placementId},{r.startCol},{r.startRow},{r.endCol},{r.endRow}"
      | none => "-"
    pure s!"{st} {hexOut o.written} {ret}"
  r?.getD "bad"

def handle : List String → String
  | ["dcall", nine, cfg, obj, sc, sr, ec, er, ae, fewer, bg, pos, lf, fp] => dcall nine cfg obj sc sr ec er ae fewer bg pos lf fp
  | ["lines", a, b, c, d, e, f, m1, m2, m3, m4, m5, fmt, ne] =>
      match parsePh [a, b, c, d, e, f], parseMode [m1, m2, m3, m4, m5], parseFmt fmt, b? ne with
      | some r, some m, some fm, some ne => if m.valid then outLines (toLines r m fm ne) else errStr .value
      | _, _, _, _ => "bad"
  | ["lines9", a, b, c, d, e, f, m1, m2, m3, m4, m5, fmt, ne] =>
      match parsePh [a, b, c, d, e, f], parseMode [m1, m2, m3, m4, m5], parseFmt fmt, b? ne with
      | some r, some m, some fm, some ne => if m.valid then outLines (toLinesUnrepaired r m fm ne) else errStr .value
      | _, _, _, _ => "bad"
  | ["stream9", style, a, b, c, d, e, f, m1, m2, m3, m4, m5, fmt] =>
      match parsePh [a, b, c, d, e, f], parseMode [m1, m2, m3, m4, m5], parseFmt fmt with
      | some r, some m, some fm => if !m.valid then errStr .value else (match styleStream9 style r m fm with
          | some x => outBytes x
          | none => "bad")
      | _, _, _ => "bad"
  | ["stream", style, a, b, c, d, e, f, m1, m2, m3, m4, m5, fmt] =>
      match parsePh [a, b, c, d, e, f], parseMode [m1, m2, m3, m4, m5], parseFmt fmt with
      | some r, some m, some fm => if !m.valid then errStr .value else (match styleStream style r m fm with
          | some x => outBytes x
          | none => "bad")
      | _, _, _ => "bad"
  | ["display", a, b, c, d, e, f, fewer, bg, pos, lf, fp] => display false [a, b, c, d, e, f] fewer bg pos lf fp
  | ["display9", a, b, c, d, e, f, fewer, bg, pos, lf, fp] => display true [a, b, c, d, e, f] fewer bg pos lf fp
  | ["dispmode", fewer] => match b? fewer with
      | some f =>
          let m := displayMode f
          s!"{boolStr m.allow256Image} {boolStr m.allow256Placement} {boolStr m.skipPlacementIfZero} {m.firstLevel} {m.otherLevel}"
      | none => "bad"
  | ["getfmt", "none"] => "none"
  | ["getfmt", "idx", n] => match n.toNat? with
      | some n => hexOut ((getFormatting (.idx n)).rowB 0)
      | none => "bad"
  | ["getfmt", "rgb", r, g, b] => match r.toNat?, g.toNat?, b.toNat? with
      | some r, some g, some b => hexOut ((getFormatting (.rgb r g b)).rowB 0)
      | _, _, _ => "bad"
  | ["spec", w, h, cx, cy, cub, rs, nl, fg, ul, bg, hex] =>
      match w.toNat?, h.toNat?, cx.toNat?, cy.toNat?, b? cub, b? rs, b? nl with
      | some w, some h, some cx, some cy, some cub, some rs, some nl =>
          (match parseColor fg, parseColor ul, parseColor bg, ofHex hex with
          | some fg, some ul, some bg, some bytes =>
              let t0 : Term := { Term.init w h { cubFromW := cub, restoreSgr := rs } with cx := cx, cy := cy, sgr := ⟨fg, ul, bg⟩ }
              let toks := parse bytes
              let toks := if nl then onlcr toks else toks
              specReply (t0.feedAll toks)
          | _, _, _, _ => "bad")
      | _, _, _, _, _, _, _ => "bad"
  | _ => "bad"

end Tup.Drv.Ph
