import Tup.DrvUtil
import Tup.Model.Command
import Tup.Spec.GfxParse
import Tup.Spec.TmuxUnwrap
import Tup.Gen.Keys
/-!
  Driver for the graphics-command group (C05, C06, C11).

  A command is described by tokens: the type (`T` transmit, `M` more-data, `P` put, `D` delete)
  followed by `field:value` tokens with the Python field names (`image_id:5 medium:DIRECT more:1
  data:68656c6c6f placement:1 p.rows:3 …`); integers in decimal, booleans `0`/`1`, enum members by
  their Python names, bytes in hex (`-` = empty).  A field that is not named is `None`.
-/
namespace Tup.Drv.Cmd
open Tup Tup.Command

def parseBool (s : String) : Option Bool := if s = "1" then some true else if s = "0" then some false else none

def parseQuiet : String → Option Quietness
  | "VERBOSE" => some .verbose | "QUIET_UNLESS_ERROR" => some .quietUnlessError | "QUIET_ALWAYS" => some .quietAlways
  | _ => none
def parseFormat : String → Option Format
  | "RGB" => some .rgb | "RGBA" => some .rgba | "PNG" => some .png | _ => none
def parseMedium : String → Option Medium
  | "DIRECT" => some .direct | "FILE" => some .file | "TEMP_FILE" => some .tempFile
  | "SHARED_MEMORY" => some .sharedMemory | _ => none
def parseCompression : String → Option Compression
  | "ZLIB" => some .zlib | _ => none
def parseWhat : String → Option WhatToDelete
  | "VISIBLE_PLACEMENTS" => some .visiblePlacements
  | "IMAGE_OR_PLACEMENT_BY_ID" => some .imageOrPlacementById
  | "IMAGE_OR_PLACEMENT_BY_NUMBER" => some .imageOrPlacementByNumber
  | "PLACEMENTS_UNDER_CURSOR" => some .placementsUnderCursor
  | "ANIMATION_FRAMES" => some .animationFrames
  | "PLACEMENTS_AT_POSITION" => some .placementsAtPosition
  | "PLACEMENTS_AT_POSITION_AND_ZINDEX" => some .placementsAtPositionAndZindex
  | "PLACEMENTS_AT_COLUMN" => some .placementsAtColumn
  | "PLACEMENTS_AT_ROW" => some .placementsAtRow
  | "PLACEMENTS_AT_ZINDEX" => some .placementsAtZindex
  | _ => none

def setPlacement (p : Placement) (name value : String) : Option Placement :=
  match name with
  | "placement_id" => value.toNat?.map fun n => { p with placementId := some n }
  | "virtual" => (parseBool value).map fun b => { p with virtual := some b }
  | "rows" => value.toNat?.map fun n => { p with rows := some n }
  | "cols" => value.toNat?.map fun n => { p with cols := some n }
  | "do_not_move_cursor" => (parseBool value).map fun b => { p with doNotMoveCursor := some b }
  | "src_x" => value.toNat?.map fun n => { p with srcX := some n }
  | "src_y" => value.toNat?.map fun n => { p with srcY := some n }
  | "src_w" => value.toNat?.map fun n => { p with srcW := some n }
  | "src_h" => value.toNat?.map fun n => { p with srcH := some n }
  | _ => none

def setTransmit (t : Transmit) (name value : String) : Option Transmit :=
  match name with
  | "image_id" => value.toNat?.map fun n => { t with imageId := some n }
  | "image_number" => value.toNat?.map fun n => { t with imageNumber := some n }
  | "medium" => (parseMedium value).map fun m => { t with medium := some m }
  | "data" => (ofHex value).map fun d => { t with data := d }
  | "size" => value.toNat?.map fun n => { t with size := some n }
  | "offset" => value.toNat?.map fun n => { t with offset := some n }
  | "quiet" => (parseQuiet value).map fun q => { t with quiet := some q }
  | "more" => (parseBool value).map fun b => { t with more := some b }
  | "format" => (parseFormat value).map fun f => { t with format := some f }
  | "compression" => (parseCompression value).map fun c => { t with compression := some c }
  | "pix_width" => value.toNat?.map fun n => { t with pixWidth := some n }
  | "pix_height" => value.toNat?.map fun n => { t with pixHeight := some n }
  | "query" => (parseBool value).map fun b => { t with query := some b }
  | "omit_action" => (parseBool value).map fun b => { t with omitAction := b }
  | "placement" => if value = "1" then some { t with placement := some (t.placement.getD {}) } else none
  | _ =>
    if name.startsWith "p." then
      (setPlacement (t.placement.getD {}) (name.drop 2).toString value).map fun p => { t with placement := some p }
    else none

def setMore (m : MoreData) (name value : String) : Option MoreData :=
  match name with
  | "image_id" => value.toNat?.map fun n => { m with imageId := some n }
  | "image_number" => value.toNat?.map fun n => { m with imageNumber := some n }
  | "data" => (ofHex value).map fun d => { m with data := d }
  | "more" => (parseBool value).map fun b => { m with more := some b }
  | _ => none

def setPut (p : Put) (name value : String) : Option Put :=
  match name with
  | "image_id" => value.toNat?.map fun n => { p with imageId := some n }
  | "image_number" => value.toNat?.map fun n => { p with imageNumber := some n }
  | "quiet" => (parseQuiet value).map fun q => { p with quiet := some q }
  | _ => (setPlacement p.placement name value).map fun pl => { p with placement := pl }

def setDelete (d : Delete) (name value : String) : Option Delete :=
  match name with
  | "image_id" => value.toNat?.map fun n => { d with imageId := some n }
  | "image_number" => value.toNat?.map fun n => { d with imageNumber := some n }
  | "placement_id" => value.toNat?.map fun n => { d with placementId := some n }
  | "quiet" => (parseQuiet value).map fun q => { d with quiet := some q }
  | "what" => (parseWhat value).map fun w => { d with what := some w }
  | "delete_data" => (parseBool value).map fun b => { d with deleteData := some b }
  | _ => none

def splitTok (tok : String) : Option (String × String) :=
  match tok.splitOn ":" with
  | [a, b] => some (a, b)
  | _ => none

def foldFields {α} (set : α → String → String → Option α) (init : α) (toks : List String) : Option α :=
  toks.foldlM (fun acc tok => do let (n, v) ← splitTok tok; set acc n v) init

def parseCmd : List String → Option GCmd
  | "T" :: toks => (foldFields setTransmit {} toks).map .transmit
  | "M" :: toks => (foldFields setMore {} toks).map .moreData
  | "P" :: toks => (foldFields setPut {} toks).map .put
  | "D" :: toks => (foldFields setDelete {} toks).map .delete
  | _ => none

def hexList (l : List Bytes) : String := if l.isEmpty then "none" else " ".intercalate (l.map hexOut)

def itemsStr (items : List (UInt8 × Bytes)) : String :=
  if items.isEmpty then "-" else ",".intercalate (items.map fun kv => s!"{kv.1.toNat}:{hexOut kv.2}")

/-- `_` = variable unset, otherwise hex (`-` = set to the empty string) -/
def parseOptBytes (s : String) : Option (Option Bytes) :=
  if s = "_" then some none else (ofHex s).map some

def parseMax (s : String) : Option Nat := if s = "none" then some Gen.Keys.pipeBuf else s.toNat?

/-! ### derivation (`clone_with`): update tokens are `field:value`, `field:None` (the field becomes
    unset) and, for a transmit command, `placement:new` (a fresh `PlacementData()`, filled by the
    following `p.x:v` tokens) -/

def unsetPlacement (p : Placement) : String → Option Placement
  | "placement_id" => some { p with placementId := none }
  | "virtual" => some { p with virtual := none }
  | "rows" => some { p with rows := none }
  | "cols" => some { p with cols := none }
  | "do_not_move_cursor" => some { p with doNotMoveCursor := none }
  | "src_x" => some { p with srcX := none }
  | "src_y" => some { p with srcY := none }
  | "src_w" => some { p with srcW := none }
  | "src_h" => some { p with srcH := none }
  | _ => none

def unsetTransmit (t : Transmit) : String → Option Transmit
  | "image_id" => some { t with imageId := none }
  | "image_number" => some { t with imageNumber := none }
  | "medium" => some { t with medium := none }
  | "size" => some { t with size := none }
  | "offset" => some { t with offset := none }
  | "quiet" => some { t with quiet := none }
  | "more" => some { t with more := none }
  | "format" => some { t with format := none }
  | "compression" => some { t with compression := none }
  | "pix_width" => some { t with pixWidth := none }
  | "pix_height" => some { t with pixHeight := none }
  | "query" => some { t with query := none }
  | "placement" => some { t with placement := none }
  | _ => none

def updTransmit (t : Transmit) (name value : String) : Option Transmit :=
  if value = "None" then unsetTransmit t name
  else if name = "placement" ∧ value = "new" then some { t with placement := some {} }
  else setTransmit t name value

def updMore (m : MoreData) (name value : String) : Option MoreData :=
  if value = "None" then
    match name with
    | "image_id" => some { m with imageId := none }
    | "image_number" => some { m with imageNumber := none }
    | "more" => some { m with more := none }
    | _ => none
  else setMore m name value

def updPut (p : Put) (name value : String) : Option Put :=
  if value = "None" then
    match name with
    | "image_id" => some { p with imageId := none }
    | "image_number" => some { p with imageNumber := none }
    | "quiet" => some { p with quiet := none }
    | _ => (unsetPlacement p.placement name).map fun pl => { p with placement := pl }
  else setPut p name value

def updDelete (d : Delete) (name value : String) : Option Delete :=
  if value = "None" then
    match name with
    | "image_id" => some { d with imageId := none }
    | "image_number" => some { d with imageNumber := none }
    | "placement_id" => some { d with placementId := none }
    | "quiet" => some { d with quiet := none }
    | "what" => some { d with what := none }
    | "delete_data" => some { d with deleteData := none }
    | _ => none
  else setDelete d name value

/-- `c.clone_with(**updates)` -/
def cloneWith (c : GCmd) (upd : List String) : Option GCmd :=
  match c with
  | .transmit t => (foldFields updTransmit t upd).map .transmit
  | .moreData m => (foldFields updMore m upd).map .moreData
  | .put p => (foldFields updPut p upd).map .put
  | .delete d => (foldFields updDelete d upd).map .delete

/-- split the request at the token `|` -/
def splitBar (toks : List String) : List String × List String :=
  (toks.takeWhile (· ≠ "|"), (toks.dropWhile (· ≠ "|")).drop 1)

/-- header, content, to_bytes with the default template -/
def triple (c : GCmd) : String :=
  s!"{hexOut (headerBytes c)} {hexOut (contentBytes c)} {hexOut (toBytes (template 0) c)}"

/-! ### terminal configuration histories: `clone:k` / `clone:_` (`clone_with(num_tmux_layers=k / None)`),
    `amax:v` / `amax:none` (`max_command_size = v`), `alayers:k` (`num_tmux_layers = k`),
    `detect:<TMUX>:<TERM>` (`detect_tmux()` under that environment; `_` = unset, else hex) -/

def termStep (c : TermCfg) (tok : String) : Option TermCfg :=
  match tok.splitOn ":" with
  | ["clone", k] => if k = "_" then some (c.cloneWith none) else k.toNat?.map fun k => c.cloneWith (some k)
  | ["amax", v] => if v = "none" then some { c with maxSize := none } else v.toNat?.map fun v => { c with maxSize := some v }
  | ["alayers", k] => k.toNat?.map fun k => { c with layers := k }
  | ["detect", tm, te] => match parseOptBytes tm, parseOptBytes te with
      | some tm, some te => some (c.detect ⟨tm, te⟩)
      | _, _ => none
  | _ => none

def parseTermCfg (layers mx : String) (steps : List String) : Option TermCfg := do
  let n ← layers.toNat?
  let m ← if mx = "none" then some none else mx.toNat?.map some
  steps.foldlM termStep { maxSize := m, layers := n }

def handle : List String → String
  | "tobytes" :: n :: cmd => match n.toNat?, parseCmd cmd with
      | some n, some c => hexOut (toBytes (template n) c)
      | _, _ => "bad"
  | "header" :: cmd => match parseCmd cmd with
      | some c => hexOut (headerBytes c) | none => "bad"
  | "content" :: cmd => match parseCmd cmd with
      | some c => hexOut (contentBytes c) | none => "bad"
  | ["template", n] => match n.toNat? with
      | some n => hexOut (template n).bytes | none => "bad"
  | "send" :: n :: mx :: cmd => match n.toNat?, parseMax mx, parseCmd cmd with
      | some n, some mx, some c => (match send (template n) mx c with
          | .error _ => "err"
          | .ok l => hexList l)
      | _, _, _ => "bad"
  | "split" :: mp :: cmd => match mp.toNat?, parseCmd cmd with
      | some mp, some (.transmit t) => hexList ((t.split mp).map contentBytes)
      | _, _ => "bad"
  | ["detect", tmux, term, cur, cfg] => match parseOptBytes tmux, parseOptBytes term, cur.toNat? with
      | some tm, some te, some cur =>
          let e : Env := ⟨tm, te⟩
          let cfgv : Option (Option Nat) := if cfg = "auto" then some none else cfg.toNat?.map some
          (match cfgv with
           | some cv => s!"{boolStr (detectTmux e)} {detectSiteTerminal cur e} {detectSiteConfig cv e}"
           | none => "bad")
      | _, _, _ => "bad"
  | "clone" :: rest => match parseCmd (splitBar rest).1 with
      | some c => (match cloneWith c (splitBar rest).2 with
          | some c' => triple c' | none => "bad")
      | none => "bad"
  | "pure" :: cmd => match parseCmd cmd with
      | some (.transmit t) => triple (.transmit t.pureTransmit) | _ => "bad"
  | "putcmd" :: cmd => match parseCmd cmd with
      | some (.transmit t) => (match t.putCommand with
          | some p => triple (.put p) | none => "none")
      | _ => "bad"
  | "termcfg" :: layers :: mx :: steps => match parseTermCfg layers mx steps with
      | some c => s!"{c.layers} {match c.maxSize with | none => "none" | some v => toString v}"
      | none => "bad"
  | "termsend" :: layers :: mx :: rest => match parseTermCfg layers mx (splitBar rest).1, parseCmd (splitBar rest).2 with
      | some c, some cmd => (match c.sendCommand Gen.Keys.pipeBuf cmd with
          | .error _ => "err"
          | .ok l => hexList l)
      | _, _ => "bad"
  -- independent specification
  | ["spec_parse", h] => match ofHex h with
      | some bs => (match Spec.GfxParse.parse bs with
          | none => "none"
          | some (items, d) => s!"{itemsStr items} {hexOut d}")
      | none => "bad"
  | ["spec_unwrap", n, h] => match n.toNat?, ofHex h with
      | some n, some bs => (match Spec.TmuxUnwrap.unwrapN n bs with
          | none => "none" | some r => hexOut r)
      | _, _ => "bad"
  | ["spec_layers", n, h] => match n.toNat?, ofHex h with
      -- every one of the n wrappers is well formed (no lone ESC) and unwraps
      | some n, some bs =>
          let rec go : Nat → Bytes → String
            | 0, _ => "ok"
            | k + 1, b =>
              if !Spec.TmuxUnwrap.wellWrapped b then s!"not-well-wrapped-at-{k + 1}"
              else match Spec.TmuxUnwrap.unwrap1 b with
                | none => s!"unwrap-failed-at-{k + 1}"
                | some r => go k r
          go n bs
      | _, _ => "bad"
  | ["spec_splitstream", h] => match ofHex h with
      | some bs => (match Spec.TmuxUnwrap.splitStream bs with
          | none => "none" | some l => if l.isEmpty then "empty" else hexList l)
      | none => "bad"
  | "spec_fields" :: cmd => match parseCmd cmd with
      | some c => itemsStr (Spec.GfxParse.fields c) | none => "bad"
  | "spec_checkcmd" :: n :: h :: cmd => match n.toNat?, ofHex h, parseCmd cmd with
      | some n, some bs, some c => (match Spec.TmuxUnwrap.unwrapN n bs with
          | none => "unwrap-failed"
          | some inner => (Spec.GfxParse.checkCommand c inner).getD "ok")
      | _, _, _ => "bad"
  | "spec_checksend" :: n :: mx :: raised :: h :: cmd => match n.toNat?, parseMax mx, ofHex h, parseCmd cmd with
      | some n, some mx, some bs, some (.transmit t) =>
          (Spec.GfxParse.checkSend n mx t (raised = "1") bs).getD "ok"
      | _, _, _, _ => "bad"
  | ["spec_detect", tmux, term] => match parseOptBytes tmux, parseOptBytes term with
      | some tm, some te => boolStr (Spec.TmuxUnwrap.detectSpec tm te)
      | _, _ => "bad"
  | _ => "bad"

end Tup.Drv.Cmd
