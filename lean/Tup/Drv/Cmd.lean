import Tup.DrvUtil
import Tup.Model.Command
import Tup.Spec.GfxParse
import Tup.Spec.TmuxUnwrap
import Tup.Gen.Keys
/-!
  Driver for the graphics-command group (C05, C06, C11).

  A command is described by tokens: the type (`T` transmit, `M` more-data, `P` put, `D` delete)
  followed by `field:value` tokens with the Python field names (`image_id:5 medium:DIRECT more:1
  data:68656c6c6f placement:1 p.rows:3 …`); integers in decimal, booleans `0`/`1`, enum members by
  their Python names, bytes in hex (`-` = empty).  A field that is not named is `None`.
-/
namespace Tup.Drv.Cmd
open Tup Tup.Command

def parseBool (s : String) : Option Bool := if s = "1" then some true else if s = "0" then some false else none

def parseQuiet : String → Option Quietness
  | "VERBOSE" => some .verbose | "QUIET_UNLESS_ERROR" => some .quietUnlessError | "QUIET_ALWAYS" => some .quietAlways
  | _ => none
def parseFormat : String → Option Format
  | "RGB" => some .rgb | "RGBA" => some .rgba | "PNG" => some .png | _ => none
def parseMedium : String → Option Medium
  | "DIRECT" => some .direct | "FILE" => some .file | "TEMP_FILE" => some .tempFile
  | "SHARED_MEMORY" => some .sharedMemory | _ => none
def parseCompression : String → Option Compression
  | "ZLIB" => some .zlib | _ => none
def parseWhat : String → Option WhatToDelete
  | "VISIBLE_PLACEMENTS" => some .visiblePlacements
  | "IMAGE_OR_PLACEMENT_BY_ID" => some .imageOrPlacementById
  | "IMAGE_OR_PLACEMENT_BY_NUMBER" => some .imageOrPlacementByNumber
  | "PLACEMENTS_UNDER_CURSOR" => some .placementsUnderCursor
  | "ANIMATION_FRAMES" => some .animationFrames
  | "PLACEMENTS_AT_POSITION" => some .placementsAtPosition
  | "PLACEMENTS_AT_POSITION_AND_ZINDEX" => some .placementsAtPositionAndZindex
  | "PLACEMENTS_AT_COLUMN" => some .placementsAtColumn
  | "PLACEMENTS_AT_ROW" => some .placementsAtRow
  | "PLACEMENTS_AT_ZINDEX" => some .placementsAtZindex
  | _ => none

def setPlacement (p : Placement) (name value : String) : Option Placement :=
  match name with
  | "placement_id" => value.toNat?.map fun n => { p with placementId := some n }
  | "virtual" => (parseBool value).map fun b => { p with virtual := some b }
  | "rows" => value.toNat?.map fun n => { p with rows := some n }
  | "cols" => value.toNat?.map fun n => { p with cols := some n }
  | "do_not_move_cursor" => (parseBool value).map fun b => { p with doNotMoveCursor := some b }
  | "src_x" => value.toNat?.map fun n => { p with srcX := some n }
  | "src_y" => value.toNat?.map fun n => { p with srcY := some n }
  | "src_w" => value.toNat?.map fun n => { p with srcW := some n }
  | "src_h" => value.toNat?.map fun n => { p with srcH := some n }
  | _ => none

def setTransmit (t : Transmit) (name value : String) : Option Transmit :=
  match name with
  | "image_id" => value.toNat?.map fun n => { t with imageId := some n }
  | "image_number" => value.toNat?.map fun n => { t with imageNumber := some n }
  | "medium" => (parseMedium value).map fun m => { t with medium := some m }
  | "data" => (ofHex value).map fun d => { t with data := d }
  | "size" => value.toNat?.map fun n => { t with size := some n }
  | "offset" => value.toNat?.map fun n => { t with offset := some n }
  | "quiet" => (parseQuiet value).map fun q => { t with quiet := some q }
  | "more" => (parseBool value).map fun b => { t with more := some b }
  | "format" => (parseFormat value).map fun f => { t with format := some f }
  | "compression" => (parseCompression value).map fun c => { t with compression := some c }
  | "pix_width" => value.toNat?.map fun n => { t with pixWidth := some n }
  | "pix_height" => value.toNat?.map fun n => { t with pixHeight := some n }
  | "query" => (parseBool value).map fun b => { t with query := some b }
  | "omit_action" => (parseBool value).map fun b => { t with omitAction := b }
  | "placement" => if value = "1" then some { t with placement := some (t.placement.getD {}) } else none
  | _ =>
    if name.startsWith "p." then
      (setPlacement (t.placement.getD {}) (name.drop 2).toString value).map fun p => { t with placement := some p }
    else none

def setMore (m : MoreData) (name value : String) : Option MoreData :=
  match name with
  | "image_id" => value.toNat?.map fun n => { m with imageId := some n }
  | "image_number" => value.toNat?.map fun n => { m with imageNumber := some n }
  | "data" => (ofHex value).map fun d => { m with data := d }
  | "more" => (parseBool value).map fun b => { m with more := some b }
  | _ => none

def setPut (p : Put) (name value : String) : Option Put :=
  match name with
  | "image_id" => value.toNat?.map fun n => { p with imageId := some n }
  | "image_number" => value.toNat?.map fun n => { p with imageNumber := some n }
  | "quiet" => (parseQuiet value).map fun q => { p with quiet := some q }
  | _ => (setPlacement p.placement name value).map fun pl => { p with placement := pl }

def setDelete (d : Delete) (name value : String) : Option Delete :=
  match name with
  | "image_id" => value.toNat?.map fun n => { d with imageId := some n }
  | "image_number" => value.toNat?.map fun n => { d with imageNumber := some n }
  | "placement_id" => value.toNat?.map fun n => { d with placementId := some n }
  | "quiet" => (parseQuiet value).map fun q => { d with quiet := some q }
  | "what" => (parseWhat value).map fun w => { d with what := some w }
  | "delete_data" => (parseBool value).map fun b => { d with deleteData := some b }
  | _ => none

def splitTok (tok : String) : Option (String × String) :=
  match tok.splitOn ":" with
  | [a, b] => some (a, b)
  | _ => none

def foldFields {α} (set : α → String → String → Option α) (init : α) (toks : List String) : Option α :=
  toks.foldlM (fun acc tok => do let (n, v) ← splitTok tok; set acc n v) init

def parseCmd : List String → Option GCmd
  | "T" :: toks => (foldFields setTransmit {} toks).map .transmit
  | "M" :: toks => (foldFields setMore {} toks).map .moreData
  | "P" :: toks => (foldFields setPut {} toks).map .put
  | "D" :: toks => (foldFields setDelete {} toks).map .delete
  | _ => none

def hexList (l : List Bytes) : String := if l.isEmpty then "none" else " ".intercalate (l.map hexOut)

def itemsStr (items : List (UInt8 × Bytes)) : String :=
  if items.isEmpty then "-" else ",".intercalate (items.map fun kv => s!"{kv.1.toNat}:{hexOut kv.2}")

/-- `_` = variable unset, otherwise hex (`-` = set to the empty string) -/
def parseOptBytes (s : String) : Option (Option Bytes) :=
  if s = "_" then some none else (ofHex s).map some

def parseMax (s : String) : Option Nat := if s = "none" then some Gen.Keys.pipeBuf else s.toNat?

def handle : List String → String
  | "tobytes" :: n :: cmd => match n.toNat?, parseCmd cmd with
      | some n, some c => hexOut (toBytes (template n) c)
      | _, _ => "bad"
  | "header" :: cmd => match parseCmd cmd with
      | some c => hexOut (headerBytes c) | none => "bad"
  | "content" :: cmd => match parseCmd cmd with
      | some c => hexOut (contentBytes c) | none => "bad"
  | ["template", n] => match n.toNat? with
      | some n => hexOut (template n).bytes | none => "bad"
  | "send" :: n :: mx :: cmd => match n.toNat?, parseMax mx, parseCmd cmd with
      | some n, some mx, some c => (match send (template n) mx c with
          | .error _ => "err"
          | .ok l => hexList l)
      | _, _, _ => "bad"
  | "split" :: mp :: cmd => match mp.toNat?, parseCmd cmd with
      | some mp, some (.transmit t) => hexList ((t.split mp).map contentBytes)
      | _, _ => "bad"
  | ["detect", tmux, term, cur, cfg] => match parseOptBytes tmux, parseOptBytes term, cur.toNat? with
      | some tm, some te, some cur =>
          let e : Env := ⟨tm, te⟩
          let cfgv : Option (Option Nat) := if cfg = "auto" then some none else cfg.toNat?.map some
          (match cfgv with
           | some cv => s!"{boolStr (detectTmux e)} {detectSiteTerminal cur e} {detectSiteConfig cv e}"
           | none => "bad")
      | _, _, _ => "bad"
  -- independent specification
  | ["spec_parse", h] => match ofHex h with
      | some bs => (match Spec.GfxParse.parse bs with
          | none => "none"
          | some (items, d) => s!"{itemsStr items} {hexOut d}")
      | none => "bad"
  | ["spec_unwrap", n, h] => match n.toNat?, ofHex h with
      | some n, some bs => (match Spec.TmuxUnwrap.unwrapN n bs with
          | none => "none" | some r => hexOut r)
      | _, _ => "bad"
  | ["spec_layers", n, h] => match n.toNat?, ofHex h with
      -- every one of the n wrappers is well formed (no lone ESC) and unwraps
      | some n, some bs =>
          let rec go : Nat → Bytes → String
            | 0, _ => "ok"
            | k + 1, b =>
              if !Spec.TmuxUnwrap.wellWrapped b then s!"not-well-wrapped-at-{k + 1}"
              else match Spec.TmuxUnwrap.unwrap1 b with
                | none => s!"unwrap-failed-at-{k + 1}"
                | some r => go k r
          go n bs
      | _, _ => "bad"
  | ["spec_splitstream", h] => match ofHex h with
      | some bs => (match Spec.TmuxUnwrap.splitStream bs with
          | none => "none" | some l => if l.isEmpty then "empty" else hexList l)
      | none => "bad"
  | "spec_fields" :: cmd => match parseCmd cmd with
      | some c => itemsStr (Spec.GfxParse.fields c) | none => "bad"
  | "spec_checkcmd" :: n :: h :: cmd => match n.toNat?, ofHex h, parseCmd cmd with
      | some n, some bs, some c => (match Spec.TmuxUnwrap.unwrapN n bs with
          | none => "unwrap-failed"
          | some inner => (Spec.GfxParse.checkCommand c inner).getD "ok")
      | _, _, _ => "bad"
  | "spec_checksend" :: n :: mx :: raised :: h :: cmd => match n.toNat?, parseMax mx, ofHex h, parseCmd cmd with
      | some n, some mx, some bs, some (.transmit t) =>
          (Spec.GfxParse.checkSend n mx t (raised = "1") bs).getD "ok"
      | _, _, _, _ => "bad"
  | ["spec_detect", tmux, term] => match parseOptBytes tmux, parseOptBytes term with
      | some tm, some te => boolStr (Spec.TmuxUnwrap.detectSpec tm te)
      | _, _ => "bad"
  | _ => "bad"

end Tup.Drv.Cmd
