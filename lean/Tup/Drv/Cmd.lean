import Tup.DrvUtil
/-! Driver for group Cmd (stub; the group's owner fills it in). -/
namespace Tup.Drv.Cmd
open Tup

def handle : List String → String
  | _ => "bad"

end Tup.Drv.Cmd
