import Tup.DrvUtil
/-! Driver for group Trk (stub; the group's owner fills it in). -/
namespace Tup.Drv.Trk
open Tup

def handle : List String → String
  | _ => "bad"

end Tup.Drv.Trk
