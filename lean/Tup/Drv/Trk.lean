import Tup.DrvUtil
import Tup.Model.Tracker
/-!
  Driver for the tracker group (C16).  Stateless: every request carries what it needs, so the
  harness can use it *interactively* — while the real code is blocked in `get_cursor_position`
  the responder sends `term W H CFG <all bytes written so far>` and forwards the model
  terminal's last cursor-position report.

  requests
    term  W H CFG HEX                 -> cx cy top bot nreplies lastreply(hex)
    cells W H CFG HEX                 -> placeholder cells  y:x:fg:mark,mark… ; …   (or -)
    step  W H TRK M REPLIES op…       -> TRK M err nq hex        (TRK = N | x,y ; M = 0|1)
    parsecpr HEX                      -> col row | err
  CFG = three bits cubFromW restoreSgr cprClamps.
-/
namespace Tup.Drv.Trk
open Tup Tup.Spec Tup.Trk

def cfgOf (s : String) : Option TermCfg :=
  match s.toList with
  | [a, b, c] => some { cubFromW := a = '1', restoreSgr := b = '1', cprClamps := c = '1' }
  | _ => none

def termOf (w h cfg hex : String) : Option Term := do
  let w ← w.toNat?
  let h ← h.toNat?
  let c ← cfgOf cfg
  let bs ← ofHex hex
  pure ((parse bs).foldl Term.feedP (Term.init w h c))

def colorCode : Option Color → String
  | none => "d"
  | some (.idx n) => s!"i{n}"
  | some (.rgb r g b) => s!"{r * 65536 + g * 256 + b}"

def cellsOf (t : Term) : String :=
  let l := (List.range t.h).flatMap fun y => (List.range t.w).filterMap fun x =>
    let c := t.cells y x
    if c.ch = 0x10EEEE then
      some s!"{y}:{x}:{colorCode c.fg}:{",".intercalate (c.marks.map toString)}"
    else none
  if l.isEmpty then "-" else ";".intercalate l

def optInt (s : String) : Option (Option Int) := if s = "N" then some none else s.toInt?.map some
def optNat (s : String) : Option (Option Nat) := if s = "N" then some none else s.toNat?.map some
def optPair (s : String) : Option (Option (Nat × Nat)) :=
  if s = "N" then some none else
  match s.splitOn "," with
  | [a, b] => do let x ← a.toNat?; let y ← b.toNat?; pure (some (x, y))
  | _ => none
def bool? (s : String) : Option Bool := if s = "1" then some true else if s = "0" then some false else none

def trkOf (t m : String) : Option Trk := do
  let mm ← bool? m
  if t = "N" then pure { tracked := none, margins := mm } else
  match t.splitOn "," with
  | [a, b] => do let x ← a.toInt?; let y ← b.toInt?; pure { tracked := some (x, y), margins := mm }
  | _ => none

def trkStr (s : Trk) : String :=
  (match s.tracked with | none => "N" | some (x, y) => s!"{x},{y}") ++ " " ++ boolStr s.margins

/-- `E` = to_lines raised; `L` + comma separated hex lines otherwise -/
def linesOf (s : String) : Option (Option (List Bytes)) :=
  if s = "E" then some none
  else if s.startsWith "L" then
    let body := (s.drop 1).toString
    if body.isEmpty then some (some []) else (body.splitOn ",").mapM ofHex |>.map some
  else none

def needMarker (c r : Nat) : Bytes := asc s!"<<need {c} {r}>>"

def putArgs (rows cols hasid nomove phc phr lines : String) : Option PutArgs := do
  let rows ← optInt rows
  let cols ← optInt cols
  let hasid ← bool? hasid
  let nomove ← bool? nomove
  let phc ← phc.toNat?
  let phr ← phr.toNat?
  let ls ← linesOf lines
  pure { rows := rows, cols := cols, hasImageId := hasid, noMove := nomove,
         lines := fun c r => if c = phc ∧ r = phr then ls.getD [] else [needMarker c r] }

def kindOf : String → Option CmdKind
  | "pv" => some (.put true) | "pn" => some (.put false)
  | "tv" => some (.transmit (some true)) | "tn" => some (.transmit (some false))
  | "t0" => some (.transmit none) | "o" => some .other
  | _ => none

def opOf : List String → Option Op
  | ["reset", b] => do pure (.reset (← bool? b))
  | ["mv", r, d, l, u] => do pure (.moveCursor (← optInt r) (← optInt d) (← optInt l) (← optInt u))
  | ["mva", c, r, p] => do pure (.moveCursorAbs (← optNat c) (← optNat r) (← optPair p))
  | ["margins", t, b] => do pure (.setMargins (← t.toNat?) (← b.toNat?))
  | ["su", n] => do pure (.scrollUp (← n.toNat?))
  | ["sd", n] => do pure (.scrollDown (← n.toNat?))
  | ["write", h] => do pure (.write (← ofHex h))
  | ["writecmd", h] => do pure (.writecmd (← ofHex h))
  | ["cl"] => some .clearLine
  | ["cs"] => some .clearScreen
  | ["ph", lines, width, pos, save, lf, fmt] => do
      pure (.printPlaceholder { lines := ← linesOf lines, width := ← width.toNat?, pos := ← optPair pos,
                                useSave := ← bool? save, useLF := ← bool? lf, formatting := ← bool? fmt })
  | ["put", rows, cols, hasid, nomove, phc, phr, lines] => do
      pure (.printPlaceholderForPut (← putArgs rows cols hasid nomove phc phr lines))
  | ["send", force, kind, apc, rows, cols, hasid, nomove, phc, phr, lines] => do
      pure (.sendCommand (← bool? force) (← kindOf kind) (← ofHex apc) (← putArgs rows cols hasid nomove phc phr lines))
  | ["getpos"] => some .getCursorPosition
  | ["getposT"] => some .getCursorPositionTracked
  | _ => none

def repliesOf (s : String) : Option (List (Option (Nat × Nat))) :=
  if s = "-" then some [] else (s.splitOn ",").mapM fun h => (ofHex h).map parseCpr

def errStr : Option Err → String
  | none => "ok" | some .value => "ValueError" | some .cpr => "cpr"

def handle : List String → String
  | ["term", w, h, cfg, hex] => match termOf w h cfg hex with
      | some t => s!"{t.cx} {t.cy} {t.top} {t.bot} {t.replies.length} {hexOut (t.replies.getLast?.getD [])}"
      | none => "bad"
  | ["cells", w, h, cfg, hex] => match termOf w h cfg hex with
      | some t => cellsOf t
      | none => "bad"
  | ["parsecpr", hex] => match ofHex hex with
      | some bs => (match parseCpr bs with | some (c, r) => s!"{c} {r}" | none => "err")
      | none => "bad"
  | "step" :: w :: h :: t :: m :: replies :: op => match w.toNat?, h.toNat?, trkOf t m, repliesOf replies, opOf op with
      | some w, some h, some s, some rs, some op =>
          let e : Env := { w := w, h := h, ask := fun i _ => (rs[i]?).join }
          let a := step e s op
          s!"{trkStr a.s} {errStr a.err} {a.nq} {hexOut (bytesOf a.out)}"
      | _, _, _, _, _ => "bad"
  | _ => "bad"

end Tup.Drv.Trk
