import Tup.Drv.Db
import Tup.Model.Txn
import Tup.Model.Schema
/-!
  Stateless driver requests of the transaction model (C03 / C12): the **block structure** of one public
  `IDManager` call run alone.

  `Model.Txn` decomposes every call into atomic blocks (`pstep` runs exactly one); the theorems of
  `Props/C03.lean` / `Props/C12.lean` (`linearizable`, `crash_atomic_*`) quantify over schedules and crash
  points *at that granularity*. This file makes the decomposition observable so that the harness can compare
  it with the SQL trace of the real call on the same database (K "block structure"):

  * `blockKind p` — which sqlite construct the next block of `p` is in the Python:
      `txn-write`  one `BEGIN IMMEDIATE … COMMIT` block (takes the write lock at once),
      `txn-read`   one `BEGIN … COMMIT` read transaction (one WAL snapshot),
      `stmt-write` one autocommit `INSERT` / `UPDATE` / `DELETE`,
      `stmt-read`  one autocommit `SELECT`;
  * `blocksFrom` — `lone`, instrumented: the process runs alone, every `pstepT` is recorded with its kind,
    whether it changed the database (canonical dumps compared) and whether it raised (rolled back).
    `blocksFrom_lone` says the instrumented run ends where `lone` ends.

  Wire format = `Drv/Db.lean`'s (its parsers are called, nothing is duplicated):
    `txn blocks <maxIds> <t0> <t1> <t2> <t3> <t4> <uploads> <op> <args…>`
  with `<op> <args…>` one of
    `get cb u3 b e desc now pick samples removed` · `set id desc now` · `del id` ·
    `cleanup cb u3 b e max removed` · `mark id term size time` · `cleanup_uploads n kept` ·
    `needs id term mu mb mt now` · `upinfo id term` · `info id` · `count cb|* u3 b e`.
  Reply: `ok <kind:changed[:raised],…|-> <result…>`.
-/
namespace Tup.Drv.Txn
open Tup Tup.Txn
open Tup.Drv.Db (strOfHex hexOfStr spaceOf spaceOpt parseNats parseRounds parseKeys parseDump dumpStr rowStr
  errStr outcomeStr thrOf)

/-- the sqlite construct that the next block of `p` is in the Python source (`finished`: no block) -/
def blockKind : PState → String
  | .getLookup .. => "txn-write"        -- `with self.conn: BEGIN IMMEDIATE` … (lookup / whole enumerable allocation)
  | .getSample .. => "txn-write"        -- `with self.conn: BEGIN IMMEDIATE` … (repeated lookup + rejection sampling)
  | .getCleanup .. => "stmt-write"      -- `self.cleanup(...)`: one autocommit DELETE
  | .set .. => "stmt-write"             -- one autocommit upsert
  | .del _ => "txn-write"               -- `BEGIN IMMEDIATE; DELETE; COMMIT`
  | .cleanup .. => "stmt-write"
  | .mark .. => "txn-write"             -- `BEGIN IMMEDIATE; get_info; upsert; COMMIT`
  | .cleanupUploads .. => "stmt-write"
  | .needs .. => "txn-read"             -- `BEGIN; get_info; get_upload_info; COMMIT`
  | .uinfo .. => "txn-read"             -- `BEGIN; SELECT; SELECT; COMMIT`
  | .needsInfo .. => "stmt-read"
  | .needsRow .. => "stmt-read"
  | .needsAgo .. => "stmt-read"
  | .info _ => "stmt-read"
  | .count .. => "stmt-read"            -- one `SELECT COUNT(*)` per space
  | .finished _ => "none"

/-- the kinds are consistent with the vocabulary of the theorems: a read-only continuation is a `*-read` block -/
theorem blockKind_of_isRead (p : PState) (h : isRead p = true) (hf : p.isFinished = false) :
    blockKind p = "txn-read" ∨ blockKind p = "stmt-read" := by
  cases p <;> simp_all [isRead, blockKind, PState.isFinished]

structure Block where
  kind : String
  changed : Bool
  raised : Bool
deriving Repr, Inhabited

def Block.str (b : Block) : String :=
  s!"{b.kind}:{if b.changed then "1" else "0"}" ++ (if b.raised then ":raised" else "")

/-- did `pstep` raise on this state (the block is rolled back by `pstepT`)? -/
def raises (cfg : Cfg) (p : PState) (db : Db) : Bool :=
  match pstep cfg p db with
  | .error _ => true
  | .ok _ => false

/-- `lone`, instrumented. A call with invalid `IDSpace(...)` / `IDSubspace(...)` arguments never reaches the
    database: its only `pstepT` (to `.finished .invalidArgs`) is not a block. -/
def blocksFrom (cfg : Cfg) : Nat → PState → Db → List Block → List Block × PState × Db
  | 0, p, db, acc => (acc.reverse, p, db)
  | fuel + 1, p, db, acc =>
    if p.isFinished then (acc.reverse, p, db)
    else
      let x := pstepT cfg p db
      if !p.wf cfg then (acc.reverse, x.1, x.2)
      else
        blocksFrom cfg fuel x.1 x.2
          ({ kind := blockKind p, changed := dumpStr x.2 != dumpStr db, raised := raises cfg p db } :: acc)

/-- the instrumented run is a run of `lone` -/
theorem blocksFrom_lone (cfg : Cfg) : ∀ (fuel : Nat) (p : PState) (db : Db) (acc : List Block),
    ∃ k, (blocksFrom cfg fuel p db acc).2 = lone cfg k p db
  | 0, p, db, acc => ⟨0, rfl⟩
  | fuel + 1, p, db, acc => by
    unfold blocksFrom
    by_cases hf : p.isFinished = true
    · exact ⟨0, by simp [hf, lone]⟩
    · by_cases hw : (!p.wf cfg) = true
      · exact ⟨1, by simp [hf, hw, lone]⟩
      · obtain ⟨k, hk⟩ := blocksFrom_lone cfg fuel (pstepT cfg p db).1 (pstepT cfg p db).2
          ({ kind := blockKind p, changed := dumpStr (pstepT cfg p db).2 != dumpStr db,
             raised := raises cfg p db } :: acc)
        exact ⟨k + 1, by simp [hf, hw, lone, hk]⟩

def blocksStr (bs : List Block) : String := if bs.isEmpty then "-" else ",".intercalate (bs.map Block.str)

def resultStr : Result → String
  | .got (.id n) out => s!"id {n} {outcomeStr out}"
  | .got .noUnusedId out => s!"noid {outcomeStr out}"
  | .unit => "unit"
  | .bool b => s!"bool {if b then "1" else "0"}"
  | .row none => "row none"
  | .row (some r) => s!"row {rowStr r}"
  | .uinfo none => "uinfo none"
  | .uinfo (some i) => s!"uinfo {i.id} {hexOfStr i.desc} {i.time} {hexOfStr i.term} {i.size} {i.bytesAgo} {i.uploadsAgo}"
  | .nat n => s!"nat {n}"
  | .raised e => s!"raised {errStr e}"
  | .invalidArgs => "invalidArgs"

def parseRequest : List String → Option Request
  | ["get", cb, u3, b, e, d, now, pick, samples, removed] => do
      pure (.get ⟨← spaceOf cb u3, ⟨← b.toNat?, ← e.toNat?⟩, ← strOfHex d⟩ (← now.toNat?)
        { pick := ← pick.toNat?, samples := ← parseRounds samples, removed := ← parseRounds removed })
  | ["set", id, d, now] => do pure (.set (← id.toNat?) (← strOfHex d) (← now.toNat?))
  | ["del", id] => do pure (.del (← id.toNat?))
  | ["cleanup", cb, u3, b, e, m, removed] => do
      pure (.cleanup (← spaceOf cb u3) ⟨← b.toNat?, ← e.toNat?⟩ (← m.toNat?) (← parseNats removed))
  | ["mark", id, term, size, time] => do
      pure (.mark (← id.toNat?) (← strOfHex term) (← size.toNat?) (← time.toNat?))
  | ["cleanup_uploads", n, kept] => do pure (.cleanupUploads (← n.toNat?) (← parseKeys kept))
  | ["needs", id, term, mu, mb, mt, now] => do
      pure (.needs (← id.toNat?) (← strOfHex term) (← thrOf mu mb mt) (← now.toNat?))
  | ["upinfo", id, term] => do pure (.uploadInfo (← id.toNat?) (← strOfHex term))
  | ["info", id] => do pure (.info (← id.toNat?))
  | ["count", cb, u3, b, e] => do pure (.count (← spaceOpt cb u3) ⟨← b.toNat?, ← e.toNat?⟩)
  | _ => none

/-- enough for every request: `PState.remaining` of a starting state is at most `2 * fracs.length + 2 = 10` -/
def fuel : Nat := 64

def handle : List String → Option String
  | "txn" :: "blocks" :: m :: a :: b :: c :: d :: e :: u :: op => do
      let m ← m.toNat?
      let db ← parseDump [a, b, c, d, e, u]
      let rq ← parseRequest op
      let cfg : Cfg := { maxIds := m }
      let (bs, p, _) := blocksFrom cfg fuel rq.start db []
      match p with
      | .finished r => pure s!"ok {blocksStr bs} {resultStr r}"
      | _ => pure s!"unfinished {blocksStr bs}"
  | "txn" :: _ => some "bad"
  | ["schema", "stmts"] => some (String.intercalate ";" (Tup.Schema.stmts.map Tup.Schema.Obj.render))
  | _ => none

end Tup.Drv.Txn
