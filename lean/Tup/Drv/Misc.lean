import Tup.DrvUtil
import Tup.Model.CellSize
import Tup.Spec.CellSize
/-!
  Driver for group Misc (C15 sizes, C17 configuration).

  C15 requests (`_` is `None`/`'auto'`):
    c15 opt  <fixed 0|1> <env: tRows tCols tXpix tYpix cellW cellH defW defH cfgMaxC cfgMaxR gsn gsd csn csd>
             w h cols rows maxc maxr sn sd          -> `ok c r` | `err kind`
    c15 max  <env…> maxc maxr                       -> `ok c r` | `err kind`
    c15 cell <env…>                                 -> `w h`
    c15 lim  argC cfgC termC argR cfgR termR        -> `limC limR`           (specification)
    c15 spec Wn Wd Hn Hd cw ch cols rows limC limR en ed c r -> `ok` | `wf0` | `bounds,no_unused,…`
-/
namespace Tup.Drv.Misc
open Tup Tup.CellSize

def optInt (s : String) : Option (Option Int) := if s = "_" then some none else s.toInt?.map some
def optNat (s : String) : Option (Option Nat) := if s = "_" then some none else s.toNat?.map some

def parseEnv : List String → Option Env
  | [tr, tc, tx, ty, cw, ch, dw, dh, mc, mr, gsn, gsd, csn, csd] => do
      let tr ← tr.toNat?; let tc ← tc.toNat?; let tx ← tx.toNat?; let ty ← ty.toNat?
      let cw ← optNat cw; let ch ← optNat ch
      let dw ← dw.toNat?; let dh ← dh.toNat?
      let mc ← optInt mc; let mr ← optInt mr
      let gsn ← gsn.toNat?; let gsd ← gsd.toNat?; let csn ← csn.toNat?; let csd ← csd.toNat?
      let cell := match cw, ch with | some a, some b => some (a, b) | _, _ => none
      pure { tRows := tr, tCols := tc, tXpix := tx, tYpix := ty, cfgCell := cell, cfgDefaultCell := (dw, dh),
             cfgMaxCols := mc, cfgMaxRows := mr, cfgScale := ⟨csn, csd⟩, cfgGlobalScale := ⟨gsn, gsd⟩ }
  | _ => none

def resStr : Except Err (Int × Int) → String
  | .ok (c, r) => s!"ok {c} {r}"
  | .error e => s!"err {e.str}"

def handleC15 : List String → String
  | "opt" :: fixed :: rest =>
      match parseEnv (rest.take 14), rest.drop 14 with
      | some e, [w, h, cols, rows, maxc, maxr, sn, sd] =>
          match w.toNat?, h.toNat?, optInt cols, optInt rows, optInt maxc, optInt maxr, optNat sn, optNat sd with
          | some w, some h, some cols, some rows, some maxc, some maxr, some sn, some sd =>
              let scale := match sn, sd with | some a, some b => some (Frac.mk a b) | _, _ => none
              resStr (getOptimalGen (fixed = "1") e w h cols rows maxc maxr scale)
          | _, _, _, _, _, _, _, _ => "bad"
      | _, _ => "bad"
  | "max" :: rest =>
      match parseEnv (rest.take 14), rest.drop 14 with
      | some e, [maxc, maxr] =>
          match optInt maxc, optInt maxr with
          | some maxc, some maxr => resStr (getMaxColsAndRows e maxc maxr)
          | _, _ => "bad"
      | _, _ => "bad"
  | "cell" :: rest =>
      match parseEnv rest with
      | some e => let (a, b) := getCellSize e; s!"{a} {b}"
      | none => "bad"
  | ["lim", argC, cfgC, termC, argR, cfgR, termR] =>
      match optNat argC, optNat cfgC, termC.toNat?, optNat argR, optNat cfgR, termR.toNat? with
      | some argC, some cfgC, some termC, some argR, some cfgR, some termR =>
          s!"{Spec.CellSize.colLimit argC cfgC termC} {Spec.CellSize.rowLimit argR cfgR termR}"
      | _, _, _, _, _, _ => "bad"
  | ["spec", wn, wd, hn, hd, cw, ch, cols, rows, limC, limR, en, ed, c, r] =>
      match wn.toNat?, wd.toNat?, hn.toNat?, hd.toNat?, cw.toNat?, ch.toNat?, optInt cols, optInt rows with
      | some wn, some wd, some hn, some hd, some cw, some ch, some cols, some rows =>
          match limC.toNat?, limR.toNat?, en.toNat?, ed.toNat?, c.toInt?, r.toInt? with
          | some limC, some limR, some en, some ed, some c, some r =>
              let q : Spec.CellSize.Req := { Wn := wn, Wd := wd, Hn := hn, Hd := hd, cw := cw, ch := ch,
                                             cols? := cols, rows? := rows, limC := limC, limR := limR }
              if !q.wf then "wf0"
              else
                let fs := Spec.CellSize.failures { en := en, ed := ed } q c r
                if fs.isEmpty then "ok" else ",".intercalate fs
          | _, _, _, _, _, _ => "bad"
      | _, _, _, _, _, _, _, _ => "bad"
  | _ => "bad"

def handle : List String → String
  | "c15" :: rest => handleC15 rest
  | _ => "bad"

end Tup.Drv.Misc
