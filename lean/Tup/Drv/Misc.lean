import Tup.DrvUtil
/-! Driver for group Misc (stub; the group's owner fills it in). -/
namespace Tup.Drv.Misc
open Tup

def handle : List String → String
  | _ => "bad"

end Tup.Drv.Misc
