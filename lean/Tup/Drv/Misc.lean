import Tup.DrvUtil
import Tup.Model.CellSize
import Tup.Spec.CellSize
import Tup.Model.Config
import Tup.Spec.Config
/-!
  Driver for group Misc (C15 sizes, C17 configuration).

  C15 requests (`_` is `None`/`'auto'`):
    c15 opt  <fixed 0|1> <env: tRows tCols tXpix tYpix cellW cellH defW defH cfgMaxC cfgMaxR gsn gsd csn csd>
             w h cols rows maxc maxr sn sd          -> `ok c r` | `err kind`
    c15 max  <env…> maxc maxr                       -> `ok c r` | `err kind`
    c15 cell <env…>                                 -> `w h`
    c15 lim  argC cfgC termC argR cfgR termR        -> `limC limR`           (specification)
    c15 spec Wn Wd Hn Hd cw ch cols rows limC limR en ed c r -> `ok` | `wf0` | `bounds,no_unused,…`

  C17 requests.  Values travel as
    scalar := S<hex utf8>; | I<int>; | F<int>/<nat>; | B0 | B1 | N | O<hex class name>;
    value  := scalar | L scalar* ] | T scalar* ] | P<color_bits>,<0|1>; | U<begin>,<end>; | M<d|f|t|s>
    entries := - | name=value|name=value|…
    c17 ctor <stateDir hex> <tmux 0|1> <file: _ | pathhex:entries> <env entries> <kwargs entries> <overrides entries>
             -> `ok name=value@<provenance hex>|…` | `err key <hex>` | `err keys` | `err invalid <option>`
    c17 chain <stateDir hex> <step>…         -> `ok <state>#<state>#…` (the state after every step; stops with `err …` at a refusal)
             the steps act, in order, on ONE configuration object that starts as `TupimageConfig()`:
               F:<path hex>:<entries>                 override_from_toml_file / _string labelled `set from file <path>`
               D:<entries>                            override_from_dict (a `provenance` entry labels it)
               E:<env entries>                        override_from_env
               C:<tmux 0|1>:<env>:<kwargs>:<overrides>  TupimageTerminal(config=<the object>, **kwargs, config_overrides=…):
                                                      `applyAfterFile` then `expandTmux`, i.e. `construct` without its first stage
    c17 norm <stateDir hex> <name> <value>   -> `ok value` | `err …`
    c17 dump <entries>                       -> entries                 (`dumpVal` of every value)
    c17 winner <file> <env> <kwargs> <overrides>  (0|1 each)  -> layer | `default`       (specification)
    c17 prov <layer|default> <option> <file path hex|-> <kw label hex|_> <ov label hex|_> <provenance hex> -> 0|1 (specification)
    c17 text <value>                         -> `S<hex>;` | `_`                            (specification)
-/
namespace Tup.Drv.Misc
open Tup Tup.CellSize

def optInt (s : String) : Option (Option Int) := if s = "_" then some none else s.toInt?.map some
def optNat (s : String) : Option (Option Nat) := if s = "_" then some none else s.toNat?.map some

def parseEnv : List String → Option Env
  | [tr, tc, tx, ty, cw, ch, dw, dh, mc, mr, gsn, gsd, csn, csd] => do
      let tr ← tr.toNat?; let tc ← tc.toNat?; let tx ← tx.toNat?; let ty ← ty.toNat?
      let cw ← optNat cw; let ch ← optNat ch
      let dw ← dw.toNat?; let dh ← dh.toNat?
      let mc ← optInt mc; let mr ← optInt mr
      let gsn ← gsn.toNat?; let gsd ← gsd.toNat?; let csn ← csn.toNat?; let csd ← csd.toNat?
      let cell := match cw, ch with | some a, some b => some (a, b) | _, _ => none
      pure { tRows := tr, tCols := tc, tXpix := tx, tYpix := ty, cfgCell := cell, cfgDefaultCell := (dw, dh),
             cfgMaxCols := mc, cfgMaxRows := mr, cfgScale := ⟨csn, csd⟩, cfgGlobalScale := ⟨gsn, gsd⟩ }
  | _ => none

def resStr : Except Err (Int × Int) → String
  | .ok (c, r) => s!"ok {c} {r}"
  | .error e => s!"err {e.str}"

def handleC15 : List String → String
  | "opt" :: fixed :: rest =>
      match parseEnv (rest.take 14), rest.drop 14 with
      | some e, [w, h, cols, rows, maxc, maxr, sn, sd] =>
          match w.toNat?, h.toNat?, optInt cols, optInt rows, optInt maxc, optInt maxr, optNat sn, optNat sd with
          | some w, some h, some cols, some rows, some maxc, some maxr, some sn, some sd =>
              let scale := match sn, sd with | some a, some b => some (Frac.mk a b) | _, _ => none
              resStr (getOptimalGen (fixed = "1") e w h cols rows maxc maxr scale)
          | _, _, _, _, _, _, _, _ => "bad"
      | _, _ => "bad"
  | "max" :: rest =>
      match parseEnv (rest.take 14), rest.drop 14 with
      | some e, [maxc, maxr] =>
          match optInt maxc, optInt maxr with
          | some maxc, some maxr => resStr (getMaxColsAndRows e maxc maxr)
          | _, _ => "bad"
      | _, _ => "bad"
  | "cell" :: rest =>
      match parseEnv rest with
      | some e => let (a, b) := getCellSize e; s!"{a} {b}"
      | none => "bad"
  | ["lim", argC, cfgC, termC, argR, cfgR, termR] =>
      match optNat argC, optNat cfgC, termC.toNat?, optNat argR, optNat cfgR, termR.toNat? with
      | some argC, some cfgC, some termC, some argR, some cfgR, some termR =>
          s!"{Spec.CellSize.colLimit argC cfgC termC} {Spec.CellSize.rowLimit argR cfgR termR}"
      | _, _, _, _, _, _ => "bad"
  | ["spec", wn, wd, hn, hd, cw, ch, cols, rows, limC, limR, en, ed, c, r] =>
      match wn.toNat?, wd.toNat?, hn.toNat?, hd.toNat?, cw.toNat?, ch.toNat?, optInt cols, optInt rows with
      | some wn, some wd, some hn, some hd, some cw, some ch, some cols, some rows =>
          match limC.toNat?, limR.toNat?, en.toNat?, ed.toNat?, c.toInt?, r.toInt? with
          | some limC, some limR, some en, some ed, some c, some r =>
              let q : Spec.CellSize.Req := { Wn := wn, Wd := wd, Hn := hn, Hd := hd, cw := cw, ch := ch,
                                             cols? := cols, rows? := rows, limC := limC, limR := limR }
              if !q.wf then "wf0"
              else
                let fs := Spec.CellSize.failures { en := en, ed := ed } q c r
                if fs.isEmpty then "ok" else ",".intercalate fs
          | _, _, _, _, _, _ => "bad"
      | _, _, _, _, _, _, _, _ => "bad"
  | _ => "bad"

/-! ### C17 -/
section C17
open Tup.Config

def hexOfString (s : String) : String := toHex s.toUTF8.data.toList
def stringOfHex (h : String) : Option String :=
  if h = "" then some "" else
  match ofHexAux h.toList with
  | some bs => String.fromUTF8? (ByteArray.mk bs.toArray)
  | none => none

def takeUntil (stop : Char) : List Char → List Char × List Char
  | [] => ([], [])
  | c :: cs => if c = stop then ([], cs) else let (a, b) := takeUntil stop cs; (c :: a, b)

def parseScalar : List Char → Option (Scalar × List Char)
  | 'S' :: cs => let (h, r) := takeUntil ';' cs; (stringOfHex (String.ofList h)).map fun s => (.str s, r)
  | 'O' :: cs => let (h, r) := takeUntil ';' cs; (stringOfHex (String.ofList h)).map fun s => (.other s, r)
  | 'I' :: cs => let (h, r) := takeUntil ';' cs; (String.ofList h).toInt?.map fun i => (.int i, r)
  | 'F' :: cs =>
      let (h, r) := takeUntil ';' cs
      let (n, d) := takeUntil '/' h
      match (String.ofList n).toInt?, (String.ofList d).toNat? with
      | some n, some d => some (.float ⟨n, d⟩, r)
      | _, _ => none
  | 'B' :: '0' :: r => some (.bool false, r)
  | 'B' :: '1' :: r => some (.bool true, r)
  | 'N' :: r => some (.none, r)
  | _ => none

def parseScalars (fuel : Nat) (cs : List Char) : Option (List Scalar × List Char) :=
  match fuel with
  | 0 => none
  | fuel + 1 =>
    match cs with
    | ']' :: r => some ([], r)
    | _ => match parseScalar cs with
      | some (x, r) => (parseScalars fuel r).map fun (xs, r') => (x :: xs, r')
      | none => none

def parseVal (cs : List Char) : Option Val :=
  match cs with
  | 'L' :: r => match parseScalars (r.length + 1) r with | some (xs, []) => some (.list xs) | _ => none
  | 'T' :: r => match parseScalars (r.length + 1) r with | some (xs, []) => some (.tuple xs) | _ => none
  | 'P' :: r =>
      let (a, r) := takeUntil ',' r
      let (b, r) := takeUntil ';' r
      match (String.ofList a).toNat?, r with
      | some cb, [] => some (.space ⟨cb, String.ofList b = "1"⟩)
      | _, _ => none
  | 'U' :: r =>
      let (a, r) := takeUntil ',' r
      let (b, r) := takeUntil ';' r
      match (String.ofList a).toNat?, (String.ofList b).toNat?, r with
      | some x, some y, [] => some (.sub ⟨x, y⟩)
      | _, _, _ => none
  | ['M', 'd'] => some (.medium .direct)
  | ['M', 'f'] => some (.medium .file)
  | ['M', 't'] => some (.medium .tempFile)
  | ['M', 's'] => some (.medium .sharedMemory)
  | _ => match parseScalar cs with | some (x, []) => some (.sc x) | _ => none

def scalarStr : Scalar → String
  | .str s => s!"S{hexOfString s};"
  | .other s => s!"O{hexOfString s};"
  | .int i => s!"I{i};"
  | .float f => s!"F{f.num}/{f.den};"
  | .bool b => if b then "B1" else "B0"
  | .none => "N"

def valStr : Val → String
  | .sc x => scalarStr x
  | .list xs => "L" ++ String.join (xs.map scalarStr) ++ "]"
  | .tuple xs => "T" ++ String.join (xs.map scalarStr) ++ "]"
  | .space s => s!"P{s.colorBits},{boolStr s.use3rd};"
  | .sub u => s!"U{u.b},{u.e};"
  | .medium m => "M" ++ m.letter

def parseEntries (t : String) : Option (List (String × Val)) :=
  if t = "-" then some []
  else (t.splitOn "|").mapM fun kv =>
    match kv.splitOn "=" with
    | [k, v] => (parseVal v.toList).map fun x => (k, x)
    | _ => none

def entriesStr (l : List (String × Val)) : String :=
  if l.isEmpty then "-" else "|".intercalate (l.map fun (k, v) => s!"{k}={valStr v}")

def cerrStr : CErr → String
  | .unknownKey k => s!"err key {hexOfString k}"
  | .unknownKeys => "err keys"
  | .invalid o => s!"err invalid {o}"

def layerOf (s : String) : Option (Option Spec.Config.Layer) :=
  if s = "default" then some none
  else if s = "overrides" then some (some .overrides)
  else if s = "kwargs" then some (some .kwargs)
  else if s = "env" then some (some .env)
  else if s = "file" then some (some .file)
  else none

def optLabel (s : String) : Option (Option String) := if s = "_" then some none else (stringOfHex s).map some

def stateStr (sd : String) (c : Cfg) : String :=
  "|".intercalate (c.map fun e => s!"{e.name}={valStr e.val}@{hexOfString (c.provenance sd e.name)}")

def envOf (es : List (String × Val)) : List (String × String) :=
  es.filterMap fun (k, v) => match v with | .sc (.str s) => some (k, s) | _ => none

/-- one step on a configuration object (request `chain`); `none` = malformed request -/
def chainStep (sd : String) (c : Cfg) (step : String) : Option (Except CErr Cfg) :=
  match step.splitOn ":" with
  | ["F", p, es] => do
      let p ← stringOfHex p
      let es ← parseEntries es
      pure (applyFile sd c p es)
  | ["D", es] => do
      let es ← parseEntries es
      pure (applyDict sd c es)
  | ["E", es] => do
      let es ← parseEntries es
      pure (applyEnv sd c (envOf es))
  | ["C", tmux, env, kw, ov] => do
      let env ← parseEntries env
      let kw ← parseEntries kw
      let ov ← parseEntries ov
      pure ((applyAfterFile sd { file := none, env := envOf env, kwargs := kw, overrides := ov } c).map
        (expandTmux sd (tmux = "1")))
  | _ => none

def chain (sd : String) : Cfg → List String → Option (List String)
  | _, [] => some []
  | c, s :: rest =>
    match chainStep sd c s with
    | none => none
    | some (.error e) => some [cerrStr e]
    | some (.ok c') => (chain sd c' rest).map (stateStr sd c' :: ·)

def handleC17 : List String → String
  | "chain" :: sd :: steps =>
      match stringOfHex sd with
      | some sd => (match chain sd (Cfg.init sd) steps with
          | some out => "ok " ++ "#".intercalate out
          | none => "bad")
      | none => "bad"
  | ["ctor", sd, tmux, file, env, kw, ov] =>
      match stringOfHex sd, parseEntries env, parseEntries kw, parseEntries ov with
      | some sd, some env, some kw, some ov =>
          let file? : Option (Option (String × List (String × Val))) :=
            if file = "_" then some none
            else match file.splitOn ":" with
              | [p, es] => match stringOfHex p, parseEntries es with
                | some p, some es => some (some (p, es))
                | _, _ => none
              | _ => none
          let envS := env.filterMap fun (k, v) => match v with | .sc (.str s) => some (k, s) | _ => none
          match file? with
          | none => "bad"
          | some file? =>
            match construct sd (tmux = "1") { file := file?, env := envS, kwargs := kw, overrides := ov } with
            | .error e => cerrStr e
            | .ok c => "ok " ++ "|".intercalate (c.map fun e => s!"{e.name}={valStr e.val}@{hexOfString (c.provenance sd e.name)}")
      | _, _, _, _ => "bad"
  | ["norm", sd, name, v] =>
      match stringOfHex sd, parseVal v.toList with
      | some sd, some v => (match normalize sd name v with | .ok x => s!"ok {valStr x}" | .error e => cerrStr e)
      | _, _ => "bad"
  | ["dump", es] =>
      match parseEntries es with
      | some es => entriesStr (es.map fun (k, v) => (k, dumpVal v))
      | none => "bad"
  | ["winner", f, e, k, o] =>
      match Spec.Config.winner { file := f = "1", env := e = "1", kwargs := k = "1", overrides := o = "1" } with
      | some l => l.str
      | none => "default"
  | ["prov", layer, opt, path, kwl, ovl, p] =>
      match layerOf layer, stringOfHex (if path = "-" then "" else path), optLabel kwl, optLabel ovl, stringOfHex p with
      | some l, some path, some kwl, some ovl, some p => boolStr (Spec.Config.provenanceNames l opt path kwl ovl p)
      | _, _, _, _, _ => "bad"
  | ["text", v] =>
      match parseVal v.toList with
      | some v => (match Spec.Config.textOf v with | some s => s!"S{hexOfString s};" | none => "_")
      | none => "bad"
  | _ => "bad"

end C17

def handle : List String → String
  | "c15" :: rest => handleC15 rest
  | "c17" :: rest => handleC17 rest
  | _ => "bad"

end Tup.Drv.Misc
