import Tup.DrvUtil
import Tup.Model.UploadInfo
import Tup.Spec.Layout
import Tup.Spec.AllocStep
import Tup.Spec.Retention
/-!
  Driver of the database group (C01, C02, C04; reused by C03 / C12): a *stateful session*.
  The driver keeps
  * `db`   — the model database (`Model.Db`), advanced by the model operations,
  * `prev`/`cur` — the two most recent dumps of the *implementation's* tables (`impl …` shifts),
    on which the independent specification (`Spec.AllocStep`) is evaluated,
  * `logs` — the ghost arrival logs of `Spec.Retention`, one per terminal.

  Wire format: descriptions / terminal names as hex of their UTF-8 bytes (`-` = empty);
  a table is one token `id:desc:atime,id:desc:atime,…` (`-` = empty) sorted by id; the upload table
  `id:term:desc:size:time,…` sorted by (id, term); times are µs since `datetime.min`.
-/
namespace Tup.Drv.Db
open Tup
open Tup.Spec

structure St where
  cfg : Cfg := {}
  db : Db := {}
  prev : Db := {}
  cur : Db := {}
  logs : List (String × Retention.Log) := []
deriving Inhabited

/-! ### parsing / printing -/

def strOfHex (h : String) : Option String := do
  let bs ← ofHex h
  String.fromUTF8? (ByteArray.mk bs.toArray)

def hexOfStr (s : String) : String := hexOut s.toUTF8.data.toList

def spaceOf (cb u3 : String) : Option Space := do
  let c ← cb.toNat?
  pure ⟨c, u3 = "1"⟩

/-- `*` as colour bits = `id_space=None` -/
def spaceOpt (cb u3 : String) : Option (Option Space) :=
  if cb = "*" then some none else (spaceOf cb u3).map some

def parseNats (s : String) : Option (List Nat) :=
  if s = "-" then some [] else (s.splitOn ",").mapM String.toNat?

def parseRounds (s : String) : Option (List (List Nat)) :=
  if s = "-" then some [] else (s.splitOn "/").mapM parseNats

def natsStr (l : List Nat) : String := if l.isEmpty then "-" else ",".intercalate (l.map toString)

def parseRow (s : String) : Option Row :=
  match s.splitOn ":" with
  | [i, d, a] => do pure ⟨← i.toNat?, ← strOfHex d, ← a.toNat?⟩
  | _ => none

def parseTable (s : String) : Option Table :=
  if s = "-" then some [] else (s.splitOn ",").mapM parseRow

def parseURow (s : String) : Option URow :=
  match s.splitOn ":" with
  | [i, t, d, z, tm] => do pure ⟨← i.toNat?, ← strOfHex t, ← strOfHex d, ← z.toNat?, ← tm.toNat?⟩
  | _ => none

def parseUploads (s : String) : Option (List URow) :=
  if s = "-" then some [] else (s.splitOn ",").mapM parseURow

def parseKeys (s : String) : Option (List (Nat × String)) :=
  if s = "-" then some []
  else (s.splitOn ",").mapM fun k => match k.splitOn ":" with
    | [i, t] => do pure (← i.toNat?, ← strOfHex t)
    | _ => none

def rowStr (r : Row) : String := s!"{r.id}:{hexOfStr r.desc}:{r.atime}"
def tableStr (t : Table) : String := if t.isEmpty then "-" else ",".intercalate (t.map rowStr)
def urowStr (r : URow) : String := s!"{r.id}:{hexOfStr r.term}:{hexOfStr r.desc}:{r.size}:{r.time}"
def uploadsStr (us : List URow) : String := if us.isEmpty then "-" else ",".intercalate (us.map urowStr)

def dumpStr (db : Db) : String :=
  " ".intercalate ((Space.all.map fun s => tableStr (canonTable (db.ids s))) ++ [uploadsStr (canonUploads db.uploads)])

def parseDump (ts : List String) : Option Db :=
  match ts with
  | [a, b, c, d, e, u] => do
    pure { t0 := ← parseTable a, t1 := ← parseTable b, t2 := ← parseTable c, t3 := ← parseTable d,
           t4 := ← parseTable e, uploads := ← parseUploads u }
  | _ => none

def tok (s : String) : String := String.ofList (s.toList.map fun c => if c = ' ' then '_' else c)

def errStr : Err → String
  | .valueError => "err valueError"
  | .keyError => "err keyError"
  | .badChoice w => s!"err badChoice {tok w}"

def outcomeStr : Outcome → String
  | .hit => "hit"
  | .fresh => "fresh"
  | .recycled v => s!"recycled {rowStr v}"
  | .sampled r => s!"sampled {natsStr r}"
  | .foundLate r => s!"foundLate {natsStr r}"
  | .exhausted r => s!"exhausted {natsStr r}"

def clausesStr (l : List String) : String := if l.isEmpty then "ok" else ",".intercalate (l.map tok)

def logOf (st : St) (term : String) : Retention.Log :=
  match st.logs.find? (fun p => p.1 == term) with
  | some p => p.2
  | none => []

def setLog (st : St) (term : String) (l : Retention.Log) : St :=
  { st with logs := (term, l) :: st.logs.filter (fun p => p.1 != term) }

def thrOf (a b c : String) : Option Thresholds := do
  pure { maxUploads := ← a.toNat?, maxBytes := ← b.toNat?, maxTime := ← c.toNat? }

/-! ### the session step -/

def step (st : St) : List String → St × String
  | ["reset", m] => match m.toNat? with
      | some m => ({ cfg := { maxIds := m } }, "ok")
      | none => (st, "bad")
  | ["dump"] => (st, dumpStr st.db)
  -- model operations ----------------------------------------------------------------------------
  | ["get", cb, u3, b, e, d, now, pick, samples, removed] =>
      match spaceOf cb u3, b.toNat?, e.toNat?, strOfHex d, now.toNat?, pick.toNat?, parseRounds samples, parseRounds removed with
      | some s, some b, some e, some d, some now, some pick, some ss, some rs =>
        match getId st.cfg st.db ⟨s, ⟨b, e⟩, d⟩ now { pick := pick, samples := ss, removed := rs } with
        | .error er => (st, errStr er)
        | .ok (db', .id n, out) => ({ st with db := db' }, s!"ok id {n} {outcomeStr out}")
        | .ok (db', .noUnusedId, out) => ({ st with db := db' }, s!"ok noid {outcomeStr out}")
      | _, _, _, _, _, _, _, _ => (st, "bad")
  | ["set", id, d, now] =>
      match id.toNat?, strOfHex d, now.toNat? with
      | some id, some d, some now =>
        (match setId st.db id d now with
         | .error er => (st, errStr er)
         | .ok db' => ({ st with db := db' }, "ok"))
      | _, _, _ => (st, "bad")
  | ["del", id] =>
      match id.toNat? with
      | some id =>
        (match delId st.db id with
         | .error er => (st, errStr er)
         | .ok db' => ({ st with db := db' }, "ok"))
      | _ => (st, "bad")
  | ["cleanup", cb, u3, b, e, m, removed] =>
      match spaceOf cb u3, b.toNat?, e.toNat?, m.toNat?, parseNats removed with
      | some s, some b, some e, some m, some rm =>
        (match cleanup st.db s ⟨b, e⟩ m rm with
         | .error er => (st, errStr er)
         | .ok db' => ({ st with db := db' }, "ok"))
      | _, _, _, _, _ => (st, "bad")
  | ["info", id] =>
      match id.toNat? with
      | some id =>
        (match getInfo st.db id with
         | .error er => (st, errStr er)
         | .ok none => (st, "none")
         | .ok (some r) => (st, s!"row {rowStr r}"))
      | _ => (st, "bad")
  | ["getall", cb, u3, b, e] =>
      match spaceOpt cb u3, b.toNat?, e.toNat? with
      | some s, some b, some e => (st, tableStr (getAll st.db s ⟨b, e⟩))
      | _, _, _ => (st, "bad")
  | ["count", cb, u3, b, e] =>
      match spaceOpt cb u3, b.toNat?, e.toNat? with
      | some s, some b, some e => (st, toString (count st.db s ⟨b, e⟩))
      | _, _, _ => (st, "bad")
  | ["bulk", cb, u3, rows] =>
      -- mirror of a direct bulk INSERT of fresh keys into one table
      match spaceOf cb u3, parseTable rows with
      | some s, some rows => ({ st with db := st.db.setIds s (rows ++ st.db.ids s) }, "ok")
      | _, _ => (st, "bad")
  | ["fraclimits", cb, u3, b, e] =>
      match spaceOf cb u3, b.toNat?, e.toNat? with
      | some s, some b, some e =>
        let size := s.subspaceSize ⟨b, e⟩
        let ls := fracs.filterMap fun f => f.map (fracLimit st.cfg size)
        (st, s!"{size} {boolStr (isEnumerable st.cfg s ⟨b, e⟩)} {natsStr ls}")
      | _, _, _ => (st, "bad")
  -- upload operations ---------------------------------------------------------------------------
  | ["mark", id, term, size, time] =>
      match id.toNat?, strOfHex term, size.toNat?, time.toNat? with
      | some id, some term, some size, some time =>
        (match markUploaded st.db id term size time with
         | .error er => (st, errStr er)
         | .ok db' => ({ st with db := db' }, "ok"))
      | _, _, _, _ => (st, "bad")
  | ["upinfo", id, term] =>
      match id.toNat?, strOfHex term with
      | some id, some term =>
        (match getUploadInfo st.db id term with
         | none => (st, "none")
         | some i => (st, s!"info {i.id} {hexOfStr i.desc} {i.time} {hexOfStr i.term} {i.size} {i.bytesAgo} {i.uploadsAgo}"))
      | _, _ => (st, "bad")
  | ["needs", id, term, mu, mb, mt, now] =>
      match id.toNat?, strOfHex term, thrOf mu mb mt, now.toNat? with
      | some id, some term, some thr, some now =>
        (match needsUploading st.db id term thr now with
         | .error er => (st, errStr er)
         | .ok b => (st, boolStr b))
      | _, _, _, _ => (st, "bad")
  | ["cleanup_uploads", n, kept] =>
      match n.toNat?, parseKeys kept with
      | some n, some kept =>
        (match cleanupUploads st.db n kept with
         | .error er => (st, errStr er)
         | .ok db' => ({ st with db := db' }, "ok"))
      | _, _ => (st, "bad")
  -- implementation dumps and the independent specification -------------------------------------
  | "impl" :: ts =>
      match parseDump ts with
      | some d => ({ st with prev := st.cur, cur := d }, "ok")
      | none => (st, "bad")
  | ["spec_wf"] => (st, clausesStr (AllocStep.checkWellFormed st.cur))
  | ["spec_get", m, cb, u3, b, e, d, now, res, probes] =>
      match m.toNat?, spaceOf cb u3, b.toNat?, e.toNat?, strOfHex d, now.toNat?, parseNats probes with
      | some m, some s, some b, some e, some d, some now, some probes =>
        let r : Option (Option Nat) := if res = "none" then some none else res.toNat?.map some
        (match r with
         | some r => (st, clausesStr (AllocStep.checkGet m st.prev st.cur s ⟨b, e⟩ d now r probes))
         | none => (st, "bad"))
      | _, _, _, _, _, _, _ => (st, "bad")
  | ["spec_set", id, d, now, err] =>
      match id.toNat?, strOfHex d, now.toNat? with
      | some id, some d, some now => (st, clausesStr (AllocStep.checkSet st.prev st.cur id d now (err = "1")))
      | _, _, _ => (st, "bad")
  | ["spec_del", id, err] =>
      match id.toNat? with
      | some id => (st, clausesStr (AllocStep.checkDel st.prev st.cur id (err = "1")))
      | _ => (st, "bad")
  | ["spec_cleanup", cb, u3, b, e, m] =>
      match spaceOf cb u3, b.toNat?, e.toNat?, m.toNat? with
      | some s, some b, some e, some m => (st, clausesStr (AllocStep.checkCleanup st.prev st.cur s ⟨b, e⟩ m))
      | _, _, _, _ => (st, "bad")
  | ["spec_listing", cb, u3, b, e, rows] =>
      match spaceOpt cb u3, b.toNat?, e.toNat?, parseTable rows with
      | some s, some b, some e, some rows => (st, clausesStr (AllocStep.checkListing st.cur s ⟨b, e⟩ rows))
      | _, _, _, _ => (st, "bad")
  | ["spec_count", cb, u3, b, e, n] =>
      match spaceOpt cb u3, b.toNat?, e.toNat?, n.toNat? with
      | some s, some b, some e, some n => (st, clausesStr (AllocStep.checkCount st.cur s ⟨b, e⟩ n))
      | _, _, _, _ => (st, "bad")
  | ["spec_info", id, row, err] =>
      match id.toNat? with
      | some id =>
        let r : Option (Option Row) := if row = "none" then some none else (parseRow row).map some
        (match r with
         | some r => (st, clausesStr (AllocStep.checkInfo st.cur id r (err = "1")))
         | none => (st, "bad"))
      | _ => (st, "bad")
  | ["spec_unchanged"] => (st, clausesStr (AllocStep.checkUnchanged st.prev st.cur))
  | ["spec_idsunchanged"] => (st, clausesStr (AllocStep.checkIdsUnchanged st.prev st.cur))
  | ["spec_member", cb, u3, b, e, id] =>
      match spaceOf cb u3, b.toNat?, e.toNat?, id.toNat? with
      | some s, some b, some e, some n => (st, boolStr (Spec.member s ⟨b, e⟩ n))
      | _, _, _, _ => (st, "bad")
  -- ghost arrival logs (Spec.Retention) ----------------------------------------------------------
  | ["ghost_arrive", term, id, d, size, time] =>
      match strOfHex term, id.toNat?, strOfHex d, size.toNat?, time.toNat? with
      | some term, some id, some d, some size, some time =>
        (setLog st term (Retention.arrive (logOf st term) ⟨id, d, size, time⟩), "ok")
      | _, _, _, _, _ => (st, "bad")
  | ["ghost_judge", term, id, bound, present, mu, mb, mt, now, answer] =>
      match strOfHex term, id.toNat?, thrOf mu mb mt, now.toNat? with
      | some term, some id, some thr, some now =>
        let bd : Option (Option String) := if bound = "none" then some none else (strOfHex bound).map some
        (match bd with
         | some bd =>
           let log := logOf st term
           (st, s!"{clausesStr (Retention.judge thr log id bd (present = "1") now (answer = "1"))} {boolStr (Retention.strictlyIncreasing log)} {boolStr (Retention.nonDecreasing log)} {boolStr (Retention.stillThere thr log id now)}")
         | none => (st, "bad"))
      | _, _, _, _ => (st, "bad")
  | _ => (st, "bad")

/-- stateless view (contract of `HARNESS.md`): one request against a fresh session -/
def handle (args : List String) : String := (step {} args).2

partial def mainLoop : IO Unit := do
  let stdin ← IO.getStdin
  let stdout ← IO.getStdout
  let rec loop (st : St) : IO Unit := do
    let line ← stdin.getLine
    if line.isEmpty then return ()
    let l := (line.dropEndWhile (fun c => c = '\n' || c = '\r')).toString
    let args := (l.splitOn " ").filter (· ≠ "")
    let (st', out) := step st args
    stdout.putStrLn out
    stdout.flush
    loop st'
  loop {}

end Tup.Drv.Db
