import Tup.DrvUtil
/-! Driver for group Db (stub; the group's owner fills it in). -/
namespace Tup.Drv.Db
open Tup

def handle : List String → String
  | _ => "bad"

end Tup.Drv.Db
