import Tup.Model.Db
/-!
  Specification of what a terminal retains (C04), written from the property text, independent of
  the upload table: a **ghost log** per terminal of the images that went to it, newest first.
  An arrival is recorded when an upload to the terminal is registered, with the description bound
  to the id at that moment.

  A terminal that retains at least the configured number of recent uploads / bytes / time may have
  lost its copy of image `x` only if, after `x`'s latest arrival, at least `maxUploads` *other*
  images arrived, or `x`'s size plus the sizes of those later images exceeds `maxBytes`, or more than
  `maxTime` passed. "Other images" are counted per id, each with its latest copy (a store keyed by
  id holds one copy per id).
-/
namespace Tup.Spec.Retention
open Tup

structure Arrival where
  id : Nat
  desc : String
  size : Nat
  time : Nat
deriving DecidableEq, Repr, Inhabited

/-- newest first -/
abbrev Log := List Arrival

def arrive (log : Log) (a : Arrival) : Log := a :: log

/-- the latest arrival of `x` -/
def latestFor (log : Log) (x : Nat) : Option Arrival := log.find? (fun a => a.id == x)

/-- everything that arrived after the latest arrival of `x` (newest first) -/
def since (log : Log) (x : Nat) : Log := log.takeWhile (fun a => a.id != x)

/-- one entry per id: its newest arrival -/
def latestPerId : Log → Log
  | [] => []
  | a :: rest => a :: (latestPerId rest).filter (fun b => b.id != a.id)

/-- the other images that went to the terminal since `x` did, one (the latest) per id -/
def laterImages (log : Log) (x : Nat) : Log := latestPerId (since log x)

/-- the terminal is still guaranteed to hold its latest copy of `x` at time `now` -/
def stillThere (thr : Thresholds) (log : Log) (x : Nat) (now : Nat) : Bool :=
  match latestFor log x with
  | none => false
  | some a =>
    let l := laterImages log x
    decide (l.length < thr.maxUploads) &&
    decide (a.size + (l.map (·.size)).sum ≤ thr.maxBytes) &&
    decide (now ≤ a.time + thr.maxTime)

/-- the latest copy the terminal got under `x` is the image now bound to `x`, and it is still there -/
def holdsCurrent (thr : Thresholds) (log : Log) (x : Nat) (bound : String) (now : Nat) : Bool :=
  (match latestFor log x with | some a => a.desc == bound | none => false) && stillThere thr log x now

/-- arrival times strictly increase in arrival order (log is newest first) -/
def strictlyIncreasing : Log → Bool
  | [] => true
  | [_] => true
  | a :: b :: rest => decide (b.time < a.time) && strictlyIncreasing (b :: rest)

def nonDecreasing : Log → Bool
  | [] => true
  | [_] => true
  | a :: b :: rest => decide (b.time ≤ a.time) && nonDecreasing (b :: rest)

/-- Judge the answer of `needs_uploading(x, T)`; `bound` = description now bound to `x`
    (`none`: unassigned — the property speaks about assigned ids only); `rowPresent` = the record of
    `(x, T)` survived every upload-table clean-up. Returns the violated clauses. -/
def judge (thr : Thresholds) (log : Log) (x : Nat) (bound : Option String) (rowPresent : Bool)
    (now : Nat) (answerNeeds : Bool) : List String :=
  match bound with
  | none => []
  | some d =>
    let ok := holdsCurrent thr log x d now
    (if !answerNeeds && !ok then ["no-upload-although-terminal-may-have-lost-image"] else []) ++
    (if answerNeeds && ok && rowPresent then ["reupload-although-image-still-there"] else [])

end Tup.Spec.Retention
