import Tup.Basic
import Tup.Base64
import Tup.Model.Command
import Tup.Spec.TmuxUnwrap
/-!
  Independent specification for C05/C06: a parser of kitty graphics escape codes
  `ESC _ G key=value(,key=value)* [; base64] ESC \` and, from the protocol's key table, the
  list of `key=value` items a terminal must see for a given command value.

  Only the command *value types* are taken from `Tup.Model.Command` (what the caller set);
  nothing here calls `headerPairs`, `Medium.value`, … of the model.  No Mathlib.
-/
namespace Tup.Spec.GfxParse
open Tup Tup.Command

/-! ### framing and control data -/

def isLetter (c : UInt8) : Bool :=
  (decide (65 ≤ c.toNat) && decide (c.toNat ≤ 90)) || (decide (97 ≤ c.toNat) && decide (c.toNat ≤ 122))

/-- A value is a (possibly negative) integer or a single character: letters, digits, '-'. -/
def isValueChar (c : UInt8) : Bool :=
  isLetter c || (decide (48 ≤ c.toNat) && decide (c.toNat ≤ 57)) || c == 45

/-- one `key=value` item: single-letter key, `=`, non-empty value -/
def parseKV : Bytes → Option (UInt8 × Bytes)
  | k :: e :: v => if e = 61 ∧ isLetter k = true ∧ v ≠ [] ∧ v.all isValueChar = true then some (k, v) else none
  | _ => none

/-- APC body: everything up to the first ESC, which must start the final `ESC \`. -/
def apcBody : Bytes → Option Bytes
  | [] => none
  | b :: rest =>
    if b = ESC then (if rest = [92] then some [] else none)
    else (apcBody rest).map (b :: ·)

/-- split the body at the first `;` : (control data, payload text) -/
def splitSemi : Bytes → Bytes × Bytes
  | [] => ([], [])
  | b :: rest => if b = 59 then ([], rest) else ((b :: (splitSemi rest).1), (splitSemi rest).2)

/-- control data: comma separated items (the empty control data is the empty list) -/
def parseControl (ctrl : Bytes) : Option (List (UInt8 × Bytes)) :=
  if ctrl = [] then some [] else (splitOn 44 ctrl).mapM parseKV

/-- Parse one graphics escape code into (items in order, base64 text of the payload). -/
def parseRaw : Bytes → Option (List (UInt8 × Bytes) × Bytes)
  | 27 :: 95 :: 71 :: rest => do
      let body ← apcBody rest
      let items ← parseControl (splitSemi body).1
      pure (items, (splitSemi body).2)
  | _ => none

/-- Parse one graphics escape code into (items in order, decoded payload). -/
def parse (bs : Bytes) : Option (List (UInt8 × Bytes) × Bytes) := do
  let r ← parseRaw bs
  let d ← b64dec r.2
  pure (r.1, d)

def keys (items : List (UInt8 × Bytes)) : List UInt8 := items.map (·.1)

/-- value of key `k` (first occurrence) -/
def lookup (k : UInt8) : List (UInt8 × Bytes) → Option Bytes
  | [] => none
  | (k', v) :: rest => if k' = k then some v else lookup k rest

/-- the `m` flag a terminal sees: the protocol default is 0 when the key is absent -/
def mFlag (items : List (UInt8 × Bytes)) : Option Nat :=
  match lookup 109 items with
  | none => some 0
  | some v => if v = [48] then some 0 else if v = [49] then some 1 else none

/-! ### the protocol's key table applied to a command value -/

/-- an item that is present iff the field was set -/
def opt (k : UInt8) (v : Option Bytes) : List (UInt8 × Bytes) :=
  match v with
  | none => []
  | some x => [(k, x)]

/-- unsigned integer value -/
def num (n : Nat) : Bytes := natToDec n
/-- flag value `0`/`1` -/
def flag (b : Bool) : Bytes := if b then [49] else [48]

/-- `t=` : d direct, f file, t temporary file, s shared memory -/
def mediumLetter : Medium → UInt8
  | .direct => 100 | .file => 102 | .tempFile => 116 | .sharedMemory => 115
/-- `f=` : 24 RGB, 32 RGBA, 100 PNG -/
def formatCode : Format → Nat
  | .rgb => 24 | .rgba => 32 | .png => 100
/-- `o=` : z zlib -/
def compressionLetter : Compression → UInt8
  | .zlib => 122
/-- `q=` : 0 verbose, 1 suppress OK, 2 suppress everything -/
def quietCode : Quietness → Nat
  | .verbose => 0 | .quietUnlessError => 1 | .quietAlways => 2
/-- `d=` : lower-case keeps the image data, upper-case frees it -/
def deleteLetter (w : WhatToDelete) (free : Bool) : UInt8 :=
  match w, free with
  | .visiblePlacements, false => 97 | .visiblePlacements, true => 65
  | .imageOrPlacementById, false => 105 | .imageOrPlacementById, true => 73
  | .imageOrPlacementByNumber, false => 110 | .imageOrPlacementByNumber, true => 78
  | .placementsUnderCursor, false => 99 | .placementsUnderCursor, true => 67
  | .animationFrames, false => 102 | .animationFrames, true => 70
  | .placementsAtPosition, false => 112 | .placementsAtPosition, true => 80
  | .placementsAtPositionAndZindex, false => 113 | .placementsAtPositionAndZindex, true => 81
  | .placementsAtColumn, false => 120 | .placementsAtColumn, true => 88
  | .placementsAtRow, false => 121 | .placementsAtRow, true => 89
  | .placementsAtZindex, false => 122 | .placementsAtZindex, true => 90

/-- placement keys: p, U, r, c, x, y, w, h, C -/
def placementFields (p : Placement) : List (UInt8 × Bytes) :=
  opt 112 (p.placementId.map num) ++
  opt 85 (p.virtual.map flag) ++
  opt 114 (p.rows.map num) ++
  opt 99 (p.cols.map num) ++
  opt 120 (p.srcX.map num) ++
  opt 121 (p.srcY.map num) ++
  opt 119 (p.srcW.map num) ++
  opt 104 (p.srcH.map num) ++
  opt 67 (p.doNotMoveCursor.map flag)

/-- action of a transmission: `q` query, `T` transmit and display, `t` transmit;
    absent when the caller asked to omit it (the protocol default is then `t`). -/
def transmitAction (t : Transmit) : Option Bytes :=
  if t.omitAction then none
  else if t.query = some true then some [113]
  else if t.placement.isSome then some [84]
  else some [116]

/-- The items the terminal must see (in the key table's order; order on the wire is free). -/
def fields : GCmd → List (UInt8 × Bytes)
  | .transmit t =>
      opt 97 (transmitAction t) ++
      opt 105 (t.imageId.map num) ++
      opt 73 (t.imageNumber.map num) ++
      opt 116 (t.medium.map fun m => [mediumLetter m]) ++
      opt 102 (t.format.map fun f => num (formatCode f)) ++
      opt 111 (t.compression.map fun c => [compressionLetter c]) ++
      opt 115 (t.pixWidth.map num) ++
      opt 118 (t.pixHeight.map num) ++
      opt 83 (t.size.map num) ++
      opt 79 (t.offset.map num) ++
      opt 109 (t.more.map flag) ++
      opt 113 (t.quiet.map fun q => num (quietCode q)) ++
      (match t.placement with
       | none => []
       | some p => placementFields p)
  | .moreData m =>
      opt 105 (m.imageId.map num) ++
      opt 73 (m.imageNumber.map num) ++
      opt 109 (m.more.map flag)
  | .put p =>
      opt 97 (some [112]) ++
      opt 105 (p.imageId.map num) ++
      opt 73 (p.imageNumber.map num) ++
      opt 113 (p.quiet.map fun q => num (quietCode q)) ++
      placementFields p.placement
  | .delete d =>
      opt 97 (some [100]) ++
      opt 105 (d.imageId.map num) ++
      opt 73 (d.imageNumber.map num) ++
      opt 112 (d.placementId.map num) ++
      opt 113 (d.quiet.map fun q => num (quietCode q)) ++
      opt 100 (d.what.map fun w => [deleteLetter w (d.deleteData == some true)])

/-- The payload the terminal must receive (none for put / delete = empty). -/
def payload : GCmd → Bytes
  | .transmit t => t.data
  | .moreData m => m.data
  | .put _ => []
  | .delete _ => []

/-! ### executable checks used by the failing-input search -/

def nodupKeys : List UInt8 → Bool
  | [] => true
  | k :: rest => !rest.contains k && nodupKeys rest

/-- insertion sort of items by key (keys are distinct when this is used) -/
def insertItem (x : UInt8 × Bytes) : List (UInt8 × Bytes) → List (UInt8 × Bytes)
  | [] => [x]
  | y :: rest => if x.1.toNat ≤ y.1.toNat then x :: y :: rest else y :: insertItem x rest
def sortItems (l : List (UInt8 × Bytes)) : List (UInt8 × Bytes) := l.foldr insertItem []

/-- C06 on one emitted escape code (already unwrapped): `none` = fine, `some reason` otherwise. -/
def checkCommand (c : GCmd) (emitted : Bytes) : Option String :=
  match parseRaw emitted with
  | none => some "malformed"
  | some (items, ptxt) =>
    if !nodupKeys (keys items) then some "duplicate-key"
    else if sortItems items ≠ sortItems (fields c) then some "fields-differ"
    else match b64dec ptxt with
      | none => some "payload-not-base64"
      | some d => if d ≠ payload c then some "payload-differs" else none

/-- canonical rendering of (items, payload) as one escape code (used only to size a transfer
    that fits into a single escape code) -/
def render (items : List (UInt8 × Bytes)) (data : Bytes) : Bytes :=
  [27, 95, 71] ++ (items.map fun kv => kv.1 :: 61 :: kv.2).foldr (fun x acc => if acc.isEmpty then x else x ++ 44 :: acc) []
    ++ 59 :: b64enc data ++ [27, 92]

def dropKey (k : UInt8) (items : List (UInt8 × Bytes)) : List (UInt8 × Bytes) := items.filter (·.1 != k)

def allButLast {α} : List α → List α
  | [] => []
  | [_] => []
  | x :: y :: rest => x :: allButLast (y :: rest)

/-- C05 on the whole command stream written for one inline transmission through `n` tmux layers
    with limit `max`; `raised` = the sender refused with an error.  `none` = fine. -/
def checkSend (n max : Nat) (t : Transmit) (raised : Bool) (stream : Bytes) : Option String :=
  if raised then
    if stream ≠ [] then some "error-after-output"
    else
      let whole := TmuxUnwrap.wrapN n (render (dropKey 109 (fields (.transmit t)) ++ [(109, flag (t.more == some true))]) t.data)
      -- a limit exceeding the size of the whole transfer sent as ONE escape code by 64 bytes or more
      -- is certainly not "too small to carry any payload"
      if whole.length + 64 ≤ max then some "rejects-sufficient-limit" else none
  else
    match TmuxUnwrap.splitStream stream with
    | none => some "stream-malformed"
    | some escs =>
      if escs.isEmpty then some "nothing-emitted"
      else if escs.any (fun e => decide (max < e.length)) then some "escape-exceeds-max"
      else match escs.mapM (fun e => (TmuxUnwrap.unwrapN n e).bind parseRaw) with
        | none => some "chunk-malformed"
        | some parsed =>
          match parsed.mapM (fun p => b64dec p.2) with
          | none => some "payload-not-base64"
          | some ds =>
            if ds.flatten ≠ t.data then some "payload-mismatch"
            else if !(allButLast parsed).all (fun p =>
                mFlag p.1 == some 1 && p.2.length % 4 == 0 && decide (0 < p.2.length) && !p.2.contains b64pad)
              then some "chunk-flags"
            else if (parsed.getLast?.map fun p => mFlag p.1) ≠ some (some (if t.more = some true then 1 else 0))
              then some "last-flag"
            else match parsed with
              | [] => some "nothing-emitted"
              | first :: conts =>
                if !nodupKeys (keys first.1) then some "duplicate-key"
                else if sortItems (dropKey 109 first.1) ≠ sortItems (dropKey 109 (fields (.transmit t))) then some "first-chunk-fields"
                else if !conts.all (fun p =>
                    nodupKeys (keys p.1) &&
                    (keys p.1).all (fun k => k == 105 || k == 73 || k == 109) &&
                    p.1.all (fun kv => kv.1 == 109 || lookup kv.1 first.1 == some kv.2))
                  then some "continuation-keys"
                else none

end Tup.Spec.GfxParse
