import Tup.Model.IdSpace
/-!
  Independent specification of the ID layout, written from the property text (C10/C01/C14),
  not from the code: four byte projections and the feature table.
-/
namespace Tup.Spec

def byteOf (k id : Nat) : Nat := id / 256 ^ k % 256

/-- `id` uses exactly the placeholder features of space `s`. -/
def inSpace (s : Space) (id : Nat) : Bool :=
  decide (0 < id) && decide (id < 2 ^ 32) &&
  (decide (byteOf 3 id ≠ 0) == s.use3rd) &&
  (if s.colorBits = 0 then decide (id % 2 ^ 24 = 0)
   else if s.colorBits = 8 then decide (byteOf 0 id ≠ 0) && decide (byteOf 1 id = 0) && decide (byteOf 2 id = 0)
   else if s.colorBits = 24 then decide (byteOf 1 id ≠ 0) || decide (byteOf 2 id ≠ 0)
   else false)

/-- The byte a subspace restricts: the most significant byte the space can use. -/
def subByte (s : Space) (id : Nat) : Nat :=
  if s.use3rd then byteOf 3 id else if s.colorBits = 24 then byteOf 2 id else byteOf 0 id

def member (s : Space) (u : Sub) (id : Nat) : Bool :=
  inSpace s id && decide (u.b ≤ subByte s id) && decide (subByte s id < u.e)

end Tup.Spec
