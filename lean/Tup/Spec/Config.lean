import Tup.Model.ConfigVal
/-!
  Specification for C17, written from the property statement, independent of the code.

  "The effective value of every option is the one given by the highest-priority layer that sets
   it — call-time overrides, then TUPIMAGE_<OPTION> environment variables, then the config file,
   then defaults — and the reported provenance names that layer.  Any value accepted for an option
   is accepted in the same textual form from every layer, values of the wrong type are rejected
   with an error naming the option, and dumping the configuration as TOML and loading it back
   reproduces every option."

  Only the vocabulary of values (`Tup.Config.Val`) is shared with the model.
-/
namespace Tup.Spec.Config
open Tup.Config

/-- The layers, highest priority first.  The constructor has two call-time layers: the
    `config_overrides` dictionary (what the CLI uses) and plain keyword arguments. -/
inductive Layer where
  | overrides | kwargs | env | file
deriving DecidableEq, Repr, Inhabited

def Layer.str : Layer → String
  | .overrides => "overrides" | .kwargs => "kwargs" | .env => "env" | .file => "file"

def priority : List Layer := [.overrides, .kwargs, .env, .file]

/-- Which layers set the option (a dictionary entry that is `None`, an unset variable and an absent
    key do not). -/
structure Sets where
  file : Bool
  env : Bool
  kwargs : Bool
  overrides : Bool
deriving DecidableEq, Repr, Inhabited

def Sets.has (s : Sets) : Layer → Bool
  | .overrides => s.overrides | .kwargs => s.kwargs | .env => s.env | .file => s.file

/-- The layer whose value is in force: the first one in priority order that sets the option;
    `none` = the default. -/
def winner (s : Sets) : Option Layer := priority.find? s.has

/-- The value in force, given what each layer alone would make of the option. -/
def effective {α : Type} (s : Sets) (byLayer : Layer → α) (default : α) : α :=
  match winner s with
  | some l => byLayer l
  | none => default

/-- `TUPIMAGE_<OPTION>` -/
def envVar (opt : String) : String :=
  "TUPIMAGE_" ++ String.ofList (opt.toList.map Char.toUpper)

def isInfix (needle hay : List Char) : Bool :=
  match hay with
  | [] => needle.isEmpty
  | _ :: t => needle.isPrefixOf hay || isInfix needle t

def contains (hay needle : String) : Bool := isInfix needle.toList hay.toList

/-- "The reported provenance names that layer": the environment layer is named by its variable,
    the file layer by the file's path, a call-time layer by the label the caller attached to the
    dictionary (or, without a label, by not naming anything else), the default by `default`. -/
def provenanceNames (l : Option Layer) (opt filePath : String) (kwLabel ovLabel : Option String) (p : String) : Bool :=
  let namesOther := contains p (envVar opt) || (filePath ≠ "" && contains p filePath) || p == "default"
  match l with
  | none => p == "default"
  | some .env => contains p (envVar opt)
  | some .file => filePath ≠ "" && contains p filePath
  | some .kwargs => match kwLabel with | some lab => p == lab | none => !namesOther
  | some .overrides => match ovLabel with | some lab => p == lab | none => !namesOther

/-- The names of the five ID spaces as the documentation gives them. -/
def spaceName (cb : Nat) (use3rd : Bool) : Option String :=
  match cb, use3rd with
  | 24, true => some "32bit"
  | 24, false => some "24bit"
  | 8, true => some "16bit"
  | 8, false => some "8bit"
  | 0, true => some "8bit_diacritic"
  | _, _ => none

def mediumLetter : Medium → String
  | .direct => "d" | .file => "f" | .tempFile => "t" | .sharedMemory => "s"

/-- The textual form of a typed option value: what one writes in an environment variable (and what
    the TOML dump prints for the structured options).  Floats have no printer on this side
    (`none`); lists are comma-separated and need non-empty separator-free items. -/
def textOf : Val → Option String
  | .sc (.str s) => some s
  | .sc (.int i) => some (toString i)
  | .sc (.bool b) => some (if b then "true" else "false")
  | .sc _ => none
  | .tuple [.int w, .int h] => some s!"{w}x{h}"
  | .tuple _ => none
  | .space s => spaceName s.colorBits s.use3rd
  | .sub u => some s!"{u.b}:{u.e}"
  | .medium m => some (mediumLetter m)
  | .list l =>
      if l.isEmpty then none
      else
        let items := l.filterMap fun x => match x with
          | .str s => if s.isEmpty || s.toList.any (fun c => c = ',' || c = ' ') then none else some s
          | _ => none
        if items.length = l.length then some (",".intercalate items) else none

/-- Does a (non-string) value have the declared type?  A `bool` is not an `int`; a tuple must have
    the declared length and item types; `Literal['auto']` is the string `auto`. -/
def scalarHas : Scalar → Base → Bool
  | .int _, .int => true
  | .float _, .float => true
  | .bool _, .bool => true
  | .str _, .str => true
  | .none, .noneT => true
  | .str t, .lit s => s == t
  | .other c, .other cls => c == cls
  | _, _ => false

def itemsHave : List Scalar → List Base → Bool
  | [], [] => true
  | x :: xs, b :: bs => scalarHas x b && itemsHave xs bs
  | _, _ => false

def hasAlt (v : Val) : Alt → Bool
  | .base b => (match v with
      | .sc x => scalarHas x b
      | .space _ => b == .idSpace
      | .sub _ => b == .idSubspace
      | .medium _ => b == .medium
      | .list _ => b == .other "list"
      | .tuple _ => b == .other "tuple")
  | .tuple args => (match v with | .tuple xs => itemsHave xs args | _ => false)
  | .list arg => (match v with | .list xs => xs.all (scalarHas · arg) | _ => false)

def hasType (v : Val) (ty : Ty) : Bool := ty.any (hasAlt v)

/-- The types a native (non-string) value may have for an option: the declared one, or an integer
    where a float is declared. -/
def admits (ty : Ty) (v : Val) : Bool :=
  hasType v ty || (ty == [.base .float] && (match v with | .sc (.int _) => true | _ => false))

end Tup.Spec.Config
