import Tup.Basic
import Tup.Base64
/-!
  Specification: what a POSIX `sh` prints when it runs a script of the form the exporter emits.
  Written from POSIX (Shell Command Language §2.2 quoting, §2.3 token recognition / comments,
  §2.6.3 command substitution; `printf` utility and XBD ch.5 file-format notation), RFC 4648 for
  `base64 -w0`, and validated against dash and bash by `harness/c18.py`.  Independent of the
  exporter's code.

  Grammar (anything else: `none` = "this specification does not say / the command fails"):

      script   := line ('\n' line)*
      line     := blank* | blank* '#' any* | blank* "printf" (blank+ word)* blank* ('#' any*)?
      word     := "--" | "'" [^']* "'" | "\"$(printf " ("-- ")? "'" [^']* "'" " | base64 -w0)\""
      blank    := ' ' | '\t'

  `printf` semantics: operands after quote removal; a first operand `--` is skipped; otherwise a
  first operand that begins with `-` and is longer than `-` is an (invalid) option: failure
  (dash: "Illegal option", bash: "invalid option"; a lone `-` is an ordinary format, observed
  in both).  Format: `%%`, `%s`, `\\`, `\n`, `\ooo` (1–3 octal digits, value < 256); ordinary
  bytes stand for themselves; any other `%` or `\` sequence is outside this specification.
  The format is reused while arguments remain; a missing `%s` argument is the empty string;
  leftover arguments with a format that has no conversion are "unspecified" in POSIX: `none`.
  Command substitution removes trailing newlines.  A failing command makes `eval` return `none`
  (a real shell prints a diagnostic on stderr and carries on with the next line).
-/
namespace Tup.Spec.Sh
open Tup

inductive Piece where
  | lit (b : UInt8)
  | str
deriving DecidableEq, Repr

def isOct (b : UInt8) : Bool := 48 ≤ b.toNat && b.toNat ≤ 55
def octv (b : UInt8) : Nat := b.toNat - 48

/-- One element of a printf format: the piece and the rest of the format. -/
def nextPiece : Bytes → Option (Piece × Bytes)
  | [] => none
  | c :: r =>
    if c = 37 then            -- '%'
      match r with
      | d :: r' => if d = 37 then some (.lit 37, r') else if d = 115 then some (.str, r') else none
      | [] => none
    else if c = 92 then       -- '\'
      match r with
      | [] => none
      | d :: r1 =>
        if d = 92 then some (.lit 92, r1)
        else if d = 110 then some (.lit 10, r1)
        else if isOct d then
          match r1 with
          | e :: r2 =>
            if isOct e then
              match r2 with
              | f :: r3 =>
                if isOct f then
                  if octv d * 64 + octv e * 8 + octv f < 256
                  then some (.lit (UInt8.ofNat (octv d * 64 + octv e * 8 + octv f)), r3) else none
                else some (.lit (UInt8.ofNat (octv d * 8 + octv e)), r2)
              | [] => some (.lit (UInt8.ofNat (octv d * 8 + octv e)), r2)
            else some (.lit (UInt8.ofNat (octv d)), r1)
          | [] => some (.lit (UInt8.ofNat (octv d)), r1)
        else none
    else some (.lit c, r)

theorem nextPiece_lt {l : Bytes} {p : Piece} {r : Bytes} (h : nextPiece l = some (p, r)) :
    r.length < l.length := by
  unfold nextPiece at h
  repeat' split at h
  all_goals first
    | (injection h with h; injection h with _ h; subst h; simp only [List.length_cons]; omega)
    | contradiction

def parseFmt (l : Bytes) : Option (List Piece) :=
  if l.isEmpty then some []
  else match h : nextPiece l with
    | none => none
    | some (p, r) => (parseFmt r).map (p :: ·)
termination_by l.length
decreasing_by exact nextPiece_lt h

/-- one pass over the format: output and the arguments left over -/
def pass : List Piece → List Bytes → Bytes × List Bytes
  | [], args => ([], args)
  | .lit b :: ps, args => let (o, a) := pass ps args; (b :: o, a)
  | .str :: ps, [] => pass ps []
  | .str :: ps, a :: args => let (o, r) := pass ps args; (a ++ o, r)

def hasStr (ps : List Piece) : Bool := ps.any fun p => p == .str

def runFmt (ps : List Piece) : Nat → List Bytes → Option Bytes
  | 0, _ => none
  | fuel + 1, args =>
    let (o, rest) := pass ps args
    if rest.isEmpty then some o
    else if !hasStr ps then none
    else (runFmt ps fuel rest).map (o ++ ·)

def printfOut (fmt : Bytes) (args : List Bytes) : Option Bytes :=
  match parseFmt fmt with
  | none => none
  | some ps => runFmt ps (args.length + 1) args

/-- `-x…` is an option; a lone `-` is an operand. -/
def isOption (w : Bytes) : Bool :=
  match w with
  | c :: _ :: _ => c == 45
  | _ => false

/-- `printf` applied to its operands (after quote removal). -/
def printfCmd : List Bytes → Option Bytes
  | [] => none
  | w :: ws =>
    if w = [45, 45] then
      match ws with
      | [] => none
      | f :: args => printfOut f args
    else if isOption w then none
    else printfOut w ws

def isBlank (b : UInt8) : Bool := b == 32 || b == 9

def dropBlanks : Bytes → Bytes
  | [] => []
  | b :: r => if isBlank b then dropBlanks r else b :: r

theorem dropBlanks_le (l : Bytes) : (dropBlanks l).length ≤ l.length := by
  induction l with
  | nil => simp [dropBlanks]
  | cons b r ih => unfold dropBlanks; split <;> simp <;> omega

/-- contents of a single-quoted string; the input starts just after the opening quote -/
def takeSq : Bytes → Option (Bytes × Bytes)
  | [] => none
  | c :: r => if c = 39 then some ([], r) else (takeSq r).map fun (s, r') => (c :: s, r')

theorem takeSq_lt {l s r : Bytes} (h : takeSq l = some (s, r)) : r.length < l.length := by
  induction l generalizing s r with
  | nil => simp [takeSq] at h
  | cons c t ih =>
    unfold takeSq at h
    split at h
    · injection h with h; injection h with _ h; subst h; simp
    · cases ht : takeSq t with
      | none => simp [ht] at h
      | some v =>
        obtain ⟨s', r'⟩ := v
        simp [ht] at h
        have := ih ht
        obtain ⟨_, h2⟩ := h
        subst h2; simp; omega

def stripPrefix (p : Bytes) (l : Bytes) : Option Bytes :=
  match p, l with
  | [], l => some l
  | _ :: _, [] => none
  | a :: p', b :: l' => if a = b then stripPrefix p' l' else none

theorem stripPrefix_le {p l r : Bytes} (h : stripPrefix p l = some r) : r.length ≤ l.length := by
  induction p generalizing l with
  | nil => simp [stripPrefix] at h; subst h; omega
  | cons a p' ih =>
    cases l with
    | nil => simp [stripPrefix] at h
    | cons b l' =>
      simp only [stripPrefix] at h
      split at h
      · have := ih h; simp; omega
      · contradiction

def stripTrailingNewlines (l : Bytes) : Bytes := (l.reverse.dropWhile (· == 10)).reverse

/-- `"$(printf [-- ]'fmt' | base64 -w0)"`; the input starts just after `"$(printf `. Value and rest. -/
def substWord (l : Bytes) : Option (Option Bytes × Bytes) :=
  let (dd, l1) := match stripPrefix (asc "-- ") l with
    | some r => (true, r)
    | none => (false, l)
  match l1 with
  | c :: l2 =>
    if c = 39 then
      match takeSq l2 with
      | none => none
      | some (fmt, l3) =>
        match stripPrefix (asc " | base64 -w0)\"") l3 with
        | none => none
        | some l4 =>
          let v := (printfCmd (if dd then [[45, 45], fmt] else [fmt])).map fun o => stripTrailingNewlines (b64enc o)
          some (v, l4)
    else none
  | [] => none

theorem substWord_lt {l r : Bytes} {v : Option Bytes} (h : substWord l = some (v, r)) : r.length < l.length := by
  unfold substWord at h
  split at h
  rename_i dd l1 hdd
  have hl1 : l1.length ≤ l.length := by
    split at hdd
    · rename_i r' hr; injection hdd with _ h2; subst h2; exact stripPrefix_le hr
    · injection hdd with _ h2; subst h2; omega
  split at h
  · split at h
    · split at h
      · contradiction
      · rename_i fmt l3 h3
        split at h
        · contradiction
        · rename_i l4 h4
          injection h with h; injection h with _ h; subst h
          have := takeSq_lt h3
          have := stripPrefix_le h4
          simp at hl1; omega
    · contradiction
  · contradiction

/-- One word at the start of `l` (which begins with a non-blank, non-`#` byte).
    `some (none, rest)`: the word is a command substitution whose command failed. -/
def nextWord (l : Bytes) : Option (Option Bytes × Bytes) :=
  match l with
  | [] => none
  | c :: r =>
    if c = 39 then (takeSq r).map fun (s, r') => (some s, r')
    else if c = 45 then
      match r with
      | d :: r' => if d = 45 then some (some [45, 45], r') else none
      | [] => none
    else
      match stripPrefix (asc "\"$(printf ") l with
      | some r' => substWord r'
      | none => none

theorem nextWord_lt {l r : Bytes} {v : Option Bytes} (h : nextWord l = some (v, r)) : r.length < l.length := by
  unfold nextWord at h
  split at h
  · contradiction
  · rename_i c t
    split at h
    · cases ht : takeSq t with
      | none => simp [ht] at h
      | some w =>
        obtain ⟨s, r'⟩ := w
        simp [ht] at h
        have := takeSq_lt ht
        obtain ⟨_, h2⟩ := h; subst h2; simp; omega
    · split at h
      · split at h
        · split at h
          · injection h with h; injection h with _ h; subst h; simp; omega
          · contradiction
        · contradiction
      · split at h
        · rename_i r' hr
          have := substWord_lt h
          have := stripPrefix_le hr
          omega
        · contradiction

/-- The operands of a command; the input starts just after the previous word. Words must be
    separated by blanks; an unquoted `#` at the start of a word begins a comment. -/
def operands (l : Bytes) : Option (List Bytes) :=
  if (dropBlanks l).isEmpty then some []
  else if (dropBlanks l).length = l.length then none       -- no blank between words
  else if (dropBlanks l).head? = some 35 then some []      -- comment
  else match h : nextWord (dropBlanks l) with
    | none => none
    | some (v, r) =>
      match v, operands r with
      | some w, some ws => some (w :: ws)
      | _, _ => none
termination_by l.length
decreasing_by
  have := nextWord_lt h
  have := dropBlanks_le l
  omega

def evalLine (l : Bytes) : Option Bytes :=
  let l' := dropBlanks l
  if l'.isEmpty then some []
  else if l'.head? = some 35 then some []
  else match stripPrefix (asc "printf") l' with
    | none => none
    | some r =>
      match operands r with
      | none => none
      | some ws => printfCmd ws

def evalLines : List Bytes → Option Bytes
  | [] => some []
  | l :: ls =>
    match evalLine l, evalLines ls with
    | some a, some b => some (a ++ b)
    | _, _ => none

/-- stdout of `sh script` -/
def eval (script : Bytes) : Option Bytes := evalLines (splitOn 10 script)

end Tup.Spec.Sh
