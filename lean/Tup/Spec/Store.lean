import Tup.Basic
/-!
  Specification of what a terminal shows for an image ID (C08): an *adversarial conforming*
  terminal.  It records every complete transmission (arrival) it received, newest first, and
  retains an image exactly as long as the retention assumption of the library obliges it to:
  after the image's latest arrival, fewer than `maxUploads` other images (distinct IDs), no more
  than `maxBytes` bytes (the image itself included, later images counted once, by their latest
  copy) and no more than `maxAge` time have gone to it.  Everything else it forgets at once —
  except that the byte quota never evicts the image that arrived last (a terminal holds what it has
  just received, even when that single image is larger than the quota).
  A transmission that was started under an ID and not completed leaves no image under that ID.
-/
namespace Tup.Spec

structure Arrival where
  id : Nat
  token : String      -- content token: hash of the decoded pixels + pixel size ("INCOMPLETE" for an aborted transfer)
  rows : Nat          -- virtual placement geometry announced with the transmission
  cols : Nat
  size : Nat          -- transmitted bytes
  time : Nat
deriving DecidableEq, Repr, Inhabited

structure Thresholds where
  maxUploads : Nat
  maxBytes : Nat
  maxAge : Nat
deriving DecidableEq, Repr, Inhabited

/-- log is newest first -/
def latestFor (log : List Arrival) (x : Nat) : Option Arrival := log.find? (·.id == x)

/-- keep the first (newest) arrival of each id -/
def dedupNewest : List Arrival → List Arrival
  | [] => []
  | a :: r => a :: (dedupNewest r).filter (·.id != a.id)

/-- latest copies of the other images that arrived after `x`'s latest arrival -/
def laterLatest (log : List Arrival) (x : Nat) : List Arrival :=
  dedupNewest (log.takeWhile (·.id != x))

def retained (thr : Thresholds) (log : List Arrival) (x : Nat) (now : Nat) : Bool :=
  match latestFor log x with
  | none => false
  | some a =>
    let later := laterLatest log x
    decide (later.length < thr.maxUploads) &&
    (later.isEmpty || decide (a.size + (later.map (·.size)).sum ≤ thr.maxBytes)) &&
    decide (now - a.time ≤ thr.maxAge)

/-- what the adversarial terminal still holds under `x` -/
def shows (thr : Thresholds) (log : List Arrival) (x : Nat) (now : Nat) : Option Arrival :=
  if retained thr log x now then latestFor log x else none

/-- the judgement at a placeholder print: the terminal holds a complete transmission of the
    requested content under the printed ID with the printed placement geometry -/
def printOk (thr : Thresholds) (log : List Arrival) (x : Nat) (token : String) (rows cols : Nat) (now : Nat) : Bool :=
  match shows thr log x now with
  | some a => a.token == token && a.rows == rows && a.cols == cols
  | none => false

end Tup.Spec
