import Tup.Esc
import Tup.Spec.Diacritics
/-!
  Specification of a conforming terminal, at the level the library relies on: a screen of
  cells with colours and combining marks, a cursor with a pending-wrap position, SGR colour
  state, saved cursor, scroll margins, and the control functions the library emits.
  Written from ECMA-48 / xterm ctlseqs as implemented by tmux 3.3a (validated against it by
  harness/termcheck.py); the points where real terminals differ are parameters (`TermCfg`).
  All characters are one cell wide (U+10EEEE is width 1 by the kitty protocol); wide
  characters are outside the model.
-/
namespace Tup.Spec
open Tup

inductive Color where
  | idx (n : Nat)
  | rgb (r g b : Nat)
deriving DecidableEq, Repr, Inhabited

structure Cell where
  ch : Nat := 32
  marks : List Nat := []
  fg : Option Color := none
  ul : Option Color := none
  bg : Option Color := none
deriving DecidableEq, Repr, Inhabited

def Cell.blank : Cell := {}

structure TermCfg where
  /-- CUB/CUF from the pending-wrap position count from column `w` (tmux, kitty) rather than `w-1` (xterm, st). -/
  cubFromW : Bool := true
  /-- `CSI u` restores the SGR state saved by `CSI s` together with the position (tmux does). -/
  restoreSgr : Bool := true
  /-- cursor-position report clamps the column to `w` (1-based) in the pending-wrap state. -/
  cprClamps : Bool := false
deriving DecidableEq, Repr, Inhabited

structure Sgr where
  fg : Option Color := none
  ul : Option Color := none
  bg : Option Color := none
deriving DecidableEq, Repr, Inhabited

structure Term where
  w : Nat
  h : Nat
  cx : Nat := 0          -- 0 ≤ cx ≤ w ; cx = w is the pending-wrap position
  cy : Nat := 0
  sgr : Sgr := {}
  saved : Option (Nat × Nat × Sgr) := none
  top : Nat := 0         -- scroll margins, 0-based inclusive
  bot : Nat
  cells : Nat → Nat → Cell := fun _ _ => Cell.blank   -- row → column → cell
  scrolled : Int := 0    -- ghost: net lines the full-screen content moved up
  cfg : TermCfg := {}
  /-- bytes the terminal sent back (cursor-position reports), newest last -/
  replies : List Bytes := []

def Term.init (w h : Nat) (cfg : TermCfg := {}) : Term := { w := w, h := h, bot := h - 1, cfg := cfg }

def isCombining (cp : Nat) : Bool := diacritics.contains cp

/-- scroll the region [top, bot] up by one line (content moves up, blank line at `bot`). -/
def Term.scrollUp1 (t : Term) : Term :=
  { t with
    cells := fun y x =>
      if t.top ≤ y ∧ y < t.bot then t.cells (y + 1) x
      else if y = t.bot then Cell.blank
      else t.cells y x
    scrolled := if t.top = 0 ∧ t.bot = t.h - 1 then t.scrolled + 1 else t.scrolled }

def Term.scrollDown1 (t : Term) : Term :=
  { t with
    cells := fun y x =>
      if t.top < y ∧ y ≤ t.bot then t.cells (y - 1) x
      else if y = t.top then Cell.blank
      else t.cells y x
    scrolled := if t.top = 0 ∧ t.bot = t.h - 1 then t.scrolled - 1 else t.scrolled }

def iter {α} (f : α → α) : Nat → α → α
  | 0, a => a
  | n + 1, a => iter f n (f a)

/-- line feed / index: down one line, scrolling the region when on its bottom line. -/
def Term.index (t : Term) : Term :=
  if t.cy = t.bot then t.scrollUp1
  else if t.cy + 1 < t.h then { t with cy := t.cy + 1 }
  else t

def Term.putChar (t : Term) (cp : Nat) : Term :=
  if isCombining cp then
    -- attaches to the cell left of the cursor (the last written one)
    if t.cx = 0 then t
    else
      let x := t.cx - 1
      let c := t.cells t.cy x
      { t with cells := fun y' x' => if y' = t.cy ∧ x' = x then { c with marks := c.marks ++ [cp] } else t.cells y' x' }
  else
    -- resolve a pending wrap first
    let t := if t.cx ≥ t.w then { t.index with cx := 0 } else t
    let c : Cell := { ch := cp, marks := [], fg := t.sgr.fg, ul := t.sgr.ul, bg := t.sgr.bg }
    { t with cells := fun y' x' => if y' = t.cy ∧ x' = t.cx then c else t.cells y' x', cx := t.cx + 1 }

/-- SGR parameters: 0 reset; 38/48/58 ; 5 ; n  and  38/48/58 ; 2 ; r ; g ; b ; 39/49/59 defaults.
    Other parameters (bold etc.) do not touch colours. -/
def applySgr : List Nat → Sgr → Sgr
  | [], s => s
  | 0 :: r, _ => applySgr r {}
  | 38 :: 5 :: n :: r, s => applySgr r { s with fg := some (.idx n) }
  | 38 :: 2 :: a :: b :: c :: r, s => applySgr r { s with fg := some (.rgb a b c) }
  | 48 :: 5 :: n :: r, s => applySgr r { s with bg := some (.idx n) }
  | 48 :: 2 :: a :: b :: c :: r, s => applySgr r { s with bg := some (.rgb a b c) }
  | 58 :: 5 :: n :: r, s => applySgr r { s with ul := some (.idx n) }
  | 58 :: 2 :: a :: b :: c :: r, s => applySgr r { s with ul := some (.rgb a b c) }
  | 39 :: r, s => applySgr r { s with fg := none }
  | 49 :: r, s => applySgr r { s with bg := none }
  | 59 :: r, s => applySgr r { s with ul := none }
  | _ :: r, s => applySgr r s

def p1 (ps : List Nat) : Nat := match ps with
  | [] => 1 | 0 :: _ => 1 | n :: _ => n
def p2 (ps : List Nat) : Nat := match ps with
  | _ :: 0 :: _ => 1 | _ :: n :: _ => n | _ => 1

def Term.clearRegion (t : Term) (p : Nat → Nat → Bool) : Term :=
  { t with cells := fun y x => if p y x then { Cell.blank with bg := t.sgr.bg } else t.cells y x }

def Term.csi (t : Term) (ps : List Nat) (f : Nat) : Term :=
  let n := p1 ps
  if f = 109 then { t with sgr := applySgr (if ps.isEmpty then [0] else ps) t.sgr }          -- m
  else if f = 65 then                                                                        -- A  CUU
    let lim := if t.cy ≥ t.top then t.top else 0
    { t with cy := max lim (t.cy - n), cx := min t.cx (t.w - 1) }
  else if f = 66 then                                                                        -- B  CUD
    let lim := if t.cy ≤ t.bot then t.bot else t.h - 1
    { t with cy := min lim (t.cy + n), cx := min t.cx (t.w - 1) }
  else if f = 67 then                                                                        -- C  CUF
    { t with cx := min (t.w - 1) ((if t.cfg.cubFromW then t.cx else min t.cx (t.w - 1)) + n) }
  else if f = 68 then                                                                        -- D  CUB
    { t with cx := (if t.cfg.cubFromW then t.cx else min t.cx (t.w - 1)) - n }
  else if f = 71 then { t with cx := min (n - 1) (t.w - 1) }                                 -- G  CHA
  else if f = 100 then { t with cy := min (n - 1) (t.h - 1), cx := min t.cx (t.w - 1) }      -- d  VPA
  else if f = 72 ∨ f = 102 then                                                              -- H / f  CUP
    { t with cy := min (n - 1) (t.h - 1), cx := min (p2 ps - 1) (t.w - 1) }
  else if f = 115 then { t with saved := some (t.cx, t.cy, t.sgr) }                          -- s  SCOSC
  else if f = 117 then                                                                       -- u  SCORC
    match t.saved with
    | some (x, y, s) => { t with cx := x, cy := y, sgr := if t.cfg.restoreSgr then s else t.sgr }
    | none => { t with cx := 0, cy := 0 }
  else if f = 83 then iter Term.scrollUp1 (min n t.h) t                                      -- S  SU
  else if f = 84 then iter Term.scrollDown1 (min n t.h) t                                    -- T  SD
  else if f = 114 then                                                                       -- r  DECSTBM
    let tp := (match ps with | [] => 1 | 0 :: _ => 1 | a :: _ => a) - 1
    let bt := (match ps with | _ :: 0 :: _ => t.h | _ :: b :: _ => b | _ => t.h) - 1
    let tp := min tp (t.h - 1)
    let bt := min bt (t.h - 1)
    if tp ≥ bt then t else { t with top := tp, bot := bt, cx := 0, cy := 0 }
  else if f = 74 then                                                                        -- J  ED
    let k := match ps with | [] => 0 | a :: _ => a
    let cxx := min t.cx (t.w - 1)
    if k = 0 then t.clearRegion fun y x => decide (y > t.cy) || (decide (y = t.cy) && decide (x ≥ cxx))
    else if k = 1 then t.clearRegion fun y x => decide (y < t.cy) || (decide (y = t.cy) && decide (x ≤ cxx))
    else if k = 2 then t.clearRegion fun _ _ => true
    else t
  else if f = 75 then                                                                        -- K  EL
    let k := match ps with | [] => 0 | a :: _ => a
    let cxx := min t.cx (t.w - 1)
    if k = 0 then t.clearRegion fun y x => decide (y = t.cy) && decide (x ≥ cxx)
    else if k = 1 then t.clearRegion fun y x => decide (y = t.cy) && decide (x ≤ cxx)
    else if k = 2 then t.clearRegion fun y _ => decide (y = t.cy)
    else t
  else if f = 110 then                                                                       -- n  DSR
    if ps = [6] then
      let col := if t.cfg.cprClamps then min t.cx (t.w - 1) else t.cx
      { t with replies := t.replies ++ [[ESC, 91] ++ natToDec (t.cy + 1) ++ [59] ++ natToDec (col + 1) ++ [82]] }
    else t
  else t

def Term.feed (t : Term) : Tok → Term
  | .char cp => t.putChar cp
  | .c0 10 => t.index                                                  -- LF (no implicit CR)
  | .c0 11 => t.index
  | .c0 12 => t.index
  | .c0 13 => { t with cx := 0 }                                        -- CR
  | .c0 8 => { t with cx := (min t.cx (t.w - 1)) - 1 }                  -- BS
  | .c0 _ => t
  | .csi ps f => t.csi ps f
  | .esc 68 => t.index                                                 -- ESC D  IND
  | .esc 69 => { t.index with cx := 0 }                                -- ESC E  NEL
  | .esc 77 =>                                                         -- ESC M  RI
      if t.cy = t.top then t.scrollDown1 else if t.cy > 0 then { t with cy := t.cy - 1 } else t
  | .esc 99 => { Term.init t.w t.h t.cfg with replies := t.replies, scrolled := 0 }   -- ESC c  RIS
  | .esc 55 => { t with saved := some (t.cx, t.cy, t.sgr) }            -- ESC 7
  | .esc 56 => match t.saved with                                      -- ESC 8
      | some (x, y, s) => { t with cx := x, cy := y, sgr := s }
      | none => { t with cx := 0, cy := 0 }
  | .esc _ => t
  | .apc _ => t
  | .dcs _ => t
  | .bad _ => t

def Term.feedAll (t : Term) (ts : List Tok) : Term := ts.foldl Term.feed t

def Term.feedBytes (t : Term) (bs : Bytes) : Term := t.feedAll (parse bs)

/-- tty output post-processing `ONLCR`: LF → CR LF (what a pty slave does to the library's "\n"). -/
def onlcr : List Tok → List Tok
  | [] => []
  | .c0 10 :: r => .c0 13 :: .c0 10 :: onlcr r
  | t :: r => t :: onlcr r

def Term.row (t : Term) (y : Nat) : List Cell := (List.range t.w).map fun x => t.cells y x

end Tup.Spec
