import Tup.Basic
/-!
  Specification for C19, written from the kitty graphics protocol ("the terminal replies
  `ESC _ G <keys> ; <message> ESC \`", keys `i`, `I`, `p` carrying decimal numbers) and the property
  text, independent of the parsing code: an ENCODER of well-formed responses and the result a
  correct reader must return for it.  Also the cursor position report `ESC [ row ; col R`
  (ECMA-48 CPR, 1-based) for a 0-based position.
-/
namespace Tup.Spec.Response
open Tup

inductive Key where
  | imageId (n : Nat)
  | imageNumber (n : Nat)
  | placementId (n : Nat)
  /-- any other key, with or without `=value` -/
  | extra (k : Bytes) (v : Option Bytes)
deriving Repr, DecidableEq

structure Wf where
  keys : List Key
  /-- `none`: no `;` at all -/
  message : Option Bytes
deriving Repr, DecidableEq

def encodeKey : Key → Bytes
  | .imageId n => asc "i=" ++ natToDec n
  | .imageNumber n => asc "I=" ++ natToDec n
  | .placementId n => asc "p=" ++ natToDec n
  | .extra k none => k
  | .extra k (some v) => k ++ [61] ++ v

def joinComma : List Bytes → Bytes
  | [] => []
  | [a] => a
  | a :: rest => a ++ [44] ++ joinComma rest

def encode (w : Wf) : Bytes :=
  [27, 95, 71] ++ joinComma (w.keys.map encodeKey) ++
    (match w.message with | none => [] | some m => 59 :: m) ++ [27, 92]

/-- What the reader must report. Extra keys as an association list in order of arrival. -/
structure Expected where
  imageId : Option Nat
  imageNumber : Option Nat
  placementId : Option Nat
  extras : List (Bytes × Option Bytes)
  message : Bytes
  isOk : Bool
  nonResponse : Bytes
deriving Repr, DecidableEq

/-- the number carried by a numeric key (the last one, should it be repeated — `wf` excludes that) -/
def valueOf (sel : Key → Option Nat) : List Key → Option Nat
  | [] => none
  | k :: ks =>
    match valueOf sel ks with
    | some n => some n
    | none => sel k

def selI : Key → Option Nat | .imageId n => some n | _ => none
def selN : Key → Option Nat | .imageNumber n => some n | _ => none
def selP : Key → Option Nat | .placementId n => some n | _ => none
def selX : Key → Option (Bytes × Option Bytes) | .extra k v => some (k, v) | _ => none

def expected (noise : Bytes) (w : Wf) : Expected :=
  { imageId := valueOf selI w.keys
    imageNumber := valueOf selN w.keys
    placementId := valueOf selP w.keys
    extras := w.keys.filterMap selX
    message := w.message.getD []
    isOk := w.message == some (asc "OK")
    nonResponse := noise }

/-- `pat` occurs in `s` -/
def isInfix (pat : Bytes) : Bytes → Bool
  | [] => pat.isEmpty
  | b :: r => pat.isPrefixOf (b :: r) || isInfix pat r

/-- strict UTF-8 (RFC 3629): shortest form, no surrogates, ≤ U+10FFFF -/
def utf8Ok : Nat → Bytes → Bool
  | 0, _ => false
  | _, [] => true
  | f + 1, a :: r =>
    let n := a.toNat
    let c (x : UInt8) : Bool := x.toNat / 64 == 2
    if n < 128 then utf8Ok f r
    else match r with
      | b :: r1 =>
        if n / 32 == 6 then decide (n ≥ 0xC2) && c b && utf8Ok f r1
        else match r1 with
          | d :: r2 =>
            if n / 16 == 14 then
              let cp := (n % 16) * 4096 + (b.toNat % 64) * 64 + d.toNat % 64
              c b && c d && decide (cp ≥ 0x800) && !(decide (0xD800 ≤ cp) && decide (cp ≤ 0xDFFF)) && utf8Ok f r2
            else match r2 with
              | e :: r3 =>
                if n / 8 == 30 then
                  let cp := (n % 8) * 262144 + (b.toNat % 64) * 4096 + (d.toNat % 64) * 64 + e.toNat % 64
                  c b && c d && c e && decide (cp ≥ 0x10000) && decide (cp ≤ 0x10FFFF) && utf8Ok f r3
                else false
              | [] => false
          | [] => false
      | [] => false

def isUtf8 (s : Bytes) : Bool := utf8Ok (s.length + 1) s

def keyName : Key → Option Bytes
  | .extra k _ => some k
  | _ => none

def nodupB : List Bytes → Bool
  | [] => true
  | a :: r => !r.contains a && nodupB r

def sepFree (s : Bytes) : Bool := !s.any fun b => b == 44 || b == 59 || b == 27

/-- one key of a well-formed response: numbers are 32-bit (the protocol's ids); other keys are
    non-empty UTF-8 names without `,` `;` `=` ESC, values UTF-8 without `,` `;` ESC, and a name
    `i`/`I`/`p` may only appear without a value (with one it IS the numeric key). -/
def keyOk : Key → Bool
  | .imageId n => decide (n < 2 ^ 32)
  | .imageNumber n => decide (n < 2 ^ 32)
  | .placementId n => decide (n < 2 ^ 32)
  | .extra k v =>
    !k.isEmpty && isUtf8 k && sepFree k && !k.contains 61 &&
    (match v with
     | none => true
     | some v => isUtf8 v && sepFree v && !(k == [105] || k == [73] || k == [112]))

/-- the message: UTF-8 that does not contain the terminator -/
def msgOk : Option Bytes → Bool
  | none => true
  | some m => isUtf8 m && !isInfix [27, 92] m

/-- The responses the property quantifies over. -/
def wf (w : Wf) : Bool :=
  w.keys.all keyOk &&
  nodupB (w.keys.filterMap keyName) &&
  -- at most one of each numeric key
  decide ((w.keys.filterMap selI).length ≤ 1) &&
  decide ((w.keys.filterMap selN).length ≤ 1) &&
  decide ((w.keys.filterMap selP).length ≤ 1) &&
  msgOk w.message

/-- noise the property allows before a response: it does not contain the introducer -/
def noiseOk (noise : Bytes) : Bool := !isInfix [27, 95, 71] noise

/-- ECMA-48 cursor position report for the 0-based position `(x, y)` -/
def encodeCpr (x y : Nat) : Bytes := [27, 91] ++ natToDec (y + 1) ++ [59] ++ natToDec (x + 1) ++ [82]

/-- noise allowed before a CPR: no `ESC [` -/
def cprNoiseOk (noise : Bytes) : Bool := !isInfix [27, 91] noise

end Tup.Spec.Response
