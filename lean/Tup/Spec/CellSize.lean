/-!
  Specification for C15, written from the property statement, independent of the code.

  "When the library chooses the number of columns and rows for an image, both are at least 1,
   columns do not exceed the column limit and rows do not exceed the row limit (never more than
   256).  With both dimensions automatic and no limit in the way the box is the smallest cell box
   that contains the scaled image; in every case the box has no entirely unused row or column when
   the image is fitted into it preserving aspect ratio, a dimension given explicitly within the
   limits is kept unless the other one had to be capped, and two explicit dimensions are used
   verbatim."

  Everything is cross-multiplied into ℕ: the scaled image is `w' = Wn/Wd` by `h' = Hn/Hd` pixels
  (fractions, denominators > 0), a cell is `cw × ch` pixels, the answer is `c` columns by `r` rows.

  A tolerance `1 + en/ed` can be supplied for judging *floating-point* results (used by the
  harness outside the float-exact domain only): conclusions are loosened and hypotheses tightened
  by that factor.  With `en = 0` (the default, and the only form the theorems use) the
  predicates are the exact statements.
-/
namespace Tup.Spec.CellSize

structure Req where
  /-- scaled image width `Wn/Wd` and height `Hn/Hd` in pixels -/
  Wn : Nat
  Wd : Nat
  Hn : Nat
  Hd : Nat
  /-- cell size in pixels -/
  cw : Nat
  ch : Nat
  /-- explicitly requested columns / rows -/
  cols? : Option Int
  rows? : Option Int
  /-- the column and row limits in force -/
  limC : Nat
  limR : Nat
deriving Repr

structure Tol where
  en : Nat := 0
  ed : Nat := 1
deriving Repr

/-- `a < b·(1+ε)` -/
def Tol.lt (t : Tol) (a b : Nat) : Bool := decide (a * t.ed < b * (t.ed + t.en))
/-- `a ≤ b·(1+ε)` -/
def Tol.le (t : Tol) (a b : Nat) : Bool := decide (a * t.ed ≤ b * (t.ed + t.en))
/-- `a·(1+ε) ≤ b` (a hypothesis that must hold with margin) -/
def Tol.leStrict (t : Tol) (a b : Nat) : Bool := decide (a * (t.ed + t.en) ≤ b * t.ed)

/-- The limit in force for one dimension: the per-call argument, else the configured value,
    else the terminal's size; the row limit is additionally never more than 256. -/
def limit (arg? cfg? : Option Nat) (term : Nat) : Nat :=
  match arg? with
  | some a => a
  | none => match cfg? with
    | some c => c
    | none => term

def colLimit (arg? cfg? : Option Nat) (termCols : Nat) : Nat := limit arg? cfg? termCols
def rowLimit (arg? cfg? : Option Nat) (termRows : Nat) : Nat := min 256 (limit arg? cfg? termRows)

def bothExplicit (q : Req) : Bool := q.cols?.isSome && q.rows?.isSome

/-- At least 1, within the limits, never more than 256 rows. -/
def bounds (q : Req) (c r : Int) : Bool :=
  bothExplicit q || (decide (1 ≤ c) && decide (c ≤ q.limC) && decide (1 ≤ r) && decide (r ≤ q.limR) && decide (r ≤ 256))

/-- Both automatic and no limit in the way (`w' ≤ limC·cw`, `h' ≤ limR·ch`): the smallest box of
    whole cells containing the scaled image, `(c−1)·cw < w' ≤ c·cw` and `(r−1)·ch < h' ≤ r·ch`. -/
def minimalBox (t : Tol) (q : Req) (c r : Int) : Bool :=
  if q.cols?.isNone && q.rows?.isNone
      && t.leStrict q.Wn (q.limC * q.cw * q.Wd) && t.leStrict q.Hn (q.limR * q.ch * q.Hd) then
    decide (1 ≤ c) && decide (1 ≤ r)
      && t.lt ((c.toNat - 1) * q.cw * q.Wd) q.Wn && t.le q.Wn (c.toNat * q.cw * q.Wd)
      && t.lt ((r.toNat - 1) * q.ch * q.Hd) q.Hn && t.le q.Hn (r.toNat * q.ch * q.Hd)
  else true

/-- Fit the `w' × h'` image into the `c·cw × r·ch` box preserving the aspect ratio.
    The fit is width-bound when `c·cw / w' ≤ r·ch / h'`; then the image uses the full width and
    `c·cw·h'/w'` of the height, otherwise the full height and `r·ch·w'/h'` of the width.
    No entirely unused column: used width `> (c−1)·cw`; no entirely unused row: used height
    `> (r−1)·ch`. -/
def noUnused (t : Tol) (q : Req) (c r : Int) : Bool :=
  if bothExplicit q then true
  else if c < 1 || r < 1 then false
  else
    let c := c.toNat
    let r := r.toNat
    let boxW := c * q.cw
    let boxH := r * q.ch
    -- boxW / w' ≤ boxH / h'   ⟺   boxW · Wd · Hn ≤ boxH · Hd · Wn
    if boxW * q.Wd * q.Hn ≤ boxH * q.Hd * q.Wn then
      -- used = (boxW, boxW · h'/w'):  boxW > (c-1)·cw   and   boxW·h'/w' > (r-1)·ch
      t.lt ((c - 1) * q.cw) boxW && t.lt ((r - 1) * q.ch * (q.Hd * q.Wn)) (boxW * (q.Wd * q.Hn))
    else
      -- used = (boxH · w'/h', boxH)
      t.lt ((r - 1) * q.ch) boxH && t.lt ((c - 1) * q.cw * (q.Wd * q.Hn)) (boxH * (q.Hd * q.Wn))

/-- An explicit dimension within its limit is kept unless the other one had to be capped
    (the rows that go with `c0` columns at the image's aspect ratio, `c0·cw·h'/(w'·ch)`, fit under
    the row limit; symmetrically for explicit rows). -/
def explicitKept (t : Tol) (q : Req) (c r : Int) : Bool :=
  match q.cols?, q.rows? with
  | some c0, none =>
      if 1 ≤ c0 && c0 ≤ q.limC && t.leStrict (c0.toNat * q.cw * (q.Wd * q.Hn)) (q.limR * q.ch * (q.Hd * q.Wn))
      then c == c0 else true
  | none, some r0 =>
      if 1 ≤ r0 && r0 ≤ q.limR && t.leStrict (r0.toNat * q.ch * (q.Hd * q.Wn)) (q.limC * q.cw * (q.Wd * q.Hn))
      then r == r0 else true
  | _, _ => true

/-- Two explicit dimensions are used verbatim. -/
def verbatim (q : Req) (c r : Int) : Bool :=
  match q.cols?, q.rows? with
  | some c0, some r0 => c == c0 && r == r0
  | _, _ => true

/-- The inputs the property quantifies over. -/
def Req.wf (q : Req) : Bool :=
  decide (0 < q.Wn) && decide (0 < q.Wd) && decide (0 < q.Hn) && decide (0 < q.Hd) && decide (0 < q.cw) && decide (0 < q.ch)
    && decide (1 ≤ q.limC) && decide (1 ≤ q.limR)

/-- Names of the clauses the answer `(c, r)` breaks (empty = accepted). -/
def failures (t : Tol) (q : Req) (c r : Int) : List String :=
  (if bounds q c r then [] else ["bounds"]) ++
  (if minimalBox t q c r then [] else ["minimal_box"]) ++
  (if noUnused t q c r then [] else ["no_unused"]) ++
  (if explicitKept t q c r then [] else ["explicit_kept"]) ++
  (if verbatim q c r then [] else ["verbatim"])

end Tup.Spec.CellSize
