import Tup.Spec.Term
/-!
  Specification of Unicode-placeholder decoding (kitty graphics protocol, "Unicode placeholders"):
  a cell whose base character is U+10EEEE shows one cell of an image.  The foreground colour
  gives the low 24 bits of the image ID (a 256-colour index n means n; 24-bit colour means the
  24 bits), the underline colour the placement ID the same way, and up to three row/column
  diacritics give row, column and the most significant ID byte.  Missing values are inherited
  from the left neighbour when it is a placeholder cell with the same colours:
    0 diacritics: row and msb as the neighbour, column + 1;
    1 diacritic : if the row equals the neighbour's: column + 1 and msb inherited;
    2 diacritics: if row equals and column = neighbour's + 1: msb inherited;
  otherwise the missing values are 0.
-/
namespace Tup.Spec

structure Decoded where
  imageId : Nat
  placementId : Nat
  row : Nat
  col : Nat
deriving DecidableEq, Repr, Inhabited

def colorVal : Option Color → Nat
  | none => 0
  | some (.idx n) => n
  | some (.rgb r g b) => r * 65536 + g * 256 + b

def diacIndex (cp : Nat) : Option Nat :=
  let i := diacritics.idxOf cp
  if i < diacritics.length then some i else none

structure Prev where
  fg : Option Color
  ul : Option Color
  row : Nat
  col : Nat
  msb : Nat
deriving DecidableEq, Repr

/-- (row, col, msb) of a placeholder cell given its diacritic indices and the left neighbour. -/
def resolve (same : Option Prev) : List Nat → Nat × Nat × Nat
  | [] => match same with
      | some p => (p.row, p.col + 1, p.msb)
      | none => (0, 0, 0)
  | [r] => match same with
      | some p => if p.row = r then (r, p.col + 1, p.msb) else (r, 0, 0)
      | none => (r, 0, 0)
  | [r, c] => match same with
      | some p => if p.row = r ∧ p.col + 1 = c then (r, c, p.msb) else (r, c, 0)
      | none => (r, c, 0)
  | r :: c :: m :: _ => (r, c, m)

def decodeCell (prev : Option Prev) (cell : Cell) : Option (Decoded × Prev) :=
  if cell.ch ≠ placeholderChar then none
  else
    let ds := cell.marks.filterMap diacIndex
    let same := match prev with
      | some p => if p.fg = cell.fg ∧ p.ul = cell.ul then some p else none
      | none => none
    let (r, c, m) := resolve same ds
    some (⟨m * 16777216 + colorVal cell.fg % 16777216, colorVal cell.ul, r, c⟩, ⟨cell.fg, cell.ul, r, c, m⟩)

/-- decode a row of cells left to right -/
def decodeRow : Option Prev → List Cell → List (Option Decoded)
  | _, [] => []
  | prev, c :: cs => match decodeCell prev c with
      | some (d, p) => some d :: decodeRow (some p) cs
      | none => none :: decodeRow none cs

def Term.decodeScreen (t : Term) : List (List (Option Decoded)) :=
  (List.range t.h).map fun y => decodeRow none (t.row y)

end Tup.Spec
