import Tup.Model.Db
import Tup.Spec.Layout
import Std.Data.HashSet
/-!
  Step-level specification of the allocator (C01 / C02), written from the property text and judged
  on *table dumps before and after one public call* — it knows nothing of how the call is
  implemented. Membership is `Spec.member` (the byte layout), never the code's SQL filter.
  `Db` is used only as a container of six dumped tables.

  Two layers:
  * `Prop`-level definitions (`Live`, `HitStep`, `Binds`, `Frame`, …) — the meaning; the theorems in
    `Props/C02.lean` are stated with them;
  * executable checkers (`checkGet`, `checkSet`, …) returning the names of the violated clauses —
    used by the failing-input search on the implementation's dumps. They walk key-sorted dumps
    (`diffRows`) so that 60 000-row tables are cheap.
-/
namespace Tup.Spec.AllocStep
open Tup

/-! ## meaning (Prop level) -/

/-- The invariant of every database the library produces: per table unique keys, every row of table
    `s` is an id of space `s` (in particular non-zero and below 2^32), unique upload keys. -/
structure DbInv (db : Db) : Prop where
  keys : ∀ s ∈ Space.all, (db.ids s).KeysNodup
  space : ∀ s ∈ Space.all, ∀ r ∈ db.ids s, Spec.inSpace s r.id = true
  ukeys : UKeysNodup db.uploads

/-- the live assignments of `(s, u)`: rows of the space's table whose id is a member -/
def Live (db : Db) (s : Space) (u : Sub) (r : Row) : Prop := r ∈ db.ids s ∧ Spec.member s u r.id = true

/-- `r` is least recently used among the live assignments of `(s, u)` -/
def Lru (db : Db) (s : Space) (u : Sub) (r : Row) : Prop :=
  Live db s u r ∧ ∀ r', Live db s u r' → r.atime ≤ r'.atime

/-- extensional equality of two tables -/
def SameTable (a b : Table) : Prop := ∀ id, a.lookup id = b.lookup id

/-- the step touched nothing outside `(s, u)`: other spaces' tables, rows of `s` that are not
    members of `u`, and the upload table are as before -/
def Frame (db db' : Db) (s : Space) (u : Sub) : Prop :=
  (∀ s' ∈ Space.all, s' ≠ s → db'.ids s' = db.ids s') ∧
  (∀ id, Spec.member s u id = false → (db'.ids s).lookup id = (db.ids s).lookup id) ∧
  db'.uploads = db.uploads

/-- afterwards the id maps to exactly the requested description (and is the most recent) -/
def Binds (db' : Db) (s : Space) (id : Nat) (d : String) (now : Nat) : Prop :=
  (db'.ids s).lookup id = some ⟨id, d, now⟩

/-- a request for a description that already holds an id in the subspace: that id is returned,
    its recency refreshed, nothing else changes -/
def HitStep (db db' : Db) (s : Space) (u : Sub) (d : String) (now id : Nat) : Prop :=
  (∃ r, Live db s u r ∧ r.desc = d ∧ r.id = id) ∧
  (∀ id', id' ≠ id → (db'.ids s).lookup id' = (db.ids s).lookup id') ∧
  (db'.ids s).lookup id = some ⟨id, d, now⟩

/-- a fresh id was bound and no old assignment was displaced -/
def FreshStep (db db' : Db) (s : Space) (d : String) (now id : Nat) : Prop :=
  (db.ids s).lookup id = none ∧
  (∀ id', id' ≠ id → (db'.ids s).lookup id' = (db.ids s).lookup id') ∧
  (db'.ids s).lookup id = some ⟨id, d, now⟩

/-- exactly one old assignment was dropped, it was least recently used, its id was re-bound -/
def LruStep (db db' : Db) (s : Space) (u : Sub) (d : String) (now id : Nat) (victim : Row) : Prop :=
  Lru db s u victim ∧ victim.id = id ∧
  (∀ id', id' ≠ id → (db'.ids s).lookup id' = (db.ids s).lookup id') ∧
  (db'.ids s).lookup id = some ⟨id, d, now⟩

/-- a clean-up: the removed ids were live in `(s, u)`, no removed row is newer than a surviving
    live one, exactly `count - max` (truncated) are removed, everything else is untouched -/
def CleanupStep (db db' : Db) (s : Space) (u : Sub) (maxIds : Nat) (removed : List Nat) : Prop :=
  removed.Nodup ∧
  removed.length = ((db.ids s).filter (fun r => Spec.member s u r.id)).length - maxIds ∧
  (∀ id ∈ removed, ∃ r, Live db s u r ∧ r.id = id) ∧
  (∀ r k, Live db s u r → r.id ∈ removed → Live db s u k → k.id ∉ removed → r.atime ≤ k.atime) ∧
  (∀ id ∈ removed, (db'.ids s).lookup id = none) ∧
  (∀ id, id ∉ removed → (db'.ids s).lookup id = (db.ids s).lookup id)

/-- a listing is exactly the live assignments, most recent first -/
def Listing (db : Db) (s : Space) (u : Sub) (l : List Row) : Prop :=
  (∀ r, r ∈ l ↔ Live db s u r) ∧ l.Pairwise (fun a b => a.atime ≥ b.atime)

/-! ## executable checkers (dumps are key-sorted, keys unique — `checkWellFormed` verifies) -/

def liveRows (db : Db) (s : Space) (u : Sub) : List Row := (db.ids s).filter (fun r => Spec.member s u r.id)

def sortedKeys : List Row → Bool
  | [] => true
  | [_] => true
  | a :: b :: rest => decide (a.id < b.id) && sortedKeys (b :: rest)

structure Diff where
  gone : List Row := []                 -- key present before, absent after
  changed : List (Row × Row) := []      -- same key, different description or atime (old, new)
  added : List Row := []                -- key absent before, present after
deriving Repr, Inhabited

/-- merge walk over two key-sorted tables -/
def diffRows : Nat → List Row → List Row → Diff → Diff
  | 0, _, _, acc => acc
  | _ + 1, [], [], acc => acc
  | _ + 1, a :: as, [], acc => { acc with gone := acc.gone ++ (a :: as) }
  | _ + 1, [], b :: bs, acc => { acc with added := acc.added ++ (b :: bs) }
  | fuel + 1, a :: as, b :: bs, acc =>
    if a.id < b.id then diffRows fuel as (b :: bs) { acc with gone := acc.gone ++ [a] }
    else if b.id < a.id then diffRows fuel (a :: as) bs { acc with added := acc.added ++ [b] }
    else if a == b then diffRows fuel as bs acc
    else diffRows fuel as bs { acc with changed := acc.changed ++ [(a, b)] }

def diffTables (a b : Table) : Diff := diffRows (a.length + b.length + 1) a b {}

def Diff.isEmpty (d : Diff) : Bool := d.gone.isEmpty && d.changed.isEmpty && d.added.isEmpty

def otherSpacesSame (db db' : Db) (s : Space) : Bool :=
  Space.all.all fun s' => s' == s || db.ids s' == db'.ids s'

/-- rows of `live` whose key is not among `dropped` -/
def survivorsOf (live dropped : List Row) : List Row :=
  let set := Std.HashSet.ofList (dropped.map (·.id))
  live.filter (fun r => !set.contains r.id)

def clause (name : String) (ok : Bool) : List String := if ok then [] else [name]

/-- every dump: keys sorted/unique, every row in its own space (C01 on the tables themselves) -/
def checkWellFormed (db : Db) : List String :=
  Space.all.flatMap fun s =>
    clause s!"table-keys-not-unique:{s.name}" (sortedKeys (db.ids s)) ++
    clause s!"row-outside-its-space:{s.name}" ((db.ids s).all fun r => Spec.inSpace s r.id)

def minA (l : List Row) : Option Nat := l.foldl (fun m r => match m with | none => some r.atime | some x => some (min x r.atime)) none
def maxA (l : List Row) : Option Nat := l.foldl (fun m r => match m with | none => some r.atime | some x => some (max x r.atime)) none

/-- no dropped row is newer than a surviving live row -/
def oldestFirst (dropped survivors : List Row) : Bool :=
  match maxA dropped, minA survivors with
  | some a, some b => decide (a ≤ b)
  | _, _ => true

/-- A `get_id(d, s, u)` call at clock `now`. `res = some id` or `none` for the "no unused id"
    error. `probes` = the first-round candidate ids if the allocator's probing was observable.
    `size` is the number of members of `(s, u)` (`subspaceSize`, = `|allIds|` by C10). -/
def checkGet (maxIds : Nat) (db db' : Db) (s : Space) (u : Sub) (d : String) (now : Nat)
    (res : Option Nat) (probes : List Nat) : List String :=
  let t := db.ids s
  let t' := db'.ids s
  let live := liveRows db s u
  let df := diffTables t t'
  let size := s.subspaceSize u
  let enumerable := decide (size ≤ min 1024 maxIds)
  let hits := live.filter (fun r => r.desc == d)
  let frame :=
    clause "other-space-changed" (otherSpacesSame db db' s) ++
    clause "upload-table-changed" (db.uploads == db'.uploads) ++
    clause "row-outside-subspace-changed"
      (df.gone.all (fun r => Spec.member s u r.id) && df.changed.all (fun p => Spec.member s u p.1.id) &&
       df.added.all (fun r => Spec.member s u r.id))
  match res with
  | some id =>
    let new : Row := ⟨id, d, now⟩
    let c01 := clause "id-not-member-of-requested-subspace" (Spec.member s u id)
    let binds := clause "id-does-not-map-to-description" (t'.any (fun r => r == new))
    if !hits.isEmpty then
      -- stable: the existing id, only its atime moves
      c01 ++ binds ++ frame ++
      clause "hit-returns-other-id" (hits.any (fun r => r.id == id)) ++
      clause "hit-changed-other-assignment"
        (df.gone.isEmpty && df.added.isEmpty &&
         df.changed.all (fun p => p.1.id == id && p.1.desc == p.2.desc))
    else
      -- dropped assignments: rows gone, and rows whose key now carries another description
      let dropped := df.gone ++ (df.changed.filter (fun p => p.1.desc != p.2.desc)).map (·.1)
      let survivors := survivorsOf live dropped
      c01 ++ binds ++ frame ++
      clause "assignment-atime-changed" (df.changed.all (fun p => p.2 == new)) ++
      clause "unrequested-row-appeared" (df.added.all (fun r => r == new)) ++
      clause "dropped-outside-subspace" (dropped.all (fun r => Spec.member s u r.id)) ++
      clause "dropped-not-oldest-first" (oldestFirst dropped survivors) ++
      (if enumerable then
        if live.length < size then
          clause "displaced-while-free-id-exists" dropped.isEmpty
        else
          clause "full-subspace-not-exactly-one-dropped"
            (match dropped with | [v] => v.id == id | _ => false)
       else
        clause "dropped-although-probe-was-free"
          (dropped.isEmpty || probes.all (fun c => t.any (fun r => r.id == c))))
  | none =>
    let dropped := df.gone
    let survivors := survivorsOf live dropped
    frame ++
    clause "error-in-enumerable-subspace" (!enumerable) ++
    clause "error-changed-rows" (df.changed.isEmpty && df.added.isEmpty) ++
    clause "dropped-outside-subspace" (dropped.all (fun r => Spec.member s u r.id)) ++
    clause "dropped-not-oldest-first" (oldestFirst dropped survivors)

/-- the space the layout puts `id` in -/
def spaceOf (id : Nat) : Option Space := Space.all.find? (fun s => Spec.inSpace s id)

def allSame (db db' : Db) : Bool := Space.all.all (fun s => db.ids s == db'.ids s) && db.uploads == db'.uploads

/-- `set_id(id, d)` at `now`; `err` = the call raised -/
def checkSet (db db' : Db) (id : Nat) (d : String) (now : Nat) (err : Bool) : List String :=
  match spaceOf id with
  | none => clause "set-accepted-invalid-id" err ++ clause "failed-set-changed-tables" (allSame db db')
  | some s =>
    let df := diffTables (db.ids s) (db'.ids s)
    let new : Row := ⟨id, d, now⟩
    clause "set-rejected-valid-id" (!err) ++
    clause "other-space-changed" (otherSpacesSame db db' s) ++
    clause "upload-table-changed" (db.uploads == db'.uploads) ++
    clause "id-does-not-map-to-description" ((db'.ids s).any (fun r => r == new)) ++
    clause "set-changed-other-assignment"
      (df.gone.isEmpty && df.changed.all (fun p => p.2 == new) && df.added.all (fun r => r == new))

def checkDel (db db' : Db) (id : Nat) (err : Bool) : List String :=
  match spaceOf id with
  | none => clause "del-accepted-invalid-id" err ++ clause "failed-del-changed-tables" (allSame db db')
  | some s =>
    let df := diffTables (db.ids s) (db'.ids s)
    clause "del-rejected-valid-id" (!err) ++
    clause "other-space-changed" (otherSpacesSame db db' s) ++
    clause "upload-table-changed" (db.uploads == db'.uploads) ++
    clause "deleted-id-still-assigned" (!(db'.ids s).any (fun r => r.id == id)) ++
    clause "del-changed-other-assignment"
      (df.gone.all (fun r => r.id == id) && df.changed.isEmpty && df.added.isEmpty)

def checkCleanup (db db' : Db) (s : Space) (u : Sub) (maxIds : Nat) : List String :=
  let live := liveRows db s u
  let df := diffTables (db.ids s) (db'.ids s)
  let survivors := survivorsOf live df.gone
  clause "other-space-changed" (otherSpacesSame db db' s) ++
  clause "upload-table-changed" (db.uploads == db'.uploads) ++
  clause "cleanup-changed-rows" (df.changed.isEmpty && df.added.isEmpty) ++
  clause "dropped-outside-subspace" (df.gone.all (fun r => Spec.member s u r.id)) ++
  clause "cleanup-wrong-number-dropped" (df.gone.length == live.length - maxIds) ++
  clause "dropped-not-oldest-first" (oldestFirst df.gone survivors)

def sortedDesc : List Row → Bool
  | [] => true
  | [_] => true
  | a :: b :: rest => decide (a.atime ≥ b.atime) && sortedDesc (b :: rest)

def liveOpt (db : Db) (s : Option Space) (u : Sub) : List Row :=
  match s with
  | some s => liveRows db s u
  | none => Space.all.flatMap fun s => liveRows db s u

/-- `get_all(s, u)` returned `l` -/
def checkListing (db : Db) (s : Option Space) (u : Sub) (l : List Row) : List String :=
  let live := liveOpt db s u
  let byId (x : List Row) := x.mergeSort (fun a b => decide (a.id ≤ b.id))
  clause "listing-not-the-live-assignments" (byId l == byId live) ++
  clause "listing-not-most-recent-first" (sortedDesc l)

def checkCount (db : Db) (s : Option Space) (u : Sub) (n : Nat) : List String :=
  clause "count-not-number-of-live-assignments" (n == (liveOpt db s u).length)

/-- `get_info(id)` returned `r` (`err` = raised) -/
def checkInfo (db : Db) (id : Nat) (r : Option Row) (err : Bool) : List String :=
  match spaceOf id with
  | none => clause "info-accepted-invalid-id" err
  | some s => clause "info-rejected-valid-id" (!err) ++
              clause "info-not-the-assignment" (r == (db.ids s).find? (fun x => x.id == id))

/-- an operation that must not touch anything (reads) / must not touch the id tables (upload ops) -/
def checkUnchanged (db db' : Db) : List String := clause "read-changed-tables" (allSame db db')
def checkIdsUnchanged (db db' : Db) : List String :=
  clause "upload-op-changed-id-tables" (Space.all.all (fun s => db.ids s == db'.ids s))

end Tup.Spec.AllocStep
