import Tup.Basic
/-!
  Independent specification for C11: what tmux does with a pass-through sequence
  `ESC P t m u x ; <body> ESC \` — it forwards `<body>` with every `ESC ESC` turned back into a
  single `ESC`; the sequence ends at the first `ESC \` whose `ESC` is not the second half of a
  pair.  A lone `ESC` (followed by anything but `ESC` or `\`) inside the body is rejected.
  Also the splitting of a raw command stream into its top-level escape codes.  No Mathlib.
-/
namespace Tup.Spec.TmuxUnwrap
open Tup

/-- body of one wrapper, the terminator must be the end of the input -/
def unwrapBody : Bytes → Option Bytes
  | [] => none                                        -- unterminated
  | [_] => none                                       -- no room for the terminator
  | b :: c :: rest =>
    if b = ESC then
      if c = ESC then (unwrapBody rest).map (ESC :: ·)           -- doubled ESC
      else if c = 92 then (if rest = [] then some [] else none)    -- ESC \ : end of the wrapper
      else none                                                     -- lone ESC
    else (unwrapBody (c :: rest)).map (b :: ·)

/-- Remove one layer of tmux pass-through from one escape code. -/
def unwrap1 : Bytes → Option Bytes
  | 27 :: 80 :: 116 :: 109 :: 117 :: 120 :: 59 :: rest => unwrapBody rest
  | _ => none

/-- Remove `n` layers. -/
def unwrapN : Nat → Bytes → Option Bytes
  | 0, bs => some bs
  | n + 1, bs => (unwrap1 bs).bind (unwrapN n)

/-- every ESC of a wrapper body is half of an `ESC ESC` pair -/
def escPaired : Bytes → Bool
  | [] => true
  | [b] => b != ESC
  | b :: c :: rest => if b = ESC then (c == ESC && escPaired rest) else escPaired (c :: rest)

/-- `bs = ESC P t m u x ; body ESC \` with all ESCs of `body` paired -/
def wellWrapped (bs : Bytes) : Bool :=
  match bs with
  | 27 :: 80 :: 116 :: 109 :: 117 :: 120 :: 59 :: rest =>
    decide (2 ≤ rest.length) && rest.drop (rest.length - 2) == [27, 92] && escPaired (rest.take (rest.length - 2))
  | _ => false

/-! ### splitting a raw stream into top-level escape codes -/

/-- length of the string body up to and including its terminator `ESC \`;
    `dcs = true`: `ESC ESC` pairs are skipped (tmux pass-through), `false`: APC, first ESC ends it. -/
def stringEnd (dcs : Bool) : Bytes → Option Nat
  | [] => none
  | [_] => none
  | b :: c :: rest =>
    if b = ESC then
      if c = 92 then some 2
      else if dcs && c == ESC then (stringEnd dcs rest).map (· + 2)
      else none
    else (stringEnd dcs (c :: rest)).map (· + 1)

/-- Split a stream that consists of APC (`ESC _`) and DCS (`ESC P`) strings only. -/
def splitStreamAux : Nat → Bytes → Option (List Bytes)
  | _, [] => some []
  | 0, _ => none
  | fuel + 1, b :: k :: rest =>
    if b = ESC ∧ (k = 95 ∨ k = 80) then
      match stringEnd (k == 80) rest with
      | none => none
      | some n => (splitStreamAux fuel (rest.drop n)).map ((b :: k :: rest.take n) :: ·)
    else none
  | _ + 1, [_] => none

def splitStream (bs : Bytes) : Option (List Bytes) := splitStreamAux bs.length bs

/-! ### the sender's side of the convention (used to size a whole transfer) -/

/-- what a program must send so that tmux forwards `bs` -/
def wrap1 (bs : Bytes) : Bytes :=
  [27, 80, 116, 109, 117, 120, 59] ++ bs.flatMap (fun b => if b = ESC then [ESC, ESC] else [b]) ++ [27, 92]

def wrapN : Nat → Bytes → Bytes
  | 0, bs => bs
  | n + 1, bs => wrap1 (wrapN n bs)

/-! ### auto-detection rule of the property statement -/

/-- `needle` occurs in `hay` at some offset -/
def occursIn (needle hay : Bytes) : Bool :=
  (List.range (hay.length + 1)).any fun i => (hay.drop i).take needle.length == needle

/-- tmux is assumed only when `TMUX` is set (non-empty) and `TERM` names screen or tmux -/
def detectSpec (tmux term : Option Bytes) : Bool :=
  (match tmux with
   | some v => v != []
   | none => false) &&
  (match term with
   | some t => occursIn [115, 99, 114, 101, 101, 110] t || occursIn [116, 109, 117, 120] t   -- "screen", "tmux"
   | none => false)

end Tup.Spec.TmuxUnwrap
