import Tup.Basic
/-! Line-protocol loop shared by the drivers: one request per line, one reply line, flushed. -/
namespace Tup

partial def mainLoop (handle : List String → String) : IO Unit := do
  let stdin ← IO.getStdin
  let stdout ← IO.getStdout
  let rec loop : IO Unit := do
    let line ← stdin.getLine
    if line.isEmpty then return ()
    let l := (line.dropEndWhile (fun c => c = '\n' || c = '\r')).toString
    let args := (l.splitOn " ").filter (· ≠ "")
    let out := handle args
    stdout.putStrLn out
    stdout.flush
    loop
  loop

def argNat (s : String) : Option Nat := s.toNat?

end Tup
