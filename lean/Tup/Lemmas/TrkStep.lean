import Tup.Lemmas.TrkPut
/-!
  Every call of the tracker model preserves the invariant `Inv` (C16).  No Mathlib.
-/
namespace Tup.Trk
open Tup Tup.Spec

variable {w h : Nat} {t0 : Term} {a : Acc} {e : Env}

theorem AInv.emit_forget (hI : AInv w h t0 a) (cs : List Chunk)
    (hk : a.s.margins = false → ∀ c ∈ cs, chunkKeepsMargins c) : AInv w h t0 ((a.emit cs).setTracked none) := by
  unfold AInv at hI ⊢
  show Inv w h (feedChunks t0 (a.out ++ cs)) { a.s with tracked := none }
  rw [feedChunks_append]
  refine hI.forget (feedChunks_good cs _ hI.wf) rfl ?_
  intro hm
  exact hI.mar_keep cs (hk hm) (m := a.s.margins) id hm

theorem AInv.emit_raise (hI : AInv w h t0 a) (cs : List Chunk) :
    AInv w h t0 (((a.emit cs).setTracked none).setMargins true) := by
  unfold AInv at hI ⊢
  show Inv w h (feedChunks t0 (a.out ++ cs)) { tracked := none, margins := true }
  rw [feedChunks_append]
  exact hI.forget (feedChunks_good cs _ hI.wf) rfl (by intro h; cases h)

theorem AInv.emit_core (hI : AInv w h t0 a) (cs : List Chunk) (hc : ∀ t : Term, (feedChunks t cs).core = t.core) :
    AInv w h t0 (a.emit cs) := by
  unfold AInv at hI ⊢
  show Inv w h (feedChunks t0 (a.out ++ cs)) a.s
  rw [feedChunks_append]
  exact hI.of_core (hc _)

theorem AInv.raise (hI : AInv w h t0 a) : AInv w h t0 (a.setMargins true) := by
  unfold AInv at hI ⊢
  exact ⟨hI.tw, hI.th, hI.hw, hI.wf, hI.cpr, hI.trk, by intro h; cases h⟩

theorem AInv.forgetT (hI : AInv w h t0 a) : AInv w h t0 (a.setTracked none) := by
  unfold AInv at hI ⊢
  exact ⟨hI.tw, hI.th, hI.hw, hI.wf, hI.cpr, (by intro x y h; cases h), hI.mar⟩

theorem core_su (n : Nat) (t : Term) : (feedChunks t [csi [n] 'S']).core = t.core := by
  simp [feedChunk, csi, Term.feedP, Term.feed, Term.csi]; exact iter_scrollUp1_core _ _
theorem core_sd (n : Nat) (t : Term) : (feedChunks t [csi [n] 'T']).core = t.core := by
  simp [feedChunk, csi, Term.feedP, Term.feed, Term.csi]; exact iter_scrollDown1_core _ _
theorem core_el (t : Term) : (feedChunks t [csi [2] 'K']).core = t.core := by
  simp [feedChunk, csi, Term.feedP, Term.feed, Term.csi]; rfl
theorem core_ed (t : Term) : (feedChunks t [csi [1] 'J', csi [0] 'J']).core = t.core := by
  simp [feedChunk, csi, Term.feedP, Term.feed, Term.csi]; rfl
theorem core_sgr0 (t : Term) : (feedChunks t [csi [0] 'm']).core = t.core := by
  simp [feedChunk, csi, Term.feedP, Term.feed, Term.csi]; rfl

theorem foldl_apc (ts : List Tok) (t : Term) (h : ∀ k ∈ ts, ∃ b, k = .apc b) : ts.foldl Term.feedP t = t := by
  induction ts generalizing t with
  | nil => rfl
  | cons k ks ih =>
    obtain ⟨b, rfl⟩ := h k (by simp)
    simp only [List.foldl_cons]
    rw [show t.feedP (.apc b) = t from rfl]
    exact ih t (fun k' hk' => h k' (by simp [hk']))

theorem scrollUp_inv (hI : AInv w h t0 a) (n : Nat) : AInv w h t0 (scrollUp a n) :=
  (hI.emit_core _ (core_su n)).forgetT

theorem scrollDown_inv (hI : AInv w h t0 a) (n : Nat) : AInv w h t0 (scrollDown a n) :=
  (hI.emit_core _ (core_sd n)).forgetT

theorem setMargins_inv (hI : AInv w h t0 a) (top bottom : Nat) : AInv w h t0 (setMarginsCall a top bottom) :=
  hI.emit_raise _

theorem write_inv (hI : AInv w h t0 a) (bs : Bytes) : AInv w h t0 (write a bs) := hI.emit_raise _

theorem clearLine_inv (hI : AInv w h t0 a) : AInv w h t0 (clearLine a) := hI.emit_core _ core_el
theorem clearScreen_inv (hI : AInv w h t0 a) : AInv w h t0 (clearScreen a) := hI.emit_core _ core_ed

theorem decstbm_reset (t : Term) (wf : t.WF) :
    Good t (t.feedP (.csi [] 114)) ∧ (t.feedP (.csi [] 114)).top = 0 ∧ (t.feedP (.csi [] 114)).bot = t.h - 1 := by
  refine ⟨feedP_WF t wf _, ?_⟩
  have c1 := wf.cy_lt; have c2 := wf.bot_lt; have c3 := wf.top_le
  simp only [Term.feedP, Term.feed, Term.csi]
  simp
  split
  · constructor <;> omega
  · constructor
    · rfl
    · rfl

theorem reset_inv (he : EnvOk e w h t0) (hI : AInv w h t0 a) (b : Bool) : AInv w h t0 (reset e a b) := by
  unfold reset
  cases b with
  | false =>
    simp only [Bool.false_eq_true, if_false]
    unfold AInv at hI ⊢
    show Inv w h (feedChunks t0 (a.out ++ [escF 'c'])) { tracked := some (0, 0), margins := false }
    rw [feedChunks_append]
    generalize feedChunks t0 a.out = t at hI
    have hh : 1 ≤ t.h := by have := hI.wf.cy_lt; omega
    have hw := hI.hw
    have : feedChunks t [escF 'c'] = { Term.init t.w t.h t.cfg with replies := t.replies, scrolled := 0 } := by
      simp [feedChunk, escF, Term.feedP, Term.feed]
    rw [this]
    refine ⟨hI.tw, hI.th, hI.hw, WF_of_core (t := Term.init t.w t.h t.cfg) rfl (init_WF _ _ _ hh), hI.cpr, ?_, ?_⟩
    · intro x y hxy
      simp only [Option.some.injEq, Prod.mk.injEq] at hxy
      have := hI.tw
      refine ⟨?_, ?_, ?_⟩
      · show x = ((0 : Nat) : Int); omega
      · show y = ((0 : Nat) : Int); omega
      · show 0 < t.w; omega
    · intro _; exact ⟨rfl, rfl⟩
  | true =>
    simp only [if_true]
    apply moveCursorAbs_inv he
    -- after SGR 0, `CSI r` and the scroll the margins are at their defaults and nothing is tracked
    unfold AInv at hI ⊢
    show Inv w h (feedChunks t0 ((a.out ++ [csi [0] 'm', csi [] 'r']) ++ [csi [e.h] 'S'])) { tracked := none, margins := false }
    rw [feedChunks_append, feedChunks_append]
    generalize feedChunks t0 a.out = t at hI
    have h1 : (feedChunks t [csi [0] 'm']).core = t.core := core_sgr0 t
    have hI1 := hI.of_core h1
    have : feedChunks t [csi [0] 'm', csi [] 'r'] = (feedChunks t [csi [0] 'm']).feedP (.csi [] 114) := rfl
    rw [this]
    generalize feedChunks t [csi [0] 'm'] = t1 at hI1
    have d := decstbm_reset t1 hI1.wf
    generalize t1.feedP (.csi [] 114) = t2 at d
    have h3 : (feedChunks t2 [csi [e.h] 'S']).core = t2.core := core_su _ t2
    have hc3 := h3
    simp only [Term.core, Core.mk.injEq] at hc3
    obtain ⟨c1, c2, c3, c4, c5, c6, c7, c8⟩ := hc3
    refine hI1.forget (d.1.trans (Good.of_core d.1.1 h3)) rfl ?_
    intro _
    rw [c5, c6, c2, d.1.2.1]
    exact ⟨d.2.1, d.2.2⟩

/-! ### print_placeholder -/

theorem absKeeps (pos : Nat × Nat) (ls : List Bytes) (hp : ∀ l ∈ ls, ∀ k ∈ parse l, plainTok k = true) :
    ∀ idx, ∀ ch ∈ toStreamAbs pos idx ls, chunkKeepsMargins ch := by
  induction ls with
  | nil => intro idx ch h; simp [toStreamAbs] at h
  | cons l rest ih =>
    intro idx ch h
    simp only [toStreamAbs, List.cons_append, List.nil_append, List.mem_cons] at h
    rcases h with h | h | h
    · subst h; rfl
    · subst h; exact fun k hk => plain_keeps k (hp l (by simp) k hk)
    · exact ih (fun l' hl' => hp l' (by simp [hl'])) _ ch h

/-- the lines of a placeholder printed without custom formatting are plain -/
def PhArgs.WF (p : PhArgs) : Prop :=
  p.formatting = false → ∀ ls, p.lines = some ls → ∀ l ∈ ls, ∀ k ∈ parse l, plainTok k = true

theorem printPlaceholder_inv (hI : AInv w h t0 a) (p : PhArgs) (hp : p.WF) : AInv w h t0 (printPlaceholder a p) := by
  unfold printPlaceholder
  extract_lets a1
  have hI1 : AInv w h t0 a1 := by
    simp only [a1]
    split
    · exact hI.raise
    · exact hI
  have hfm : a1.s.margins = false → p.formatting = false := by
    intro hm
    cases hf : p.formatting with
    | false => rfl
    | true =>
      simp only [a1, hf, if_true] at hm
      cases hm
  split
  · exact hI1
  · cases hl : p.lines with
    | none => exact hI1
    | some ls =>
      simp only []
      apply hI1.emit_forget
      intro hm
      have hplain := hp (hfm hm) ls hl
      cases p.pos with
      | none => exact chorKeeps _ ls hplain _ _
      | some pos => exact absKeeps pos ls hplain 0

/-! ### print_placeholder_for_put -/

/-- the lines handed to `print_placeholder_for_put`: `r` plain lines of `c` cells -/
def PutArgs.WF (p : PutArgs) : Prop := ∀ c r, (p.lines c r).length = r ∧ ∀ l ∈ p.lines c r, PlainLine c l

theorem moveCursor_up_out (a : Acc) (u : Int) :
    (moveCursor e a none none none (some u)).out = a.out ++ vtoks (some (-u)) := by
  simp [moveCursor, htoks, Acc.emit]
  split
  · split <;> simp [Acc.setTracked, setTrackedPos]
  · rfl

theorem putScroll_inv (he : EnvOk e w h t0) (hI : AInv w h t0 a) (noMove : Bool) (rows curY : Int) :
    AInv w h t0 (putScroll e a noMove rows curY) := by
  unfold putScroll
  split
  · exact moveCursor_inv he (hI.emit_core _ (core_su _)) _ _ _ _
  · exact hI

/-- the scrolling keeps the column when the position is known and the margins are at their defaults -/
theorem putScroll_cx (hI : AInv w h t0 a) (noMove : Bool) (rows curY : Int)
    (hm : a.s.margins = false) (hcx : (feedChunks t0 a.out).cx < w) :
    (feedChunks t0 (putScroll e a noMove rows curY).out).cx = (feedChunks t0 a.out).cx := by
  unfold putScroll
  split
  · extract_lets nl
    rw [moveCursor_up_out]
    show (feedChunks t0 ((a.out ++ [csi [nl.toNat] 'S']) ++ vtoks (some (-nl)))).cx = _
    rw [feedChunks_append, feedChunks_append]
    unfold AInv at hI
    generalize feedChunks t0 a.out = t at hI hcx
    have hc := core_su nl.toNat t
    have hI1 := hI.of_core hc
    simp only [Term.core, Core.mk.injEq] at hc
    obtain ⟨c1, c2, c3, c4, c5, c6, c7, c8⟩ := hc
    have hmar := hI1.mar hm
    have := vtoks_effect (feedChunks t [csi [nl.toNat] 'S']) (some (-nl)) hI1.wf.cy_lt hmar.1 hmar.2
      (by rw [c3, c1, hI.tw]; exact hcx)
    rw [this.2, c3]
  · rfl

theorem nel_effect (t : Term) (hcy : t.cy < t.h) (hbot : t.bot = t.h - 1) :
    (feedChunks t [escF 'E']).cx = 0 ∧ (feedChunks t [escF 'E']).cy = min (t.cy + 1) (t.h - 1) := by
  have := index_effect t hcy hbot
  have e : feedChunks t [escF 'E'] = { t.index with cx := 0 } := by
    simp [feedChunk, escF, Term.feedP, Term.feed]
  rw [e]
  exact ⟨rfl, this.2⟩

theorem nel_keeps : ∀ c ∈ [escF 'E'], chunkKeepsMargins c := by
  intro c hc; simp at hc; subst hc; rfl

/-- last part of the put: given where the placeholder left the cursor (when that is knowable) -/
theorem putFinish_inv (he : EnvOk e w h t0) {a5 : Acc} (hI5 : AInv w h t0 a5) (noMove : Bool) (cX cY cols rows : Int)
    (hgeo : noMove = false → a5.s.margins = false →
      ((feedChunks t0 a5.out).cx : Int) = cX + cols ∧ ((feedChunks t0 a5.out).cy : Int) = min (cY + rows - 1) ((h : Int) - 1) ∧
      cX + cols ≤ (w : Int) ∧ 0 ≤ cX ∧ 0 ≤ cY ∧ 0 < cols ∧ 0 < rows) :
    AInv w h t0 (putFinish e a5 noMove cX cY cols rows) := by
  unfold putFinish
  cases noMove with
  | true =>
    simp only [if_true, Bool.not_true, Bool.and_false, Bool.false_eq_true, if_false]
    exact moveCursorAbs_inv he hI5 _ _ _
  | false =>
    simp only [Bool.false_eq_true, if_false, Bool.not_false, Bool.and_true]
    cases hm : a5.s.margins with
    | true =>
      by_cases hb : cX + cols ≥ (e.w : Int)
      · rw [if_pos hb]
        have : (setTrackedPos e (a5.emit [escF 'E']) 0 (cY + rows)).s.margins = true := hm
        rw [if_pos this]
        exact hI5.emit_forget [escF 'E'] (fun _ => nel_keeps)
      · rw [if_neg hb]
        have : (setTrackedPos e a5 (cX + cols) (cY + rows - 1)).s.margins = true := hm
        rw [if_pos this]
        exact hI5.forgetT
    | false =>
      obtain ⟨g1, g2, g3, g4, g5, g6, g7⟩ := hgeo rfl hm
      unfold AInv at hI5
      have hmar := hI5.mar hm
      have hw1 := hI5.hw
      have hcy5 := hI5.wf.cy_lt
      have hth := hI5.th
      have htw := hI5.tw
      by_cases hb : cX + cols ≥ (e.w : Int)
      · rw [if_pos hb]
        have : ¬ (setTrackedPos e (a5.emit [escF 'E']) 0 (cY + rows)).s.margins = true := by
          show ¬ a5.s.margins = true; rw [hm]; simp
        rw [if_neg this]
        unfold AInv
        show Inv w h (feedChunks t0 (a5.out ++ [escF 'E'])) _
        rw [feedChunks_append]
        generalize feedChunks t0 a5.out = t5 at *
        have ne := nel_effect t5 hcy5 hmar.2
        have g := feedChunks_good [escF 'E'] t5 hI5.wf
        have tb := feedChunks_topbot [escF 'E'] t5 nel_keeps
        refine ⟨g.2.2.1.trans htw, g.2.1.trans hth, hI5.hw, g.1, by rw [g.2.2.2]; exact hI5.cpr, ?_, ?_⟩
        · intro x y hxy
          simp only [setTrackedPos, Acc.setTracked, Acc.emit, Option.some.injEq, Prod.mk.injEq] at hxy
          rw [he.ew, he.eh] at hxy
          rw [he.ew] at hb
          rw [ne.1, ne.2, g.2.2.1, htw, hth]
          refine ⟨?_, ?_, ?_⟩ <;> omega
        · intro _
          rw [tb.1, tb.2, g.2.1]; exact hmar
      · rw [if_neg hb]
        have : ¬ (setTrackedPos e a5 (cX + cols) (cY + rows - 1)).s.margins = true := by
          show ¬ a5.s.margins = true; rw [hm]; simp
        rw [if_neg this]
        unfold AInv
        show Inv w h (feedChunks t0 a5.out) _
        generalize feedChunks t0 a5.out = t5 at *
        refine ⟨htw, hth, hI5.hw, hI5.wf, hI5.cpr, ?_, fun _ => hmar⟩
        intro x y hxy
        simp only [setTrackedPos, Acc.setTracked, Option.some.injEq, Prod.mk.injEq] at hxy
        rw [he.ew, he.eh] at hxy
        rw [he.ew] at hb
        rw [htw]
        refine ⟨?_, ?_, ?_⟩ <;> omega

theorem printPlaceholder_default (a : Acc) (L : List Bytes) (c : Nat) :
    printPlaceholder a { lines := some L, width := c } = (a.emit (toStreamAtCursor c true false L)).setTracked none := by
  simp [printPlaceholder]

theorem putPrint_inv (he : EnvOk e w h t0) (hI : AInv w h t0 a) (p : PutArgs) (hp : p.WF) (cols rows : Int)
    (hc : 0 < cols) (hr : 0 < rows)
    (hfit : a.s.margins = false → ((feedChunks t0 a.out).cx : Int) + cols ≤ (w : Int)) :
    AInv w h t0 (putPrint e a p cols rows) := by
  unfold putPrint
  have q := getCursorPosition_spec he hI
  generalize getCursorPosition e a = res at q
  obtain ⟨a3, cX, cY⟩ := res
  simp only []
  by_cases herr : a3.err.isSome = true
  · rw [if_pos herr]; exact q.inv
  rw [if_neg herr]
  rw [printPlaceholder_default]
  have hpw := hp cols.toNat rows.toNat
  generalize hL : p.lines cols.toNat rows.toNat = L at hpw
  have hI4 : AInv w h t0 (a3.setTracked none) := q.inv.forgetT
  have hI5 : AInv w h t0 (((a3.setTracked none).emit (toStreamAtCursor cols.toNat true false L)).setTracked none) := by
    apply hI4.emit_forget
    intro _
    exact chorKeeps _ L (fun l hl => (hpw.2 l hl).1) _ _
  apply putFinish_inv he hI5
  intro _ hm5
  have hm3 : a3.s.margins = false := hm5
  have hm : a.s.margins = false := by rw [← q.mar]; exact hm3
  have hfit' := hfit hm
  -- the terminal at the second query
  have hpos := q.pos
  simp only [Prod.mk.injEq] at hpos
  have hcore := q.core
  simp only [Term.core, Core.mk.injEq] at hcore
  obtain ⟨c1, c2, c3, c4, c5, c6, c7, c8⟩ := hcore
  have hI3 : Inv w h (feedChunks t0 a3.out) a3.s := q.inv
  have hmar := hI3.mar hm3
  show ((feedChunks t0 (a3.out ++ toStreamAtCursor cols.toNat true false L)).cx : Int) = _ ∧
    ((feedChunks t0 (a3.out ++ toStreamAtCursor cols.toNat true false L)).cy : Int) = _ ∧ _
  rw [feedChunks_append]
  generalize feedChunks t0 a3.out = T3 at *
  generalize feedChunks t0 a.out = T at *
  have hw3 := hI3.tw
  have hh3 := hI3.th
  -- the lines: at least one
  cases L with
  | nil =>
    have := hpw.1
    simp at this
    omega
  | cons l rest =>
    have hlen : rest.length + 1 = rows.toNat := by have := hpw.1; simpa using this
    have ce := chor_effect cols.toNat (by omega) rest l T3 hI3.wf hmar.1 hmar.2 (by rw [c3, hw3]; omega) hpw.2
    have hcy3 := hI3.wf.cy_lt
    rw [ce.1, ce.2, c3, c4, hh3]
    obtain ⟨hx, hy⟩ := hpos
    refine ⟨?_, ?_, ?_, ?_, ?_, hc, hr⟩ <;> omega

theorem moveCursor_margins (a : Acc) (r d l u : Option Int) : (moveCursor e a r d l u).s.margins = a.s.margins := by
  unfold moveCursor
  split
  · rfl
  extract_lets d' r' a1 a2
  split
  · rfl
  show (match a2.s.tracked with
    | some (x, y) => if (truthy d' && a2.s.margins) = true then a2.setTracked none
        else setTrackedPos e a2 (x + r'.getD 0) (y + d'.getD 0)
    | none => a2).s.margins = a.s.margins
  cases a2.s.tracked with
  | none => rfl
  | some p =>
    obtain ⟨x, y⟩ := p
    simp only []
    split <;> rfl

theorem putScroll_margins (a : Acc) (noMove : Bool) (rows curY : Int) :
    (putScroll e a noMove rows curY).s.margins = a.s.margins := by
  unfold putScroll
  split
  · extract_lets nl
    rw [moveCursor_margins]; rfl
  · rfl

theorem printPlaceholderForPut_inv (he : EnvOk e w h t0) (hI : AInv w h t0 a) (p : PutArgs) (hp : p.WF) :
    AInv w h t0 (printPlaceholderForPut e a p) := by
  unfold printPlaceholderForPut
  cases p.rows with
  | none => exact hI
  | some prow =>
    cases p.cols with
    | none => exact hI
    | some pcol =>
      simp only []
      split
      · exact hI
      have qt := getCursorPositionTracked_spec he hI
      simp only [] at qt
      generalize getCursorPositionTracked e a = res at qt
      obtain ⟨a1, curX, curY⟩ := res
      simp only []
      obtain ⟨hI1, _, hcore, hpos, hmar1⟩ := qt
      simp only [] at hI1 hcore hpos hmar1
      by_cases herr : a1.err.isSome = true
      · rw [if_pos herr]; exact hI1
      rw [if_neg herr]
      generalize hcols : min pcol ((e.w : Int) - curX) = cols
      generalize (if (decide ((e.h : Int) - curY < prow) && p.noMove) = true then (e.h : Int) - curY else prow) = rows
      have hI2 : AInv w h t0 (putScroll e a1 p.noMove prow curY) := putScroll_inv he hI1 _ _ _
      by_cases hz : (decide (cols ≤ 0) || decide (rows ≤ 0)) = true
      · rw [if_pos hz]; exact hI2
      rw [if_neg hz]
      simp only [Bool.or_eq_true, decide_eq_true_eq, not_or, Int.not_le] at hz
      apply putPrint_inv he hI2 p hp cols rows hz.1 hz.2
      intro hm2
      have hm1 : a1.s.margins = false := by
        have := putScroll_margins (e := e) a1 p.noMove prow curY
        rw [← this]; exact hm2
      simp only [Prod.mk.injEq] at hpos
      simp only [Term.core, Core.mk.injEq] at hcore
      obtain ⟨c1, c2, c3, c4, c5, c6, c7, c8⟩ := hcore
      have h1 := hz.1
      rw [← hcols, he.ew] at h1
      have hcx1 : (feedChunks t0 a1.out).cx < w := by rw [c3]; omega
      have := putScroll_cx (e := e) hI1 p.noMove prow curY hm1 hcx1
      show ((feedChunks t0 (putScroll e a1 p.noMove prow curY).out).cx : Int) + cols ≤ w
      rw [this, c3, ← hcols, he.ew]
      omega

theorem sendCommand_inv (he : EnvOk e w h t0) (hI : AInv w h t0 a) (force : Bool) (kind : CmdKind) (apc : Bytes)
    (p : PutArgs) (hapc : ∀ k ∈ parse apc, ∃ b, k = .apc b) (hp : p.WF) :
    AInv w h t0 (sendCommand e a force kind apc p) := by
  unfold sendCommand
  extract_lets need a1
  have hI1 : AInv w h t0 a1 := by
    apply hI.emit_core
    intro t
    show ((parse apc).foldl Term.feedP t).core = t.core
    rw [foldl_apc _ t hapc]
  split
  · exact printPlaceholderForPut_inv he hI1 p hp
  · exact hI1

/-! ### every call -/

/-- side conditions on the inputs the model takes from the implementation -/
def Op.WF : Op → Prop
  | .printPlaceholder p => p.WF
  | .printPlaceholderForPut p => p.WF
  | .sendCommand _ _ apc p => (∀ k ∈ parse apc, ∃ b, k = .apc b) ∧ p.WF
  | _ => True

theorem step_inv (he : EnvOk e w h t0) {s : Trk} (hI : Inv w h t0 s) (op : Op) (hop : op.WF) :
    Inv w h (feedChunks t0 (step e s op).out) (step e s op).s := by
  have hA : AInv w h t0 { s := s } := hI
  show AInv w h t0 (step e s op)
  unfold step
  cases op with
  | reset b => exact reset_inv he hA b
  | moveCursor r d l u => exact moveCursor_inv he hA r d l u
  | moveCursorAbs c r p => exact moveCursorAbs_inv he hA c r p
  | setMargins t b => exact setMargins_inv hA t b
  | scrollUp n => exact scrollUp_inv hA n
  | scrollDown n => exact scrollDown_inv hA n
  | write bs => exact write_inv hA bs
  | writecmd bs => exact write_inv hA bs
  | clearLine => exact clearLine_inv hA
  | clearScreen => exact clearScreen_inv hA
  | printPlaceholder p => exact printPlaceholder_inv hA p hop
  | printPlaceholderForPut p => exact printPlaceholderForPut_inv he hA p hop
  | sendCommand f k apc p => exact sendCommand_inv he hA f k apc p hop.1 hop.2
  | getCursorPosition => exact (getCursorPosition_spec he hA).inv
  | getCursorPositionTracked => exact (getCursorPositionTracked_spec he hA).1

end Tup.Trk
