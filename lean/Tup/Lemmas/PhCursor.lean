import Tup.Lemmas.PhChoreo
/-!
  Multi-line choreography of the cursor-relative styles without line feeds (`CSI s … CSI u ESC D`, or `CSI n D ESC D`)
  when no scrolling happens: the lines land on consecutive rows from the cursor, the cursor column is recovered after
  every line.
-/
namespace Tup.Ph
open Tup Tup.Spec

theorem feed_scosc (t : Term) : t.feed (.csi [] 115) = { t with saved := some (t.cx, t.cy, t.sgr) } := by
  simp [Term.feed, Term.csi]

theorem feed_scorc (t : Term) (x y : Nat) (s : Sgr) (h : t.saved = some (x, y, s)) :
    t.feed (.csi [] 117) = { t with cx := x, cy := y, sgr := if t.cfg.restoreSgr then s else t.sgr } := by
  simp [Term.feed, Term.csi, h]

theorem feed_ind_down (t : Term) (h1 : t.cy ≠ t.bot) (h2 : t.cy + 1 < t.h) : t.feed (.esc 68) = { t with cy := t.cy + 1 } := by
  simp [Term.feed, Term.index, h1, h2]

theorem feed_cub (t : Term) (n : Nat) (hn : 0 < n) (h : t.cfg.cubFromW = true ∨ t.cx < t.w) :
    t.feed (.csi [n] 68) = { t with cx := t.cx - n } := by
  have hp : p1 [n] = n := by
    unfold p1
    cases n with
    | zero => omega
    | succ k => rfl
  rcases h with h | h
  · simp [Term.feed, Term.csi, hp, h]
  · have : min t.cx (t.w - 1) = t.cx := by omega
    cases hc : t.cfg.cubFromW <;> simp [Term.feed, Term.csi, hp, hc, this]

end Tup.Ph

namespace Tup.Ph
open Tup Tup.Spec

theorem writeRow_eq (cs : List Cell) : ∀ (t : Term) (y x : Nat),
    writeRow t y x cs = { t with cells := (writeRow t y x cs).cells } := by
  induction cs with
  | nil => intro t y x; cases t; rfl
  | cons c r ih =>
    intro t y x
    simp only [writeRow]
    rw [ih (setCell t y x c) y (x + 1)]
    rfl

theorem writeRow_cells_congr (cs : List Cell) (t t' : Term) (y x : Nat) (h : t'.cells = t.cells) :
    (writeRow t' y x cs).cells = (writeRow t y x cs).cells := by
  funext y' x'
  simp [writeRow_cells, h]

/-- net effect of one non-last line of the cursor-relative styles without line feeds -/
def curStep (save : Bool) (cells : List Cell) (t : Term) : Term :=
  if save then
    { t with cells := (writeRow t t.cy t.cx cells).cells, saved := some (t.cx, t.cy, t.sgr), cy := t.cy + 1,
             sgr := if t.cfg.restoreSgr then t.sgr else {} }
  else
    { t with cells := (writeRow t t.cy t.cx cells).cells, cy := t.cy + 1, sgr := {} }

theorem feed_cur_step (save : Bool) (t : Term) (p : Placeholder) (m : Mode) (fmt : FmtT) (row : Nat)
    (hsc : p.startCol < 297) (hlt : p.startCol < p.endCol) (hfmt : BgOnly fmt)
    (hfit : t.cx + (p.endCol - p.startCol) ≤ t.w) (hbot : t.cy ≠ t.bot) (hh : t.cy + 1 < t.h)
    (hcub : save = false → (t.cfg.cubFromW = true ∨ t.cx + (p.endCol - p.startCol) < t.w)) :
    t.feedAll ((if save then [Tok.csi [] 115] else []) ++ lineToks p m fmt row ++
        ((if save then [Tok.csi [] 117] else [Tok.csi [p.endCol - p.startCol] 68]) ++ [Tok.esc 68])) =
      curStep save (rowCells p m fmt row) t := by
  cases save with
  | true =>
    simp only [if_true, feedAll_append, feedAll_singleton, feed_scosc]
    rw [feed_anyline _ p m fmt row hsc hlt hfmt (by simpa using hfit)]
    rw [feed_scorc _ t.cx t.cy t.sgr (by rw [writeRow_eq]), feed_ind_down _ (by rw [writeRow_eq]; simpa using hbot) (by rw [writeRow_eq]; simpa using hh)]
    rw [writeRow_eq]
    simp only [curStep, if_true]
    congr 1
    exact writeRow_cells_congr _ _ _ _ _ rfl
  | false =>
    have hc := hcub rfl
    simp only [Bool.false_eq_true, if_false, List.nil_append, feedAll_append, feedAll_singleton]
    rw [feed_anyline _ p m fmt row hsc hlt hfmt hfit]
    rw [feed_cub _ _ (by omega) (by rw [writeRow_eq]; simpa using hc)]
    rw [feed_ind_down _ (by rw [writeRow_eq]; simpa using hbot) (by rw [writeRow_eq]; simpa using hh)]
    rw [writeRow_eq]
    simp only [curStep, Bool.false_eq_true, if_false]
    congr 1
    omega

end Tup.Ph

namespace Tup.Ph
open Tup Tup.Spec

@[simp] theorem curStep_cx (save : Bool) (cells : List Cell) (t : Term) : (curStep save cells t).cx = t.cx := by
  cases save <;> rfl
@[simp] theorem curStep_cy (save : Bool) (cells : List Cell) (t : Term) : (curStep save cells t).cy = t.cy + 1 := by
  cases save <;> rfl
@[simp] theorem curStep_w (save : Bool) (cells : List Cell) (t : Term) : (curStep save cells t).w = t.w := by
  cases save <;> rfl
@[simp] theorem curStep_h (save : Bool) (cells : List Cell) (t : Term) : (curStep save cells t).h = t.h := by
  cases save <;> rfl
@[simp] theorem curStep_bot (save : Bool) (cells : List Cell) (t : Term) : (curStep save cells t).bot = t.bot := by
  cases save <;> rfl
@[simp] theorem curStep_cfg (save : Bool) (cells : List Cell) (t : Term) : (curStep save cells t).cfg = t.cfg := by
  cases save <;> rfl
@[simp] theorem curStep_cells (save : Bool) (cells : List Cell) (t : Term) :
    (curStep save cells t).cells = (writeRow t t.cy t.cx cells).cells := by
  cases save <;> rfl

/-- state after `n` non-last lines and the last one (rows `row … row + n`) in a cursor-relative style without scrolling -/
def curRes (save : Bool) (p : Placeholder) (m : Mode) (fmt : FmtT) : Nat → Nat → Term → Term
  | 0, row, t => { writeRow t t.cy t.cx (rowCells p m fmt row) with cx := t.cx + (p.endCol - p.startCol), sgr := {} }
  | n + 1, row, t => curRes save p m fmt n (row + 1) (curStep save (rowCells p m fmt row) t)

theorem feed_cur (save : Bool) (p : Placeholder) (m : Mode) (fmt : FmtT)
    (hsc : p.startCol < 297) (hlt : p.startCol < p.endCol) (hfmt : BgOnly fmt) :
    ∀ (n k row : Nat) (t : Term), t.cx + (p.endCol - p.startCol) ≤ t.w → t.cy + n ≤ t.bot → t.bot < t.h →
    (save = false → (t.cfg.cubFromW = true ∨ t.cx + (p.endCol - p.startCol) < t.w)) →
    t.feedAll ((enumFrom k ((List.range' row (n + 1)).map (lineToks p m fmt))).flatMap fun x =>
        curBefore save false x.1 (k + n + 1) ++ x.2 ++ curAfter save false (p.endCol - p.startCol) x.1 (k + n + 1)) =
      curRes save p m fmt n row t := by
  intro n
  induction n with
  | zero =>
    intro k row t hfit _ _ _
    have e : ((enumFrom k ((List.range' row (0 + 1)).map (lineToks p m fmt))).flatMap fun x =>
        curBefore save false x.1 (k + 0 + 1) ++ x.2 ++ curAfter save false (p.endCol - p.startCol) x.1 (k + 0 + 1)) =
        lineToks p m fmt row := by
      simp [enumFrom, curBefore, curAfter]
    rw [e]
    exact feed_anyline t p m fmt row hsc hlt hfmt hfit
  | succ n ih =>
    intro k row t hfit hbot hh hcub
    rw [List.range'_succ]
    simp only [List.map_cons, enumFrom, List.flatMap_cons, curRes]
    rw [feedAll_append]
    have hne : (k + 1 != k + (n + 1) + 1) = true := by simp
    have e1 : curBefore save false k (k + (n + 1) + 1) = (if save then [Tok.csi [] 115] else []) := by
      simp only [curBefore, hne]; cases save <;> rfl
    have e2 : curAfter save false (p.endCol - p.startCol) k (k + (n + 1) + 1) =
        ((if save then [Tok.csi [] 117] else [Tok.csi [p.endCol - p.startCol] 68]) ++ [Tok.esc 68]) := by
      simp only [curAfter, hne, if_true, Bool.false_eq_true, if_false]
    rw [e1, e2, feed_cur_step save t p m fmt row hsc hlt hfmt hfit (by omega) (by omega) hcub]
    have := ih (k + 1) (row + 1) (curStep save (rowCells p m fmt row) t) (by simpa using hfit) (by simp; omega) (by simpa using hh)
      (by simpa using hcub)
    have hk : k + 1 + n + 1 = k + (n + 1) + 1 := by omega
    rw [hk] at this
    exact this

theorem curRes_cells (save : Bool) (p : Placeholder) (m : Mode) (fmt : FmtT) (hlt : p.startCol < p.endCol) :
    ∀ (n row : Nat) (t : Term) (y' x' : Nat),
    (curRes save p m fmt n row t).cells y' x' =
      if t.cy ≤ y' ∧ y' < t.cy + (n + 1) ∧ t.cx ≤ x' ∧ x' < t.cx + (p.endCol - p.startCol)
      then (rowCells p m fmt (row + (y' - t.cy)))[x' - t.cx]?.getD Cell.blank else t.cells y' x' := by
  intro n
  induction n with
  | zero =>
    intro row t y' x'
    show (writeRow t t.cy t.cx (rowCells p m fmt row)).cells y' x' = _
    rw [writeRow_cells, rowCells_length p m fmt row hlt]
    by_cases h : y' = t.cy ∧ t.cx ≤ x' ∧ x' < t.cx + (p.endCol - p.startCol)
    · have h2 : t.cy ≤ y' ∧ y' < t.cy + (0 + 1) ∧ t.cx ≤ x' ∧ x' < t.cx + (p.endCol - p.startCol) := by omega
      have h3 : y' - t.cy = 0 := by omega
      simp [h]
    · have h2 : ¬ (t.cy ≤ y' ∧ y' < t.cy + (0 + 1) ∧ t.cx ≤ x' ∧ x' < t.cx + (p.endCol - p.startCol)) := by omega
      simp [h, h2]
  | succ n ih =>
    intro row t y' x'
    simp only [curRes, ih, curStep_cx, curStep_cy, curStep_cells]
    by_cases h1 : t.cy + 1 ≤ y' ∧ y' < t.cy + 1 + (n + 1) ∧ t.cx ≤ x' ∧ x' < t.cx + (p.endCol - p.startCol)
    · have h2 : t.cy ≤ y' ∧ y' < t.cy + (n + 1 + 1) ∧ t.cx ≤ x' ∧ x' < t.cx + (p.endCol - p.startCol) := by omega
      have h3 : row + 1 + (y' - (t.cy + 1)) = row + (y' - t.cy) := by omega
      simp [h1, h2, h3]
    · simp only [h1, if_false]
      rw [writeRow_cells, rowCells_length p m fmt row hlt]
      by_cases h4 : y' = t.cy ∧ t.cx ≤ x' ∧ x' < t.cx + (p.endCol - p.startCol)
      · have h5 : t.cy ≤ y' ∧ y' < t.cy + (n + 1 + 1) ∧ t.cx ≤ x' ∧ x' < t.cx + (p.endCol - p.startCol) := by omega
        have h6 : y' - t.cy = 0 := by omega
        simp [h4]
      · have h5 : ¬ (t.cy ≤ y' ∧ y' < t.cy + (n + 1 + 1) ∧ t.cx ≤ x' ∧ x' < t.cx + (p.endCol - p.startCol)) := by omega
        simp [h4, h5]

theorem curRes_cursor (save : Bool) (p : Placeholder) (m : Mode) (fmt : FmtT) : ∀ (n row : Nat) (t : Term),
    (curRes save p m fmt n row t).cx = t.cx + (p.endCol - p.startCol) ∧
    (curRes save p m fmt n row t).cy = t.cy + n ∧
    (curRes save p m fmt n row t).sgr = {} := by
  intro n
  induction n with
  | zero => intro row t; simp [curRes]
  | succ n ih =>
    intro row t
    have := ih (row + 1) (curStep save (rowCells p m fmt row) t)
    simp only [curRes]
    refine ⟨by rw [this.1]; simp, by rw [this.2.1]; simp; omega, this.2.2⟩

end Tup.Ph
