import Tup.Lemmas.TxnRun
/-!
  Helper lemmas for C03, part 3: the linearisation of a schedule — what each request contributes
  (`lin_contributes`), what each own operation returns (`lin_returns`), that every request which
  finished with an id has its own entry (`get_finished_entry`), progress (`finishes_within`).
-/
namespace Tup.TxnLemmas
open Tup Tup.Txn Tup.DbLemmas Tup.IdLemmas Tup.AllocLemmas Tup.Spec.AllocStep

/-! ## the shape of one request's contribution -/

theorem contributes_nil (cfg : Cfg) (p : PState) : Contributes cfg p [] := ⟨0, none, by simp, by simp⟩

theorem contributes_own {cfg : Cfg} {p : PState} {o : Op} (h : p.OwnOp o) : Contributes cfg p [(o, true)] :=
  ⟨0, some o, by simp, by simpa using h⟩

theorem contributes_closed {cfg : Cfg} {p : PState} {l : List (Op × Bool)} (h : Contributes cfg p l)
    (hpl : p.plannedCleanups cfg = []) (hno : ∀ o, ¬ p.OwnOp o) : l = [] := by
  obtain ⟨n, own, rfl, ho⟩ := h
  cases own with
  | none => simp [hpl]
  | some o => exact absurd (ho o rfl) (hno o)

theorem contributes_finished {cfg : Cfg} {r : Result} {l : List (Op × Bool)}
    (h : Contributes cfg (.finished r) l) : l = [] :=
  contributes_closed h rfl (fun _ h => h)

theorem contributes_read {cfg : Cfg} {p : PState} {l : List (Op × Bool)} (hr : isRead p = true)
    (h : Contributes cfg p l) : l = [] := by
  cases p <;> simp [isRead] at hr <;> exact contributes_closed h rfl (fun _ h => h)

theorem stepOps_error {cfg : Cfg} {p : PState} {db : Db} {e : Err} (h : pstep cfg p db = .error e) :
    stepOps cfg p db = [] := by
  simp [stepOps, h]

theorem stepOps_ok {cfg : Cfg} {p : PState} {db : Db} {x : PState × Db} (h : pstep cfg p db = .ok x) :
    stepOps cfg p db = match effOp cfg p db with
      | none => []
      | some op => [(op, p.ownStep)] := by
  unfold stepOps; rw [h]; cases effOp cfg p db <;> rfl

/-- one step peels its contribution off the front -/
theorem contrib_step {cfg : Cfg} {p : PState} {db : Db} {l : List (Op × Bool)}
    (h : Contributes cfg (pstepT cfg p db).1 l) : Contributes cfg p (stepOps cfg p db ++ l) := by
  cases hp : pstep cfg p db with
  | error e =>
    rw [pstepT_error hp] at h
    rw [stepOps_error hp, contributes_finished h]
    exact contributes_nil cfg p
  | ok x =>
    obtain ⟨p', db'⟩ := x
    rw [pstepT_ok hp] at h
    rw [stepOps_ok hp]
    have hc := pstep_cases hp
    generalize effOp cfg p db = o at hc
    cases hc with
    | invalid hwf => rw [contributes_finished h]; exact contributes_nil cfg p
    | lookupDone hwf hl => rw [contributes_finished h]; exact contributes_own ⟨_, rfl⟩
    | lookupMiss hwf hmiss henum => exact h
    | sampleNil hwf => rw [contributes_finished h]; exact contributes_nil cfg _
    | sampleInserted hwf hmiss hsb hmem hfree hset hleft =>
      rw [contributes_finished h]; exact contributes_own ⟨_, rfl⟩
    | sampleFound hwf hne hany => rw [contributes_finished h]; exact contributes_own ⟨_, rfl⟩
    | sampleExhausted hwf hmiss hsb => rw [contributes_finished h]; exact contributes_nil cfg _
    | sampleNone hwf hmiss hsb => exact h
    | cleanupInt hwf hc =>
      obtain ⟨n, own, rfl, ho⟩ := h
      exact ⟨n + 1, own, by simp [PState.plannedCleanups, cleanupsFrom, PState.ownStep], ho⟩
    | set hc => rw [contributes_finished h]; exact contributes_own rfl
    | del hc => rw [contributes_finished h]; exact contributes_own rfl
    | cleanup hwf hc => rw [contributes_finished h]; exact contributes_own rfl
    | mark hc => rw [contributes_finished h]; exact contributes_own rfl
    | cleanupUploads hc => rw [contributes_finished h]; exact contributes_own rfl
    | read hp1 hp2 => rw [contributes_read hp2 h]; exact contributes_nil cfg p

theorem entriesOf_append (j : Nat) (a b : List LinOp) : entriesOf j (a ++ b) = entriesOf j a ++ entriesOf j b := by
  simp [entriesOf]

theorem entriesOf_stepLin_self {cfg : Cfg} {st : Sys} {i : Nat} {p : PState} (h : st.procs[i]? = some p) :
    entriesOf i (stepLin cfg st i) = stepOps cfg p st.db := by
  rw [stepLin_some h]
  simp [entriesOf, List.filter_map, Function.comp_def]

theorem entriesOf_stepLin_ne {cfg : Cfg} {st : Sys} {i j : Nat} (hij : i ≠ j) :
    entriesOf j (stepLin cfg st i) = [] := by
  unfold entriesOf
  rw [List.filter_eq_nil_iff.2]
  · rfl
  · intro e he
    rw [stepLin_pid e he]
    simpa using hij

theorem lin_contributes (cfg : Cfg) (sched : List Nat) (st : Sys) (j : Nat) (p : PState)
    (h : st.procs[j]? = some p) : Contributes cfg p (entriesOf j (linOf cfg st sched)) := by
  induction sched generalizing st p with
  | nil => exact contributes_nil cfg p
  | cons i sched ih =>
    rw [linOf_cons, entriesOf_append]
    by_cases hij : i = j
    · subst hij
      rw [entriesOf_stepLin_self h]
      exact contrib_step (ih _ _ (sysStep_procs_self h))
    · rw [entriesOf_stepLin_ne hij, List.nil_append]
      exact ih _ _ (by rw [sysStep_procs_ne hij]; exact h)

/-! ## results -/

/-- one scheduled step contributes nothing, or exactly one entry -/
theorem stepLin_cases (cfg : Cfg) (st : Sys) (i : Nat) :
    (stepLin cfg st i = [] ∧ (sysStep cfg st i).db = st.db) ∨
    (∃ p p' db' op, st.procs[i]? = some p ∧ pstep cfg p st.db = .ok (p', db') ∧ effOp cfg p st.db = some op ∧
      stepLin cfg st i = [⟨i, op, p.ownStep⟩] ∧ (sysStep cfg st i).db = applyOp cfg st.db op ∧
      (sysStep cfg st i).procs[i]? = some p') := by
  cases h : st.procs[i]? with
  | none => exact Or.inl ⟨stepLin_none h, by rw [sysStep_none h]⟩
  | some p =>
    have hdb := sysStep_db_eq_run cfg st i
    rw [stepLin_some h] at hdb ⊢
    cases hp : pstep cfg p st.db with
    | error e => rw [stepOps_error hp] at hdb ⊢; exact Or.inl ⟨rfl, hdb⟩
    | ok x =>
      obtain ⟨p', db'⟩ := x
      rw [stepOps_ok hp] at hdb ⊢
      cases ho : effOp cfg p st.db with
      | none => rw [ho] at hdb; exact Or.inl ⟨rfl, hdb⟩
      | some op =>
        rw [ho] at hdb
        refine Or.inr ⟨p, p', db', op, rfl, hp, ho, rfl, hdb, ?_⟩
        rw [sysStep_procs_self h, pstepT_ok hp]

/-- every own operation of the linearisation returns, when executed sequentially at its position,
    what the request it belongs to returned -/
theorem lin_returns (cfg : Cfg) (sched : List Nat) (st : Sys) (k : Nat) (e : LinOp)
    (hk : (linOf cfg st sched)[k]? = some e) (hown : e.own = true) (r : Result)
    (hfin : (runSched cfg st sched).procs[e.pid]? = some (.finished r)) :
    Returns cfg (run cfg (((linOf cfg st sched).take k).map (·.op)) st.db) e.op r := by
  induction sched generalizing st k with
  | nil => simp [linOf] at hk
  | cons i sched ih =>
    rw [linOf_cons] at hk ⊢
    rw [runSched_cons] at hfin
    rcases stepLin_cases cfg st i with ⟨hnil, hdb⟩ | ⟨p, p', db', op, hpi, hp, ho, hsl, hdb, hpi'⟩
    · rw [hnil, List.nil_append] at hk ⊢
      rw [← hdb]
      exact ih _ k hk hfin
    · rw [hsl] at hk ⊢
      cases k with
      | zero =>
        simp only [List.cons_append, List.nil_append, List.getElem?_cons_zero, Option.some.injEq] at hk
        subst hk
        simp only [List.take_zero, List.map_nil, run, List.foldl_nil]
        rcases step_full hp with ⟨hn, _⟩ | ⟨op', ho', _, hret⟩
        · rw [hn] at ho; cases ho
        · rw [ho] at ho'; injection ho' with ho'; subst ho'
          obtain ⟨r0, hp', hr0⟩ := hret hown
          subst hp'
          have := runSched_finished (cfg := cfg) hpi' sched
          rw [this] at hfin
          injection hfin with hfin; injection hfin with hfin; subst hfin
          exact hr0
      | succ k =>
        simp only [List.cons_append, List.nil_append, List.getElem?_cons_succ] at hk
        simp only [List.cons_append, List.nil_append, List.take_succ_cons, List.map_cons, run, List.foldl_cons]
        have := ih _ k hk hfin
        rw [hdb] at this
        exact this

/-! ## a `get_id` that finished with an id has its own entry -/

/-- one step of a `get_id` continuation: it continues, or finishes with an id through an own `get`
    entry whose sequential execution returns that id, or finishes without an id -/
theorem get_step {cfg : Cfg} {req : Req} {now : Nat} {p p' : PState} {db db' : Db} (hg : IsGet req now p)
    (hp : pstep cfg p db = .ok (p', db')) :
    (IsGet req now p' ∧ ∀ x ∈ stepOps cfg p db, x.2 = false) ∨
    (∃ n out ch', p' = .finished (.got (.id n) out) ∧ stepOps cfg p db = [(.get req now ch', true)] ∧
      req.space.valid = true ∧ req.sub.valid = true ∧
      ∃ out', getId cfg db req now ch' = .ok (db', .id n, out')) ∨
    (∃ r, p' = .finished r ∧ ∀ n out, r ≠ .got (.id n) out) := by
  rw [stepOps_ok hp]
  have hc := pstep_cases hp
  generalize effOp cfg p db = o at hc
  cases hc with
  | invalid hwf => exact Or.inr (Or.inr ⟨_, rfl, fun _ _ h => by cases h⟩)
  | lookupDone hwf hl =>
    obtain ⟨rfl, rfl⟩ := hg
    obtain ⟨hs, hu⟩ := wf_getLookup hwf
    exact Or.inr (Or.inl ⟨_, _, _, rfl, rfl, hs, hu, _, getId_of_done [] [] hl⟩)
  | lookupMiss hwf hmiss henum => exact Or.inl ⟨hg, by simp⟩
  | sampleNil hwf => exact Or.inr (Or.inr ⟨_, rfl, fun _ _ h => by cases h⟩)
  | sampleInserted hwf hmiss hsb hmem hfree hset hleft =>
    obtain ⟨rfl, rfl⟩ := hg
    obtain ⟨hs, hu, henum⟩ := wf_getSample hwf
    exact Or.inr (Or.inl ⟨_, _, _, rfl, rfl, hs, hu, _, getId_of_inserted hmiss henum hsb⟩)
  | sampleFound hwf hne hany =>
    obtain ⟨rfl, rfl⟩ := hg
    obtain ⟨hs, hu, henum⟩ := wf_getSample hwf
    exact Or.inr (Or.inl ⟨_, _, _, rfl, rfl, hs, hu, _, getId_of_found hne hany⟩)
  | sampleExhausted hwf hmiss hsb => exact Or.inr (Or.inr ⟨_, rfl, fun _ _ h => by cases h⟩)
  | sampleNone hwf hmiss hsb => exact Or.inl ⟨hg, by simp⟩
  | cleanupInt hwf hc => exact Or.inl ⟨hg, by simp [PState.ownStep]⟩
  | set hc => cases hg
  | del hc => cases hg
  | cleanup hwf hc => cases hg
  | mark hc => cases hg
  | cleanupUploads hc => cases hg
  | read hp1 hp2 => cases p <;> simp [isRead] at hp1 <;> cases hg

/-- if a `get_id(req)` process finished with id `n`, the linearisation has an own entry
    `get req now ch'` of that process whose sequential execution at that position returns `n` -/
theorem get_finished_entry (cfg : Cfg) (sched : List Nat) (st : Sys) (j : Nat) (p : PState) (req : Req) (now : Nat)
    (hpj : st.procs[j]? = some p) (hg : IsGet req now p) (n : Nat) (out : Outcome)
    (hfin : (runSched cfg st sched).procs[j]? = some (.finished (.got (.id n) out))) :
    ∃ k ch', (linOf cfg st sched)[k]? = some ⟨j, .get req now ch', true⟩ ∧
      req.space.valid = true ∧ req.sub.valid = true ∧
      ∃ out', getId cfg (run cfg (((linOf cfg st sched).take k).map (·.op)) st.db) req now ch' =
        .ok (run cfg (((linOf cfg st sched).take (k + 1)).map (·.op)) st.db, .id n, out') := by
  induction sched generalizing st p with
  | nil =>
    rw [runSched_nil, hpj] at hfin
    injection hfin with hfin; subst hfin; cases hg
  | cons i sched ih =>
    rw [runSched_cons] at hfin
    rw [linOf_cons]
    by_cases hij : i = j
    · subst hij
      cases hp : pstep cfg p st.db with
      | error e =>
        have h1 := sysStep_procs_self (cfg := cfg) hpj
        rw [pstepT_error hp] at h1
        rw [runSched_finished h1] at hfin
        injection hfin with hfin; injection hfin with hfin; cases hfin
      | ok x =>
        obtain ⟨p', db'⟩ := x
        have h1 := sysStep_procs_self (cfg := cfg) hpj
        have h2 := sysStep_db (cfg := cfg) hpj
        rw [pstepT_ok hp] at h1 h2
        have hsl := stepLin_some (cfg := cfg) hpj
        rcases get_step hg hp with ⟨hg', hops⟩ | ⟨n', out', ch', hp', hops, hs, hu, out'', hget⟩ | ⟨r, hp', hr⟩
        · -- continues: the entry is further down
          obtain ⟨k, ch', hk, hs, hu, out', hget⟩ := ih _ _ h1 hg' hfin
          have hdb := sysStep_db_eq_run cfg st i
          refine ⟨(stepLin cfg st i).length + k, ch', ?_, hs, hu, out', ?_⟩
          · rw [List.getElem?_append_right (Nat.le_add_right _ _), Nat.add_sub_cancel_left]; exact hk
          · rw [List.take_append, List.take_of_length_le (Nat.le_add_right _ _), Nat.add_sub_cancel_left,
              List.map_append, run_append, ← hdb]
            rw [show (stepLin cfg st i).length + k + 1 = (stepLin cfg st i).length + (k + 1) by omega,
              List.take_append, List.take_of_length_le (Nat.le_add_right _ _), Nat.add_sub_cancel_left,
              List.map_append, run_append, ← hdb]
            exact hget
        · -- finishes now with id n'
          subst hp'
          rw [runSched_finished h1] at hfin
          injection hfin with hfin; injection hfin with hfin; injection hfin with hfin1 hfin2
          injection hfin1 with hfin1; subst hfin1
          rw [hsl, hops]
          refine ⟨0, ch', by simp, hs, hu, out'', ?_⟩
          simp only [List.map_cons, List.map_nil, List.cons_append, List.nil_append, List.take_zero, run,
            List.foldl_nil, Nat.zero_add, List.take_succ_cons, List.foldl_cons]
          rw [hget]
          simp [applyOp, hs, hu, hget]
        · subst hp'
          rw [runSched_finished h1] at hfin
          injection hfin with hfin; injection hfin with hfin
          exact absurd hfin (hr n out)
    · have h1 : (sysStep cfg st i).procs[j]? = some p := by rw [sysStep_procs_ne hij]; exact hpj
      obtain ⟨k, ch', hk, hs, hu, out', hget⟩ := ih _ _ h1 hg hfin
      have hdb := sysStep_db_eq_run cfg st i
      refine ⟨(stepLin cfg st i).length + k, ch', ?_, hs, hu, out', ?_⟩
      · rw [List.getElem?_append_right (Nat.le_add_right _ _), Nat.add_sub_cancel_left]; exact hk
      · rw [List.take_append, List.take_of_length_le (Nat.le_add_right _ _), Nat.add_sub_cancel_left,
          List.map_append, run_append, ← hdb]
        rw [show (stepLin cfg st i).length + k + 1 = (stepLin cfg st i).length + (k + 1) by omega,
          List.take_append, List.take_of_length_le (Nat.le_add_right _ _), Nat.add_sub_cancel_left,
          List.map_append, run_append, ← hdb]
        exact hget

/-! ## progress -/

/-- a process finishes after at most `remaining` of its own steps, whatever the others do (or do not do) -/
theorem finishes_within (cfg : Cfg) (sched : List Nat) (st : Sys) (j : Nat) (p : PState)
    (hpj : st.procs[j]? = some p) (hcount : p.remaining ≤ sched.count j) :
    ∃ r, (runSched cfg st sched).procs[j]? = some (.finished r) := by
  induction sched generalizing st p with
  | nil =>
    obtain ⟨r, rfl⟩ := remaining_zero (p := p) (by simpa using hcount)
    exact ⟨r, hpj⟩
  | cons i sched ih =>
    rw [runSched_cons]
    by_cases hij : i = j
    · subst hij
      refine ih _ _ (sysStep_procs_self hpj) ?_
      have := remaining_step cfg p st.db
      simp only [List.count_cons_self] at hcount
      omega
    · refine ih _ _ (by rw [sysStep_procs_ne hij]; exact hpj) ?_
      rw [List.count_cons_of_ne hij] at hcount
      exact hcount

/-! ## every write request that returned properly has an own entry -/

theorem write_step {cfg : Cfg} {p p' : PState} {db db' : Db} (hw : isRead p = false)
    (hp : pstep cfg p db = .ok (p', db')) :
    (isRead p' = false ∧ ∀ x ∈ stepOps cfg p db, x.2 = false) ∨
    (∃ r op, p' = .finished r ∧ stepOps cfg p db = [(op, true)]) ∨
    (∃ r, p' = .finished r ∧ r.proper = false) := by
  rw [stepOps_ok hp]
  have hc := pstep_cases hp
  generalize effOp cfg p db = o at hc
  cases hc with
  | invalid hwf => exact Or.inr (Or.inr ⟨_, rfl, rfl⟩)
  | lookupDone hwf hl => exact Or.inr (Or.inl ⟨_, _, rfl, rfl⟩)
  | lookupMiss hwf hmiss henum => exact Or.inl ⟨rfl, by simp⟩
  | sampleNil hwf => exact Or.inr (Or.inr ⟨_, rfl, rfl⟩)
  | sampleInserted hwf hmiss hsb hmem hfree hset hleft => exact Or.inr (Or.inl ⟨_, _, rfl, rfl⟩)
  | sampleFound hwf hne hany => exact Or.inr (Or.inl ⟨_, _, rfl, rfl⟩)
  | sampleExhausted hwf hmiss hsb => exact Or.inr (Or.inr ⟨_, rfl, rfl⟩)
  | sampleNone hwf hmiss hsb => exact Or.inl ⟨rfl, by simp⟩
  | cleanupInt hwf hc => exact Or.inl ⟨rfl, by simp [PState.ownStep]⟩
  | set hc => exact Or.inr (Or.inl ⟨_, _, rfl, rfl⟩)
  | del hc => exact Or.inr (Or.inl ⟨_, _, rfl, rfl⟩)
  | cleanup hwf hc => exact Or.inr (Or.inl ⟨_, _, rfl, rfl⟩)
  | mark hc => exact Or.inr (Or.inl ⟨_, _, rfl, rfl⟩)
  | cleanupUploads hc => exact Or.inr (Or.inl ⟨_, _, rfl, rfl⟩)
  | read hp1 hp2 => rw [hp1] at hw; cases hw

theorem finished_entry (cfg : Cfg) (sched : List Nat) (st : Sys) (j : Nat) (p : PState)
    (hpj : st.procs[j]? = some p) (hw : isRead p = false) (r : Result) (hr : r.proper = true)
    (hfin : (runSched cfg st sched).procs[j]? = some (.finished r)) :
    ∃ (k : Nat) (e : LinOp), (linOf cfg st sched)[k]? = some e ∧ e.pid = j ∧ e.own = true := by
  induction sched generalizing st p with
  | nil =>
    rw [runSched_nil, hpj] at hfin
    injection hfin with hfin; subst hfin; cases hw
  | cons i sched ih =>
    rw [runSched_cons] at hfin
    rw [linOf_cons]
    have shift : (∃ (k : Nat) (e : LinOp), (linOf cfg (sysStep cfg st i) sched)[k]? = some e ∧ e.pid = j ∧ e.own = true) →
        ∃ (k : Nat) (e : LinOp), (stepLin cfg st i ++ linOf cfg (sysStep cfg st i) sched)[k]? = some e ∧ e.pid = j ∧ e.own = true := by
      rintro ⟨k, e, hk, h1, h2⟩
      refine ⟨(stepLin cfg st i).length + k, e, ?_, h1, h2⟩
      rw [List.getElem?_append_right (Nat.le_add_right _ _), Nat.add_sub_cancel_left]; exact hk
    by_cases hij : i = j
    · subst hij
      have h1 := sysStep_procs_self (cfg := cfg) hpj
      cases hp : pstep cfg p st.db with
      | error e =>
        rw [pstepT_error hp] at h1
        rw [runSched_finished h1] at hfin
        injection hfin with hfin; injection hfin with hfin; subst hfin; cases hr
      | ok x =>
        obtain ⟨p', db'⟩ := x
        rw [pstepT_ok hp] at h1
        rcases write_step hw hp with ⟨hw', _⟩ | ⟨r0, op, hp', hops⟩ | ⟨r0, hp', hr0⟩
        · exact shift (ih _ _ h1 hw' hfin)
        · rw [stepLin_some hpj, hops]
          exact ⟨0, ⟨i, op, true⟩, by simp, rfl, rfl⟩
        · subst hp'
          rw [runSched_finished h1] at hfin
          injection hfin with hfin; injection hfin with hfin; subst hfin
          rw [hr0] at hr; cases hr
    · exact shift (ih _ _ (by rw [sysStep_procs_ne hij]; exact hpj) hw hfin)

/-! ## which operation a step amounts to -/

/-- the operation of a block is the request's own operation, or the next of its planned clean-ups -/
theorem effOp_kind {cfg : Cfg} {p : PState} {db : Db} {op : Op} (h : effOp cfg p db = some op) :
    (p.ownStep = true ∧ p.OwnOp op) ∨ (p.ownStep = false ∧ (p.plannedCleanups cfg).head? = some op) := by
  cases hwf : p.wf cfg with
  | false => rw [effOp_not_wf db hwf] at h; cases h
  | true =>
    rw [effOp_wf db hwf] at h
    cases p with
    | getLookup req now ch =>
      simp only [effOpCore] at h
      split at h
      · injection h with h; exact Or.inl ⟨rfl, _, h.symm⟩
      · cases h
    | getSample req now pick fs ss rs acc =>
      cases fs with
      | nil => simp [effOpCore] at h
      | cons f fs =>
        simp only [effOpCore] at h
        split at h
        · injection h with h; exact Or.inl ⟨rfl, _, h.symm⟩
        · injection h with h; exact Or.inl ⟨rfl, _, h.symm⟩
        · cases h
    | getCleanup req now pick pq fs ss rs acc =>
      simp only [effOpCore] at h
      injection h with h
      subst h
      exact Or.inr ⟨rfl, rfl⟩
    | set id d now => simp only [effOpCore] at h; injection h with h; exact Or.inl ⟨rfl, h.symm⟩
    | del id => simp only [effOpCore] at h; injection h with h; exact Or.inl ⟨rfl, h.symm⟩
    | cleanup s u m removed => simp only [effOpCore] at h; injection h with h; exact Or.inl ⟨rfl, h.symm⟩
    | mark id term size time => simp only [effOpCore] at h; injection h with h; exact Or.inl ⟨rfl, h.symm⟩
    | cleanupUploads n kept => simp only [effOpCore] at h; injection h with h; exact Or.inl ⟨rfl, h.symm⟩
    | _ => simp [effOpCore] at h

/-! ## single-block requests take effect / read at one point of the schedule -/

/-- a request that is one block finishes at its first scheduled step, with the result of that block on
    the database of that moment -/
theorem single_block_result {cfg : Cfg} {p : PState} (hsingle : ∀ db, ∃ r, (pstepT cfg p db).1 = .finished r)
    (hnf : p.isFinished = false) (sched : List Nat) (st : Sys) (j : Nat) (hpj : st.procs[j]? = some p) (r : Result)
    (hfin : (runSched cfg st sched).procs[j]? = some (.finished r)) :
    ∃ a b, sched = a ++ j :: b ∧ (pstepT cfg p (runSched cfg st a).db).1 = .finished r := by
  induction sched generalizing st with
  | nil =>
    rw [runSched_nil, hpj] at hfin
    injection hfin with hfin; subst hfin; cases hnf
  | cons i sched ih =>
    rw [runSched_cons] at hfin
    by_cases hij : i = j
    · subst hij
      obtain ⟨r0, hr0⟩ := hsingle st.db
      have h1 := sysStep_procs_self (cfg := cfg) hpj
      rw [hr0] at h1
      rw [runSched_finished h1] at hfin
      injection hfin with hfin; injection hfin with hfin; subst hfin
      exact ⟨[], sched, rfl, hr0⟩
    · obtain ⟨a, b, hab, hr⟩ := ih _ (by rw [sysStep_procs_ne hij]; exact hpj) hfin
      exact ⟨i :: a, b, by rw [hab]; rfl, hr⟩

/-- the database after a schedule prefix is a database of the sequential run of the whole linearisation -/
theorem runSched_prefix_dbAt (cfg : Cfg) (st : Sys) (a b : List Nat) :
    (runSched cfg st a).db = dbAt cfg st.db (linOf cfg st (a ++ b)) (linOf cfg st a).length := by
  rw [runSched_db_eq_run, linOf_append]
  unfold dbAt
  rw [List.take_left']
  rfl

/-- a read request that is one block returns the answer `ans` of that block on one database of the
    sequential run: the one reached when the request is first scheduled -/
theorem single_read_at {cfg : Cfg} {p : PState} (ans : Db → Result)
    (hstep : ∀ db, (pstepT cfg p db).1 = .finished (ans db)) (hnf : p.isFinished = false)
    (sched : List Nat) (st : Sys) (j : Nat) (hpj : st.procs[j]? = some p) (r : Result)
    (hfin : (runSched cfg st sched).procs[j]? = some (.finished r)) :
    ∃ a b, sched = a ++ j :: b ∧ r = ans (dbAt cfg st.db (linOf cfg st sched) (linOf cfg st a).length) := by
  obtain ⟨a, b, hab, hr⟩ := single_block_result (fun db => ⟨_, hstep db⟩) hnf sched st j hpj r hfin
  rw [hstep] at hr
  injection hr with hr
  refine ⟨a, b, hab, ?_⟩
  rw [← hr, runSched_prefix_dbAt cfg st a (j :: b), ← hab]

end Tup.TxnLemmas
