import Tup.Model.IdSpace
import Tup.Spec.Layout
/-!
  Helper lemmas for C10 (ID layout): mask/shift ↔ div/mod bridging, `|||` ↔ `+` on disjoint
  bit ranges, per-space characterisations of the specification, list helpers.
  Core Lean only (no Mathlib).
-/
namespace Tup.IdLemmas
open Tup

/-! ## masks and shifts as div/mod -/

theorem and_mask_shift (x k n : Nat) :
    x &&& ((2 ^ n - 1) <<< k) = x / 2 ^ k % 2 ^ n * 2 ^ k := by
  have h1 : (x &&& ((2 ^ n - 1) <<< k)) / 2 ^ k = x / 2 ^ k % 2 ^ n := by
    rw [Nat.and_div_two_pow, Nat.shiftLeft_eq, Nat.mul_div_cancel _ (Nat.two_pow_pos k),
      Nat.and_two_pow_sub_one_eq_mod]
  have h2 : (x &&& ((2 ^ n - 1) <<< k)) % 2 ^ k = 0 := by
    rw [Nat.and_mod_two_pow, Nat.shiftLeft_eq, Nat.mul_mod_left, Nat.and_zero]
  have := Nat.div_add_mod (x &&& ((2 ^ n - 1) <<< k)) (2 ^ k)
  rw [h1, h2] at this
  rw [← this]; simp [Nat.mul_comm]

theorem and_FF000000 (x : Nat) : x &&& 0xFF000000 = x / 16777216 % 256 * 16777216 :=
  and_mask_shift x 24 8
theorem and_00FFFF00 (x : Nat) : x &&& 0x00FFFF00 = x / 256 % 65536 * 256 :=
  and_mask_shift x 8 16
theorem and_00FFFFFF (x : Nat) : x &&& 0x00FFFFFF = x % 16777216 :=
  Nat.and_two_pow_sub_one_eq_mod x 24
theorem and_00FF0000 (x : Nat) : x &&& 0x00FF0000 = x / 65536 % 256 * 65536 :=
  and_mask_shift x 16 8
theorem and_FF (x : Nat) : x &&& 0xFF = x % 256 :=
  Nat.and_two_pow_sub_one_eq_mod x 8

theorem shr_and_FF (x k : Nat) : (x >>> k) &&& 0xFF = x / 2 ^ k % 256 := by
  rw [Nat.shiftRight_eq_div_pow, and_FF]

/-! ## `|||` on disjoint bit ranges is `+` -/

theorem or2 (b2 b1 : Nat) (h1 : b1 < 256) : (b2 <<< 8) ||| b1 = b2 * 256 + b1 := by
  rw [← Nat.shiftLeft_add_eq_or_of_lt (i := 8) (by simpa using h1), Nat.shiftLeft_eq]

theorem or3 (b3 b12 b0 : Nat) (h12 : b12 < 65536) (h0 : b0 < 256) :
    (b3 <<< 24) ||| (b12 <<< 8) ||| b0 = b3 * 16777216 + b12 * 256 + b0 := by
  rw [Nat.or_assoc, or2 b12 b0 h0,
    ← Nat.shiftLeft_add_eq_or_of_lt (i := 24) (by simp; omega), Nat.shiftLeft_eq]
  omega

theorem or4 (b3 b2 b1 b0 : Nat) (h2 : b2 < 256) (h1 : b1 < 256) (h0 : b0 < 256) :
    (b3 <<< 24) ||| (b2 <<< 16) ||| (b1 <<< 8) ||| b0
      = b3 * 16777216 + b2 * 65536 + b1 * 256 + b0 := by
  rw [Nat.or_assoc, Nat.or_assoc, or2 b1 b0 h0,
    ← Nat.shiftLeft_add_eq_or_of_lt (i := 16) (by simp; omega),
    ← Nat.shiftLeft_add_eq_or_of_lt (i := 24) (by simp [Nat.shiftLeft_eq]; omega),
    Nat.shiftLeft_eq, Nat.shiftLeft_eq]
  omega

theorem valid_iff_mem_all (s : Space) : s.valid = true ↔ s ∈ Space.all := by
  rcases s with ⟨cb, u3⟩
  cases u3 <;> simp [Space.valid, Space.all] <;> omega

theorem mem_all_cases {s : Space} (h : s ∈ Space.all) :
    s = ⟨0, true⟩ ∨ s = ⟨8, true⟩ ∨ s = ⟨24, true⟩ ∨ s = ⟨8, false⟩ ∨ s = ⟨24, false⟩ := by
  simpa [Space.all] using h

/-- All the quotients/remainders that occur, in terms of the chain `id/256`, `id/256/256`, … so that
    `omega` can relate them. -/
theorem chain (id : Nat) :
    id / 65536 = id / 256 / 256 ∧ id / 16777216 = id / 256 / 256 / 256 ∧
    id / 256 % 65536 = id / 256 / 256 % 256 * 256 + id / 256 % 256 ∧
    id % 16777216 = id / 256 / 256 % 256 * 65536 + id / 256 % 256 * 256 + id % 256 ∧
    id % 65536 = id / 256 % 256 * 256 + id % 256 := by
  have h1 : id / 65536 = id / 256 / 256 := by rw [Nat.div_div_eq_div_mul]
  have h2 : id / 16777216 = id / 256 / 256 / 256 := by
    rw [Nat.div_div_eq_div_mul, Nat.div_div_eq_div_mul]
  refine ⟨h1, h2, ?_, ?_, ?_⟩ <;> omega

/-! ## the specification, space by space, in `omega`-friendly form -/

@[simp] theorem byteOf0 (id : Nat) : Spec.byteOf 0 id = id % 256 := by simp [Spec.byteOf]
@[simp] theorem byteOf1 (id : Nat) : Spec.byteOf 1 id = id / 256 % 256 := by simp [Spec.byteOf]
@[simp] theorem byteOf2 (id : Nat) : Spec.byteOf 2 id = id / 65536 % 256 := by simp [Spec.byteOf]
@[simp] theorem byteOf3 (id : Nat) : Spec.byteOf 3 id = id / 16777216 % 256 := by simp [Spec.byteOf]

theorem inSpace_0t (id : Nat) : Spec.inSpace ⟨0, true⟩ id = true ↔
    0 < id ∧ id < 4294967296 ∧ id / 16777216 % 256 ≠ 0 ∧ id % 16777216 = 0 := by
  simp [Spec.inSpace, and_assoc]
theorem inSpace_8t (id : Nat) : Spec.inSpace ⟨8, true⟩ id = true ↔
    0 < id ∧ id < 4294967296 ∧ id / 16777216 % 256 ≠ 0 ∧
      id % 256 ≠ 0 ∧ id / 256 % 256 = 0 ∧ id / 65536 % 256 = 0 := by
  simp [Spec.inSpace, and_assoc]
theorem inSpace_24t (id : Nat) : Spec.inSpace ⟨24, true⟩ id = true ↔
    0 < id ∧ id < 4294967296 ∧ id / 16777216 % 256 ≠ 0 ∧
      (id / 256 % 256 ≠ 0 ∨ id / 65536 % 256 ≠ 0) := by
  simp [Spec.inSpace, and_assoc]
theorem inSpace_8f (id : Nat) : Spec.inSpace ⟨8, false⟩ id = true ↔
    0 < id ∧ id < 4294967296 ∧ id / 16777216 % 256 = 0 ∧
      id % 256 ≠ 0 ∧ id / 256 % 256 = 0 ∧ id / 65536 % 256 = 0 := by
  simp [Spec.inSpace, and_assoc]
theorem inSpace_24f (id : Nat) : Spec.inSpace ⟨24, false⟩ id = true ↔
    0 < id ∧ id < 4294967296 ∧ id / 16777216 % 256 = 0 ∧
      (id / 256 % 256 ≠ 0 ∨ id / 65536 % 256 ≠ 0) := by
  simp [Spec.inSpace, and_assoc]

theorem inSpace_valid {s : Space} {id : Nat} (h : Spec.inSpace s id = true) : s ∈ Space.all := by
  rcases s with ⟨cb, u3⟩
  simp only [Spec.inSpace] at h
  simp [Space.all]
  split at h
  · subst_vars; cases u3 <;> simp at h ⊢; omega
  · split at h
    · subst_vars; simp
    · split at h
      · subst_vars; simp
      · simp at h

theorem member_iff (s : Space) (u : Sub) (id : Nat) : Spec.member s u id = true ↔
    Spec.inSpace s id = true ∧ u.b ≤ Spec.subByte s id ∧ Spec.subByte s id < u.e := by
  simp [Spec.member, and_assoc]

@[simp] theorem subByte_t (cb id : Nat) : Spec.subByte ⟨cb, true⟩ id = id / 16777216 % 256 := by
  simp [Spec.subByte]
@[simp] theorem subByte_24f (id : Nat) : Spec.subByte ⟨24, false⟩ id = id / 65536 % 256 := by
  simp [Spec.subByte]
@[simp] theorem subByte_8f (id : Nat) : Spec.subByte ⟨8, false⟩ id = id % 256 := by
  simp [Spec.subByte]

/-! ## `fromId` -/

theorem fromId_none_iff (id : Nat) : fromId id = none ↔ id = 0 ∨ id ≥ 2 ^ 32 := by
  unfold fromId
  split <;> simp <;> omega

theorem fromId_cases (id : Nat) (h0 : 0 < id) (h1 : id < 4294967296) :
    fromId id = some ⟨if id % 16777216 = 0 then 0 else (if id / 256 % 65536 = 0 then 8 else 24),
                      !decide (id / 16777216 % 256 = 0)⟩ := by
  unfold fromId
  rw [if_neg (by omega)]
  simp only [and_FF000000, and_00FFFF00, and_00FFFFFF]
  by_cases a : id % 16777216 = 0 <;> by_cases b : id / 256 % 65536 = 0 <;>
    by_cases c : id / 16777216 % 256 = 0 <;> simp [a, b, c] <;> omega

theorem fromId_iff_inSpace {s : Space} (hs : s ∈ Space.all) (id : Nat) :
    fromId id = some s ↔ Spec.inSpace s id = true := by
  by_cases h : 0 < id ∧ id < 4294967296
  · rw [fromId_cases id h.1 h.2]
    have := chain id
    rcases mem_all_cases hs with rfl | rfl | rfl | rfl | rfl
    · rw [inSpace_0t]; split <;> (try split) <;> simp <;> omega
    · rw [inSpace_8t]; split <;> (try split) <;> simp <;> omega
    · rw [inSpace_24t]; split <;> (try split) <;> simp <;> omega
    · rw [inSpace_8f]; split <;> (try split) <;> simp <;> omega
    · rw [inSpace_24f]; split <;> (try split) <;> simp <;> omega
  · have : fromId id = none := (fromId_none_iff id).2 (by omega)
    rw [this]
    have : ¬ Spec.inSpace s id = true := by
      intro hh; simp [Spec.inSpace] at hh; omega
    simp [this]

/-- (L1)+(L2): `from_id` returns `s` exactly when `s` is a valid space and the layout
    specification puts `id` in `s`. -/
theorem fromId_spec (id : Nat) (s : Space) :
    fromId id = some s ↔ (s.valid = true ∧ Spec.inSpace s id = true) := by
  constructor
  · intro h
    have hs : s ∈ Space.all := by
      have h0 : 0 < id ∧ id < 4294967296 := by
        have : fromId id ≠ none := by simp [h]
        rw [Ne, fromId_none_iff] at this; omega
      rw [fromId_cases id h0.1 h0.2] at h
      have hc := chain id
      simp only [Option.some.injEq] at h
      subst h
      simp only [Space.all]
      split <;> (try split) <;> by_cases c : id / 16777216 % 256 = 0 <;> simp [c] <;> omega
    exact ⟨(valid_iff_mem_all s).2 hs, (fromId_iff_inSpace hs id).1 h⟩
  · rintro ⟨hv, hi⟩
    exact (fromId_iff_inSpace ((valid_iff_mem_all s).1 hv) id).2 hi

theorem fromId_mem_all {id : Nat} {s : Space} (h : fromId id = some s) : s ∈ Space.all :=
  (valid_iff_mem_all s).1 ((fromId_spec id s).1 h).1

theorem fromId_isSome {id : Nat} (h0 : 0 < id) (h1 : id < 4294967296) : ∃ s, fromId id = some s :=
  ⟨_, fromId_cases id h0 h1⟩

theorem exists_unique_space (id : Nat) (h0 : 0 < id) (h1 : id < 2 ^ 32) :
    ∃ s, (s ∈ Space.all ∧ Spec.inSpace s id = true) ∧
      ∀ t, (t ∈ Space.all ∧ Spec.inSpace t id = true) → t = s := by
  obtain ⟨s, hs⟩ := fromId_isSome h0 (by simpa using h1)
  refine ⟨s, ⟨fromId_mem_all hs, (fromId_iff_inSpace (fromId_mem_all hs) id).1 hs⟩, ?_⟩
  rintro t ⟨ht, hti⟩
  have := (fromId_iff_inSpace ht id).2 hti
  rw [hs] at this
  exact (Option.some.inj this).symm

/-! ## byte offset, mask, masked range per space -/

theorem and_byteMask_t (cb id : Nat) :
    id &&& (Space.mk cb true).byteMask = id / 16777216 % 256 * 16777216 :=
  and_mask_shift id 24 8
theorem and_byteMask_24f (id : Nat) :
    id &&& (Space.mk 24 false).byteMask = id / 65536 % 256 * 65536 :=
  and_mask_shift id 16 8
theorem and_byteMask_8f (id : Nat) :
    id &&& (Space.mk 8 false).byteMask = id % 256 := by
  have := and_mask_shift id 0 8
  simpa [Space.byteMask, Space.byteOffset] using this

/-- the masked value is the subspace byte moved to its offset -/
theorem and_byteMask {s : Space} (hs : s ∈ Space.all) (id : Nat) :
    id &&& s.byteMask = Spec.subByte s id * 2 ^ s.byteOffset := by
  rcases mem_all_cases hs with rfl | rfl | rfl | rfl | rfl
  · rw [and_byteMask_t]; simp [Space.byteOffset]
  · rw [and_byteMask_t]; simp [Space.byteOffset]
  · rw [and_byteMask_t]; simp [Space.byteOffset]
  · rw [and_byteMask_8f]; simp [Space.byteOffset]
  · rw [and_byteMask_24f]; simp [Space.byteOffset]

theorem maskedRange_eq (s : Space) (u : Sub) :
    s.maskedRange u = (u.b * 2 ^ s.byteOffset, u.e * 2 ^ s.byteOffset) := by
  simp [Space.maskedRange, Nat.shiftLeft_eq]

/-- `get_subspace_byte` computes the specification's subspace byte of the id's own space. -/
theorem subspaceByte_spec (id : Nat) :
    subspaceByte id = (fromId id).map (fun s => Spec.subByte s id) := by
  unfold subspaceByte
  cases h : fromId id with
  | none => rfl
  | some s =>
    simp only [Option.map_some, Option.some.injEq]
    rw [shr_and_FF]
    rcases mem_all_cases (fromId_mem_all h) with rfl | rfl | rfl | rfl | rfl <;>
      simp [Space.byteOffset]

/-- (L5) `contains_and_in_subspace` decides the specification's membership. -/
theorem containsInSub_iff_member {s : Space} (hs : s ∈ Space.all) (u : Sub) (id : Nat)
    (h0 : 0 < id) (h1 : id < 2 ^ 32) :
    s.containsInSub id u = some (Spec.member s u id) := by
  obtain ⟨t, ht⟩ := fromId_isSome h0 (by simpa using h1)
  have hp : 0 < 2 ^ s.byteOffset := Nat.two_pow_pos _
  simp only [Space.containsInSub, maskedRange_eq, Space.contains, ht, Option.map_some,
    and_byteMask hs, Option.some.injEq]
  rw [Bool.eq_iff_iff, member_iff]
  simp only [Bool.and_eq_true, beq_iff_eq, decide_eq_true_eq, and_assoc]
  rw [Nat.mul_le_mul_right_iff hp, Nat.mul_lt_mul_right hp]
  have : t = s ↔ Spec.inSpace s id = true := by
    rw [← fromId_iff_inSpace hs id, ht]; simp
  rw [this]

theorem sqlFilter_iff {s : Space} (hs : s ∈ Space.all) (u : Sub) (hu : 0 < u.e) (id : Nat) :
    s.sqlFilter u id = true ↔ (u.b ≤ Spec.subByte s id ∧ Spec.subByte s id < u.e) := by
  have hp : 0 < 2 ^ s.byteOffset := Nat.two_pow_pos _
  simp only [Space.sqlFilter, maskedRange_eq, and_byteMask hs, Bool.and_eq_true, decide_eq_true_eq]
  rw [Nat.mul_le_mul_right_iff hp]
  have : Spec.subByte s id * 2 ^ s.byteOffset ≤ u.e * 2 ^ s.byteOffset - 1 ↔
      Spec.subByte s id * 2 ^ s.byteOffset < u.e * 2 ^ s.byteOffset := by
    have : 0 < u.e * 2 ^ s.byteOffset := Nat.mul_pos hu hp
    omega
  rw [this, Nat.mul_lt_mul_right hp]

theorem Sub.valid_iff (u : Sub) : u.valid = true ↔ (u.b < u.e ∧ u.e ≤ 256 ∧ u.e ≠ 1) := by
  simp [Sub.valid, and_assoc]

theorem valid_nnz_pos (u : Sub) (hu : u.valid = true) : 1 ≤ u.numNonzeroByteValues := by
  have hv := (Sub.valid_iff u).1 hu
  unfold Sub.numNonzeroByteValues; split <;> omega

/-- (L4) the SQL range filter selects, among the ids of the space, exactly the subspace. -/
theorem sqlFilter_iff_member {s : Space} {u : Sub} (hu : u.valid = true) {id : Nat}
    (hi : Spec.inSpace s id = true) : s.sqlFilter u id = true ↔ Spec.member s u id = true := by
  rw [sqlFilter_iff (inSpace_valid hi) u (by have := (Sub.valid_iff u).1 hu; omega), member_iff]
  simp [hi]

theorem mkSub_spec (b e : Nat) : mkSub b e = none ↔ ¬ (b < e ∧ e ≤ 256 ∧ e ≠ 1) := by
  unfold mkSub
  rw [← Sub.valid_iff ⟨b, e⟩]
  split <;> simp_all

theorem mkSub_some (b e : Nat) (u : Sub) : mkSub b e = some u ↔ (u = ⟨b, e⟩ ∧ u.valid = true) := by
  unfold mkSub
  split <;> rename_i h
  · constructor
    · intro h'; cases h'; exact ⟨rfl, h⟩
    · rintro ⟨rfl, _⟩; rfl
  · constructor
    · intro h'; cases h'
    · rintro ⟨rfl, h'⟩; exact absurd h' h

theorem disjoint_of_disjoint_ranges (s : Space) (u1 u2 : Sub) (id : Nat)
    (h : u1.e ≤ u2.b ∨ u2.e ≤ u1.b) :
    ¬ (Spec.member s u1 id = true ∧ Spec.member s u2 id = true) := by
  rw [member_iff, member_iff]; omega

theorem disjoint_spaces {s t : Space} (hs : s ∈ Space.all) (ht : t ∈ Space.all) (hne : s ≠ t)
    (id : Nat) : ¬ (Spec.inSpace s id = true ∧ Spec.inSpace t id = true) := by
  rintro ⟨h1, h2⟩
  have a := (fromId_iff_inSpace hs id).2 h1
  have b := (fromId_iff_inSpace ht id).2 h2
  rw [a] at b
  exact hne (Option.some.inj b)

end Tup.IdLemmas
