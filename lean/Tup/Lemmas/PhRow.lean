import Tup.Lemmas.PhLine
/-!
  Reading a written row back, and decoding a whole screen row that contains one placeholder line
  between non-placeholder cells.
-/
namespace Tup.Ph
open Tup Tup.Spec

theorem writeRow_read (cs : List Cell) (t : Term) (y x : Nat) :
    (List.range cs.length).map (fun j => (writeRow t y x cs).cells y (x + j)) = cs := by
  apply List.ext_getElem
  · simp
  · intro i h1 h2
    simp only [List.getElem_map, List.getElem_range, writeRow_cells]
    have : y = y ∧ x ≤ x + i ∧ x + i < x + cs.length := by simp at h1; omega
    simp [this, h2]

theorem writeRow_frame (cs : List Cell) (t : Term) (y x y' x' : Nat) (h : ¬ (y' = y ∧ x ≤ x' ∧ x' < x + cs.length)) :
    (writeRow t y x cs).cells y' x' = t.cells y' x' := by
  rw [writeRow_cells]; simp [h]

theorem decodeCell_nonph (prev : Option Prev) (c : Cell) (h : c.ch ≠ placeholderChar) : decodeCell prev c = none := by
  simp [decodeCell, h]

theorem decodeRow_nonph (cs : List Cell) : ∀ prev, (∀ c ∈ cs, c.ch ≠ placeholderChar) →
    decodeRow prev cs = List.replicate cs.length none := by
  induction cs with
  | nil => intro _ _; rfl
  | cons c r ih =>
    intro prev h
    simp only [decodeRow, decodeCell_nonph prev c (h c (by simp)), List.length_cons, List.replicate_succ]
    rw [ih none (fun c' hc' => h c' (by simp [hc']))]

theorem decodeRow_nonph_append (cs rest : List Cell) : (∀ c ∈ cs, c.ch ≠ placeholderChar) →
    decodeRow none (cs ++ rest) = List.replicate cs.length none ++ decodeRow none rest := by
  induction cs with
  | nil => intro _; rfl
  | cons c r ih =>
    intro h
    simp only [List.cons_append, decodeRow, decodeCell_nonph none c (h c (by simp)), List.length_cons, List.replicate_succ]
    rw [ih (fun c' hc' => h c' (by simp [hc']))]

theorem decodeRow_append_nonph (a b : List Cell) (hb : ∀ c ∈ b, c.ch ≠ placeholderChar) : ∀ prev,
    decodeRow prev (a ++ b) = decodeRow prev a ++ List.replicate b.length none := by
  induction a with
  | nil => intro prev; simpa [decodeRow] using decodeRow_nonph b prev hb
  | cons c r ih =>
    intro prev
    simp only [List.cons_append, decodeRow]
    cases decodeCell prev c with
    | none => simp [ih]
    | some x => simp [ih]

/-- a screen row split at the rectangle: left part, `n` columns from `x`, right part -/
theorem row_split (t : Term) (y x n : Nat) (h : x + n ≤ t.w) :
    t.row y = (List.range x).map (fun j => t.cells y j) ++ (List.range n).map (fun j => t.cells y (x + j)) ++
      (List.range (t.w - (x + n))).map (fun j => t.cells y (x + n + j)) := by
  unfold Term.row
  apply List.ext_getElem
  · simp; omega
  · intro i h1 h2
    simp only [List.getElem_map, List.getElem_range]
    by_cases hi : i < x
    · rw [List.getElem_append_left (by simp; omega), List.getElem_append_left (by simp; omega)]
      simp
    · by_cases hi2 : i < x + n
      · rw [List.getElem_append_left (by simp; omega), List.getElem_append_right (by simp; omega)]
        simp
        congr 1; omega
      · rw [List.getElem_append_right (by simp; omega)]
        simp
        congr 1; omega

end Tup.Ph
