import Mathlib.Tactic.Linarith
import Mathlib.Tactic.Ring
import Tup.Model.CellSize
import Tup.Spec.CellSize
/-!
  Helper lemmas for C15 (exact arithmetic).  `ceilN a b = ⌈a/b⌉`; the monadic `sizeCore` is
  rewritten into a pure function under the positivity hypotheses, and the shape of its result is
  characterised: either both dimensions are the ceilings of the scaled size (`auto`), or the rows
  are derived from the final columns (`colsDriven`), or the columns from the final rows
  (`rowsDriven`).
-/
namespace Tup.CellSize

def ceilN (a b : Nat) : Nat := (a + b - 1) / b

theorem ceilDiv_pos {a b : Nat} (hb : 0 < b) : ceilDiv a b = .ok (ceilN a b) := by
  unfold ceilDiv ceilN; simp [Nat.pos_iff_ne_zero.mp hb]

/-- `k = ⌈a/b⌉` for `a, b > 0`, in multiplicative form. -/
structure IsCeil (a b k : Nat) : Prop where
  one_le : 1 ≤ k
  lower : (k - 1) * b < a
  upper : a ≤ k * b

theorem ceilN_spec {a b : Nat} (ha : 0 < a) (hb : 0 < b) : IsCeil a b (ceilN a b) := by
  unfold ceilN
  have h1 := Nat.div_add_mod (a + b - 1) b
  have h2 := Nat.mod_lt (a + b - 1) hb
  have hk1 : 1 ≤ (a + b - 1) / b := (Nat.le_div_iff_mul_le hb).mpr (by omega)
  generalize (a + b - 1) / b = k at h1 hk1 ⊢
  refine ⟨hk1, ?_, ?_⟩
  · obtain ⟨j, rfl⟩ : ∃ j, k = j + 1 := ⟨k - 1, by omega⟩
    simp only [Nat.add_sub_cancel]
    have : b * (j + 1) = j * b + b := by ring
    omega
  · have : b * k = k * b := by ring
    omega

theorem IsCeil.unique {a b k k' : Nat} (h : IsCeil a b k) (h' : IsCeil a b k') : k = k' := by
  obtain ⟨j, rfl⟩ : ∃ j, k = j + 1 := ⟨k - 1, by have := h.one_le; omega⟩
  obtain ⟨j', rfl⟩ : ∃ j, k' = j + 1 := ⟨k' - 1, by have := h'.one_le; omega⟩
  have h1 := h.lower; have h2 := h.upper; have h3 := h'.lower; have h4 := h'.upper
  simp only [Nat.add_sub_cancel] at h1 h3
  by_contra hne
  rcases Nat.lt_or_gt_of_ne (by omega : j ≠ j') with hlt | hlt
  · have : (j + 1) * b ≤ j' * b := Nat.mul_le_mul_right b hlt
    omega
  · have : (j' + 1) * b ≤ j * b := Nat.mul_le_mul_right b hlt
    omega

/-- `⌈a/b⌉ ≤ m` iff `a ≤ m·b`. -/
theorem ceilN_le_iff {a b m : Nat} (ha : 0 < a) (hb : 0 < b) : ceilN a b ≤ m ↔ a ≤ m * b := by
  have h := ceilN_spec ha hb
  obtain ⟨j, hj⟩ : ∃ j, ceilN a b = j + 1 := ⟨ceilN a b - 1, by have := h.one_le; omega⟩
  have h1 := h.lower; have h2 := h.upper
  rw [hj] at h1 h2 ⊢
  simp only [Nat.add_sub_cancel] at h1
  constructor
  · intro hm
    have : (j + 1) * b ≤ m * b := Nat.mul_le_mul_right b hm
    omega
  · intro hm
    by_contra hc
    have : m * b ≤ j * b := Nat.mul_le_mul_right b (by omega)
    omega

/-- Positivity of everything the arithmetic divides by or scales with. -/
structure Geo.Pos (g : Geo) : Prop where
  wn : 0 < g.wn
  hn : 0 < g.hn
  sd : 0 < g.sd
  cw : 0 < g.cw
  ch : 0 < g.ch

/-- `sizeCore` without the error monad. -/
def pureCore (g : Geo) (cols? rows? : Option Nat) (maxC maxR : Nat) : Nat × Nat :=
  let cols? := cols?.map (min · maxC)
  let rows? := rows?.map (min · maxR)
  let p : Nat × Nat :=
    match cols?, rows? with
    | none, none => (ceilN g.wn (g.sd * g.cw), ceilN g.hn (g.sd * g.ch))
    | none, some r => (ceilN (r * g.ch * g.wn) (g.hn * g.cw), r)
    | some c, none => (c, ceilN (c * g.cw * g.hn) (g.wn * g.ch))
    | some c, some r => (c, r)
  let p : Nat × Nat := if cols?.isNone && decide (p.1 > maxC) then (maxC, ceilN (maxC * g.cw * g.hn) (g.wn * g.ch)) else p
  let p : Nat × Nat := if rows?.isNone && decide (p.2 > maxR) then (ceilN (maxR * g.ch * g.wn) (g.hn * g.cw), maxR) else p
  (max 1 (min p.1 maxC), max 1 (min p.2 maxR))

theorem sizeCore_eq_pure {g : Geo} (hg : g.Pos) (cols? rows? : Option Nat) (maxC maxR : Nat) :
    sizeCore true g cols? rows? maxC maxR = .ok (pureCore g cols? rows? maxC maxR) := by
  have h1 : 0 < g.sd * g.cw := Nat.mul_pos hg.sd hg.cw
  have h2 : 0 < g.sd * g.ch := Nat.mul_pos hg.sd hg.ch
  have h3 : 0 < g.hn * g.cw := Nat.mul_pos hg.hn hg.cw
  have h4 : 0 < g.wn * g.ch := Nat.mul_pos hg.wn hg.ch
  unfold sizeCore pureCore Geo.colsOfWidth Geo.rowsOfHeight Geo.colsFromRows Geo.rowsFromCols
  simp only [ceilDiv_pos h1, ceilDiv_pos h2, ceilDiv_pos h3, ceilDiv_pos h4, if_true]
  cases cols? <;> cases rows? <;>
    simp only [Option.map_none, Option.map_some, Option.isNone_none, Option.isNone_some, Bool.true_and, Bool.false_and,
      bind, Except.bind, pure, Except.pure] <;>
    (repeat' split) <;> simp_all
