import Mathlib.Tactic.Linarith
import Mathlib.Tactic.Ring
import Tup.Model.CellSize
import Tup.Spec.CellSize
/-!
  Helper lemmas for C15 (exact arithmetic).  `ceilN a b = ⌈a/b⌉`; the monadic `sizeCore` is
  rewritten into a pure function under the positivity hypotheses, and the shape of its result is
  characterised: either both dimensions are the ceilings of the scaled size (`auto`), or the rows
  are derived from the final columns (`colsDriven`), or the columns from the final rows
  (`rowsDriven`).
-/
namespace Tup.CellSize

def ceilN (a b : Nat) : Nat := (a + b - 1) / b

theorem ceilDiv_pos {a b : Nat} (hb : 0 < b) : ceilDiv a b = .ok (ceilN a b) := by
  unfold ceilDiv ceilN; simp [Nat.pos_iff_ne_zero.mp hb]

/-- `k = ⌈a/b⌉` for `a, b > 0`, in multiplicative form. -/
structure IsCeil (a b k : Nat) : Prop where
  one_le : 1 ≤ k
  lower : (k - 1) * b < a
  upper : a ≤ k * b

theorem ceilN_spec {a b : Nat} (ha : 0 < a) (hb : 0 < b) : IsCeil a b (ceilN a b) := by
  unfold ceilN
  have h1 := Nat.div_add_mod (a + b - 1) b
  have h2 := Nat.mod_lt (a + b - 1) hb
  have hk1 : 1 ≤ (a + b - 1) / b := (Nat.le_div_iff_mul_le hb).mpr (by omega)
  generalize (a + b - 1) / b = k at h1 hk1 ⊢
  refine ⟨hk1, ?_, ?_⟩
  · obtain ⟨j, rfl⟩ : ∃ j, k = j + 1 := ⟨k - 1, by omega⟩
    simp only [Nat.add_sub_cancel]
    have : b * (j + 1) = j * b + b := by ring
    omega
  · have : b * k = k * b := by ring
    omega

theorem IsCeil.unique {a b k k' : Nat} (h : IsCeil a b k) (h' : IsCeil a b k') : k = k' := by
  obtain ⟨j, rfl⟩ : ∃ j, k = j + 1 := ⟨k - 1, by have := h.one_le; omega⟩
  obtain ⟨j', rfl⟩ : ∃ j, k' = j + 1 := ⟨k' - 1, by have := h'.one_le; omega⟩
  have h1 := h.lower; have h2 := h.upper; have h3 := h'.lower; have h4 := h'.upper
  simp only [Nat.add_sub_cancel] at h1 h3
  by_contra hne
  rcases Nat.lt_or_gt_of_ne (by omega : j ≠ j') with hlt | hlt
  · have : (j + 1) * b ≤ j' * b := Nat.mul_le_mul_right b hlt
    omega
  · have : (j' + 1) * b ≤ j * b := Nat.mul_le_mul_right b hlt
    omega

/-- `⌈a/b⌉ ≤ m` iff `a ≤ m·b`. -/
theorem ceilN_le_iff {a b m : Nat} (ha : 0 < a) (hb : 0 < b) : ceilN a b ≤ m ↔ a ≤ m * b := by
  have h := ceilN_spec ha hb
  obtain ⟨j, hj⟩ : ∃ j, ceilN a b = j + 1 := ⟨ceilN a b - 1, by have := h.one_le; omega⟩
  have h1 := h.lower; have h2 := h.upper
  rw [hj] at h1 h2 ⊢
  simp only [Nat.add_sub_cancel] at h1
  constructor
  · intro hm
    have : (j + 1) * b ≤ m * b := Nat.mul_le_mul_right b hm
    omega
  · intro hm
    by_contra hc
    have : m * b ≤ j * b := Nat.mul_le_mul_right b (by omega)
    omega

/-- Positivity of everything the arithmetic divides by or scales with. -/
structure Geo.Pos (g : Geo) : Prop where
  wn : 0 < g.wn
  hn : 0 < g.hn
  sd : 0 < g.sd
  cw : 0 < g.cw
  ch : 0 < g.ch

/-- `sizeCore` without the error monad. -/
def pureCore (g : Geo) (cols? rows? : Option Nat) (maxC maxR : Nat) : Nat × Nat :=
  let cols? := cols?.map (min · maxC)
  let rows? := rows?.map (min · maxR)
  let p : Nat × Nat :=
    match cols?, rows? with
    | none, none => (ceilN g.wn (g.sd * g.cw), ceilN g.hn (g.sd * g.ch))
    | none, some r => (ceilN (r * g.ch * g.wn) (g.hn * g.cw), r)
    | some c, none => (c, ceilN (c * g.cw * g.hn) (g.wn * g.ch))
    | some c, some r => (c, r)
  let p : Nat × Nat := if cols?.isNone && decide (p.1 > maxC) then (maxC, ceilN (maxC * g.cw * g.hn) (g.wn * g.ch)) else p
  let p : Nat × Nat := if rows?.isNone && decide (p.2 > maxR) then (ceilN (maxR * g.ch * g.wn) (g.hn * g.cw), maxR) else p
  (max 1 (min p.1 maxC), max 1 (min p.2 maxR))

theorem sizeCore_eq_pure {g : Geo} (hg : g.Pos) (cols? rows? : Option Nat) (maxC maxR : Nat) :
    sizeCore true g cols? rows? maxC maxR = .ok (pureCore g cols? rows? maxC maxR) := by
  have h1 : 0 < g.sd * g.cw := Nat.mul_pos hg.sd hg.cw
  have h2 : 0 < g.sd * g.ch := Nat.mul_pos hg.sd hg.ch
  have h3 : 0 < g.hn * g.cw := Nat.mul_pos hg.hn hg.cw
  have h4 : 0 < g.wn * g.ch := Nat.mul_pos hg.wn hg.ch
  unfold sizeCore pureCore Geo.colsOfWidth Geo.rowsOfHeight Geo.colsFromRows Geo.rowsFromCols
  simp only [ceilDiv_pos h1, ceilDiv_pos h2, ceilDiv_pos h3, ceilDiv_pos h4, if_true]
  cases cols? <;> cases rows? <;>
    simp only [Option.map_none, Option.map_some, Option.isNone_none, Option.isNone_some, Bool.true_and, Bool.false_and,
      bind, Except.bind, pure, Except.pure] <;>
    (repeat' split) <;> simp_all

/-- How the answer `(c, r)` came about. -/
inductive Shape (g : Geo) (cols? rows? : Option Nat) (maxC maxR c r : Nat) : Prop where
  /-- both automatic, no limit in the way -/
  | auto (hc : cols? = none) (hr : rows? = none)
      (cc : IsCeil g.wn (g.sd * g.cw) c) (cr : IsCeil g.hn (g.sd * g.ch) r)
  /-- the columns are given (explicit, clamped to the limit, or the limit itself) and the rows follow -/
  | colsDriven (cr : IsCeil (c * g.cw * g.hn) (g.wn * g.ch) r)
      (hexp : ∀ c0, cols? = some c0 → c = min c0 maxC)
      (hauto : cols? = none → c = maxC ∧
        (rows? = none → ¬ g.wn ≤ maxC * (g.sd * g.cw)) ∧
        (∀ r0, rows? = some r0 → ¬ (min r0 maxR) * g.ch * g.wn ≤ maxC * (g.hn * g.cw)))
  /-- the rows are given and the columns follow -/
  | rowsDriven (cc : IsCeil (r * g.ch * g.wn) (g.hn * g.cw) c)
      (hexp : ∀ r0, rows? = some r0 → r = min r0 maxR)
      (hauto : rows? = none → r = maxR ∧
        (cols? = none → ¬ (g.wn ≤ maxC * (g.sd * g.cw) ∧ g.hn ≤ maxR * (g.sd * g.ch))) ∧
        (∀ c0, cols? = some c0 → ¬ (min c0 maxC) * g.cw * g.hn ≤ maxR * (g.wn * g.ch)))

theorem clamp_id {x m : Nat} (h1 : 1 ≤ x) (h2 : x ≤ m) : max 1 (min x m) = x := by omega

theorem pureCore_shape {g : Geo} (hg : g.Pos) {cols? rows? : Option Nat} {maxC maxR : Nat}
    (hC : 1 ≤ maxC) (hR : 1 ≤ maxR)
    (hcols : ∀ c0, cols? = some c0 → 1 ≤ c0) (hrows : ∀ r0, rows? = some r0 → 1 ≤ r0)
    (hnot : ¬ (cols?.isSome ∧ rows?.isSome)) :
    let p := pureCore g cols? rows? maxC maxR
    1 ≤ p.1 ∧ p.1 ≤ maxC ∧ 1 ≤ p.2 ∧ p.2 ≤ maxR ∧ Shape g cols? rows? maxC maxR p.1 p.2 := by
  have hwn := hg.wn; have hhn := hg.hn; have hsd := hg.sd; have hcw := hg.cw; have hch := hg.ch
  have h1 : 0 < g.sd * g.cw := Nat.mul_pos hsd hcw
  have h2 : 0 < g.sd * g.ch := Nat.mul_pos hsd hch
  have h3 : 0 < g.hn * g.cw := Nat.mul_pos hhn hcw
  have h4 : 0 < g.wn * g.ch := Nat.mul_pos hwn hch
  have hCc : 0 < maxC * g.cw * g.hn := Nat.mul_pos (Nat.mul_pos hC hcw) hhn
  have hRr : 0 < maxR * g.ch * g.wn := Nat.mul_pos (Nat.mul_pos hR hch) hwn
  -- the two re-derivations at the limits
  have cC := ceilN_spec hCc h4
  have cR := ceilN_spec hRr h3
  rcases cols? with _ | c0 <;> rcases rows? with _ | r0
  · -- both automatic
    have cc := ceilN_spec hwn h1
    have cr := ceilN_spec hhn h2
    simp only [pureCore, Option.map_none, Option.isNone_none, Bool.true_and]
    by_cases hcap : ceilN g.wn (g.sd * g.cw) > maxC
    · have hnw : ¬ g.wn ≤ maxC * (g.sd * g.cw) := by
        rw [← ceilN_le_iff hwn h1]; omega
      simp only [hcap, decide_true, ↓reduceIte]
      by_cases hcap2 : ceilN (maxC * g.cw * g.hn) (g.wn * g.ch) > maxR
      · simp only [hcap2, decide_true, ↓reduceIte]
        have hle : ceilN (maxR * g.ch * g.wn) (g.hn * g.cw) ≤ maxC := by
          rw [ceilN_le_iff hRr h3]
          have : ¬ maxC * g.cw * g.hn ≤ maxR * (g.wn * g.ch) := by
            rw [← ceilN_le_iff hCc h4]; omega
          nlinarith
        rw [clamp_id cR.one_le hle, clamp_id hR (le_refl _)]
        refine ⟨cR.one_le, hle, hR, le_refl _, Shape.rowsDriven cR (by simp) ?_⟩
        intro _; exact ⟨rfl, fun _ h => hnw h.1, by simp⟩
      · simp only [hcap2, decide_false, Bool.false_eq_true, ↓reduceIte]
        rw [clamp_id hC (le_refl _), clamp_id cC.one_le (by omega)]
        refine ⟨hC, le_refl _, cC.one_le, by omega, Shape.colsDriven cC (by simp) ?_⟩
        intro _; exact ⟨rfl, fun _ => hnw, by simp⟩
    · simp only [hcap, decide_false, Bool.false_eq_true, ↓reduceIte]
      have hw : g.wn ≤ maxC * (g.sd * g.cw) := by
        rw [← ceilN_le_iff hwn h1]; omega
      by_cases hcap2 : ceilN g.hn (g.sd * g.ch) > maxR
      · simp only [hcap2, decide_true, ↓reduceIte]
        have hnh : ¬ g.hn ≤ maxR * (g.sd * g.ch) := by
          rw [← ceilN_le_iff hhn h2]; omega
        have hle : ceilN (maxR * g.ch * g.wn) (g.hn * g.cw) ≤ maxC := by
          rw [ceilN_le_iff hRr h3]
          have e1 : maxR * g.ch * g.wn ≤ maxR * g.ch * (maxC * (g.sd * g.cw)) := Nat.mul_le_mul_left _ hw
          have e2 : maxR * (g.sd * g.ch) * (maxC * g.cw) ≤ g.hn * (maxC * g.cw) :=
            Nat.mul_le_mul_right _ (by omega)
          nlinarith
        rw [clamp_id cR.one_le hle, clamp_id hR (le_refl _)]
        refine ⟨cR.one_le, hle, hR, le_refl _, Shape.rowsDriven cR (by simp) ?_⟩
        intro _; exact ⟨rfl, fun _ h => hnh h.2, by simp⟩
      · simp only [hcap2, decide_false, Bool.false_eq_true, ↓reduceIte]
        rw [clamp_id cc.one_le (by omega), clamp_id cr.one_le (by omega)]
        exact ⟨cc.one_le, by omega, cr.one_le, by omega, Shape.auto rfl rfl cc cr⟩
  · -- rows explicit
    have hr0 := hrows r0 rfl
    have hr' : 1 ≤ min r0 maxR := by omega
    have hpos : 0 < min r0 maxR * g.ch * g.wn := Nat.mul_pos (Nat.mul_pos hr' hch) hwn
    have cc := ceilN_spec hpos h3
    simp only [pureCore, Option.map_none, Option.map_some, Option.isNone_none, Option.isNone_some, Bool.true_and,
      Bool.false_and, Bool.false_eq_true, if_false]
    by_cases hcap : ceilN (min r0 maxR * g.ch * g.wn) (g.hn * g.cw) > maxC
    · simp only [hcap, decide_true, ↓reduceIte]
      have hn : ¬ min r0 maxR * g.ch * g.wn ≤ maxC * (g.hn * g.cw) := by
        rw [← ceilN_le_iff hpos h3]; omega
      have hle : ceilN (maxC * g.cw * g.hn) (g.wn * g.ch) ≤ min r0 maxR := by
        rw [ceilN_le_iff hCc h4]; nlinarith
      rw [clamp_id hC (le_refl _), clamp_id cC.one_le (by omega)]
      refine ⟨hC, le_refl _, cC.one_le, by omega, Shape.colsDriven cC (by simp) ?_⟩
      intro _; refine ⟨rfl, by simp, ?_⟩
      intro r1 h; cases h; exact hn
    · simp only [hcap, decide_false, Bool.false_eq_true, ↓reduceIte]
      rw [clamp_id cc.one_le (by omega), clamp_id hr' (by omega)]
      refine ⟨cc.one_le, by omega, hr', by omega, Shape.rowsDriven cc ?_ (by simp)⟩
      intro r1 h; cases h; rfl
  · -- columns explicit
    have hc0 := hcols c0 rfl
    have hc' : 1 ≤ min c0 maxC := by omega
    have hpos : 0 < min c0 maxC * g.cw * g.hn := Nat.mul_pos (Nat.mul_pos hc' hcw) hhn
    have cr := ceilN_spec hpos h4
    simp only [pureCore, Option.map_none, Option.map_some, Option.isNone_none, Option.isNone_some, Bool.true_and,
      Bool.false_and, Bool.false_eq_true, if_false]
    by_cases hcap : ceilN (min c0 maxC * g.cw * g.hn) (g.wn * g.ch) > maxR
    · simp only [hcap, decide_true, ↓reduceIte]
      have hn : ¬ min c0 maxC * g.cw * g.hn ≤ maxR * (g.wn * g.ch) := by
        rw [← ceilN_le_iff hpos h4]; omega
      have hle : ceilN (maxR * g.ch * g.wn) (g.hn * g.cw) ≤ min c0 maxC := by
        rw [ceilN_le_iff hRr h3]; nlinarith
      rw [clamp_id cR.one_le (by omega), clamp_id hR (le_refl _)]
      refine ⟨cR.one_le, by omega, hR, le_refl _, Shape.rowsDriven cR (by simp) ?_⟩
      intro _; refine ⟨rfl, by simp, ?_⟩
      intro c1 h; cases h; exact hn
    · simp only [hcap, decide_false, Bool.false_eq_true, ↓reduceIte]
      rw [clamp_id hc' (by omega), clamp_id cr.one_le (by omega)]
      refine ⟨hc', by omega, cr.one_le, by omega, Shape.colsDriven cr ?_ (by simp)⟩
      intro c1 h; cases h; rfl
  · simp at hnot

/-! ### from the shape to the clauses of the specification -/

open Tup.Spec.CellSize in
/-- The specification's request that goes with a geometry: `w' = wn/sd`, `h' = hn/sd`. -/
def reqOf (g : Geo) (cols? rows? : Option Int) (limC limR : Nat) : Req :=
  { Wn := g.wn, Wd := g.sd, Hn := g.hn, Hd := g.sd, cw := g.cw, ch := g.ch, cols? := cols?, rows? := rows?, limC := limC, limR := limR }

section arith
variable {sd wn hn cw ch : Nat}

theorem noUnused_auto {c r : Nat} (hsd : 0 < sd) (hwn : 0 < wn) (hhn : 0 < hn) (hcw : 0 < cw) (hch : 0 < ch)
    (cc : IsCeil wn (sd * cw) c) (cr : IsCeil hn (sd * ch) r) :
    (r - 1) * ch * (sd * wn) < c * cw * (sd * hn) ∧ (c - 1) * cw * (sd * hn) < r * ch * (sd * wn) := by
  obtain ⟨c', rfl⟩ : ∃ j, c = j + 1 := ⟨c - 1, by have := cc.one_le; omega⟩
  obtain ⟨r', rfl⟩ : ∃ j, r = j + 1 := ⟨r - 1, by have := cr.one_le; omega⟩
  have a1 := cc.lower; have a2 := cc.upper; have b1 := cr.lower; have b2 := cr.upper
  simp only [Nat.add_sub_cancel] at a1 b1 ⊢
  constructor
  · have e1 : r' * (sd * ch) * wn < hn * wn := Nat.mul_lt_mul_of_pos_right b1 hwn
    have e2 : hn * wn ≤ hn * ((c' + 1) * (sd * cw)) := Nat.mul_le_mul_left hn a2
    calc r' * ch * (sd * wn) = r' * (sd * ch) * wn := by ring
      _ < hn * wn := e1
      _ ≤ hn * ((c' + 1) * (sd * cw)) := e2
      _ = (c' + 1) * cw * (sd * hn) := by ring
  · have e1 : c' * (sd * cw) * hn < wn * hn := Nat.mul_lt_mul_of_pos_right a1 hhn
    have e2 : wn * hn ≤ wn * ((r' + 1) * (sd * ch)) := Nat.mul_le_mul_left wn b2
    calc c' * cw * (sd * hn) = c' * (sd * cw) * hn := by ring
      _ < wn * hn := e1
      _ ≤ wn * ((r' + 1) * (sd * ch)) := e2
      _ = (r' + 1) * ch * (sd * wn) := by ring

theorem noUnused_colsDriven {c r : Nat} (hsd : 0 < sd) (cr : IsCeil (c * cw * hn) (wn * ch) r) :
    c * cw * sd * hn ≤ r * ch * sd * wn ∧ (r - 1) * ch * (sd * wn) < c * cw * (sd * hn) := by
  obtain ⟨r', rfl⟩ : ∃ j, r = j + 1 := ⟨r - 1, by have := cr.one_le; omega⟩
  have b1 := cr.lower; have b2 := cr.upper
  simp only [Nat.add_sub_cancel] at b1 ⊢
  constructor
  · calc c * cw * sd * hn = (c * cw * hn) * sd := by ring
      _ ≤ ((r' + 1) * (wn * ch)) * sd := Nat.mul_le_mul_right sd b2
      _ = (r' + 1) * ch * sd * wn := by ring
  · calc r' * ch * (sd * wn) = (r' * (wn * ch)) * sd := by ring
      _ < (c * cw * hn) * sd := Nat.mul_lt_mul_of_pos_right b1 hsd
      _ = c * cw * (sd * hn) := by ring

theorem noUnused_rowsDriven {c r : Nat} (hsd : 0 < sd) (cc : IsCeil (r * ch * wn) (hn * cw) c) :
    r * ch * sd * wn ≤ c * cw * sd * hn ∧ (c - 1) * cw * (sd * hn) < r * ch * (sd * wn) := by
  obtain ⟨c', rfl⟩ : ∃ j, c = j + 1 := ⟨c - 1, by have := cc.one_le; omega⟩
  have b1 := cc.lower; have b2 := cc.upper
  simp only [Nat.add_sub_cancel] at b1 ⊢
  constructor
  · calc r * ch * sd * wn = (r * ch * wn) * sd := by ring
      _ ≤ ((c' + 1) * (hn * cw)) * sd := Nat.mul_le_mul_right sd b2
      _ = (c' + 1) * cw * sd * hn := by ring
  · calc c' * cw * (sd * hn) = (c' * (hn * cw)) * sd := by ring
      _ < (r * ch * wn) * sd := Nat.mul_lt_mul_of_pos_right b1 hsd
      _ = r * ch * (sd * wn) := by ring

end arith

open Tup.Spec.CellSize

@[simp] theorem tol_lt (a b : Nat) : ({} : Tol).lt a b = decide (a < b) := by simp [Tol.lt]
@[simp] theorem tol_le (a b : Nat) : ({} : Tol).le a b = decide (a ≤ b) := by simp [Tol.le]
@[simp] theorem tol_leStrict (a b : Nat) : ({} : Tol).leStrict a b = decide (a ≤ b) := by simp [Tol.leStrict]

theorem pred_mul_lt {k x : Nat} (hk : 1 ≤ k) (hx : 0 < x) : (k - 1) * x < k * x :=
  Nat.mul_lt_mul_of_pos_right (by omega) hx

theorem noUnused_of_shape {g : Geo} (hg : g.Pos) {cols? rows? : Option Nat} {maxC maxR c r : Nat}
    (hc : 1 ≤ c) (hr : 1 ≤ r) (sh : Shape g cols? rows? maxC maxR c r)
    (cols?' rows?' : Option Int) (limC limR : Nat) :
    noUnused {} (reqOf g cols?' rows?' limC limR) (c : Int) (r : Int) = true := by
  unfold noUnused
  split
  · rfl
  · have hc' : ¬ ((c : Int) < 1) := by omega
    have hr' : ¬ ((r : Int) < 1) := by omega
    simp only [hc', hr', decide_false, Bool.or_self, Bool.false_eq_true, ↓reduceIte, Int.toNat_natCast, reqOf, tol_lt]
    have t1 := pred_mul_lt hc hg.cw
    have t2 := pred_mul_lt hr hg.ch
    cases sh with
    | auto _ _ cc cr =>
        have h := noUnused_auto hg.sd hg.wn hg.hn hg.cw hg.ch cc cr
        split <;> simp only [Bool.and_eq_true, decide_eq_true_eq]
        · exact ⟨t1, h.1⟩
        · exact ⟨t2, h.2⟩
    | colsDriven cr _ _ =>
        have h := noUnused_colsDriven (sd := g.sd) hg.sd cr
        rw [if_pos h.1]
        simp only [Bool.and_eq_true, decide_eq_true_eq]
        exact ⟨t1, h.2⟩
    | rowsDriven cc _ _ =>
        have h := noUnused_rowsDriven (sd := g.sd) hg.sd cc
        split <;> simp only [Bool.and_eq_true, decide_eq_true_eq]
        · rename_i hle
          refine ⟨t1, ?_⟩
          -- equality case: the box is exactly filled in both directions
          have heq : c * g.cw * g.sd * g.hn = r * g.ch * g.sd * g.wn := Nat.le_antisymm hle h.1
          have : (r - 1) * g.ch * (g.sd * g.wn) < r * g.ch * (g.sd * g.wn) :=
            Nat.mul_lt_mul_of_pos_right t2 (Nat.mul_pos hg.sd hg.wn)
          calc (r - 1) * g.ch * (g.sd * g.wn) < r * g.ch * (g.sd * g.wn) := this
            _ = r * g.ch * g.sd * g.wn := by ring
            _ = c * g.cw * g.sd * g.hn := heq.symm
            _ = c * g.cw * (g.sd * g.hn) := by ring
        · exact ⟨t2, h.2⟩

theorem minimalBox_of_shape {g : Geo} (hg : g.Pos) {maxC maxR c r : Nat}
    (sh : Shape g none none maxC maxR c r) :
    minimalBox {} (reqOf g none none maxC maxR) (c : Int) (r : Int) = true := by
  unfold minimalBox
  simp only [reqOf, Option.isNone_none, Bool.true_and, tol_leStrict, tol_lt, tol_le, Int.toNat_natCast]
  split
  · rename_i hfit
    simp only [Bool.and_eq_true, decide_eq_true_eq] at hfit
    cases sh with
    | auto _ _ cc cr =>
        have a1 := cc.lower; have a2 := cc.upper; have b1 := cr.lower; have b2 := cr.upper
        have c1 := cc.one_le; have r1 := cr.one_le
        simp only [Bool.and_eq_true, decide_eq_true_eq]
        refine ⟨⟨⟨⟨⟨by omega, by omega⟩, ?_⟩, ?_⟩, ?_⟩, ?_⟩
        · calc (c - 1) * g.cw * g.sd = (c - 1) * (g.sd * g.cw) := by ring
            _ < g.wn := a1
        · calc g.wn ≤ c * (g.sd * g.cw) := a2
            _ = c * g.cw * g.sd := by ring
        · calc (r - 1) * g.ch * g.sd = (r - 1) * (g.sd * g.ch) := by ring
            _ < g.hn := b1
        · calc g.hn ≤ r * (g.sd * g.ch) := b2
            _ = r * g.ch * g.sd := by ring
    | colsDriven _ _ hauto =>
        exfalso
        have := (hauto rfl).2.1 rfl
        apply this
        calc g.wn ≤ maxC * g.cw * g.sd := hfit.1
          _ = maxC * (g.sd * g.cw) := by ring
    | rowsDriven _ _ hauto =>
        exfalso
        have := (hauto rfl).2.1 rfl
        apply this
        constructor
        · calc g.wn ≤ maxC * g.cw * g.sd := hfit.1
            _ = maxC * (g.sd * g.cw) := by ring
        · calc g.hn ≤ maxR * g.ch * g.sd := hfit.2
            _ = maxR * (g.sd * g.ch) := by ring
  · rfl

theorem explicitKept_cols_of_shape {g : Geo} (hg : g.Pos) {maxC maxR c r c0 : Nat}
    (sh : Shape g (some c0) none maxC maxR c r) :
    explicitKept {} (reqOf g (some (c0 : Int)) none maxC maxR) (c : Int) (r : Int) = true := by
  unfold explicitKept
  simp only [reqOf, tol_leStrict, Int.toNat_natCast]
  split
  · rename_i h
    simp only [Bool.and_eq_true, decide_eq_true_eq] at h
    obtain ⟨⟨_, hle⟩, hfit⟩ := h
    have hle' : c0 ≤ maxC := by have := of_decide_eq_true hle; omega
    cases sh with
    | auto hc _ _ _ => cases hc
    | colsDriven _ hexp _ =>
        have := hexp c0 rfl
        simp only [beq_iff_eq]; omega
    | rowsDriven _ _ hauto =>
        exfalso
        have hn := (hauto rfl).2.2 c0 rfl
        apply hn
        rw [Nat.min_eq_left hle']
        have : (c0 * g.cw * g.hn) * g.sd ≤ (maxR * (g.wn * g.ch)) * g.sd := by
          calc (c0 * g.cw * g.hn) * g.sd = c0 * g.cw * (g.sd * g.hn) := by ring
            _ ≤ maxR * g.ch * (g.sd * g.wn) := hfit
            _ = (maxR * (g.wn * g.ch)) * g.sd := by ring
        exact Nat.le_of_mul_le_mul_right this hg.sd
  · rfl

theorem explicitKept_rows_of_shape {g : Geo} (hg : g.Pos) {maxC maxR c r r0 : Nat}
    (sh : Shape g none (some r0) maxC maxR c r) :
    explicitKept {} (reqOf g none (some (r0 : Int)) maxC maxR) (c : Int) (r : Int) = true := by
  unfold explicitKept
  simp only [reqOf, tol_leStrict, Int.toNat_natCast]
  split
  · rename_i h
    simp only [Bool.and_eq_true, decide_eq_true_eq] at h
    obtain ⟨⟨_, hle⟩, hfit⟩ := h
    have hle' : r0 ≤ maxR := by have := of_decide_eq_true hle; omega
    cases sh with
    | auto _ hr _ _ => cases hr
    | rowsDriven _ hexp _ =>
        have := hexp r0 rfl
        simp only [beq_iff_eq]; omega
    | colsDriven _ _ hauto =>
        exfalso
        have hn := (hauto rfl).2.2 r0 rfl
        apply hn
        rw [Nat.min_eq_left hle']
        have : (r0 * g.ch * g.wn) * g.sd ≤ (maxC * (g.hn * g.cw)) * g.sd := by
          calc (r0 * g.ch * g.wn) * g.sd = r0 * g.ch * (g.sd * g.wn) := by ring
            _ ≤ maxC * g.cw * (g.sd * g.hn) := hfit
            _ = (maxC * (g.hn * g.cw)) * g.sd := by ring
        exact Nat.le_of_mul_le_mul_right this hg.sd
  · rfl

end Tup.CellSize
