import Tup.Lemmas.Config
import Tup.Lemmas.ConfigLayers
/-!
  C17, TOML round trip on the typed-value channel.

  `TupimageConfig.to_toml_string` turns each option into a value it hands to `toml.dumps`
  (`dumpValue`): the string forms of `id_subspace`, `id_space`, the two cell sizes (`WxH`) and the letter of
  `upload_method`; every other option as the native value it holds. `override_from_toml_string` hands what
  `toml.loads` returns to `validate_and_normalize`. The `toml` package is the *trusted channel*: on native
  TOML values (strings, integers, floats, booleans, arrays of those — `tomlNative`) it is taken to be the
  identity. On that channel `load ∘ dump = id`: `normalizeOpt sd o (dumpValue o.name v) = .ok v` for every
  option `o` of the regenerated table and every value `v` the configuration can hold for `o` (a result of
  `validate_and_normalize`).

  The proof uses the option table only through three decidable facts checked by `decide` on whatever table
  is generated (`table_facts`): the options named `id_database_dir`, `id_space`, `id_subspace` have the
  types `str`, `IDSpace`, `IDSubspace`. Everything else is case analysis on the value.
-/
namespace Tup.Config
open Tup

/-! ### the dump, option by option -/

/-- What `to_toml_string` hands to `toml.dumps` for the option `name` holding `v`
    (`if isinstance(self.<name>, <cls>): dic[<name>] = <string form>`; everything else `dataclasses.asdict`). -/
def dumpValue (name : String) (v : Val) : Val :=
  match v with
  | .sub u => if name = "id_subspace" then .str (subStr u) else v
  | .space s => if name = "id_space" then .str s.name else v
  | .tuple [.int w, .int h] => if name = "cell_size" ∨ name = "default_cell_size" then .str (sizeStr w h) else v
  | .medium m => if name = "upload_method" then .str m.letter else v
  | v => v

def dumpCfg (c : Cfg) : List (String × Val) := c.map fun e => (e.name, dumpValue e.name e.val)

def scalarNative : Scalar → Bool
  | .str _ | .int _ | .float _ | .bool _ => true
  | _ => false

/-- the values TOML has: strings, integers, floats, booleans and arrays of those (no `None`, no objects,
    no tuples) — the domain on which the `toml` package is trusted to be the identity -/
def tomlNative : Val → Bool
  | .sc x => scalarNative x
  | .list l => l.all scalarNative
  | _ => false

/-- objects are ones Python can construct: `IDSpace` is an enum of five members, the `IDSubspace`
    constructor validates its range -/
def objOk : Val → Bool
  | .space s => decide (s ∈ Space.all)
  | .sub u => u.valid
  | _ => true

/-- the printer/parser round trips of the structured options (`Props/C17.lean`: `printer_parser_*`) -/
structure PrinterParser : Prop where
  sub : ∀ u : Sub, u.valid = true → subOfString (subStr u) = some u
  size : ∀ w h : Nat, 1 ≤ w → 1 ≤ h → validateSize (sizeStr (w : Int) (h : Int)) = some ((w : Int), (h : Int))
  space : ∀ s ∈ Space.all, Space.ofString s.name = some s
  medium : ∀ m : Medium, Medium.ofString m.letter = some m

/-! ### what the proof needs from the regenerated table -/

structure TableFacts : Prop where
  dir : ∀ o ∈ Tup.Gen.options, o.name = "id_database_dir" → o.ty = [.base .str]
  space : ∀ o ∈ Tup.Gen.options, o.name = "id_space" → o.ty = [.base .idSpace]
  sub : ∀ o ∈ Tup.Gen.options, o.name = "id_subspace" → o.ty = [.base .idSubspace]

theorem table_facts : TableFacts := ⟨by decide, by decide, by decide⟩

/-! ### `validate_and_normalize`, taken apart -/

theorem checkOpt_ok {o : Opt} {v v' : Val} (h : checkOpt o v = .ok v') :
    v' = v ∧ verifyType v o.ty = true ∧ constraintsOk o v = true := by
  unfold checkOpt at h
  split at h
  · cases h
  · rename_i h1
    split at h
    · cases h
    · rename_i h2
      injection h with h
      exact ⟨h.symm, by simpa using h1, by simpa using h2⟩

theorem checkOpt_of {o : Opt} {v : Val} (h1 : verifyType v o.ty = true) (h2 : constraintsOk o v = true) :
    checkOpt o v = .ok v := by
  simp [checkOpt, h1, h2]

theorem promote_eq_str {o : Opt} {v : Val} {s : String} (h : promote o v = .str s) : v = .str s := by
  unfold promote at h
  split at h
  · split at h
    · cases h
    · exact h
  · exact h

/-- a value the configuration holds passes the type check and the constraints; and a string value (other
    than `auto`) is a fixed point of the string normalisation -/
theorem effective_spec (tf : TableFacts) {sd : String} {o : Opt} (ho : o ∈ Tup.Gen.options) {raw v : Val}
    (h : normalizeOpt sd o raw = .ok v) :
    verifyType v o.ty = true ∧ constraintsOk o v = true ∧
    (∀ s, v = .str s → s ≠ "auto" → normalizeString sd o s = some (.str s)) := by
  unfold normalizeOpt at h
  split at h
  · cases h
  · rename_i v' hpre
    obtain ⟨hv, hty, hc⟩ := checkOpt_ok h
    subst hv
    refine ⟨hty, hc, ?_⟩
    intro s hs hne
    have hv' := promote_eq_str hs
    subst hv'
    unfold preString at hpre
    split at hpre
    · rename_i s'
      split at hpre
      · -- raw = .str s', s' ≠ "auto": normalizeString sd o s' = some (.str s)
        unfold normalizeString at hpre ⊢
        by_cases c1 : o.ty = [.base .idSubspace]
        · simp [c1] at hpre
        by_cases c2 : o.ty = [.base .idSpace]
        · simp [c2] at hpre
        by_cases c3 : o.name = "cell_size" ∨ o.name = "default_cell_size"
        · simp [c1, c2, c3] at hpre
        by_cases c4 : o.name = "id_database_dir" ∧ s' = ""
        · simp only [c1, c2, c4, and_self, ↓reduceIte] at hpre
          injection hpre with hpre; injection hpre with hpre; injection hpre with hpre
          subst hpre
          have hty' := tf.dir o ho c4.1
          have n5 : o.name ≠ "upload_method" := by rw [c4.1]; decide
          have n6 : o.name ≠ "supported_formats" := by rw [c4.1]; decide
          simp only [c1, c2, c3, ↓reduceIte, n5, n6]
          by_cases hsd : sd = ""
          · simp [c4.1, hsd]
          · simp [c4.1, hsd, hty', convertScalar, scalarTypes]
        by_cases c5 : o.name = "upload_method"
        · simp [c1, c2, c5] at hpre
        by_cases c6 : o.name = "supported_formats"
        · simp [c1, c2, c6] at hpre
        simp only [c1, c2, c3, c4, c5, c6, ↓reduceIte] at hpre
        -- convertScalar o.ty s' = some (.str s): then s = s'
        have hss : s' = s := by
          unfold convertScalar at hpre
          simp only [] at hpre
          split at hpre
          · split at hpre
            · simp only [Option.map_eq_some_iff] at hpre
              obtain ⟨i, _, hi⟩ := hpre; cases hi
            · injection hpre with hpre; injection hpre with hpre; injection hpre
          · split at hpre
            · simp only [Option.map_eq_some_iff] at hpre
              obtain ⟨i, _, hi⟩ := hpre; cases hi
            · split at hpre
              · simp only [Option.map_eq_some_iff] at hpre
                obtain ⟨i, _, hi⟩ := hpre; cases hi
              · split at hpre
                · simp only [Option.map_eq_some_iff] at hpre
                  obtain ⟨i, _, hi⟩ := hpre; cases hi
                · injection hpre with hpre; injection hpre with hpre; injection hpre
        subst hss
        have c4' : ¬ (o.name = "id_database_dir" ∧ s' = "") := c4
        simp only [c1, c2, c3, c4', c5, c6, ↓reduceIte]
        exact hpre
      · -- raw = .str "auto"
        rename_i hauto
        injection hpre with hpre; injection hpre with hpre; injection hpre with hpre
        simp only [ne_eq, Decidable.not_not] at hauto
        exact absurd (hpre ▸ hauto) hne
    · -- raw is not a string, but the result is
      rename_i hns
      injection hpre with hpre
      exact absurd hpre (hns s)

/-! ### the round trip, one option -/

theorem verifyType_int_not_float {o : Opt} {i : Int} (h : verifyType (.int i) o.ty = true) : o.ty ≠ [.base .float] := by
  intro e; rw [e] at h; simp [verifyType, valIsAlt, valIsBase, scalarIs] at h

theorem normalizeOpt_native {sd : String} {o : Opt} {v : Val} (hns : ∀ s, v ≠ .str s)
    (hty : verifyType v o.ty = true) (hc : constraintsOk o v = true) : normalizeOpt sd o v = .ok v := by
  have hpre : preString sd o v = some v := by
    unfold preString
    split
    · rename_i s; exact absurd rfl (hns s)
    · rfl
  have hpro : promote o v = v := by
    unfold promote
    split
    · rename_i i
      rw [if_neg (verifyType_int_not_float hty)]
    · rfl
  simp only [normalizeOpt, hpre, hpro]
  exact checkOpt_of hty hc

theorem normalizeOpt_text {sd : String} {o : Opt} {t : String} {v : Val} (hne : t ≠ "auto")
    (hn : normalizeString sd o t = some v) (hni : ∀ i, v ≠ .int i)
    (hty : verifyType v o.ty = true) (hc : constraintsOk o v = true) : normalizeOpt sd o (.str t) = .ok v := by
  have hpre : preString sd o (.str t) = some v := by
    unfold preString; simp only [ne_eq, hne, not_false_eq_true, ↓reduceIte]; exact hn
  have hpro : promote o v = v := by
    unfold promote
    split
    · rename_i i; exact absurd rfl (hni i)
    · rfl
  simp only [normalizeOpt, hpre, hpro]
  exact checkOpt_of hty hc

theorem native_tuple {n : String} {l : List Scalar} (h : tomlNative (dumpValue n (.tuple l)) = true) :
    ∃ w h', l = [.int w, .int h'] ∧ (n = "cell_size" ∨ n = "default_cell_size") := by
  rcases l with _ | ⟨a, _ | ⟨b, _ | ⟨c, r⟩⟩⟩
  · simp [dumpValue, tomlNative] at h
  · simp [dumpValue, tomlNative] at h
  · cases a <;> cases b <;> try (simp [dumpValue, tomlNative] at h; done)
    rename_i w h'
    by_cases hn : n = "cell_size" ∨ n = "default_cell_size"
    · exact ⟨w, h', rfl, hn⟩
    · simp [dumpValue, hn, tomlNative] at h
  · simp [dumpValue, tomlNative] at h

/-- **`load ∘ dump = id`, one option, on the typed channel.** -/
theorem normalizeOpt_dumpValue (pp : PrinterParser) (tf : TableFacts) (sd : String) {o : Opt}
    (ho : o ∈ Tup.Gen.options) {raw v : Val} (h : normalizeOpt sd o raw = .ok v)
    (hnat : tomlNative (dumpValue o.name v) = true) (hobj : objOk v = true) :
    normalizeOpt sd o (dumpValue o.name v) = .ok v := by
  obtain ⟨hty, hc, hstr⟩ := effective_spec tf ho h
  cases v with
  | sc x =>
    cases x with
    | str s =>
      show normalizeOpt sd o (.str s) = _
      by_cases hauto : s = "auto"
      · subst hauto
        have hpre : preString sd o (.str "auto") = some (.str "auto") := by simp [preString]
        simp only [normalizeOpt, hpre, promote]
        exact checkOpt_of hty hc
      · exact normalizeOpt_text hauto (hstr s rfl hauto) (fun i => by simp) hty hc
    | int i =>
      show normalizeOpt sd o (.sc (.int i)) = _
      exact normalizeOpt_native (fun s => by simp) hty hc
    | float f =>
      show normalizeOpt sd o (.sc (.float f)) = _
      exact normalizeOpt_native (fun s => by simp) hty hc
    | bool b =>
      show normalizeOpt sd o (.sc (.bool b)) = _
      exact normalizeOpt_native (fun s => by simp) hty hc
    | none => simp [dumpValue, tomlNative, scalarNative] at hnat
    | other c => simp [dumpValue, tomlNative, scalarNative] at hnat
  | list l =>
    show normalizeOpt sd o (.list l) = _
    exact normalizeOpt_native (fun s => by simp) hty hc
  | tuple l =>
    -- native after the dump: it is a `WxH` size of one of the two cell-size options
    have hshape := native_tuple hnat
    obtain ⟨w, h', rfl, hname⟩ := hshape
    have hd : dumpValue o.name (.tuple [.int w, .int h']) = .str (sizeStr w h') := by simp [dumpValue, hname]
    rw [hd]
    have hpos : 1 ≤ w ∧ 1 ≤ h' := by
      unfold constraintsOk at hc
      simpa [hname] using hc
    have hw : ((w.toNat : Nat) : Int) = w := Int.toNat_of_nonneg (by omega)
    have hh : ((h'.toNat : Nat) : Int) = h' := Int.toNat_of_nonneg (by omega)
    have hsz := pp.size w.toNat h'.toNat (by omega) (by omega)
    rw [hw, hh] at hsz
    have hne : sizeStr w h' ≠ "auto" := by
      intro e; rw [e] at hsz
      have hnone : validateSize "auto" = none := by decide
      rw [hnone] at hsz; cases hsz
    have c1 : o.ty ≠ [.base .idSubspace] := by
      intro e; rw [e] at hty; simp [verifyType, valIsAlt, valIsBase] at hty
    have c2 : o.ty ≠ [.base .idSpace] := by
      intro e; rw [e] at hty; simp [verifyType, valIsAlt, valIsBase] at hty
    refine normalizeOpt_text hne ?_ (fun i => by simp) hty hc
    simp [normalizeString, c1, c2, hname, hsz]
  | space s =>
    have hname : o.name = "id_space" := by
      by_cases hn : o.name = "id_space"
      · exact hn
      · simp [dumpValue, hn, tomlNative] at hnat
    have hd : dumpValue o.name (.space s) = .str s.name := by simp [dumpValue, hname]
    rw [hd]
    have hs : s ∈ Space.all := by simpa [objOk] using hobj
    have hsp := pp.space s hs
    have hne : s.name ≠ "auto" := by
      intro e; rw [e] at hsp
      have hnone : Space.ofString "auto" = none := by decide
      rw [hnone] at hsp; cases hsp
    have hty' := tf.space o ho hname
    refine normalizeOpt_text hne ?_ (fun i => by simp) hty hc
    simp [normalizeString, hty', hsp]
  | sub u =>
    have hname : o.name = "id_subspace" := by
      by_cases hn : o.name = "id_subspace"
      · exact hn
      · simp [dumpValue, hn, tomlNative] at hnat
    have hd : dumpValue o.name (.sub u) = .str (subStr u) := by simp [dumpValue, hname]
    rw [hd]
    have hu : u.valid = true := by simpa [objOk] using hobj
    have hsu := pp.sub u hu
    have hne : subStr u ≠ "auto" := by
      intro e; rw [e] at hsu
      have hnone : subOfString "auto" = none := by decide
      rw [hnone] at hsu; cases hsu
    have hty' := tf.sub o ho hname
    refine normalizeOpt_text hne ?_ (fun i => by simp) hty hc
    simp [normalizeString, hty', hsu]
  | medium m =>
    have hname : o.name = "upload_method" := by
      by_cases hn : o.name = "upload_method"
      · exact hn
      · simp [dumpValue, hn, tomlNative] at hnat
    have hd : dumpValue o.name (.medium m) = .str m.letter := by simp [dumpValue, hname]
    rw [hd]
    have hme := pp.medium m
    have hne : m.letter ≠ "auto" := by
      intro e; rw [e] at hme
      have hnone : Medium.ofString "auto" = none := by decide
      rw [hnone] at hme; cases hme
    have c1 : o.ty ≠ [.base .idSubspace] := by
      intro e; rw [e] at hty; simp [verifyType, valIsAlt, valIsBase] at hty
    have c2 : o.ty ≠ [.base .idSpace] := by
      intro e; rw [e] at hty; simp [verifyType, valIsAlt, valIsBase] at hty
    have n3 : ¬ (o.name = "cell_size" ∨ o.name = "default_cell_size") := by rw [hname]; decide
    have n4 : ¬ (o.name = "id_database_dir" ∧ m.letter = "") := by rw [hname]; simp
    refine normalizeOpt_text hne ?_ (fun i => by simp) hty hc
    simp [normalizeString, c1, c2, hname, hme]

/-! ### `int(str(i)) == i` for every integer (sign included) -/

theorem parseDigits_toDigits (n : Nat) : parseDigits (Nat.toDigits 10 n) = some (n, (Nat.toDigits 10 n).length) := by
  have hd := toDigits_isDigit n
  have hne : Nat.toDigits 10 n ≠ [] := Nat.toDigits_ne_nil
  obtain ⟨c, cs, hcs⟩ : ∃ c cs, Nat.toDigits 10 n = c :: cs := by
    cases h : Nat.toDigits 10 n with
    | nil => exact absurd h hne
    | cons c cs => exact ⟨c, cs, rfl⟩
  have hc := isDigit_facts (hd c (by simp [hcs]))
  unfold parseDigits
  rw [hcs]
  simp only [hc.2.1, ↓reduceIte]
  rw [← hcs, digitsAux_digits _ hd 0 0 false (Or.inl hne), Nat.ofDigitChars_ten_toDigits]
  simp

theorem trimWs_minus_digits (l : List Char) (hl : ∀ c ∈ l, c.isDigit = true) (hne : l ≠ []) :
    trimWs ('-' :: l) = '-' :: l := by
  unfold trimWs
  have h1 : ('-' :: l).dropWhile isWs = '-' :: l := by
    rw [List.dropWhile_cons_of_neg (by decide)]
  rw [h1]
  have h2 : ('-' :: l).reverse.dropWhile isWs = ('-' :: l).reverse := by
    rw [List.reverse_cons]
    obtain ⟨c, cs, hcs⟩ : ∃ c cs, l.reverse = c :: cs := by
      cases h : l.reverse with
      | nil => exact absurd (List.reverse_eq_nil_iff.1 h) hne
      | cons c cs => exact ⟨c, cs, rfl⟩
    have hc : c ∈ l := by
      have : c ∈ l.reverse := by rw [hcs]; simp
      simpa using this
    rw [hcs, List.cons_append, List.dropWhile_cons_of_neg (by simp [(isDigit_facts (hl c hc)).2.2.1])]
  rw [h2, List.reverse_reverse]

/-- `int(str(i)) == i` -/
theorem pyInt_toString_int (i : Int) : pyInt (toString i) = some i := by
  cases i with
  | ofNat n => exact pyInt_repr n
  | negSucc n =>
    have e : (toString (Int.negSucc n)).toList = '-' :: Nat.toDigits 10 (n + 1) := by
      show ("-" ++ toString (n + 1)).toList = _
      rw [String.toList_append, toString_nat_toList]; rfl
    unfold pyInt
    rw [e, trimWs_minus_digits _ (toDigits_isDigit _) Nat.toDigits_ne_nil]
    show Option.map _ (parseDigits (Nat.toDigits 10 (n + 1))) = _
    rw [parseDigits_toDigits]
    simp only [Option.map_some, ↓reduceIte, Option.some.injEq]
    omega

/-- for an option of type `int` or `int | 'auto'` the decimal text of an integer — negative ones
    included — and the integer itself are the same to `validate_and_normalize` (accepted to the same value or
    rejected alike by the range constraints) -/
theorem normalizeOpt_int_text (sd : String) {o : Opt}
    (hty : o.ty = [.base .int] ∨ o.ty = [.base .int, .base (.lit "auto")])
    (hn : o.name ≠ "cell_size" ∧ o.name ≠ "default_cell_size" ∧ o.name ≠ "id_database_dir" ∧
      o.name ≠ "upload_method" ∧ o.name ≠ "supported_formats") (i : Int) :
    normalizeString sd o (toString i) = some (.int i) ∧
    normalizeOpt sd o (.str (toString i)) = normalizeOpt sd o (.int i) := by
  obtain ⟨h1, h2, h3, h4, h5⟩ := hn
  have hp := pyInt_toString_int i
  have hns : normalizeString sd o (toString i) = some (.int i) := by
    have hp' : pyInt i.repr = some i := hp
    rcases hty with hty | hty <;>
      simp [normalizeString, convertScalar, scalarTypes, hty, h1, h2, h3, h4, h5, hp']
  have hne : toString i ≠ "auto" := by
    intro e; rw [e] at hp
    have hnone : pyInt "auto" = none := by decide
    rw [hnone] at hp; cases hp
  refine ⟨hns, ?_⟩
  simp only [normalizeOpt, preString, ne_eq, hne, not_false_eq_true, ↓reduceIte, hns]

/-! ### `dumpValue` and the shape-directed `dumpVal` of `Model/Config.lean` agree on typed values -/

def isTupleAlt : Alt → Bool
  | .tuple _ => true
  | .base (.other c) => c == "tuple"
  | _ => false

/-- in the regenerated table only the options `to_toml_string` treats specially can hold the objects -/
structure ObjectFacts : Prop where
  sub : ∀ o ∈ Tup.Gen.options, Alt.base .idSubspace ∈ o.ty → o.name = "id_subspace"
  space : ∀ o ∈ Tup.Gen.options, Alt.base .idSpace ∈ o.ty → o.name = "id_space"
  medium : ∀ o ∈ Tup.Gen.options, Alt.base .medium ∈ o.ty → o.name = "upload_method"
  tuple : ∀ o ∈ Tup.Gen.options, o.ty.any isTupleAlt = true → (o.name = "cell_size" ∨ o.name = "default_cell_size")

theorem object_facts : ObjectFacts := ⟨by decide, by decide, by decide, by decide⟩

/-- For a value of the option's declared type, the per-option dump of `to_toml_string` is the
    shape-directed `dumpVal` (the function the dynamic check compares with the real `to_toml_string`). -/
theorem dumpValue_eq_dumpVal (of : ObjectFacts) {o : Opt} (ho : o ∈ Tup.Gen.options) {v : Val}
    (hty : verifyType v o.ty = true) : dumpValue o.name v = dumpVal v := by
  unfold verifyType at hty
  obtain ⟨alt, halt, hv⟩ := List.any_eq_true.1 hty
  cases v with
  | sc x => rfl
  | list l => rfl
  | sub u =>
    have : alt = .base .idSubspace := by
      cases alt with
      | base b => simp only [valIsAlt, valIsBase, beq_iff_eq] at hv; rw [hv]
      | tuple a => simp [valIsAlt] at hv
      | list a => simp [valIsAlt] at hv
    subst this
    simp [dumpValue, dumpVal, of.sub o ho halt]
  | space s =>
    have : alt = .base .idSpace := by
      cases alt with
      | base b => simp only [valIsAlt, valIsBase, beq_iff_eq] at hv; rw [hv]
      | tuple a => simp [valIsAlt] at hv
      | list a => simp [valIsAlt] at hv
    subst this
    simp [dumpValue, dumpVal, of.space o ho halt]
  | medium m =>
    have : alt = .base .medium := by
      cases alt with
      | base b => simp only [valIsAlt, valIsBase, beq_iff_eq] at hv; rw [hv]
      | tuple a => simp [valIsAlt] at hv
      | list a => simp [valIsAlt] at hv
    subst this
    simp [dumpValue, dumpVal, of.medium o ho halt]
  | tuple l =>
    have hname : o.name = "cell_size" ∨ o.name = "default_cell_size" := by
      apply of.tuple o ho
      refine List.any_eq_true.2 ⟨alt, halt, ?_⟩
      cases alt with
      | base b =>
        simp only [valIsAlt, valIsBase, beq_iff_eq] at hv
        subst hv; rfl
      | tuple a => rfl
      | list a => simp [valIsAlt] at hv
    rcases l with _ | ⟨a, _ | ⟨b, _ | ⟨c, r⟩⟩⟩
    · rfl
    · simp [dumpValue, dumpVal]
    · cases a <;> cases b <;> simp [dumpValue, dumpVal, hname]
    · simp [dumpValue, dumpVal]

/-! ### the round trip, the whole configuration -/

theorem options_names_nodup : (Tup.Gen.options.map (·.name)).Nodup := by decide

/-- loading a dump is one `setattr` per entry, in order, and no key is unknown -/
theorem fileFold_dump (sd p : String) : ∀ (es : List Entry) (c0 : Cfg) (u : Bool),
    (∀ e ∈ es, normalize sd e.name (dumpValue e.name e.val) = .ok e.val) →
    (dumpCfg es).foldlM (fileStep sd p) (c0, u) =
      .ok (es.foldl (fun c e => c.set e.name e.val (some p)) c0, u)
  | [], _, _, _ => rfl
  | e :: es, c0, u, h => by
    have he := h e (List.mem_cons_self ..)
    unfold normalize at he
    simp only [dumpCfg, List.map_cons, List.foldlM_cons, List.foldl_cons, bind, Except.bind]
    unfold fileStep
    simp only []
    split at he
    · cases he
    · rename_i o ho
      simp only [he, pure, Except.pure]
      exact fileFold_dump sd p es _ u (fun e' he' => h e' (List.mem_cons_of_mem _ he'))

theorem names_foldl_set (p : String) : ∀ (es : List Entry) (c0 : Cfg),
    (es.foldl (fun c e => c.set e.name e.val (some p)) c0).names = c0.names
  | [], _ => rfl
  | e :: es, c0 => by rw [List.foldl_cons, names_foldl_set p es, names_set]

theorem get_foldl_set (p : String) : ∀ (es : List Entry) (c0 : Cfg), (∀ e ∈ es, e.name ∈ c0.names) →
    (es.map (·.name)).Nodup → ∀ n,
    ((es.foldl (fun c e => c.set e.name e.val (some p)) c0).get? n).map (·.val) =
      match es.find? (·.name == n) with
      | some e => some e.val
      | none => (c0.get? n).map (·.val)
  | [], _, _, _, _ => rfl
  | e :: es, c0, hin, hnd, n => by
    simp only [List.map_cons, List.nodup_cons] at hnd
    have hin' : ∀ e' ∈ es, e'.name ∈ (c0.set e.name e.val (some p)).names := by
      intro e' he'; rw [names_set]; exact hin e' (List.mem_cons_of_mem _ he')
    rw [List.foldl_cons, get_foldl_set p es _ hin' hnd.2 n, List.find?_cons]
    by_cases hen : e.name = n
    · have hnone : es.find? (·.name == n) = none := by
        rw [List.find?_eq_none]
        intro e' he' heq
        exact hnd.1 (List.mem_map.2 ⟨e', he', by rw [hen]; simpa using heq⟩)
      simp only [hnone, hen, beq_self_eq_true]
      rw [get_set _ _ _ _ _ (by rw [← hen]; exact hin e (List.mem_cons_self ..))]
      simp
    · have : (e.name == n) = false := by simpa using hen
      simp only [this]
      cases es.find? (·.name == n) with
      | some e' => rfl
      | none => simp only []; rw [get_set_ne _ _ _ _ _ (fun h => hen h.symm)]

/-- **`load ∘ dump = id`, the whole configuration.** If every entry of a configuration `c` round-trips
    (`normalizeOpt_dumpValue`), then loading the dump of `c` into any configuration object `c0` succeeds —
    no unknown key, no rejected value — and gives every option the value it has in `c`. -/
theorem applyFile_dumpCfg (sd : String) (c c0 : Cfg) (path : String)
    (hc : c.names = Tup.Gen.options.map (·.name)) (hc0 : c0.names = Tup.Gen.options.map (·.name))
    (hrt : ∀ e ∈ c, normalize sd e.name (dumpValue e.name e.val) = .ok e.val) :
    ∃ c', applyFile sd c0 path (dumpCfg c) = .ok c' ∧ c'.names = c0.names ∧
      ∀ n, (c'.get? n).map (·.val) = (c.get? n).map (·.val) := by
  refine ⟨c.foldl (fun c e => c.set e.name e.val (some s!"set from file {path}")) c0, ?_, ?_, ?_⟩
  · unfold applyFile
    rw [fileFold_dump sd _ c c0 false hrt]
    simp
  · exact names_foldl_set _ c c0
  · intro n
    have hin : ∀ e ∈ c, e.name ∈ c0.names := by
      intro e he; rw [hc0, ← hc]; exact List.mem_map.2 ⟨e, he, rfl⟩
    have hnd : (c.map (·.name)).Nodup := by
      have := options_names_nodup; rw [← hc] at this; exact this
    rw [get_foldl_set _ c c0 hin hnd n]
    show _ = (c.find? (·.name == n)).map (·.val)
    cases hf : c.find? (·.name == n) with
    | some e => rfl
    | none =>
      simp only [Option.map_none, Option.map_eq_none_iff]
      show c0.find? (·.name == n) = none
      rw [List.find?_eq_none] at hf ⊢
      intro e0 he0 heq
      have : e0.name ∈ c.names := by rw [hc, ← hc0]; exact List.mem_map.2 ⟨e0, he0, rfl⟩
      obtain ⟨e, he, hname⟩ := List.mem_map.1 this
      exact hf e he (by rw [hname]; exact heq)

end Tup.Config
