import Tup.Lemmas.IdSpace
/-! Helper lemmas for C10: `gen_random_id` as a function of the `secrets.randbelow` draws. Core Lean only. -/
namespace Tup.IdLemmas
open Tup

@[simp] theorem draw_nil (n : Nat) (ok : Bool) : draw n ⟨[], ok⟩ = (0, ⟨[], false⟩) := rfl
@[simp] theorem draw_cons (n d : Nat) (ds : List Nat) (ok : Bool) :
    draw n ⟨d :: ds, ok⟩ = (d, ⟨ds, ok && decide (d < n)⟩) := rfl

def nzOff (u : Sub) : Nat := if u.b ≤ 0 then 1 else u.b

theorem randByte_eq (u : Sub) (st : DrawSt) :
    u.randByte st = ((draw (u.e - u.b) st).1 + u.b, (draw (u.e - u.b) st).2) := rfl

theorem randNonzeroByte_eq (u : Sub) (st : DrawSt) :
    u.randNonzeroByte st =
      ((draw u.numNonzeroByteValues st).1 + nzOff u, (draw u.numNonzeroByteValues st).2) := by
  unfold Sub.randNonzeroByte Sub.numNonzeroByteValues nzOff
  split <;> rfl


theorem or3' (b2 b1 b0 : Nat) (h1 : b1 < 256) (h0 : b0 < 256) :
    (b2 <<< 16) ||| (b1 <<< 8) ||| b0 = b2 * 65536 + b1 * 256 + b0 := by
  rw [Nat.or_assoc, or2 b1 b0 h0,
    ← Nat.shiftLeft_add_eq_or_of_lt (i := 16) (by simp; omega), Nat.shiftLeft_eq]
  omega

theorem or2' (b3 b0 : Nat) (h0 : b0 < 256) : (b3 <<< 24) ||| b0 = b3 * 16777216 + b0 := by
  rw [← Nat.shiftLeft_add_eq_or_of_lt (i := 24) (by simp; omega), Nat.shiftLeft_eq]

/-! ## `gen_random_id`, space by space: which draw lists are accepted and what they produce -/

theorem gen_0t (u : Sub) (draws : List Nat) (id : Nat) :
    (Space.mk 0 true).genRandomId u draws = some id ↔
      ∃ d1, draws = [d1] ∧ d1 < u.numNonzeroByteValues ∧ id = (d1 + nzOff u) * 16777216 := by
  rcases draws with _ | ⟨d1, _ | ⟨d2, rest⟩⟩ <;>
    simp [Space.genRandomId, randNonzeroByte_eq, Nat.shiftLeft_eq]
  intro _; constructor <;> (intro h; omega)

theorem gen_8t (u : Sub) (draws : List Nat) (id : Nat) :
    (Space.mk 8 true).genRandomId u draws = some id ↔
      ∃ d1 d2, draws = [d1, d2] ∧ d1 < u.numNonzeroByteValues ∧ d2 < 255 ∧
        id = (d1 + nzOff u) * 16777216 + (d2 + 1) := by
  constructor
  · intro h
    rcases draws with _ | ⟨d1, _ | ⟨d2, _ | ⟨d3, rest⟩⟩⟩ <;>
      simp [Space.genRandomId, randNonzeroByte_eq] at h
    obtain ⟨⟨h1, h2⟩, rfl⟩ := h
    exact ⟨d1, d2, rfl, h1, h2, or2' _ _ (by omega)⟩
  · rintro ⟨d1, d2, rfl, h1, h2, rfl⟩
    simp [Space.genRandomId, randNonzeroByte_eq]
    exact ⟨⟨h1, h2⟩, or2' _ _ (by omega)⟩

theorem gen_8f (u : Sub) (draws : List Nat) (id : Nat) :
    (Space.mk 8 false).genRandomId u draws = some id ↔
      ∃ d1, draws = [d1] ∧ d1 < u.numNonzeroByteValues ∧ id = d1 + nzOff u := by
  rcases draws with _ | ⟨d1, _ | ⟨d2, rest⟩⟩ <;>
    simp [Space.genRandomId, randNonzeroByte_eq]
  intro _; constructor <;> (intro h; omega)

theorem gen_24t (u : Sub) (draws : List Nat) (id : Nat) :
    (Space.mk 24 true).genRandomId u draws = some id ↔
      ∃ d1 d2 d3 d4, draws = [d1, d2, d3, d4] ∧ d1 < u.numNonzeroByteValues ∧ d2 < 256 ∧ d3 < 256 ∧
        d4 < (if d3 = 0 then 255 else 256) ∧
        id = (d1 + nzOff u) * 16777216 + d3 * 65536 + (if d3 = 0 then d4 + 1 else d4) * 256 + d2 := by
  constructor
  · intro h
    rcases draws with _ | ⟨d1, _ | ⟨d2, _ | ⟨d3, _ | ⟨d4, _ | ⟨d5, rest⟩⟩⟩⟩⟩
    · simp [Space.genRandomId, randNonzeroByte_eq] at h
    · simp [Space.genRandomId, randNonzeroByte_eq] at h
    · simp [Space.genRandomId, randNonzeroByte_eq] at h
    · by_cases h3 : d3 = 0 <;> simp [Space.genRandomId, randNonzeroByte_eq, h3] at h
    · refine ⟨d1, d2, d3, d4, rfl, ?_⟩
      by_cases h3 : d3 = 0
      · simp only [Space.genRandomId, randNonzeroByte_eq, draw_cons, if_pos h3] at h ⊢
        simp at h
        obtain ⟨⟨⟨⟨h1, h2⟩, h3'⟩, h4⟩, rfl⟩ := h
        exact ⟨h1, h2, h3', h4, or4 _ _ _ _ h3' (by omega) h2⟩
      · simp only [Space.genRandomId, randNonzeroByte_eq, draw_cons, if_neg h3] at h ⊢
        simp at h
        obtain ⟨⟨⟨⟨h1, h2⟩, h3'⟩, h4⟩, rfl⟩ := h
        exact ⟨h1, h2, h3', h4, or4 _ _ _ _ h3' (by omega) h2⟩
    · by_cases h3 : d3 = 0 <;> simp [Space.genRandomId, randNonzeroByte_eq, h3] at h
  · rintro ⟨d1, d2, d3, d4, rfl, h1, h2, h3', h4, rfl⟩
    by_cases h3 : d3 = 0
    · simp only [Space.genRandomId, randNonzeroByte_eq, draw_cons, if_pos h3] at h4 ⊢
      simp
      exact ⟨⟨⟨⟨h1, h2⟩, h3'⟩, h4⟩, or4 _ _ _ _ h3' (by omega) h2⟩
    · simp only [Space.genRandomId, randNonzeroByte_eq, draw_cons, if_neg h3] at h4 ⊢
      simp
      exact ⟨⟨⟨⟨h1, h2⟩, h3'⟩, h4⟩, or4 _ _ _ _ h3' (by omega) h2⟩

theorem gen_24f (u : Sub) (draws : List Nat) (id : Nat) :
    (Space.mk 24 false).genRandomId u draws = some id ↔
      ∃ d1 d2 d3, draws = [d1, d2, d3] ∧ d1 < 256 ∧ d2 < u.e - u.b ∧
        d3 < (if d2 + u.b = 0 then 255 else 256) ∧
        id = (d2 + u.b) * 65536 + (if d2 + u.b = 0 then d3 + 1 else d3) * 256 + d1 := by
  constructor
  · intro h
    rcases draws with _ | ⟨d1, _ | ⟨d2, _ | ⟨d3, _ | ⟨d4, rest⟩⟩⟩⟩
    · simp [Space.genRandomId, randByte_eq] at h
      split at h <;> simp at h
    · simp [Space.genRandomId, randByte_eq] at h
      split at h <;> simp at h
    · by_cases h2 : d2 + u.b = 0 <;>
        simp [-Nat.add_eq_zero_iff, Space.genRandomId, randByte_eq, h2] at h
    · refine ⟨d1, d2, d3, rfl, ?_⟩
      by_cases h2 : d2 + u.b = 0
      · simp [-Nat.add_eq_zero_iff, Space.genRandomId, randByte_eq, h2] at h ⊢
        obtain ⟨⟨⟨h1, h2'⟩, h3⟩, rfl⟩ := h
        exact ⟨h1, h2', h3, or2 _ _ h1⟩
      · simp [-Nat.add_eq_zero_iff, Space.genRandomId, randByte_eq, h2] at h ⊢
        obtain ⟨⟨⟨h1, h2'⟩, h3⟩, rfl⟩ := h
        exact ⟨h1, h2', h3, or3' _ _ _ h3 h1⟩
    · by_cases h2 : d2 + u.b = 0 <;>
        simp [-Nat.add_eq_zero_iff, Space.genRandomId, randByte_eq, h2] at h
  · rintro ⟨d1, d2, d3, rfl, h1, h2', h3, rfl⟩
    by_cases h2 : d2 + u.b = 0
    · simp [-Nat.add_eq_zero_iff, Space.genRandomId, randByte_eq, h2] at h3 ⊢
      exact ⟨⟨⟨h1, h2'⟩, h3⟩, or2 _ _ h1⟩
    · simp [-Nat.add_eq_zero_iff, Space.genRandomId, randByte_eq, h2] at h3 ⊢
      exact ⟨⟨⟨h1, h2'⟩, h3⟩, or3' _ _ _ h3 h1⟩

/-! ## soundness and completeness of `gen_random_id` -/

theorem nz_facts (u : Sub) (hu : u.valid = true) :
    1 ≤ nzOff u ∧ u.b ≤ nzOff u ∧ nzOff u + u.numNonzeroByteValues = u.e ∧
      (nzOff u = 1 ∨ nzOff u = u.b) := by
  have hv := (Sub.valid_iff u).1 hu
  unfold nzOff Sub.numNonzeroByteValues
  split <;> omega

/-- whatever in-range draws `secrets.randbelow` returns, the generated id is a member -/
theorem genRandomId_member {s : Space} (hs : s ∈ Space.all) {u : Sub} (hu : u.valid = true)
    {draws : List Nat} {id : Nat} (h : s.genRandomId u draws = some id) :
    Spec.member s u id = true := by
  have hv := (Sub.valid_iff u).1 hu
  have hc := chain id
  have hz := nz_facts u hu
  rw [member_iff]
  rcases mem_all_cases hs with rfl | rfl | rfl | rfl | rfl
  · obtain ⟨d1, rfl, h1, rfl⟩ := (gen_0t u draws id).1 h
    rw [inSpace_0t, subByte_t]
    omega
  · obtain ⟨d1, d2, rfl, h1, h2, rfl⟩ := (gen_8t u draws id).1 h
    rw [inSpace_8t, subByte_t]
    omega
  · obtain ⟨d1, d2, d3, d4, rfl, h1, h2, h3, h4, hid⟩ := (gen_24t u draws id).1 h
    rw [inSpace_24t, subByte_t]
    by_cases h30 : d3 = 0
    · simp only [if_pos h30] at h4 hid; omega
    · simp only [if_neg h30] at h4 hid; omega
  · obtain ⟨d1, rfl, h1, rfl⟩ := (gen_8f u draws id).1 h
    rw [inSpace_8f, subByte_8f]
    omega
  · obtain ⟨d1, d2, d3, rfl, h1, h2, h3, hid⟩ := (gen_24f u draws id).1 h
    rw [inSpace_24f, subByte_24f]
    by_cases h20 : d2 + u.b = 0
    · simp only [if_pos h20] at h3 hid; omega
    · simp only [if_neg h20] at h3 hid; omega

/-- every member can be generated: there are in-range draws producing it -/
theorem genRandomId_surj {s : Space} (hs : s ∈ Space.all) {u : Sub} (hu : u.valid = true)
    {id : Nat} (h : Spec.member s u id = true) : ∃ draws, s.genRandomId u draws = some id := by
  have hv := (Sub.valid_iff u).1 hu
  have hc := chain id
  have hz := nz_facts u hu
  rw [member_iff] at h
  rcases mem_all_cases hs with rfl | rfl | rfl | rfl | rfl
  · rw [inSpace_0t, subByte_t] at h
    refine ⟨[id / 16777216 - nzOff u], (gen_0t u _ id).2 ⟨_, rfl, ?_, ?_⟩⟩ <;> omega
  · rw [inSpace_8t, subByte_t] at h
    refine ⟨[id / 16777216 - nzOff u, id % 256 - 1], (gen_8t u _ id).2 ⟨_, _, rfl, ?_, ?_, ?_⟩⟩ <;>
      omega
  · rw [inSpace_24t, subByte_t] at h
    by_cases h20 : id / 65536 % 256 = 0
    · refine ⟨[id / 16777216 - nzOff u, id % 256, id / 65536 % 256, id / 256 % 256 - 1],
        (gen_24t u _ id).2 ⟨_, _, _, _, rfl, ?_, ?_, ?_, ?_, ?_⟩⟩ <;>
        (try simp only [if_pos h20]) <;> omega
    · refine ⟨[id / 16777216 - nzOff u, id % 256, id / 65536 % 256, id / 256 % 256],
        (gen_24t u _ id).2 ⟨_, _, _, _, rfl, ?_, ?_, ?_, ?_, ?_⟩⟩ <;>
        (try simp only [if_neg h20]) <;> omega
  · rw [inSpace_8f, subByte_8f] at h
    refine ⟨[id - nzOff u], (gen_8f u _ id).2 ⟨_, rfl, ?_, ?_⟩⟩ <;> omega
  · rw [inSpace_24f, subByte_24f] at h
    have e2 : id / 65536 - u.b + u.b = id / 65536 := by omega
    by_cases h20 : id / 65536 = 0
    · refine ⟨[id % 256, id / 65536 - u.b, id / 256 % 256 - 1],
        (gen_24f u _ id).2 ⟨_, _, _, rfl, ?_, ?_, ?_, ?_⟩⟩ <;>
        (try simp only [e2, if_pos h20]) <;> omega
    · refine ⟨[id % 256, id / 65536 - u.b, id / 256 % 256],
        (gen_24f u _ id).2 ⟨_, _, _, rfl, ?_, ?_, ?_, ?_⟩⟩ <;>
        (try simp only [e2, if_neg h20]) <;> omega

end Tup.IdLemmas
