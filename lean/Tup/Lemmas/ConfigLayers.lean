import Tup.Model.Config
import Tup.Spec.Config
/-!
  Helper lemmas for C17 `precedence`: every layer is a list of assignments
  `(option, raw value, provenance)` applied in order through `validate_and_normalize` + `setattr`;
  the constructor applies file ++ env ++ kwargs ++ overrides; the last assignment to an option wins.
-/
namespace Tup.Config
open Tup

structure Asg where
  name : String
  raw : Val
  prov : Option String
deriving Repr

def assign (sd : String) (c : Cfg) (a : Asg) : Except CErr Cfg :=
  match normalize sd a.name a.raw with
  | .ok nv => .ok (c.set a.name nv a.prov)
  | .error e => .error e

def assignAll (sd : String) (c : Cfg) (as : List Asg) : Except CErr Cfg := as.foldlM (assign sd) c

/-- the last assignment to `n` -/
def lastAsg (as : List Asg) (n : String) : Option Asg := (as.filter (·.name == n)).getLast?

def Cfg.names (c : Cfg) : List String := c.map (·.name)

theorem names_set (c : Cfg) (k : String) (v : Val) (p : Option String) : (c.set k v p).names = c.names := by
  unfold Cfg.set Cfg.names
  induction c with
  | nil => rfl
  | cons e es ih =>
      simp only [List.map_cons, List.cons.injEq]
      refine ⟨?_, ih⟩
      split
      · rename_i h; simp at h; exact h.symm
      · rfl

theorem set_notin (c : Cfg) (k : String) (v : Val) (p : Option String) (hk : k ∉ c.names) : c.set k v p = c := by
  unfold Cfg.set Cfg.names at *
  induction c with
  | nil => rfl
  | cons e es ih =>
      simp only [List.map_cons, List.mem_cons, not_or] at hk
      have hf : (e.name == k) = false := by simp; exact fun h => hk.1 h.symm
      simp only [List.map_cons, hf, Bool.false_eq_true, ↓reduceIte, List.cons.injEq, true_and]
      exact ih hk.2

theorem get_set (c : Cfg) (k n : String) (v : Val) (p : Option String) (hk : k ∈ c.names) :
    (c.set k v p).get? n = if n = k then some ⟨k, v, some p⟩ else c.get? n := by
  unfold Cfg.set Cfg.get? Cfg.names at *
  induction c with
  | nil => simp at hk
  | cons e es ih =>
      simp only [List.map_cons, List.find?_cons]
      by_cases hek : e.name = k
      · subst hek
        by_cases hn : n = e.name
        · subst hn; simp
        · have : (e.name == n) = false := by simp; exact fun h => hn h.symm
          simp only [beq_self_eq_true, ↓reduceIte, this, hn]
          by_cases hmem : e.name ∈ es.map (·.name)
          · have := ih hmem; simp only [hn, ↓reduceIte] at this; exact this
          · have := set_notin es e.name v p hmem
            unfold Cfg.set at this
            rw [this]
      · have hk' : k ∈ es.map (·.name) := by
          simp only [List.map_cons, List.mem_cons] at hk
          rcases hk with h | h
          · exact absurd h.symm hek
          · exact h
        have hek' : (e.name == k) = false := by simp [hek]
        simp only [hek', Bool.false_eq_true, ↓reduceIte]
        by_cases hen : e.name = n
        · subst hen
          have : ¬ e.name = k := hek
          simp [this]
        · have : (e.name == n) = false := by simp [hen]
          simp only [this]
          exact ih hk'

theorem normalize_ok_mem {sd n : String} {v nv : Val} (h : normalize sd n v = .ok nv) :
    n ∈ Tup.Gen.options.map (·.name) := by
  unfold normalize at h
  split at h
  · cases h
  · rename_i o ho
    unfold lookupOpt at ho
    have h1 := List.find?_some ho
    have h2 := List.mem_of_find?_eq_some ho
    simp at h1
    exact List.mem_map.mpr ⟨o, h2, h1⟩

/-- After a successful run the last assignment to `n` (if any) determines its entry; otherwise the
    entry is untouched. -/
theorem assignAll_get {sd : String} {as : List Asg} {c c' : Cfg} (hc : c.names = Tup.Gen.options.map (·.name))
    (h : assignAll sd c as = .ok c') (n : String) :
    c'.names = c.names ∧
    match lastAsg as n with
    | some a => ∃ nv, normalize sd n a.raw = .ok nv ∧ c'.get? n = some ⟨n, nv, some a.prov⟩
    | none => c'.get? n = c.get? n := by
  induction as generalizing c with
  | nil =>
      simp only [assignAll, List.foldlM_nil, pure, Except.pure] at h
      cases h
      simp [lastAsg]
  | cons a as ih =>
      simp only [assignAll, List.foldlM_cons, bind, Except.bind] at h
      cases hn : normalize sd a.name a.raw with
      | error e => simp [assign, hn] at h
      | ok nv =>
          simp only [assign, hn] at h
          have hmem : a.name ∈ c.names := by rw [hc]; exact normalize_ok_mem hn
          have hc1 : (c.set a.name nv a.prov).names = Tup.Gen.options.map (·.name) := by rw [names_set, hc]
          obtain ⟨hnames, hlast⟩ := ih hc1 h
          refine ⟨by rw [hnames, names_set], ?_⟩
          unfold lastAsg at hlast ⊢
          simp only [List.filter_cons]
          by_cases han : a.name = n
          · subst han
            simp only [beq_self_eq_true, ↓reduceIte]
            cases hf : (as.filter (·.name == a.name)) with
            | nil =>
                simp only [hf, List.getLast?_nil] at hlast
                simp only [List.getLast?_singleton]
                refine ⟨nv, hn, ?_⟩
                rw [hlast, get_set _ _ _ _ _ hmem]; simp
            | cons b bs =>
                simp only [hf] at hlast
                rw [List.getLast?_cons_cons]
                exact hlast
          · have : (a.name == n) = false := by simp [han]
            simp only [this, Bool.false_eq_true, ↓reduceIte]
            cases hf : (as.filter (·.name == n)).getLast? with
            | some b => simp only [hf] at hlast; exact hlast
            | none =>
                simp only [hf] at hlast
                rw [hlast, get_set _ _ _ _ _ hmem]
                have : ¬ n = a.name := fun h => han h.symm
                simp [this]

theorem get_set_ne (c : Cfg) (k n : String) (v : Val) (p : Option String) (hne : n ≠ k) :
    (c.set k v p).get? n = c.get? n := by
  unfold Cfg.set Cfg.get?
  induction c with
  | nil => rfl
  | cons e es ih =>
      simp only [List.map_cons, List.find?_cons]
      by_cases hek : e.name = k
      · subst hek
        have : (e.name == n) = false := by simp; exact fun h => hne h.symm
        simp only [beq_self_eq_true, ↓reduceIte, this]
        exact ih
      · have hek' : (e.name == k) = false := by simp [hek]
        simp only [hek', Bool.false_eq_true, ↓reduceIte]
        split
        · rfl
        · exact ih

theorem assignAll_append (sd : String) (c : Cfg) (as bs : List Asg) :
    assignAll sd c (as ++ bs) = (assignAll sd c as).bind (fun c' => assignAll sd c' bs) := by
  unfold assignAll
  rw [List.foldlM_append]
  rfl

theorem lastAsg_append (as bs : List Asg) (n : String) :
    lastAsg (as ++ bs) n = (lastAsg bs n).or (lastAsg as n) := by
  unfold lastAsg
  rw [List.filter_append, List.getLast?_append]

/-! ### the layers as assignment lists -/

def dictAsgsWith (p : Option String) (d : List (String × Val)) : List Asg :=
  d.filterMap fun kv => if kv.1 == "provenance" then none else if kv.2 = Val.none then none else some ⟨kv.1, kv.2, p⟩

/-- what a dictionary layer assigns: every entry except the `provenance` label and `None` values,
    labelled with the dictionary's `provenance` entry (default `set from dict`) -/
def dictAsgs (d : List (String × Val)) : List Asg := dictAsgsWith (dictLabel d) d

theorem dictFold_eq (sd : String) (p : Option String) (l : List (String × Val)) (c : Cfg) :
    l.foldlM (dictStep sd p) c = assignAll sd c (dictAsgsWith p l) := by
  induction l generalizing c with
  | nil => rfl
  | cons kv l ih =>
      simp only [List.foldlM_cons, dictAsgsWith, List.filterMap_cons]
      unfold dictStep
      by_cases h1 : kv.1 == "provenance"
      · simp only [h1, ↓reduceIte, bind, Except.bind, pure, Except.pure]
        exact ih c
      · by_cases h2 : kv.2 = Val.none
        · simp only [h1, h2, ↓reduceIte, bind, Except.bind, pure, Except.pure, Bool.false_eq_true]
          exact ih c
        · simp only [h1, h2, ↓reduceIte, Bool.false_eq_true]
          simp only [assignAll, List.foldlM_cons, assign]
          cases normalize sd kv.1 kv.2 with
          | error e => rfl
          | ok nv =>
              simp only [bind, Except.bind, pure, Except.pure]
              exact ih _

theorem applyDict_eq (sd : String) (c : Cfg) (d : List (String × Val)) :
    applyDict sd c d = assignAll sd c (dictAsgs d) := dictFold_eq sd _ d c

theorem lookupOpt_self : ∀ o ∈ Tup.Gen.options, lookupOpt o.name = some o := by decide

/-- what the environment layer assigns: for every option (in declaration order) whose
    `TUPIMAGE_<OPTION>` variable is set, its string value, labelled `set via TUPIMAGE_<OPTION>` -/
def envAsgsOf (env : List (String × String)) (os : List Opt) : List Asg :=
  os.filterMap fun o => (env.find? (·.1 == o.name)).map fun kv => ⟨o.name, .str kv.2, some s!"set via {envVarName o.name}"⟩

def envAsgs (env : List (String × String)) : List Asg := envAsgsOf env Tup.Gen.options

theorem envFold_eq (sd : String) (env : List (String × String)) (os : List Opt)
    (hos : ∀ o ∈ os, lookupOpt o.name = some o) (c : Cfg) :
    os.foldlM (envStep sd env) c = assignAll sd c (envAsgsOf env os) := by
  induction os generalizing c with
  | nil => rfl
  | cons o os ih =>
      have ih' := ih (fun o' h => hos o' (by simp [h]))
      simp only [List.foldlM_cons, envAsgsOf, List.filterMap_cons]
      unfold envStep
      cases hf : env.find? (·.1 == o.name) with
      | none =>
          simp only [Option.map_none, bind, Except.bind, pure, Except.pure]
          exact ih' c
      | some kv =>
          simp only [Option.map_some]
          simp only [assignAll, List.foldlM_cons, assign, normalize, hos o (by simp)]
          cases normalizeOpt sd o (.str kv.2) with
          | error e => rfl
          | ok nv =>
              simp only [bind, Except.bind, pure, Except.pure]
              exact ih' _

theorem applyEnv_eq (sd : String) (c : Cfg) (env : List (String × String)) :
    applyEnv sd c env = assignAll sd c (envAsgs env) := envFold_eq sd env _ lookupOpt_self c

/-- what the file layer assigns: every key that is an option, in file order, labelled with the path -/
def fileAsgsOf (p : String) (kvs : List (String × Val)) : List Asg :=
  kvs.filterMap fun kv => (lookupOpt kv.1).map fun _ => ⟨kv.1, kv.2, some p⟩

def fileAsgs (file : Option (String × List (String × Val))) : List Asg :=
  match file with
  | none => []
  | some (path, kvs) => fileAsgsOf s!"set from file {path}" kvs

theorem fileFold_ok (sd p : String) (kvs : List (String × Val)) (c : Cfg) (u : Bool) {c' : Cfg} {u' : Bool}
    (h : kvs.foldlM (fileStep sd p) (c, u) = .ok (c', u')) : assignAll sd c (fileAsgsOf p kvs) = .ok c' := by
  induction kvs generalizing c u with
  | nil =>
      simp only [List.foldlM_nil, pure, Except.pure] at h
      cases h; rfl
  | cons kv kvs ih =>
      simp only [List.foldlM_cons, bind, Except.bind] at h
      simp only [fileAsgsOf, List.filterMap_cons]
      unfold fileStep at h
      cases hl : lookupOpt kv.1 with
      | none =>
          simp only [hl, pure, Except.pure] at h
          simp only [Option.map_none]
          exact ih _ _ h
      | some o =>
          simp only [hl] at h
          simp only [Option.map_some, assignAll, List.foldlM_cons, assign, normalize, hl]
          cases hn : normalizeOpt sd o kv.2 with
          | error e => simp [hn] at h
          | ok nv =>
              simp only [hn, pure, Except.pure] at h
              simp only [bind, Except.bind]
              exact ih _ _ h

theorem applyFile_ok {sd : String} {c c' : Cfg} {path : String} {kvs : List (String × Val)}
    (h : applyFile sd c path kvs = .ok c') : assignAll sd c (fileAsgs (some (path, kvs))) = .ok c' := by
  unfold applyFile at h
  split at h
  · cases h
  · rename_i c1 unk hf
    have hc : c1 = c' := by
      cases hg : c1.get? "ignore_unknown_attributes" with
      | none =>
          simp only [hg] at h
          cases unk <;> simp at h
          exact h
      | some e =>
          simp only [hg] at h
          by_cases hb : (unk && !truthyBool e.val) = true
          · simp [hb] at h
          · simp only [hb, Bool.false_eq_true, ↓reduceIte, Except.ok.injEq] at h; exact h
    subst hc
    exact fileFold_ok sd _ kvs c false hf

open Tup.Spec.Config in
/-- the assignments of each layer -/
def asgsOf (L : Layers) : Layer → List Asg
  | .file => fileAsgs L.file
  | .env => envAsgs L.env
  | .kwargs => dictAsgs L.kwargs
  | .overrides => dictAsgs L.overrides

open Tup.Spec.Config in
/-- which layers set option `n` -/
def setsOf (L : Layers) (n : String) : Sets :=
  { file := (lastAsg (asgsOf L .file) n).isSome, env := (lastAsg (asgsOf L .env) n).isSome,
    kwargs := (lastAsg (asgsOf L .kwargs) n).isSome, overrides := (lastAsg (asgsOf L .overrides) n).isSome }

theorem init_names (sd : String) : (Cfg.init sd).names = Tup.Gen.options.map (·.name) := by
  simp [Cfg.init, Cfg.names, List.map_map, Function.comp_def]

theorem expandTmux_get (sd : String) (tmux : Bool) (c : Cfg) (n : String) (hn : n ≠ "num_tmux_layers") :
    (expandTmux sd tmux c).get? n = c.get? n := by
  unfold expandTmux
  split
  · split
    · exact get_set_ne _ _ _ _ _ hn
    · rfl
  · rfl

/-- The constructor is the four layers' assignments applied in order; only `num_tmux_layers` is touched afterwards. -/
theorem construct_assigns {sd : String} {tmux : Bool} {L : Layers} {cfg : Cfg} (h : construct sd tmux L = .ok cfg) :
    ∃ c4, assignAll sd (Cfg.init sd) (fileAsgs L.file ++ envAsgs L.env ++ dictAsgs L.kwargs ++ dictAsgs L.overrides) = .ok c4 ∧
      ∀ n, n ≠ "num_tmux_layers" → cfg.get? n = c4.get? n := by
  unfold construct at h
  cases hl : applyLayers sd L with
  | error e => simp [hl, Except.map] at h
  | ok c4 =>
    simp only [hl, Except.map, Except.ok.injEq] at h
    subst h
    refine ⟨c4, ?_, fun n hn => expandTmux_get sd tmux c4 n hn⟩
    unfold applyLayers at hl
    have hfile : ∃ c1, assignAll sd (Cfg.init sd) (fileAsgs L.file) = .ok c1 ∧ applyAfterFile sd L c1 = .ok c4 := by
      rcases hf : L.file with _ | ⟨path, kvs⟩
      · simp only [hf, Except.bind] at hl
        exact ⟨_, rfl, hl⟩
      · simp only [hf] at hl
        cases ha : applyFile sd (Cfg.init sd) path kvs with
        | error e => simp [ha, Except.bind] at hl
        | ok c1 =>
            simp only [ha, Except.bind] at hl
            exact ⟨c1, applyFile_ok ha, hl⟩
    obtain ⟨c1, h1, h⟩ := hfile
    unfold applyAfterFile at h
    cases h2 : applyEnv sd c1 L.env with
    | error e => simp [h2, Except.bind] at h
    | ok c2 =>
      simp only [h2, Except.bind] at h
      unfold applyCallTime at h
      cases h3 : applyDict sd c2 L.kwargs with
      | error e => simp [h3, Except.bind] at h
      | ok c3 =>
        simp only [h3, Except.bind] at h
        rw [applyEnv_eq] at h2
        rw [applyDict_eq] at h3 h
        rw [assignAll_append, assignAll_append, assignAll_append, h1]
        simp only [Except.bind, h2, h3, h]

/-! ### `_verify_type` against the specification's typing -/

theorem scalarIs_eq (x : Scalar) (b : Base) : scalarIs x b = Spec.Config.scalarHas x b := by
  cases x <;> cases b <;> rfl

theorem allZip_eq (xs : List Scalar) (bs : List Base) : allZip xs bs = Spec.Config.itemsHave xs bs := by
  induction xs generalizing bs with
  | nil => cases bs <;> rfl
  | cons x xs ih => cases bs with
    | nil => rfl
    | cons b bs => simp [allZip, Spec.Config.itemsHave, scalarIs_eq, ih]

theorem verifyType_eq (v : Val) (ty : Ty) : verifyType v ty = Spec.Config.hasType v ty := by
  unfold verifyType Spec.Config.hasType
  congr 1
  funext a
  cases a with
  | base b => cases v <;> simp [valIsAlt, valIsBase, Spec.Config.hasAlt, scalarIs_eq]
  | tuple args => cases v <;> simp [valIsAlt, Spec.Config.hasAlt, allZip_eq]
  | list arg => cases v <;> simp [valIsAlt, Spec.Config.hasAlt, scalarIs_eq]

end Tup.Config
