import Tup.Lemmas.TxnLin
/-!
  Helper lemmas for C03, part 5: "one description, one id" — how a complete `get_id` changes the set
  `dIds` of ids bound to its description (`getId_dIds`), and the chain argument over the
  sequential run of a linearisation (`dIds_le_one`, `dIds_persist`).
-/
namespace Tup.TxnLemmas
open Tup Tup.Txn Tup.DbLemmas Tup.IdLemmas Tup.AllocLemmas Tup.Spec.AllocStep

/-! ## rows carrying a description under the individual writes -/

theorem byDesc_setAtime_ids (t : Table) (s : Space) (u : Sub) (d : String) (id now : Nat) :
    ((t.setAtime id now).byDesc s u d).map (·.id) = (t.byDesc s u d).map (·.id) := by
  unfold Table.setAtime Table.byDesc
  rw [List.filter_map, List.map_map]
  have h1 : ((fun r : Row => r.desc == d && s.sqlFilter u r.id) ∘
      fun r : Row => if r.id == id then { r with atime := now } else r) =
      fun r => r.desc == d && s.sqlFilter u r.id := by
    funext r; simp only [Function.comp]; split <;> rfl
  have h2 : ((fun r : Row => r.id) ∘ fun r : Row => if r.id == id then { r with atime := now } else r) =
      fun r => r.id := by
    funext r; simp only [Function.comp]; split <;> rfl
  rw [h1, h2]

theorem byDesc_upsert_of_miss {t : Table} {s : Space} {u : Sub} {d : String} {id : Nat} (now : Nat)
    (hmiss : t.byDesc s u d = []) (hf : s.sqlFilter u id = true) :
    (t.upsert ⟨id, d, now⟩).byDesc s u d = [⟨id, d, now⟩] := by
  unfold Table.upsert Table.byDesc Table.erase at *
  rw [List.filter_cons]
  simp only [beq_self_eq_true, hf, Bool.and_self, ↓reduceIte, List.cons.injEq, true_and]
  rw [List.filter_eq_nil_iff] at hmiss ⊢
  intro r hr
  exact hmiss r (List.mem_filter.1 hr).1

theorem cleanups_byDesc_nil {s : Space} {u : Sub} {d : String} {db db1 : Db} (hc : Cleanups s u db db1)
    (hmiss : (db.ids s).byDesc s u d = []) : (db1.ids s).byDesc s u d = [] := by
  induction hc with
  | refl db => exact hmiss
  | step m removed h _ ih =>
    obtain ⟨_, rfl⟩ := cleanup_ok h
    exact ih (by rw [ids_setIds_same]; exact byDesc_eraseAll_nil _ hmiss)

theorem dIds_after_set {req : Req} {db db' : Db} {id now : Nat} (hs : req.space ∈ Space.all)
    (hmiss : (db.ids req.space).byDesc req.space req.sub req.desc = [])
    (hin : Spec.inSpace req.space id = true) (hf : req.space.sqlFilter req.sub id = true)
    (hset : setId db id req.desc now = .ok db') : dIds req db' = [id] := by
  rw [setId_of_inSpace hs hin hset]
  unfold dIds
  rw [ids_setIds_same, byDesc_upsert_of_miss now hmiss hf]
  rfl

theorem eq_singleton_of_mem {l : List Nat} {x : Nat} (hlen : l.length ≤ 1) (hx : x ∈ l) : l = [x] := by
  match l, hlen, hx with
  | [y], _, hx => simp at hx; rw [hx]
  | _ :: _ :: _, hlen, _ => simp at hlen

/-- What a complete `get_id(req)` does to the ids bound to `req.desc` in its subspace, when at most
    one id is bound: it returns that id if there is one; otherwise, if it returns an id, that id is
    afterwards the only one bound; if it fails, none is bound. -/
theorem getId_dIds {cfg : Cfg} {req : Req} {now : Nat} {ch : GetChoice} {db db' : Db} {res : GetRes} {out : Outcome}
    (hinv : DbInv db) (hs : req.space ∈ Space.all) (hu : req.sub.valid = true)
    (hlen : (dIds req db).length ≤ 1) (h : getId cfg db req now ch = .ok (db', res, out)) :
    (∀ n, res = .id n → dIds req db' = [n]) ∧ (res = .noUnusedId → dIds req db' = []) ∧
    (∀ m, dIds req db = [m] → res = .id m) := by
  have hnil : ∀ {m}, (db.ids req.space).byDesc req.space req.sub req.desc = [] → dIds req db = [m] → False := by
    intro m h1 h2; unfold dIds at h2; rw [h1] at h2; cases h2
  cases getId_spec h with
  | block hb =>
    cases hb with
    | hit r hr hd hf hid hdb =>
      have hmem : ch.pick ∈ dIds req db := by
        unfold dIds Table.byDesc
        exact List.mem_map.2 ⟨r, List.mem_filter.2 ⟨hr, by simp [hd, hf]⟩, hid⟩
      have hd1 := eq_singleton_of_mem hlen hmem
      have hd2 : dIds req db' = [ch.pick] := by
        subst hdb; unfold dIds at hd1 ⊢; rw [ids_setIds_same, byDesc_setAtime_ids]; exact hd1
      refine ⟨fun n hn => ?_, (fun hn => by cases hn), fun m hm => ?_⟩
      · injection hn with hn; rw [← hn]; exact hd2
      · rw [hd1] at hm; injection hm with hm; rw [hm]
    | recycled v hmiss henum hv hid hold hwhy hset =>
      obtain ⟨hvt, hf⟩ := mem_inSub.1 hv
      have hin := hinv.space _ hs v hvt
      rw [hid] at hf hin
      have := dIds_after_set hs hmiss hin hf hset
      refine ⟨fun n hn => ?_, (fun hn => by cases hn), fun m hm => (hnil hmiss hm).elim⟩
      injection hn with hn; rw [← hn]; exact this
    | fresh hmiss henum hcount hall hfree hset =>
      have hm := (mem_allIds_iff_member hs hu _).1 hall
      have hin := inSpace_of_member hm
      have := dIds_after_set hs hmiss hin ((sqlFilter_iff_member hu hin).2 hm) hset
      refine ⟨fun n hn => ?_, (fun hn => by cases hn), fun m hm => (hnil hmiss hm).elim⟩
      injection hn with hn; rw [← hn]; exact this
  | sampled hmiss henum hcl hmem hfree hset =>
    have hm := member_of_containsInSub hs hmem
    have hin := inSpace_of_member hm
    have := dIds_after_set hs (cleanups_byDesc_nil hcl hmiss) hin ((sqlFilter_iff_member hu hin).2 hm) hset
    refine ⟨fun n hn => ?_, (fun hn => by cases hn), fun m hm => (hnil hmiss hm).elim⟩
    injection hn with hn; rw [← hn]; exact this
  | exhausted hmiss henum hcl =>
    refine ⟨(fun n hn => by cases hn), fun _ => ?_, fun m hm => (hnil hmiss hm).elim⟩
    unfold dIds; rw [cleanups_byDesc_nil hcl hmiss]; rfl

/-! ## the sequential run of a linearisation, position by position -/

theorem dbAt_zero (cfg : Cfg) (db0 : Db) (lin : List LinOp) : dbAt cfg db0 lin 0 = db0 := rfl

theorem dbAt_succ {cfg : Cfg} {db0 : Db} {lin : List LinOp} {k : Nat} {e : LinOp} (h : lin[k]? = some e) :
    dbAt cfg db0 lin (k + 1) = applyOp cfg (dbAt cfg db0 lin k) e.op := by
  unfold dbAt
  rw [List.take_add_one, h, List.map_append, run_append]
  rfl

theorem dbAt_succ_none {cfg : Cfg} {db0 : Db} {lin : List LinOp} {k : Nat} (h : lin[k]? = none) :
    dbAt cfg db0 lin (k + 1) = dbAt cfg db0 lin k := by
  unfold dbAt
  rw [List.take_add_one, h]; simp

theorem dbAt_length (cfg : Cfg) (db0 : Db) (lin : List LinOp) :
    dbAt cfg db0 lin lin.length = run cfg (lin.map (·.op)) db0 := by
  unfold dbAt; rw [List.take_length]

theorem dbAt_inv {cfg : Cfg} {db0 : Db} (hinv : DbInv db0) (lin : List LinOp) (k : Nat) :
    DbInv (dbAt cfg db0 lin k) := C01.run_inv cfg _ hinv

/-- one position of the sequential run: "at most one id bound" is kept, and a bound id stays bound -/
theorem dIds_step {cfg : Cfg} {req : Req} {db0 : Db} {lin : List LinOp} (hinv : DbInv db0)
    (hund : Undisturbed cfg req db0 lin) (k : Nat) (hlen : (dIds req (dbAt cfg db0 lin k)).length ≤ 1) :
    (dIds req (dbAt cfg db0 lin (k + 1))).length ≤ 1 ∧
    ∀ m, dIds req (dbAt cfg db0 lin k) = [m] → dIds req (dbAt cfg db0 lin (k + 1)) = [m] := by
  cases hk : lin[k]? with
  | none => rw [dbAt_succ_none hk]; exact ⟨hlen, fun _ h => h⟩
  | some e =>
    by_cases hsame : ∃ now ch, e.op = .get req now ch
    · obtain ⟨now, ch, hop⟩ := hsame
      rw [dbAt_succ hk, hop]
      simp only [applyOp]
      split
      · next hv =>
        simp only [Bool.and_eq_true] at hv
        split
        · next db' res out hg =>
          obtain ⟨h1, h2, h3⟩ := getId_dIds (dbAt_inv hinv lin k) ((valid_iff_mem_all _).1 hv.1) hv.2 hlen hg
          refine ⟨?_, fun m hm => h1 m (h3 m hm)⟩
          cases res with
          | id n => rw [h1 n rfl]; simp
          | noUnusedId => rw [h2 rfl]; simp
        · exact ⟨hlen, fun _ h => h⟩
      · exact ⟨hlen, fun _ h => h⟩
    · have := hund k e hk (fun now ch h => hsame ⟨now, ch, h⟩)
      rw [this]; exact ⟨hlen, fun _ h => h⟩

theorem dIds_le_one {cfg : Cfg} {req : Req} {db0 : Db} {lin : List LinOp} (hinv : DbInv db0)
    (hund : Undisturbed cfg req db0 lin) (hfresh : (dIds req db0).length ≤ 1) (k : Nat) :
    (dIds req (dbAt cfg db0 lin k)).length ≤ 1 := by
  induction k with
  | zero => exact hfresh
  | succ k ih => exact (dIds_step hinv hund k ih).1

theorem dIds_persist {cfg : Cfg} {req : Req} {db0 : Db} {lin : List LinOp} (hinv : DbInv db0)
    (hund : Undisturbed cfg req db0 lin) (hfresh : (dIds req db0).length ≤ 1) {k : Nat} {m : Nat}
    (hm : dIds req (dbAt cfg db0 lin k) = [m]) (k' : Nat) (hk' : k ≤ k') :
    dIds req (dbAt cfg db0 lin k') = [m] := by
  obtain ⟨d, rfl⟩ := Nat.exists_eq_add_of_le hk'
  induction d with
  | zero => exact hm
  | succ d ih =>
    exact (dIds_step hinv hund (k + d) (dIds_le_one hinv hund hfresh _)).2 m (ih (Nat.le_add_right _ _))

theorem dbAt_ge {cfg : Cfg} {db0 : Db} {lin : List LinOp} {k : Nat} (hk : lin.length ≤ k) :
    dbAt cfg db0 lin k = run cfg (lin.map (·.op)) db0 := by
  unfold dbAt; rw [List.take_of_length_le hk]

/-- two own `get req` entries at positions `k₁ < k₂` return the same id, and it is the only id bound at the end -/
theorem two_gets_same {cfg : Cfg} {req : Req} {db0 : Db} {lin : List LinOp} (hinv : DbInv db0)
    (hund : Undisturbed cfg req db0 lin) (hfresh : (dIds req db0).length ≤ 1)
    {k1 k2 : Nat} (hlt : k1 < k2) {now1 now2 : Nat} {ch1 ch2 : GetChoice} {n1 n2 : Nat} {o1 o2 : Outcome}
    (hs : req.space.valid = true) (hu : req.sub.valid = true)
    (h1 : getId cfg (dbAt cfg db0 lin k1) req now1 ch1 = .ok (dbAt cfg db0 lin (k1 + 1), .id n1, o1))
    (h2 : getId cfg (dbAt cfg db0 lin k2) req now2 ch2 = .ok (dbAt cfg db0 lin (k2 + 1), .id n2, o2)) :
    n1 = n2 ∧ dIds req (run cfg (lin.map (·.op)) db0) = [n1] := by
  have hsa := (valid_iff_mem_all _).1 hs
  have a1 := (getId_dIds (dbAt_inv hinv lin k1) hsa hu (dIds_le_one hinv hund hfresh k1) h1).1 n1 rfl
  have a2 := dIds_persist hinv hund hfresh a1 k2 hlt
  have a3 := (getId_dIds (dbAt_inv hinv lin k2) hsa hu (dIds_le_one hinv hund hfresh k2) h2).2.2 n1 a2
  injection a3 with a3
  refine ⟨a3.symm, ?_⟩
  have a4 := dIds_persist hinv hund hfresh a1 (max (k1 + 1) lin.length) (Nat.le_max_left _ _)
  rw [dbAt_ge (Nat.le_max_right _ _)] at a4
  exact a4

/-- a linearisation that consists of `get_id`s for this one request key only is undisturbed -/
theorem undisturbed_of_all_gets {cfg : Cfg} {req : Req} {db0 : Db} {lin : List LinOp}
    (h : ∀ e ∈ lin, ∃ now ch, e.op = .get req now ch) : Undisturbed cfg req db0 lin := by
  intro k e hk hne
  obtain ⟨now, ch, hop⟩ := h e (List.mem_of_getElem? hk)
  exact absurd hop (hne now ch)

end Tup.TxnLemmas
