import Tup.Base64
/-!
  Lemmas about `Tup.Base64`: the independent strict decoder inverts the encoder, the length
  formula, padding only when `3 ∤ length`, and the output alphabet (hence no ESC, `;`, `,`).
  Core Lean only.
-/
namespace Tup

/-- the decoder's value table inverts the encoder's character table -/
theorem b64val_b64c_fin : ∀ i : Fin 64, b64val (b64c i.val) = some i.val := by decide +kernel

theorem b64val_b64c {n : Nat} (h : n < 64) : b64val (b64c n) = some n := b64val_b64c_fin ⟨n, h⟩

theorem b64c_ne_pad_fin : ∀ i : Fin 64, b64c i.val ≠ b64pad := by decide +kernel

theorem b64c_mod (n : Nat) : b64c n = b64c (n % 64) := by simp [b64c]

theorem b64c_ne_pad (n : Nat) : b64c n ≠ b64pad := by
  rw [b64c_mod]; exact b64c_ne_pad_fin ⟨n % 64, Nat.mod_lt _ (by decide)⟩

theorem b64c_isSome_fin : ∀ i : Fin 64, (b64val (b64c i.val)).isSome = true := by decide +kernel

/-- every character produced by the encoder's table is in the alphabet -/
theorem b64c_alpha (n : Nat) : (b64val (b64c n)).isSome = true := by
  rw [b64c_mod]; exact b64c_isSome_fin ⟨n % 64, Nat.mod_lt _ (by decide)⟩

/-- characters that are neither in the alphabet nor `=` -/
theorem not_isB64Char_esc : isB64Char 27 = false := by decide
theorem not_isB64Char_semi : isB64Char 59 = false := by decide
theorem not_isB64Char_comma : isB64Char 44 = false := by decide

theorem b64enc_length (xs : Bytes) : (b64enc xs).length = 4 * ((xs.length + 2) / 3) := by
  fun_induction b64enc xs <;> simp_all <;> omega

/-- all output bytes are alphabet characters or `=` -/
theorem b64enc_alpha (xs : Bytes) : ∀ c ∈ b64enc xs, isB64Char c = true := by
  fun_induction b64enc xs <;> simp_all [isB64Char, b64c_alpha]

theorem esc_not_mem_b64enc (xs : Bytes) : (27 : UInt8) ∉ b64enc xs := by
  intro h; have := b64enc_alpha xs _ h; simp [not_isB64Char_esc] at this

theorem semi_not_mem_b64enc (xs : Bytes) : (59 : UInt8) ∉ b64enc xs := by
  intro h; have := b64enc_alpha xs _ h; simp [not_isB64Char_semi] at this

/-- induction in steps of three bytes, the shape of `b64enc` -/
theorem bytes3_induction {P : Bytes → Prop} (h0 : P []) (h1 : ∀ a, P [a]) (h2 : ∀ a b, P [a, b])
    (h3 : ∀ a b c rest, P rest → P (a :: b :: c :: rest)) : ∀ xs, P xs
  | [] => h0
  | [a] => h1 a
  | [a, b] => h2 a b
  | a :: b :: c :: rest => h3 a b c rest (bytes3_induction h0 h1 h2 h3 rest)

theorem b64enc_cons3 (a b c : UInt8) (rest : Bytes) :
    b64enc (a :: b :: c :: rest) =
      b64c (a.toNat / 4) :: b64c ((a.toNat % 4) * 16 + b.toNat / 16) :: b64c ((b.toNat % 16) * 4 + c.toNat / 64)
        :: b64c (c.toNat % 64) :: b64enc rest := by
  simp [b64enc]

/-- no padding when the length is a multiple of 3 -/
theorem pad_not_mem_b64enc (xs : Bytes) (h : xs.length % 3 = 0) : b64pad ∉ b64enc xs := by
  induction xs using bytes3_induction with
  | h0 => simp [b64enc]
  | h1 a => simp at h
  | h2 a b => simp at h
  | h3 a b c rest ih =>
    have h' : rest.length % 3 = 0 := by simp at h; omega
    rw [b64enc_cons3]
    simp only [List.mem_cons, not_or]
    exact ⟨(b64c_ne_pad _).symm, (b64c_ne_pad _).symm, (b64c_ne_pad _).symm, (b64c_ne_pad _).symm, ih h'⟩

/-- one full quantum in front of anything: the decoder peels it off -/
theorem b64dec_quantum (p q r s : UInt8) (tl : Bytes) (hr : r ≠ b64pad) (hs : s ≠ b64pad) :
    b64dec (p :: q :: r :: s :: tl) = (do
      let x ← b64val p; let y ← b64val q; let z ← b64val r; let w ← b64val s
      let t ← b64dec tl
      pure (UInt8.ofNat (x * 4 + y / 16) :: UInt8.ofNat (y % 16 * 16 + z / 4) :: UInt8.ofNat (z % 4 * 64 + w) :: t)) := by
  cases tl with
  | nil =>
    simp only [b64dec, hs, hr, false_and, if_false]
    cases b64val p <;> cases b64val q <;> cases b64val r <;> cases b64val s <;> rfl
  | cons t ts => simp only [b64dec]

private theorem u8_ofNat_toNat (a : UInt8) : UInt8.ofNat a.toNat = a := by simp

/-- The independent decoder inverts the encoder. -/
theorem b64dec_b64enc (xs : Bytes) : b64dec (b64enc xs) = some xs := by
  induction xs using bytes3_induction with
  | h0 => rfl
  | h1 a =>
    have ha := a.toNat_lt
    simp only [b64enc, b64dec, and_self, if_true]
    rw [b64val_b64c (by omega), b64val_b64c (by omega)]
    simp only [bind, Option.bind, pure]
    have e1 : a.toNat / 4 * 4 + (a.toNat % 4 * 16) / 16 = a.toNat := by omega
    rw [e1, u8_ofNat_toNat]
  | h2 a b =>
    have ha := a.toNat_lt; have hb := b.toNat_lt
    have hp : b64c (b.toNat % 16 * 4) ≠ b64pad := b64c_ne_pad _
    simp only [b64enc, b64dec, hp, false_and, if_false, if_true]
    rw [b64val_b64c (by omega), b64val_b64c (by omega), b64val_b64c (by omega)]
    simp only [bind, Option.bind, pure]
    have e1 : a.toNat / 4 * 4 + (a.toNat % 4 * 16 + b.toNat / 16) / 16 = a.toNat := by omega
    have e2 : (a.toNat % 4 * 16 + b.toNat / 16) % 16 * 16 + (b.toNat % 16 * 4) / 4 = b.toNat := by omega
    rw [e1, e2, u8_ofNat_toNat, u8_ofNat_toNat]
  | h3 a b c rest ih =>
    have ha := a.toNat_lt; have hb := b.toNat_lt; have hc := c.toNat_lt
    rw [b64enc_cons3, b64dec_quantum _ _ _ _ _ (b64c_ne_pad _) (b64c_ne_pad _), ih]
    rw [b64val_b64c (by omega), b64val_b64c (by omega), b64val_b64c (by omega), b64val_b64c (by omega)]
    simp only [bind, Option.bind, pure]
    have e1 : a.toNat / 4 * 4 + (a.toNat % 4 * 16 + b.toNat / 16) / 16 = a.toNat := by omega
    have e2 : (a.toNat % 4 * 16 + b.toNat / 16) % 16 * 16 + (b.toNat % 16 * 4 + c.toNat / 64) / 4 = b.toNat := by omega
    have e3 : (b.toNat % 16 * 4 + c.toNat / 64) % 4 * 64 + c.toNat % 64 = c.toNat := by omega
    rw [e1, e2, e3, u8_ofNat_toNat, u8_ofNat_toNat, u8_ofNat_toNat]

end Tup
