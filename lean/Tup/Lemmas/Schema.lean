import Tup.Model.Schema
namespace Tup.Schema

theorem mem_exec_self (db : List Obj) (o : Obj) : o ∈ exec db o := by
  unfold exec; split <;> simp_all

theorem mem_exec_of_mem {db : List Obj} {o p : Obj} (h : p ∈ db) : p ∈ exec db o := by
  unfold exec; split <;> simp_all

theorem mem_foldl_of_mem (l : List Obj) {db : List Obj} {p : Obj} (h : p ∈ db) : p ∈ l.foldl exec db := by
  induction l generalizing db with
  | nil => exact h
  | cons o l ih => exact ih (mem_exec_of_mem h)

theorem mem_foldl_of_mem_list (l : List Obj) (db : List Obj) {p : Obj} (h : p ∈ l) : p ∈ l.foldl exec db := by
  induction l generalizing db with
  | nil => cases h
  | cons o l ih =>
    rcases List.mem_cons.1 h with rfl | h
    · exact mem_foldl_of_mem l (mem_exec_self db _)
    · exact ih _ h

/-- `exec` adds nothing but its own object -/
theorem mem_exec_iff {db : List Obj} {o p : Obj} : p ∈ exec db o ↔ p ∈ db ∨ p = o := by
  unfold exec; split
  · constructor
    · exact Or.inl
    · rintro (h | rfl) <;> assumption
  · simp

theorem mem_foldl_iff (l : List Obj) (db : List Obj) (p : Obj) : p ∈ l.foldl exec db ↔ p ∈ db ∨ p ∈ l := by
  induction l generalizing db with
  | nil => simp
  | cons o l ih =>
    rw [List.foldl_cons, ih, mem_exec_iff]
    simp only [List.mem_cons]
    constructor
    · rintro ((h | h) | h)
      · exact Or.inl h
      · exact Or.inr (Or.inl h)
      · exact Or.inr (Or.inr h)
    · rintro (h | h | h)
      · exact Or.inl (Or.inl h)
      · exact Or.inl (Or.inr h)
      · exact Or.inr h

/-- on a database in which `o` exists the statement changes nothing -/
theorem exec_of_mem {db : List Obj} {o : Obj} (h : o ∈ db) : exec db o = db := by
  unfold exec; simp [h]

theorem foldl_exec_of_all_mem (l : List Obj) (db : List Obj) (h : ∀ o ∈ l, o ∈ db) : l.foldl exec db = db := by
  induction l generalizing db with
  | nil => rfl
  | cons o l ih =>
    rw [List.foldl_cons, exec_of_mem (h o (by simp))]
    exact ih db (fun p hp => h p (by simp [hp]))

end Tup.Schema
