import Tup.Model.Txn
import Tup.Lemmas.AllocFrame
/-!
  Helper lemmas for C03 / C12, part 1: the single atomic step (`pstep`) — what it does to the
  database (`step_db`), what it returns (`step_returns`), and bookkeeping facts (`finished` is a
  fixed point, the termination measure decreases). Core Lean only.
-/
namespace Tup.TxnLemmas
open Tup Tup.Txn Tup.DbLemmas Tup.IdLemmas Tup.AllocLemmas Tup.Spec.AllocStep

/-! ## blocks of `get_id` without the "lookup missed" assumption -/

theorem lookupBlock_miss {cfg : Cfg} {req : Req} {now pick : Nat} {db : Db}
    (hmiss : (db.ids req.space).byDesc req.space req.sub req.desc = [])
    (henum : isEnumerable cfg req.space req.sub = false) :
    lookupBlock cfg req now pick db = .ok (db, .miss) := by
  unfold lookupBlock
  simp [hmiss, henum]

theorem lookupBlock_hit {cfg : Cfg} {req : Req} {now pick : Nat} {db : Db}
    (hne : ((db.ids req.space).byDesc req.space req.sub req.desc).isEmpty = false)
    (hany : ((db.ids req.space).byDesc req.space req.sub req.desc).any (fun r => r.id == pick) = true) :
    lookupBlock cfg req now pick db =
      .ok (db.setIds req.space ((db.ids req.space).setAtime pick now), .done pick .hit) := by
  unfold lookupBlock
  simp [hne, hany]

/-- everything a sampling block can do, from any database -/
theorem sampleBlock_cases {req : Req} {now pick : Nat} {smp : List Nat} {db db' : Db} {r : SampleRes}
    (h : sampleBlock req now pick smp db = .ok (db', r)) :
    (((db.ids req.space).byDesc req.space req.sub req.desc).isEmpty = false ∧
      ((db.ids req.space).byDesc req.space req.sub req.desc).any (fun r => r.id == pick) = true ∧
      r = .found pick ∧ db' = db.setIds req.space ((db.ids req.space).setAtime pick now)) ∨
    ((db.ids req.space).byDesc req.space req.sub req.desc = [] ∧
      ((r = .none ∧ db' = db) ∨
       (∃ id, r = .inserted id ∧ req.space.containsInSub id req.sub = some true ∧
         (db.ids req.space).hasId id = false ∧ setId db id req.desc now = .ok db'))) := by
  cases hh : ((db.ids req.space).byDesc req.space req.sub req.desc).isEmpty with
  | true =>
    have hmiss : (db.ids req.space).byDesc req.space req.sub req.desc = [] := by simpa using hh
    exact Or.inr ⟨hmiss, sampleBlock_spec hmiss h⟩
  | false =>
    left
    unfold sampleBlock at h
    simp only [hh, Bool.not_false, ↓reduceIte] at h
    split at h
    · next hany =>
      injection h with h; injection h with h1 h2
      exact ⟨rfl, hany, h2.symm, h1.symm⟩
    · cases h

/-! ## `finished` is a fixed point -/

@[simp] theorem pstep_finished (cfg : Cfg) (r : Result) (db : Db) :
    pstep cfg (.finished r) db = .ok (.finished r, db) := by
  simp [pstep, pstepG, PState.wf]

@[simp] theorem pstepT_finished (cfg : Cfg) (r : Result) (db : Db) :
    pstepT cfg (.finished r) db = (.finished r, db) := by
  simp [pstepT, totalOf]

@[simp] theorem lone_finished (cfg : Cfg) (k : Nat) (r : Result) (db : Db) :
    lone cfg k (.finished r) db = (.finished r, db) := by
  induction k with
  | zero => rfl
  | succ k ih => simp [lone, ih]

theorem lone_succ (cfg : Cfg) (k : Nat) (p : PState) (db : Db) :
    lone cfg (k + 1) p db = lone cfg k (pstepT cfg p db).1 (pstepT cfg p db).2 := rfl

theorem lone_add (cfg : Cfg) (a b : Nat) (p : PState) (db : Db) :
    lone cfg (a + b) p db = lone cfg b (lone cfg a p db).1 (lone cfg a p db).2 := by
  induction a generalizing p db with
  | zero => simp [lone]
  | succ a ih => rw [Nat.add_right_comm, lone_succ, ih]; rfl

/-- once finished, more steps change nothing -/
theorem lone_mono {cfg : Cfg} {n : Nat} {p : PState} {db db' : Db} {r : Result}
    (h : lone cfg n p db = (.finished r, db')) {k : Nat} (hk : n ≤ k) :
    lone cfg k p db = (.finished r, db') := by
  obtain ⟨m, rfl⟩ := Nat.exists_eq_add_of_le hk
  rw [lone_add, h]; simp

theorem pstepT_ok {cfg : Cfg} {p p' : PState} {db db' : Db} (h : pstep cfg p db = .ok (p', db')) :
    pstepT cfg p db = (p', db') := by
  simp [pstepT, totalOf, h]

theorem pstepT_error {cfg : Cfg} {p : PState} {db : Db} {e : Err} (h : pstep cfg p db = .error e) :
    pstepT cfg p db = (.finished (.raised e), db) := by
  simp [pstepT, totalOf, h]

theorem pstep_not_wf {cfg : Cfg} {p : PState} (db : Db) (h : p.wf cfg = false) :
    pstep cfg p db = .ok (.finished .invalidArgs, db) := by
  simp [pstep, pstepG, h]

theorem effOp_not_wf {cfg : Cfg} {p : PState} (db : Db) (h : p.wf cfg = false) :
    effOp cfg p db = none := by
  simp [effOp, h]

/-! ## well-formedness, the guard of `effOp` -/

theorem wf_getLookup {cfg : Cfg} {req : Req} {now : Nat} {ch : GetChoice}
    (h : (PState.getLookup req now ch).wf cfg = true) : req.space.valid = true ∧ req.sub.valid = true := by
  simpa [PState.wf] using h

theorem wf_getSample {cfg : Cfg} {req : Req} {now pick : Nat} {fs : List (Option (Nat × Nat))}
    {ss rs : List (List Nat)} {acc : List Nat}
    (h : (PState.getSample req now pick fs ss rs acc).wf cfg = true) :
    req.space.valid = true ∧ req.sub.valid = true ∧ isEnumerable cfg req.space req.sub = false := by
  simpa [PState.wf, and_assoc] using h

theorem wf_getCleanup {cfg : Cfg} {req : Req} {now pick : Nat} {pq : Nat × Nat} {fs : List (Option (Nat × Nat))}
    {ss rs : List (List Nat)} {acc : List Nat}
    (h : (PState.getCleanup req now pick pq fs ss rs acc).wf cfg = true) :
    req.space.valid = true ∧ req.sub.valid = true ∧ isEnumerable cfg req.space req.sub = false := by
  simpa [PState.wf, and_assoc] using h

theorem wf_cleanup {cfg : Cfg} {s : Space} {u : Sub} {m : Nat} {removed : List Nat}
    (h : (PState.cleanup s u m removed).wf cfg = true) : s.valid = true ∧ u.valid = true := by
  simpa [PState.wf] using h

theorem getId_of_done {cfg : Cfg} {req : Req} {now pick : Nat} {db db' : Db} {id : Nat} {out : Outcome}
    (ss rs : List (List Nat)) (h : lookupBlock cfg req now pick db = .ok (db', .done id out)) :
    getId cfg db req now ⟨pick, ss, rs⟩ = .ok (db', .id id, out) := by
  simp [getId, h]

theorem getId_of_inserted {cfg : Cfg} {req : Req} {now pick : Nat} {smp : List Nat} {db db' : Db} {id : Nat}
    (hmiss : (db.ids req.space).byDesc req.space req.sub req.desc = [])
    (henum : isEnumerable cfg req.space req.sub = false)
    (h : sampleBlock req now pick smp db = .ok (db', .inserted id)) :
    getId cfg db req now ⟨pick, [smp], []⟩ = .ok (db', .id id, .sampled []) := by
  simp [getId, lookupBlock_miss hmiss henum, fracs, sampleRounds, h]

theorem getId_of_found {cfg : Cfg} {req : Req} {now pick : Nat} {db : Db}
    (hne : ((db.ids req.space).byDesc req.space req.sub req.desc).isEmpty = false)
    (hany : ((db.ids req.space).byDesc req.space req.sub req.desc).any (fun r => r.id == pick) = true) :
    getId cfg db req now ⟨pick, [], []⟩ =
      .ok (db.setIds req.space ((db.ids req.space).setAtime pick now), .id pick, .hit) := by
  simp [getId, lookupBlock_hit hne hany]

theorem applyOp_get {cfg : Cfg} {db db' : Db} {req : Req} {now : Nat} {ch : GetChoice} {res : GetRes} {out : Outcome}
    (hs : req.space.valid = true) (hu : req.sub.valid = true)
    (h : getId cfg db req now ch = .ok (db', res, out)) : applyOp cfg db (.get req now ch) = db' := by
  simp [applyOp, hs, hu, h]

theorem applyOp_cleanup {cfg : Cfg} {db db' : Db} {s : Space} {u : Sub} {m : Nat} {removed : List Nat}
    (hs : s.valid = true) (hu : u.valid = true)
    (h : Tup.cleanup db s u m removed = .ok db') : applyOp cfg db (.cleanup s u m removed) = db' := by
  simp [applyOp, hs, hu, h, dbOf]

theorem effOp_wf {cfg : Cfg} {p : PState} (db : Db) (hwf : p.wf cfg = true) :
    effOp cfg p db = effOpCore cfg p db := by
  unfold effOp
  simp only [hwf, Bool.not_true, Bool.false_eq_true, ↓reduceIte]

/-! ## every successful step, by cases -/

/-- What one successful atomic step of a process can be. -/
inductive StepCase (cfg : Cfg) (db : Db) : PState → PState → Db → Option Op → Prop
  | invalid {p : PState} (h : p.wf cfg = false) : StepCase cfg db p (.finished .invalidArgs) db none
  | lookupDone {req : Req} {now : Nat} {ch : GetChoice} {id : Nat} {out : Outcome} {db' : Db}
      (hwf : (PState.getLookup req now ch).wf cfg = true)
      (h : lookupBlock cfg req now ch.pick db = .ok (db', .done id out)) :
      StepCase cfg db (.getLookup req now ch) (.finished (.got (.id id) out)) db'
        (some (.get req now { pick := ch.pick }))
  | lookupMiss {req : Req} {now : Nat} {ch : GetChoice}
      (hwf : (PState.getLookup req now ch).wf cfg = true)
      (hmiss : (db.ids req.space).byDesc req.space req.sub req.desc = [])
      (henum : isEnumerable cfg req.space req.sub = false) :
      StepCase cfg db (.getLookup req now ch) (.getSample req now ch.pick fracs ch.samples ch.removed []) db none
  | sampleNil {req : Req} {now pick : Nat} {ss rs : List (List Nat)} {acc : List Nat}
      (hwf : (PState.getSample req now pick [] ss rs acc).wf cfg = true) :
      StepCase cfg db (.getSample req now pick [] ss rs acc) (.finished (.got .noUnusedId (.exhausted acc))) db none
  | sampleInserted {req : Req} {now pick : Nat} {f : Option (Nat × Nat)} {fs : List (Option (Nat × Nat))}
      {ss rs : List (List Nat)} {acc : List Nat} {id : Nat} {db' : Db}
      (hwf : (PState.getSample req now pick (f :: fs) ss rs acc).wf cfg = true)
      (hmiss : (db.ids req.space).byDesc req.space req.sub req.desc = [])
      (hsb : sampleBlock req now pick (ss.headD []) db = .ok (db', .inserted id))
      (hmem : req.space.containsInSub id req.sub = some true)
      (hfree : (db.ids req.space).hasId id = false)
      (hset : setId db id req.desc now = .ok db')
      (hleft : (ss.tail.isEmpty && rs.isEmpty) = true) :
      StepCase cfg db (.getSample req now pick (f :: fs) ss rs acc) (.finished (.got (.id id) (.sampled acc))) db'
        (some (.get req now { pick := pick, samples := [ss.headD []] }))
  | sampleFound {req : Req} {now pick : Nat} {f : Option (Nat × Nat)} {fs : List (Option (Nat × Nat))}
      {ss rs : List (List Nat)} {acc : List Nat}
      (hwf : (PState.getSample req now pick (f :: fs) ss rs acc).wf cfg = true)
      (hne : ((db.ids req.space).byDesc req.space req.sub req.desc).isEmpty = false)
      (hany : ((db.ids req.space).byDesc req.space req.sub req.desc).any (fun r => r.id == pick) = true) :
      StepCase cfg db (.getSample req now pick (f :: fs) ss rs acc) (.finished (.got (.id pick) (.foundLate acc)))
        (db.setIds req.space ((db.ids req.space).setAtime pick now)) (some (.get req now { pick := pick }))
  | sampleExhausted {req : Req} {now pick : Nat} {fs : List (Option (Nat × Nat))}
      {ss rs : List (List Nat)} {acc : List Nat}
      (hwf : (PState.getSample req now pick (none :: fs) ss rs acc).wf cfg = true)
      (hmiss : (db.ids req.space).byDesc req.space req.sub req.desc = [])
      (hsb : sampleBlock req now pick (ss.headD []) db = .ok (db, .none)) :
      StepCase cfg db (.getSample req now pick (none :: fs) ss rs acc)
        (.finished (.got .noUnusedId (.exhausted acc))) db none
  | sampleNone {req : Req} {now pick : Nat} {pq : Nat × Nat} {fs : List (Option (Nat × Nat))}
      {ss rs : List (List Nat)} {acc : List Nat}
      (hwf : (PState.getSample req now pick (some pq :: fs) ss rs acc).wf cfg = true)
      (hmiss : (db.ids req.space).byDesc req.space req.sub req.desc = [])
      (hsb : sampleBlock req now pick (ss.headD []) db = .ok (db, .none)) :
      StepCase cfg db (.getSample req now pick (some pq :: fs) ss rs acc) (.getCleanup req now pick pq fs ss rs acc) db none
  | cleanupInt {req : Req} {now pick : Nat} {pq : Nat × Nat} {fs : List (Option (Nat × Nat))}
      {ss rs : List (List Nat)} {acc : List Nat} {db' : Db}
      (hwf : (PState.getCleanup req now pick pq fs ss rs acc).wf cfg = true)
      (h : Tup.cleanup db req.space req.sub (fracLimit cfg (req.space.subspaceSize req.sub) pq) (rs.headD []) = .ok db') :
      StepCase cfg db (.getCleanup req now pick pq fs ss rs acc)
        (.getSample req now pick fs ss.tail rs.tail (acc ++ rs.headD [])) db'
        (some (.cleanup req.space req.sub (fracLimit cfg (req.space.subspaceSize req.sub) pq) (rs.headD [])))
  | set {id : Nat} {d : String} {now : Nat} {db' : Db} (h : setId db id d now = .ok db') :
      StepCase cfg db (.set id d now) (.finished .unit) db' (some (.set id d now))
  | del {id : Nat} {db' : Db} (h : delId db id = .ok db') : StepCase cfg db (.del id) (.finished .unit) db' (some (.del id))
  | cleanup {s : Space} {u : Sub} {m : Nat} {removed : List Nat} {db' : Db}
      (hwf : (PState.cleanup s u m removed).wf cfg = true)
      (h : Tup.cleanup db s u m removed = .ok db') : StepCase cfg db (.cleanup s u m removed) (.finished .unit) db'
        (some (.cleanup s u m removed))
  | mark {id : Nat} {term : String} {size time : Nat} {db' : Db} (h : markUploaded db id term size time = .ok db') :
      StepCase cfg db (.mark id term size time) (.finished .unit) db' (some (.mark id term size time))
  | cleanupUploads {n : Nat} {kept : List (Nat × String)} {db' : Db} (h : Tup.cleanupUploads db n kept = .ok db') :
      StepCase cfg db (.cleanupUploads n kept) (.finished .unit) db' (some (.cleanupUploads n kept))
  | read {p p' : PState} (hp : isRead p = true) (hp' : isRead p' = true) : StepCase cfg db p p' db none

theorem pstep_cases {cfg : Cfg} {p p' : PState} {db db' : Db} (h : pstep cfg p db = .ok (p', db')) :
    StepCase cfg db p p' db' (effOp cfg p db) := by
  cases hwf : p.wf cfg with
  | false =>
    rw [pstep_not_wf db hwf] at h
    injection h with h; injection h with h1 h2; subst h1 h2
    rw [effOp_not_wf db hwf]; exact .invalid hwf
  | true =>
    rw [effOp_wf db hwf]
    unfold pstep pstepG at h
    simp only [hwf, Bool.not_true, Bool.false_eq_true, ↓reduceIte] at h
    cases p with
    | getLookup req now ch =>
      simp only [] at h
      split at h
      · cases h
      · next db1 id out hl =>
        injection h with h; injection h with h1 h2; subst h1 h2
        simp only [effOpCore, hl]; exact .lookupDone hwf hl
      · next db1 hl =>
        injection h with h; injection h with h1 h2; subst h1 h2
        cases lookupBlock_spec hl with
        | miss hmiss henum hdb => subst hdb; simp only [effOpCore, hl]; exact .lookupMiss hwf hmiss henum
    | getSample req now pick fs ss rs acc =>
      cases fs with
      | nil =>
        simp only [] at h
        injection h with h; injection h with h1 h2; subst h1 h2
        simp only [effOpCore]; exact .sampleNil hwf
      | cons f fs =>
        simp only [] at h
        split at h
        · cases h
        · next db1 id hsb =>
          split at h
          · next hleft =>
            injection h with h; injection h with h1 h2; subst h1 h2
            rcases sampleBlock_cases hsb with ⟨_, _, hr, _⟩ | ⟨hmiss, ⟨hr, _⟩ | ⟨id', hr, hm, hf, hset⟩⟩
            · cases hr
            · cases hr
            · injection hr with hr; subst hr
              simp only [effOpCore, hsb]; exact .sampleInserted hwf hmiss hsb hm hf hset hleft
          · cases h
        · next db1 id hsb =>
          injection h with h; injection h with h1 h2; subst h1 h2
          rcases sampleBlock_cases hsb with ⟨hne, hany, hr, hdb⟩ | ⟨hmiss, ⟨hr, _⟩ | ⟨id', hr, _⟩⟩
          · injection hr with hr; subst hr; subst hdb
            simp only [effOpCore, hsb]; exact .sampleFound hwf hne hany
          · cases hr
          · cases hr
        · next db1 hsb =>
          rcases sampleBlock_cases hsb with ⟨_, _, hr, _⟩ | ⟨hmiss, ⟨_, hdb⟩ | ⟨id', hr, _⟩⟩
          · cases hr
          · subst hdb
            split at h
            · injection h with h; injection h with h1 h2; subst h1 h2
              simp only [effOpCore, hsb]; exact .sampleExhausted hwf hmiss hsb
            · injection h with h; injection h with h1 h2; subst h1 h2
              simp only [effOpCore, hsb]; exact .sampleNone hwf hmiss hsb
          · cases hr
    | getCleanup req now pick pq fs ss rs acc =>
      simp only [] at h
      split at h
      · cases h
      · next db1 hc =>
        injection h with h; injection h with h1 h2; subst h1 h2
        simp only [effOpCore]; exact .cleanupInt hwf hc
    | set id d now =>
      simp only [] at h
      split at h
      · cases h
      · next db1 hc => injection h with h; injection h with h1 h2; subst h1 h2; simp only [effOpCore]; exact .set hc
    | del id =>
      simp only [] at h
      split at h
      · cases h
      · next db1 hc => injection h with h; injection h with h1 h2; subst h1 h2; simp only [effOpCore]; exact .del hc
    | cleanup s u m removed =>
      simp only [] at h
      split at h
      · cases h
      · next db1 hc => injection h with h; injection h with h1 h2; subst h1 h2; simp only [effOpCore]; exact .cleanup hwf hc
    | mark id term size time =>
      simp only [] at h
      split at h
      · cases h
      · next db1 hc => injection h with h; injection h with h1 h2; subst h1 h2; simp only [effOpCore]; exact .mark hc
    | cleanupUploads n kept =>
      simp only [] at h
      split at h
      · cases h
      · next db1 hc => injection h with h; injection h with h1 h2; subst h1 h2; simp only [effOpCore]; exact .cleanupUploads hc
    | needsInfo id term thr now =>
      simp only [] at h
      split at h
      · cases h
      · injection h with h; injection h with h1 h2; subst h1 h2; simp only [effOpCore]; exact .read rfl rfl
      · injection h with h; injection h with h1 h2; subst h1 h2; simp only [effOpCore]; exact .read rfl rfl
    | needsRow id term thr now desc =>
      simp only [] at h
      split at h
      · injection h with h; injection h with h1 h2; subst h1 h2; simp only [effOpCore]; exact .read rfl rfl
      · injection h with h; injection h with h1 h2; subst h1 h2; simp only [effOpCore]; exact .read rfl rfl
    | needsAgo id term thr now desc r =>
      simp only [] at h
      injection h with h; injection h with h1 h2; subst h1 h2; simp only [effOpCore]; exact .read rfl rfl
    | needs id term thr now =>
      simp only [] at h
      split at h
      · cases h
      · injection h with h; injection h with h1 h2; subst h1 h2; simp only [effOpCore]; exact .read rfl rfl
    | uinfo id term =>
      simp only [] at h
      injection h with h; injection h with h1 h2; subst h1 h2; simp only [effOpCore]; exact .read rfl rfl
    | info id =>
      simp only [] at h
      split at h
      · cases h
      · injection h with h; injection h with h1 h2; subst h1 h2; simp only [effOpCore]; exact .read rfl rfl
    | count todo u acc =>
      match todo with
      | [] => simp only [] at h; injection h with h; injection h with h1 h2; subst h1 h2; simp only [effOpCore]; exact .read rfl rfl
      | [s] => simp only [] at h; injection h with h; injection h with h1 h2; subst h1 h2; simp only [effOpCore]; exact .read rfl rfl
      | s :: s' :: todo => simp only [] at h; injection h with h; injection h with h1 h2; subst h1 h2; simp only [effOpCore]; exact .read rfl rfl
    | finished r =>
      simp only [] at h
      injection h with h; injection h with h1 h2; subst h1 h2; simp only [effOpCore]; exact .read rfl rfl

/-! ## a step is a complete public operation -/

/-- **The step lemma.** A successful atomic step either only reads (`effOp = none`, database unchanged)
    or changes the database exactly as the complete public operation `effOp` applied to the database
    of that moment; if that operation is the request's own, the request finishes and returns what the
    sequential operation returns. -/
theorem step_full {cfg : Cfg} {p p' : PState} {db db' : Db} (h : pstep cfg p db = .ok (p', db')) :
    (effOp cfg p db = none ∧ db' = db) ∨
    (∃ op, effOp cfg p db = some op ∧ db' = applyOp cfg db op ∧
      (p.ownStep = true → ∃ r, p' = .finished r ∧ Returns cfg db op r)) := by
  have hc := pstep_cases h
  generalize effOp cfg p db = o at hc
  cases hc with
  | invalid hwf => exact Or.inl ⟨rfl, rfl⟩
  | lookupDone hwf hl =>
    obtain ⟨hs, hu⟩ := wf_getLookup hwf
    have hg := getId_of_done [] [] hl
    exact Or.inr ⟨_, rfl, (applyOp_get hs hu hg).symm, fun _ => ⟨_, rfl, hs, hu, _, _, _, hg, _, rfl⟩⟩
  | lookupMiss hwf hmiss henum => exact Or.inl ⟨rfl, rfl⟩
  | sampleNil hwf => exact Or.inl ⟨rfl, rfl⟩
  | sampleInserted hwf hmiss hsb hmem hfree hset hleft =>
    obtain ⟨hs, hu, henum⟩ := wf_getSample hwf
    have hg := getId_of_inserted hmiss henum hsb
    exact Or.inr ⟨_, rfl, (applyOp_get hs hu hg).symm, fun _ => ⟨_, rfl, hs, hu, _, _, _, hg, _, rfl⟩⟩
  | @sampleFound req now pick f fs ss rs acc hwf hne hany =>
    obtain ⟨hs, hu, henum⟩ := wf_getSample hwf
    have hg := getId_of_found (cfg := cfg) (now := now) hne hany
    exact Or.inr ⟨_, rfl, (applyOp_get hs hu hg).symm, fun _ => ⟨_, rfl, hs, hu, _, _, _, hg, _, rfl⟩⟩
  | sampleExhausted hwf hmiss hsb => exact Or.inl ⟨rfl, rfl⟩
  | sampleNone hwf hmiss hsb => exact Or.inl ⟨rfl, rfl⟩
  | cleanupInt hwf hc =>
    obtain ⟨hs, hu, _⟩ := wf_getCleanup hwf
    exact Or.inr ⟨_, rfl, (applyOp_cleanup hs hu hc).symm, fun ho => by simp [PState.ownStep] at ho⟩
  | set hc =>
    exact Or.inr ⟨_, rfl, by simp only [applyOp, hc, dbOf], fun _ => ⟨_, rfl, ⟨_, hc⟩, rfl⟩⟩
  | del hc =>
    exact Or.inr ⟨_, rfl, by simp only [applyOp, hc, dbOf], fun _ => ⟨_, rfl, ⟨_, hc⟩, rfl⟩⟩
  | cleanup hwf hc =>
    obtain ⟨hs, hu⟩ := wf_cleanup hwf
    exact Or.inr ⟨_, rfl, (applyOp_cleanup hs hu hc).symm, fun _ => ⟨_, rfl, ⟨_, hc⟩, rfl⟩⟩
  | mark hc =>
    exact Or.inr ⟨_, rfl, by simp only [applyOp, hc, dbOf], fun _ => ⟨_, rfl, ⟨_, hc⟩, rfl⟩⟩
  | cleanupUploads hc =>
    exact Or.inr ⟨_, rfl, by simp only [applyOp, hc, dbOf], fun _ => ⟨_, rfl, ⟨_, hc⟩, rfl⟩⟩
  | read hp hp' => exact Or.inl ⟨rfl, rfl⟩

end Tup.TxnLemmas
