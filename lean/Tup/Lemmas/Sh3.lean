import Tup.Lemmas.Sh2
/-!
  Lemmas for C18, part 3: operands, one line, the whole script.
-/
open Tup Tup.ShellExport Tup.Spec.Sh

namespace Tup.ShLemmas

theorem operands_nil : operands [] = some [] := by
  rw [operands]; simp [dropBlanks]

theorem operands_comment (t : Bytes) : operands (asc " # " ++ t) = some [] := by
  have : asc " # " = [32, 35, 32] := by decide
  rw [operands]
  simp [this, dropBlanks, isBlank]

/-- a blank, then a word that `nextWord` reads -/
theorem operands_step {l r v : Bytes} {c : UInt8} {t : Bytes} (hl : l = c :: t) (hb : isBlank c = false)
    (h35 : c ≠ 35) (hn : nextWord l = some (some v, r)) :
    operands (32 :: l) = (operands r).map (v :: ·) := by
  have hd : dropBlanks (32 :: l) = l := by
    subst hl
    rw [dropBlanks]
    simp only [show isBlank 32 = true by decide, ↓reduceIte]
    rw [dropBlanks]
    simp [hb]
  have hn' : nextWord (dropBlanks (32 :: l)) = some (some v, r) := by rw [hd]; exact hn
  rw [operands]
  simp only [hd]
  have h1 : l.isEmpty = false := by subst hl; rfl
  have h2 : ¬ (l.length = (32 :: l).length) := by simp
  have h3 : ¬ (l.head? = some 35) := by subst hl; simpa using h35
  simp only [h1, h2, h3, Bool.false_eq_true, ↓reduceIte]
  split
  · rename_i h'; rw [hn'] at h'; contradiction
  · rename_i v' r' h'
    rw [hn'] at h'
    injection h' with h'
    injection h' with hv hr
    subst hv hr
    cases operands r <;> rfl

theorem operands_params (chunks : List Bytes) (tail : Bytes) (ht : operands tail = some []) :
    operands ((build chunks).2.flatMap (fun p => 32 :: p) ++ tail) = some (argsOf chunks) := by
  induction chunks with
  | nil => simpa [build, argsOf] using ht
  | cons c cs ih =>
    simp only [build, argsOf]
    cases h : tryBase64 c with
    | none => simpa using ih
    | some e =>
      simp only [List.flatMap_cons, List.cons_append, List.append_assoc]
      have hp : param e ++ ((build cs).2.flatMap (fun p => 32 :: p) ++ tail)
          = 34 :: (asc "$(printf " ++ quoteFormat e ++ asc " | base64 -w0)\"" ++ ((build cs).2.flatMap (fun p => 32 :: p) ++ tail)) := by
        have : asc "\"$(printf " = 34 :: asc "$(printf " := by decide
        simp [param, this]
      rw [operands_step hp (by decide) (by decide) (hp ▸ nextWord_param h _), ih]
      simp

theorem build_no_quote (chunks : List Bytes) : (39 : UInt8) ∉ (build chunks).1 := by
  induction chunks with
  | nil => simp [build]
  | cons c cs ih =>
    simp only [build]
    cases h : tryBase64 c with
    | some e =>
      have : asc "%s" = [37, 115] := by decide
      simp [this, ih]
    | none =>
      simp only [List.mem_append, not_or]
      exact ⟨escapeBytes_no_quote c, ih⟩

theorem build_no_nl (chunks : List Bytes) :
    (10 : UInt8) ∉ (build chunks).1 ∧ ∀ p ∈ (build chunks).2, (10 : UInt8) ∉ p := by
  induction chunks with
  | nil => simp [build]
  | cons c cs ih =>
    simp only [build]
    cases h : tryBase64 c with
    | some e =>
      obtain ⟨d, he, _⟩ := tryBase64_some h
      have h1 : asc "%s" = [37, 115] := by decide
      have h2 : (10 : UInt8) ∉ asc "\"$(printf " := by decide
      have h3 : (10 : UInt8) ∉ asc " | base64 -w0)\"" := by decide
      have h4 : (10 : UInt8) ∉ dashFix e := dashFix_avoids 10 (by decide) e (he ▸ escapeBytes_no_nl d)
      refine ⟨by simp [h1, ih.1], ?_⟩
      intro p hp
      simp only [List.mem_cons] at hp
      rcases hp with hp | hp
      · subst hp
        simp only [param, quoteFormat, List.mem_append, List.mem_cons, List.not_mem_nil, or_false, not_or]
        exact ⟨⟨h2, by decide, h4, by decide⟩, h3⟩
      · exact ih.2 p hp
    | none =>
      refine ⟨?_, ih.2⟩
      simp only [List.mem_append, not_or]
      exact ⟨escapeBytes_no_nl c, ih.1⟩

theorem command_no_nl (data : Bytes) : (10 : UInt8) ∉ command data := by
  obtain ⟨h1, h2⟩ := build_no_nl (splitChunks data)
  have h0 : (10 : UInt8) ∉ asc "printf " := by decide
  have h4 : (10 : UInt8) ∉ dashFix (build (splitChunks data)).1 := dashFix_avoids 10 (by decide) _ h1
  simp only [command, quoteFormat, List.mem_append, List.mem_cons, List.mem_flatMap, not_or, not_exists, not_and]
  refine ⟨⟨h0, by decide, ?_⟩, ?_⟩
  · exact ⟨h4, by decide⟩
  · intro p hp
    exact ⟨by decide, h2 p hp⟩

/-! ### chunks -/

theorem splitChunksAux_flatten (rest cur : Bytes) (flag : Option Bool) :
    (splitChunksAux rest cur flag).flatten = cur ++ rest := by
  induction rest generalizing cur flag with
  | nil =>
    simp only [splitChunksAux]
    split
    · rename_i h; simp at h; simp [h]
    · simp
  | cons b t ih =>
    simp only [splitChunksAux]
    split
    · split
      · rename_i h; simp at h; simp [ih, h]
      · simp [ih]
    · simp [ih]

theorem splitChunks_flatten (data : Bytes) : (splitChunks data).flatten = data := by
  simp [splitChunks, splitChunksAux_flatten]

/-! ### one line -/

theorem evalLine_command (data tail : Bytes) (ht : operands tail = some []) :
    evalLine (command data ++ tail) = some data := by
  have hq : (39 : UInt8) ∉ dashFix (build (splitChunks data)).1 :=
    dashFix_avoids 39 (by decide) _ (build_no_quote _)
  have hcmd : command data ++ tail =
      asc "printf" ++ (32 :: (39 :: (dashFix (build (splitChunks data)).1 ++ 39 ::
        ((build (splitChunks data)).2.flatMap (fun p => 32 :: p) ++ tail)))) := by
    have : asc "printf " = asc "printf" ++ [32] := by decide
    simp [command, quoteFormat, this]
  have hhead : asc "printf" = 112 :: asc "rintf" := by decide
  unfold evalLine
  have hd : dropBlanks (command data ++ tail) = command data ++ tail := by
    rw [hcmd, hhead]; simp [dropBlanks, isBlank]
  rw [hd]
  have h1 : (command data ++ tail).isEmpty = false := by rw [hcmd, hhead]; rfl
  have h2 : ¬ ((command data ++ tail).head? = some 35) := by rw [hcmd, hhead]; simp
  simp only [h1, h2, Bool.false_eq_true, ↓reduceIte]
  rw [hcmd, stripPrefix_append]
  have hw : nextWord (39 :: (dashFix (build (splitChunks data)).1 ++ 39 ::
        ((build (splitChunks data)).2.flatMap (fun p => 32 :: p) ++ tail)))
      = some (some (dashFix (build (splitChunks data)).1),
          (build (splitChunks data)).2.flatMap (fun p => 32 :: p) ++ tail) := by
    simp [nextWord, takeSq_append _ _ hq]
  simp only []
  rw [operands_step rfl (by decide) (by decide) hw, operands_params _ _ ht]
  simp only [Option.map_some]
  rw [printfCmd_dashFix, printfOut_build, splitChunks_flatten]

theorem evalLine_comment (t : Bytes) : evalLine (asc "# " ++ t) = some [] := by
  have : asc "# " = [35, 32] := by decide
  simp [evalLine, this, dropBlanks, isBlank]

theorem evalLine_nil : evalLine [] = some [] := by
  simp [evalLine, dropBlanks]

/-! ### lines -/

theorem splitOn_append (sep : UInt8) (a b : Bytes) (h : sep ∉ a) :
    splitOn sep (a ++ sep :: b) = a :: splitOn sep b := by
  induction a with
  | nil => simp [splitOn]
  | cons c t ih =>
    simp only [List.mem_cons, not_or] at h
    have hc : c ≠ sep := fun e => h.1 e.symm
    simp [splitOn, hc, ih h.2]

theorem splitOn_nil (sep : UInt8) : splitOn sep [] = [[]] := by simp [splitOn]

end Tup.ShLemmas
