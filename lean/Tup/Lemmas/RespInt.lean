import Tup.Model.Response
/-!
  Lemmas for C19: Python's `int()` (as modelled by `pyInt`) reads back a decimal rendering.
  (The four `natToDec` facts are restated locally so that this file depends on no other group's lemmas.)
-/
open Tup Tup.Response

namespace Tup.RespLemmas

def digitByte (d : Nat) : UInt8 := UInt8.ofNat (Nat.digitChar d).toNat

theorem digitByte_toNat (d : Nat) (h : d < 10) : (digitByte d).toNat = 48 + d := by
  unfold digitByte
  rw [Nat.toNat_digitChar_of_lt_ten h]
  simp [UInt8.toNat_ofNat]
  omega

theorem natToDec_lt (n : Nat) (h : n < 10) : natToDec n = [digitByte n] := by
  simp [natToDec, Nat.toDigits_of_lt_base h, digitByte]

theorem natToDec_ge (n : Nat) (h : 10 ≤ n) : natToDec n = natToDec (n / 10) ++ [digitByte (n % 10)] := by
  simp [natToDec, Nat.toDigits_of_base_le (by decide : 1 < 10) h, digitByte]

theorem natToDec_ne_nil (n : Nat) : natToDec n ≠ [] := by
  simp [natToDec, Nat.toDigits_ne_nil]

theorem natToDec_digits (n : Nat) : ∀ b ∈ natToDec n, isDigit b = true := by
  induction n using Nat.strongRecOn with
  | _ n ih =>
    by_cases h : n < 10
    · rw [natToDec_lt n h]
      intro b hb
      simp at hb
      simp [isDigit, hb, digitByte_toNat n h]; omega
    · have h10 : 10 ≤ n := by omega
      rw [natToDec_ge n h10]
      intro b hb
      rcases List.mem_append.mp hb with hb | hb
      · exact ih (n / 10) (by omega) b hb
      · simp at hb
        have := Nat.mod_lt n (by decide : 0 < 10)
        simp [isDigit, hb, digitByte_toNat _ this]; omega

/-- the digit values of the rendering give the number back -/
theorem digitsVal_natToDec (n : Nat) : digitsVal ((natToDec n).map fun b => b.toNat - 48) = n := by
  induction n using Nat.strongRecOn with
  | _ n ih =>
    by_cases h : n < 10
    · rw [natToDec_lt n h]
      simp [digitsVal, digitByte_toNat n h]
    · have h10 : 10 ≤ n := by omega
      rw [natToDec_ge n h10]
      have hd := digitByte_toNat (n % 10) (Nat.mod_lt _ (by decide))
      have := ih (n / 10) (by omega)
      simp only [digitsVal] at this
      simp only [digitsVal, List.map_append, List.foldl_append, this, List.map_cons, List.map_nil,
        List.foldl_cons, List.foldl_nil, hd]
      omega

theorem pyDigits_digits (l : Bytes) (prev : Bool) (hd : ∀ b ∈ l, isDigit b = true) (hne : l ≠ [] ∨ prev = true) :
    pyDigits l prev = some (l.map fun b => b.toNat - 48) := by
  induction l generalizing prev with
  | nil =>
    rcases hne with h | h
    · exact absurd rfl h
    · simp [pyDigits, h]
  | cons b t ih =>
    have hb : isDigit b = true := hd b (by simp)
    have := ih true (fun x hx => hd x (by simp [hx])) (Or.inr rfl)
    simp [pyDigits, hb, this]

theorem dropWhile_none {p : UInt8 → Bool} (l : Bytes) (h : ∀ b ∈ l, p b = false) : l.dropWhile p = l := by
  cases l with
  | nil => rfl
  | cons b t => simp [List.dropWhile, h b (by simp)]

theorem digit_not_space {b : UInt8} (h : isDigit b = true) : isPySpace b = false := by
  simp only [isDigit, Bool.and_eq_true, decide_eq_true_eq] at h
  simp only [isPySpace, Bool.or_eq_false_iff, beq_eq_false_iff_ne, ne_eq, Bool.and_eq_false_iff,
    decide_eq_false_iff_not]
  constructor
  · intro e; subst e; simp at h
  · right; omega

/-- `int(b"%d" % n) == n` -/
theorem pyInt_natToDec (n : Nat) (h : n < 10 ^ 4300) : pyInt (natToDec n) = some (Int.ofNat n) := by
  have hd := natToDec_digits n
  have hns : ∀ b ∈ natToDec n, isPySpace b = false := fun b hb => digit_not_space (hd b hb)
  have h1 : (natToDec n).dropWhile isPySpace = natToDec n := dropWhile_none _ hns
  have h2 : rstrip isPySpace (natToDec n) = natToDec n := by
    unfold rstrip
    rw [dropWhile_none _ (fun b hb => hns b (by simpa using hb)), List.reverse_reverse]
  have hlen : (natToDec n).length ≤ 4300 := by
    simp only [natToDec, List.length_map]
    exact (Nat.length_toDigits_le_iff (by decide) (by decide)).mpr h
  unfold pyInt
  simp only [h1, h2]
  cases hl : natToDec n with
  | nil => exact absurd hl (natToDec_ne_nil n)
  | cons c r =>
    have hc : isDigit c = true := hd c (by simp [hl])
    have hc1 : c ≠ 45 := by intro e; subst e; simp [isDigit] at hc
    have hc2 : c ≠ 43 := by intro e; subst e; simp [isDigit] at hc
    simp only [hc1, hc2, ↓reduceIte]
    have hp := pyDigits_digits (c :: r) false (by rw [← hl]; exact hd) (Or.inl (by simp))
    rw [hp]
    have hv := digitsVal_natToDec n
    rw [hl] at hv hlen
    simp only [List.length_map]
    have hlen' : r.length ≤ 4299 := by simpa using hlen
    simp only [List.map_cons] at hv
    simp [hlen', hv]

end Tup.RespLemmas
