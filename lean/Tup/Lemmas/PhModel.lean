import Tup.Model.Placeholder
/-!
  The byte-level model (what the correspondence check compares with /repo) is the serialisation
  of the token-level model (what the theorems are about), when the caller's formatting bytes are
  the serialisation of the formatting tokens.
-/
namespace Tup.Ph
open Tup

theorem serialize_append (a b : List Tok) : serialize (a ++ b) = serialize a ++ serialize b := by
  simp [serialize]

theorem serialize_nil : serialize [] = [] := rfl

theorem serialize_singleton_char (cp : Nat) : serialize [Tok.char cp] = utf8Enc cp := by
  simp [serialize, Tok.serialize]

theorem serialize_diacs (is : List Nat) : serialize (is.map fun i => Tok.char (diacCp i)) = diacBytes is := by
  induction is with
  | nil => rfl
  | cons a r ih =>
    simp only [List.map_cons, diacBytes, List.flatMap_cons] at ih ⊢
    rw [← ih]
    simp [serialize, Tok.serialize]

theorem serialize_flatMap {α} (l : List α) (f : α → List Tok) :
    serialize (l.flatMap f) = l.flatMap fun a => serialize (f a) := by
  induction l with
  | nil => rfl
  | cons a r ih => simp [List.flatMap_cons, serialize_append, ih]

theorem rowB_toFmt (f : FmtT) (row : Nat) : f.toFmt.rowB row = serialize (f.rowT row) := by
  cases f <;> simp [FmtT.toFmt, Fmt.rowB, FmtT.rowT, serialize]

theorem cellB_toFmt (f : FmtT) (col row : Nat) : f.toFmt.cellB col row = serialize (f.cellT col row) := by
  cases f <;> simp [FmtT.toFmt, Fmt.cellB, FmtT.cellT, serialize]

/-- bytes of a line (with escapes) = serialisation of its tokens -/
theorem lineBytes_eq_serialize (p : Placeholder) (m : Mode) (fmt : FmtT) (row : Nat) :
    lineBytes p m fmt.toFmt false row = serialize (lineToks p m fmt row) := by
  unfold lineBytes lineToks
  by_cases h : row ≥ tableLen
  · simp only [h, if_true, serialize_append, serialize_flatMap, rowB_toFmt, cellB_toFmt, Bool.false_eq_true, if_false]
    simp [serialize, Tok.serialize, utf8Enc]
  · simp only [h, serialize_append, serialize_flatMap, rowB_toFmt, cellB_toFmt, serialize_diacs, serialize_singleton_char,
      Bool.false_eq_true, if_false, phBytes]

/-- `to_lines` (validated placeholder, addressable start column) = serialisation of the token lines -/
theorem toLines_eq_serialize (p : Placeholder) (m : Mode) (fmt : FmtT) (h : p.startCol < tableLen) :
    p.toLines m fmt.toFmt false = .ok ((p.lineToksAll m fmt).map serialize) := by
  unfold Placeholder.toLines Placeholder.lineToksAll
  have : ¬ (p.startRow < tableLen ∧ p.startCol ≥ tableLen) := fun h' => Nat.lt_irrefl _ (Nat.lt_of_lt_of_le h h'.2)
  rw [if_neg this, List.map_map]
  refine congrArg Except.ok (List.map_congr_left ?_)
  intro row _
  rw [Function.comp_apply]
  exact lineBytes_eq_serialize p m fmt row

end Tup.Ph
