import Tup.Lemmas.RespTrunc
/-!
  Lemmas for C19, part 6: several responses in a row; the cursor position report.
-/
open Tup Tup.Response
open Tup.Spec.Response (Wf encode expected wf noiseOk encodeCpr cprNoiseOk)

namespace Tup.RespLemmas

/-- what the terminal sends: for each item some noise and an encoded response, then a tail -/
def stream : List (Bytes × Wf) → Bytes → Bytes
  | [], tail => tail
  | (n, w) :: rest, tail => n ++ encode w ++ stream rest tail

def ItemOk (it : Bytes × Wf) : Prop := wf it.2 = true ∧ noiseOk it.1 = true ∧ decodable it.2 = true

theorem receiveMultipleAux_stream (items : List (Bytes × Wf)) (tail : Bytes) (fuel : Nat)
    (hf : items.length < fuel) (hall : ∀ it ∈ items, ItemOk it) (ht : ¬ HasComplete tail) :
    receiveMultipleAux fuel (stream items tail) = some (items.map fun it => toResp (expected it.1 it.2)) := by
  induction items generalizing fuel with
  | nil =>
    cases fuel with
    | zero => simp at hf
    | succ f => simp [receiveMultipleAux, stream, receive_incomplete tail ht]
  | cons it rest ih =>
    obtain ⟨n, w⟩ := it
    cases fuel with
    | zero => simp at hf
    | succ f =>
      obtain ⟨h1, h2, h3⟩ := hall (n, w) (by simp)
      have hrest := ih f (by simp at hf; omega) (fun x hx => hall x (by simp [hx]))
      simp only [receiveMultipleAux, stream]
      rw [receive_encoded n (stream rest tail) w h1 h2 h3]
      simp [toResp, hrest]

theorem length_le_stream (items : List (Bytes × Wf)) (tail : Bytes) : items.length ≤ (stream items tail).length := by
  induction items with
  | nil => simp
  | cons it rest ih =>
    obtain ⟨n, w⟩ := it
    simp only [stream, List.length_cons, List.length_append, encode]
    omega

/-! ### cursor position report -/

theorem cpr_phase1 (noise pre tail : Bytes) (h : ¬ ([27, 91] : Bytes) <:+: pre ++ noise) :
    cprLoop (noise ++ 27 :: 91 :: tail) pre.reverse false = cprLoop tail [] true := by
  induction noise generalizing pre with
  | nil => simp [cprLoop, List.isPrefixOf]
  | cons b t ih =>
    have hf := isPrefixOf_rev_false (pat := [27, 91]) (pre := pre) (b := b) (t := t) h
    have hf' : ([91, 27] : Bytes).isPrefixOf (b :: pre.reverse) = false := by simpa using hf
    have h' : ¬ ([27, 91] : Bytes) <:+: (pre ++ [b]) ++ t := by simpa using h
    have := ih (pre ++ [b]) h'
    simp only [List.cons_append, cprLoop, Bool.false_eq_true, ↓reduceIte, hf']
    simpa using this

theorem cpr_phase2 (body rb rest : Bytes) (h : (82 : UInt8) ∉ body) :
    cprLoop (body ++ 82 :: rest) rb true = some (rb.reverse ++ body ++ [82], rest) := by
  induction body generalizing rb with
  | nil => simp [cprLoop]
  | cons b t ih =>
    simp only [List.mem_cons, not_or] at h
    have hb : b ≠ 82 := fun e => h.1 e.symm
    simp [cprLoop, hb, ih _ h.2]

theorem digit_avoid {n : Nat} {x : UInt8} (hx : isDigit x = false) : x ∉ natToDec n := by
  intro hm
  have := natToDec_digits n x hm
  simp [this] at hx

theorem getCursorPosition_encoded (noise rest : Bytes) (x y : Nat) (hn : cprNoiseOk noise = true)
    (hx : x + 1 < 10 ^ 4300) (hy : y + 1 < 10 ^ 4300) :
    getCursorPosition (noise ++ encodeCpr x y ++ rest) = .pos x y rest := by
  have hnoise : ¬ ([27, 91] : Bytes) <:+: noise := by
    intro h
    have := (isInfix_iff [27, 91] noise).mpr h
    simp [cprNoiseOk] at hn
    simp [hn] at this
  let Y := natToDec (y + 1)
  let X := natToDec (x + 1)
  have henc : noise ++ encodeCpr x y ++ rest = noise ++ 27 :: 91 :: ((Y ++ 59 :: X) ++ 82 :: rest) := by
    simp [encodeCpr, X, Y]
  have h82 : (82 : UInt8) ∉ Y ++ 59 :: X := by
    simp only [List.mem_append, List.mem_cons, not_or]
    exact ⟨digit_avoid (by decide), by decide, digit_avoid (by decide)⟩
  have hY59 : (59 : UInt8) ∉ Y := digit_avoid (by decide)
  have hX59 : (59 : UInt8) ∉ X := digit_avoid (by decide)
  have hloop : cprLoop (noise ++ encodeCpr x y ++ rest) [] false = some ((Y ++ 59 :: X) ++ [82], rest) := by
    rw [henc]
    have := cpr_phase1 noise [] ((Y ++ 59 :: X) ++ 82 :: rest) (by simpa using hnoise)
    simp only [List.reverse_nil] at this
    rw [this, cpr_phase2 _ [] rest h82]
    simp
  have hparse : parseCpr ((Y ++ 59 :: X) ++ [82]) = some ((x : Int), (y : Int)) := by
    unfold parseCpr
    have e : ((Y ++ 59 :: X) ++ [82]).take (((Y ++ 59 :: X) ++ [82]).length - 1) = Y ++ 59 :: X := by
      have : ((Y ++ 59 :: X) ++ [82]).length - 1 = (Y ++ 59 :: X).length := by simp
      rw [this, List.take_left']
      rfl
    rw [e, splitOn_append' 59 Y X hY59, splitOn_no_sep 59 X hX59]
    simp only [X, Y, pyInt_natToDec _ hx, pyInt_natToDec _ hy]
    simp
  unfold getCursorPosition
  rw [hloop]
  simp only [hparse]

end Tup.RespLemmas
