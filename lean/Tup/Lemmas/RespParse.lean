import Tup.Lemmas.Resp
import Tup.Lemmas.RespInt
/-!
  Lemmas for C19, part 2: the field parser on the encoding of a well-formed response.
-/
open Tup Tup.Response
open Tup.Spec.Response (Key Wf encodeKey joinComma keyOk sepFree selI selN selP selX valueOf)

namespace Tup.RespLemmas

/-- the strings of a key decode as UTF-8 in the sense of the model's decoder -/
def decodableKey : Key → Bool
  | .extra k v => utf8Valid k && (match v with | none => true | some v => utf8Valid v)
  | _ => true

/-- what one key does to the record -/
def applyKey (r : Resp) : Key → Resp
  | .imageId n => { r with imageId := some (Int.ofNat n) }
  | .imageNumber n => { r with imageNumber := some (Int.ofNat n) }
  | .placementId n => { r with placementId := some (Int.ofNat n) }
  | .extra k v => { r with additional := dictSet r.additional k v }

theorem lt_pow_of_lt_32 {n : Nat} (h : n < 2 ^ 32) : n < 10 ^ 4300 :=
  Nat.lt_of_lt_of_le h (Nat.le_trans (by decide : 2 ^ 32 ≤ 10 ^ 10) (Nat.pow_le_pow_right (by decide) (by decide)))

theorem splitOnce_not_mem (sep : UInt8) (s : Bytes) (h : sep ∉ s) : splitOnce sep s = (s, none) := by
  induction s with
  | nil => rfl
  | cons b t ih =>
    simp only [List.mem_cons, not_or] at h
    have hb : b ≠ sep := fun e => h.1 e.symm
    simp [splitOnce, hb, ih h.2]

theorem splitOnce_append (sep : UInt8) (s t : Bytes) (h : sep ∉ s) : splitOnce sep (s ++ sep :: t) = (s, some t) := by
  induction s with
  | nil => simp [splitOnce]
  | cons b u ih =>
    simp only [List.mem_cons, not_or] at h
    have hb : b ≠ sep := fun e => h.1 e.symm
    simp [splitOnce, hb, ih h.2]

theorem take2_ne (k : Bytes) (x : UInt8) (h : (61 : UInt8) ∉ k) : k.take 2 ≠ [x, 61] := by
  intro e
  apply h
  have : (61 : UInt8) ∈ k.take 2 := by rw [e]; simp
  exact List.mem_of_mem_take this

theorem take2_kv (k v : Bytes) (x : UInt8) (hne : k ≠ []) (h : (61 : UInt8) ∉ k) (hx : k ≠ [x]) :
    (k ++ [61] ++ v).take 2 ≠ [x, 61] := by
  match k, hne with
  | [c], _ =>
    intro e
    simp at e
    exact hx (by rw [e])
  | c :: c' :: t, _ =>
    intro e
    simp at e
    apply h
    simp [e.2]

theorem applyPart_encodeKey (r : Resp) (k : Key) (hk : keyOk k = true) (hd : decodableKey k = true) :
    applyPart r (encodeKey k) = applyKey r k := by
  have hi : asc "i=" = [105, 61] := by decide
  have hI : asc "I=" = [73, 61] := by decide
  have hp : asc "p=" = [112, 61] := by decide
  cases k with
  | imageId n =>
    have hn : n < 2 ^ 32 := by simpa [keyOk] using hk
    simp [encodeKey, applyPart, hi, applyKey, pyInt_natToDec n (lt_pow_of_lt_32 hn)]
  | imageNumber n =>
    have hn : n < 2 ^ 32 := by simpa [keyOk] using hk
    simp [encodeKey, applyPart, hI, applyKey, pyInt_natToDec n (lt_pow_of_lt_32 hn)]
  | placementId n =>
    have hn : n < 2 ^ 32 := by simpa [keyOk] using hk
    simp [encodeKey, applyPart, hp, applyKey, pyInt_natToDec n (lt_pow_of_lt_32 hn)]
  | extra k v =>
    simp only [keyOk, Bool.and_eq_true, Bool.not_eq_true', List.contains_eq_mem,
      decide_eq_false_iff_not] at hk
    obtain ⟨⟨⟨⟨hne, _⟩, _⟩, h61⟩, hv⟩ := hk
    have hne' : k ≠ [] := by intro e; subst e; simp at hne
    simp only [decodableKey, Bool.and_eq_true] at hd
    cases v with
    | none =>
      have e : k.isEmpty = false := by simpa using hne
      simp [encodeKey, applyPart, e, take2_ne k _ h61, splitOnce_not_mem 61 k h61, hd.1, applyKey]
    | some v =>
      simp only [Bool.and_eq_true, Bool.not_eq_true', Bool.or_eq_false_iff, beq_eq_false_iff_ne, ne_eq] at hv
      obtain ⟨_, ⟨⟨hk1, hk2⟩, hk3⟩⟩ := hv
      have e : (k ++ [61] ++ v).isEmpty = false := by cases k <;> simp at hne' ⊢
      have s : splitOnce 61 (k ++ [61] ++ v) = (k, some v) := by
        have := splitOnce_append 61 k v h61
        simpa using this
      simp only [encodeKey, applyPart, e, Bool.false_eq_true, ↓reduceIte,
        take2_kv k v 105 hne' h61 hk1, take2_kv k v 73 hne' h61 hk2, take2_kv k v 112 hne' h61 hk3, s]
      simp [hd.1, hd.2, applyKey]

end Tup.RespLemmas
