import Tup.Lemmas.TxnCrash
/-!
  The concrete run behind `C12.crash_atomic_get_counterexample`: a large-subspace `get_id` killed after
  its first internal clean-up. (`decide` cannot evaluate `cleanup` — `Std.HashSet` does not reduce in the
  kernel — so the blocks are evaluated one by one.)
-/
namespace Tup.TxnLemmas.CrashEx
open Tup Tup.Txn Tup.TxnLemmas

def X := 0x01000100
def Y := 0x01000200
def db1 : Db := { t2 := [⟨X, "x", 1⟩] }
def req1 : Req := ⟨⟨24, true⟩, ⟨1, 2⟩, "a"⟩
def ch1 : GetChoice := { samples := [[X, X, X, X, X, X, X, X], [Y]], removed := [[X]] }
def cfg0 : Cfg := { maxIds := 0 }

theorem hcl : Tup.cleanup db1 req1.space req1.sub 0 [X] = .ok {} := by
  have hids : db1.ids req1.space = [⟨X, "x", 1⟩] := by decide
  have hlive : Table.inSub [⟨X, "x", 1⟩] req1.space req1.sub = [⟨X, "x", 1⟩] := by decide
  have hadm : admissibleRemoved [⟨X, "x", 1⟩] 1 [X] = true := by
    simp [admissibleRemoved, nodupB, maxAtime, minAtime]
  have her : Table.eraseAll [⟨X, "x", 1⟩] [X] = [] := by
    simp [Table.eraseAll]
  unfold Tup.cleanup
  simp only [hids, hlive, List.length_cons, List.length_nil, Nat.zero_add, Nat.sub_zero, hadm, her, ↓reduceIte]
  rfl

theorem hs1 : req1.space.valid = true := by decide
theorem hu1 : req1.sub.valid = true := by decide
theorem he1 : isEnumerable cfg0 req1.space req1.sub = false := by decide
theorem hlim : fracLimit cfg0 (req1.space.subspaceSize req1.sub) (3, 4) = 0 := by decide
theorem hlk : lookupBlock cfg0 req1 9 ch1.pick db1 = .ok (db1, .miss) := by rfl
theorem hsb1 : sampleBlock req1 9 0 [X, X, X, X, X, X, X, X] db1 = .ok (db1, .none) := by rfl
theorem hsb2 : sampleBlock req1 9 0 [Y] {} = .ok ({ t2 := [⟨Y, "a", 9⟩] }, .inserted Y) := by rfl


theorem s1 : pstepT cfg0 (.getLookup req1 9 ch1) db1 =
    (.getSample req1 9 0 [some (3, 4), some (3, 5), some (1, 2), none] [[X, X, X, X, X, X, X, X], [Y]] [[X]] [], db1) := by
  simp only [pstepT, pstep_getLookup hs1 hu1, hlk, afterLookup, totalOf]; rfl

theorem s2 : pstepT cfg0 (.getSample req1 9 0 [some (3, 4), some (3, 5), some (1, 2), none] [[X, X, X, X, X, X, X, X], [Y]] [[X]] []) db1 =
    (.getCleanup req1 9 0 (3, 4) [some (3, 5), some (1, 2), none] [[X, X, X, X, X, X, X, X], [Y]] [[X]] [], db1) := by
  simp only [pstepT, pstep_getSample_cons hs1 hu1 he1, List.headD_cons, hsb1, afterSample, totalOf]

theorem s3 : pstepT cfg0 (.getCleanup req1 9 0 (3, 4) [some (3, 5), some (1, 2), none] [[X, X, X, X, X, X, X, X], [Y]] [[X]] []) db1 =
    (.getSample req1 9 0 [some (3, 5), some (1, 2), none] [[Y]] [] [X], {}) := by
  simp only [pstepT, pstep_getCleanup hs1 hu1 he1, List.headD_cons, hlim, hcl, afterCleanup, totalOf, List.tail_cons,
    List.nil_append]

theorem s4 : pstepT cfg0 (.getSample req1 9 0 [some (3, 5), some (1, 2), none] [[Y]] [] [X]) {} =
    (.finished (.got (.id Y) (.sampled [X])), { t2 := [⟨Y, "a", 9⟩] }) := by
  simp only [pstepT, pstep_getSample_cons hs1 hu1 he1, List.headD_cons, hsb2, afterSample, totalOf]
  rfl

theorem l3 : lone cfg0 3 (Request.start (.get req1 9 ch1)) db1 =
    (.getSample req1 9 0 [some (3, 5), some (1, 2), none] [[Y]] [] [X], {}) := by
  simp only [lone, Request.start, s1, s2, s3]

theorem l5 : lone cfg0 5 (Request.start (.get req1 9 ch1)) db1 =
    (.finished (.got (.id Y) (.sampled [X])), { t2 := [⟨Y, "a", 9⟩] }) := by
  simp only [lone, Request.start, s1, s2, s3, s4, pstepT_finished]

theorem l10 : lone cfg0 10 (Request.start (.get req1 9 ch1)) db1 =
    (.finished (.got (.id Y) (.sampled [X])), { t2 := [⟨Y, "a", 9⟩] }) := lone_mono l5 (by decide)

theorem post : applyOp cfg0 db1 (.get req1 9 ch1) = { t2 := [⟨Y, "a", 9⟩] } := by
  have := lone_getLookup (cfg := cfg0) hs1 hu1 9 ch1 db1
  cases hg : getId cfg0 db1 req1 9 ch1 with
  | error e =>
    rw [hg] at this
    have h10 := l10
    simp only [Request.start] at h10
    rw [h10] at this
    cases this
  | ok x =>
    obtain ⟨db', res, out⟩ := x
    rw [hg] at this
    have h10 := l10
    simp only [Request.start] at h10
    rw [h10] at this
    injection this with _ h2
    rw [applyOp_get hs1 hu1 hg, ← h2]

theorem cleanups1 : run cfg0 ((ownCleanups cfg0 req1 ch1).take 1) db1 = {} := by
  simp only [ownCleanups, fracs, cleanupsFrom, List.take_succ_cons, List.take_zero, ch1, List.headD_cons, hlim]
  rw [run_cleanup_cons hs1 hu1 hcl]
  rfl

end Tup.TxnLemmas.CrashEx
