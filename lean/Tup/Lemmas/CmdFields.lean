import Tup.Lemmas.CmdParse
/-!
  The header items of the model are a permutation of the protocol key table applied to the
  command (`Spec.GfxParse.fields`), and their keys are pairwise distinct.  Core Lean only.
-/
namespace Tup.Command
open Tup Tup.Spec.GfxParse

theorem map_rp_hp (k : UInt8) (v : Option HVal) : (hp k v).map rp = opt k (v.map HVal.render) := by
  cases v <;> rfl

theorem render_nInt (v : Option Nat) : (v.map nInt).map HVal.render = v.map num := by cases v <;> rfl
theorem render_nBool (v : Option Bool) : (v.map nBool).map HVal.render = v.map flag := by
  cases v with
  | none => rfl
  | some b => cases b <;> rfl
theorem render_medium (v : Option Medium) :
    (v.map fun m => nChar m.value).map HVal.render = v.map fun m => [mediumLetter m] := by
  cases v with
  | none => rfl
  | some m => cases m <;> rfl
theorem render_compression (v : Option Compression) :
    (v.map fun m => nChar m.value).map HVal.render = v.map fun m => [compressionLetter m] := by
  cases v with
  | none => rfl
  | some m => cases m <;> rfl
theorem render_quiet (v : Option Quietness) :
    (v.map fun q => nInt q.value).map HVal.render = v.map fun q => num (quietCode q) := by
  cases v with
  | none => rfl
  | some m => cases m <;> rfl
theorem render_format (v : Option Format) :
    (v.map fun q => nInt q.value).map HVal.render = v.map fun q => num (formatCode q) := by
  cases v with
  | none => rfl
  | some m => cases m <;> rfl

theorem render_action (t : Transmit) : t.action.map HVal.render = transmitAction t := by
  unfold Transmit.action transmitAction
  cases t.omitAction <;> simp
  by_cases hq : t.query = some true <;> cases t.placement <;> simp [hq, nChar, HVal.render]

theorem render_whatStr (d : Delete) :
    d.whatStr.map HVal.render = d.what.map fun w => [deleteLetter w (d.deleteData == some true)] := by
  unfold Delete.whatStr
  cases d.what with
  | none => rfl
  | some w =>
    cases hd : d.deleteData with
    | none => cases w <;> rfl
    | some b => cases b <;> cases w <;> rfl

theorem placement_map_rp (p : Placement) : p.pairs.map rp = placementFields p := by
  simp only [Placement.pairs, placementFields, List.map_append, map_rp_hp, render_nInt, render_nBool]

theorem perm_of_count {α} [DecidableEq α] {l1 l2 : List α} (h : ∀ a, l1.count a = l2.count a) : l1.Perm l2 :=
  List.perm_iff_count.mpr h

/-- C06: the items on the wire are a permutation of the key table applied to the command. -/
theorem fields_perm (c : GCmd) : ((headerPairs c).map rp).Perm (fields c) := by
  cases c with
  | transmit t =>
    simp only [headerPairs, Transmit.pairs, fields, List.map_append, map_rp_hp, render_nInt, render_nBool,
      render_medium, render_compression, render_quiet, render_format, render_action]
    cases hpl : t.placement with
    | none =>
      simp only [List.map_nil]
      apply perm_of_count
      intro a
      simp only [List.count_append]
      omega
    | some p =>
      simp only [placement_map_rp]
      apply perm_of_count
      intro a
      simp only [List.count_append]
      omega
  | moreData m =>
    simp only [headerPairs, MoreData.pairs, fields, List.map_append, map_rp_hp, render_nInt, render_nBool]
    exact List.Perm.refl _
  | put p =>
    simp only [headerPairs, Put.pairs, fields, List.map_append, map_rp_hp, render_nInt, render_quiet, placement_map_rp]
    exact List.Perm.refl _
  | delete d =>
    simp only [headerPairs, Delete.pairs, fields, List.map_append, map_rp_hp, render_nInt, render_quiet, render_whatStr]
    exact List.Perm.refl _

/-! ### distinct keys -/

theorem keys_append (l1 l2 : List (UInt8 × Bytes)) : keys (l1 ++ l2) = keys l1 ++ keys l2 := by
  simp [keys]

theorem keys_opt_sublist (k : UInt8) (v : Option Bytes) : (keys (opt k v)).Sublist [k] := by
  cases v with
  | none => simp [keys, opt]
  | some x => simp [keys, opt]

theorem placement_keys_sublist (p : Placement) :
    (keys (placementFields p)).Sublist ([112] ++ [85] ++ [114] ++ [99] ++ [120] ++ [121] ++ [119] ++ [104] ++ [67]) := by
  simp only [placementFields, keys_append]
  repeat' apply List.Sublist.append
  all_goals exact keys_opt_sublist _ _

/-- C06: the keys of the key table applied to a command are pairwise distinct. -/
theorem fields_keys_nodup (c : GCmd) : (keys (fields c)).Nodup := by
  cases c with
  | transmit t =>
    have hs : (keys (fields (.transmit t))).Sublist
        ([97] ++ [105] ++ [73] ++ [116] ++ [102] ++ [111] ++ [115] ++ [118] ++ [83] ++ [79] ++ [109] ++ [113] ++
          ([112] ++ [85] ++ [114] ++ [99] ++ [120] ++ [121] ++ [119] ++ [104] ++ [67])) := by
      simp only [fields, keys_append]
      repeat' apply List.Sublist.append
      all_goals first
        | exact keys_opt_sublist _ _
        | (cases t.placement with
           | none => simp [keys]
           | some p => exact placement_keys_sublist p)
    exact List.Nodup.sublist hs (by decide)
  | moreData m =>
    have hs : (keys (fields (.moreData m))).Sublist ([105] ++ [73] ++ [109]) := by
      simp only [fields, keys_append]
      repeat' apply List.Sublist.append
      all_goals exact keys_opt_sublist _ _
    exact List.Nodup.sublist hs (by decide)
  | put p =>
    have hs : (keys (fields (.put p))).Sublist
        ([97] ++ [105] ++ [73] ++ [113] ++ ([112] ++ [85] ++ [114] ++ [99] ++ [120] ++ [121] ++ [119] ++ [104] ++ [67])) := by
      simp only [fields, keys_append]
      repeat' apply List.Sublist.append
      all_goals first
        | exact keys_opt_sublist _ _
        | exact placement_keys_sublist _
    exact List.Nodup.sublist hs (by decide)
  | delete d =>
    have hs : (keys (fields (.delete d))).Sublist ([97] ++ [105] ++ [73] ++ [112] ++ [113] ++ [100]) := by
      simp only [fields, keys_append]
      repeat' apply List.Sublist.append
      all_goals exact keys_opt_sublist _ _
    exact List.Nodup.sublist hs (by decide)

/-- keys on the wire are distinct as well (a permutation of distinct keys) -/
theorem wire_keys_nodup (c : GCmd) : (keys ((headerPairs c).map rp)).Nodup := by
  have hp : (keys ((headerPairs c).map rp)).Perm (keys (fields c)) := (fields_perm c).map _
  exact hp.nodup_iff.mpr (fields_keys_nodup c)

end Tup.Command
