import Tup.Lemmas.CmdBasic
/-!
  The independent parser `Spec.GfxParse.parseRaw` inverts the model's serialisation (C06), and
  the recovered items are a permutation of the protocol's key table applied to the command.
  Core Lean only.
-/
namespace Tup.Command
open Tup Tup.Spec.GfxParse

/-- rendered form of a header item -/
def rp (p : UInt8 × HVal) : UInt8 × Bytes := (p.1, p.2.render)

/-! ### framing -/

theorem apcBody_append (xs : Bytes) (h : ESC ∉ xs) : apcBody (xs ++ [27, 92]) = some xs := by
  induction xs with
  | nil => simp [apcBody, ESC]
  | cons b rest ih =>
    have hb : b ≠ ESC := fun e => h (by simp [e])
    have hr : ESC ∉ rest := fun e => h (by simp [e])
    simp [apcBody, hb, ih hr]

theorem splitSemi_no (xs : Bytes) (h : (59 : UInt8) ∉ xs) : splitSemi xs = (xs, []) := by
  induction xs with
  | nil => rfl
  | cons b rest ih =>
    have hb : b ≠ 59 := fun e => h (by simp [e])
    have hr : (59 : UInt8) ∉ rest := fun e => h (by simp [e])
    simp [splitSemi, hb, ih hr]

theorem splitSemi_append (xs ys : Bytes) (h : (59 : UInt8) ∉ xs) : splitSemi (xs ++ 59 :: ys) = (xs, ys) := by
  induction xs with
  | nil => simp [splitSemi]
  | cons b rest ih =>
    have hb : b ≠ 59 := fun e => h (by simp [e])
    have hr : (59 : UInt8) ∉ rest := fun e => h (by simp [e])
    simp [splitSemi, hb, ih hr]

/-! ### comma separated items -/

theorem splitOn_no (sep : UInt8) (x : Bytes) (h : sep ∉ x) : splitOn sep x = [x] := by
  induction x with
  | nil => rfl
  | cons b rest ih =>
    have hb : b ≠ sep := fun e => h (by simp [e])
    have hr : sep ∉ rest := fun e => h (by simp [e])
    simp [splitOn, hb, ih hr]

theorem splitOn_append (sep : UInt8) (x y : Bytes) (h : sep ∉ x) :
    splitOn sep (x ++ sep :: y) = x :: splitOn sep y := by
  induction x with
  | nil => simp [splitOn]
  | cons b rest ih =>
    have hb : b ≠ sep := fun e => h (by simp [e])
    have hr : sep ∉ rest := fun e => h (by simp [e])
    simp [splitOn, hb, ih hr]

theorem splitOn_joinComma (parts : List Bytes) (hne : parts ≠ []) (h : ∀ p ∈ parts, (44 : UInt8) ∉ p) :
    splitOn 44 (joinComma parts) = parts := by
  induction parts with
  | nil => exact absurd rfl hne
  | cons a rest ih =>
    cases rest with
    | nil => simpa [joinComma] using splitOn_no 44 a (h a (by simp))
    | cons b r =>
      simp only [joinComma]
      rw [splitOn_append 44 a _ (h a (by simp))]
      rw [ih (by simp) (fun p hp => h p (by simp [hp]))]

theorem joinComma_ne_nil (parts : List Bytes) (hne : parts ≠ []) (h : ∀ p ∈ parts, p ≠ []) : joinComma parts ≠ [] := by
  cases parts with
  | nil => exact absurd rfl hne
  | cons a rest =>
    cases rest with
    | nil => simpa [joinComma] using h a (by simp)
    | cons b r =>
      simp only [joinComma]
      have := h a (by simp)
      cases a with
      | nil => exact absurd rfl this
      | cons x xs => simp

theorem parseKV_kvBytes (p : UInt8 × HVal) (h : GoodPair p) : parseKV (kvBytes p) = some (rp p) := by
  obtain ⟨hk, hne, hall⟩ := h
  have hall' : (p.2.render).all isValueChar = true := by
    simp only [List.all_eq_true]; exact hall
  simp [kvBytes, parseKV, hk, hne, hall', rp]

theorem mapM_parseKV (ps : List (UInt8 × HVal)) (h : ∀ p ∈ ps, GoodPair p) :
    (ps.map kvBytes).mapM parseKV = some (ps.map rp) := by
  induction ps with
  | nil => rfl
  | cons a rest ih =>
    simp only [List.map_cons, List.mapM_cons, parseKV_kvBytes a (h a (by simp)),
      ih (fun p hp => h p (by simp [hp]))]
    rfl

theorem parseControl_header (ps : List (UInt8 × HVal)) (h : ∀ p ∈ ps, GoodPair p) :
    parseControl (joinComma (ps.map kvBytes)) = some (ps.map rp) := by
  cases hps : ps with
  | nil => simp [joinComma, parseControl]
  | cons a rest =>
    rw [← hps]
    have hne : ps.map kvBytes ≠ [] := by simp [hps]
    have hnn : joinComma (ps.map kvBytes) ≠ [] := by
      apply joinComma_ne_nil _ hne
      intro p hp
      simp only [List.mem_map] at hp
      obtain ⟨q, _, rfl⟩ := hp
      simp [kvBytes]
    have hno : ∀ p ∈ ps.map kvBytes, (44 : UInt8) ∉ p := by
      intro p hp
      simp only [List.mem_map] at hp
      obtain ⟨q, hq, rfl⟩ := hp
      exact kvBytes_no q (h q hq) 44 (by simp)
    simp only [parseControl, hnn, if_false]
    rw [splitOn_joinComma _ hne hno]
    exact mapM_parseKV ps h

/-- the encoded payload text the parser must return: nothing for put/delete -/
def payloadText (c : GCmd) : Bytes := (encodedPayload c).getD []

/-- The parser recovers the header items in order and the base64 text. -/
theorem parseRaw_toBytes (c : GCmd) :
    parseRaw (toBytes (template 0) c) = some ((headerPairs c).map rp, payloadText c) := by
  have hesc := contentBytes_no_esc c
  simp only [toBytes, template, defaultTemplate, stTerm, List.cons_append, List.nil_append, parseRaw]
  rw [apcBody_append _ hesc]
  have hsemi := headerBytes_no c 59 (Or.inr rfl)
  have hctl := parseControl_header (headerPairs c) (headerPairs_good c)
  unfold contentBytes payloadText
  unfold headerBytes at hsemi ⊢
  cases hp : encodedPayload c with
  | none =>
    simp only [Option.bind_eq_bind, Option.bind_some, splitSemi_no _ hsemi, hctl]
    rfl
  | some pl =>
    simp only [Option.bind_eq_bind, Option.bind_some, splitSemi_append _ _ hsemi, hctl]
    rfl

theorem b64dec_payloadText (c : GCmd) : b64dec (payloadText c) = some (payload c) := by
  cases c <;> simp [payloadText, encodedPayload, rawPayload, payload, b64dec_b64enc, b64dec]

/-- `parse ∘ toBytes`: items in wire order and the exact payload. -/
theorem parse_toBytes_items (c : GCmd) :
    parse (toBytes (template 0) c) = some ((headerPairs c).map rp, payload c) := by
  simp [parse, parseRaw_toBytes, b64dec_payloadText]

end Tup.Command
