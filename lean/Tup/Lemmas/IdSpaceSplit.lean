import Tup.Lemmas.IdSpace
/-! Helper lemmas for C10: `IDSubspace.split`. Core Lean only. -/
namespace Tup.IdLemmas
open Tup

theorem pyRange_exact (start size k : Nat) (hs : 0 < size) :
    pyRange start (start + size * k) size = List.range' start k size := by
  unfold pyRange
  rw [if_neg (by omega)]
  congr 1
  have : start + size * k - start + size - 1 = size * k + (size - 1) := by omega
  rw [this, Nat.mul_add_div hs, Nat.div_eq_of_lt (by omega)]
  rfl

/-- The list `split` returns, written out. -/
def splitParts (u : Sub) (k : Nat) : List Sub :=
  let size := u.numNonzeroByteValues / k
  let rem := u.numByteValues - size * k
  ⟨u.b, u.b + rem + size⟩ :: (List.range' (u.b + rem + size) (k - 1) size).map fun bg => ⟨bg, bg + size⟩

/-- arithmetic facts about `size` and `remainder` in `split` -/
theorem split_arith (u : Sub) (hu : u.valid = true) (k : Nat) (hk : 2 ≤ k)
    (hn : k ≤ u.numNonzeroByteValues) :
    let size := u.numNonzeroByteValues / k
    let rem := u.numByteValues - size * k
    1 ≤ size ∧ size * k ≤ u.numNonzeroByteValues ∧ u.b + rem + size * k = u.e ∧
      (u.b = 0 → 1 ≤ rem) := by
  intro size rem
  have hv := (Sub.valid_iff u).1 hu
  have h1 : 1 ≤ size := Nat.div_pos hn (by omega)
  have h2 : size * k ≤ u.numNonzeroByteValues := Nat.div_mul_le_self _ _
  have h3 : u.numNonzeroByteValues ≤ u.numByteValues := by
    unfold Sub.numNonzeroByteValues Sub.numByteValues; split <;> omega
  refine ⟨h1, h2, ?_, ?_⟩
  · show u.b + (u.numByteValues - size * k) + size * k = u.e
    have : u.numByteValues = u.e - u.b := rfl
    omega
  · intro hb
    show 1 ≤ u.numByteValues - size * k
    have : u.numNonzeroByteValues = u.e - 1 := by simp [Sub.numNonzeroByteValues, hb]
    have : u.numByteValues = u.e - u.b := rfl
    omega

theorem split_eq (u : Sub) (hu : u.valid = true) (k : Nat) (hk : 2 ≤ k)
    (hn : k ≤ u.numNonzeroByteValues) : u.split k = some (splitParts u k) := by
  obtain ⟨h1, h2, h3, h4⟩ := split_arith u hu k hk hn
  unfold Sub.split splitParts
  rw [if_neg (by omega), if_neg (by omega), if_neg (by omega)]
  simp only
  generalize hsz : u.numNonzeroByteValues / k = size at *
  generalize hrm : u.numByteValues - size * k = rem at *
  have : pyRange (u.b + rem) u.e size = List.range' (u.b + rem) k size := by
    rw [← h3]; exact pyRange_exact _ _ _ h1
  rw [this]
  obtain ⟨k', rfl⟩ : ∃ k', k = k' + 1 := ⟨k - 1, by omega⟩
  simp [List.range'_succ]

theorem splitParts_length (u : Sub) (k : Nat) (hk : 1 ≤ k) : (splitParts u k).length = k := by
  simp [splitParts]; omega

theorem splitParts_getElem (u : Sub) (k i : Nat) (h : i < (splitParts u k).length) :
    (splitParts u k)[i] =
      ⟨if i = 0 then u.b
        else u.b + (u.numByteValues - u.numNonzeroByteValues / k * k) + u.numNonzeroByteValues / k * i,
       u.b + (u.numByteValues - u.numNonzeroByteValues / k * k) + u.numNonzeroByteValues / k * (i + 1)⟩ := by
  cases i with
  | zero => simp [splitParts]
  | succ j =>
    simp only [splitParts, List.getElem_cons_succ, List.getElem_map, List.getElem_range',
      Nat.mul_add, Nat.mul_one, Sub.mk.injEq, if_neg (Nat.succ_ne_zero j)]
    omega


/-- What a correct result of `split u k` looks like. -/
structure SplitOk (u : Sub) (k : Nat) (parts : List Sub) : Prop where
  length : parts.length = k
  first : parts.head?.map (·.b) = some u.b
  last : parts.getLast?.map (·.e) = some u.e
  abut : ∀ i (h : i + 1 < parts.length), parts[i].e = parts[i + 1].b
  parts_ok : ∀ p ∈ parts, p.valid = true ∧ 1 ≤ p.numNonzeroByteValues

theorem splitOk_one (u : Sub) (hu : u.valid = true) : SplitOk u 1 [u] where
  length := rfl
  first := rfl
  last := rfl
  abut := by intro i h; simp at h
  parts_ok := by intro p hp; simp at hp; rw [hp]; exact ⟨hu, valid_nnz_pos u hu⟩

theorem splitOk_parts (u : Sub) (hu : u.valid = true) (k : Nat) (hk : 2 ≤ k)
    (hn : k ≤ u.numNonzeroByteValues) : SplitOk u k (splitParts u k) := by
  obtain ⟨h1, h2, h3, h4⟩ := split_arith u hu k hk hn
  have hv := (Sub.valid_iff u).1 hu
  have hlen := splitParts_length u k (by omega)
  have hget := splitParts_getElem u k
  generalize hsz : u.numNonzeroByteValues / k = size at *
  generalize hrm : u.numByteValues - size * k = rem at *
  refine ⟨hlen, ?_, ?_, ?_, ?_⟩
  · simp [splitParts]
  · rw [List.getLast?_eq_getElem?, List.getElem?_eq_getElem (by omega)]
    simp only [Option.map_some, hget, hlen]
    have : k - 1 + 1 = k := by omega
    rw [this, h3]
  · intro i h
    rw [hget, hget]
    simp
  · intro p hp
    obtain ⟨i, hi, rfl⟩ := List.mem_iff_getElem.1 hp
    rw [hget i hi, Sub.valid_iff]
    have hik : size * (i + 1) ≤ size * k := Nat.mul_le_mul_left _ (by omega)
    have hi1 : size * (i + 1) = size * i + size := by rw [Nat.mul_add, Nat.mul_one]
    simp only [Sub.numNonzeroByteValues]
    by_cases hi0 : i = 0
    · subst hi0
      simp only [if_true, Nat.mul_zero, Nat.zero_add, Nat.mul_one] at *
      split <;> omega
    · simp only [if_neg hi0]
      have : size * 1 ≤ size * i := Nat.mul_le_mul_left _ (by omega)
      split <;> omega

/-- `split` succeeds exactly as specified on `1 ≤ k ≤ #non-zero byte values` (and on `k = 1`). -/
theorem split_spec (u : Sub) (hu : u.valid = true) (k : Nat)
    (hk : k = 1 ∨ (1 ≤ k ∧ k ≤ u.numNonzeroByteValues)) :
    ∃ parts, u.split k = some parts ∧ SplitOk u k parts := by
  by_cases h1 : k = 1
  · subst h1; exact ⟨[u], by simp [Sub.split], splitOk_one u hu⟩
  · have hk2 : 2 ≤ k ∧ k ≤ u.numNonzeroByteValues := by omega
    exact ⟨_, split_eq u hu k hk2.1 hk2.2, splitOk_parts u hu k hk2.1 hk2.2⟩

theorem split_rejects (u : Sub) (k : Nat) (h : k = 0 ∨ (2 ≤ k ∧ u.numNonzeroByteValues < k)) :
    u.split k = none := by
  unfold Sub.split
  rcases h with rfl | ⟨h2, h3⟩
  · simp
  · rw [if_neg (by omega), if_neg (by omega), if_pos h3]

/-- `split` raises exactly when `k = 0` or `k ≥ 2` exceeds the number of non-zero byte values. -/
theorem split_none_iff (u : Sub) (hu : u.valid = true) (k : Nat) :
    u.split k = none ↔ (k = 0 ∨ (2 ≤ k ∧ u.numNonzeroByteValues < k)) := by
  constructor
  · intro h
    by_cases hc : k = 0 ∨ (2 ≤ k ∧ u.numNonzeroByteValues < k)
    · exact hc
    · obtain ⟨parts, hp, _⟩ := split_spec u hu k (by omega)
      rw [hp] at h; cases h
  · exact split_rejects u k

/-- the parts are pairwise ordered (hence pairwise non-overlapping as byte ranges) -/
theorem splitOk_pairwise {u : Sub} {k : Nat} {parts : List Sub} (h : SplitOk u k parts) :
    parts.Pairwise (fun p q => p.e ≤ q.b) := by
  rw [List.pairwise_iff_getElem]
  intro i j hi hj hij
  have hlt : ∀ n (hn : n < parts.length), parts[n].b < parts[n].e := by
    intro n hn
    have := ((Sub.valid_iff _).1 (h.parts_ok _ (List.getElem_mem hn)).1).1
    exact this
  -- induction on the distance
  obtain ⟨d, rfl⟩ : ∃ d, j = i + 1 + d := ⟨j - (i + 1), by omega⟩
  clear hij
  induction d with
  | zero => exact Nat.le_of_eq (h.abut i hj)
  | succ d ih =>
    have hj' : i + 1 + d < parts.length := by omega
    have := ih hj'
    have h2 := h.abut (i + 1 + d) (by omega)
    have h3 := hlt (i + 1 + d) hj'
    have : parts[i + 1 + d + 1].b = parts[i + 1 + (d + 1)].b := by congr 1
    omega

end Tup.IdLemmas
