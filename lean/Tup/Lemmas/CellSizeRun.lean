import Tup.Lemmas.CellSize
/-!
  Glue for C15: under the property's quantifier the real entry point
  `getOptimalColsAndRows` is `pureCore` at the limits the specification names.
-/
namespace Tup.CellSize
open Tup.Spec.CellSize

/-- The inputs the property quantifies over: image and cell sizes ≥ 1, positive scale factors,
    limits ≥ 1 (per call or configured) or taken from an existing terminal size, explicit
    columns/rows ≥ 1. -/
structure Dom (e : Env) (w h : Nat) (cols? rows? maxCols? maxRows? : Option Int) (scale? : Option Frac) : Prop where
  w : 0 < w
  h : 0 < h
  cellW : 0 < (getCellSize e).1
  cellH : 0 < (getCellSize e).2
  cfgScale : 0 < e.cfgScale.num ∧ 0 < e.cfgScale.den
  globalScale : 0 < e.cfgGlobalScale.num ∧ 0 < e.cfgGlobalScale.den
  scale : ∀ s, scale? = some s → 0 < s.num ∧ 0 < s.den
  termRows : e.tRows ≠ 0
  termCols : e.tCols ≠ 0
  argC : ∀ m, maxCols? = some m → 1 ≤ m
  argR : ∀ m, maxRows? = some m → 1 ≤ m
  cfgC : ∀ m, e.cfgMaxCols = some m → 1 ≤ m
  cfgR : ∀ m, e.cfgMaxRows = some m → 1 ≤ m
  cols : ∀ c, cols? = some c → 1 ≤ c
  rows : ∀ r, rows? = some r → 1 ≤ r

/-- The scale in force: the per-call factor if given, else the configured one, times the global one. -/
def scaleOf (e : Env) (scale? : Option Frac) : Frac := e.cfgGlobalScale.mul (scale?.getD e.cfgScale)

def limCOf (e : Env) (maxCols? : Option Int) : Nat := colLimit (maxCols?.map Int.toNat) (e.cfgMaxCols.map Int.toNat) e.tCols
def limROf (e : Env) (maxRows? : Option Int) : Nat := rowLimit (maxRows?.map Int.toNat) (e.cfgMaxRows.map Int.toNat) e.tRows

def geoOf (e : Env) (w h : Nat) (scale? : Option Frac) : Geo :=
  let s := scaleOf e scale?
  { wn := w * s.num, hn := h * s.num, sd := s.den, cw := (getCellSize e).1, ch := (getCellSize e).2 }

/-- What the specification is asked: scaled image `w·s × h·s`, the cell size, the explicit
    dimensions and the limits in force. -/
def reqFor (e : Env) (w h : Nat) (cols? rows? maxCols? maxRows? : Option Int) (scale? : Option Frac) : Req :=
  reqOf (geoOf e w h scale?) cols? rows? (limCOf e maxCols?) (limROf e maxRows?)

theorem limits {e : Env} {maxCols? maxRows? : Option Int}
    (hR : e.tRows ≠ 0) (hC : e.tCols ≠ 0)
    (argC : ∀ m, maxCols? = some m → 1 ≤ m) (argR : ∀ m, maxRows? = some m → 1 ≤ m)
    (cfgC : ∀ m, e.cfgMaxCols = some m → 1 ≤ m) (cfgR : ∀ m, e.cfgMaxRows = some m → 1 ≤ m) :
    getMaxColsAndRows e maxCols? maxRows? = .ok ((limCOf e maxCols? : Nat), (limROf e maxRows? : Nat)) := by
  unfold getMaxColsAndRows limCOf limROf colLimit rowLimit limit termSize
  rcases maxCols? with _ | a <;> rcases maxRows? with _ | b <;>
    rcases hc : e.cfgMaxCols with _ | c <;> rcases hr : e.cfgMaxRows with _ | d <;>
    simp only [hc, hr] at cfgC cfgR <;>
    simp [pyOr, hR, hC, bind, Except.bind, pure, Except.pure] <;>
    (try have := argC _ rfl) <;> (try have := argR _ rfl) <;> (try have := cfgC _ rfl) <;> (try have := cfgR _ rfl) <;>
    (try (refine ⟨?_, ?_⟩)) <;> (try split) <;> omega

theorem effectiveScale_eq {e : Env} {scale? : Option Frac} (hs : ∀ s, scale? = some s → 0 < s.num ∧ 0 < s.den) :
    effectiveScale e scale? = scaleOf e scale? := by
  unfold effectiveScale scaleOf
  rcases scale? with _ | s
  · rfl
  · have := (hs s rfl).1
    simp [Nat.pos_iff_ne_zero.mp this]

theorem geoOf_pos {e : Env} {w h : Nat} {cols? rows? maxCols? maxRows? : Option Int} {scale? : Option Frac}
    (D : Dom e w h cols? rows? maxCols? maxRows? scale?) : (geoOf e w h scale?).Pos := by
  have hs : 0 < (scaleOf e scale?).num ∧ 0 < (scaleOf e scale?).den := by
    unfold scaleOf Frac.mul
    rcases scale? with _ | s
    · exact ⟨Nat.mul_pos D.globalScale.1 D.cfgScale.1, Nat.mul_pos D.globalScale.2 D.cfgScale.2⟩
    · have := D.scale s rfl
      exact ⟨Nat.mul_pos D.globalScale.1 this.1, Nat.mul_pos D.globalScale.2 this.2⟩
  exact ⟨Nat.mul_pos D.w hs.1, Nat.mul_pos D.h hs.1, hs.2, D.cellW, D.cellH⟩

/-- Under the property's quantifier, with at most one explicit dimension, the entry point does not
    raise and returns `pureCore` at the specification's limits. -/
theorem run {e : Env} {w h : Nat} {cols? rows? maxCols? maxRows? : Option Int} {scale? : Option Frac}
    (D : Dom e w h cols? rows? maxCols? maxRows? scale?) (hnot : ¬ (cols?.isSome ∧ rows?.isSome)) :
    getOptimalColsAndRows e w h cols? rows? maxCols? maxRows? scale? =
      .ok (((pureCore (geoOf e w h scale?) (cols?.map Int.toNat) (rows?.map Int.toNat) (limCOf e maxCols?) (limROf e maxRows?)).1 : Nat),
           ((pureCore (geoOf e w h scale?) (cols?.map Int.toNat) (rows?.map Int.toNat) (limCOf e maxCols?) (limROf e maxRows?)).2 : Nat)) := by
  have hl := limits D.termRows D.termCols D.argC D.argR D.cfgC D.cfgR
  have hsc := effectiveScale_eq (e := e) D.scale
  have hp := geoOf_pos D
  unfold getOptimalColsAndRows getOptimalGen
  rcases cols? with _ | c <;> rcases rows? with _ | r
  · simp only [hl, hsc, bind, Except.bind, pure, Except.pure, Option.map_none, Int.toNat_natCast]
    have := sizeCore_eq_pure hp none none (limCOf e maxCols?) (limROf e maxRows?)
    simp only [geoOf] at this ⊢
    rw [this]
  · have hr := D.rows r rfl
    have hr' : ¬ r ≤ 0 := by omega
    simp only [hl, hsc, hr', bind, Except.bind, pure, Except.pure, Option.map_none, Option.map_some, Int.toNat_natCast, ↓reduceIte]
    have := sizeCore_eq_pure hp none (some r.toNat) (limCOf e maxCols?) (limROf e maxRows?)
    simp only [geoOf] at this ⊢
    rw [this]
  · have hc := D.cols c rfl
    have hc' : ¬ c ≤ 0 := by omega
    simp only [hl, hsc, hc', bind, Except.bind, pure, Except.pure, Option.map_none, Option.map_some, Int.toNat_natCast, ↓reduceIte]
    have := sizeCore_eq_pure hp (some c.toNat) none (limCOf e maxCols?) (limROf e maxRows?)
    simp only [geoOf] at this ⊢
    rw [this]
  · simp at hnot

variable {e : Env} {w h : Nat} {cols? rows? maxCols? maxRows? : Option Int} {scale? : Option Frac} {c r : Int}

theorem limC_pos (D : Dom e w h cols? rows? maxCols? maxRows? scale?) : 1 ≤ limCOf e maxCols? := by
  have h1 := D.argC; have h2 := D.cfgC; have h3 := D.termCols
  unfold limCOf colLimit limit
  rcases maxCols? with _ | a <;> rcases hc : e.cfgMaxCols with _ | b <;> simp only [hc] at h2 <;>
    simp <;> (try have := h1 _ rfl) <;> (try have := h2 _ rfl) <;> omega

theorem limR_pos (D : Dom e w h cols? rows? maxCols? maxRows? scale?) : 1 ≤ limROf e maxRows? ∧ limROf e maxRows? ≤ 256 := by
  have h1 := D.argR; have h2 := D.cfgR; have h3 := D.termRows
  unfold limROf rowLimit limit
  rcases maxRows? with _ | a <;> rcases hc : e.cfgMaxRows with _ | b <;> simp only [hc] at h2 <;>
    simp <;> (try have := h1 _ rfl) <;> (try have := h2 _ rfl) <;> omega

theorem shape_of (D : Dom e w h cols? rows? maxCols? maxRows? scale?) (hnot : ¬ (cols?.isSome ∧ rows?.isSome))
    (hres : getOptimalColsAndRows e w h cols? rows? maxCols? maxRows? scale? = .ok (c, r)) :
    ∃ cN rN : Nat, c = cN ∧ r = rN ∧ 1 ≤ cN ∧ cN ≤ limCOf e maxCols? ∧ 1 ≤ rN ∧ rN ≤ limROf e maxRows? ∧
      Shape (geoOf e w h scale?) (cols?.map Int.toNat) (rows?.map Int.toNat) (limCOf e maxCols?) (limROf e maxRows?) cN rN := by
  rw [run D hnot] at hres
  injection hres with hres
  injection hres with h1 h2
  have hcols : ∀ c0, cols?.map Int.toNat = some c0 → 1 ≤ c0 := by
    intro c0 hc0
    rcases cols? with _ | x
    · simp at hc0
    · have := D.cols x rfl; simp at hc0; omega
  have hrows : ∀ r0, rows?.map Int.toNat = some r0 → 1 ≤ r0 := by
    intro r0 hr0
    rcases rows? with _ | x
    · simp at hr0
    · have := D.rows x rfl; simp at hr0; omega
  have hnot' : ¬ ((cols?.map Int.toNat).isSome ∧ (rows?.map Int.toNat).isSome) := by simpa using hnot
  have sh := pureCore_shape (geoOf_pos D) (limC_pos D) (limR_pos D).1 hcols hrows hnot'
  exact ⟨_, _, h1.symm, h2.symm, sh.1, sh.2.1, sh.2.2.1, sh.2.2.2.1, sh.2.2.2.2⟩

end Tup.CellSize
