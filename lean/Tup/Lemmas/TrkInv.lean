import Tup.Lemmas.TrkTerm
/-!
  The invariant behind `tracked_sound` (C16) and its preservation by every call of the tracker
  model.  No Mathlib.
-/
namespace Tup.Trk
open Tup Tup.Spec

/-- The invariant: what the tracker believes is true of the terminal `t`. -/
structure Inv (w h : Nat) (t : Term) (s : Trk) : Prop where
  tw : t.w = w
  th : t.h = h
  hw : 1 ≤ w
  wf : t.WF
  cpr : t.cfg.cprClamps = false
  trk : ∀ x y, s.tracked = some (x, y) → x = (t.cx : Int) ∧ y = (t.cy : Int) ∧ t.cx < t.w
  mar : s.margins = false → t.top = 0 ∧ t.bot = t.h - 1

theorem feedChunks_append (t : Term) (a b : List Chunk) :
    feedChunks t (a ++ b) = feedChunks (feedChunks t a) b := by
  simp [feedChunks, List.foldl_append]

@[simp] theorem feedChunks_nil (t : Term) : feedChunks t [] = t := rfl
@[simp] theorem feedChunks_cons (t : Term) (c : Chunk) (cs : List Chunk) :
    feedChunks t (c :: cs) = feedChunks (feedChunk t c) cs := rfl

theorem feedChunk_good (t : Term) (wf : t.WF) (c : Chunk) : Good t (feedChunk t c) := by
  cases c with
  | tok k => exact feedP_WF t wf k
  | raw bs => exact foldl_feedP_WF _ t wf

theorem feedChunks_good (cs : List Chunk) (t : Term) (wf : t.WF) : Good t (feedChunks t cs) := by
  induction cs generalizing t with
  | nil => exact Good.refl wf
  | cons c cs ih => exact (feedChunk_good t wf c).trans (ih _ (feedChunk_good t wf c).1)

/-- chunks that cannot change the scroll margins -/
def chunkKeepsMargins : Chunk → Prop
  | .tok k => setsMargins k = false
  | .raw bs => ∀ k ∈ parse bs, setsMargins k = false

theorem foldl_feedP_topbot (ts : List Tok) (t : Term) (h : ∀ k ∈ ts, setsMargins k = false) :
    (ts.foldl Term.feedP t).top = t.top ∧ (ts.foldl Term.feedP t).bot = t.bot := by
  induction ts generalizing t with
  | nil => exact ⟨rfl, rfl⟩
  | cons k ks ih =>
    have h1 := feedP_topbot t k (h k (by simp))
    have h2 := ih (t.feedP k) (fun k' hk' => h k' (by simp [hk']))
    exact ⟨h2.1.trans h1.1, h2.2.trans h1.2⟩

theorem feedChunks_topbot (cs : List Chunk) (t : Term) (h : ∀ c ∈ cs, chunkKeepsMargins c) :
    (feedChunks t cs).top = t.top ∧ (feedChunks t cs).bot = t.bot := by
  induction cs generalizing t with
  | nil => exact ⟨rfl, rfl⟩
  | cons c cs ih =>
    have h1 : (feedChunk t c).top = t.top ∧ (feedChunk t c).bot = t.bot := by
      have hc := h c (by simp)
      cases c with
      | tok k => exact feedP_topbot t k hc
      | raw bs => exact foldl_feedP_topbot _ t hc
    have h2 := ih (feedChunk t c) (fun c' hc' => h c' (by simp [hc']))
    exact ⟨h2.1.trans h1.1, h2.2.trans h1.2⟩

/-- Forgetting the position is always sound (the margins flag may only be raised). -/
theorem Inv.forget {w h : Nat} {t t' : Term} {s s' : Trk} (hI : Inv w h t s) (g : Good t t')
    (ht : s'.tracked = none) (hm : s'.margins = false → t'.top = 0 ∧ t'.bot = t'.h - 1) : Inv w h t' s' :=
  ⟨g.2.2.1.trans hI.tw, g.2.1.trans hI.th, hI.hw, g.1, by rw [g.2.2.2]; exact hI.cpr,
   (by intro x y hxy; rw [ht] at hxy; cases hxy), hm⟩

/-- margins part of the invariant carried over chunks that keep the margins -/
theorem Inv.mar_keep {w h : Nat} {t : Term} {s : Trk} (hI : Inv w h t s) (cs : List Chunk)
    (hk : ∀ c ∈ cs, chunkKeepsMargins c) {m : Bool} (hm : m = false → s.margins = false) :
    m = false → (feedChunks t cs).top = 0 ∧ (feedChunks t cs).bot = (feedChunks t cs).h - 1 := by
  intro h0
  have tb := feedChunks_topbot cs t hk
  have g := feedChunks_good cs t hI.wf
  have := hI.mar (hm h0)
  rw [tb.1, tb.2, g.2.1]; exact this

/-! ### vertical and horizontal relative moves -/

theorem p1_single (n : Nat) (hn : 1 ≤ n) : p1 [n] = n := by
  unfold p1
  cases n with
  | zero => omega
  | succ n => rfl

theorem vtoks_keep (d : Option Int) : ∀ c ∈ vtoks d, chunkKeepsMargins c := by
  intro c hc
  cases d with
  | none => simp [vtoks] at hc
  | some d =>
    simp only [vtoks] at hc
    split at hc
    · simp at hc; subst hc; rfl
    · split at hc
      · simp at hc; subst hc; rfl
      · simp at hc

theorem htoks_keep (d : Option Int) : ∀ c ∈ htoks d, chunkKeepsMargins c := by
  intro c hc
  cases d with
  | none => simp [htoks] at hc
  | some d =>
    simp only [htoks] at hc
    split at hc
    · simp at hc; subst hc; rfl
    · split at hc
      · simp at hc; subst hc; rfl
      · simp at hc

/-- vertical relative move, scroll margins at their defaults -/
theorem vtoks_effect (t : Term) (d : Option Int) (hcy : t.cy < t.h) (htop : t.top = 0) (hbot : t.bot = t.h - 1)
    (hcx : t.cx < t.w) :
    ((feedChunks t (vtoks d)).cy : Int) = max 0 (min ((t.cy : Int) + d.getD 0) ((t.h : Int) - 1)) ∧
    (feedChunks t (vtoks d)).cx = t.cx := by
  cases d with
  | none => simp [vtoks]; omega
  | some d =>
    simp only [vtoks, Option.getD_some]
    by_cases h1 : d > 0
    · rw [if_pos h1]
      have hp : p1 [d.toNat] = d.toNat := p1_single _ (by omega)
      simp [feedChunk, csi, Term.feedP, Term.feed, Term.csi, hp, hbot]
      omega
    · rw [if_neg h1]
      by_cases h2 : d < 0
      · rw [if_pos h2]
        have hp : p1 [(-d).toNat] = (-d).toNat := p1_single _ (by omega)
        simp [feedChunk, csi, Term.feedP, Term.feed, Term.csi, hp, htop]
        omega
      · rw [if_neg h2]
        simp
        omega

/-- horizontal relative move from a column on the screen -/
theorem htoks_effect (t : Term) (r : Option Int) (hcx : t.cx < t.w) :
    ((feedChunks t (htoks r)).cx : Int) = max 0 (min ((t.cx : Int) + r.getD 0) ((t.w : Int) - 1)) ∧
    (feedChunks t (htoks r)).cy = t.cy := by
  cases r with
  | none => simp [htoks]; omega
  | some r =>
    simp only [htoks, Option.getD_some]
    by_cases h1 : r > 0
    · rw [if_pos h1]
      have hp : p1 [r.toNat] = r.toNat := p1_single _ (by omega)
      simp [feedChunk, csi, Term.feedP, Term.feed, Term.csi, hp]
      split <;> omega
    · rw [if_neg h1]
      by_cases h2 : r < 0
      · rw [if_pos h2]
        have hp : p1 [(-r).toNat] = (-r).toNat := p1_single _ (by omega)
        simp [feedChunk, csi, Term.feedP, Term.feed, Term.csi, hp]
        split <;> omega
      · rw [if_neg h2]
        simp
        omega

/-! ### the accumulator view: a call that started at terminal `t0` -/

/-- accumulator invariant inside a call that started at terminal `t0` -/
def AInv (w h : Nat) (t0 : Term) (a : Acc) : Prop := Inv w h (feedChunks t0 a.out) a.s

structure EnvOk (e : Env) (w h : Nat) (t0 : Term) : Prop where
  ew : e.w = w
  eh : e.h = h
  eask : e.ask = askOf t0

theorem not_truthy (d : Option Int) (h : truthy d = false) : vtoks d = [] ∧ d.getD 0 = 0 := by
  cases d with
  | none => simp [vtoks]
  | some v =>
    simp only [truthy, bne_eq_false_iff_eq] at h
    subst h
    simp [vtoks]

theorem moveCursor_inv {e : Env} {w h : Nat} {t0 : Term} (he : EnvOk e w h t0) {a : Acc} (hI : AInv w h t0 a)
    (right down left up : Option Int) : AInv w h t0 (moveCursor e a right down left up) := by
  unfold moveCursor
  by_cases e1 : (up.isSome && down.isSome) = true
  · rw [if_pos e1]; exact hI
  rw [if_neg e1]
  extract_lets d r a1 a2
  by_cases e2 : (left.isSome && right.isSome) = true
  · rw [if_pos e2]; exact hI
  rw [if_neg e2]
  -- the terminal before, between and after
  have hout : a2.out = (a.out ++ vtoks d) ++ htoks r := rfl
  have hs : a2.s = a.s := rfl
  unfold AInv at hI ⊢
  generalize ht : feedChunks t0 a.out = t at hI
  have g1 := feedChunks_good (vtoks d) t hI.wf
  have g2 := feedChunks_good (htoks r) _ g1.1
  have g := g1.trans g2
  have tb1 := feedChunks_topbot (vtoks d) t (vtoks_keep d)
  have tb2 := feedChunks_topbot (htoks r) (feedChunks t (vtoks d)) (htoks_keep r)
  have hfin : ∀ a' : Acc, a'.out = a2.out → feedChunks t0 a'.out = feedChunks (feedChunks t (vtoks d)) (htoks r) := by
    intro a' h'; rw [h', hout, feedChunks_append, feedChunks_append, ht]
  have hmar : a.s.margins = false →
      (feedChunks (feedChunks t (vtoks d)) (htoks r)).top = 0 ∧
      (feedChunks (feedChunks t (vtoks d)) (htoks r)).bot = (feedChunks (feedChunks t (vtoks d)) (htoks r)).h - 1 := by
    intro hm
    have := hI.mar hm
    rw [tb2.1, tb2.2, tb1.1, tb1.2, g.2.1]; exact this
  cases htr : a2.s.tracked with
  | none =>
    simp only []
    rw [hfin a2 rfl]
    exact hI.forget g htr (by rw [hs]; exact hmar)
  | some p =>
    obtain ⟨x, y⟩ := p
    simp only []
    have hxy := hI.trk x y (by rw [← hs]; exact htr)
    by_cases e3 : (truthy d && a2.s.margins) = true
    · rw [if_pos e3]
      rw [hfin (a2.setTracked none) rfl]
      exact hI.forget g rfl (by show a2.s.margins = false → _; rw [hs]; exact hmar)
    · rw [if_neg e3]
      rw [hfin (setTrackedPos e a2 _ _) rfl]
      have hth := hI.th
      have htw := hI.tw
      have hcy := hI.wf.cy_lt
      -- vertical part
      have hv : ((feedChunks t (vtoks d)).cy : Int) = max 0 (min ((t.cy : Int) + d.getD 0) ((t.h : Int) - 1)) ∧
          (feedChunks t (vtoks d)).cx = t.cx := by
        by_cases hm : a.s.margins = false
        · have := hI.mar hm
          exact vtoks_effect t d hcy this.1 this.2 hxy.2.2
        · have : truthy d = false := by
            cases htd : truthy d with
            | false => rfl
            | true =>
              rw [hs] at e3
              simp [htd] at e3
              exact absurd e3 hm
          have nt := not_truthy d this
          rw [nt.1, nt.2]
          simp
          omega
      have hcx1 : (feedChunks t (vtoks d)).cx < (feedChunks t (vtoks d)).w := by
        rw [hv.2, g1.2.2.1]; exact hxy.2.2
      have hh := htoks_effect (feedChunks t (vtoks d)) r hcx1
      refine ⟨g.2.2.1.trans htw, g.2.1.trans hth, hI.hw, g.1, by rw [g.2.2.2]; exact hI.cpr, ?_, ?_⟩
      · intro x' y' hx'
        simp only [setTrackedPos, Acc.setTracked, Option.some.injEq, Prod.mk.injEq] at hx'
        have hw1 := hI.hw
        rw [he.ew] at hx'
        rw [he.eh] at hx'
        have e1 := hh.1
        have e2 := hh.2
        have e3 := hv.1
        have e4 := hv.2
        have gw : (feedChunks (feedChunks t (vtoks d)) (htoks r)).w = w := g.2.2.1.trans htw
        rw [g1.2.2.1, htw] at e1
        rw [hth] at e3
        refine ⟨?_, ?_, ?_⟩ <;> omega
      · show a2.s.margins = false → _
        rw [hs]; exact hmar

/-! ### absolute moves -/

theorem rowToks_keep (r : Option Nat) : ∀ c ∈ rowToks r, chunkKeepsMargins c := by
  intro c hc
  cases r with
  | none => simp [rowToks] at hc
  | some r => simp [rowToks] at hc; subst hc; rfl

theorem colToks_keep (r : Option Nat) : ∀ c ∈ colToks r, chunkKeepsMargins c := by
  intro c hc
  cases r with
  | none => simp [colToks] at hc
  | some r => simp [colToks] at hc; subst hc; rfl

theorem rowToks_effect (t : Term) (r : Option Nat) :
    (feedChunks t (rowToks r)).cy = (match r with | some r => min r (t.h - 1) | none => t.cy) ∧
    (feedChunks t (rowToks r)).cx = t.cx := by
  cases r with
  | none => simp [rowToks]
  | some r => simp [rowToks, feedChunk, csi, Term.feedP, p1]

theorem colToks_effect (t : Term) (c : Option Nat) :
    (feedChunks t (colToks c)).cx = (match c with | some c => min c (t.w - 1) | none => t.cx) ∧
    (feedChunks t (colToks c)).cy = t.cy := by
  cases c with
  | none => simp [colToks]
  | some c => simp [colToks, feedChunk, csi, Term.feedP, Term.feed, Term.csi, p1]

theorem moveCursorAbs_inv {e : Env} {w h : Nat} {t0 : Term} (he : EnvOk e w h t0) {a : Acc} (hI : AInv w h t0 a)
    (col row : Option Nat) (pos : Option (Nat × Nat)) : AInv w h t0 (moveCursorAbs e a col row pos) := by
  unfold moveCursorAbs
  by_cases e1 : (pos.isSome && (row.isSome || col.isSome)) = true
  · rw [if_pos e1]; exact hI
  rw [if_neg e1]
  extract_lets c r a1 a2
  have hout : a2.out = (a.out ++ rowToks r) ++ colToks c := rfl
  have hs : a2.s = a.s := rfl
  unfold AInv at hI ⊢
  generalize ht : feedChunks t0 a.out = t at hI
  have g1 := feedChunks_good (rowToks r) t hI.wf
  have g2 := feedChunks_good (colToks c) _ g1.1
  have g := g1.trans g2
  have tb1 := feedChunks_topbot (rowToks r) t (rowToks_keep r)
  have tb2 := feedChunks_topbot (colToks c) (feedChunks t (rowToks r)) (colToks_keep c)
  have hfin : ∀ a' : Acc, a'.out = a2.out → feedChunks t0 a'.out = feedChunks (feedChunks t (rowToks r)) (colToks c) := by
    intro a' h'; rw [h', hout, feedChunks_append, feedChunks_append, ht]
  have hmar : a.s.margins = false →
      (feedChunks (feedChunks t (rowToks r)) (colToks c)).top = 0 ∧
      (feedChunks (feedChunks t (rowToks r)) (colToks c)).bot = (feedChunks (feedChunks t (rowToks r)) (colToks c)).h - 1 := by
    intro hm
    have := hI.mar hm
    rw [tb2.1, tb2.2, tb1.1, tb1.2, g.2.1]; exact this
  have hth := hI.th
  have htw := hI.tw
  have hcy := hI.wf.cy_lt
  have hw1 := hI.hw
  have er := rowToks_effect t r
  have ec := colToks_effect (feedChunks t (rowToks r)) c
  rw [g1.2.2.1, htw] at ec
  rw [hth] at er
  have build : ∀ (x' y' : Int) (a' : Acc), a'.out = a2.out → a'.s = { a.s with tracked := some (x', y') } →
      x' = ((feedChunks (feedChunks t (rowToks r)) (colToks c)).cx : Int) →
      y' = ((feedChunks (feedChunks t (rowToks r)) (colToks c)).cy : Int) →
      (feedChunks (feedChunks t (rowToks r)) (colToks c)).cx < w →
      Inv w h (feedChunks t0 a'.out) a'.s := by
    intro x' y' a' ho hs' hx hy hlt
    rw [hfin a' ho, hs']
    refine ⟨g.2.2.1.trans htw, g.2.1.trans hth, hI.hw, g.1, by rw [g.2.2.2]; exact hI.cpr, ?_, hmar⟩
    intro x'' y'' hh
    simp only [Option.some.injEq, Prod.mk.injEq] at hh
    rw [g.2.2.1, htw]
    exact ⟨hh.1 ▸ hx, hh.2 ▸ hy, hlt⟩
  clear_value a2 a1 c r
  cases htr : a2.s.tracked with
  | none =>
    cases c with
    | none =>
      show Inv w h (feedChunks t0 a2.out) a2.s
      rw [hfin a2 rfl]
      exact hI.forget g htr (by rw [hs]; exact hmar)
    | some cc =>
      cases r with
      | none =>
        show Inv w h (feedChunks t0 a2.out) a2.s
        rw [hfin a2 rfl]
        exact hI.forget g htr (by rw [hs]; exact hmar)
      | some rr =>
        simp only [] at er ec
        refine build _ _ (setTrackedPos e a2 cc rr) rfl (by simp [setTrackedPos, Acc.setTracked, hs]; exact ⟨rfl, rfl⟩) ?_ ?_ ?_
        · rw [ec.1, he.ew]; omega
        · rw [ec.2, er.1, he.eh]; omega
        · rw [ec.1]; omega
  | some p =>
    obtain ⟨x, y⟩ := p
    have hxy := hI.trk x y (by rw [← hs]; exact htr)
    rw [htw] at hxy
    refine build _ _ (setTrackedPos e a2 _ _) rfl (by simp [setTrackedPos, Acc.setTracked, hs]; exact ⟨rfl, rfl⟩) ?_ ?_ ?_
    · rw [ec.1, he.ew]
      cases c with
      | none => simp only []; rw [er.2]; omega
      | some cc => simp only []; omega
    · rw [ec.2, er.1, he.eh]
      cases r with
      | none => simp only []; omega
      | some rr => simp only []; omega
    · rw [ec.1]
      cases c with
      | none => simp only []; rw [er.2]; omega
      | some cc => simp only []; omega

/-! ### queries -/

theorem Inv.of_core {w h : Nat} {t t' : Term} {s : Trk} (hI : Inv w h t s) (hc : t'.core = t.core) : Inv w h t' s := by
  have hc' := hc
  simp only [Term.core, Core.mk.injEq] at hc'
  obtain ⟨c1, c2, c3, c4, c5, c6, c7, c8⟩ := hc'
  exact ⟨c1.trans hI.tw, c2.trans hI.th, hI.hw, WF_of_core hc hI.wf, by rw [c8]; exact hI.cpr,
    by rw [c3, c4, c1]; exact hI.trk, by rw [c5, c6, c2]; exact hI.mar⟩

theorem query_core (t : Term) : (feedChunks t [queryTok]).core = t.core := by
  simp [queryTok, feedChunk, csi, Term.feedP, Term.feed, Term.csi]
  split <;> rfl

/-- what a call of `get_cursor_position` establishes -/
structure QueryRes (w h : Nat) (t0 : Term) (a : Acc) (res : Acc × (Int × Int)) : Prop where
  inv : AInv w h t0 res.1
  err : res.1.err = a.err
  out : res.1.out = a.out ++ [queryTok]
  core : (feedChunks t0 res.1.out).core = (feedChunks t0 a.out).core
  pos : res.2 = (((feedChunks t0 a.out).cx : Int), ((feedChunks t0 a.out).cy : Int))
  mar : res.1.s.margins = a.s.margins

theorem getCursorPosition_spec {e : Env} {w h : Nat} {t0 : Term} (he : EnvOk e w h t0) {a : Acc} (hI : AInv w h t0 a) :
    QueryRes w h t0 a (getCursorPosition e a) := by
  unfold getCursorPosition
  extract_lets a1 r a2
  have hc : (feedChunks t0 a1.out).core = (feedChunks t0 a.out).core := by
    show (feedChunks t0 (a.out ++ [queryTok])).core = _
    rw [feedChunks_append]; exact query_core _
  have hr : r = some (cprOf (feedChunks t0 (a.out ++ [queryTok]))) := by
    show e.ask a1.nq a1.out = _
    rw [he.eask]; rfl
  unfold AInv at hI
  have hI1 : Inv w h (feedChunks t0 a1.out) a.s := hI.of_core hc
  have hcc := hc
  simp only [Term.core, Core.mk.injEq] at hcc
  obtain ⟨c1, c2, c3, c4, c5, c6, c7, c8⟩ := hcc
  have hcpr : cprOf (feedChunks t0 (a.out ++ [queryTok])) = ((feedChunks t0 a.out).cx + 1, (feedChunks t0 a.out).cy + 1) := by
    show cprOf (feedChunks t0 a1.out) = _
    unfold cprOf
    rw [hI1.cpr, c3, c4]; rfl
  rw [hr, hcpr]
  simp only []
  refine ⟨?_, rfl, rfl, hc, ?_, rfl⟩
  · show Inv w h (feedChunks t0 a1.out) _
    refine ⟨hI1.tw, hI1.th, hI1.hw, hI1.wf, hI1.cpr, ?_, hI1.mar⟩
    intro x y hxy
    simp only [Acc.setTracked] at hxy
    rw [he.ew] at hxy
    have tw := hI1.tw
    rw [c1] at tw
    split at hxy
    · simp only [Option.some.injEq, Prod.mk.injEq] at hxy
      rename_i hlt
      rw [c3, c4, c1]
      refine ⟨?_, ?_, ?_⟩ <;> omega
    · cases hxy
  · simp only [Prod.mk.injEq]
    constructor <;> omega

theorem getCursorPositionTracked_spec {e : Env} {w h : Nat} {t0 : Term} (he : EnvOk e w h t0) {a : Acc} (hI : AInv w h t0 a) :
    let res := getCursorPositionTracked e a
    AInv w h t0 res.1 ∧ res.1.err = a.err ∧ (feedChunks t0 res.1.out).core = (feedChunks t0 a.out).core ∧
    res.2 = (((feedChunks t0 a.out).cx : Int), ((feedChunks t0 a.out).cy : Int)) ∧ res.1.s.margins = a.s.margins := by
  unfold getCursorPositionTracked
  cases htr : a.s.tracked with
  | none =>
    have q := getCursorPosition_spec he hI
    exact ⟨q.inv, q.err, q.core, q.pos, q.mar⟩
  | some p =>
    obtain ⟨x, y⟩ := p
    have := hI.trk x y htr
    refine ⟨hI, rfl, rfl, ?_, rfl⟩
    simp only [Prod.mk.injEq]
    exact ⟨this.1, this.2.1⟩

end Tup.Trk
