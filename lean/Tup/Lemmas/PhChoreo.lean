import Tup.Lemmas.PhRow
/-!
  Multi-line choreography, absolute-position style: `CSI row ; col H` before every line.
-/
namespace Tup.Ph
open Tup Tup.Spec

/-- the cells line `row` of a placeholder writes -/
def rowCells (p : Placeholder) (m : Mode) (fmt : FmtT) (row : Nat) : List Cell :=
  if row < 297 then lineScreenCells p m fmt row else blankScreenCells p fmt row

theorem rowCells_length (p : Placeholder) (m : Mode) (fmt : FmtT) (row : Nat) (hlt : p.startCol < p.endCol) :
    (rowCells p m fmt row).length = p.endCol - p.startCol := by
  unfold rowCells
  split
  · exact lineScreenCells_length p m fmt row hlt
  · exact blankScreenCells_length p fmt row

theorem feed_anyline (t : Term) (p : Placeholder) (m : Mode) (fmt : FmtT) (row : Nat)
    (hsc : p.startCol < 297) (hlt : p.startCol < p.endCol) (hfmt : BgOnly fmt)
    (hfit : t.cx + (p.endCol - p.startCol) ≤ t.w) :
    t.feedAll (lineToks p m fmt row) =
      { writeRow t t.cy t.cx (rowCells p m fmt row) with cx := t.cx + (p.endCol - p.startCol), sgr := {} } := by
  unfold rowCells
  split
  · rename_i h; exact feed_line t p m fmt row h hsc hlt hfmt hfit
  · rename_i h; exact feed_blank_line t p m fmt row (by omega) hfmt hfit

theorem feed_cup (t : Term) (r c : Nat) (hr : r < t.h) (hc : c < t.w) :
    t.feed (.csi [r + 1, c + 1] 72) = { t with cy := r, cx := c } := by
  have h1 : min r (t.h - 1) = r := by omega
  have h2 : min c (t.w - 1) = c := by omega
  simp [Term.feed, Term.csi, p1, p2, h1, h2]

/-- state after the absolute-style output of rows `row, row+1, …` (n of them) placed at screen rows `y, y+1, …` -/
def absResult (p : Placeholder) (m : Mode) (fmt : FmtT) (px : Nat) : Nat → Nat → Nat → Term → Term
  | 0, _, _, t => t
  | n + 1, row, y, t =>
    absResult p m fmt px n (row + 1) (y + 1)
      { writeRow t y px (rowCells p m fmt row) with cx := px + (p.endCol - p.startCol), cy := y, sgr := {} }

theorem writeRow_with3 (cs : List Cell) : ∀ (t : Term) (y x a b : Nat) (c : Sgr),
    writeRow { t with cx := a, cy := b, sgr := c } y x cs = { writeRow t y x cs with cx := a, cy := b, sgr := c } := by
  induction cs with
  | nil => intro t y x a b c; rfl
  | cons d r ih =>
    intro t y x a b c
    simp only [writeRow]
    exact ih (setCell t y x d) y (x + 1) a b c

@[simp] theorem writeRow_h (cs : List Cell) : ∀ (t : Term) (y x : Nat), (writeRow t y x cs).h = t.h := by
  induction cs with
  | nil => intro t y x; rfl
  | cons c r ih => intro t y x; simp only [writeRow, ih]; rfl

theorem feed_abs (p : Placeholder) (m : Mode) (fmt : FmtT) (px py : Nat)
    (hsc : p.startCol < 297) (hlt : p.startCol < p.endCol) (hfmt : BgOnly fmt) :
    ∀ (n k row : Nat) (t : Term), px + (p.endCol - p.startCol) ≤ t.w → py + k + n ≤ t.h →
    t.feedAll ((enumFrom k ((List.range' row n).map (lineToks p m fmt))).flatMap
        fun x => [Tok.csi [py + x.1 + 1, px + 1] 72] ++ x.2) =
      absResult p m fmt px n row (py + k) t := by
  intro n
  induction n with
  | zero => intro k row t _ _; simp [enumFrom, absResult, Term.feedAll]
  | succ n ih =>
    intro k row t hw hh
    simp only [List.range'_succ, List.map_cons, enumFrom, List.flatMap_cons, absResult]
    rw [feedAll_append, feedAll_append, feedAll_singleton, feed_cup t (py + k) px (by omega) (by omega)]
    rw [feed_anyline _ p m fmt row hsc hlt hfmt (by simpa using hw)]
    have := ih (k + 1) (row + 1)
      { writeRow t (py + k) px (rowCells p m fmt row) with cx := px + (p.endCol - p.startCol), cy := py + k, sgr := {} }
      (by simpa using hw) (by simp; omega)
    have hk : py + (k + 1) = py + k + 1 := by omega
    rw [hk] at this
    rw [← this]
    congr 1
    exact writeRow_with3 (rowCells p m fmt row) t (py + k) px px (py + k) t.sgr ▸ rfl

theorem absResult_w (p : Placeholder) (m : Mode) (fmt : FmtT) (px : Nat) : ∀ (n row y : Nat) (t : Term),
    (absResult p m fmt px n row y t).w = t.w := by
  intro n
  induction n with
  | zero => intro _ _ _; rfl
  | succ n ih => intro row y t; simp [absResult, ih]

theorem absResult_cells (p : Placeholder) (m : Mode) (fmt : FmtT) (px : Nat) (hlt : p.startCol < p.endCol) :
    ∀ (n row y : Nat) (t : Term) (y' x' : Nat),
    (absResult p m fmt px n row y t).cells y' x' =
      if y ≤ y' ∧ y' < y + n ∧ px ≤ x' ∧ x' < px + (p.endCol - p.startCol)
      then (rowCells p m fmt (row + (y' - y)))[x' - px]?.getD Cell.blank else t.cells y' x' := by
  intro n
  induction n with
  | zero =>
    intro row y t y' x'
    have : ¬ (y ≤ y' ∧ y' < y + 0 ∧ px ≤ x' ∧ x' < px + (p.endCol - p.startCol)) := by omega
    simp only [absResult, this, if_false]
  | succ n ih =>
    intro row y t y' x'
    simp only [absResult, ih]
    by_cases h1 : y + 1 ≤ y' ∧ y' < y + 1 + n ∧ px ≤ x' ∧ x' < px + (p.endCol - p.startCol)
    · have h2 : y ≤ y' ∧ y' < y + (n + 1) ∧ px ≤ x' ∧ x' < px + (p.endCol - p.startCol) := by omega
      have h3 : row + 1 + (y' - (y + 1)) = row + (y' - y) := by omega
      simp [h1, h2, h3]
    · simp only [h1, if_false]
      show (writeRow t y px (rowCells p m fmt row)).cells y' x' = _
      rw [writeRow_cells, rowCells_length p m fmt row hlt]
      by_cases h4 : y' = y ∧ px ≤ x' ∧ x' < px + (p.endCol - p.startCol)
      · have h5 : y ≤ y' ∧ y' < y + (n + 1) ∧ px ≤ x' ∧ x' < px + (p.endCol - p.startCol) := by omega
        have h6 : y' - y = 0 := by omega
        simp [h4]
      · have h5 : ¬ (y ≤ y' ∧ y' < y + (n + 1) ∧ px ≤ x' ∧ x' < px + (p.endCol - p.startCol)) := by omega
        simp [h4, h5]

theorem absResult_cursor (p : Placeholder) (m : Mode) (fmt : FmtT) (px : Nat) : ∀ (n row y : Nat) (t : Term),
    (absResult p m fmt px (n + 1) row y t).cx = px + (p.endCol - p.startCol) ∧
    (absResult p m fmt px (n + 1) row y t).cy = y + n ∧
    (absResult p m fmt px (n + 1) row y t).sgr = {} := by
  intro n
  induction n with
  | zero => intro row y t; simp [absResult]
  | succ n ih =>
    intro row y t
    have := ih (row + 1) (y + 1)
      { writeRow t y px (rowCells p m fmt row) with cx := px + (p.endCol - p.startCol), cy := y, sgr := {} }
    rw [absResult]
    refine ⟨this.1, ?_, this.2.2⟩
    rw [this.2.1]; omega

end Tup.Ph
