import Tup.Lemmas.TermCursor
/-!
  Effects of the control functions the tracker emits on the cursor-related part of the
  specification terminal (`Term.feedP`), and the frame facts (scroll margins only change on
  DECSTBM / RIS).  No Mathlib.
-/
namespace Tup.Spec
open Tup

/-- tokens that may change the scroll margins -/
def setsMargins : Tok → Bool
  | .csi _ 114 => true
  | .esc 99 => true
  | _ => false

theorem csi_topbot (t : Term) (ps : List Nat) (f : Nat) (hf : f ≠ 114) :
    (t.csi ps f).top = t.top ∧ (t.csi ps f).bot = t.bot := by
  have keep : ∀ t' : Term, t'.core = t.core → t'.top = t.top ∧ t'.bot = t.bot := fun t' h => by
    simp only [Term.core, Core.mk.injEq] at h; exact ⟨h.2.2.2.2.1, h.2.2.2.2.2.1⟩
  delta Term.csi
  extract_lets n limU limD tp0 bt0 tp bt k1 cxx k2 col
  by_cases h : f = 109
  · rw [if_pos h]; exact ⟨rfl, rfl⟩
  rw [if_neg h]; clear h
  by_cases h : f = 65
  · rw [if_pos h]; exact ⟨rfl, rfl⟩
  rw [if_neg h]; clear h
  by_cases h : f = 66
  · rw [if_pos h]; exact ⟨rfl, rfl⟩
  rw [if_neg h]; clear h
  by_cases h : f = 67
  · rw [if_pos h]; exact ⟨rfl, rfl⟩
  rw [if_neg h]; clear h
  by_cases h : f = 68
  · rw [if_pos h]; exact ⟨rfl, rfl⟩
  rw [if_neg h]; clear h
  by_cases h : f = 71
  · rw [if_pos h]; exact ⟨rfl, rfl⟩
  rw [if_neg h]; clear h
  by_cases h : f = 100
  · rw [if_pos h]; exact ⟨rfl, rfl⟩
  rw [if_neg h]; clear h
  by_cases h : f = 72 ∨ f = 102
  · rw [if_pos h]; exact ⟨rfl, rfl⟩
  rw [if_neg h]; clear h
  by_cases h : f = 115
  · rw [if_pos h]; exact ⟨rfl, rfl⟩
  rw [if_neg h]; clear h
  by_cases h : f = 117
  · rw [if_pos h]
    cases t.saved with
    | none => exact ⟨rfl, rfl⟩
    | some v => exact ⟨rfl, rfl⟩
  rw [if_neg h]; clear h
  by_cases h : f = 83
  · rw [if_pos h]; exact keep _ (iter_scrollUp1_core _ _)
  rw [if_neg h]; clear h
  by_cases h : f = 84
  · rw [if_pos h]; exact keep _ (iter_scrollDown1_core _ _)
  rw [if_neg h]; clear h
  rw [if_neg hf]
  by_cases h : f = 74
  · rw [if_pos h]
    by_cases a0 : k1 = 0
    · rw [if_pos a0]; exact ⟨rfl, rfl⟩
    rw [if_neg a0]
    by_cases a1 : k1 = 1
    · rw [if_pos a1]; exact ⟨rfl, rfl⟩
    rw [if_neg a1]
    by_cases a2 : k1 = 2
    · rw [if_pos a2]; exact ⟨rfl, rfl⟩
    rw [if_neg a2]; exact ⟨rfl, rfl⟩
  rw [if_neg h]; clear h
  by_cases h : f = 75
  · rw [if_pos h]
    by_cases a0 : k2 = 0
    · rw [if_pos a0]; exact ⟨rfl, rfl⟩
    rw [if_neg a0]
    by_cases a1 : k2 = 1
    · rw [if_pos a1]; exact ⟨rfl, rfl⟩
    rw [if_neg a1]
    by_cases a2 : k2 = 2
    · rw [if_pos a2]; exact ⟨rfl, rfl⟩
    rw [if_neg a2]; exact ⟨rfl, rfl⟩
  rw [if_neg h]; clear h
  by_cases h : f = 110
  · rw [if_pos h]
    by_cases a0 : ps = [6]
    · rw [if_pos a0]; exact ⟨rfl, rfl⟩
    rw [if_neg a0]; exact ⟨rfl, rfl⟩
  rw [if_neg h]; exact ⟨rfl, rfl⟩

theorem index_topbot (t : Term) : t.index.top = t.top ∧ t.index.bot = t.bot := by
  unfold Term.index
  by_cases h : t.cy = t.bot
  · rw [if_pos h]; exact ⟨rfl, rfl⟩
  rw [if_neg h]
  by_cases h2 : t.cy + 1 < t.h
  · rw [if_pos h2]; exact ⟨rfl, rfl⟩
  rw [if_neg h2]; exact ⟨rfl, rfl⟩

theorem putChar_topbot (t : Term) (cp : Nat) : (t.putChar cp).top = t.top ∧ (t.putChar cp).bot = t.bot := by
  unfold Term.putChar
  by_cases hc : isCombining cp = true
  · rw [if_pos hc]
    by_cases h0 : t.cx = 0
    · rw [if_pos h0]; exact ⟨rfl, rfl⟩
    · rw [if_neg h0]; exact ⟨rfl, rfl⟩
  rw [if_neg hc]
  extract_lets ti t1 c
  have g1 : t1.top = t.top ∧ t1.bot = t.bot := by
    simp only [t1]
    by_cases hw : t.cx ≥ t.w
    · rw [if_pos hw]; exact index_topbot t
    · rw [if_neg hw]; exact ⟨rfl, rfl⟩
  exact g1

theorem feed_topbot (t : Term) (k : Tok) (hk : setsMargins k = false) :
    (t.feed k).top = t.top ∧ (t.feed k).bot = t.bot := by
  unfold Term.feed
  split
  · exact putChar_topbot t _
  · exact index_topbot t
  · exact index_topbot t
  · exact index_topbot t
  · exact ⟨rfl, rfl⟩
  · exact ⟨rfl, rfl⟩
  · exact ⟨rfl, rfl⟩
  · rename_i ps f
    apply csi_topbot
    intro h; subst h; simp [setsMargins] at hk
  · exact index_topbot t
  · exact index_topbot t
  · by_cases h : t.cy = t.top
    · rw [if_pos h]; exact ⟨rfl, rfl⟩
    rw [if_neg h]
    by_cases h2 : t.cy > 0
    · rw [if_pos h2]; exact ⟨rfl, rfl⟩
    · rw [if_neg h2]; exact ⟨rfl, rfl⟩
  · simp [setsMargins] at hk
  · exact ⟨rfl, rfl⟩
  · cases t.saved with
    | none => exact ⟨rfl, rfl⟩
    | some v => exact ⟨rfl, rfl⟩
  all_goals exact ⟨rfl, rfl⟩

theorem feedP_topbot (t : Term) (k : Tok) (hk : setsMargins k = false) :
    (t.feedP k).top = t.top ∧ (t.feedP k).bot = t.bot := by
  unfold Term.feedP
  split
  · exact ⟨rfl, rfl⟩
  · cases t.saved with
    | none => exact ⟨rfl, rfl⟩
    | some v => exact ⟨rfl, rfl⟩
  · cases t.saved with
    | none => exact ⟨rfl, rfl⟩
    | some v => exact ⟨rfl, rfl⟩
  · exact ⟨rfl, rfl⟩
  · exact feed_topbot t k hk

end Tup.Spec
