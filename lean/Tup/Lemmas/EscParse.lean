import Tup.Lemmas.EscDec
/-!
  (B) `parse (serialize ts) = ts` for the class of tokens the library emits on the display stream:
  printable / combining characters (UTF-8 round trip), LF/CR, `ESC D`-like two-byte sequences, and CSI
  sequences with decimal parameters.
-/
namespace Tup.EscL
open Tup

theorem toNat_ofNat_lt (n : Nat) (h : n < 256) : (UInt8.ofNat n).toNat = n := by
  simp; omega

theorem ne_esc_of_toNat (b : UInt8) (h : b.toNat ≠ 27) : ¬ b = ESC := by
  intro hb; apply h; rw [hb]; rfl

/-! ### UTF-8 round trip -/

theorem parse_char1 (cp : Nat) (h1 : 0x20 ≤ cp) (h2 : cp < 0x80) (fuel : Nat) (rest : Bytes) :
    parseAux (fuel + 1) (utf8Enc cp ++ rest) = .char cp :: parseAux fuel rest := by
  have e : utf8Enc cp = [UInt8.ofNat cp] := by simp [utf8Enc, h2]
  rw [e]
  have t0 : (UInt8.ofNat cp).toNat = cp := toNat_ofNat_lt _ (by omega)
  simp only [List.cons_append, List.nil_append, parseAux]
  rw [if_neg (ne_esc_of_toNat _ (by rw [t0]; omega))]
  simp only [t0]
  have a1 : ¬ (cp < 0x20) := by omega
  simp only [a1, h2, if_true, if_false]

theorem parse_char2 (cp : Nat) (h1 : 0x80 ≤ cp) (h2 : cp < 0x800) (fuel : Nat) (rest : Bytes) :
    parseAux (fuel + 1) (utf8Enc cp ++ rest) = .char cp :: parseAux fuel rest := by
  have e : utf8Enc cp = [UInt8.ofNat (0xC0 + cp / 64), UInt8.ofNat (0x80 + cp % 64)] := by
    unfold utf8Enc
    have : ¬ cp < 0x80 := by omega
    simp [this, h2]
  rw [e]
  have t0 : (UInt8.ofNat (0xC0 + cp / 64)).toNat = 0xC0 + cp / 64 := toNat_ofNat_lt _ (by omega)
  have t1 : (UInt8.ofNat (0x80 + cp % 64)).toNat = 0x80 + cp % 64 := toNat_ofNat_lt _ (by omega)
  simp only [List.cons_append, List.nil_append, parseAux]
  rw [if_neg (ne_esc_of_toNat _ (by rw [t0]; omega))]
  simp only [t0, t1, contBits]
  have a1 : ¬ (0xC0 + cp / 64 < 0x20) := by omega
  have a2 : ¬ (0xC0 + cp / 64 < 0x80) := by omega
  have a3 : 0xC0 ≤ 0xC0 + cp / 64 ∧ 0xC0 + cp / 64 < 0xE0 := by omega
  have a4 : 0x80 ≤ 0x80 + cp % 64 ∧ 0x80 + cp % 64 < 0xC0 := by omega
  simp only [a1, a2, a3, a4, if_true, if_false, and_self]
  have : (0xC0 + cp / 64 - 0xC0) * 64 + (0x80 + cp % 64 - 0x80) = cp := by omega
  simp only [this]

theorem parse_char3 (cp : Nat) (h1 : 0x800 ≤ cp) (h2 : cp < 0x10000) (fuel : Nat) (rest : Bytes) :
    parseAux (fuel + 1) (utf8Enc cp ++ rest) = .char cp :: parseAux fuel rest := by
  have e : utf8Enc cp = [UInt8.ofNat (0xE0 + cp / 4096), UInt8.ofNat (0x80 + cp / 64 % 64), UInt8.ofNat (0x80 + cp % 64)] := by
    unfold utf8Enc
    have : ¬ cp < 0x80 := by omega
    have : ¬ cp < 0x800 := by omega
    simp [*]
  rw [e]
  have t0 : (UInt8.ofNat (0xE0 + cp / 4096)).toNat = 0xE0 + cp / 4096 := toNat_ofNat_lt _ (by omega)
  have t1 : (UInt8.ofNat (0x80 + cp / 64 % 64)).toNat = 0x80 + cp / 64 % 64 := toNat_ofNat_lt _ (by omega)
  have t2 : (UInt8.ofNat (0x80 + cp % 64)).toNat = 0x80 + cp % 64 := toNat_ofNat_lt _ (by omega)
  simp only [List.cons_append, List.nil_append, parseAux]
  rw [if_neg (ne_esc_of_toNat _ (by rw [t0]; omega))]
  simp only [t0, t1, t2, contBits]
  have a1 : ¬ (0xE0 + cp / 4096 < 0x20) := by omega
  have a2 : ¬ (0xE0 + cp / 4096 < 0x80) := by omega
  have a3 : ¬ (0xC0 ≤ 0xE0 + cp / 4096 ∧ 0xE0 + cp / 4096 < 0xE0) := by omega
  have a4 : 0xE0 ≤ 0xE0 + cp / 4096 ∧ 0xE0 + cp / 4096 < 0xF0 := by omega
  have a5 : 0x80 ≤ 0x80 + cp / 64 % 64 ∧ 0x80 + cp / 64 % 64 < 0xC0 := by omega
  have a6 : 0x80 ≤ 0x80 + cp % 64 ∧ 0x80 + cp % 64 < 0xC0 := by omega
  simp only [a1, a2, a3, a4, a5, a6, if_true, if_false, and_self]
  have : (0xE0 + cp / 4096 - 0xE0) * 4096 + (0x80 + cp / 64 % 64 - 0x80) * 64 + (0x80 + cp % 64 - 0x80) = cp := by omega
  simp only [this]

theorem parse_char4 (cp : Nat) (h1 : 0x10000 ≤ cp) (h2 : cp < 0x110000) (fuel : Nat) (rest : Bytes) :
    parseAux (fuel + 1) (utf8Enc cp ++ rest) = .char cp :: parseAux fuel rest := by
  have e : utf8Enc cp = [UInt8.ofNat (0xF0 + cp / 262144), UInt8.ofNat (0x80 + cp / 4096 % 64),
      UInt8.ofNat (0x80 + cp / 64 % 64), UInt8.ofNat (0x80 + cp % 64)] := by
    unfold utf8Enc
    have : ¬ cp < 0x80 := by omega
    have : ¬ cp < 0x800 := by omega
    have : ¬ cp < 0x10000 := by omega
    simp [*]
  rw [e]
  have t0 : (UInt8.ofNat (0xF0 + cp / 262144)).toNat = 0xF0 + cp / 262144 := toNat_ofNat_lt _ (by omega)
  have t1 : (UInt8.ofNat (0x80 + cp / 4096 % 64)).toNat = 0x80 + cp / 4096 % 64 := toNat_ofNat_lt _ (by omega)
  have t2 : (UInt8.ofNat (0x80 + cp / 64 % 64)).toNat = 0x80 + cp / 64 % 64 := toNat_ofNat_lt _ (by omega)
  have t3 : (UInt8.ofNat (0x80 + cp % 64)).toNat = 0x80 + cp % 64 := toNat_ofNat_lt _ (by omega)
  simp only [List.cons_append, List.nil_append, parseAux]
  rw [if_neg (ne_esc_of_toNat _ (by rw [t0]; omega))]
  simp only [t0, t1, t2, t3, contBits]
  have a1 : ¬ (0xF0 + cp / 262144 < 0x20) := by omega
  have a2 : ¬ (0xF0 + cp / 262144 < 0x80) := by omega
  have a3 : ¬ (0xC0 ≤ 0xF0 + cp / 262144 ∧ 0xF0 + cp / 262144 < 0xE0) := by omega
  have a4 : ¬ (0xE0 ≤ 0xF0 + cp / 262144 ∧ 0xF0 + cp / 262144 < 0xF0) := by omega
  have a5 : 0xF0 ≤ 0xF0 + cp / 262144 ∧ 0xF0 + cp / 262144 < 0xF8 := by omega
  have a6 : 0x80 ≤ 0x80 + cp / 4096 % 64 ∧ 0x80 + cp / 4096 % 64 < 0xC0 := by omega
  have a7 : 0x80 ≤ 0x80 + cp / 64 % 64 ∧ 0x80 + cp / 64 % 64 < 0xC0 := by omega
  have a8 : 0x80 ≤ 0x80 + cp % 64 ∧ 0x80 + cp % 64 < 0xC0 := by omega
  simp only [a1, a2, a3, a4, a5, a6, a7, a8, if_true, if_false, and_self]
  have : (0xF0 + cp / 262144 - 0xF0) * 262144 + (0x80 + cp / 4096 % 64 - 0x80) * 4096 + (0x80 + cp / 64 % 64 - 0x80) * 64 +
      (0x80 + cp % 64 - 0x80) = cp := by omega
  simp only [this]

/-- UTF-8 round trip for every code point a terminal prints (≥ 0x20, < 0x110000) -/
theorem parse_char (cp : Nat) (h1 : 0x20 ≤ cp) (h2 : cp < 0x110000) (fuel : Nat) (rest : Bytes) :
    parseAux (fuel + 1) (utf8Enc cp ++ rest) = .char cp :: parseAux fuel rest := by
  by_cases a : cp < 0x80
  · exact parse_char1 cp h1 a fuel rest
  · by_cases b : cp < 0x800
    · exact parse_char2 cp (by omega) b fuel rest
    · by_cases c : cp < 0x10000
      · exact parse_char3 cp (by omega) c fuel rest
      · exact parse_char4 cp (by omega) h2 fuel rest

theorem utf8Enc_length_pos (cp : Nat) : 0 < (utf8Enc cp).length := by
  unfold utf8Enc; split <;> (try split) <;> (try split) <;> simp

/-! ### C0 and two-byte escapes -/

theorem parse_lf (fuel : Nat) (rest : Bytes) : parseAux (fuel + 1) (Tok.serialize (.c0 10) ++ rest) = .c0 10 :: parseAux fuel rest := by
  simp [Tok.serialize, parseAux, ESC]

theorem parse_cr (fuel : Nat) (rest : Bytes) : parseAux (fuel + 1) (Tok.serialize (.c0 13) ++ rest) = .c0 13 :: parseAux fuel rest := by
  simp [Tok.serialize, parseAux, ESC]

theorem parse_ind (fuel : Nat) (rest : Bytes) : parseAux (fuel + 1) (Tok.serialize (.esc 68) ++ rest) = .esc 68 :: parseAux fuel rest := by
  simp [Tok.serialize, parseAux, ESC]

/-! ### CSI with decimal parameters -/

def isParamByte (x : UInt8) : Bool := 0x30 ≤ x.toNat && x.toNat ≤ 0x3F
def isInterByte (x : UInt8) : Bool := 0x20 ≤ x.toNat && x.toNat ≤ 0x2F

theorem takeWhileB_append (p : UInt8 → Bool) (a : Bytes) (b : UInt8) (rest : Bytes) (ha : ∀ x ∈ a, p x = true) (hb : p b = false) :
    takeWhileB p (a ++ b :: rest) = (a, b :: rest) := by
  induction a with
  | nil => simp [takeWhileB, hb]
  | cons x r ih =>
    have hx := ha x (by simp)
    have := ih (fun y hy => ha y (by simp [hy]))
    simp [takeWhileB, hx, this]

theorem takeWhileB_stop (p : UInt8 → Bool) (b : UInt8) (rest : Bytes) (hb : p b = false) :
    takeWhileB p (b :: rest) = ([], b :: rest) := by
  simp [takeWhileB, hb]

theorem splitOn_no_sep (a : Bytes) (h : ∀ x ∈ a, x ≠ 59) : splitOn 59 a = [a] := by
  induction a with
  | nil => rfl
  | cons x r ih =>
    have hx := h x (by simp)
    have := ih (fun y hy => h y (by simp [hy]))
    simp [splitOn, hx, this]

theorem splitOn_sep (a rest : Bytes) (h : ∀ x ∈ a, x ≠ 59) : splitOn 59 (a ++ 59 :: rest) = a :: splitOn 59 rest := by
  induction a with
  | nil => simp [splitOn]
  | cons x r ih =>
    have hx := h x (by simp)
    have := ih (fun y hy => h y (by simp [hy]))
    simp [splitOn, hx, this]

theorem natToDec_no_sep (n : Nat) : ∀ x ∈ natToDec n, x ≠ 59 := by
  intro x hx h
  have := natToDec_digits n x hx
  rw [h] at this
  simp at this

theorem splitOn_joinParams (p : Nat) (ps : List Nat) : splitOn 59 (joinParams (p :: ps)) = (p :: ps).map natToDec := by
  induction ps generalizing p with
  | nil => simp [joinParams, splitOn_no_sep _ (natToDec_no_sep p)]
  | cons q r ih =>
    simp only [joinParams, List.append_assoc, List.singleton_append]
    rw [splitOn_sep _ _ (natToDec_no_sep p), ih q]
    simp

theorem mapM_dec (ps : List Nat) :
    (ps.map natToDec).mapM (fun p => if p.isEmpty then some 0 else decToNat? p) = some ps := by
  induction ps with
  | nil => rfl
  | cons p r ih =>
    have hne : (natToDec p).isEmpty = false := by
      cases h : natToDec p with
      | nil => exact absurd h (natToDec_ne_nil p)
      | cons _ _ => rfl
    simp only [List.map_cons, List.mapM_cons, hne, decToNat_natToDec, ih]
    rfl

theorem parseParams_joinParams (ps : List Nat) : parseParams (joinParams ps) = some ps := by
  cases ps with
  | nil => rfl
  | cons p r =>
    unfold parseParams
    have hne : (joinParams (p :: r)).isEmpty = false := by
      cases r with
      | nil =>
        simp only [joinParams]
        cases h : natToDec p with
        | nil => exact absurd h (natToDec_ne_nil p)
        | cons _ _ => rfl
      | cons q r' =>
        simp only [joinParams]
        cases h : natToDec p with
        | nil => exact absurd h (natToDec_ne_nil p)
        | cons _ _ => rfl
    rw [hne, splitOn_joinParams]
    exact mapM_dec (p :: r)

theorem joinParams_paramBytes (ps : List Nat) : ∀ x ∈ joinParams ps, isParamByte x = true := by
  induction ps with
  | nil => intro x hx; simp [joinParams] at hx
  | cons p r ih =>
    cases r with
    | nil =>
      intro x hx
      simp only [joinParams] at hx
      have := natToDec_digits p x hx
      simp [isParamByte]; omega
    | cons q r' =>
      intro x hx
      simp only [joinParams, List.append_assoc, List.singleton_append, List.mem_append, List.mem_cons] at hx
      rcases hx with hx | rfl | hx
      · have := natToDec_digits p x hx
        simp [isParamByte]; omega
      · decide
      · exact ih x hx

/-- a CSI sequence with decimal parameters and a final byte in `@ … ~` parses back to itself -/
theorem parse_csi (ps : List Nat) (f : Nat) (h1 : 0x40 ≤ f) (h2 : f ≤ 0x7E) (fuel : Nat) (rest : Bytes) :
    parseAux (fuel + 1) (Tok.serialize (.csi ps f) ++ rest) = .csi ps f :: parseAux fuel rest := by
  have tf : (UInt8.ofNat f).toNat = f := toNat_ofNat_lt _ (by omega)
  have e : Tok.serialize (.csi ps f) ++ rest = ESC :: 91 :: (joinParams ps ++ UInt8.ofNat f :: rest) := by
    simp [Tok.serialize]
  rw [e]
  have hp1 : isParamByte (UInt8.ofNat f) = false := by simp [isParamByte, tf]; omega
  have hp2 : isInterByte (UInt8.ofNat f) = false := by simp [isInterByte, tf]; omega
  have k1 := takeWhileB_append isParamByte (joinParams ps) (UInt8.ofNat f) rest (joinParams_paramBytes ps) hp1
  have k2 := takeWhileB_stop isInterByte (UInt8.ofNat f) rest hp2
  unfold isParamByte at k1
  unfold isInterByte at k2
  simp only [parseAux, if_true, k1, k2, tf, parseParams_joinParams]
  simp [h1, h2]

/-! ### the emitted token class -/

/-- tokens the library writes to the display stream for placeholders (and cursor movement) -/
def Emitted : Tok → Prop
  | .char cp => 0x20 ≤ cp ∧ cp < 0x110000
  | .c0 b => b = 10 ∨ b = 13
  | .csi _ f => 0x40 ≤ f ∧ f ≤ 0x7E
  | .esc f => f = 68
  | _ => False

theorem serialize_length_pos (t : Tok) (h : Emitted t) : 0 < (Tok.serialize t).length := by
  cases t with
  | char cp => exact utf8Enc_length_pos cp
  | c0 b => simp [Tok.serialize]
  | csi ps f => simp [Tok.serialize]
  | esc f => simp [Tok.serialize]
  | apc b => exact absurd h (by simp [Emitted])
  | dcs b => exact absurd h (by simp [Emitted])
  | bad b => exact absurd h (by simp [Emitted])

theorem parse_tok (t : Tok) (h : Emitted t) (fuel : Nat) (rest : Bytes) :
    parseAux (fuel + 1) (Tok.serialize t ++ rest) = t :: parseAux fuel rest := by
  cases t with
  | char cp => exact parse_char cp h.1 h.2 fuel rest
  | c0 b =>
    rcases h with rfl | rfl
    · exact parse_lf fuel rest
    · exact parse_cr fuel rest
  | csi ps f => exact parse_csi ps f h.1 h.2 fuel rest
  | esc f =>
    have : f = 68 := h
    subst this
    exact parse_ind fuel rest
  | apc b => exact absurd h (by simp [Emitted])
  | dcs b => exact absurd h (by simp [Emitted])
  | bad b => exact absurd h (by simp [Emitted])

theorem parseAux_serialize (ts : List Tok) : ∀ (fuel : Nat), (∀ t ∈ ts, Emitted t) → (serialize ts).length ≤ fuel →
    parseAux fuel (serialize ts) = ts := by
  induction ts with
  | nil =>
    intro fuel _ _
    cases fuel <;> simp [serialize, parseAux]
  | cons t r ih =>
    intro fuel h hl
    have ht := h t (by simp)
    have hr : ∀ t' ∈ r, Emitted t' := fun t' ht' => h t' (by simp [ht'])
    have e : serialize (t :: r) = Tok.serialize t ++ serialize r := by simp [serialize]
    rw [e] at hl ⊢
    have hpos := serialize_length_pos t ht
    simp only [List.length_append] at hl
    obtain ⟨fuel', rfl⟩ : ∃ f', fuel = f' + 1 := ⟨fuel - 1, by omega⟩
    rw [parse_tok t ht fuel' (serialize r), ih fuel' hr (by omega)]

/-- **(B)** the terminal-side tokenizer reads back exactly the tokens that were serialised -/
theorem parse_serialize (ts : List Tok) (h : ∀ t ∈ ts, Emitted t) : parse (serialize ts) = ts :=
  parseAux_serialize ts _ h (Nat.le_refl _)

end Tup.EscL
