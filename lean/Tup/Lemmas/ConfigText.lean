import Tup.Lemmas.ConfigToml
/-!
  More textual forms for C17 (`same_text_every_layer_partial_more`): `float(str(i))`, finite decimals
  `a.f`, free strings for `str` options, comma-separated format lists.
-/
namespace Tup.Config
open Tup

/-! ### `float(str(i)) == i` -/

theorem splitAtChar_none (p : Char → Bool) (l : List Char) (h : ∀ c ∈ l, p c = false) :
    splitAtChar p l = (l, none) := by
  induction l with
  | nil => rfl
  | cons c cs ih =>
    have hc : p c = false := h c (by simp)
    have := ih (fun d hd => h d (by simp [hd]))
    simp [splitAtChar, hc, this]

theorem splitAtChar_append (p : Char → Bool) (l r : List Char) (s : Char) (h : ∀ c ∈ l, p c = false) (hs : p s = true) :
    splitAtChar p (l ++ s :: r) = (l, some r) := by
  induction l with
  | nil => simp [splitAtChar, hs]
  | cons c cs ih =>
    have hc : p c = false := h c (by simp)
    have := ih (fun d hd => h d (by simp [hd]))
    simp [splitAtChar, hc, this]

theorem isDigit_not_e_dot {c : Char} (h : c.isDigit = true) : (c = 'e' || c = 'E') = false ∧ (c = '.') = False := by
  simp only [Char.isDigit, Bool.and_eq_true, decide_eq_true_eq] at h
  have h2 : c.toNat ≤ 57 := by
    have := h.2; simp only [Char.toNat, UInt32.le_iff_toNat_le] at *; simpa using this
  have h1 : 48 ≤ c.toNat := by
    have := h.1; simp only [Char.toNat, ge_iff_le, UInt32.le_iff_toNat_le] at *; simpa using this
  have ne : ∀ d : Char, (d.toNat < 48 ∨ 57 < d.toNat) → c ≠ d := by
    intro d hd hcd; subst hcd; omega
  simp [ne 'e' (by decide), ne 'E' (by decide), ne '.' (by decide)]

theorem splitSign_digits (l : List Char) (hl : ∀ c ∈ l, c.isDigit = true) : splitSign l = (false, l) := by
  cases l with
  | nil => rfl
  | cons c cs =>
    have hc := isDigit_facts (hl c (by simp))
    unfold splitSign; split <;> simp_all

/-- the float parser on `[-]digits` -/
theorem pyFloat_digits (neg : Bool) (l : List Char) (hl : ∀ c ∈ l, c.isDigit = true) (hne : l ≠ []) (n k : Nat)
    (hp : parseDigits l = some (n, k)) :
    pyFloat (String.ofList (if neg then '-' :: l else l)) = some ⟨if neg then -(n : Int) else n, 1⟩ := by
  have hsplit : splitSign (trimWs (if neg then '-' :: l else l)) = (neg, l) := by
    cases neg with
    | true => simp only [↓reduceIte]; rw [trimWs_minus_digits l hl hne]; rfl
    | false => simp only [Bool.false_eq_true, ↓reduceIte]; rw [trimWs_digits l hl, splitSign_digits l hl]
  have he : splitAtChar (fun c => c = 'e' || c = 'E') l = (l, none) :=
    splitAtChar_none _ l (fun c hc => (isDigit_not_e_dot (hl c hc)).1)
  have hd : splitAtChar (· = '.') l = (l, none) :=
    splitAtChar_none _ l (fun c hc => by simpa using (isDigit_not_e_dot (hl c hc)).2)
  have hemp : l.isEmpty = false := by cases l with | nil => exact absurd rfl hne | cons _ _ => rfl
  unfold pyFloat
  rw [String.toList_ofList, hsplit]
  simp only [he, hd, hemp, hp, Bool.false_eq_true, ↓reduceIte, Bool.not_false, Bool.true_or, Bool.not_true]
  cases neg <;> simp

theorem pyFloat_toString_int (i : Int) : pyFloat (toString i) = some ⟨i, 1⟩ := by
  cases i with
  | ofNat n =>
    have e : toString (Int.ofNat n) = String.ofList (if false then '-' :: Nat.toDigits 10 n else Nat.toDigits 10 n) := by
      apply String.ext
      rw [String.toList_ofList]
      show (toString n).toList = _
      rw [toString_nat_toList]; rfl
    rw [e, pyFloat_digits false _ (toDigits_isDigit n) Nat.toDigits_ne_nil n _ (parseDigits_toDigits n)]
    rfl
  | negSucc n =>
    have e : toString (Int.negSucc n) = String.ofList (if true then '-' :: Nat.toDigits 10 (n + 1) else Nat.toDigits 10 (n + 1)) := by
      apply String.ext
      rw [String.toList_ofList]
      show ("-" ++ toString (n + 1)).toList = _
      rw [String.toList_append, toString_nat_toList]; rfl
    rw [e, pyFloat_digits true _ (toDigits_isDigit _) Nat.toDigits_ne_nil (n + 1) _ (parseDigits_toDigits _)]
    simp only [↓reduceIte, Option.some.injEq, Flt.mk.injEq, and_true]
    omega

/-- A finite decimal `a.f` (`f` a non-empty digit string, leading zeros allowed) is the rational
    `(a·10^|f| + f) / 10^|f|`: `float("12.50") == 1250/100`. -/
theorem pyFloat_decimal (a : Nat) (f : List Char) (hf : ∀ c ∈ f, c.isDigit = true) (hne : f ≠ []) :
    pyFloat (String.ofList (Nat.toDigits 10 a ++ '.' :: f)) =
      some ⟨((a * 10 ^ f.length + Nat.ofDigitChars 10 f 0 : Nat) : Int), 10 ^ f.length⟩ := by
  have hda := toDigits_isDigit a
  have hall : ∀ c ∈ Nat.toDigits 10 a ++ '.' :: f, isWs c = false := by
    intro c hc
    rcases List.mem_append.1 hc with h | h
    · exact (isDigit_facts (hda c h)).2.2.1
    · rcases List.mem_cons.1 h with rfl | h
      · decide
      · exact (isDigit_facts (hf c h)).2.2.1
  have htrim : trimWs (Nat.toDigits 10 a ++ '.' :: f) = Nat.toDigits 10 a ++ '.' :: f := by
    obtain ⟨c, cs, hcs⟩ : ∃ c cs, Nat.toDigits 10 a = c :: cs := by
      cases h : Nat.toDigits 10 a with
      | nil => exact absurd h Nat.toDigits_ne_nil
      | cons c cs => exact ⟨c, cs, rfl⟩
    obtain ⟨d, ds, hds⟩ : ∃ d ds, (Nat.toDigits 10 a ++ '.' :: f).reverse = d :: ds := by
      cases h : (Nat.toDigits 10 a ++ '.' :: f).reverse with
      | nil => simp at h
      | cons d ds => exact ⟨d, ds, rfl⟩
    have hd : isWs d = false := hall d (by
      have : d ∈ (Nat.toDigits 10 a ++ '.' :: f).reverse := by rw [hds]; simp
      exact List.mem_reverse.1 this)
    have hc : isWs c = false := hall c (by simp [hcs])
    unfold trimWs
    have h1 : (Nat.toDigits 10 a ++ '.' :: f).dropWhile isWs = Nat.toDigits 10 a ++ '.' :: f := by
      rw [hcs, List.cons_append, List.dropWhile_cons_of_neg (by simp [hc])]
    rw [h1, hds, List.dropWhile_cons_of_neg (by simp [hd]), ← hds, List.reverse_reverse]
  have hsign : splitSign (Nat.toDigits 10 a ++ '.' :: f) = (false, Nat.toDigits 10 a ++ '.' :: f) := by
    obtain ⟨c, cs, hcs⟩ : ∃ c cs, Nat.toDigits 10 a = c :: cs := by
      cases h : Nat.toDigits 10 a with
      | nil => exact absurd h Nat.toDigits_ne_nil
      | cons c cs => exact ⟨c, cs, rfl⟩
    have hc := isDigit_facts (hda c (by simp [hcs]))
    rw [hcs, List.cons_append]; unfold splitSign; split <;> simp_all
  have he : splitAtChar (fun c => c = 'e' || c = 'E') (Nat.toDigits 10 a ++ '.' :: f) = (Nat.toDigits 10 a ++ '.' :: f, none) := by
    apply splitAtChar_none
    intro c hc
    rcases List.mem_append.1 hc with h | h
    · exact (isDigit_not_e_dot (hda c h)).1
    · rcases List.mem_cons.1 h with rfl | h
      · decide
      · exact (isDigit_not_e_dot (hf c h)).1
  have hd : splitAtChar (· = '.') (Nat.toDigits 10 a ++ '.' :: f) = (Nat.toDigits 10 a, some f) :=
    splitAtChar_append _ _ _ _ (fun c hc => by simpa using (isDigit_not_e_dot (hda c hc)).2) (by simp)
  have hpf : parseDigits f = some (Nat.ofDigitChars 10 f 0, f.length) := by
    obtain ⟨c, cs, hcs⟩ : ∃ c cs, f = c :: cs := by
      cases f with | nil => exact absurd rfl hne | cons c cs => exact ⟨c, cs, rfl⟩
    have hc := isDigit_facts (hf c (by simp [hcs]))
    unfold parseDigits
    rw [hcs]
    simp only [hc.2.1, ↓reduceIte]
    rw [← hcs, digitsAux_digits _ hf 0 0 false (Or.inl hne)]
    simp
  have hemp : (Nat.toDigits 10 a).isEmpty = false := by
    cases h : Nat.toDigits 10 a with | nil => exact absurd h Nat.toDigits_ne_nil | cons _ _ => rfl
  have hfemp : f.isEmpty = false := by cases f with | nil => exact absurd rfl hne | cons _ _ => rfl
  unfold pyFloat
  rw [String.toList_ofList, htrim, hsign]
  simp only [he, hd, hemp, hfemp, parseDigits_toDigits, hpf, Bool.false_eq_true, ↓reduceIte, Bool.not_false, Bool.true_or,
    Bool.not_true]
  have hlt : ¬ ((0 : Int) - (f.length : Int) ≥ 0) := by
    have : 0 < f.length := by cases f with | nil => exact absurd rfl hne | cons _ _ => simp
    omega
  simp only [hlt, ↓reduceIte, Option.some.injEq, Flt.mk.injEq]
  constructor
  · simp
  · congr 1; omega

/-! ### comma-separated format lists -/

/-- a format word: non-empty, no comma, no space -/
def isWord (w : String) : Bool := !w.toList.isEmpty && w.toList.all fun c => !isSep c

theorem splitFormatsAux_word (w rest cur : List Char) (hw : ∀ c ∈ w, isSep c = false) (b : Bool) :
    splitFormatsAux (w ++ rest) cur b = splitFormatsAux rest (w.reverse ++ cur) (if w = [] then b else false) := by
  induction w generalizing cur b with
  | nil => simp
  | cons c cs ih =>
    have hc : isSep c = false := hw c (by simp)
    rw [List.cons_append, splitFormatsAux]
    simp only [hc, Bool.false_eq_true, ↓reduceIte]
    rw [ih (c :: cur) (fun d hd => hw d (by simp [hd])) false]
    by_cases h : cs = [] <;> simp [h]

/-- `",".join(ws)` for a non-empty list of words splits back into the words. -/
theorem splitFormatsAux_join (w : String) (ws : List String) (hw : isWord w = true) (hws : ∀ v ∈ ws, isWord v = true)
    (b : Bool) : splitFormatsAux (String.intercalate "," (w :: ws)).toList [] b = w :: ws := by
  induction ws generalizing w b with
  | nil =>
    have h1 : ∀ c ∈ w.toList, isSep c = false := by
      simp only [isWord, Bool.and_eq_true, List.all_eq_true, Bool.not_eq_eq_eq_not, Bool.not_true] at hw
      exact hw.2
    have := splitFormatsAux_word w.toList [] [] h1 b
    simp only [List.append_nil] at this
    rw [String.intercalate_singleton, this, splitFormatsAux]
    simp [String.ofList_toList]
  | cons v vs ih =>
    have h1 : ∀ c ∈ w.toList, isSep c = false := by
      simp only [isWord, Bool.and_eq_true, List.all_eq_true, Bool.not_eq_eq_eq_not, Bool.not_true] at hw
      exact hw.2
    have hne : w.toList ≠ [] := by
      simp only [isWord, Bool.and_eq_true, Bool.not_eq_eq_eq_not, Bool.not_true, List.isEmpty_eq_false_iff] at hw
      exact hw.1
    have e : (String.intercalate "," (w :: v :: vs)).toList = w.toList ++ ',' :: (String.intercalate "," (v :: vs)).toList := by
      rw [String.intercalate_cons_cons, String.toList_append, String.toList_append]
      simp
    rw [e, splitFormatsAux_word _ _ _ h1]
    simp only [hne, ↓reduceIte, List.append_nil]
    rw [splitFormatsAux]
    simp only [isSep, decide_true, Bool.true_or, ↓reduceIte, Bool.false_eq_true, List.reverse_reverse, String.ofList_toList]
    rw [ih v (hws v (by simp)) (fun u hu => hws u (by simp [hu])) true]

theorem splitFormats_join (w : String) (ws : List String) (hw : isWord w = true) (hws : ∀ v ∈ ws, isWord v = true) :
    splitFormats (String.intercalate "," (w :: ws)) = w :: ws := splitFormatsAux_join w ws hw hws false

end Tup.Config
