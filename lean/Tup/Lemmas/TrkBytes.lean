import Tup.Lemmas.TrkStep
import Tup.Lemmas.EscParse
/-!
  From chunks to the byte stream (C16): the tokenizer reads the concatenation of what the tracker
  wrote exactly as the chunks one after the other, provided every raw chunk (user text, graphics
  command, placeholder line) leaves it in its ground state.  Uses the round trip of CSI sequences
  from `Tup.Lemmas.EscParse`.  No Mathlib.
-/
namespace Tup

theorem takeWhileB_len (p : UInt8 → Bool) (l : Bytes) : (takeWhileB p l).2.length ≤ l.length := by
  induction l with
  | nil => simp [takeWhileB]
  | cons b r ih =>
    simp only [takeWhileB]
    split
    · simp only [List.length_cons]; omega
    · simp

theorem takeString_len (acc l : Bytes) (body r : Bytes) (h : takeString acc l = some (body, r)) : r.length ≤ l.length := by
  fun_induction takeString acc l with
  | case1 => simp at h
  | case2 acc rest => simp at h; obtain ⟨_, rfl⟩ := h; simp; omega
  | case3 acc b rest hne ih => have := ih h; simp; omega

theorem parseAux_nil (g : Nat) : parseAux g [] = [] := by cases g <;> rfl

theorem parseAux_fuel (f : Nat) (bs : Bytes) : ∀ g, bs.length ≤ f → bs.length ≤ g → parseAux f bs = parseAux g bs := by
  fun_induction parseAux f bs
  case case1 bs =>
    intro g h1 _
    have : bs = [] := List.eq_nil_of_length_eq_zero (by omega)
    subst this; rw [parseAux_nil]
  case case2 => intro g _ _; rw [parseAux_nil]
  case case5 fuel r a1 r1 hx1 a2 b rest hb l hpp hx2 ih =>
    intro g h1 h2
    have l1 := takeWhileB_len (fun x => decide (48 ≤ x.toNat) && decide (x.toNat ≤ 63)) r
    have l2 := takeWhileB_len (fun x => decide (32 ≤ x.toNat) && decide (x.toNat ≤ 47)) r1
    rw [hx1] at l1; rw [hx2] at l2
    simp only [List.length_cons] at l1 l2 h1 h2
    cases g with
    | zero => omega
    | succ g =>
      simp [parseAux, *]
      exact ih g (by omega) (by omega)
  case case6 fuel r a1 r1 hx1 a2 b rest hb hpp hx2 ih =>
    intro g h1 h2
    have l1 := takeWhileB_len (fun x => decide (48 ≤ x.toNat) && decide (x.toNat ≤ 63)) r
    have l2 := takeWhileB_len (fun x => decide (32 ≤ x.toNat) && decide (x.toNat ≤ 47)) r1
    rw [hx1] at l1; rw [hx2] at l2
    simp only [List.length_cons] at l1 l2 h1 h2
    cases g with
    | zero => omega
    | succ g =>
      simp [parseAux, *]
      exact ih g (by omega) (by omega)
  case case7 fuel r a1 r1 hx1 a2 b rest hb hx2 ih =>
    intro g h1 h2
    have l1 := takeWhileB_len (fun x => decide (48 ≤ x.toNat) && decide (x.toNat ≤ 63)) r
    have l2 := takeWhileB_len (fun x => decide (32 ≤ x.toNat) && decide (x.toNat ≤ 47)) r1
    rw [hx1] at l1; rw [hx2] at l2
    simp only [List.length_cons] at l1 l2 h1 h2
    cases g with
    | zero => omega
    | succ g =>
      simp [parseAux, *]
      exact ih g (by omega) (by omega)
  case case8 fuel r body r' hx ih =>
    intro g h1 h2
    have l1 := takeString_len [] r body r' hx
    simp only [List.length_cons] at l1 h1 h2
    cases g with
    | zero => omega
    | succ g =>
      simp [parseAux, *]
      exact ih g (by omega) (by omega)
  case case10 fuel r body r' hx ih =>
    intro g h1 h2
    have l1 := takeString_len [] r body r' hx
    simp only [List.length_cons] at l1 h1 h2
    cases g with
    | zero => omega
    | succ g =>
      simp [parseAux, *]
      exact ih g (by omega) (by omega)
  all_goals (intro g h1 h2)
  all_goals (cases g with
    | zero => simp at h2
    | succ g => ?_)
  all_goals (try (simp [parseAux, *]; done))
  all_goals (simp [parseAux, *]; apply_assumption <;> (simp at h1 h2 ⊢; omega))

theorem parse_fuel (bs : Bytes) (n : Nat) : parseAux (bs.length + n) bs = parse bs :=
  (parseAux_fuel bs.length bs (bs.length + n) (Nat.le_refl _) (by omega)).symm


/-- after `bs` the tokenizer is in its ground state, whatever follows -/
def Closed (bs : Bytes) : Prop := ∀ rest, parse (bs ++ rest) = parse bs ++ parse rest

theorem closed_nil : Closed [] := fun _ => rfl

theorem closed_append {a b : Bytes} (ha : Closed a) (hb : Closed b) : Closed (a ++ b) := by
  intro rest
  rw [List.append_assoc, ha (b ++ rest), hb rest, ha b, List.append_assoc]

/-- the control functions the tracker itself emits -/
def TrkTok : Tok → Prop
  | .csi _ f => 0x40 ≤ f ∧ f ≤ 0x7E
  | .esc f => f = 99 ∨ f = 69 ∨ f = 68
  | .c0 b => b = 10
  | _ => False

theorem parse_step (k : Tok) (hk : ∀ fuel rest, parseAux (fuel + 1) (k.serialize ++ rest) = k :: parseAux fuel rest)
    (hpos : 0 < k.serialize.length) (rest : Bytes) : parse (k.serialize ++ rest) = k :: parse rest := by
  unfold parse
  rw [List.length_append]
  obtain ⟨n, hn⟩ : ∃ n, k.serialize.length = n + 1 := ⟨k.serialize.length - 1, by omega⟩
  rw [hn, show n + 1 + rest.length = (rest.length + n) + 1 by omega, hk, parse_fuel]
  rfl

theorem trkTok_parse (k : Tok) (h : TrkTok k) (rest : Bytes) : parse (k.serialize ++ rest) = k :: parse rest := by
  cases k with
  | csi ps f => exact parse_step _ (EscL.parse_csi ps f h.1 h.2) (by simp [Tok.serialize]) rest
  | esc f =>
    apply parse_step _ _ (by simp [Tok.serialize])
    intro fuel rest
    rcases h with rfl | rfl | rfl <;> simp [Tok.serialize, parseAux, ESC]
  | c0 b =>
    have : b = 10 := h
    subst this
    exact parse_step _ EscL.parse_lf (by simp [Tok.serialize]) rest
  | char _ => exact absurd h (by simp [TrkTok])
  | apc _ => exact absurd h (by simp [TrkTok])
  | dcs _ => exact absurd h (by simp [TrkTok])
  | bad _ => exact absurd h (by simp [TrkTok])

theorem trkTok_closed (k : Tok) (h : TrkTok k) : Closed k.serialize ∧ parse k.serialize = [k] := by
  have e : parse k.serialize = [k] := by
    have := trkTok_parse k h []
    simpa [parse, parseAux_nil] using this
  refine ⟨?_, e⟩
  intro rest
  rw [trkTok_parse k h rest, e]; rfl

end Tup

namespace Tup.Trk
open Tup Tup.Spec

/-- tokens a chunk is read as -/
def chunkToks : Chunk → List Tok
  | .tok k => [k]
  | .raw bs => parse bs

/-- chunks the tokenizer reads independently of what follows -/
def ChunkClosed : Chunk → Prop
  | .tok k => TrkTok k
  | .raw bs => Closed bs

theorem feedChunks_eq (cs : List Chunk) (t : Term) : feedChunks t cs = (cs.flatMap chunkToks).foldl Term.feedP t := by
  induction cs generalizing t with
  | nil => rfl
  | cons c cs ih =>
    rw [feedChunks_cons, ih, List.flatMap_cons, List.foldl_append]
    cases c <;> rfl

theorem parse_bytesOf (cs : List Chunk) (h : ∀ c ∈ cs, ChunkClosed c) :
    parse (bytesOf cs) = cs.flatMap chunkToks ∧ Closed (bytesOf cs) := by
  induction cs with
  | nil => exact ⟨rfl, closed_nil⟩
  | cons c cs ih =>
    have ih' := ih (fun c' hc' => h c' (by simp [hc']))
    have hc := h c (by simp)
    have e : bytesOf (c :: cs) = c.bytes ++ bytesOf cs := by simp [bytesOf]
    have cc : Closed c.bytes ∧ parse c.bytes = chunkToks c := by
      cases c with
      | tok k => exact trkTok_closed k hc
      | raw bs => exact ⟨hc, rfl⟩
    rw [e]
    refine ⟨?_, closed_append cc.1 ih'.2⟩
    rw [cc.1 (bytesOf cs), cc.2, ih'.1, List.flatMap_cons]

/-- Reading the whole byte stream = reading the chunks one after the other. -/
theorem feedBytes_eq (cs : List Chunk) (h : ∀ c ∈ cs, ChunkClosed c) (t : Term) :
    (parse (bytesOf cs)).foldl Term.feedP t = feedChunks t cs := by
  rw [(parse_bytesOf cs h).1, feedChunks_eq]

/-! ### everything a call writes is closed, if the raw inputs are -/

/-- everything written so far by the call is read independently of what follows -/
def OutOk (a : Acc) : Prop := ∀ c ∈ a.out, ChunkClosed c

theorem OutOk.emit {a : Acc} (h : OutOk a) (cs : List Chunk) (hcs : ∀ c ∈ cs, ChunkClosed c) : OutOk (a.emit cs) := by
  intro c hc
  simp only [Acc.emit, List.mem_append] at hc
  rcases hc with hc | hc
  · exact h c hc
  · exact hcs c hc

theorem csiOk (ps : List Nat) (f : Char) (h : 0x40 ≤ f.toNat ∧ f.toNat ≤ 0x7E) : ChunkClosed (csi ps f) := h

theorem vtoks_ok (d : Option Int) : ∀ c ∈ vtoks d, ChunkClosed c := by
  intro c hc
  cases d with
  | none => simp [vtoks] at hc
  | some d =>
    simp only [vtoks] at hc
    split at hc
    · simp at hc; subst hc; exact csiOk _ _ (by decide)
    · split at hc
      · simp at hc; subst hc; exact csiOk _ _ (by decide)
      · simp at hc

theorem htoks_ok (d : Option Int) : ∀ c ∈ htoks d, ChunkClosed c := by
  intro c hc
  cases d with
  | none => simp [htoks] at hc
  | some d =>
    simp only [htoks] at hc
    split at hc
    · simp at hc; subst hc; exact csiOk _ _ (by decide)
    · split at hc
      · simp at hc; subst hc; exact csiOk _ _ (by decide)
      · simp at hc

theorem rowToks_ok (r : Option Nat) : ∀ c ∈ rowToks r, ChunkClosed c := by
  intro c hc
  cases r with
  | none => simp [rowToks] at hc
  | some r => simp [rowToks] at hc; subst hc; exact csiOk _ _ (by decide)

theorem colToks_ok (r : Option Nat) : ∀ c ∈ colToks r, ChunkClosed c := by
  intro c hc
  cases r with
  | none => simp [colToks] at hc
  | some r => simp [colToks] at hc; subst hc; exact csiOk _ _ (by decide)

variable {e : Env} {a : Acc}

theorem moveCursor_ok (h : OutOk a) (r d l u : Option Int) : OutOk (moveCursor e a r d l u) := by
  unfold moveCursor
  split
  · exact h
  extract_lets d' r' a1 a2
  split
  · exact h
  have h2 : OutOk a2 := (h.emit _ (vtoks_ok d')).emit _ (htoks_ok r')
  cases a2.s.tracked with
  | none => exact h2
  | some p =>
    obtain ⟨x, y⟩ := p
    simp only []
    split <;> exact h2

theorem moveCursorAbs_ok (h : OutOk a) (c r : Option Nat) (p : Option (Nat × Nat)) : OutOk (moveCursorAbs e a c r p) := by
  unfold moveCursorAbs
  split
  · exact h
  extract_lets c' r' a1 a2
  have h2 : OutOk a2 := (h.emit _ (rowToks_ok r')).emit _ (colToks_ok c')
  clear_value a2 a1 c' r'
  cases a2.s.tracked with
  | none =>
    cases c' <;> cases r' <;> exact h2
  | some p =>
    obtain ⟨x, y⟩ := p
    exact h2

theorem single_ok (c : Chunk) (hc : ChunkClosed c) : ∀ c' ∈ [c], ChunkClosed c' := by
  intro c' h; simp at h; subst h; exact hc

theorem getCursorPosition_ok (h : OutOk a) : OutOk (getCursorPosition e a).1 := by
  unfold getCursorPosition
  extract_lets a1 r a2
  have h1 : OutOk a1 := h.emit _ (single_ok _ (csiOk _ _ (by decide)))
  cases r with
  | none => exact h1
  | some p => obtain ⟨c, r'⟩ := p; exact h1

theorem getCursorPositionTracked_ok (h : OutOk a) : OutOk (getCursorPositionTracked e a).1 := by
  unfold getCursorPositionTracked
  cases a.s.tracked with
  | none => exact getCursorPosition_ok h
  | some p => exact h

theorem scrollUp_ok (h : OutOk a) (n : Nat) : OutOk (scrollUp a n) :=
  h.emit _ (single_ok _ (csiOk _ _ (by decide)))

theorem reset_ok (h : OutOk a) (b : Bool) : OutOk (reset e a b) := by
  unfold reset
  cases b with
  | false =>
    simp only [Bool.false_eq_true, if_false]
    exact h.emit _ (single_ok _ (Or.inl rfl))
  | true =>
    simp only [if_true]
    apply moveCursorAbs_ok
    apply scrollUp_ok (a := _)
    apply OutOk.emit h
    intro c hc
    simp at hc
    rcases hc with rfl | rfl
    · exact csiOk _ _ (by decide)
    · exact csiOk _ _ (by decide)

theorem atCursor_ok (width : Nat) (useSave useLF : Bool) (ls : List Bytes) (hl : ∀ l ∈ ls, Closed l) :
    ∀ c ∈ toStreamAtCursor width useSave useLF ls, ChunkClosed c := by
  induction ls with
  | nil => intro c h; simp [toStreamAtCursor] at h
  | cons l rest ih =>
    have hl0 : ChunkClosed (.raw l) := hl l (by simp)
    have ih' := ih (fun l' hl' => hl l' (by simp [hl']))
    cases rest with
    | nil =>
      intro c h
      simp [toStreamAtCursor] at h
      subst h; exact hl0
    | cons l2 rest' =>
      intro c h
      simp only [toStreamAtCursor, List.mem_append] at h
      rcases h with ((h | h) | h) | h
      · split at h
        · simp at h; subst h; exact csiOk _ _ (by decide)
        · simp at h
      · simp at h; subst h; exact hl0
      · split at h
        · simp at h; subst h; exact (rfl : (10 : Nat) = 10)
        · simp only [List.mem_append] at h
          rcases h with h | h
          · split at h <;> (simp at h; subst h; exact csiOk _ _ (by decide))
          · simp at h; subst h; exact Or.inr (Or.inr rfl)
      · exact ih' c h

theorem abs_ok (pos : Nat × Nat) (ls : List Bytes) (hl : ∀ l ∈ ls, Closed l) :
    ∀ idx, ∀ c ∈ toStreamAbs pos idx ls, ChunkClosed c := by
  induction ls with
  | nil => intro idx c h; simp [toStreamAbs] at h
  | cons l rest ih =>
    intro idx c h
    simp only [toStreamAbs, List.cons_append, List.nil_append, List.mem_cons] at h
    rcases h with h | h | h
    · subst h; exact csiOk _ _ (by decide)
    · subst h; exact hl l (by simp)
    · exact ih (fun l' hl' => hl l' (by simp [hl'])) _ c h

theorem printPlaceholder_ok (h : OutOk a) (p : PhArgs) (hp : ∀ ls, p.lines = some ls → ∀ l ∈ ls, Closed l) :
    OutOk (printPlaceholder a p) := by
  unfold printPlaceholder
  extract_lets a1
  have h1 : OutOk a1 := by
    simp only [a1]; split <;> exact h
  split
  · exact h1
  · cases hl : p.lines with
    | none => exact h1
    | some ls =>
      simp only []
      apply OutOk.emit h1
      cases p.pos with
      | none => exact atCursor_ok _ _ _ ls (hp ls hl)
      | some pos => exact abs_ok pos ls (hp ls hl) 0

theorem putFinish_ok (h : OutOk a) (noMove : Bool) (cX cY cols rows : Int) : OutOk (putFinish e a noMove cX cY cols rows) := by
  unfold putFinish
  extract_lets a1
  have h1 : OutOk a1 := by
    simp only [a1]
    split
    · exact moveCursorAbs_ok h _ _ _
    · split
      · exact h.emit _ (single_ok _ (Or.inr (Or.inl rfl)))
      · exact h
  split <;> exact h1

theorem putPrint_ok (h : OutOk a) (p : PutArgs) (hp : ∀ c r, ∀ l ∈ p.lines c r, Closed l) (cols rows : Int) :
    OutOk (putPrint e a p cols rows) := by
  unfold putPrint
  have q := getCursorPosition_ok (e := e) h
  generalize getCursorPosition e a = res at q
  obtain ⟨a3, cX, cY⟩ := res
  simp only []
  split
  · exact q
  · apply putFinish_ok
    apply printPlaceholder_ok (a := a3.setTracked none) q
    intro ls hls l hl
    simp only [Option.some.injEq] at hls
    subst hls
    exact hp _ _ l hl

theorem putScroll_ok (h : OutOk a) (noMove : Bool) (rows curY : Int) : OutOk (putScroll e a noMove rows curY) := by
  unfold putScroll
  split
  · exact moveCursor_ok (h.emit _ (single_ok _ (csiOk _ _ (by decide)))) _ _ _ _
  · exact h

theorem printPlaceholderForPut_ok (h : OutOk a) (p : PutArgs) (hp : ∀ c r, ∀ l ∈ p.lines c r, Closed l) :
    OutOk (printPlaceholderForPut e a p) := by
  unfold printPlaceholderForPut
  cases p.rows with
  | none => exact h
  | some prow =>
    cases p.cols with
    | none => exact h
    | some pcol =>
      simp only []
      split
      · exact h
      have q := getCursorPositionTracked_ok (e := e) h
      generalize getCursorPositionTracked e a = res at q
      obtain ⟨a1, curX, curY⟩ := res
      simp only []
      by_cases herr : a1.err.isSome = true
      · rw [if_pos herr]; exact q
      rw [if_neg herr]
      generalize min pcol ((e.w : Int) - curX) = cols
      generalize (if (decide ((e.h : Int) - curY < prow) && p.noMove) = true then (e.h : Int) - curY else prow) = rows
      have h2 : OutOk (putScroll e a1 p.noMove prow curY) := putScroll_ok q _ _ _
      by_cases hz : (decide (cols ≤ 0) || decide (rows ≤ 0)) = true
      · rw [if_pos hz]; exact h2
      · rw [if_neg hz]; exact putPrint_ok h2 p hp _ _

theorem sendCommand_ok (h : OutOk a) (f : Bool) (k : CmdKind) (apc : Bytes) (p : PutArgs) (hapc : Closed apc)
    (hp : ∀ c r, ∀ l ∈ p.lines c r, Closed l) : OutOk (sendCommand e a f k apc p) := by
  unfold sendCommand
  extract_lets need a1
  have h1 : OutOk a1 := h.emit _ (single_ok (.raw apc) hapc)
  split
  · exact printPlaceholderForPut_ok h1 p hp
  · exact h1

/-- the raw inputs of a call are read independently of what follows -/
def Op.RawClosed : Op → Prop
  | .write bs => Closed bs
  | .writecmd bs => Closed bs
  | .printPlaceholder p => ∀ ls, p.lines = some ls → ∀ l ∈ ls, Closed l
  | .printPlaceholderForPut p => ∀ c r, ∀ l ∈ p.lines c r, Closed l
  | .sendCommand _ _ apc p => Closed apc ∧ ∀ c r, ∀ l ∈ p.lines c r, Closed l
  | _ => True

theorem step_ok (e : Env) (s : Trk) (op : Op) (hop : op.RawClosed) : ∀ c ∈ (step e s op).out, ChunkClosed c := by
  have h0 : OutOk { s := s } := by intro c hc; cases hc
  show OutOk (step e s op)
  unfold step
  cases op with
  | reset b => exact reset_ok h0 b
  | moveCursor r d l u => exact moveCursor_ok h0 r d l u
  | moveCursorAbs c r p => exact moveCursorAbs_ok h0 c r p
  | setMargins t b => exact h0.emit _ (single_ok _ (csiOk _ _ (by decide)))
  | scrollUp n => exact scrollUp_ok h0 n
  | scrollDown n => exact h0.emit _ (single_ok _ (csiOk _ _ (by decide)))
  | write bs => exact h0.emit _ (single_ok (.raw bs) hop)
  | writecmd bs => exact h0.emit _ (single_ok (.raw bs) hop)
  | clearLine => exact h0.emit _ (single_ok _ (csiOk _ _ (by decide)))
  | clearScreen =>
    apply h0.emit
    intro c hc
    simp at hc
    rcases hc with rfl | rfl <;> exact csiOk _ _ (by decide)
  | printPlaceholder p => exact printPlaceholder_ok h0 p hop
  | printPlaceholderForPut p => exact printPlaceholderForPut_ok h0 p hop
  | sendCommand f k apc p => exact sendCommand_ok h0 f k apc p hop.1 hop.2
  | getCursorPosition => exact getCursorPosition_ok h0
  | getCursorPositionTracked => exact getCursorPositionTracked_ok h0

theorem run_ok (w h : Nat) (cfg : TermCfg) (ops : List Op) (hops : ∀ op ∈ ops, op.RawClosed) :
    ∀ c ∈ (run w h cfg ops).2, ChunkClosed c := by
  unfold run
  have gen : ∀ (ops : List Op) (st : Trk × List Chunk), (∀ op ∈ ops, op.RawClosed) → (∀ c ∈ st.2, ChunkClosed c) →
      ∀ c ∈ (ops.foldl (runStep w h cfg) st).2, ChunkClosed c := by
    intro ops
    induction ops with
    | nil => intro st _ hst; exact hst
    | cons op ops ih =>
      intro st hw' hst
      apply ih _ (fun o ho => hw' o (by simp [ho]))
      intro c hc
      simp only [runStep, List.mem_append] at hc
      rcases hc with hc | hc
      · exact hst c hc
      · exact step_ok _ _ op (hw' op (by simp)) c hc
  exact gen ops _ hops (by intro c hc; cases hc)

end Tup.Trk
