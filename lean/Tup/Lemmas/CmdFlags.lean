import Tup.Lemmas.CmdSend
/-!
  Lemmas for C05 `send_flags` / `send_keys`: the `m` flags and chunk lengths along the list that
  `split` yields, and what the parser's `mFlag` / `keys` see for a chunk.  Core Lean only.
-/
namespace Tup.Command
open Tup Tup.Spec.GfxParse Tup.Spec.TmuxUnwrap

/-- (data, `more`) of a transmission chunk -/
def chunkInfo : GCmd → Bytes × Option Bool
  | .transmit t => (t.data, t.more)
  | .moreData m => (m.data, m.more)
  | _ => ([], none)

/-- all chunks but the last are full (`n` bytes) and flagged `more = True`; the last carries `last` -/
inductive GoodCmds (n : Nat) (last : Bool) : List GCmd → Prop
  | single (c : GCmd) (h : (chunkInfo c).2 = some last) (hd : (chunkInfo c).1.length ≤ n) : GoodCmds n last [c]
  | cons (c : GCmd) (h : (chunkInfo c).2 = some true) (hd : (chunkInfo c).1.length = n) (x : GCmd) (xs : List GCmd)
      (hr : GoodCmds n last (x :: xs)) : GoodCmds n last (c :: x :: xs)

theorem good_allButLast {n : Nat} {last : Bool} {cs : List GCmd} (h : GoodCmds n last cs) :
    ∀ c ∈ allButLast cs, (chunkInfo c).2 = some true ∧ (chunkInfo c).1.length = n := by
  induction h with
  | single c h hd => intro c' hc'; simp [allButLast] at hc'
  | cons c h hd x xs hr ih =>
    intro c' hc'
    simp only [allButLast, List.mem_cons] at hc'
    rcases hc' with rfl | hc'
    · exact ⟨h, hd⟩
    · exact ih c' hc'

theorem good_last {n : Nat} {last : Bool} {cs : List GCmd} (h : GoodCmds n last cs) :
    ∃ c, cs.getLast? = some c ∧ (chunkInfo c).2 = some last := by
  induction h with
  | single c h hd => exact ⟨c, rfl, h⟩
  | cons c h hd x xs hr ih =>
    obtain ⟨c', h1, h2⟩ := ih
    exact ⟨c', by simpa [List.getLast?_cons_cons] using h1, h2⟩

theorem take_isEmpty_iff (n : Nat) (hn : 0 < n) (rest : Bytes) : (rest.take n).isEmpty = true ↔ rest = [] := by
  cases rest with
  | nil => simp
  | cons x xs =>
    have : n = (n - 1) + 1 := by omega
    rw [this]; simp

theorem moreChunks_good (id num : Option Nat) (orig : Option Bool) (n : Nat) (hn : 0 < n) :
    ∀ fuel rest c0, rest.length ≤ fuel → (chunkInfo c0).2 = some (orMore orig (rest.take n)) →
      (chunkInfo c0).1.length ≤ n → (rest ≠ [] → (chunkInfo c0).1.length = n) →
      GoodCmds n (orig == some true) (c0 :: moreChunks id num orig n fuel rest) := by
  intro fuel
  induction fuel with
  | zero =>
    intro rest c0 hl h1 h2 _
    have hr : rest = [] := List.length_eq_zero_iff.mp (by omega)
    subst hr
    simp only [moreChunks]
    exact GoodCmds.single c0 (by simpa [orMore] using h1) h2
  | succ f ih =>
    intro rest c0 hl h1 h2 h3
    by_cases hr : rest = []
    · subst hr
      simp only [moreChunks, List.take_nil, List.isEmpty_nil, if_true]
      exact GoodCmds.single c0 (by simpa [orMore] using h1) h2
    · have hne : ¬ (rest.take n).isEmpty = true := by rw [take_isEmpty_iff n hn]; exact hr
      simp only [moreChunks, hne]
      have hpos : 0 < rest.length := List.length_pos_iff.mpr hr
      apply GoodCmds.cons c0 _ (h3 hr)
      · apply ih
        · simp [List.length_drop]; omega
        · rfl
        · simp [chunkInfo, List.length_take]; omega
        · intro hd
          have : 0 < (rest.drop n).length := List.length_pos_iff.mpr hd
          simp [List.length_drop] at this
          simp [chunkInfo, List.length_take]; omega
      · have : (rest.take n).isEmpty = false := by simpa using hne
        simpa [orMore, this] using h1

/-- the list `split` yields for an inline transmission has the flag/length shape of the property -/
theorem split_good (t : Transmit) (n : Nat) (hn : 0 < n) (h : t.inline) :
    GoodCmds n (t.more == some true) (t.split n) := by
  rw [split_inline t n h]
  apply moreChunks_good _ _ _ n hn
  · exact Nat.le_refl _
  · rfl
  · simp [chunkInfo, List.length_take]; omega
  · intro hd
    have : 0 < (t.data.drop n).length := List.length_pos_iff.mpr hd
    simp [List.length_drop] at this
    simp [chunkInfo, List.length_take]; omega

/-! ### what the parser sees -/

theorem lookup_append (k : UInt8) (l1 l2 : List (UInt8 × Bytes)) :
    lookup k (l1 ++ l2) = match lookup k l1 with | some v => some v | none => lookup k l2 := by
  induction l1 with
  | nil => rfl
  | cons a rest ih =>
    obtain ⟨k', v⟩ := a
    by_cases h : k' = k <;> simp [lookup, h, ih]

theorem lookup_opt (k k' : UInt8) (v : Option Bytes) : lookup k (opt k' v) = if k' = k then v else none := by
  cases v with
  | none => simp [opt, lookup]
  | some x => simp [opt, lookup]

theorem mFlag_of_lookup (items : List (UInt8 × Bytes)) (b : Bool) (h : lookup 109 items = some (flag b)) :
    mFlag items = some (if b then 1 else 0) := by
  cases b <;> simp [mFlag, h, flag]

/-- payload text and `m` flag of a chunk as decoded by the parser -/
theorem chunk_decoded (t : Transmit) (n : Nat) (c : GCmd) (hc : IsChunk t n c) :
    ∃ b, (chunkInfo c).2 = some b ∧ mFlag ((headerPairs c).map rp) = some (if b then 1 else 0) ∧
      (encodedPayload c).getD [] = b64enc (chunkInfo c).1 := by
  cases hc with
  | first d b hd =>
    refine ⟨b, rfl, ?_, rfl⟩
    apply mFlag_of_lookup
    have ha : Transmit.action { t with data := d, more := some b } = t.action := rfl
    simp only [headerPairs, Transmit.pairs, List.map_append, map_rp_hp, render_nInt, render_medium,
      render_compression, render_quiet, render_format, ha, lookup_append, lookup_opt, Option.map_some]
    cases b <;> simp <;> rfl
  | cont d b hd =>
    refine ⟨b, rfl, ?_, rfl⟩
    apply mFlag_of_lookup
    simp only [headerPairs, MoreData.pairs, List.map_append, map_rp_hp, render_nInt, lookup_append,
      lookup_opt, Option.map_some]
    cases b <;> simp <;> rfl

/-- a full chunk of `3q` bytes (q ≥ 1) encodes to `4q` characters without padding -/
theorem full_chunk_text (d : Bytes) (q : Nat) (hq : 1 ≤ q) (hd : d.length = q * 3) :
    (b64enc d).length % 4 = 0 ∧ 0 < (b64enc d).length ∧ b64pad ∉ b64enc d := by
  refine ⟨?_, ?_, pad_not_mem_b64enc d (by omega)⟩
  · rw [b64enc_length]; omega
  · rw [b64enc_length]; omega

/-! ### keys -/

theorem keys_map_rp_sublist_cont (id num : Option Nat) (d : Bytes) (b : Option Bool) :
    (keys ((headerPairs (.moreData { imageId := id, imageNumber := num, data := d, more := b })).map rp)).Sublist [105, 73, 109] := by
  simp only [headerPairs, MoreData.pairs, List.map_append, map_rp_hp, keys_append]
  have : ([105, 73, 109] : List UInt8) = [105] ++ [73] ++ [109] := rfl
  rw [this]
  repeat' apply List.Sublist.append
  all_goals exact keys_opt_sublist _ _

theorem allButLast_map {α β} (f : α → β) : ∀ l : List α, allButLast (l.map f) = (allButLast l).map f
  | [] => rfl
  | [_] => rfl
  | x :: y :: rest => by
    have ih := allButLast_map f (y :: rest)
    simp only [List.map_cons] at ih
    simp [allButLast, ih]

theorem mem_of_mem_allButLast {α} : ∀ {l : List α} {a : α}, a ∈ allButLast l → a ∈ l
  | [], _, h => by simp [allButLast] at h
  | [_], _, h => by simp [allButLast] at h
  | x :: y :: rest, a, h => by
    simp only [allButLast, List.mem_cons] at h
    rcases h with rfl | h
    · simp
    · have := mem_of_mem_allButLast (l := y :: rest) h
      simp only [List.mem_cons] at this ⊢
      exact Or.inr this

/-- everything after the first chunk is a continuation command -/
theorem moreChunks_isCont (id num : Option Nat) (orig : Option Bool) (n : Nat) :
    ∀ fuel rest, ∀ c ∈ moreChunks id num orig n fuel rest,
      ∃ d b, c = .moreData { imageId := id, imageNumber := num, data := d, more := b } := by
  intro fuel
  induction fuel with
  | zero => intro rest c hc; simp [moreChunks] at hc
  | succ f ih =>
    intro rest c hc
    simp only [moreChunks] at hc
    split at hc
    · simp at hc
    · simp only [List.mem_cons] at hc
      rcases hc with rfl | hc
      · exact ⟨_, _, rfl⟩
      · exact ih _ c hc

theorem dropKey_append (k : UInt8) (a b : List (UInt8 × Bytes)) : dropKey k (a ++ b) = dropKey k a ++ dropKey k b := by
  simp [dropKey]

theorem dropKey_opt_self (k : UInt8) (v : Option Bytes) : dropKey k (opt k v) = [] := by
  cases v <;> simp [dropKey, opt]

/-- apart from the `m` item the first chunk carries exactly the items of the original command -/
theorem fields_first_dropM (t : Transmit) (d : Bytes) (b : Option Bool) :
    dropKey 109 (fields (.transmit { t with data := d, more := b })) = dropKey 109 (fields (.transmit t)) := by
  have ha : transmitAction { t with data := d, more := b } = transmitAction t := rfl
  simp only [fields, dropKey_append, dropKey_opt_self, ha]

/-- `split` = first chunk (clone with data and `more` set) followed by continuation commands only -/
theorem split_first (t : Transmit) (n : Nat) (h : t.inline) :
    ∃ (d : Bytes) (b : Bool) (rest : List GCmd),
      t.split n = .transmit { t with data := d, more := some b } :: rest ∧
      ∀ c ∈ rest, ∃ d' b', c = .moreData { imageId := t.imageId, imageNumber := t.imageNumber, data := d', more := b' } :=
  ⟨_, _, _, split_inline t n h, moreChunks_isCont _ _ _ _ _ _⟩

end Tup.Command
