import Tup.Lemmas.DisplayRun
/-!
  Executable companions for concrete histories of `Model.Display` (used by the kernel-checked witnesses
  and the non-vacuity example of C08): the verdicts of `Spec.printOk` at the print events of a trace, and
  a finite check of `StrictTimes` (only the terminals named in requests have non-empty logs).
-/
namespace Tup.Display
open Tup Tup.Spec

/-- the judgement of the adversarial conforming terminal at every print event, in order -/
def verdicts (thr : String → Tup.Thresholds) (tr : List (State × Event)) : List Bool :=
  tr.filterMap fun se => match se.2 with
    | .print T x d => some (printOk (specThr (thr T)) (se.1.logs T) x d.token d.rows d.cols se.1.now)
    | .transmit .. => none

/-- the printed (terminal, id) pairs, in order -/
def printed (tr : List (State × Event)) : List (String × Nat) :=
  tr.filterMap fun se => match se.2 with
    | .print T x _ => some (T, x)
    | .transmit .. => none

/-- the transmissions (terminal, id, medium), in order -/
def transmitted (tr : List (State × Event)) : List (String × Nat × Medium) :=
  tr.filterMap fun se => match se.2 with
    | .transmit T x _ sent => some (T, x, sent.medium)
    | .print .. => none

theorem verdicts_true {thr : String → Tup.Thresholds} {tr : List (State × Event)}
    (h : ∀ s T x d, (s, Event.print T x d) ∈ tr →
      printOk (specThr (thr T)) (s.logs T) x d.token d.rows d.cols s.now = true) :
    ∀ b ∈ verdicts thr tr, b = true := by
  intro b hb
  simp only [verdicts, List.mem_filterMap] at hb
  obtain ⟨⟨s, e⟩, hse, hm⟩ := hb
  cases e with
  | transmit => simp at hm
  | print T x d =>
    simp only [Option.some.injEq] at hm
    rw [← hm]; exact h s T x d hse

def termsOf : List Step → List String
  | [] => []
  | .req r :: rest => r.term :: termsOf rest
  | .env _ :: rest => termsOf rest

def strictB : List Arrival → Bool
  | [] => true
  | a :: rest => rest.all (fun b => decide (b.time < a.time)) && strictB rest

theorem strictB_iff : ∀ (l : List Arrival), strictB l = true ↔ l.Pairwise (fun a b => a.time > b.time)
  | [] => by simp [strictB]
  | a :: rest => by
    simp only [strictB, Bool.and_eq_true, List.all_eq_true, decide_eq_true_eq, List.pairwise_cons,
      strictB_iff rest, gt_iff_lt]

theorem upload_logs_other (cfg : Cfg) (thr : String → Tup.Thresholds) (rb : Bool) (s : State) (r : Request)
    {T : String} (h : T ≠ r.term) : (upload cfg thr rb s r).1.logs T = s.logs T := by
  unfold upload
  split
  · rfl
  · dsimp only
    split
    · rfl
    · rfl
    · split
      · rfl
      · split <;> exact arriveLogs_other _ _ h

theorem run_logs_untouched (cfg : Cfg) (thr : String → Tup.Thresholds) (rb : Bool) :
    ∀ (steps : List Step) (s : State) (T : String), T ∉ termsOf steps → (run cfg thr rb s steps).logs T = s.logs T
  | [], _, _, _ => rfl
  | .req r :: rest, s, T, h => by
    simp only [termsOf, List.mem_cons, not_or] at h
    rw [run, run_logs_untouched cfg thr rb rest _ T h.2]
    simp only [step, request_fst]
    exact upload_logs_other cfg thr rb s r h.1
  | .env e :: rest, s, T, h => by
    simp only [termsOf] at h
    rw [run, run_logs_untouched cfg thr rb rest _ T h]
    simp only [step, envStep_logs]

/-- `StrictTimes` of a concrete history is a finite check -/
theorem strictTimes_of_check {cfg : Cfg} {thr : String → Tup.Thresholds} {rb : Bool} {steps : List Step}
    (h : (termsOf steps).all (fun T => strictB ((run cfg thr rb State.init steps).logs T)) = true) :
    StrictTimes (run cfg thr rb State.init steps) := by
  intro T
  by_cases hT : T ∈ termsOf steps
  · exact (strictB_iff _).1 (List.all_eq_true.1 h T hT)
  · rw [run_logs_untouched cfg thr rb steps _ T hT]; exact List.Pairwise.nil

end Tup.Display
