import Tup.Lemmas.TrkStep
import Tup.Lemmas.TrkBytes
/-! Inputs that satisfy the side conditions of C16's theorems (for the non-vacuity examples). No Mathlib. -/
namespace Tup.Trk
open Tup Tup.Spec

/-- lines of `c` letters `x` -/
def xLines (c r : Nat) : List Bytes := List.replicate r (List.replicate c 120)

theorem parse_x (c : Nat) : parse (List.replicate c 120) = List.replicate c (.char 120) := by
  unfold parse
  rw [List.length_replicate]
  induction c with
  | zero => rfl
  | succ n ih =>
    rw [List.replicate_succ]
    simp [parseAux, ESC, ih]
    rfl

theorem cellCount_x (c : Nat) : cellCount (List.replicate c (.char 120)) = c := by
  induction c with
  | zero => rfl
  | succ n ih =>
    rw [List.replicate_succ, cellCount, ih]
    have : isCombining 120 = false := by decide +kernel
    simp [this]; omega

def xPut (rows cols : Int) (noMove : Bool) : PutArgs := { rows := some rows, cols := some cols, noMove := noMove, lines := xLines }

theorem xPut_WF (rows cols : Int) (noMove : Bool) : (xPut rows cols noMove).WF := by
  intro c r
  refine ⟨by simp [xPut, xLines], ?_⟩
  intro l hl
  simp only [xPut, xLines, List.mem_replicate] at hl
  rw [hl.2]
  refine ⟨?_, by rw [parse_x, cellCount_x]⟩
  intro k hk
  rw [parse_x, List.mem_replicate] at hk
  rw [hk.2]; rfl

theorem closed_x (c : Nat) : Closed (List.replicate c (120 : UInt8)) := by
  induction c with
  | zero => exact closed_nil
  | succ n ih =>
    have h1 : Closed [(120 : UInt8)] := by
      intro rest
      have := parse_step (.char 120) (fun fuel rest => EscL.parse_char1 120 (by decide) (by decide) fuel rest) (by decide) rest
      have e : Tok.serialize (.char 120) = [120] := by decide
      rw [e] at this
      rw [this]
      have e2 : parse [(120 : UInt8)] = [.char 120] := by decide
      rw [e2]; rfl
    rw [List.replicate_succ]
    exact closed_append (a := [120]) h1 ih

theorem xPut_closed (rows cols : Int) (noMove : Bool) : ∀ c r, ∀ l ∈ (xPut rows cols noMove).lines c r, Closed l := by
  intro c r l hl
  simp only [xPut, xLines, List.mem_replicate] at hl
  rw [hl.2]; exact closed_x c

end Tup.Trk
