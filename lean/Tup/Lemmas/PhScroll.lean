import Tup.Lemmas.PhCursor
import Tup.Lemmas.PhStream
/-!
  Multi-line choreography of the cursor-relative styles and of the line-feed styles WITH scrolling, on a terminal with the
  default scroll margins (`top = 0`, `bot = h - 1`).  Term level: the net effect of one non-last line followed by the move
  to the next line (`scrStep`), of `n` of them (`scrRes`), and the closed form of the resulting screen (`vcell`): the
  screen is a window, shifted by the number of lines scrolled, onto a "virtual" screen on which nothing scrolls.
-/
namespace Tup.Ph
open Tup Tup.Spec

/-- default scroll margins, cursor on the screen -/
structure Scr (t : Term) : Prop where
  top : t.top = 0
  bot : t.bot = t.h - 1
  cy : t.cy < t.h

theorem index_down (t : Term) (hs : Scr t) (h : t.cy + 1 < t.h) : t.index = { t with cy := t.cy + 1 } := by
  have h1 : t.cy ≠ t.bot := by have := hs.bot; omega
  simp [Term.index, h1, h]

theorem index_scroll (t : Term) (hs : Scr t) (h : ¬ t.cy + 1 < t.h) : t.index = t.scrollUp1 := by
  have h1 : t.cy = t.bot := by have := hs.bot; have := hs.cy; omega
  simp [Term.index, h1]

/-- state just before the move to the next line: the line's cells written, the cursor column recovered
    (`CSI u`, `CSI n D`) or reset by the tty's CR (line-feed styles) -/
def preIdx (save lf : Bool) (cells : List Cell) (t : Term) : Term :=
  if lf then { t with cells := (writeRow t t.cy t.cx cells).cells, cx := 0, sgr := {} }
  else if save then
    { t with cells := (writeRow t t.cy t.cx cells).cells, saved := some (t.cx, t.cy, t.sgr),
             sgr := if t.cfg.restoreSgr then t.sgr else {} }
  else { t with cells := (writeRow t t.cy t.cx cells).cells, sgr := {} }

@[simp] theorem preIdx_cx (save lf : Bool) (cells : List Cell) (t : Term) :
    (preIdx save lf cells t).cx = if lf then 0 else t.cx := by
  cases lf <;> cases save <;> rfl
@[simp] theorem preIdx_cy (save lf : Bool) (cells : List Cell) (t : Term) : (preIdx save lf cells t).cy = t.cy := by
  cases lf <;> cases save <;> rfl
@[simp] theorem preIdx_w (save lf : Bool) (cells : List Cell) (t : Term) : (preIdx save lf cells t).w = t.w := by
  cases lf <;> cases save <;> rfl
@[simp] theorem preIdx_h (save lf : Bool) (cells : List Cell) (t : Term) : (preIdx save lf cells t).h = t.h := by
  cases lf <;> cases save <;> rfl
@[simp] theorem preIdx_top (save lf : Bool) (cells : List Cell) (t : Term) : (preIdx save lf cells t).top = t.top := by
  cases lf <;> cases save <;> rfl
@[simp] theorem preIdx_bot (save lf : Bool) (cells : List Cell) (t : Term) : (preIdx save lf cells t).bot = t.bot := by
  cases lf <;> cases save <;> rfl
@[simp] theorem preIdx_cfg (save lf : Bool) (cells : List Cell) (t : Term) : (preIdx save lf cells t).cfg = t.cfg := by
  cases lf <;> cases save <;> rfl
@[simp] theorem preIdx_scrolled (save lf : Bool) (cells : List Cell) (t : Term) :
    (preIdx save lf cells t).scrolled = t.scrolled := by
  cases lf <;> cases save <;> rfl
@[simp] theorem preIdx_cells (save lf : Bool) (cells : List Cell) (t : Term) :
    (preIdx save lf cells t).cells = (writeRow t t.cy t.cx cells).cells := by
  cases lf <;> cases save <;> rfl

theorem preIdx_scr (save lf : Bool) (cells : List Cell) (t : Term) (hs : Scr t) : Scr (preIdx save lf cells t) :=
  ⟨by simpa using hs.top, by simpa using hs.bot, by simpa using hs.cy⟩

/-- net effect of one non-last line and the move to the next line (`ESC D` / LF), scrolling when on the bottom line -/
def scrStep (save lf : Bool) (cells : List Cell) (t : Term) : Term := (preIdx save lf cells t).index

/-- everything about `scrStep` that the choreography needs -/
theorem scrStep_spec (save lf : Bool) (cells : List Cell) (t : Term) (hs : Scr t) :
    (scrStep save lf cells t).w = t.w ∧ (scrStep save lf cells t).h = t.h ∧ (scrStep save lf cells t).top = t.top ∧
    (scrStep save lf cells t).bot = t.bot ∧ (scrStep save lf cells t).cfg = t.cfg ∧
    (scrStep save lf cells t).cx = (if lf then 0 else t.cx) ∧
    (scrStep save lf cells t).cy = (if t.cy + 1 < t.h then t.cy + 1 else t.cy) ∧
    (scrStep save lf cells t).scrolled = (if t.cy + 1 < t.h then t.scrolled else t.scrolled + 1) ∧
    (∀ y x, (scrStep save lf cells t).cells y x =
      if t.cy + 1 < t.h then (writeRow t t.cy t.cx cells).cells y x
      else if y < t.h - 1 then (writeRow t t.cy t.cx cells).cells (y + 1) x
      else if y = t.h - 1 then Cell.blank else (writeRow t t.cy t.cx cells).cells y x) := by
  have hs' := preIdx_scr save lf cells t hs
  unfold scrStep
  by_cases h : t.cy + 1 < t.h
  · rw [index_down _ hs' (by simpa using h)]
    simp [h]
  · rw [index_scroll _ hs' (by simpa using h)]
    have h1 := hs.top
    have h2 := hs.bot
    have h3 := hs.cy
    simp only [Term.scrollUp1, preIdx_w, preIdx_h, preIdx_top, preIdx_bot, preIdx_cfg, preIdx_cx, preIdx_cy,
      preIdx_scrolled, preIdx_cells, h, if_false, h1, h2, true_and, Nat.zero_le, and_self, if_true]
    exact fun _ _ => trivial

theorem scrStep_scr (save lf : Bool) (cells : List Cell) (t : Term) (hs : Scr t) : Scr (scrStep save lf cells t) := by
  obtain ⟨_, h2, h3, h4, _, _, h7, _, _⟩ := scrStep_spec save lf cells t hs
  refine ⟨by rw [h3]; exact hs.top, by rw [h4, h2]; exact hs.bot, ?_⟩
  rw [h7, h2]
  have := hs.cy
  split <;> omega

/-- column at which line `i` starts: the cursor column, except that the tty's CR puts the lines after the first at 0 in
    the line-feed styles -/
def lcol (lf : Bool) (cx i : Nat) : Nat := if i = 0 then cx else if lf then 0 else cx

@[simp] theorem lcol_zero (lf : Bool) (cx : Nat) : lcol lf cx 0 = cx := by simp [lcol]
@[simp] theorem lcol_false (cx i : Nat) : lcol false cx i = cx := by simp [lcol]
theorem lcol_true (cx i : Nat) : lcol true cx i = if i = 0 then cx else 0 := by simp [lcol]
theorem lcol_succ (lf : Bool) (cx i : Nat) : lcol lf cx (i + 1) = if lf then 0 else cx := by simp [lcol]
theorem lcol_le (lf : Bool) (cx i : Nat) : lcol lf cx i ≤ cx := by
  unfold lcol; split
  · exact Nat.le_refl _
  · split <;> omega

/-- state after `n` non-last lines (image rows `row …`), each followed by the move to the next line -/
def scrRes (save lf : Bool) (p : Placeholder) (m : Mode) (fmt : FmtT) : Nat → Nat → Term → Term
  | 0, _, t => t
  | n + 1, row, t => scrRes save lf p m fmt n (row + 1) (scrStep save lf (rowCells p m fmt row) t)

theorem scrRes_spec (save lf : Bool) (p : Placeholder) (m : Mode) (fmt : FmtT) : ∀ (n row : Nat) (t : Term), Scr t →
    (scrRes save lf p m fmt n row t).w = t.w ∧ (scrRes save lf p m fmt n row t).h = t.h ∧
    (scrRes save lf p m fmt n row t).top = t.top ∧ (scrRes save lf p m fmt n row t).bot = t.bot ∧
    (scrRes save lf p m fmt n row t).cfg = t.cfg ∧
    (scrRes save lf p m fmt n row t).cx = lcol lf t.cx n ∧
    (scrRes save lf p m fmt n row t).cy = min (t.cy + n) (t.h - 1) ∧
    (scrRes save lf p m fmt n row t).scrolled = t.scrolled + ((t.cy + n - (t.h - 1) : Nat) : Int) := by
  intro n
  induction n with
  | zero =>
    intro row t hs
    have := hs.cy
    refine ⟨rfl, rfl, rfl, rfl, rfl, by simp [scrRes], by simp only [scrRes]; omega, ?_⟩
    have : t.cy - (t.h - 1) = 0 := by omega
    simp [scrRes, this]
  | succ n ih =>
    intro row t hs
    obtain ⟨h1, h2, h3, h4, h5, h6, h7, h8, _⟩ := scrStep_spec save lf (rowCells p m fmt row) t hs
    obtain ⟨i1, i2, i3, i4, i5, i6, i7, i8⟩ := ih (row + 1) _ (scrStep_scr save lf (rowCells p m fmt row) t hs)
    have hcy := hs.cy
    simp only [scrRes]
    refine ⟨by rw [i1, h1], by rw [i2, h2], by rw [i3, h3], by rw [i4, h4], by rw [i5, h5], ?_, ?_, ?_⟩
    · rw [i6, h6, lcol_succ]
      unfold lcol
      cases lf <;> simp
    · rw [i7, h7, h2]
      split <;> omega
    · rw [i8, h8, h7, h2]
      split <;> omega

/-- the cell at column `x` of VIRTUAL row `v` (row numbering of the screen before anything scrolled; rows `≥ h` are the
    lines that scroll in, blank) after `n` lines of image rows `row …` were written from the cursor `(cx, cy)` over the
    content `cells` of a screen of height `h` -/
def vcellR (lf : Bool) (p : Placeholder) (m : Mode) (fmt : FmtT) (cx cy h : Nat) (cells : Nat → Nat → Cell)
    (row n v x : Nat) : Cell :=
  if cy ≤ v ∧ v < cy + n ∧ lcol lf cx (v - cy) ≤ x ∧ x < lcol lf cx (v - cy) + (p.endCol - p.startCol)
  then (rowCells p m fmt (row + (v - cy)))[x - lcol lf cx (v - cy)]?.getD Cell.blank
  else if v < h then cells v x else Cell.blank

/-- `vcellR` for the cursor, height and content of a terminal state -/
def vcell (lf : Bool) (p : Placeholder) (m : Mode) (fmt : FmtT) (t : Term) (row n v x : Nat) : Cell :=
  vcellR lf p m fmt t.cx t.cy t.h t.cells row n v x

theorem lcol_next (lf : Bool) (cx d : Nat) : lcol lf (if lf then 0 else cx) d = if lf then 0 else cx := by
  unfold lcol; cases lf <;> simp

/-- one more line, no scrolling: the first line is written in place, the others are the lines of the rest -/
theorem vcellR_down (lf : Bool) (p : Placeholder) (m : Mode) (fmt : FmtT) (cx cy h : Nat) (cells : Nat → Nat → Cell)
    (row n v x : Nat) (hcy : cy < h) :
    vcellR lf p m fmt (if lf then 0 else cx) (cy + 1) h
      (fun y x => if y = cy ∧ cx ≤ x ∧ x < cx + (p.endCol - p.startCol)
        then (rowCells p m fmt row)[x - cx]?.getD Cell.blank else cells y x) (row + 1) n v x =
    vcellR lf p m fmt cx cy h cells row (n + 1) v x := by
  unfold vcellR
  rcases Nat.lt_trichotomy v cy with hv | hv | hv
  · have a1 : ¬ (cy + 1 ≤ v) := by omega
    have a2 : ¬ (cy ≤ v) := by omega
    have a3 : ¬ (v = cy) := by omega
    simp [a1, a2, a3]
  · subst hv
    have a1 : ¬ (v + 1 ≤ v) := by omega
    simp [a1, hcy]
  · obtain ⟨d, rfl⟩ : ∃ d, v = cy + 1 + d := ⟨v - (cy + 1), by omega⟩
    have e1 : cy + 1 + d - (cy + 1) = d := by omega
    have e2 : cy + 1 + d - cy = d + 1 := by omega
    have e3 : row + 1 + d = row + (d + 1) := by omega
    have a1 : ¬ (cy + 1 + d = cy) := by omega
    have a2 : (cy + 1 ≤ cy + 1 + d) = True := by simp
    have a3 : (cy ≤ cy + 1 + d) = True := by simp; omega
    have a4 : (cy + 1 + d < cy + 1 + n) = (cy + 1 + d < cy + (n + 1)) := by simp; omega
    simp only [e1, e2, e3, a1, a2, a3, a4, lcol_next, lcol_succ, false_and, if_false]

/-- one more line written on the bottom line, then one line scrolled: everything is one virtual row further down -/
theorem vcellR_scroll (lf : Bool) (p : Placeholder) (m : Mode) (fmt : FmtT) (cx cy h : Nat) (cells : Nat → Nat → Cell)
    (row n v x : Nat) (hcy : cy + 1 = h) :
    vcellR lf p m fmt (if lf then 0 else cx) cy h
      (fun y x =>
        if y < h - 1 then
          (if y + 1 = cy ∧ cx ≤ x ∧ x < cx + (p.endCol - p.startCol)
            then (rowCells p m fmt row)[x - cx]?.getD Cell.blank else cells (y + 1) x)
        else if y = h - 1 then Cell.blank
        else (if y = cy ∧ cx ≤ x ∧ x < cx + (p.endCol - p.startCol)
            then (rowCells p m fmt row)[x - cx]?.getD Cell.blank else cells y x)) (row + 1) n v x =
    vcellR lf p m fmt cx cy h cells row (n + 1) (v + 1) x := by
  unfold vcellR
  by_cases hv : cy ≤ v
  · obtain ⟨d, rfl⟩ : ∃ d, v = cy + d := ⟨v - cy, by omega⟩
    have e1 : cy + d - cy = d := by omega
    have e2 : cy + d + 1 - cy = d + 1 := by omega
    have e3 : row + 1 + d = row + (d + 1) := by omega
    have a2 : (cy ≤ cy + d) = True := by simp
    have a3 : (cy ≤ cy + d + 1) = True := by simp; omega
    have a4 : (cy + d + 1 < cy + (n + 1)) = (cy + d < cy + n) := by simp; omega
    have a5 : ¬ (cy + d + 1 < h) := by omega
    have a6 : ¬ (cy + d < h - 1) := by omega
    simp only [e1, e2, e3, a2, a3, a4, a5, a6, lcol_next, lcol_succ, if_false]
    by_cases q1 : cy + d < h
    · have q2 : cy + d = h - 1 := by omega
      simp only [q2, if_true, ite_self]
    · simp only [q1, if_false]
  · have a1 : v < h := by omega
    have a2 : v < h - 1 := by omega
    have a3 : v + 1 < h := by omega
    simp only [hv, false_and, if_false, a1, a2, a3, if_true]
    by_cases h1 : v + 1 = cy
    · have e : v + 1 - cy = 0 := by omega
      have b1 : cy ≤ v + 1 := by omega
      have b2 : v + 1 < cy + (n + 1) := by omega
      simp [h1]
    · have b1 : ¬ (cy ≤ v + 1) := by omega
      simp [h1, b1]

end Tup.Ph

namespace Tup.Ph
open Tup Tup.Spec

theorem scrRes_cells (save lf : Bool) (p : Placeholder) (m : Mode) (fmt : FmtT) (hlt : p.startCol < p.endCol) :
    ∀ (n row : Nat) (t : Term), Scr t → ∀ y' x',
    (scrRes save lf p m fmt n row t).cells y' x' =
      if y' < t.h then vcell lf p m fmt t row n (y' + (t.cy + n - (t.h - 1))) x' else t.cells y' x' := by
  intro n
  induction n with
  | zero =>
    intro row t hs y' x'
    have hcy := hs.cy
    have h0 : t.cy - (t.h - 1) = 0 := by omega
    have h1 : ¬ (t.cy ≤ y' ∧ y' < t.cy ∧ lcol lf t.cx (y' - t.cy) ≤ x' ∧
      x' < lcol lf t.cx (y' - t.cy) + (p.endCol - p.startCol)) := by omega
    simp only [scrRes, vcell, vcellR, Nat.add_zero, h0, h1, if_false]
    split <;> rfl
  | succ n ih =>
    intro row t hs y' x'
    obtain ⟨h1, h2, h3, h4, h5, h6, h7, h8, h9⟩ := scrStep_spec save lf (rowCells p m fmt row) t hs
    have hcy := hs.cy
    simp only [scrRes]
    rw [ih (row + 1) _ (scrStep_scr save lf (rowCells p m fmt row) t hs) y' x']
    simp only [vcell, h2, h7, h6]
    have hcells : (scrStep save lf (rowCells p m fmt row) t).cells = fun y x =>
        if t.cy + 1 < t.h then (writeRow t t.cy t.cx (rowCells p m fmt row)).cells y x
        else if y < t.h - 1 then (writeRow t t.cy t.cx (rowCells p m fmt row)).cells (y + 1) x
        else if y = t.h - 1 then Cell.blank else (writeRow t t.cy t.cx (rowCells p m fmt row)).cells y x := by
      funext y x; exact h9 y x
    rw [hcells]
    simp only [writeRow_cells, rowCells_length p m fmt row hlt]
    by_cases h : t.cy + 1 < t.h
    · simp only [h, if_true]
      have es : t.cy + 1 + n - (t.h - 1) = t.cy + (n + 1) - (t.h - 1) := by omega
      rw [es, vcellR_down lf p m fmt t.cx t.cy t.h t.cells row n _ x' hcy]
      split
      · rfl
      · have : ¬ (y' = t.cy) := by omega
        simp [this]
    · simp only [h, if_false]
      have es : t.cy + n - (t.h - 1) = n := by omega
      have es2 : t.cy + (n + 1) - (t.h - 1) = n + 1 := by omega
      rw [es, es2, vcellR_scroll lf p m fmt t.cx t.cy t.h t.cells row n _ x' (by omega)]
      split
      · rfl
      · have a1 : ¬ (y' < t.h - 1) := by omega
        have a2 : ¬ (y' = t.h - 1) := by omega
        have a3 : ¬ (y' = t.cy) := by omega
        simp [a1, a2, a3]

end Tup.Ph
