import Tup.Model.Response
import Tup.Spec.Response
/-!
  The specification's UTF-8 test (`isUtf8`, by code point arithmetic) implies the model's
  (`utf8Valid`, by the byte ranges of the Unicode standard's table 3-7).
-/
open Tup Tup.Response

namespace Tup.RespLemmas

theorem utf8Ok_imp (f : Nat) (s : Bytes) (h : Spec.Response.utf8Ok f s = true) : utf8ValidAux f s = true := by
  induction f generalizing s with
  | zero => simp [Spec.Response.utf8Ok] at h
  | succ f ih =>
    cases s with
    | nil => simp [utf8ValidAux]
    | cons a r =>
      have ha := a.toNat_lt
      simp only [Spec.Response.utf8Ok] at h
      simp only [utf8ValidAux]
      by_cases h1 : a.toNat < 128
      · simp only [h1, ↓reduceIte] at h ⊢
        exact ih r h
      · simp only [h1, ↓reduceIte] at h
        have h1' : ¬ a.toNat < 0x80 := h1
        simp only [h1', ↓reduceIte]
        cases r with
        | nil => simp at h
        | cons b r1 =>
          have hb := b.toNat_lt
          simp only [] at h
          by_cases h2 : a.toNat / 32 = 6
          · simp only [h2, beq_self_eq_true, ↓reduceIte, Bool.and_eq_true, decide_eq_true_eq, beq_iff_eq] at h
            obtain ⟨⟨h3, h4⟩, h5⟩ := h
            have c1 : 0xC2 ≤ a.toNat ∧ a.toNat ≤ 0xDF := by omega
            simp only [c1, and_self, ↓reduceIte, isCont, Bool.and_eq_true, decide_eq_true_eq]
            exact ⟨by omega, ih r1 h5⟩
          · have h2' : (a.toNat / 32 == 6) = false := by simpa using h2
            simp only [h2', Bool.false_eq_true, ↓reduceIte] at h
            have c1 : ¬ (0xC2 ≤ a.toNat ∧ a.toNat ≤ 0xDF) := by omega
            simp only [c1, ↓reduceIte]
            cases r1 with
            | nil => simp at h
            | cons d r2 =>
              have hd := d.toNat_lt
              simp only [] at h
              by_cases h3 : a.toNat / 16 = 14
              · simp only [h3, beq_self_eq_true, ↓reduceIte, Bool.and_eq_true, decide_eq_true_eq, beq_iff_eq,
                  Bool.not_eq_true', Bool.and_eq_false_iff, decide_eq_false_iff_not] at h
                obtain ⟨⟨⟨⟨hc1, hc2⟩, hge⟩, hsur⟩, hrest⟩ := h
                have c2 : 0xE0 ≤ a.toNat ∧ a.toNat ≤ 0xEF := by omega
                simp only [c2, and_self, ↓reduceIte, Bool.and_eq_true, isCont, inR, decide_eq_true_eq]
                refine ⟨⟨?_, by omega⟩, ih r2 hrest⟩
                by_cases e0 : a.toNat = 0xE0
                · simp only [e0, ↓reduceIte, Bool.and_eq_true, decide_eq_true_eq]; omega
                · by_cases e1 : a.toNat = 0xED
                  · rw [if_neg e0, if_pos e1]
                    simp only [Bool.and_eq_true, decide_eq_true_eq]
                    rcases hsur with hs | hs <;> omega
                  · simp only [e0, e1, ↓reduceIte, Bool.and_eq_true, decide_eq_true_eq]; omega
              · have h3' : (a.toNat / 16 == 14) = false := by simpa using h3
                simp only [h3', Bool.false_eq_true, ↓reduceIte] at h
                have c2 : ¬ (0xE0 ≤ a.toNat ∧ a.toNat ≤ 0xEF) := by omega
                simp only [c2, ↓reduceIte]
                cases r2 with
                | nil => simp at h
                | cons e r3 =>
                  have he := e.toNat_lt
                  simp only [] at h
                  by_cases h4 : a.toNat / 8 = 30
                  · simp only [h4, beq_self_eq_true, ↓reduceIte, Bool.and_eq_true, decide_eq_true_eq, beq_iff_eq] at h
                    obtain ⟨⟨⟨⟨⟨hc1, hc2⟩, hc3⟩, hge⟩, hle⟩, hrest⟩ := h
                    have c3 : 0xF0 ≤ a.toNat ∧ a.toNat ≤ 0xF4 := by omega
                    simp only [c3, and_self, ↓reduceIte, Bool.and_eq_true, isCont, inR, decide_eq_true_eq]
                    refine ⟨⟨⟨?_, by omega⟩, by omega⟩, ih r3 hrest⟩
                    by_cases e0 : a.toNat = 0xF0
                    · simp only [e0, ↓reduceIte, Bool.and_eq_true, decide_eq_true_eq]; omega
                    · by_cases e1 : a.toNat = 0xF4
                      · rw [if_neg e0, if_pos e1]
                        simp only [Bool.and_eq_true, decide_eq_true_eq]; omega
                      · simp only [e0, e1, ↓reduceIte, Bool.and_eq_true, decide_eq_true_eq]; omega
                  · have h4' : (a.toNat / 8 == 30) = false := by simpa using h4
                    simp [h4'] at h

/-- what the specification calls UTF-8, the model's decoder accepts -/
theorem isUtf8_imp (s : Bytes) (h : Spec.Response.isUtf8 s = true) : utf8Valid s = true :=
  utf8Ok_imp _ s h

end Tup.RespLemmas
