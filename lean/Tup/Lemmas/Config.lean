import Tup.Model.Config
import Tup.Spec.Config
/-!
  Helper lemmas for C17: Python's `int(str(n))`, splitting of printed forms.
-/
namespace Tup.Config
open Tup

theorem isDigit_facts {c : Char} (h : c.isDigit = true) :
    digitVal c = some (c.toNat - '0'.toNat) ∧ c ≠ '_' ∧ isWs c = false ∧ c ≠ '-' ∧ c ≠ '+' ∧ c ≠ ':' ∧ c ≠ 'x' := by
  simp only [Char.isDigit, Bool.and_eq_true, decide_eq_true_eq] at h
  have h1 : 48 ≤ c.toNat := by
    have := h.1; simp only [Char.toNat, ge_iff_le, UInt32.le_iff_toNat_le] at *; simpa using this
  have h2 : c.toNat ≤ 57 := by
    have := h.2; simp only [Char.toNat, UInt32.le_iff_toNat_le] at *; simpa using this
  have ne : ∀ d : Char, (d.toNat < 48 ∨ 57 < d.toNat) → c ≠ d := by
    intro d hd hcd; subst hcd; omega
  refine ⟨?_, ne '_' (by decide), ?_, ne '-' (by decide), ne '+' (by decide), ne ':' (by decide), ne 'x' (by decide)⟩
  · unfold digitVal
    have a : '0' ≤ c := h.1
    have b : c ≤ '9' := h.2
    simp [a, b]
  · unfold isWs
    simp [ne ' ' (by decide), ne '\t' (by decide), ne '\n' (by decide), ne '\r' (by decide), ne '\x0b' (by decide),
      ne '\x0c' (by decide)]

theorem digitsAux_digits (l : List Char) (hl : ∀ c ∈ l, c.isDigit = true) (acc n : Nat) (prev : Bool)
    (hne : l ≠ [] ∨ prev = true) :
    digitsAux l acc n prev = some (Nat.ofDigitChars 10 l acc, n + l.length) := by
  induction l generalizing acc n prev with
  | nil =>
      have : prev = true := by simpa using hne
      simp [digitsAux, this, Nat.ofDigitChars]
  | cons c cs ih =>
      have hc := isDigit_facts (hl c (by simp))
      rw [digitsAux]
      simp only [hc.2.1, ↓reduceIte, hc.1]
      rw [ih (fun d hd => hl d (by simp [hd])) _ _ true (Or.inr rfl)]
      simp [Nat.ofDigitChars_cons, Nat.add_comm, Nat.add_left_comm, Nat.mul_comm]

theorem dropWhile_isWs_digits (l : List Char) (hl : ∀ c ∈ l, c.isDigit = true) : l.dropWhile isWs = l := by
  cases l with
  | nil => rfl
  | cons c cs => simp [List.dropWhile, (isDigit_facts (hl c (by simp))).2.2.1]

theorem trimWs_digits (l : List Char) (hl : ∀ c ∈ l, c.isDigit = true) : trimWs l = l := by
  unfold trimWs
  rw [dropWhile_isWs_digits l hl, dropWhile_isWs_digits l.reverse (by simpa using hl), List.reverse_reverse]

theorem toDigits_isDigit (n : Nat) : ∀ c ∈ Nat.toDigits 10 n, c.isDigit = true :=
  fun _ hc => Nat.isDigit_of_mem_toDigits (by decide) (by decide) hc

/-- `int(str(n)) == n` -/
theorem pyInt_repr (n : Nat) : pyInt (toString n) = some (n : Int) := by
  have hd := toDigits_isDigit n
  have hne : Nat.toDigits 10 n ≠ [] := Nat.toDigits_ne_nil
  unfold pyInt
  have e : (toString n).toList = Nat.toDigits 10 n := by
    show (Nat.repr n).toList = _; exact Nat.toList_repr
  rw [e, trimWs_digits _ hd]
  obtain ⟨c, cs, hcs⟩ : ∃ c cs, Nat.toDigits 10 n = c :: cs := by
    cases h : Nat.toDigits 10 n with
    | nil => exact absurd h hne
    | cons c cs => exact ⟨c, cs, rfl⟩
  have hc := isDigit_facts (hd c (by simp [hcs]))
  have hs : splitSign (Nat.toDigits 10 n) = (false, Nat.toDigits 10 n) := by
    rw [hcs]; unfold splitSign; split <;> simp_all
  rw [hs]
  simp only
  have hp : parseDigits (Nat.toDigits 10 n) = some (n, (Nat.toDigits 10 n).length) := by
    unfold parseDigits
    rw [hcs]
    simp only [hc.2.1, ↓reduceIte]
    rw [← hcs, digitsAux_digits _ hd 0 0 false (Or.inl hne), Nat.ofDigitChars_ten_toDigits]
    simp
  rw [hp]
  simp

theorem splitOnChar_none (sep : Char) (l : List Char) (h : sep ∉ l) : splitOnChar sep l = [l] := by
  induction l with
  | nil => rfl
  | cons c cs ih =>
      have h1 : c ≠ sep := fun e => h (by simp [e])
      have h2 : sep ∉ cs := fun e => h (by simp [e])
      simp [splitOnChar, h1, ih h2]

theorem splitOnChar_two (sep : Char) (a b : List Char) (ha : sep ∉ a) (hb : sep ∉ b) :
    splitOnChar sep (a ++ sep :: b) = [a, b] := by
  induction a with
  | nil => simp [splitOnChar, splitOnChar_none sep b hb]
  | cons c cs ih =>
      have h1 : c ≠ sep := fun e => ha (by simp [e])
      have h2 : sep ∉ cs := fun e => ha (by simp [e])
      simp [splitOnChar, h1, ih h2]

theorem toString_nat_toList (n : Nat) : (toString n).toList = Nat.toDigits 10 n := by
  show (Nat.repr n).toList = _; exact Nat.toList_repr

theorem sep_not_in_digits (n : Nat) (sep : Char) (hsep : sep.isDigit = false) : sep ∉ (toString n).toList := by
  rw [toString_nat_toList]
  intro h
  have := toDigits_isDigit n sep h
  simp [hsep] at this

end Tup.Config
