import Tup.Model.Display
import Std.Data.String.ToNat
/-!
  List-level facts for C08: the rendering of descriptions is injective; counting through an injection;
  what the entries of `Spec.laterLatest` are; and the static comparison "the upload table counts at least
  what the adversarial terminal counts" (`later_le_table`) from which `Spec.retained` follows.
-/
namespace Tup.Display
open Tup Tup.Spec

/-! ### `Desc.str` is injective -/

theorem split_unique {α : Type} {c : α} : ∀ {l1 l2 r1 r2 : List α}, c ∉ l1 → c ∉ l2 →
    l1 ++ c :: r1 = l2 ++ c :: r2 → l1 = l2 ∧ r1 = r2
  | [], [], _, _, _, _, h => by simpa using h
  | [], y :: l2, _, _, _, h2, h => by
    simp only [List.nil_append, List.cons_append, List.cons.injEq] at h
    exact absurd h.1 (by intro e; exact h2 (by simp [e]))
  | x :: l1, [], _, _, h1, _, h => by
    simp only [List.nil_append, List.cons_append, List.cons.injEq] at h
    exact absurd h.1 (by intro e; exact h1 (by simp [e]))
  | x :: l1, y :: l2, r1, r2, h1, h2, h => by
    simp only [List.cons_append, List.cons.injEq] at h
    have := split_unique (l1 := l1) (l2 := l2) (r1 := r1) (r2 := r2)
      (fun m => h1 (List.mem_cons_of_mem _ m)) (fun m => h2 (List.mem_cons_of_mem _ m)) h.2
    exact ⟨by rw [h.1, this.1], this.2⟩

theorem space_not_in_repr (n : Nat) : ' ' ∉ n.repr.toList := by
  rw [Nat.toList_repr]
  intro h
  have := Nat.isDigit_of_mem_toDigits (by decide) (by decide) h
  revert this; decide

theorem Desc.str_toList (d : Desc) :
    d.str.toList = d.rows.repr.toList ++ ' ' :: (d.cols.repr.toList ++ ' ' :: d.token.toList) := by
  have h : (" " : String).toList = [' '] := by decide
  simp [Desc.str, String.toList_append, h]

/-- the stored description determines content token and geometry -/
theorem Desc.str_injective {d e : Desc} (h : d.str = e.str) : d = e := by
  have h' := congrArg String.toList h
  rw [Desc.str_toList, Desc.str_toList] at h'
  obtain ⟨hr, h2⟩ := split_unique (space_not_in_repr _) (space_not_in_repr _) h'
  obtain ⟨hc, ht⟩ := split_unique (space_not_in_repr _) (space_not_in_repr _) h2
  have hr' := Nat.repr_injective (String.toList_inj.1 hr)
  have hc' := Nat.repr_injective (String.toList_inj.1 hc)
  have ht' := String.toList_inj.1 ht
  cases d; cases e; simp_all

/-! ### counting through an injection -/

theorem sum_map_erase {β : Type} [BEq β] [LawfulBEq β] (f : β → Nat) {w : β} {W : List β} (h : w ∈ W) :
    (W.map f).sum = f w + ((W.erase w).map f).sum := by
  have := ((List.perm_cons_erase h).map f).sum_nat
  simpa using this

/-- If distinct keys of `V` are matched by entries of `W` with the same key and the same weight, then
    `W` is at least as long and at least as heavy as `V`. -/
theorem inj_count {α β : Type} [BEq β] [LawfulBEq β] (kV : α → Nat) (kW : β → Nat) (sV : α → Nat) (sW : β → Nat) :
    ∀ (V : List α) (W : List β), (V.map kV).Nodup → (∀ v ∈ V, ∃ w ∈ W, kW w = kV v ∧ sW w = sV v) →
      V.length ≤ W.length ∧ (V.map sV).sum ≤ (W.map sW).sum
  | [], _, _, _ => by simp
  | v :: V, W, hnd, h => by
    obtain ⟨w, hw, hk, hs⟩ := h v (by simp)
    simp only [List.map_cons, List.nodup_cons, List.mem_map, not_exists, not_and] at hnd
    have ih := inj_count kV kW sV sW V (W.erase w) hnd.2 (by
      intro v' hv'
      obtain ⟨w', hw', hk', hs'⟩ := h v' (List.mem_cons_of_mem _ hv')
      have hne : w' ≠ w := by
        intro e; subst e
        exact hnd.1 v' hv' (by rw [← hk', hk])
      exact ⟨w', (List.mem_erase_of_ne hne).2 hw', hk', hs'⟩)
    have hl := List.length_erase_of_mem hw
    have hpos : 0 < W.length := List.length_pos_of_mem hw
    have hsum := sum_map_erase sW hw
    simp only [List.length_cons, List.map_cons, List.sum_cons]
    constructor
    · omega
    · omega

/-! ### the arrival log -/

theorem latestFor_cons (a : Arrival) (L : List Arrival) (x : Nat) :
    latestFor (a :: L) x = if a.id = x then some a else latestFor L x := by
  unfold latestFor
  by_cases h : a.id = x <;> simp [h]

theorem latestFor_mem {L : List Arrival} {x : Nat} {a : Arrival} (h : latestFor L x = some a) : a ∈ L ∧ a.id = x := by
  unfold latestFor at h
  exact ⟨List.mem_of_find?_eq_some h, by simpa using List.find?_some h⟩

/-- every entry of `dedupNewest P` is the first of its id in `P` -/
theorem dedupNewest_first : ∀ {P : List Arrival} {c : Arrival}, c ∈ dedupNewest P → latestFor P c.id = some c
  | [], _, h => by simp [dedupNewest] at h
  | a :: r, c, h => by
    simp only [dedupNewest, List.mem_cons, List.mem_filter, bne_iff_ne, ne_eq] at h
    rw [latestFor_cons]
    rcases h with rfl | ⟨hc, hne⟩
    · simp
    · rw [if_neg (fun e => hne e.symm)]
      exact dedupNewest_first hc

theorem dedupNewest_sub : ∀ {P : List Arrival} {c : Arrival}, c ∈ dedupNewest P → c ∈ P
  | [], _, h => by simp [dedupNewest] at h
  | a :: r, c, h => by
    simp only [dedupNewest, List.mem_cons, List.mem_filter] at h
    rcases h with rfl | ⟨hc, _⟩
    · simp
    · exact List.mem_cons_of_mem _ (dedupNewest_sub hc)

theorem dedupNewest_nodup : ∀ (P : List Arrival), ((dedupNewest P).map (·.id)).Nodup
  | [] => by simp [dedupNewest]
  | a :: r => by
    simp only [dedupNewest, List.map_cons, List.nodup_cons, List.mem_map, List.mem_filter, bne_iff_ne, ne_eq,
      not_exists, not_and, and_imp]
    refine ⟨fun c _ hne e => hne e, ?_⟩
    exact (List.filter_sublist.map _).nodup (dedupNewest_nodup r)

/-- an entry of the log before the latest arrival of `x` is not `x`, is in the log, and — times strictly
    decreasing — is strictly newer -/
theorem takeWhile_newer : ∀ {L : List Arrival} {x : Nat} {a b : Arrival},
    L.Pairwise (fun a b => a.time > b.time) → latestFor L x = some a →
    b ∈ L.takeWhile (·.id != x) → b.id ≠ x ∧ a.time < b.time
  | [], _, _, _, _, _, hb => by simp at hb
  | c :: L, x, a, b, hs, hl, hb => by
    rw [latestFor_cons] at hl
    by_cases hc : c.id = x
    · simp [hc] at hb
    · rw [if_neg hc] at hl
      have hcx : (c.id != x) = true := by simpa using hc
      rw [List.takeWhile_cons, hcx] at hb
      simp only [if_true, List.mem_cons] at hb
      rw [List.pairwise_cons] at hs
      rcases hb with rfl | hb
      · exact ⟨hc, hs.1 a (latestFor_mem hl).1⟩
      · exact takeWhile_newer hs.2 hl hb

/-- first-of-its-id in the prefix before `x` is first-of-its-id in the whole log -/
theorem latestFor_of_takeWhile {L : List Arrival} {x : Nat} {c : Arrival}
    (h : latestFor (L.takeWhile (·.id != x)) c.id = some c) : latestFor L c.id = some c := by
  unfold latestFor at *
  conv => lhs; rw [← List.takeWhile_append_dropWhile (p := (·.id != x)) (l := L)]
  rw [List.find?_append, h]; rfl

/-! ### the table counts at least what the terminal counts -/

/-- `hrows`: every image whose latest arrival on the terminal is newer than the record `r` of `x` has its
    own record (same size and time) — the part of the invariant that survives upload-table clean-ups.
    Then the rows the table counts for `x` (`ulater`) are at least as many, and at least as heavy, as the
    images the adversarial terminal counts (`laterLatest`). -/
theorem later_le_table {us : List URow} {L : List Arrival} {T : String} {x t : Nat} {a : Arrival}
    (hs : L.Pairwise (fun a b => a.time > b.time)) (hl : latestFor L x = some a) (hat : a.time = t)
    (hrows : ∀ y b, latestFor L y = some b → t < b.time →
      ∃ r' ∈ us, r'.id = y ∧ r'.term = T ∧ r'.time = b.time ∧ r'.size = b.size) :
    (laterLatest L x).length ≤ (ulater us T t).length ∧
    ((laterLatest L x).map (·.size)).sum ≤ ((ulater us T t).map (·.size)).sum := by
  apply inj_count (fun v : Arrival => v.id) (fun w : URow => w.id) (fun v : Arrival => v.size) (fun w : URow => w.size) _ _
    (dedupNewest_nodup _)
  intro b hb
  have hb1 := dedupNewest_first hb
  have hb2 := takeWhile_newer hs hl (dedupNewest_sub hb)
  obtain ⟨r', hr', hid, hterm, htime, hsize⟩ := hrows b.id b (latestFor_of_takeWhile hb1) (by omega)
  refine ⟨r', ?_, hid, hsize⟩
  unfold ulater
  simp only [List.mem_filter, Bool.and_eq_true, beq_iff_eq, decide_eq_true_eq]
  exact ⟨hr', hterm, by omega⟩

/-- `Spec.retained` from the three table-side bounds -/
theorem retained_of_bounds {thr : Thresholds} {L : List Arrival} {x now : Nat} {a : Arrival}
    (hl : latestFor L x = some a)
    (hn : (laterLatest L x).length < thr.maxUploads)
    (hb : a.size + ((laterLatest L x).map (·.size)).sum ≤ thr.maxBytes)
    (ht : now ≤ a.time + thr.maxTime) :
    retained (specThr thr) L x now = true := by
  unfold retained
  rw [hl]
  have ht' : now - a.time ≤ thr.maxTime := by omega
  simp [specThr, hn, hb, ht']

/-- right after its own arrival an image is retained (the terminal holds what it has just received),
    provided the terminal retains anything at all -/
theorem retained_fresh {thr : Thresholds} (hpos : 0 < thr.maxUploads) (a : Arrival) (L : List Arrival) :
    retained (specThr thr) (a :: L) a.id a.time = true := by
  unfold retained
  rw [latestFor_cons, if_pos rfl]
  simp [laterLatest, dedupNewest, specThr, hpos]

theorem printOk_of_retained {thr : Spec.Thresholds} {L : List Arrival} {x now : Nat} {a : Arrival} {d : Desc}
    (hl : latestFor L x = some a) (hr : retained thr L x now = true)
    (htok : a.token = d.token) (hrows : a.rows = d.rows) (hcols : a.cols = d.cols) :
    printOk thr L x d.token d.rows d.cols now = true := by
  unfold printOk shows
  rw [hr, if_pos rfl, hl]
  simp [htok, hrows, hcols]

end Tup.Display
