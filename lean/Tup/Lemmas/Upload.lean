import Tup.Model.Upload
namespace Tup

theorem applyIO_marked (st : UpSt) (c : IOCall) : (applyIO st c).marked = st.marked := by
  cases c <;> rfl

theorem applyIO_ioDone (st : UpSt) (c : IOCall) : (applyIO st c).ioDone = st.ioDone + 1 := by
  cases c <;> rfl

/-- Executing I/O calls then the mark, with a fault that strikes inside the I/O calls: the error
    surfaces with that fault's kind and nothing is marked. -/
theorem exec_fault_inside (f : Fault) (ios : List IOCall) (tail : List Stmt) (st : UpSt)
    (hm : st.marked = false) (hlo : st.ioDone ≤ f.at_) (hhi : f.at_ < st.ioDone + ios.length) :
    ∃ st', exec (some f) (ios.map .io ++ tail) st = .error (f.kind, st') ∧ st'.marked = false ∧
      f.at_ ≤ st'.ioDone ∧ st'.ioDone ≤ f.at_ + 1 := by
  induction ios generalizing st with
  | nil => simp at hhi; omega
  | cons c rest ih =>
    simp only [List.map_cons, List.cons_append, exec]
    by_cases h : f.at_ = st.ioDone
    · simp only [h, if_true]
      refine ⟨_, rfl, ?_, ?_, ?_⟩
      · split <;> simp [applyIO_marked, hm]
      · split <;> simp [applyIO_ioDone]
      · split <;> simp [applyIO_ioDone]
    · simp only [h, if_false]
      apply ih
      · simp [applyIO_marked, hm]
      · simp [applyIO_ioDone]; omega
      · simp [applyIO_ioDone]; simp at hhi; omega

def ioBytes : List IOCall → Nat
  | [] => 0
  | .flush :: r => ioBytes r
  | .write n :: r => n + ioBytes r

/-- bytes flushed after running `ios` from a state: if the list ends with a flush, everything. -/
theorem exec_no_fault (fault : Option Fault) (ios : List IOCall) (tail : List Stmt) (st : UpSt)
    (hf : ∀ f, fault = some f → f.at_ < st.ioDone ∨ st.ioDone + ios.length ≤ f.at_) :
    exec fault (ios.map .io ++ tail) st =
      exec fault tail (ios.foldl applyIO st) := by
  induction ios generalizing st with
  | nil => simp
  | cons c rest ih =>
    simp only [List.map_cons, List.cons_append, exec, List.foldl_cons]
    cases fault with
    | none => simp; exact ih _ (by simp)
    | some f =>
      have := hf f rfl
      have hne : f.at_ ≠ st.ioDone := by simp at this; omega
      simp only [hne, if_false]
      apply ih
      intro f' hf'
      cases hf'
      simp [applyIO_ioDone]; simp at this; omega

theorem foldl_applyIO_ioDone (ios : List IOCall) (st : UpSt) :
    (ios.foldl applyIO st).ioDone = st.ioDone + ios.length := by
  induction ios generalizing st with
  | nil => simp
  | cons c r ih => simp [ih, applyIO_ioDone]; omega

theorem foldl_applyIO_marked (ios : List IOCall) (st : UpSt) :
    (ios.foldl applyIO st).marked = st.marked := by
  induction ios generalizing st with
  | nil => simp
  | cons c r ih => simp [ih, applyIO_marked]

theorem foldl_applyIO_bytes (ios : List IOCall) (st : UpSt) :
    (ios.foldl applyIO st).bytes = st.bytes + ioBytes ios := by
  induction ios generalizing st with
  | nil => simp [ioBytes]
  | cons c r ih => cases c <;> simp [ih, applyIO, ioBytes]; omega

/-- after the calls of `send` everything written has been flushed -/
theorem foldl_chunks_flushed (chunks : List Nat) (st : UpSt) (h : st.flushedBytes = st.bytes) :
    ((chunks.flatMap fun c => [IOCall.write c, IOCall.flush]).foldl applyIO st).flushedBytes
        = st.bytes + chunks.sum ∧
    ((chunks.flatMap fun c => [IOCall.write c, IOCall.flush]).foldl applyIO st).bytes
        = st.bytes + chunks.sum := by
  induction chunks generalizing st with
  | nil => simp [h]
  | cons c r ih =>
    simp only [List.flatMap_cons, List.cons_append, List.nil_append, List.foldl_cons, List.sum_cons]
    have := ih (applyIO (applyIO st (.write c)) .flush) (by simp [applyIO])
    simp only [applyIO] at this ⊢
    omega

theorem sendCalls_length (chunks : List Nat) : (sendCalls chunks).length = 1 + 2 * chunks.length := by
  unfold sendCalls
  induction chunks with
  | nil => simp
  | cons c r ih => simp [List.flatMap_cons] at ih ⊢; omega

/-- the outcome state of `exec`, whether it completed or was struck by the fault -/
def outcomeState : Except (UpErr × UpSt) UpSt → UpSt
  | .ok st => st
  | .error (_, st) => st

/-- any predicate preserved by every I/O call and by the bookkeeping step holds of the outcome state -/
theorem exec_preserves (P : UpSt → Prop) (hio : ∀ st c, P st → P (applyIO st c))
    (hmark : ∀ st, P st → P { st with marked := true }) (fault : Option Fault) :
    ∀ (prog : List Stmt) (st : UpSt), P st → P (outcomeState (exec fault prog st)) := by
  intro prog
  induction prog with
  | nil => intro st h; simpa [exec, outcomeState] using h
  | cons s rest ih =>
    intro st h
    cases s with
    | mark => simpa [exec] using ih _ (hmark st h)
    | io c =>
      cases fault with
      | none => simpa [exec] using ih _ (hio st c h)
      | some f =>
        simp only [exec]
        split
        · simp only [outcomeState]
          split
          · exact hio st c h
          · exact h
        · exact ih _ (hio st c h)

end Tup
